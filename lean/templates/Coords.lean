--! kinds: R F
/-
Model of the coordinate conversions and the separation functions of pymeeus/Coordinates.py
(property C05), hand-written from the source; tied to the source by the correspondence check
(binary64 instantiation compared bit for bit with CPython).

  Pymeeus/Gen/R/Coords.lean   (Num = ℝ     : the ideal reading, used by the theorems)
  Pymeeus/Gen/F/Coords.lean   (Num = Float : binary64)

An `Angle` object is represented by its `_deg` field (a Num, always the output of
`Angle.reduce_deg`, hence in (-360, 360)); an `Epoch` by its `_jde`.  The few pieces of `Angle`
arithmetic the functions use are modelled here under the prefix `a_` (pymeeus/Angle.py).
Every `math.asin/acos/sqrt` and float `/` is partial in Python: `m_asin`, `m_acos`, `m_sqrt`,
`m_div` raise what CPython raises.
-/
import Pymeeus.Pre@K@
namespace Pymeeus.Gen@K@
namespace Coords
open Pymeeus Pymeeus.P@K@

/-! ### `math` functions that raise -/

/-- `math.asin(x)`: `ValueError` outside [-1, 1]. -/
def m_asin (x : Num) : PyRes Num := if plt 1.0 (pabs x) then .error .valueError else .ok (pasin x)
/-- `math.acos(x)`: `ValueError` outside [-1, 1]. -/
def m_acos (x : Num) : PyRes Num := if plt 1.0 (pabs x) then .error .valueError else .ok (pacos x)
/-- `math.sqrt(x)`: `ValueError` for negative `x`. -/
def m_sqrt (x : Num) : PyRes Num := if plt x 0.0 then .error .valueError else .ok (psqrt x)
/-- float `x / y`: `ZeroDivisionError` for `y == 0`. -/
def m_div (x y : Num) : PyRes Num := if peq y 0.0 then .error .zeroDivisionError else .ok (x / y)

/-! ### The pieces of `Angle` that are used (Angle.py) -/

/-- `Angle.reduce_deg(deg)` (Angle.py:89). -/
def a_reduce (deg : Num) : Num :=
  -- if abs(deg) >= 360.0:
  if ple 360.0 (pabs deg) then
    -- sign = 1.0 if deg >= 0 else -1.0
    let sign : Num := if ple 0.0 deg then 1.0 else -1.0
    -- frac = abs(deg) % 1
    let frac : Num := pmod (pabs deg) 1.0
    -- deg = int(abs(deg)) % 360
    let d : Int := imod (ptrunc (pabs deg)) 360
    -- deg = sign * (deg + frac)
    sign * (ofInt d + frac)
  else deg

/-- `Angle(x, radians=True)`: `reduce_deg(degrees(x))` (Angle.set, Angle.py:313-320). -/
def a_of_rad (x : Num) : Num := a_reduce (pdegrees x)
/-- `Angle.rad()`: `radians(self._deg)`. -/
def a_rad (deg : Num) : Num := pradians deg
/-- `Angle.to_positive()` (Angle.py:559, after fix 92ff91c). -/
def a_to_positive (deg : Num) : Num :=
  -- if self._deg < 0: self._deg = 360.0 - abs(self._deg); if self._deg >= 360.0: self._deg = 0.0
  if plt deg 0.0 then
    let d : Num := 360.0 - pabs deg
    if ple 360.0 d then 0.0 else d
  else deg
/-- `Angle.__add__` / `__radd__` / `__iadd__` with a float or an Angle: `Angle(self._deg + b)`. -/
def a_add (x y : Num) : Num := a_reduce (x + y)
/-- `Angle.__neg__`: `Angle(-self._deg)`. -/
def a_neg (x : Num) : Num := a_reduce (-x)
/-- `Angle.__sub__`: `self.__add__(-b)` for an Angle `b`. -/
def a_sub (x y : Num) : Num := a_add x (a_neg y)
/-- `Angle.__mul__` with a float: `Angle(self._deg * b)`. -/
def a_mul (x y : Num) : Num := a_reduce (x * y)

/-- `Angle(0, 0, s)`: `Angle.dms2deg(0, 0, s)` through `reduce_dms` (Angle.py:113-156, 185-204)
    with `degrees = 0`, `minutes = 0` (ints) and a float `seconds`. -/
def a_of_sec (s : Num) : Num :=
  -- sign = -1.0 if (degrees < 0) or (minutes < 0) or (seconds < 0) else 1.0
  let sign : Num := if plt s 0.0 then -1.0 else 1.0
  -- seconds = abs(seconds)   (degrees % 1 > 0.0 and minutes % 1 > 0.0 are False for the ints 0)
  let seconds : Num := pabs s
  -- if seconds >= 60.0: minutes += int(seconds / 60.0); seconds = seconds % 60
  let ms : Int × Num := if ple 60.0 seconds then (ptrunc (seconds / 60.0), pmod seconds 60.0) else (0, seconds)
  let minutes : Int := ms.1
  let seconds : Num := ms.2
  -- if minutes >= 60.0: degrees += int(minutes / 60.0); minutes = minutes % 60
  let dm : Int × Int := if 60 ≤ minutes then (ptrunc (ofInt minutes / 60.0), imod minutes 60) else (0, minutes)
  -- degrees = degrees % 360
  let degrees : Int := imod dm.1 360
  let minutes : Int := dm.2
  -- deg = sign * (de + mi / 60.0 + se / 3600.0); return Angle.reduce_deg(deg)      (after fix 05d4048)
  a_reduce (sign * (ofInt degrees + ofInt minutes / 60.0 + seconds / 3600.0))

/-! ### Conversions (Coordinates.py:924-1220) -/

/-- `equatorial2ecliptical(right_ascension, declination, obliquity)` (Coordinates.py:924). -/
def equatorial2ecliptical (right_ascension declination obliquity : Num) : PyRes (Num × Num) := do
  let ra := a_rad right_ascension
  let dec := a_rad declination
  let eps := a_rad obliquity
  -- lon = atan2((sin(ra) * cos(eps) + tan(dec) * sin(eps)), cos(ra))
  let lon := patan2 (psin ra * pcos eps + ptan dec * psin eps) (pcos ra)
  -- lat = asin(sin(dec) * cos(eps) - cos(dec) * sin(eps) * sin(ra))
  let lat ← m_asin (psin dec * pcos eps - pcos dec * psin eps * psin ra)
  -- lon = Angle(lon, radians=True); lon = lon.to_positive(); lat = Angle(lat, radians=True)
  pure (a_to_positive (a_of_rad lon), a_of_rad lat)

/-- `ecliptical2equatorial(longitude, latitude, obliquity)` (Coordinates.py:968). -/
def ecliptical2equatorial (longitude latitude obliquity : Num) : PyRes (Num × Num) := do
  let lon := a_rad longitude
  let lat := a_rad latitude
  let eps := a_rad obliquity
  -- ra = atan2((sin(lon) * cos(eps) - tan(lat) * sin(eps)), cos(lon))
  let ra := patan2 (psin lon * pcos eps - ptan lat * psin eps) (pcos lon)
  -- dec = asin(sin(lat) * cos(eps) + cos(lat) * sin(eps) * sin(lon))
  let dec ← m_asin (psin lat * pcos eps + pcos lat * psin eps * psin lon)
  pure (a_to_positive (a_of_rad ra), a_of_rad dec)

/-- `equatorial2horizontal(hour_angle, declination, geo_latitude)` (Coordinates.py:1012). -/
def equatorial2horizontal (hour_angle declination geo_latitude : Num) : PyRes (Num × Num) := do
  let h := a_rad hour_angle
  let dec := a_rad declination
  let lat := a_rad geo_latitude
  -- azi = atan2(sin(h), (cos(h) * sin(lat) - tan(dec) * cos(lat)))
  let azi := patan2 (psin h) (pcos h * psin lat - ptan dec * pcos lat)
  -- ele = asin(sin(lat) * sin(dec) + cos(lat) * cos(dec) * cos(h))
  let ele ← m_asin (psin lat * psin dec + pcos lat * pcos dec * pcos h)
  pure (a_of_rad azi, a_of_rad ele)

/-- `horizontal2equatorial(azimuth, elevation, geo_latitude)` (Coordinates.py:1074). -/
def horizontal2equatorial (azimuth elevation geo_latitude : Num) : PyRes (Num × Num) := do
  let azi := a_rad azimuth
  let ele := a_rad elevation
  let lat := a_rad geo_latitude
  -- h = atan2(sin(azi), (cos(azi) * sin(lat) + tan(ele) * cos(lat)))
  let h := patan2 (psin azi) (pcos azi * psin lat + ptan ele * pcos lat)
  -- dec = asin(sin(lat) * sin(ele) - cos(lat) * cos(ele) * cos(azi))
  let dec ← m_asin (psin lat * psin ele - pcos lat * pcos ele * pcos azi)
  pure (a_of_rad h, a_of_rad dec)

/-- `equatorial2galactic(right_ascension, declination)` (Coordinates.py:1130). -/
def equatorial2galactic (right_ascension declination : Num) : PyRes (Num × Num) := do
  let ra := a_rad right_ascension
  let dec := a_rad declination
  -- c1 = Angle(192.25); c1 = c1.rad(); c1ra = c1 - ra
  let c1 := a_rad (a_reduce 192.25)
  let c1ra := c1 - ra
  -- c2 = Angle(27.4); c2 = c2.rad()
  let c2 := a_rad (a_reduce 27.4)
  -- x = atan2(sin(c1ra), (cos(c1ra) * sin(c2) - tan(dec) * cos(c2)))
  let x := patan2 (psin c1ra) (pcos c1ra * psin c2 - ptan dec * pcos c2)
  -- lon = Angle(-x, radians=True); lon = 303.0 + lon; lon = lon.to_positive()
  let lon := a_of_rad (-x)
  let lon := a_add lon 303.0
  let lon := a_to_positive lon
  -- lat = asin(sin(dec) * sin(c2) + cos(dec) * cos(c2) * cos(c1ra))
  let lat ← m_asin (psin dec * psin c2 + pcos dec * pcos c2 * pcos c1ra)
  pure (lon, a_of_rad lat)

/-- `galactic2equatorial(longitude, latitude)` (Coordinates.py:1177). -/
def galactic2equatorial (longitude latitude : Num) : PyRes (Num × Num) := do
  let lon := a_rad longitude
  let lat := a_rad latitude
  -- c1 = Angle(123.0); c1 = c1.rad(); c2 = Angle(27.4); c2 = c2.rad(); lc1 = lon - c1
  let c1 := a_rad (a_reduce 123.0)
  let c2 := a_rad (a_reduce 27.4)
  let lc1 := lon - c1
  -- y = atan2(sin(lc1), (cos(lc1) * sin(c2) - tan(lat) * cos(c2)))
  let y := patan2 (psin lc1) (pcos lc1 * psin c2 - ptan lat * pcos c2)
  -- y = Angle(y, radians=True); ra = y + 12.25; ra.to_positive()   (to_positive mutates `ra`)
  let ra := a_to_positive (a_add (a_of_rad y) 12.25)
  -- dec = asin(sin(lat) * sin(c2) + cos(lat) * cos(c2) * cos(lc1))
  let dec ← m_asin (psin lat * psin c2 + pcos lat * pcos c2 * pcos lc1)
  pure (ra, a_of_rad dec)

/-! ### Separation, position angle, alignment, enclosing circle -/

/-- the nested `hav(theta)` of `angular_separation`: `(1.0 - cos(theta)) / 2.0`. -/
def hav (theta : Num) : Num := (1.0 - pcos theta) / 2.0

/-- `angular_separation(alpha1, delta1, alpha2, delta2)` (Coordinates.py:1695). -/
def angular_separation (alpha1 delta1 alpha2 delta2 : Num) : PyRes Num := do
  -- dalpha = alpha1 - alpha2; dalpha = dalpha.rad(); ddelta = delta1 - delta2; ddelta = ddelta.rad()
  let dalpha := a_rad (a_sub alpha1 alpha2)
  let ddelta := a_rad (a_sub delta1 delta2)
  let d1 := a_rad delta1
  let d2 := a_rad delta2
  -- theta = 2.0 * asin(sqrt(hav(ddelta) + cos(d1) * cos(d2) * hav(dalpha)))
  let r ← m_sqrt (hav ddelta + pcos d1 * pcos d2 * hav dalpha)
  let s ← m_asin r
  let theta := 2.0 * s
  pure (a_of_rad theta)

/-- `relative_position_angle(alpha1, delta1, alpha2, delta2)` (Coordinates.py:1919). -/
def relative_position_angle (alpha1 delta1 alpha2 delta2 : Num) : Num :=
  -- da = alpha1 - alpha2; da = da.rad(); d1 = delta1.rad(); d2 = delta2.rad()
  let da := a_rad (a_sub alpha1 alpha2)
  let d1 := a_rad delta1
  let d2 := a_rad delta2
  -- p = atan2(sin(da), (cos(d2) * tan(d1) - sin(d2) * cos(da)))
  let p := patan2 (psin da) (pcos d2 * ptan d1 - psin d2 * pcos da)
  a_of_rad p

/-- `min(a)` / `max(a)` of a float list, CPython's left-to-right scan (`m` = first element). -/
def listMin : List Num → Num → Num
  | [], m => m
  | x :: xs, m => listMin xs (if plt x m then x else m)
def listMax : List Num → Num → Num
  | [], m => m
  | x :: xs, m => listMax xs (if plt m x then x else m)
/-- `a.index(v)` (first position with `==`), counted from `i`. -/
def listIndex : List Num → Num → Nat → Nat
  | [], _, i => i
  | x :: xs, v, i => if peq x v then i else listIndex xs v (i + 1)

/-- One pass of the ordering loop of `straight_line`:
    `imin = a.index(min(a)); anew.append(a[imin]); dnew.append(imin); a[imin] = amax`. -/
def sl_step (amax : Num) (st : List Num × List Num × List Nat) : List Num × List Num × List Nat :=
  let a := st.1
  let imin := listIndex a (listMin a (a.headD 0.0)) 0
  (a.set imin amax, st.2.1 ++ [a.getD imin 0.0], st.2.2 ++ [imin])

/-- `straight_line(alpha1, delta1, alpha2, delta2, alpha3, delta3)` (Coordinates.py:2257). -/
def straight_line (alpha1 delta1 alpha2 delta2 alpha3 delta3 : Num) : PyRes (Num × Num) := do
  -- a = [alpha1.rad(), alpha2.rad(), alpha3.rad()]; d = [delta1.rad(), delta2.rad(), delta3.rad()]
  let a0 : List Num := [a_rad alpha1, a_rad alpha2, a_rad alpha3]
  let d0 : List Num := [a_rad delta1, a_rad delta2, a_rad delta3]
  -- amax = max(a) + 1.0
  let amax := listMax a0 (a0.headD 0.0) + 1.0
  -- for _ in range(len(a)): ...
  let st := sl_step amax (sl_step amax (sl_step amax (a0, [], [])))
  let a := st.2.1
  -- for i in range(len(a)): dnew[i] = d[dnew[i]]
  let d := st.2.2.map (fun i => d0.getD i 0.0)
  let a_0 := a.getD 0 0.0; let a_1 := a.getD 1 0.0; let a_2 := a.getD 2 0.0
  let d_0 := d.getD 0 0.0; let d_1 := d.getD 1 0.0; let d_2 := d.getD 2 0.0
  let a1 := pcos d_0 * pcos a_0
  let a2 := pcos d_1 * pcos a_1
  let a3 := pcos d_2 * pcos a_2
  let b1 := pcos d_0 * psin a_0
  let b2 := pcos d_1 * psin a_1
  let b3 := pcos d_2 * psin a_2
  let c1 := psin d_0
  let c2 := psin d_1
  let c3 := psin d_2
  let l1 := b1 * c2 - b2 * c1
  let l2 := b2 * c3 - b3 * c2
  let l3 := b1 * c3 - b3 * c1
  let m1 := c1 * a2 - c2 * a1
  let m2 := c2 * a3 - c3 * a2
  let m3 := c1 * a3 - c3 * a1
  let n1 := a1 * b2 - a2 * b1
  let n2 := a2 * b3 - a3 * b2
  let n3 := a1 * b3 - a3 * b1
  -- psi = acos((l1*l2 + m1*m2 + n1*n2) / (sqrt(l1*l1 + m1*m1 + n1*n1) * sqrt(l2*l2 + m2*m2 + n2*n2)))
  let q1 ← m_div (l1 * l2 + m1 * m2 + n1 * n2)
              (psqrt (l1 * l1 + m1 * m1 + n1 * n1) * psqrt (l2 * l2 + m2 * m2 + n2 * n2))
  let psi ← m_acos q1
  -- omega = asin((a2*l3 + b2*m3 + c2*n3) / (sqrt(a2*a2 + b2*b2 + c2*c2) * sqrt(l3*l3 + m3*m3 + n3*n3)))
  let q2 ← m_div (a2 * l3 + b2 * m3 + c2 * n3)
              (psqrt (a2 * a2 + b2 * b2 + c2 * c2) * psqrt (l3 * l3 + m3 * m3 + n3 * n3))
  let omega ← m_asin q2
  pure (a_of_rad psi, a_of_rad omega)

/-- `circle_diameter(alpha1, delta1, alpha2, delta2, alpha3, delta3)` (Coordinates.py:2356). -/
def circle_diameter (alpha1 delta1 alpha2 delta2 alpha3 delta3 : Num) : PyRes Num := do
  let d12 ← angular_separation alpha1 delta1 alpha2 delta2
  let d13 ← angular_separation alpha1 delta1 alpha3 delta3
  let d23 ← angular_separation alpha2 delta2 alpha3 delta3
  -- if d12 >= d13 and d12 >= d23: a, b, c = d12(), d13(), d23()
  -- elif d13 >= d12 and d13 >= d23: a, b, c = d13(), d12(), d23()
  -- else: a, b, c = d23(), d12(), d13()            (`>=` is `not <` in Angle)
  let abc : Num × Num × Num :=
    if !(plt d12 d13) && !(plt d12 d23) then (d12, d13, d23)
    else if !(plt d13 d12) && !(plt d13 d23) then (d13, d12, d23)
    else (d23, d12, d13)
  let a := abc.1
  let b := abc.2.1
  let c := abc.2.2
  -- if a >= sqrt(b * b + c * c): d = a
  if ple (psqrt (b * b + c * c)) a then
    pure (a_reduce a)
  else
    -- d = (2.0 * a * b * c) / sqrt((a + b + c) * (a + b - c) * (b + c - a) * (a + c - b))
    let r ← m_sqrt ((a + b + c) * (a + b - c) * (b + c - a) * (a + c - b))
    let d ← m_div (2.0 * a * b * c) r
    -- return Angle(d)
    pure (a_reduce d)

end Coords
end Pymeeus.Gen@K@
