--! kinds: R F
/-
Model of the coordinate conversions and the separation functions of pymeeus/Coordinates.py
(property C05), hand-written from the source; tied to the source by the correspondence check
(binary64 instantiation compared bit for bit with CPython).

  Pymeeus/Gen/R/Coords.lean   (Num = ℝ     : the ideal reading, used by the theorems)
  Pymeeus/Gen/F/Coords.lean   (Num = Float : binary64)

An `Angle` object is represented by its `_deg` field (a Num, always the output of
`Angle.reduce_deg`, hence in (-360, 360)); an `Epoch` by its `_jde`.  The few pieces of `Angle`
arithmetic the functions use are modelled here under the prefix `a_` (pymeeus/Angle.py).
Every `math.asin/acos/sqrt` and float `/` is partial in Python: `m_asin`, `m_acos`, `m_sqrt`,
`m_div` raise what CPython raises.
-/
import Pymeeus.Pre@K@
namespace Pymeeus.Gen@K@
namespace Coords
open Pymeeus Pymeeus.P@K@

/-! ### `math` functions that raise -/

/-- `math.asin(x)`: `ValueError` outside [-1, 1]. -/
def m_asin (x : Num) : PyRes Num := if plt 1.0 (pabs x) then .error .valueError else .ok (pasin x)
/-- `math.acos(x)`: `ValueError` outside [-1, 1]. -/
def m_acos (x : Num) : PyRes Num := if plt 1.0 (pabs x) then .error .valueError else .ok (pacos x)
/-- `math.sqrt(x)`: `ValueError` for negative `x`. -/
def m_sqrt (x : Num) : PyRes Num := if plt x 0.0 then .error .valueError else .ok (psqrt x)
/-- float `x / y`: `ZeroDivisionError` for `y == 0`. -/
def m_div (x y : Num) : PyRes Num := if peq y 0.0 then .error .zeroDivisionError else .ok (x / y)

/-! ### The pieces of `Angle` that are used (Angle.py) -/

/-- `Angle.reduce_deg(deg)` (Angle.py:89). -/
def a_reduce (deg : Num) : Num :=
  -- if abs(deg) >= 360.0:
  if ple 360.0 (pabs deg) then
    -- sign = 1.0 if deg >= 0 else -1.0
    let sign : Num := if ple 0.0 deg then 1.0 else -1.0
    -- frac = abs(deg) % 1
    let frac : Num := pmod (pabs deg) 1.0
    -- deg = int(abs(deg)) % 360
    let d : Int := imod (ptrunc (pabs deg)) 360
    -- deg = sign * (deg + frac)
    sign * (ofInt d + frac)
  else deg

/-- `Angle(x, radians=True)`: `reduce_deg(degrees(x))` (Angle.set, Angle.py:313-320). -/
def a_of_rad (x : Num) : Num := a_reduce (pdegrees x)
/-- `Angle.rad()`: `radians(self._deg)`. -/
def a_rad (deg : Num) : Num := pradians deg
/-- `Angle.to_positive()` (Angle.py:559, after fix 92ff91c). -/
def a_to_positive (deg : Num) : Num :=
  -- if self._deg < 0: self._deg = 360.0 - abs(self._deg); if self._deg >= 360.0: self._deg = 0.0
  if plt deg 0.0 then
    let d : Num := 360.0 - pabs deg
    if ple 360.0 d then 0.0 else d
  else deg
/-- `Angle.__add__` / `__radd__` / `__iadd__` with a float or an Angle: `Angle(self._deg + b)`. -/
def a_add (x y : Num) : Num := a_reduce (x + y)
/-- `Angle.__neg__`: `Angle(-self._deg)`. -/
def a_neg (x : Num) : Num := a_reduce (-x)
/-- `Angle.__sub__`: `self.__add__(-b)` for an Angle `b`. -/
def a_sub (x y : Num) : Num := a_add x (a_neg y)
/-- `Angle.__mul__` with a float: `Angle(self._deg * b)`. -/
def a_mul (x y : Num) : Num := a_reduce (x * y)

/-- `Angle(0, 0, s)`: `Angle.dms2deg(0, 0, s)` through `reduce_dms` (Angle.py:113-156, 185-204)
    with `degrees = 0`, `minutes = 0` (ints) and a float `seconds`. -/
def a_of_sec (s : Num) : Num :=
  -- sign = -1.0 if (degrees < 0) or (minutes < 0) or (seconds < 0) else 1.0
  let sign : Num := if plt s 0.0 then -1.0 else 1.0
  -- seconds = abs(seconds)   (degrees % 1 > 0.0 and minutes % 1 > 0.0 are False for the ints 0)
  let seconds : Num := pabs s
  -- if seconds >= 60.0: minutes += int(seconds / 60.0); seconds = seconds % 60
  let ms : Int × Num := if ple 60.0 seconds then (ptrunc (seconds / 60.0), pmod seconds 60.0) else (0, seconds)
  let minutes : Int := ms.1
  let seconds : Num := ms.2
  -- if minutes >= 60.0: degrees += int(minutes / 60.0); minutes = minutes % 60
  let dm : Int × Int := if 60 ≤ minutes then (ptrunc (ofInt minutes / 60.0), imod minutes 60) else (0, minutes)
  -- degrees = degrees % 360
  let degrees : Int := imod dm.1 360
  let minutes : Int := dm.2
  -- deg = sign * (de + mi / 60.0 + se / 3600.0); return Angle.reduce_deg(deg)      (after fix 05d4048)
  a_reduce (sign * (ofInt degrees + ofInt minutes / 60.0 + seconds / 3600.0))

/-! ### Conversions (Coordinates.py:924-1220) -/

/-- `equatorial2ecliptical(right_ascension, declination, obliquity)` (Coordinates.py:924). -/
def equatorial2ecliptical (right_ascension declination obliquity : Num) : PyRes (Num × Num) := do
  let ra := a_rad right_ascension
  let dec := a_rad declination
  let eps := a_rad obliquity
  -- x = cos(dec) * cos(ra); y = cos(dec) * sin(ra) * cos(eps) + sin(dec) * sin(eps)
  let x := pcos dec * pcos ra
  let y := pcos dec * psin ra * pcos eps + psin dec * psin eps
  -- z = sin(dec) * cos(eps) - cos(dec) * sin(eps) * sin(ra)
  let z := psin dec * pcos eps - pcos dec * psin eps * psin ra
  -- lon = atan2(y, x); lat = atan2(z, sqrt(x * x + y * y))
  let lon := patan2 y x
  let lat := patan2 z (psqrt (x * x + y * y))
  -- lon = Angle(lon, radians=True); lon = lon.to_positive(); lat = Angle(lat, radians=True)
  pure (a_to_positive (a_of_rad lon), a_of_rad lat)

/-- `ecliptical2equatorial(longitude, latitude, obliquity)` (Coordinates.py:968). -/
def ecliptical2equatorial (longitude latitude obliquity : Num) : PyRes (Num × Num) := do
  let lon := a_rad longitude
  let lat := a_rad latitude
  let eps := a_rad obliquity
  -- x = cos(lat) * cos(lon); y = cos(lat) * sin(lon) * cos(eps) - sin(lat) * sin(eps)
  let x := pcos lat * pcos lon
  let y := pcos lat * psin lon * pcos eps - psin lat * psin eps
  -- z = sin(lat) * cos(eps) + cos(lat) * sin(eps) * sin(lon)
  let z := psin lat * pcos eps + pcos lat * psin eps * psin lon
  -- ra = atan2(y, x); dec = atan2(z, sqrt(x * x + y * y))
  let ra := patan2 y x
  let dec := patan2 z (psqrt (x * x + y * y))
  pure (a_to_positive (a_of_rad ra), a_of_rad dec)

/-- `equatorial2horizontal(hour_angle, declination, geo_latitude)` (Coordinates.py:1012). -/
def equatorial2horizontal (hour_angle declination geo_latitude : Num) : PyRes (Num × Num) := do
  let h := a_rad hour_angle
  let dec := a_rad declination
  let lat := a_rad geo_latitude
  -- x = cos(dec) * cos(h) * sin(lat) - sin(dec) * cos(lat); y = cos(dec) * sin(h)
  let x := pcos dec * pcos h * psin lat - psin dec * pcos lat
  let y := pcos dec * psin h
  -- z = sin(lat) * sin(dec) + cos(lat) * cos(dec) * cos(h)
  let z := psin lat * psin dec + pcos lat * pcos dec * pcos h
  -- azi = atan2(y, x); ele = atan2(z, sqrt(x * x + y * y))
  let azi := patan2 y x
  let ele := patan2 z (psqrt (x * x + y * y))
  pure (a_of_rad azi, a_of_rad ele)

/-- `horizontal2equatorial(azimuth, elevation, geo_latitude)` (Coordinates.py:1074). -/
def horizontal2equatorial (azimuth elevation geo_latitude : Num) : PyRes (Num × Num) := do
  let azi := a_rad azimuth
  let ele := a_rad elevation
  let lat := a_rad geo_latitude
  -- x = cos(ele) * cos(azi) * sin(lat) + sin(ele) * cos(lat); y = cos(ele) * sin(azi)
  let x := pcos ele * pcos azi * psin lat + psin ele * pcos lat
  let y := pcos ele * psin azi
  -- z = sin(lat) * sin(ele) - cos(lat) * cos(ele) * cos(azi)
  let z := psin lat * psin ele - pcos lat * pcos ele * pcos azi
  -- h = atan2(y, x); dec = atan2(z, sqrt(x * x + y * y))
  let h := patan2 y x
  let dec := patan2 z (psqrt (x * x + y * y))
  pure (a_of_rad h, a_of_rad dec)

/-- `equatorial2galactic(right_ascension, declination)` (Coordinates.py:1130). -/
def equatorial2galactic (right_ascension declination : Num) : PyRes (Num × Num) := do
  let ra := a_rad right_ascension
  let dec := a_rad declination
  -- c1 = Angle(192.25); c1 = c1.rad(); c1ra = c1 - ra
  let c1 := a_rad (a_reduce 192.25)
  let c1ra := c1 - ra
  -- c2 = Angle(27.4); c2 = c2.rad()
  let c2 := a_rad (a_reduce 27.4)
  -- xx = cos(dec) * cos(c1ra) * sin(c2) - sin(dec) * cos(c2); yy = cos(dec) * sin(c1ra)
  let xx := pcos dec * pcos c1ra * psin c2 - psin dec * pcos c2
  let yy := pcos dec * psin c1ra
  -- zz = sin(dec) * sin(c2) + cos(dec) * cos(c2) * cos(c1ra)
  let zz := psin dec * psin c2 + pcos dec * pcos c2 * pcos c1ra
  -- x = atan2(yy, xx)
  let x := patan2 yy xx
  -- lon = Angle(-x, radians=True); lon = 303.0 + lon; lon = lon.to_positive()
  let lon := a_of_rad (-x)
  let lon := a_add lon 303.0
  let lon := a_to_positive lon
  -- lat = atan2(zz, sqrt(xx * xx + yy * yy))
  let lat := patan2 zz (psqrt (xx * xx + yy * yy))
  pure (lon, a_of_rad lat)

/-- `galactic2equatorial(longitude, latitude)` (Coordinates.py:1177). -/
def galactic2equatorial (longitude latitude : Num) : PyRes (Num × Num) := do
  let lon := a_rad longitude
  let lat := a_rad latitude
  -- c1 = Angle(123.0); c1 = c1.rad(); c2 = Angle(27.4); c2 = c2.rad(); lc1 = lon - c1
  let c1 := a_rad (a_reduce 123.0)
  let c2 := a_rad (a_reduce 27.4)
  let lc1 := lon - c1
  -- xx = cos(lat) * cos(lc1) * sin(c2) - sin(lat) * cos(c2); yy = cos(lat) * sin(lc1)
  let xx := pcos lat * pcos lc1 * psin c2 - psin lat * pcos c2
  let yy := pcos lat * psin lc1
  -- zz = sin(lat) * sin(c2) + cos(lat) * cos(c2) * cos(lc1)
  let zz := psin lat * psin c2 + pcos lat * pcos c2 * pcos lc1
  -- y = atan2(yy, xx)
  let y := patan2 yy xx
  -- y = Angle(y, radians=True); ra = y + 12.25; ra.to_positive()   (to_positive mutates `ra`)
  let ra := a_to_positive (a_add (a_of_rad y) 12.25)
  -- dec = atan2(zz, sqrt(xx * xx + yy * yy))
  let dec := patan2 zz (psqrt (xx * xx + yy * yy))
  pure (ra, a_of_rad dec)

/-! ### Separation, position angle, alignment, enclosing circle -/

/-- `angular_separation(alpha1, delta1, alpha2, delta2)` (Coordinates.py), Meeus' x, y, z formula. -/
def angular_separation (alpha1 delta1 alpha2 delta2 : Num) : PyRes Num := do
  -- dalpha = alpha1 - alpha2; dalpha = dalpha.rad(); d1 = delta1.rad(); d2 = delta2.rad()
  let dalpha := a_rad (a_sub alpha1 alpha2)
  let d1 := a_rad delta1
  let d2 := a_rad delta2
  -- x = cos(d1) * sin(d2) - sin(d1) * cos(d2) * cos(dalpha); y = cos(d2) * sin(dalpha)
  let x := pcos d1 * psin d2 - psin d1 * pcos d2 * pcos dalpha
  let y := pcos d2 * psin dalpha
  -- z = sin(d1) * sin(d2) + cos(d1) * cos(d2) * cos(dalpha)
  let z := psin d1 * psin d2 + pcos d1 * pcos d2 * pcos dalpha
  -- theta = atan2(sqrt(x * x + y * y), z); theta = Angle(theta, radians=True)
  let theta := patan2 (psqrt (x * x + y * y)) z
  pure (a_of_rad theta)

/-- `relative_position_angle(alpha1, delta1, alpha2, delta2)` (Coordinates.py). -/
def relative_position_angle (alpha1 delta1 alpha2 delta2 : Num) : Num :=
  -- da = alpha1() - alpha2()
  let da0 := alpha1 - alpha2
  -- if abs(da) > 180.0: turn = 360.0 if da > 0.0 else -360.0
  --     if abs(alpha1()) >= abs(alpha2()): da = (alpha1() - turn) - alpha2()  else: da = alpha1() - (alpha2() + turn)
  let da1 : Num :=
    if plt 180.0 (pabs da0) then
      let turn : Num := if plt 0.0 da0 then 360.0 else -360.0
      if ple (pabs alpha2) (pabs alpha1) then (alpha1 - turn) - alpha2 else alpha1 - (alpha2 + turn)
    else da0
  -- da = radians(da); dd = radians(delta1() - delta2()); d1 = delta1.rad(); d2 = delta2.rad()
  let da := pradians da1
  let dd := pradians (delta1 - delta2)
  let d1 := a_rad delta1
  let d2 := a_rad delta2
  -- s = sin(da / 2.0); north = sin(dd) + 2.0 * sin(d2) * cos(d1) * s * s
  let s := psin (da / 2.0)
  let north := psin dd + 2.0 * psin d2 * pcos d1 * s * s
  -- p = atan2(cos(d1) * sin(da), north)
  let p := patan2 (pcos d1 * psin da) north
  a_of_rad p

/-- Python `min(a, b)` / `max(a, b)` on floats: the second argument only if it is strictly smaller / larger. -/
def pmin2 (a b : Num) : Num := if plt b a then b else a
def pmax2 (a b : Num) : Num := if plt a b then b else a

/-- `min(a)` / `max(a)` of a float list, CPython's left-to-right scan (`m` = first element). -/
def listMin : List Num → Num → Num
  | [], m => m
  | x :: xs, m => listMin xs (if plt x m then x else m)
def listMax : List Num → Num → Num
  | [], m => m
  | x :: xs, m => listMax xs (if plt m x then x else m)
/-- `a.index(v)` (first position with `==`), counted from `i`. -/
def listIndex : List Num → Num → Nat → Nat
  | [], _, i => i
  | x :: xs, v, i => if peq x v then i else listIndex xs v (i + 1)

/-- One pass of the ordering loop of `straight_line`:
    `imin = a.index(min(a)); anew.append(a[imin]); dnew.append(imin); a[imin] = amax`. -/
def sl_step (amax : Num) (st : List Num × List Num × List Nat) : List Num × List Num × List Nat :=
  let a := st.1
  let imin := listIndex a (listMin a (a.headD 0.0)) 0
  (a.set imin amax, st.2.1 ++ [a.getD imin 0.0], st.2.2 ++ [imin])

/-- `straight_line(alpha1, delta1, alpha2, delta2, alpha3, delta3)` (Coordinates.py:2257). -/
def straight_line (alpha1 delta1 alpha2 delta2 alpha3 delta3 : Num) : PyRes (Num × Num) := do
  -- a = [alpha1.rad(), alpha2.rad(), alpha3.rad()]; d = [delta1.rad(), delta2.rad(), delta3.rad()]
  let a0 : List Num := [a_rad alpha1, a_rad alpha2, a_rad alpha3]
  let d0 : List Num := [a_rad delta1, a_rad delta2, a_rad delta3]
  -- amax = max(a) + 1.0
  let amax := listMax a0 (a0.headD 0.0) + 1.0
  -- for _ in range(len(a)): ...
  let st := sl_step amax (sl_step amax (sl_step amax (a0, [], [])))
  let a := st.2.1
  -- for i in range(len(a)): dnew[i] = d[dnew[i]]
  let d := st.2.2.map (fun i => d0.getD i 0.0)
  let a_0 := a.getD 0 0.0; let a_1 := a.getD 1 0.0; let a_2 := a.getD 2 0.0
  let d_0 := d.getD 0 0.0; let d_1 := d.getD 1 0.0; let d_2 := d.getD 2 0.0
  let a1 := pcos d_0 * pcos a_0
  let a2 := pcos d_1 * pcos a_1
  let a3 := pcos d_2 * pcos a_2
  let b1 := pcos d_0 * psin a_0
  let b2 := pcos d_1 * psin a_1
  let b3 := pcos d_2 * psin a_2
  let c1 := psin d_0
  let c2 := psin d_1
  let c3 := psin d_2
  let l1 := b1 * c2 - b2 * c1
  let l2 := b2 * c3 - b3 * c2
  let l3 := b1 * c3 - b3 * c1
  let m1 := c1 * a2 - c2 * a1
  let m2 := c2 * a3 - c3 * a2
  let m3 := c1 * a3 - c3 * a1
  let n1 := a1 * b2 - a2 * b1
  let n2 := a2 * b3 - a3 * b2
  let n3 := a1 * b3 - a3 * b1
  -- psi = acos((l1*l2 + m1*m2 + n1*n2) / (sqrt(l1*l1 + m1*m1 + n1*n1) * sqrt(l2*l2 + m2*m2 + n2*n2)))
  let q1 ← m_div (l1 * l2 + m1 * m2 + n1 * n2)
              (psqrt (l1 * l1 + m1 * m1 + n1 * n1) * psqrt (l2 * l2 + m2 * m2 + n2 * n2))
  -- psi = acos(max(-1.0, min(1.0, cos_psi)))
  let psi ← m_acos (pmax2 (-1.0) (pmin2 1.0 q1))
  -- omega = asin((a2*l3 + b2*m3 + c2*n3) / (sqrt(a2*a2 + b2*b2 + c2*c2) * sqrt(l3*l3 + m3*m3 + n3*n3)))
  let q2 ← m_div (a2 * l3 + b2 * m3 + c2 * n3)
              (psqrt (a2 * a2 + b2 * b2 + c2 * c2) * psqrt (l3 * l3 + m3 * m3 + n3 * n3))
  -- omega = asin(max(-1.0, min(1.0, sin_omega)))
  let omega ← m_asin (pmax2 (-1.0) (pmin2 1.0 q2))
  pure (a_of_rad psi, a_of_rad omega)

/-- `circle_diameter(alpha1, delta1, alpha2, delta2, alpha3, delta3)` (Coordinates.py:2356). -/
def circle_diameter (alpha1 delta1 alpha2 delta2 alpha3 delta3 : Num) : PyRes Num := do
  let d12 ← angular_separation alpha1 delta1 alpha2 delta2
  let d13 ← angular_separation alpha1 delta1 alpha3 delta3
  let d23 ← angular_separation alpha2 delta2 alpha3 delta3
  -- if d12 >= d13 and d12 >= d23: a, b, c = d12(), d13(), d23()
  -- elif d13 >= d12 and d13 >= d23: a, b, c = d13(), d12(), d23()
  -- else: a, b, c = d23(), d12(), d13()            (`>=` is `not <` in Angle)
  let abc : Num × Num × Num :=
    if !(plt d12 d13) && !(plt d12 d23) then (d12, d13, d23)
    else if !(plt d13 d12) && !(plt d13 d23) then (d13, d12, d23)
    else (d23, d12, d13)
  let a := abc.1
  let b := abc.2.1
  let c := abc.2.2
  -- if a >= sqrt(b * b + c * c): d = a
  if ple (psqrt (b * b + c * c)) a then
    pure (a_reduce a)
  else
    -- d = (2.0 * a * b * c) / sqrt((a + b + c) * (a + b - c) * (b + c - a) * (a + c - b))
    let r ← m_sqrt ((a + b + c) * (a + b - c) * (b + c - a) * (a + c - b))
    let d ← m_div (2.0 * a * b * c) r
    -- return Angle(d)
    pure (a_reduce d)

end Coords
end Pymeeus.Gen@K@
