--! kinds: R F
/-
Model of the VSOP87 series evaluation of pymeeus/Coordinates.py (`vsop_pos`, `geometric_vsop_pos`,
`apparent_vsop_pos`, `orbital_elements`), of the nutation series (`nutation_longitude`,
`nutation_obliquity`) that `apparent_vsop_pos` calls, and of the few `Angle` operations these use
(mirrored here under the names `ang…`; Angle.py is modelled as a whole elsewhere).
Hand-written from the source, statement by statement (Python quoted in comments); tied to the source by
the bit-for-bit correspondence run of harness/c07.py.  The coefficient tables are NOT written here: they
are regenerated from the source by tools/gen_tables.py (lean/PymeeusTables/*.lean, Gen/@K@/TablesSmall.lean), and
so are the per-planet wrappers (Gen/@K@/VsopPlanets.lean).

Instantiations: Gen/R (Num = ℝ, theorems) and Gen/F (Num = Float, compared bit for bit with CPython).
An `Angle` is represented by its `_deg` field; an `Epoch` by its `_jde` field.
-/
import Pymeeus.Pre@K@
import Pymeeus.TableDefs
import PymeeusTables.Scale
import Pymeeus.Gen.@K@.TablesSmall
namespace Pymeeus.Gen@K@
open Pymeeus Pymeeus.P@K@
/- everything of C07-C09 lives in the sub-namespace `Helio`, so that the Python names used here
   (`kepler_equation`, `ecliptical2equatorial`, `mean_obliquity`, …) cannot clash with other templates -/
namespace Helio

/-! ### The `Angle` operations used by the series code -/

/-- `Angle.reduce_deg(deg)` (Angle.py:86) for a float argument. -/
def angReduce (deg : Num) : Num :=
  -- if abs(deg) >= 360.0:
  if ple 360.0 (pabs deg) then
    -- sign = 1.0 if deg >= 0 else -1.0
    let sign : Num := if ple 0.0 deg then 1.0 else -1.0
    -- frac = abs(deg) % 1
    let frac := pmod (pabs deg) 1.0
    -- deg = int(abs(deg)) % 360
    let d : Int := imod (ptrunc (pabs deg)) 360
    -- deg = sign * (deg + frac)
    sign * (ofInt d + frac)
  else deg

/-- `Angle(x)` for a float `x`: `self._deg = Angle.reduce_deg(x)`. -/
def angOfDeg (x : Num) : Num := angReduce x

/-- `Angle(x, radians=True)`: `deg = degrees(x)`, then `reduce_deg`. -/
def angOfRad (x : Num) : Num := angReduce (pdegrees x)

/-- `Angle.to_positive()` (Angle.py, after the fix "never returns 360.0"). -/
def angToPositive (deg : Num) : Num :=
  -- if self._deg < 0:
  if plt deg 0.0 then
    -- self._deg = 360.0 - abs(self._deg)
    let d := 360.0 - pabs deg
    -- if self._deg >= 360.0: self._deg = 0.0
    if ple 360.0 d then 0.0 else d
  else deg

/-- `Angle(d, m, s)` = `dms2deg(d, m, s)` through `reduce_dms`, for `int` degrees and minutes and a
    float number of seconds (the only form the series code uses: `Angle(0, 0, x)`, `Angle(23, 26, 21.448)`).
    For `int` arguments the two `x % 1 > 0.0` branches of `reduce_dms` are not taken. -/
def angDms (degrees minutes : Int) (seconds : Num) : Num :=
  -- sign = -1.0 if degrees < 0 or minutes < 0 or seconds < 0 else 1.0
  let sign : Num := if degrees < 0 ∨ minutes < 0 ∨ plt seconds 0.0 = true then -1.0 else 1.0
  -- degrees = abs(degrees); minutes = abs(minutes); seconds = abs(seconds)
  let degrees : Int := degrees.natAbs
  let minutes : Int := minutes.natAbs
  let seconds := pabs seconds
  -- if seconds >= 60.0: minutes += int(seconds / 60.0); seconds = seconds % 60
  let ms : Int × Num :=
    if ple 60.0 seconds then (minutes + ptrunc (seconds / 60.0), pmod seconds 60.0) else (minutes, seconds)
  let minutes := ms.1
  let seconds := ms.2
  -- if minutes >= 60.0: degrees += int(minutes / 60.0); minutes = minutes % 60
  let dm : Int × Int :=
    if minutes ≥ 60 then (degrees + ptrunc (ofInt minutes / 60.0), imod minutes 60) else (degrees, minutes)
  -- degrees = degrees % 360
  let degrees := imod dm.1 360
  let minutes := dm.2
  -- deg = sign * (de + mi / 60.0 + se / 3600.0)
  -- return Angle.reduce_deg(deg)        (the binary64 sum may round up to a whole turn)
  angReduce (sign * (ofInt degrees + ofInt minutes / 60.0 + seconds / 3600.0))

/-- `Angle + Angle`, `Angle + float`, `+=`: `Angle(self._deg + b)`. -/
def angAdd (a b : Num) : Num := angReduce (a + b)
/-- `Angle - float`: `self.__add__(-b)` = `Angle(self._deg + float(-b))`. -/
def angSubF (a b : Num) : Num := angReduce (a + (-b))
/-- `-Angle`: `Angle(-self._deg)`. -/
def angNeg (a : Num) : Num := angReduce (-a)
/-- `int * Angle` (`__rmul__` → `__mul__`): `Angle(self._deg * float(k))`. -/
def angMulI (a : Num) (k : Int) : Num := angReduce (a * ofInt k)
/-- `Angle.rad()`: `radians(self._deg)`. -/
def angRad (a : Num) : Num := pradians a

/-! ### Tables as numbers -/

--@only R
/-- the number `n / 10^k` (a decimal literal of the source, stored as a scaled integer) -/
def numOfScaled (n : Int) (k : Nat) : Num := (n : ℝ) / (10 : ℝ) ^ k
--@end
--@only F
/-- the double nearest to `n / 10^k`: what CPython's parser makes of the decimal literal.  A single
    IEEE division of two exactly representable numbers is correctly rounded; otherwise the exact
    rational is rounded by `PF.ofRat`. -/
def numOfScaled (n : Int) (k : Nat) : Num :=
  if n.natAbs < 9007199254740992 && k ≤ 22 then Float.ofInt n / Float.ofNat (10 ^ k)
  else PF.ofRat ((n : Rat) / ((10 ^ k : Nat) : Rat))
--@end

abbrev VsopSeries := List (Num × Num × Num)
abbrev VsopTable := List VsopSeries

def termOfScaled (x : Tables.Term3) : Num × Num × Num :=
  (numOfScaled x.1 Tables.expA, numOfScaled x.2.1 Tables.expB, numOfScaled x.2.2 Tables.expC)

/-- a generated table (scaled integers) as a table of numbers -/
def vsopOfScaled (t : List (List Tables.Term3)) : VsopTable := t.map fun s => s.map termOfScaled

/-! ### `vsop_pos` (Coordinates.py:2432) -/

/-- `s = 0.0; for k in range(len(series)): s += series[k][0] * cos(series[k][1] + series[k][2] * t)` -/
def series_sum (series : VsopSeries) (t : Num) : Num :=
  series.foldl (fun s x => s + x.1 * pcos (x.2.1 + x.2.2 * t)) 0.0

/-- `x = 0.0; for i in range(len(sum_list) - 1, 0, -1): x = (x + sum_list[i]) * t;  x += sum_list[0]`
    (`sum_list[0]` of an empty list raises IndexError: `vsop_pos` below returns the error first). -/
def horner (sum_list : List Num) (t : Num) : Num :=
  match sum_list with
  | [] => 0.0
  | s0 :: rest => rest.foldr (fun s x => (x + s) * t) 0.0 + s0

/-- one coordinate: the sums of all series, Horner in `t`, `/= 100000000.0` -/
def vsop_coord (tbl : VsopTable) (t : Num) : Num :=
  horner (tbl.map fun s => series_sum s t) t / 100000000.0

/-- `t = (epoch.jde() - 2451545.0) / 365250.0` -/
def vsop_t (jde : Num) : Num := (jde - 2451545.0) / 365250.0

/-- `vsop_pos(epoch, vsop_l, vsop_b, vsop_r)` → `(lon, lat, r)`; an empty table raises IndexError. -/
def vsop_pos (jde : Num) (vsop_l vsop_b vsop_r : VsopTable) : PyRes (Num × Num × Num) :=
  if vsop_l.isEmpty || vsop_b.isEmpty || vsop_r.isEmpty then .error .other else
  let t := vsop_t jde
  -- lon = Angle(lon, radians=True); lon = lon.to_positive()
  let lon := angToPositive (angOfRad (vsop_coord vsop_l t))
  -- lat = Angle(lat, radians=True)
  let lat := angOfRad (vsop_coord vsop_b t)
  let r := vsop_coord vsop_r t
  .ok (lon, lat, r)

/-! ### `geometric_vsop_pos` (Coordinates.py:2508): conversion to the FK5 system -/

/-- the two corrections `(delta_lon, delta_beta)` (as Angles, in degrees) computed in the `if tofk5:` block -/
def fk5_deltas (jde lon lat : Num) : Num × Num :=
  -- t = (epoch.jde() - 2451545.0) / 36525.0
  let t := (jde - 2451545.0) / 36525.0
  -- lambda_p = lon - t * (1.397 + 0.00031 * t)
  let lambda_p := angSubF lon (t * (1.397 + 0.00031 * t))
  -- delta_lon = Angle(0, 0, -0.09033)
  let delta_lon := angDms 0 0 (-0.09033)
  -- a = 0.03916 * (cos(lambda_p.rad()) + sin(lambda_p.rad()))
  let a := 0.03916 * (pcos (angRad lambda_p) + psin (angRad lambda_p))
  -- a = a * tan(lat.rad())
  let a := a * ptan (angRad lat)
  -- delta_lon += Angle(0, 0, a)
  let delta_lon := angAdd delta_lon (angDms 0 0 a)
  -- delta_beta = 0.03916 * (cos(lambda_p.rad()) - sin(lambda_p.rad()))
  let delta_beta := 0.03916 * (pcos (angRad lambda_p) - psin (angRad lambda_p))
  -- delta_beta = Angle(0, 0, delta_beta)
  let delta_beta := angDms 0 0 delta_beta
  (delta_lon, delta_beta)

/-- the `if tofk5:` block: `lon += delta_lon; lon.to_positive(); lat += delta_beta` -/
def fk5_correction (jde lon lat : Num) : Num × Num :=
  let d := fk5_deltas jde lon lat
  (angToPositive (angAdd lon d.1), angAdd lat d.2)

def geometric_vsop_pos (jde : Num) (vsop_l vsop_b vsop_r : VsopTable) (tofk5 : Bool) : PyRes (Num × Num × Num) :=
  match vsop_pos jde vsop_l vsop_b vsop_r with
  | .error e => .error e
  | .ok (lon, lat, r) =>
    if tofk5 then
      let c := fk5_correction jde lon lat
      .ok (c.1, c.2, r)
    else .ok (lon, lat, r)

/-! ### Nutation (Coordinates.py:343, 417).  The shapes of the three tables (rows of 5 / 2 / 2 entries,
argument table at least as long as the coefficient tables) are checked by tools/gen_tables.py. -/

/-- the five arguments D, M, M', F, Ω, each turned into an `Angle` -/
def nutation_arguments (t : Num) : List Num :=
  -- d = 297.85036 + t * (445267.111480 + t * (-0.0019142 + t / 189474.0)); d = Angle(d)
  let d := angOfDeg (297.85036 + t * (445267.111480 + t * (-0.0019142 + t / 189474.0)))
  -- m = 357.52772 + t * (35999.050340 + t * (-0.0001603 - t / 300000.0))
  let m := angOfDeg (357.52772 + t * (35999.050340 + t * (-0.0001603 - t / 300000.0)))
  -- mprime = 134.96298 + t * (477198.867398 + t * (0.0086972 + t / 56250.0))
  let mprime := angOfDeg (134.96298 + t * (477198.867398 + t * (0.0086972 + t / 56250.0)))
  -- f = 93.27191 + t * (483202.017538 + t * (-0.0036825 + t / 327270.0))
  let f := angOfDeg (93.27191 + t * (483202.017538 + t * (-0.0036825 + t / 327270.0)))
  -- omega = 125.04452 + t * (-1934.136261 + t * (0.0020708 + t / 450000.0))
  let omega := angOfDeg (125.04452 + t * (-1934.136261 + t * (0.0020708 + t / 450000.0)))
  [d, m, mprime, f, omega]

/-- `argument = Angle(); for j in range(5): if ARG[i][j]: argument += ARG[i][j] * arguments[j]` -/
def nutation_argument (row : List Int) (arguments : List Num) : Num :=
  (row.zip arguments).foldl
    (fun argument ka => if ka.1 ≠ 0 then angAdd argument (angMulI ka.2 ka.1) else argument) 0.0

/-- `coeff = value[0]; if value[1]: coeff += value[1] * t` -/
def nutation_coeff (value : List Num) (t : Num) : Num :=
  let v0 := value.getD 0 0.0
  let v1 := value.getD 1 0.0
  if peq v1 0.0 then v0 else v0 + v1 * t

/-- one term `(coeff * sin(argument.rad())) / 10000.0` (or `cos`) -/
def nutation_term (useSin : Bool) (t : Num) (arguments : List Num) (vr : List Num × List Int) : Num :=
  let argument := nutation_argument vr.2 arguments
  (nutation_coeff vr.1 t * (if useSin then psin (angRad argument) else pcos (angRad argument))) / 10000.0

/-- `x = 0.0; for i, value in enumerate(COEF_TABLE): …; x += term` -/
def nutation_series (useSin : Bool) (coef : List (List Num)) (t : Num) : Num :=
  (coef.zip NUTATION_ARG_TABLE).foldl (fun x vr => x + nutation_term useSin t (nutation_arguments t) vr) 0.0

/-- `nutation_longitude(epoch)`: Δψ as an Angle (degrees). -/
def nutation_longitude (jde : Num) : Num :=
  -- t = (t.jde() - 2451545.0) / 36525.0
  let t := (jde - 2451545.0) / 36525.0
  -- return Angle(0, 0, deltapsi)
  angDms 0 0 (nutation_series true NUTATION_SINE_COEF_TABLE t)

/-- `nutation_obliquity(epoch)`: Δε as an Angle (degrees). -/
def nutation_obliquity (jde : Num) : Num :=
  let t := (jde - 2451545.0) / 36525.0
  angDms 0 0 (nutation_series false NUTATION_COSINE_COEF_TABLE t)

/-! ### `apparent_vsop_pos` (Coordinates.py:2553) -/

def apparent_vsop_pos (jde : Num) (vsop_l vsop_b vsop_r : VsopTable) (nutation : Bool) : PyRes (Num × Num × Num) :=
  -- lon, lat, r = geometric_vsop_pos(epoch, vsop_l, vsop_b, vsop_r)        (tofk5 defaults to True)
  match geometric_vsop_pos jde vsop_l vsop_b vsop_r true with
  | .error e => .error e
  | .ok (lon, lat, r) =>
    -- if nutation: lon += nutation_longitude(epoch)
    let lon := if nutation then angAdd lon (nutation_longitude jde) else lon
    -- delta = -20.4898 / r        (ZeroDivisionError when r == 0.0)
    if peq r 0.0 then .error .zeroDivisionError else
    -- delta = Angle(0, 0, delta); lon += delta; lon.to_positive()
    let delta := angDms 0 0 (-20.4898 / r)
    .ok (angToPositive (angAdd lon delta), lat, r)

/-! ### `orbital_elements` (Coordinates.py:2843) -/

/-- `param[0] + t * (param[1] + t * (param[2] + t * param[3]))` -/
def compute_element (t : Num) (param : List Num) : PyRes Num :=
  match param with
  | p0 :: p1 :: p2 :: p3 :: _ => .ok (p0 + t * (p1 + t * (p2 + t * p3)))
  | _ => .error .other

/-- `compute_element(t, parameters[i])` (IndexError if the row is missing) -/
def element_at (t : Num) (parameters : List (List Num)) (i : Nat) : PyRes Num :=
  match parameters[i]? with
  | some row => compute_element t row
  | none => .error .other

def orbital_elements (jde : Num) (parameters1 parameters2 : List (List Num)) :
    PyRes (Num × Num × Num × Num × Num × Num) :=
  -- t = (epoch - JDE2000) / 36525.0
  let t := (jde - 2451545.0) / 36525.0
  -- if len(parameters2) == 4: rows 1, 2, 3 else rows 3, 4, 5
  let k : Nat := if parameters2.length = 4 then 1 else 3
  match element_at t parameters2 0, element_at t parameters1 1, element_at t parameters1 2,
        element_at t parameters2 k, element_at t parameters2 (k + 1), element_at t parameters2 (k + 2) with
  | .ok ll, .ok a, .ok e, .ok i, .ok omega, .ok pie =>
    -- arg = pie - omega; ll = Angle(ll); i = Angle(i); omega = Angle(omega); arg = Angle(arg)
    let arg := pie - omega
    .ok (angOfDeg ll, a, e, angOfDeg i, angOfDeg omega, angOfDeg arg)
  | _, _, _, _, _, _ => .error .other

end Helio
end Pymeeus.Gen@K@
