--! kinds: Q R F
/-
Model of the calendar-derived quantities of pymeeus/Epoch.py (properties C16 and C10):
weekday, day of year (both directions), fractional year, mean / apparent sidereal time,
leap-second table, UTC<->TT offset in the constructor and in `get_date`, Delta-T polynomials.
Hand-written from the source, statement by statement (the Python line is quoted); tied to the
source by the correspondence check.  Builds on templates/EpochCore.lean (`compute_jde`,
`get_date`, `check_values`, `is_leap`, ...).

Instantiations: Gen/Q (Num = Rat, theorems) and Gen/F (Num = Float, bit-exact tie).
`local=True` (wall clock, `Epoch.utc2local()`) is NOT modelled.
-/
import Pymeeus.Gen.@K@.EpochCore
namespace Pymeeus.Gen@K@
open Pymeeus Pymeeus.P@K@

/-! ### Weekday -/

/-- `Epoch.dow()` (Epoch.py:1652-1655) as a function of `self._jde`. -/
def dow (jde : Num) : Int :=
  -- jd = iint(self._jde - 0.5) + 2.0
  let jd : Num := ofInt (pfloor (jde - 0.5)) + 2.0
  -- doy = iint(jd % 7)
  pfloor (pmod jd 7.0)

def day_names : List String :=
  ["Sunday", "Monday", "Tuesday", "Wednesday", "Thursday", "Friday", "Saturday"]

/-- `Epoch.dow(as_string=True)`: `day_names[doy]`. -/
def dow_str (jde : Num) : String := day_names.getD (dow jde).toNat ""

/-! ### CPython `datetime.date` (proleptic Gregorian), the part used by `get_doy` / `doy2date`.
    Trusted stubs, validated by the correspondence run. -/

/-- `_DAYS_BEFORE_MONTH[1..12]` of a common year -/
def days_before_month_tbl : List Int := [0, 31, 59, 90, 120, 151, 181, 212, 243, 273, 304, 334]

/-- `datetime._days_in_month(year, month)` -/
def dt_days_in_month (y m : Int) : Int :=
  if m = 2 ∧ calendar_isleap y then 29 else maxdays.getD (m - 1).toNat 0

/-- `datetime._days_before_month(year, month)` -/
def dt_days_before_month (y m : Int) : Int :=
  days_before_month_tbl.getD (m - 1).toNat 0 + (if m > 2 ∧ calendar_isleap y then 1 else 0)

/-- `datetime._days_before_year(year)` -/
def dt_days_before_year (y : Int) : Int :=
  let y := y - 1
  y * 365 + idiv y 4 - idiv y 100 + idiv y 400

/-- `datetime.date(y, m, d)` succeeds (MINYEAR = 1, MAXYEAR = 9999); otherwise `ValueError`. -/
def dt_valid (y m d : Int) : Bool :=
  decide (1 ≤ y) && decide (y ≤ 9999) && decide (1 ≤ m) && decide (m ≤ 12) &&
    decide (1 ≤ d) && decide (d ≤ dt_days_in_month y m)

/-- `datetime.date(y, m, d).toordinal()` for a valid date -/
def dt_toordinal (y m d : Int) : Int := dt_days_before_year y + dt_days_before_month y m + d

/-- `datetime.date.fromordinal(n)` -> (year, month, day): CPython's `ord_to_ymd`.
    C `int` overflow -> `OverflowError` (.other); outside 1..3652059 -> `ValueError`. -/
def dt_fromordinal (n : Int) : PyRes (Int × Int × Int) :=
  if n < -2147483648 ∨ n > 2147483647 then .error .other
  else if n < 1 ∨ n > 3652059 then .error .valueError
  else
    let n := n - 1
    let n400 := idiv n 146097
    let n := imod n 146097
    let year := n400 * 400 + 1
    let n100 := idiv n 36524
    let n := imod n 36524
    let n4 := idiv n 1461
    let n := imod n 1461
    let n1 := idiv n 365
    let n := imod n 365
    let year := year + n100 * 100 + n4 * 4 + n1
    if n1 = 4 ∨ n100 = 4 then .ok (year - 1, 12, 31)
    else
      let leapyear : Bool := decide (n1 = 3) && (decide (n4 ≠ 24) || decide (n100 = 3))
      -- month = (n + 50) >> 5
      let month := idiv (n + 50) 32
      -- preceding = _DAYS_BEFORE_MONTH[month] + (month > 2 and leapyear)
      let preceding := days_before_month_tbl.getD (month - 1).toNat 0 +
        (if month > 2 ∧ leapyear then 1 else 0)
      if preceding > n then
        -- month -= 1; preceding -= _DAYS_IN_MONTH[month] + (month == 2 and leapyear)
        let month := month - 1
        let preceding := preceding - (maxdays.getD (month - 1).toNat 0 + (if month = 2 ∧ leapyear then 1 else 0))
        .ok (year, month, n - preceding + 1)
      else .ok (year, month, n - preceding + 1)

/-! ### Day of year -/

/-- `Epoch.get_doy(yyyy, mm, dd)` (Epoch.py:779-802), `yyyy`, `mm` ints, `dd` a number. -/
def get_doy (yyyy mm : Int) (dd : Num) : PyRes Num :=
  -- if dd < 1 or dd >= 32 or mm < 1 or mm > 12: raise ValueError
  if plt dd 1.0 || ple 32.0 dd || decide (mm < 1) || decide (mm > 12) then .error .valueError
  else
    -- day = int(dd); frac = dd % 1
    let day : Int := ptrunc dd
    let frac : Num := pmod dd 1.0
    if yyyy > 1582 then
      -- d = datetime.date(yyyy, mm, day)  (ValueError -> ValueError; C int overflow -> OverflowError)
      if yyyy > 2147483647 then .error .other
      else if !(dt_valid yyyy mm day) then .error .valueError
      else
        -- doy = d.timetuple().tm_yday
        let doy : Int := dt_days_before_month yyyy mm + day
        -- return float(doy + frac)
        .ok (ofInt doy + frac)
    else
      -- leap = Epoch.is_leap(yyyy); maxdays = [31, 29 if leap else 28, 31, ...]
      let leap := is_leap yyyy
      let maxd : Int := if mm = 2 then (if leap then 29 else 28) else maxdays.getD (mm - 1).toNat 0
      -- if day > maxdays[int(mm) - 1]: raise ValueError
      if day > maxd then .error .valueError
      else
        -- k = 1 if leap else 2
        let k : Int := if leap then 1 else 2
        -- doy = (iint((275.0 * mm) / 9.0) - k * iint((mm + 9.0) / 12.0) + day - 30.0)
        let doy : Num := ofInt (pfloor ((275.0 * ofInt mm) / 9.0) - k * pfloor ((ofInt mm + 9.0) / 12.0) + day) - 30.0
        -- if yyyy == 1582 and (mm > 10 or (mm == 10 and day >= 15)): doy -= 10.0
        let doy : Num := if yyyy = 1582 ∧ (mm > 10 ∨ (mm = 10 ∧ day ≥ 15)) then doy - 10.0 else doy
        .ok (doy + frac)

/-- `Epoch.doy()`: `y, m, d = self.get_date(); return Epoch.get_doy(y, m, d)` -/
def doy (jde : Num) : PyRes Num :=
  match get_date jde with
  | .error e => .error e
  | .ok (y, m, d) => get_doy y m d

/-- `Epoch.doy2date(year, doy)` (Epoch.py:877-898), `year` an int, `doy` a number. -/
def doy2date (year : Int) (doy : Num) : PyRes (Int × Int × Num) :=
  -- frac = float(doy % 1); doy = int(doy)
  let frac : Num := pmod doy 1.0
  let doy : Int := ptrunc doy
  if year > 1582 then
    -- ref = datetime.date(year, 1, 1)
    if year > 2147483647 then .error .other
    else if !(dt_valid year 1 1) then .error .valueError
    else
      -- mydate = datetime.date.fromordinal(ref.toordinal() + doy - 1)
      match dt_fromordinal (dt_toordinal year 1 1 + doy - 1) with
      | .error e => .error e
      -- return year, mydate.month, mydate.day + frac
      | .ok (_, month, day) => .ok (year, month, ofInt day + frac)
  else
    -- if year == 1582 and doy > 277: doy += 10
    let doy : Int := if year = 1582 ∧ doy > 277 then doy + 10 else doy
    -- k = 1 if Epoch.is_leap(year) else 2
    let k : Int := if is_leap year then 1 else 2
    -- if doy < 32: m = 1  else: m = iint((9.0 * (k + doy)) / 275.0 + 0.98)
    let m : Int := if doy < 32 then 1 else pfloor ((9.0 * ofInt (k + doy)) / 275.0 + 0.98)
    -- d = (doy - iint((275.0 * m) / 9.0) + k * iint((m + 9.0) / 12.0) + 30)
    let d : Int := doy - pfloor ((275.0 * ofInt m) / 9.0) + k * pfloor ((ofInt m + 9.0) / 12.0) + 30
    -- return year, int(m), d + frac
    .ok (year, m, ofInt d + frac)

/-- `Epoch.leap()`: `y, m, d = self.get_date(); return Epoch.is_leap(y)` -/
def leap (jde : Num) : PyRes Bool :=
  match get_date jde with
  | .error e => .error e
  | .ok (y, _, _) => .ok (is_leap y)

/-- `Epoch.year()` (Epoch.py:1787-1794) -/
def year (jde : Num) : PyRes Num :=
  -- y, m, d = self.get_date()
  match get_date jde with
  | .error e => .error e
  | .ok (y, m, d) =>
    -- doy = Epoch.get_doy(y, m, d)
    match get_doy y m d with
    | .error e => .error e
    | .ok doy =>
      -- doy -= 1
      let doy := doy - 1.0
      -- days_of_year = 365.0; if self.leap(): days_of_year = 366.0
      let days_of_year : Num := if is_leap y then 366.0 else 365.0
      -- return y + doy / days_of_year
      .ok (ofInt y + doy / days_of_year)

/-! ### Sidereal time -/

/-- `Epoch.mean_sidereal_time()` (Epoch.py:1691-1701); `self()` is `self._jde`, `TOL = 1e-10`. -/
def mean_sidereal_time (jde : Num) : Num :=
  -- jd0 = iint(self()) + 0.5 if self() % 1 >= 0.5 else iint(self()) - 0.5
  let jd0 : Num := if ple 0.5 (pmod jde 1.0) then ofInt (pfloor jde) + 0.5 else ofInt (pfloor jde) - 0.5
  -- t = (jd0 - 2451545.0) / 36525.0
  let t : Num := (jd0 - 2451545.0) / 36525.0
  -- theta0 = 6.0 / DAY2HOURS + 41.0 / DAY2MIN + 50.54841 / DAY2SEC
  let theta0 : Num := 6.0 / 24.0 + 41.0 / 1440.0 + 50.54841 / 86400.0
  -- s = t * (8640184.812866 + t * (0.093104 - 0.0000062 * t))
  let s : Num := t * (8640184.812866 + t * (0.093104 - 0.0000062 * t))
  -- theta0 += (s % DAY2SEC) / DAY2SEC
  let theta0 : Num := theta0 + (pmod s 86400.0) / 86400.0
  -- deltajd = self() - jd0
  let deltajd : Num := jde - jd0
  -- if abs(deltajd) < TOL: return theta0 % 1
  if plt (pabs deltajd) 1e-10 then pmod theta0 1.0
  -- else: deltajd *= 1.00273790935; return (theta0 + deltajd) % 1
  else pmod (theta0 + deltajd * 1.00273790935) 1.0

--@only R F
/-- `Epoch.apparent_sidereal_time(true_obliquity, nutation_longitude)` for float arguments (degrees). -/
def apparent_sidereal_time (jde true_obliquity nutation_longitude : Num) : Num :=
  let mean_stime := mean_sidereal_time jde
  -- epsilon = radians(true_obliquity); delta_psi = nutation_longitude * 3600.0
  let epsilon := pradians true_obliquity
  let delta_psi := nutation_longitude * 3600.0
  -- return mean_stime + ((delta_psi * cos(epsilon)) / 15.0) / DAY2SEC
  mean_stime + ((delta_psi * pcos epsilon) / 15.0) / 86400.0
--@end

/-! ### Leap seconds -/

/-- `LEAP_TABLE` (Epoch.py:47-75) as the list of its items; the keys are already sorted, so
    `sorted(LEAP_TABLE.keys())` is the list of first components (checked by the harness). -/
def leap_table : List (Num × Int) :=
  [(1972.5, 1), (1973.0, 2), (1974.0, 3), (1975.0, 4), (1976.0, 5), (1977.0, 6), (1978.0, 7),
   (1979.0, 8), (1980.0, 9), (1981.5, 10), (1982.5, 11), (1983.5, 12), (1985.5, 13), (1988.0, 14),
   (1990.0, 15), (1991.0, 16), (1992.5, 17), (1993.5, 18), (1994.5, 19), (1996.0, 20), (1997.5, 21),
   (1999.0, 22), (2006.0, 23), (2009.0, 24), (2012.5, 25), (2015.5, 26), (2017.0, 27)]

def leap_years : List Num := leap_table.map (·.1)
def leap_values : List Int := leap_table.map (·.2)

/-- `idx = 0; while lyear > list_years[idx]: idx += 1` ; `none` = IndexError (ran off the list) -/
def leap_idx (lyear : Num) : List Num → Nat → Option Nat
  | [], _ => none
  | k :: ks, idx => if plt k lyear then leap_idx lyear ks (idx + 1) else some idx

/-- `Epoch.leap_seconds(year, month)` (Epoch.py:932-942) for int arguments. -/
def leap_seconds (year month : Int) : PyRes Int :=
  let ym : Num := ofInt year + ofInt month / 12.0
  -- if (year + month / 12.0) <= list_years[0]: return 0
  if ple ym (leap_years.headD 0.0) then .ok 0
  -- if (year + month / 12.0) > list_years[-1]: return LEAP_TABLE[list_years[-1]]
  else if plt (leap_years.getLastD 0.0) ym then .ok (leap_values.getLastD 0)
  else
    -- lyear = (year + 0.25) if month <= 6 else (year + 0.75)
    let lyear : Num := if month ≤ 6 then ofInt year + 0.25 else ofInt year + 0.75
    match leap_idx lyear leap_years 0 with
    | none => .error .other
    -- return LEAP_TABLE[list_years[idx - 1]]   (idx = 0 wraps to the last entry)
    | some 0 => .ok (leap_values.getLastD 0)
    | some (i + 1) => .ok (leap_values.getD i 0)

/-- `Epoch.leap_seconds(year, month)` for arbitrary numeric arguments (Python ints or floats: an int is
    converted by the first `+` / `/`, so one text covers both), any month value. -/
def leap_seconds_num (year month : Num) : PyRes Int :=
  let ym : Num := year + month / 12.0
  -- if (year + month / 12.0) <= list_years[0]: return 0
  if ple ym (leap_years.headD 0.0) then .ok 0
  -- if (year + month / 12.0) > list_years[-1]: return LEAP_TABLE[list_years[-1]]
  else if plt (leap_years.getLastD 0.0) ym then .ok (leap_values.getLastD 0)
  else
    -- lyear = (year + 0.25) if month <= 6 else (year + 0.75)
    let lyear : Num := if ple month 6.0 then year + 0.25 else year + 0.75
    match leap_idx lyear leap_years 0 with
    -- IndexError: `lyear` beyond the last key
    | none => .error .other
    -- return LEAP_TABLE[list_years[idx - 1]]   (idx = 0 wraps to the last entry)
    | some 0 => .ok (leap_values.getLastD 0)
    | some (i + 1) => .ok (leap_values.getD i 0)

/-- the body of `Epoch.get_last_leap_second()` (Epoch.py:953-965) for any last table entry `lyear: lseconds` -/
def get_last_leap_second_of (lyear : Num) (lseconds : Int) : Int × Int × Num × Int :=
  let year : Int := pfloor lyear
  -- if lyear % 1 == 0.0: year -= 1; month = 12; day = 31.0  else: month = 6; day = 30.0
  if peq (pmod lyear 1.0) 0.0 then (year - 1, 12, 31.0, lseconds) else (year, 6, 30.0, lseconds)

/-- `Epoch.get_last_leap_second()`: lyear = list_years[-1]; lseconds = LEAP_TABLE[lyear] -/
def get_last_leap_second : Int × Int × Num × Int :=
  get_last_leap_second_of (leap_years.getLastD 0.0) (leap_values.getLastD 0)

/-! ### UTC -> TT in the constructor -/

/-- `Epoch._compute_jde(y, m, d, utc2tt, leap_seconds)` with `local=False` (Epoch.py:403-431).
    The date part (lines 404-412) is `compute_jde` of EpochCore. -/
def compute_jde_kw (y m : Int) (d : Num) (utc2tt : Bool) (lsec : Num) : PyRes Num :=
  -- year, month = y, m
  let jde : Num := compute_jde y m d
  let deltasec : Num := 0.0
  let dres : PyRes Num :=
    if utc2tt then
      -- if year >= 1972: deltasec += 32.184; deltasec += 10.0; deltasec += Epoch.leap_seconds(year, month)
      if y ≥ 1972 then
        match leap_seconds y m with
        | .error e => .error e
        | .ok ls => .ok (deltasec + 32.184 + 10.0 + ofInt ls)
      else .ok deltasec
    else
      -- if leap_seconds != 0.0: if year >= 1972: ... deltasec += leap_seconds
      if !(peq lsec 0.0) then
        if y ≥ 1972 then .ok (deltasec + 32.184 + 10.0 + lsec) else .ok deltasec
      else .ok deltasec
  match dres with
  | .error e => .error e
  -- return jde + deltasec / DAY2SEC
  | .ok deltasec => .ok (jde + deltasec / 86400.0)

/-- `Epoch(year, month, day, hours, minutes, sec, utc=…, leap_seconds=…)` (Epoch.py:356-376):
    `_check_values`, the day fraction, then the kwargs dispatch (`leap_seconds` wins over `utc`). -/
def epoch_set_kw (y m : Int) (d h mi s : Num) (utc : Option Bool) (lsec : Option Num) : PyRes Num :=
  match check_values y (get_month_int m) d h mi s with
  | .error e => .error e
  | .ok (year, month, day, hours, minutes, sec) =>
    -- day += hours / DAY2HOURS + minutes / DAY2MIN + sec / DAY2SEC
    let day := day + (hours / 24.0 + minutes / 1440.0 + sec / 86400.0)
    match lsec with
    -- if "leap_seconds" in kwargs: _compute_jde(year, month, day, utc2tt=False, leap_seconds=kwargs[...])
    | some l => compute_jde_kw year month day false l
    | none =>
      match utc with
      -- elif "utc" in kwargs: _compute_jde(year, month, day, utc2tt=kwargs["utc"])
      | some u => compute_jde_kw year month day u 0.0
      -- else: _compute_jde(year, month, day, utc2tt=False)
      | none => compute_jde_kw year month day false 0.0

/-! ### TT -> UTC in `get_date` -/

/-- The `deltasec` computed by `get_date(**kwargs)` (Epoch.py:1363-1397) from the TT date. -/
def get_date_deltasec (year month : Int) (day : Num) (utc : Option Bool) (lsec : Option Num) : PyRes Num :=
  let deltasec : Num := 0.0
  -- tt2utc = kwargs["utc"] if present; "leap_seconds" in kwargs: tt2utc = False
  let tt2utc : Bool := match lsec with
    | some _ => false
    | none => (match utc with | some u => u | none => false)
  let lsv : Num := match lsec with | some l => l | none => 0.0
  if tt2utc then
    if year ≥ 1972 then
      -- deltasec += 32.184; deltasec += 10.0
      let deltasec := deltasec + 32.184 + 10.0
      -- leaps = Epoch.leap_seconds(year, month)
      match leap_seconds year month with
      | .error e => .error e
      | .ok leaps =>
        -- pyear = year if month > 1 else year - 1; pmonth = month - 1 if month > 1 else 12
        let pyear := if month > 1 then year else year - 1
        let pmonth := if month > 1 then month - 1 else 12
        -- pleaps = Epoch.leap_seconds(pyear, pmonth)
        match leap_seconds pyear pmonth with
        | .error e => .error e
        | .ok pleaps =>
          -- if (pleaps != leaps and day - (deltasec + pleaps) / DAY2SEC < 1.0): leaps = pleaps
          let leaps := if pleaps ≠ leaps ∧ plt (day - (deltasec + ofInt pleaps) / 86400.0) 1.0 = true then pleaps else leaps
          -- deltasec += leaps
          .ok (deltasec + ofInt leaps)
    else .ok deltasec
  else
    -- if leap_seconds != 0.0: if year >= 1972: ...
    if !(peq lsv 0.0) then
      if year ≥ 1972 then .ok (deltasec + 32.184 + 10.0 + lsv) else .ok deltasec
    else .ok deltasec

/-- `Epoch.get_date(utc=…, leap_seconds=…)` (Epoch.py:1338-1407), without `local`. -/
def get_date_kw (jde : Num) (utc : Option Bool) (lsec : Option Num) : PyRes (Int × Int × Num) :=
  match get_date jde with
  | .error e => .error e
  | .ok (year, month, day) =>
    match get_date_deltasec year month day utc lsec with
    | .error e => .error e
    | .ok deltasec =>
      -- if deltasec != 0.0:
      if !(peq deltasec 0.0) then
        -- doy = Epoch.get_doy(year, month, day)
        match get_doy year month day with
        | .error e => .error e
        | .ok doy =>
          -- doy -= deltasec / DAY2SEC
          let doy := doy - deltasec / 86400.0
          -- if doy < 1.0: year -= 1; doy = 366.0 + doy if Epoch.is_leap(year) else 365.0 + doy
          if plt doy 1.0 then
            let year := year - 1
            let doy := if is_leap year then 366.0 + doy else 365.0 + doy
            -- year, month, day = Epoch.doy2date(year, doy)
            doy2date year doy
          else doy2date year doy
      else .ok (year, month, day)

/-! ### `local=` : the same paths with `Epoch.utc2local()` as a PARAMETER `off` (seconds, LocalTime - UTC).
    The wall clock itself is not modelled. -/

/-- `Epoch._compute_jde(y, m, d, utc2tt, leap_seconds, local)` (Epoch.py:403-431), `off = Epoch.utc2local()`. -/
def compute_jde_local (y m : Int) (d : Num) (utc2tt : Bool) (lsec : Num) (loc : Bool) (off : Num) : PyRes Num :=
  let jde : Num := compute_jde y m d
  -- deltasec = 0.0; if local: deltasec = Epoch.utc2local(); if not utc2tt and leap_seconds == 0.0: utc2tt = True
  let deltasec : Num := if loc then off else 0.0
  let utc2tt : Bool := if loc && !utc2tt && peq lsec 0.0 then true else utc2tt
  let dres : PyRes Num :=
    if utc2tt then
      if y ≥ 1972 then
        match leap_seconds y m with
        | .error e => .error e
        | .ok ls => .ok (deltasec + 32.184 + 10.0 + ofInt ls)
      else .ok deltasec
    else
      if !(peq lsec 0.0) then
        if y ≥ 1972 then .ok (deltasec + 32.184 + 10.0 + lsec) else .ok deltasec
      else .ok deltasec
  match dres with
  | .error e => .error e
  | .ok deltasec => .ok (jde + deltasec / 86400.0)

/-- `Epoch(year, …, sec, utc=…, leap_seconds=…, local=…)` (Epoch.py:356-376): the full kwargs dispatch. -/
def epoch_set_local (y m : Int) (d h mi s : Num) (utc : Option Bool) (lsec : Option Num) (loc : Option Bool)
    (off : Num) : PyRes Num :=
  match check_values y (get_month_int m) d h mi s with
  | .error e => .error e
  | .ok (year, month, day, hours, minutes, sec) =>
    let day := day + (hours / 24.0 + minutes / 1440.0 + sec / 86400.0)
    match lsec with
    | some l =>
      match loc with
      -- if "leap_seconds" in kwargs: if "local" in kwargs: _compute_jde(..., utc2tt=False, leap_seconds=…, local=…)
      | some lo => compute_jde_local year month day false l lo off
      | none => compute_jde_local year month day false l false off
    | none =>
      match utc with
      -- elif "utc" in kwargs: _compute_jde(year, month, day, utc2tt=kwargs["utc"])      (`local` is ignored)
      | some u => compute_jde_local year month day u 0.0 false off
      | none =>
        match loc with
        -- elif "local" in kwargs: _compute_jde(year, month, day, local=kwargs["local"])
        | some lo => compute_jde_local year month day false 0.0 lo off
        | none => compute_jde_local year month day false 0.0 false off

/-- `deltasec` of `get_date(**kwargs)` (Epoch.py:1376-1412) with `local`: note `if "local" in kwargs`, the VALUE of
    `local` is never looked at. -/
def get_date_deltasec_local (year month : Int) (day : Num) (utc : Option Bool) (lsec : Option Num)
    (loc : Option Bool) (off : Num) : PyRes Num :=
  let tt2utc : Bool := match lsec with
    | some _ => false
    | none => (match utc with | some u => u | none => false)
  let lsv : Num := match lsec with | some l => l | none => 0.0
  -- if "local" in kwargs: deltasec = Epoch.utc2local(); if not tt2utc and leap_seconds == 0.0: tt2utc = True
  let deltasec : Num := if loc.isSome then off else 0.0
  let tt2utc : Bool := if loc.isSome && !tt2utc && peq lsv 0.0 then true else tt2utc
  if tt2utc then
    if year ≥ 1972 then
      let deltasec := deltasec + 32.184 + 10.0
      match leap_seconds year month with
      | .error e => .error e
      | .ok leaps =>
        let pyear := if month > 1 then year else year - 1
        let pmonth := if month > 1 then month - 1 else 12
        match leap_seconds pyear pmonth with
        | .error e => .error e
        | .ok pleaps =>
          let leaps := if pleaps ≠ leaps ∧ plt (day - (deltasec + ofInt pleaps) / 86400.0) 1.0 = true then pleaps else leaps
          .ok (deltasec + ofInt leaps)
    else .ok deltasec
  else
    if !(peq lsv 0.0) then
      if year ≥ 1972 then .ok (deltasec + 32.184 + 10.0 + lsv) else .ok deltasec
    else .ok deltasec

/-- `Epoch.get_date(utc=…, leap_seconds=…, local=…)`, `off = Epoch.utc2local()`. -/
def get_date_local (jde : Num) (utc : Option Bool) (lsec : Option Num) (loc : Option Bool) (off : Num) :
    PyRes (Int × Int × Num) :=
  match get_date jde with
  | .error e => .error e
  | .ok (year, month, day) =>
    match get_date_deltasec_local year month day utc lsec loc off with
    | .error e => .error e
    | .ok deltasec =>
      if !(peq deltasec 0.0) then
        match get_doy year month day with
        | .error e => .error e
        | .ok doy =>
          let doy := doy - deltasec / 86400.0
          if plt doy 1.0 then
            let year := year - 1
            let doy := if is_leap year then 366.0 + doy else 365.0 + doy
            doy2date year doy
          else doy2date year doy
      else .ok (year, month, day)

/-! ### Delta-T -/

--@only F
/-- `x ** 2` on floats is libm `pow(x, 2.0)` -/
def pow2 (x : Num) : Num := Float.pow x 2.0
--@end
--@only Q R
/-- `x ** 2` -/
def pow2 (x : Num) : Num := x * x
--@end

/-- `Epoch.tt2ut(year, month)` (Epoch.py:1515-1616) for int arguments. -/
def tt2ut (year month : Int) : Num :=
  -- y = year + (month - 0.5) / 12.0
  let y : Num := ofInt year + (ofInt month - 0.5) / 12.0
  if year < -500 then
    let u : Num := (ofInt year - 1820.0) / 100.0
    (-20.0) + 32.0 * u * u
  else if year ≥ -500 ∧ year < 500 then
    let u : Num := y / 100.0
    10583.6 + u * ((-1014.41) + u * (33.78311 + u * ((-5.952053) +
      (u * ((-0.1798452) + u * (0.022174192 + 0.0090316521 * u))))))
  else if year ≥ 500 ∧ year < 1600 then
    let u : Num := ofInt (year - 1000) / 100.0
    1574.2 + u * ((-556.01) + u * (71.23472 + u * (0.319781 +
      (u * ((-0.8503463) + u * ((-0.005050998) + 0.0083572073 * u))))))
  else if year ≥ 1600 ∧ year < 1700 then
    let t : Num := y - 1600.0
    120.0 + t * ((-0.9808) + t * ((-0.01532) + t / 7129.0))
  else if year ≥ 1700 ∧ year < 1800 then
    let t : Num := y - 1700.0
    8.83 + t * (0.1603 + t * ((-0.0059285) + t * (0.00013336 - t / 1174000.0)))
  else if year ≥ 1800 ∧ year < 1860 then
    let t : Num := y - 1800.0
    13.72 + t * ((-0.332447) + t * (0.0068612 + t * (0.0041116 + t * ((-0.00037436) +
      t * (0.0000121272 + t * ((-0.0000001699) + 0.000000000875 * t))))))
  else if year ≥ 1860 ∧ year < 1900 then
    let t : Num := y - 1860.0
    7.62 + t * (0.5737 + t * ((-0.251754) + t * (0.01680668 + t * ((-0.0004473624) + t / 233174.0))))
  else if year ≥ 1900 ∧ year < 1920 then
    let t : Num := y - 1900.0
    (-2.79) + t * (1.494119 + t * ((-0.0598939) + t * (0.0061966 - 0.000197 * t)))
  else if year ≥ 1920 ∧ year < 1941 then
    let t : Num := y - 1920.0
    21.20 + t * (0.84493 + t * ((-0.076100) + 0.0020936 * t))
  else if year ≥ 1941 ∧ year < 1961 then
    let t : Num := y - 1950.0
    29.07 + t * (0.407 + t * ((-1.0) / 233.0 + t / 2547.0))
  else if year ≥ 1961 ∧ year < 1986 then
    let t : Num := y - 1975.0
    45.45 + t * (1.067 + t * ((-1.0) / 260.0 - t / 718.0))
  else if year ≥ 1986 ∧ year < 2005 then
    let t : Num := y - 2000.0
    63.86 + t * (0.3345 + t * ((-0.060374) + t * (0.0017275 + t * (0.000651814 + 0.00002373599 * t))))
  else if year ≥ 2005 ∧ year < 2050 then
    let t : Num := y - 2000.0
    62.92 + t * (0.32217 + 0.005589 * t)
  else if year ≥ 2050 ∧ year < 2150 then
    (-20.0) + 32.0 * pow2 ((y - 1820.0) / 100.0) - 0.5628 * (2150.0 - y)
  else
    let u : Num := (ofInt year - 1820.0) / 100.0
    (-20.0) + 32.0 * u * u

end Pymeeus.Gen@K@
