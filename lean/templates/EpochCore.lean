--! kinds: Q R F
/-
Model of the calendar core of pymeeus/Epoch.py and pymeeus/base.py (hand-written from the
source; tied to the source by the correspondence check, see DESIGN.md §3/§4).

This text is a template: `tools/instantiate.py` turns it into
  Pymeeus/Gen/Q/EpochCore.lean   (Num = Rat   : the ideal-arithmetic reading, used by the theorems)
  Pymeeus/Gen/F/EpochCore.lean   (Num = Float : binary64, compared bit for bit with CPython)
Each definition follows the Python statement by statement; the Python line is quoted.
-/
import Pymeeus.Pre@K@
namespace Pymeeus.Gen@K@
open Pymeeus Pymeeus.P@K@

/-- `Epoch.is_julian(year, month, day)` (Epoch.py:552). `day` is compared as a number. -/
def is_julian (year month : Int) (day : Num) : Bool :=
  -- if year < 1582 or (year == 1582 and month < 10) or (year == 1582 and month == 10 and day < 5.0)
  decide (year < 1582) || (decide (year = 1582) && decide (month < 10)) ||
    (decide (year = 1582) && decide (month = 10) && plt day 5.0)

/-- `calendar.isleap(year)` -/
def calendar_isleap (year : Int) : Bool :=
  decide (imod year 4 = 0) && (decide (imod year 100 ≠ 0) || decide (imod year 400 = 0))

/-- `Epoch.is_leap(year)` (Epoch.py:692) for an `int` year. -/
def is_leap (year : Int) : Bool :=
  -- if year >= 1582: return calendar.isleap(iint(year))  else: return abs(year) % 4 == 0
  if year ≥ 1582 then calendar_isleap year else decide (imod (Int.natAbs year) 4 = 0)

def stripL (l : List Char) : List Char :=
  ((l.dropWhile Char.isWhitespace).reverse.dropWhile Char.isWhitespace).reverse
def capitalizeL : List Char → List Char
  | [] => []
  | c :: cs => c.toUpper :: cs.map Char.toLower
/-- `str.strip().capitalize()` restricted to ASCII. -/
def py_strip_capitalize (s : String) : String := String.ofList (capitalizeL (stripL s.toList))

def months_mmm : List String :=
  ["Jan", "Feb", "Mar", "Apr", "May", "Jun", "Jul", "Aug", "Sep", "Oct", "Nov", "Dec"]
def months_full : List String :=
  ["January", "February", "March", "April", "May", "June", "July", "August", "September",
   "October", "November", "December"]

/-- `Epoch.get_month(month)` for an `int` month (Epoch.py:600). -/
def get_month_int (month : Int) : PyRes Int :=
  if month ≥ 1 ∧ month ≤ 12 then .ok month else .error .valueError

/-- `Epoch.get_month(month)` for a `str` month. -/
def get_month_str (month : String) : PyRes Int :=
  let m := py_strip_capitalize month
  if m.length = 3 then
    match months_mmm.idxOf? m with
    | some i => .ok ((i : Int) + 1)
    | none => .error .valueError
  else
    match months_full.idxOf? m with
    | some i => .ok ((i : Int) + 1)
    | none => .error .valueError

def maxdays : List Int := [31, 28, 31, 30, 31, 30, 31, 31, 30, 31, 30, 31]

/-- `limit_day` of `_check_values`: `maxdays[month - 1]`, 29 for February of a leap year. -/
def month_limit (year month : Int) : Int :=
  if month = 2 ∧ is_leap year then 29 else maxdays.getD (month - 1).toNat 0

/-- `Epoch._check_values(year, month, day, hours, minutes, sec)` (Epoch.py:432), month already
    resolved to an int by `get_month_*` **after** the range tests, as in the source. -/
def check_values (year : Int) (month : PyRes Int) (day hours minutes sec : Num) :
    PyRes (Int × Int × Num × Num × Num × Num) :=
  if year < -4712 then .error .valueError
  else if plt day 1 || ple 32 day then .error .valueError
  else if plt hours 0 || ple 24 hours then .error .valueError
  else if plt minutes 0 || ple 60 minutes then .error .valueError
  else if plt sec 0 || ple 60 sec then .error .valueError
  else
    match month with
    | .error e => .error e
    | .ok month =>
      if ple (ofInt (month_limit year month + 1)) day then .error .valueError
      else .ok (year, month, day, hours, minutes, sec)

/-- The date part of `Epoch._compute_jde(y, m, d)` (Epoch.py:403-417): Meeus 7.1, then the Gregorian
    correction is taken back for an instant before the reform (1582-10-15 0h = JDE 2299160.5). -/
def compute_jde (y m : Int) (d : Num) : Num :=
  -- if m <= 2: y -= 1; m += 12
  let (y, m) := if m ≤ 2 then (y - 1, m + 12) else (y, m)
  -- a = iint(y / 100.0)
  let a : Int := pfloor (ofInt y / 100.0)
  -- b = 0.0; if not Epoch.is_julian(y, m, iint(d)): b = 2.0 - a + iint(a / 4.0)
  let b : Num := if !(is_julian y m (ofInt (pfloor d))) then 2.0 - ofInt a + ofInt (pfloor (ofInt a / 4.0)) else 0.0
  -- jde = (iint(365.25 * (y + 4716.0)) + iint(30.6001 * (m + 1.0)) + d + b - 1524.5)
  let jde : Num := ofInt (pfloor (365.25 * (ofInt y + 4716.0)) + pfloor (30.6001 * (ofInt m + 1.0))) + d + b - 1524.5
  -- if jde < 2299160.5: jde -= b
  if plt jde 2299160.5 then jde - b else jde

/-- `Epoch.get_date()` without kwargs (Epoch.py:1327-1349). `.error .valueError` is the "Invalid JDE value" ValueError (fc8fd00; before that an
    `UnboundLocalError` Python would raise if `e` were outside 4..15. -/
def get_date (jde : Num) : PyRes (Int × Int × Num) :=
  let jd := jde + 0.5
  let z : Int := pfloor jd
  let f := pmod jd 1.0
  let a : Int :=
    if z < 2299161 then z
    else
      let alpha : Int := pfloor ((ofInt z - 1867216.25) / 36524.25)
      z + 1 + alpha - pfloor (ofInt alpha / 4.0)
  let b := a + 1524
  let c : Int := pfloor ((ofInt b - 122.1) / 365.25)
  let d : Int := pfloor (365.25 * ofInt c)
  let e : Int := pfloor (ofInt (b - d) / 30.6001)
  let day : Num := ofInt (b - d - pfloor (30.6001 * ofInt e)) + f
  if e < 14 ∨ e = 14 ∨ e = 15 then
    let month := if e < 14 then e - 1 else e - 13
    if month > 2 then .ok (c - 4716, month, day)
    else if month = 1 ∨ month = 2 then .ok (c - 4715, month, day)
    else .error .valueError
  else .error .valueError

/-- `Epoch(y, m, d)` for an integer day and a numeric month: `_check_values` then `_compute_jde`
    (`day += hours/24 + minutes/1440 + sec/86400` with the defaults 0.0). -/
def epoch_ymd (y m : Int) (d : Num) : PyRes Num :=
  match check_values y (get_month_int m) d 0.0 0.0 0.0 with
  | .error e => .error e
  | .ok (year, month, day, hours, minutes, sec) =>
    .ok (compute_jde year month (day + (hours / 24.0 + minutes / 1440.0 + sec / 86400.0)))

/-- `Epoch.mjd()` -/
def mjd (jde : Num) : Num := jde - 2400000.5

end Pymeeus.Gen@K@
