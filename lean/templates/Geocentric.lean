--! kinds: R F
/-
Model of the geocentric reductions of pymeeus (property C09):
  <Planet>.geocentric_position         (Mercury, Venus, Mars, Jupiter, Saturn, Uranus, Neptune: one text; the seven
                                        bodies are identical up to the class name, checked by tools/gen_tables.py)
  Coordinates.ecliptical2equatorial, Coordinates.kepler_equation
  Pluto.geometric_heliocentric_position, Pluto.geocentric_position
  Minor.set, Minor._near_parabolic, Minor.geocentric_position, Minor.heliocentric_ecliptical_position
Hand-written from the source, statement by statement (Python quoted in comments); tied to the source by the
bit-for-bit correspondence run of harness/c09.py.  An `Angle` is its `_deg`, an `Epoch` its `_jde`.

Two operations of `Epoch` are PARAMETERS of the model, so that the theorems hold whatever they do:
  `epochOf x`  = the `_jde` of `Epoch(x)` for a float `x` (what `epoch - tau` builds; the constructor goes through
                 the calendar date and back, see Epoch.set),
  `yearOf x`   = `Epoch(x).year()` (used by Pluto's validity test).
The binary64 instantiation supplies the real ones (`geo_epoch_of_jde`, `geo_epoch_year` below, F only, built on
the calendar core of templates/EpochCore.lean).
-/
--@only F
import Pymeeus.Gen.F.EpochCore
--@end
import Pymeeus.Gen.@K@.SunEarth
namespace Pymeeus.Gen@K@
open Pymeeus Pymeeus.P@K@
/- everything of C07-C09 lives in the sub-namespace `Helio`, so that the Python names used here
   (`kepler_equation`, `ecliptical2equatorial`, `mean_obliquity`, …) cannot clash with other templates -/
namespace Helio

--@only F
/-! ### `Epoch(x)` and `Epoch.year()` on binary64 (Epoch.py:208, 1409, 752, 1775) -/

/-- `Epoch(x)._jde` for a float `x`: `self._jde = x; y, m, d, h, mi, s = self.get_full_date();
    day += hours / 24.0 + minutes / 1440.0 + sec / 86400.0; self._jde = self._compute_jde(y, m, day, utc2tt=False)` -/
def geo_epoch_of_jde (x : Float) : PyRes Float :=
  match get_date x with
  | .error e => .error e
  | .ok (y, m, d) =>
    -- r = d % 1; d = int(d); h = int(r * 24.0); r = r * 24 - h; mi = int(r * 60.0); s = 60.0 * (r * 60.0 - mi)
    let r := pmod d 1.0
    let di : Int := ptrunc d
    let h : Int := ptrunc (r * 24.0)
    let r := r * 24.0 - ofInt h
    let mi : Int := ptrunc (r * 60.0)
    let s := 60.0 * (r * 60.0 - ofInt mi)
    let day := ofInt di + (ofInt h / 24.0 + ofInt mi / 1440.0 + s / 86400.0)
    .ok (compute_jde y m day + 0.0 / 86400.0)

/-- `datetime.date(y, m, d).timetuple().tm_yday` for a valid proleptic-Gregorian date -/
def geo_tm_yday (y m d : Int) : Int :=
  let cum : List Int := [0, 31, 59, 90, 120, 151, 181, 212, 243, 273, 304, 334]
  cum.getD (m - 1).toNat 0 + d + (if m > 2 ∧ calendar_isleap y then 1 else 0)

/-- `Epoch.get_doy(yyyy, mm, dd)` (Epoch.py:752) for integer year and month and a float day -/
def geo_get_doy (yyyy mm : Int) (dd : Float) : PyRes Float :=
  -- if dd < 1 or dd >= 32 or mm < 1 or mm > 12: raise ValueError
  if plt dd 1.0 || ple 32.0 dd || decide (mm < 1) || decide (mm > 12) then .error .valueError else
  -- day = int(dd); frac = dd % 1
  let day : Int := ptrunc dd
  let frac := pmod dd 1.0
  if yyyy > 1582 then
    -- d = datetime.date(yyyy, mm, day)  (ValueError outside 1..9999 or past the end of the month)
    if yyyy > 9999 ∨ day > month_limit_greg yyyy mm then .error .valueError
    else .ok (ofInt (geo_tm_yday yyyy mm day) + frac)
  else
    -- leap = Epoch.is_leap(yyyy); maxdays = [...]; if day > maxdays[mm - 1]: raise ValueError
    let leap := is_leap yyyy
    let maxd : Int := if mm = 2 then (if leap then 29 else 28) else maxdays.getD (mm - 1).toNat 0
    if day > maxd then .error .valueError else
    -- k = 1 if leap else 2
    let k : Int := if leap then 1 else 2
    -- doy = iint(275.0 * mm / 9.0) - k * iint((mm + 9.0) / 12.0) + day - 30.0
    let doy : Float := ofInt (pfloor (275.0 * ofInt mm / 9.0) - k * pfloor ((ofInt mm + 9.0) / 12.0) + day) - 30.0
    -- if yyyy == 1582 and (mm > 10 or (mm == 10 and day >= 15)): doy -= 10.0
    let doy := if yyyy = 1582 ∧ (mm > 10 ∨ (mm = 10 ∧ day ≥ 15)) then doy - 10.0 else doy
    .ok (doy + frac)
where
  month_limit_greg (y m : Int) : Int :=
    if m = 2 then (if calendar_isleap y then 29 else 28) else maxdays.getD (m - 1).toNat 0

/-- `Epoch(x).year()` (Epoch.py:1775) -/
def geo_epoch_year (x : Float) : PyRes Float :=
  -- y, m, d = self.get_date(); doy = Epoch.get_doy(y, m, d); doy -= 1
  match get_date x with
  | .error e => .error e
  | .ok (y, m, d) =>
    match geo_get_doy y m d with
    | .error e => .error e
    | .ok doy =>
      let doy := doy - 1.0
      -- days_of_year = 365.0; if self.leap(): days_of_year = 366.0
      let days_of_year : Float := if is_leap y then 366.0 else 365.0
      -- return y + doy / days_of_year
      .ok (ofInt y + doy / days_of_year)
--@end

/-! ### small numeric helpers not in the preludes -/

--@only R
/-- `math.copysign(1.0, x)` -/
def geo_copysign1 (x : Num) : Num := if x < 0 then -1 else 1
/-- `x ** y` for floats with `x > 0` -/
def geo_pow (x y : Num) : Num := Real.rpow x y
--@end
--@only F
/-- `math.copysign(1.0, x)`: the sign bit of `x` -/
def geo_copysign1 (x : Num) : Num := if x.toBits >>> 63 = 1 then -1.0 else 1.0
/-- `x ** y` for floats -/
def geo_pow (x y : Num) : Num := Float.pow x y
--@end

/-! ### `ecliptical2equatorial` (Coordinates.py:968) -/

def ecliptical2equatorial (longitude latitude obliquity : Num) : PyRes (Num × Num) :=
  let lon := angRad longitude
  let lat := angRad latitude
  let eps := angRad obliquity
  -- x = cos(lat) * cos(lon); y = cos(lat) * sin(lon) * cos(eps) - sin(lat) * sin(eps)
  let x := pcos lat * pcos lon
  let y := pcos lat * psin lon * pcos eps - psin lat * psin eps
  -- z = sin(lat) * cos(eps) + cos(lat) * sin(eps) * sin(lon)
  let z := psin lat * pcos eps + pcos lat * psin eps * psin lon
  -- ra = atan2(y, x); dec = atan2(z, sqrt(x * x + y * y))        (cannot raise)
  let ra := patan2 y x
  let dec := patan2 z (psqrt (x * x + y * y))
  -- ra = Angle(ra, radians=True); ra = ra.to_positive(); dec = Angle(dec, radians=True)
  .ok (angToPositive (angOfRad ra), angOfRad dec)

/-! ### The seven planets: `<Planet>.geocentric_position(epoch)` (e.g. Venus.py:1949) -/

/-- rectangular geocentric ecliptical vector from the two heliocentric positions -/
def geo_xyz (lr br r l0r b0r r0 : Num) : Num × Num × Num :=
  -- x = r * cos(br) * cos(lr) - r0 * cos(b0r) * cos(l0r)
  (r * pcos br * pcos lr - r0 * pcos b0r * pcos l0r,
   -- y = r * cos(br) * sin(lr) - r0 * cos(b0r) * sin(l0r)
   r * pcos br * psin lr - r0 * pcos b0r * psin l0r,
   -- z = r * sin(br) - r0 * sin(b0r)
   r * psin br - r0 * psin b0r)

/-- the light time `tau = 0.0057755183 * delta`, `delta = sqrt(x*x + y*y + z*z)` -/
def light_time (v : Num × Num × Num) : Num :=
  0.0057755183 * psqrt (v.1 * v.1 + v.2.1 * v.2.1 + v.2.2 * v.2.2)

/-- the "Correction to FK5 system" block of `<Planet>.geocentric_position`: `(deltal2, deltab2)` as Angles;
    `t` Julian centuries, `lamb` the geocentric longitude (Angle), `b` the HELIOCENTRIC latitude (Angle) -/
def geo_fk5_deltas (t lamb b : Num) : Num × Num :=
  -- l_prime = lamb - t * (1.397 + t * 0.00031)
  let l_prime := angSubF lamb (t * (1.397 + t * 0.00031))
  -- deltal2 = Angle(0, 0, -0.09033)
  let deltal2 := angDms 0 0 (-0.09033)
  -- a = 0.03916 * (cos(l_prime.rad()) + sin(l_prime.rad())); a = a * tan(b.rad())
  let a := 0.03916 * (pcos (angRad l_prime) + psin (angRad l_prime))
  let a := a * ptan (angRad b)
  -- deltal2 += Angle(0, 0, a)
  let deltal2 := angAdd deltal2 (angDms 0 0 a)
  -- deltab2 = 0.03916 * (cos(l_prime.rad()) - sin(l_prime.rad())); deltab2 = Angle(0, 0, deltab2)
  let deltab2 := angDms 0 0 (0.03916 * (pcos (angRad l_prime) - psin (angRad l_prime)))
  (deltal2, deltab2)

/-- everything after the second heliocentric position: aberration, FK5, nutation, equatorial coordinates
    and the elongation.  `ep` is the (shifted) epoch the code has in `epoch` at that point, `l0` the
    Earth's longitude of the first pass, `b` the planet's latitude of the second pass, `v` the second
    geocentric vector. -/
def planet_reduction (ep l0 b : Num) (v : Num × Num × Num) : PyRes (Num × Num × Num) :=
  let x := v.1
  let y := v.2.1
  let z := v.2.2
  -- lamb = atan2(y, x); beta = atan2(z, sqrt(x * x + y * y))
  let lamb := patan2 y x
  let beta := patan2 z (psqrt (x * x + y * y))
  -- t = (epoch - JDE2000) / 36525
  let t := (ep - 2451545.0) / 36525.0
  -- e = 0.016708634 + t * (-0.000042037 - t * 0.0000001267)
  let e := 0.016708634 + t * (-0.000042037 - t * 0.0000001267)
  -- pie = 102.93735 + t * (1.71946 + t * 0.00046); pie = radians(pie)
  let pie := pradians (102.93735 + t * (1.71946 + t * 0.00046))
  -- lon = l0 + 180.0; lon = lon.rad()
  let lon := angRad (angAdd l0 180.0)
  -- k = 20.49552
  let k : Num := 20.49552
  -- deltal1 = k * (-cos(lon - lamb) + e * cos(pie - lamb)) / cos(beta)         (ZeroDivisionError if cos(beta) == 0)
  if peq (pcos beta) 0.0 then .error .zeroDivisionError else
  let deltal1 := k * (-pcos (lon - lamb) + e * pcos (pie - lamb)) / pcos beta
  -- deltab1 = -k * sin(beta) * (sin(lon - lamb) - e * sin(pie - lamb))
  let deltab1 := -k * psin beta * (psin (lon - lamb) - e * psin (pie - lamb))
  -- deltal1 = Angle(0, 0, deltal1); deltab1 = Angle(0, 0, deltab1)
  let deltal1 := angDms 0 0 deltal1
  let deltab1 := angDms 0 0 deltab1
  -- lamb = Angle(lamb, radians=True); lamb = lamb.to_positive(); beta = Angle(beta, radians=True)
  let lamb := angToPositive (angOfRad lamb)
  let beta := angOfRad beta
  -- l_prime = …; deltal2 = …; deltab2 = …        (correction to the FK5 system, see `geo_fk5_deltas`)
  let fk := geo_fk5_deltas t lamb b
  let deltal2 := fk.1
  let deltab2 := fk.2
  -- lamb = lamb + deltal1 + deltal2; beta = beta + deltab1 + deltab2
  let lamb := angAdd (angAdd lamb deltal1) deltal2
  let beta := angAdd (angAdd beta deltab1) deltab2
  -- dpsi = nutation_longitude(epoch); lamb += dpsi
  let lamb := angAdd lamb (nutation_longitude ep)
  -- e = true_obliquity(epoch); ra, dec = ecliptical2equatorial(lamb, beta, e)
  match ecliptical2equatorial lamb beta (true_obliquity ep) with
  | .error err => .error err
  | .ok (ra, dec) =>
    -- lons, lats, rs = Sun.apparent_geocentric_position(epoch)
    match sun_apparent_geocentric_position ep true with
    | .error err => .error err
    | .ok (lons, _, _) =>
      -- elon = acos(cos(betar) * cos(lambr - lsr))                              (ValueError outside [-1, 1])
      let arg := pcos (angRad beta) * pcos (angRad lamb - angRad lons)
      if plt arg (-1.0) || plt 1.0 arg then .error .valueError else
      -- elon = Angle(elon, radians=True)
      .ok (ra, dec, angOfRad (pacos arg))

/-- `<Planet>.geocentric_position(epoch)` → `(ra, dec, elongation)`; `planet` is the class name. -/
def planet_geocentric_position (epochOf : Num → PyRes Num) (planet : String) (jde : Num) : PyRes (Num × Num × Num) :=
  -- l, b, r = <Planet>.geometric_heliocentric_position(epoch, tofk5=False)
  match planet_geometric_heliocentric_position planet jde false with
  | .error e => .error e
  | .ok (l, b, r) =>
    -- l0, b0, r0 = Earth.geometric_heliocentric_position(epoch, tofk5=False)
    match Earth_geometric_heliocentric_position jde false with
    | .error e => .error e
    | .ok (l0, b0, r0) =>
      let v1 := geo_xyz (angRad l) (angRad b) r (angRad l0) (angRad b0) r0
      -- tau = 0.0057755183 * delta; epoch -= tau
      match epochOf (jde - light_time v1) with
      | .error e => .error e
      | .ok ep =>
        -- l, b, r = <Planet>.geometric_heliocentric_position(epoch, tofk5=False)
        match planet_geometric_heliocentric_position planet ep false with
        | .error e => .error e
        | .ok (l, b, r) =>
          let v2 := geo_xyz (angRad l) (angRad b) r (angRad l0) (angRad b0) r0
          planet_reduction ep l0 b v2

/-! ### Pluto (Pluto.py:239, 300) -/

/-- one pass of the loop over `PLUTO_ARGUMENT`: returns the updated `(corr_lon, corr_lat, corr_rad)` -/
def pluto_term (jj ss pp : Num) (acc : Num × Num × Num) (row : List Num × List Num × List Num × List Num) :
    Num × Num × Num :=
  let arg := row.1
  let lo := row.2.1
  let la := row.2.2.1
  let ra := row.2.2.2
  -- alpha = Angle(iii * jj + jjj * ss + kkk * pp).to_positive(); alpha = alpha.rad()
  let alpha := angRad (angToPositive (angOfDeg (arg.getD 0 0.0 * jj + arg.getD 1 0.0 * ss + arg.getD 2 0.0 * pp)))
  let sin_a := psin alpha
  let cos_a := pcos alpha
  -- corr_lon += a_lon * sin_a + b_lon * cos_a  (etc.)
  (acc.1 + (lo.getD 0 0.0 * sin_a + lo.getD 1 0.0 * cos_a),
   acc.2.1 + (la.getD 0 0.0 * sin_a + la.getD 1 0.0 * cos_a),
   acc.2.2 + (ra.getD 0 0.0 * sin_a + ra.getD 1 0.0 * cos_a))

/-- `Pluto.geometric_heliocentric_position(epoch)`; `year` is the result of `epoch.year()` -/
def pluto_geometric_heliocentric_position (year : PyRes Num) (jde : Num) : PyRes (Num × Num × Num) :=
  match year with
  | .error e => .error e
  | .ok y =>
    -- if y < 1885.0 or y > 2099.0: raise ValueError("Epoch outside the 1885-2099 range")
    if plt y 1885.0 || plt 2099.0 y then .error .valueError else
    -- t = (epoch - JDE2000) / 36525.0
    let t := (jde - 2451545.0) / 36525.0
    let jj := 34.35 + 3034.9057 * t
    let ss := 50.08 + 1222.1138 * t
    let pp := 238.96 + 144.96 * t
    let rows := PLUTO_ARGUMENT.zip (PLUTO_LONGITUDE.zip (PLUTO_LATITUDE.zip PLUTO_RADIUS_VECTOR))
    let c := rows.foldl (pluto_term jj ss pp) (0.0, 0.0, 0.0)
    -- corr_lon /= 1000000.0; corr_lat /= 1000000.0; corr_rad /= 10000000.0
    let corr_lon := c.1 / 1000000.0
    let corr_lat := c.2.1 / 1000000.0
    let corr_rad := c.2.2 / 10000000.0
    -- lon = Angle(238.958116 + 144.96 * t + corr_lon); lat = Angle(-3.908239 + corr_lat); radius = 40.7241346 + corr_rad
    .ok (angOfDeg (238.958116 + 144.96 * t + corr_lon), angOfDeg (-3.908239 + corr_lat), 40.7241346 + corr_rad)

/-- equatorial J2000 vector of Pluto from `(ll, b, r)` (radians) -/
def pluto_xyz (ll b r : Num) : Num × Num × Num :=
  -- sine = 0.397777156; cose = 0.917482062
  let sine : Num := 0.397777156
  let cose : Num := 0.917482062
  -- x = r * cos(ll) * cos(b); y = r * (sin(ll) * cos(b) * cose - sin(b) * sine); z = r * (sin(ll) * cos(b) * sine + sin(b) * cose)
  (r * pcos ll * pcos b, r * (psin ll * pcos b * cose - psin b * sine), r * (psin ll * pcos b * sine + psin b * cose))

/-- `Pluto.geocentric_position(epoch)` → `(ra, dec)` -/
def pluto_geocentric_position (epochOf yearOf : Num → PyRes Num) (jde : Num) : PyRes (Num × Num) :=
  -- y = epoch.year(); if y < 1885.0 or y > 2099.0: raise ValueError   (then the same test inside the callee)
  match pluto_geometric_heliocentric_position (yearOf jde) jde with
  | .error e => .error e
  | .ok (ll, b, r) =>
    let p := pluto_xyz (angRad ll) (angRad b) r
    -- xs, ys, zs = Sun.rectangular_coordinates_j2000(epoch)
    match rectangular_coordinates_j2000 jde with
    | .error e => .error e
    | .ok s =>
      let xi := p.1 + s.1
      let eta := p.2.1 + s.2.1
      let zeta := p.2.2 + s.2.2
      -- delta = sqrt(xi * xi + eta * eta + zeta * zeta); tau = 0.0057755183 * delta
      let tau := light_time (xi, eta, zeta)
      -- ll, b, r = Pluto.geometric_heliocentric_position(epoch - tau)
      match epochOf (jde - tau) with
      | .error e => .error e
      | .ok ep =>
        match pluto_geometric_heliocentric_position (yearOf ep) ep with
        | .error e => .error e
        | .ok (ll, b, r) =>
          let p := pluto_xyz (angRad ll) (angRad b) r
          let xi := p.1 + s.1
          let eta := p.2.1 + s.2.1
          let zeta := p.2.2 + s.2.2
          let delta := psqrt (xi * xi + eta * eta + zeta * zeta)
          -- alpha = Angle(atan2(eta, xi), radians=True); dec = Angle(asin(zeta / delta), radians=True)
          if peq delta 0.0 then .error .zeroDivisionError else
          let q := zeta / delta
          if plt q (-1.0) || plt 1.0 q then .error .valueError else
          .ok (angToPositive (angOfRad (patan2 eta xi)), angOfRad (pasin q))

/-! ### `kepler_equation` (Coordinates.py:2755) -/

/-- `TOL` of pymeeus/base.py -/
def geo_tol : Num := 1e-10

/-- the bisection loop `while abs(e0 - ef) > TOL:` on the state `(e0, d, ef)` -/
def kepler_step (ecc m : Num) (s : Num × Num × Num) : Sum (Num × Num × Num) Num :=
  if plt geo_tol (pabs (s.1 - s.2.2)) then
    -- ef = e0; m1 = e0 - ecc * sin(e0); s = copysign(1.0, m - m1); e0 += d * s; d /= 2.0
    let m1 := s.1 - ecc * psin s.1
    .inl (s.1 + s.2.1 * geo_copysign1 (m - m1), s.2.1 / 2.0, s.1)
  else .inr s.1

/-- `kepler_equation(eccentricity, mean_anomaly)` → `(E, v)` as Angles (degrees).
    `.error .other` = the fuel of the loop model is exhausted (never seen; the step halves `d`). -/
def kepler_equation (ecc mean_anomaly : Num) : PyRes (Num × Num) :=
  -- if eccentricity >= 1.0: raise ValueError("Invalid eccentricity: Orbit must be elliptic")
  if ple 1.0 ecc then .error .valueError else
  -- m = mean_anomaly.rad(); f = copysign(1.0, m); m = abs(m) / (2.0 * pi); m = (m - iint(m)) * 2.0 * pi * f
  let m := angRad mean_anomaly
  let f := geo_copysign1 m
  let m := pabs m / (2.0 * pi)
  let m := (m - ofInt (pfloor m)) * 2.0 * pi * f
  -- if m < 0.0: m += 2.0 * pi
  let m := if plt m 0.0 then m + 2.0 * pi else m
  -- f = 1.0; if m > pi: f = -1; m = 2.0 * pi - m
  let fm : Num × Num := if plt pi m then (-1.0, 2.0 * pi - m) else (1.0, m)
  -- e0 = pi / 2.0; d = pi / 4.0; ef = 0.0; while …
  match loopFuel (kepler_step ecc fm.2) 10000 (pi / 2.0, pi / 4.0, 0.0) with
  | none => .error .other
  | some e0 =>
    -- e = Angle(e0 * f, radians=True); er = e.rad()
    let e := angOfRad (e0 * fm.1)
    let er := angRad e
    -- v = 2.0 * atan(sqrt((1.0 + ecc) / (1.0 - ecc)) * tan(er / 2.0))
    if peq (1.0 - ecc) 0.0 then .error .zeroDivisionError else
    let ratio := (1.0 + ecc) / (1.0 - ecc)
    if plt ratio 0.0 then .error .valueError else
    .ok (e, angOfRad (2.0 * patan (psqrt ratio * ptan (er / 2.0))))

/-! ### Minor bodies (Minor.py) -/

/-- the attributes `Minor.set` stores -/
structure MinorBody where
  aa : Num
  bb : Num
  cc : Num
  am : Num
  bm : Num
  cm : Num
  a : Num
  q : Num
  e : Num
  n : Num
  i : Num
  omega : Num
  w : Num
  t : Num

/-- `Minor.set(q, e, i, omega, w, t)` (Minor.py:70); `i`, `omega`, `w` Angles (degrees), `t` the JDE of perihelion -/
def minor_set (q e i omega w t : Num) : PyRes MinorBody :=
  -- se = 0.397777156; ce = 0.917482062; omer = omega.rad(); ir = i.rad()
  let se : Num := 0.397777156
  let ce : Num := 0.917482062
  let omer := angRad omega
  let ir := angRad i
  let f := pcos omer
  let g := psin omer * ce
  let h := psin omer * se
  let p := -psin omer * pcos ir
  let qq := pcos omer * pcos ir * ce - psin ir * se
  let r := pcos omer * pcos ir * se + psin ir * ce
  -- if abs(e - 1.0) > self._tol: self._a = abs(q / (1.0 - e)) else: self._a = q
  let a := if plt geo_tol (pabs (e - 1.0)) then pabs (q / (1.0 - e)) else q
  -- self._n = 0.9856076686 / (self._a * sqrt(self._a))
  if plt a 0.0 then .error .valueError else
  if peq (a * psqrt a) 0.0 then .error .zeroDivisionError else
  .ok { aa := patan2 f p, bb := patan2 g qq, cc := patan2 h r,
        am := psqrt (f * f + p * p), bm := psqrt (g * g + qq * qq), cm := psqrt (h * h + r * r),
        a := a, q := q, e := e, n := 0.9856076686 / (a * psqrt a), i := i, omega := omega, w := w, t := t }

/-- the Newton loop of the parabolic branch on the state `sp`: `while iterate:` -/
def parabolic_step (ww : Num) (sp : Num) : Sum Num Num :=
  -- s = (2.0 * sp * sp * sp + ww) / (3.0 * (sp * sp + 1.0)); iterate = abs(s - sp) > self._tol; sp = s
  let s := (2.0 * sp * sp * sp + ww) / (3.0 * (sp * sp + 1.0))
  if plt geo_tol (pabs (s - sp)) then .inl s else .inr s

/-- first inner loop of `_near_parabolic`, state `(z, g1, q3, f)`: `while abs(f) > d:` -/
def np_series_step (g y : Num) (st : Int × Num × Num × Num) : Sum (Int × Num × Num × Num) (PyRes Num) :=
  if plt geo_tol (pabs st.2.2.2) then
    -- z += 1; g1 = -g1 * g * y; z1 = (z - (z + 1.0) * g) / (2.0 * z + 1.0); f = z1 * g1; q3 = q3 + f
    let z := st.1 + 1
    let g1 := -st.2.1 * g * y
    let z1 := (ofInt z - (ofInt z + 1.0) * g) / (2.0 * ofInt z + 1.0)
    let f := z1 * g1
    let q3 := st.2.2.1 + f
    -- if z > 50 or abs(f) > d1: raise ValueError("No convergence")
    if z > 50 ∨ plt 10000.0 (pabs f) = true then .inr (.error .valueError) else .inl (z, g1, q3, f)
  else .inr (.ok st.2.2.1)

/-- third inner loop of `_near_parabolic`, state `(s, s1)`: `while abs(s - s1) > d:` -/
def np_newton_step (q3 : Num) (st : Num × Num) : Sum (Num × Num) Num :=
  if plt geo_tol (pabs (st.1 - st.2)) then
    -- s1 = s; s = (2.0 * s * s * s / 3.0 + q3) / (s * s + 1.0)
    .inl ((2.0 * st.1 * st.1 * st.1 / 3.0 + q3) / (st.1 * st.1 + 1.0), st.1)
  else .inr st.1

/-- outer loop of `_near_parabolic`, state `(s, s0, ll)`: `while abs(s - s0) > d:` -/
def np_outer_step (g q2 : Num) (st : Num × Num × Num) : Sum (Num × Num × Num) (PyRes Num) :=
  if plt geo_tol (pabs (st.1 - st.2.1)) then
    let s := st.1
    -- s0 = s; z = 1; y = s * s; g1 = -y * s; q3 = q2 + 2.0 * g * s * y / 3.0; f = d + 1.0
    let y := s * s
    let g1 := -y * s
    let q3 := q2 + 2.0 * g * s * y / 3.0
    let f := geo_tol + 1.0
    match loopFuel (np_series_step g y) 10000 (1, g1, q3, f) with
    | none => .inr (.error .other)
    | some (.error e) => .inr (.error e)
    | some (.ok q3) =>
      -- ll += 1; if ll > 50: raise ValueError("No convergence")
      let ll := st.2.2 + 1.0
      if plt 50.0 ll then .inr (.error .valueError) else
      -- s1 = s + 1.0; while abs(s - s1) > d: …
      match loopFuel (np_newton_step q3) 100000 (s, s + 1.0) with
      | none => .inr (.error .other)
      | some s' => .inl (s', s, ll)
  else .inr (.ok st.1)

/-- `Minor._near_parabolic(t)` → `(v, rr)`, `v` an Angle (degrees) -/
def near_parabolic (body : MinorBody) (t : Num) : PyRes (Num × Num) :=
  -- k = 0.01720209895; d1 = 10000; c = 1.0 / 3.0; d = self._tol; q = self._q; e = self._e
  let k : Num := 0.01720209895
  let c : Num := 1.0 / 3.0
  let q := body.q
  let e := body.e
  -- q1 = k * sqrt((1.0 + e) / q) / (2.0 * q)
  if peq q 0.0 then .error .zeroDivisionError else
  if plt ((1.0 + e) / q) 0.0 then .error .valueError else
  let q1 := k * psqrt ((1.0 + e) / q) / (2.0 * q)
  -- g = (1.0 - e) / (1.0 + e)
  if peq (1.0 + e) 0.0 then .error .zeroDivisionError else
  let g := (1.0 - e) / (1.0 + e)
  -- if abs(t) > d:
  if plt geo_tol (pabs t) then
    -- q2 = q1 * t; s = 2.0 / (3.0 * abs(q2)); s = 2.0 / tan(2.0 * atan(tan(atan(s) / 2) ** c)); if t < 0.0: s = -s
    let q2 := q1 * t
    if peq (3.0 * pabs q2) 0.0 then .error .zeroDivisionError else
    let s := 2.0 / (3.0 * pabs q2)
    let tn := ptan (2.0 * patan (geo_pow (ptan (patan s / 2.0)) c))
    if peq tn 0.0 then .error .zeroDivisionError else
    let s := 2.0 / tn
    let s := if plt t 0.0 then -s else s
    let finish := fun (s : Num) =>
      -- v = 2.0 * atan(s); rr = q * (1.0 + e) / (1.0 + e * cos(v)); v = Angle(v, radians=True).to_positive()
      let v := 2.0 * patan s
      if peq (1.0 + e * pcos v) 0.0 then (.error .zeroDivisionError : PyRes (Num × Num)) else
      .ok (angToPositive (angOfRad v), q * (1.0 + e) / (1.0 + e * pcos v))
    -- if abs(e - 1.0) < d: (parabolic case)
    if plt (pabs (e - 1.0)) geo_tol then finish s else
    -- ll = 0.0; s0 = s + 1.0; while abs(s - s0) > d: …
    match loopFuel (np_outer_step g q2) 1000 (s, s + 1.0, 0.0) with
    | none => .error .other
    | some (.error err) => .error err
    | some (.ok s) => finish s
  else
    -- rr = q; v = Angle(0.0)
    .ok (angOfDeg 0.0, q)

/-- branch `if e < 0.98:` of `Minor.geocentric_position` → `(v, rr)` -/
def minor_elliptic (body : MinorBody) (t_peri : Num) : PyRes (Num × Num) :=
  -- m = t_peri * n; m = Angle(m)
  let m := angOfDeg (t_peri * body.n)
  -- ee, v = kepler_equation(e, m); ee = Angle(ee).to_positive(); er = ee.rad(); rr = a * (1.0 - e * cos(er))
  match kepler_equation body.e m with
  | .error err => .error err
  | .ok (ee, v) => .ok (v, body.a * (1.0 - body.e * pcos (angRad (angToPositive ee))))

/-- branch `elif abs(e - 1.0) < self._tol:` (first pass: `epoch - self._t`, second pass: `t_peri`, i.e. the
    time from perihelion of the pass in both) -/
def minor_parabolic (body : MinorBody) (t_peri : Num) : PyRes (Num × Num) :=
  -- q = self._q; ww = (0.03649116245 * t_peri) / (q * sqrt(q)); sp = ww / 3.0
  let q := body.q
  if plt q 0.0 then .error .valueError else
  if peq (q * psqrt q) 0.0 then .error .zeroDivisionError else
  let ww := 0.03649116245 * t_peri / (q * psqrt q)
  match loopFuel (parabolic_step ww) 100000 (ww / 3.0) with
  | none => .error .other
  | some s =>
    -- v = 2.0 * atan(s); v = Angle(v, radians=True); rr = q * (1.0 + s * s)
    .ok (angOfRad (2.0 * patan s), q * (1.0 + s * s))

/-- the three orbit regimes of `Minor.geocentric_position`: true anomaly `v` (an Angle, degrees) and radius
    vector for the time from perihelion `t_peri` -/
def minor_orbit (body : MinorBody) (t_peri : Num) : PyRes (Num × Num) :=
  -- if e < 0.98:
  if plt body.e 0.98 then minor_elliptic body t_peri
  -- elif abs(e - 1.0) < self._tol:
  else if plt (pabs (body.e - 1.0)) geo_tol then minor_parabolic body t_peri
  -- else: v, rr = self._near_parabolic(t_peri)
  else near_parabolic body t_peri

/-- `x = rr * am * sin(aa + wr + vr)` etc. (equatorial J2000 heliocentric vector) -/
def minor_xyz (body : MinorBody) (v rr : Num) : Num × Num × Num :=
  -- wr = w.rad(); vr = Angle(v).rad()
  let wr := angRad body.w
  let vr := angRad v
  (rr * body.am * psin (body.aa + wr + vr), rr * body.bm * psin (body.bb + wr + vr), rr * body.cm * psin (body.cc + wr + vr))

/-- `Minor.geocentric_position(epoch)` → `(ra, dec, elongation)` -/
def minor_geocentric_position (body : MinorBody) (jde : Num) : PyRes (Num × Num × Num) :=
  -- t_peri = epoch - t
  match minor_orbit body (jde - body.t) with
  | .error err => .error err
  | .ok (v, rr) =>
    let p := minor_xyz body v rr
    -- xs, ys, zs = Sun.rectangular_coordinates_j2000(epoch)
    match rectangular_coordinates_j2000 jde with
    | .error err => .error err
    | .ok s =>
      let xi := p.1 + s.1
      let eta := p.2.1 + s.2.1
      let zeta := p.2.2 + s.2.2
      -- delta = sqrt(xi * xi + eta * eta + zeta * zeta); tau = 0.0057755183 * delta
      let tau := 0.0057755183 * psqrt (xi * xi + eta * eta + zeta * zeta)
      -- t_peri = epoch - t - tau
      match minor_orbit body (jde - body.t - tau) with
      | .error err => .error err
      | .ok (v, rr) =>
        let p := minor_xyz body v rr
        let xi := p.1 + s.1
        let eta := p.2.1 + s.2.1
        let zeta := p.2.2 + s.2.2
        -- ra = Angle(atan2(eta, xi), radians=True); dec = Angle(atan2(zeta, sqrt(xi * xi + eta * eta)), radians=True)
        let ra := angOfRad (patan2 eta xi)
        let dec := angOfRad (patan2 zeta (psqrt (xi * xi + eta * eta)))
        -- delta = sqrt(xi * xi + eta * eta + zeta * zeta)        (distance of the light-time corrected position)
        let delta := psqrt (xi * xi + eta * eta + zeta * zeta)
        -- r_sun = sqrt(xs * xs + ys * ys + zs * zs); psi = acos((xi * xs + eta * ys + zeta * zs) / (r_sun * delta))
        let r_sun := psqrt (s.1 * s.1 + s.2.1 * s.2.1 + s.2.2 * s.2.2)
        if peq (r_sun * delta) 0.0 then .error .zeroDivisionError else
        let arg := (xi * s.1 + eta * s.2.1 + zeta * s.2.2) / (r_sun * delta)
        if plt arg (-1.0) || plt 1.0 arg then .error .valueError else
        .ok (ra, dec, angOfRad (pacos arg))

/-- `Minor.heliocentric_ecliptical_position(epoch)` → `(lon, lat)` -/
def minor_heliocentric_ecliptical_position (body : MinorBody) (jde : Num) : PyRes (Num × Num) :=
  -- t_peri = epoch - t; m = t_peri * n; m = Angle(m); ee, v = kepler_equation(e, m)
  let m := angOfDeg ((jde - body.t) * body.n)
  match kepler_equation body.e m with
  | .error err => .error err
  | .ok (ee, v) =>
    -- ee = Angle(ee).to_positive(); er = ee.rad(); r = a * (1.0 - e * cos(er))
    let r := body.a * (1.0 - body.e * pcos (angRad (angToPositive ee)))
    -- wr = w.rad(); vr = Angle(v).rad(); ur = wr + vr; omer = omega.rad(); ir = i.rad()
    let ur := angRad body.w + angRad v
    let omer := angRad body.omega
    let ir := angRad body.i
    let x := r * (pcos omer * pcos ur - psin omer * psin ur * pcos ir)
    let y := r * (psin omer * pcos ur + pcos omer * psin ur * pcos ir)
    let z := r * psin ir * psin ur
    -- lon = atan2(y, x); lat = atan2(z, sqrt(x * x + y * y))
    .ok (angOfRad (patan2 y x), angOfRad (patan2 z (psqrt (x * x + y * y))))

end Helio
end Pymeeus.Gen@K@
