--! kinds: R F
/-
Model of the two-body functions of pymeeus/Coordinates.py (property C11): `kepler_equation`,
`velocity`, `velocity_perihelion`, `velocity_aphelion`, `length_orbit`, `passage_nodes_elliptic`,
`passage_nodes_parabolic`, `phase_angle`, `illuminated_fraction`, and of the few pieces of
`Angle` arithmetic these functions perform internally.  Hand-written from the source; each
definition follows the Python statement by statement (the Python line is quoted) and is tied to
/repo by the bit-exact correspondence run of the binary64 instantiation (harness/c11.py).

Instantiations: R (Num = ℝ, theorems in Props/C11.lean) and F (Num = Float, compared bit for bit
with CPython).

Conventions: an `Angle` is represented by its degree value `_deg : Num`; an `Epoch` by its `_jde`.
A Python exception is an `.error` of `PyRes`: every float division tests its divisor
(`ZeroDivisionError`), `math.sqrt` / `math.acos` / `math.asin` test their domain (`ValueError`).
-/
import Pymeeus.Pre@K@
namespace Pymeeus.Gen@K@
namespace Kepler
open Pymeeus Pymeeus.P@K@

/-! ### Python float operations that can raise -/

/-- `x / y` on floats: `ZeroDivisionError` when `y == 0`. -/
def fdiv (x y : Num) : PyRes Num := if peq y 0 then .error .zeroDivisionError else .ok (x / y)
/-- `math.sqrt(x)`: `ValueError` when `x < 0`. -/
def fsqrt (x : Num) : PyRes Num := if plt x 0 then .error .valueError else .ok (psqrt x)
/-- `math.acos(x)`: `ValueError` outside [-1, 1]. -/
def facos (x : Num) : PyRes Num := if plt x (-1) || plt 1 x then .error .valueError else .ok (pacos x)
/-- `math.asin(x)`: `ValueError` outside [-1, 1]. -/
def fasin (x : Num) : PyRes Num := if plt x (-1) || plt 1 x then .error .valueError else .ok (pasin x)

/-- `math.copysign(1.0, x)`.  Over ℝ there is no negative zero: `1` for `x ≥ 0`. -/
--@only R
def copysign1 (x : Num) : Num := if 0 ≤ x then 1 else -1
--@end
--@only F
def copysign1 (x : Num) : Num := if x.toBits >>> 63 == 1 then -1.0 else 1.0
--@end

/-! ### The pieces of `Angle` used here (Angle.py), on the degree value -/

/-- `Angle.reduce_deg(deg)` (Angle.py:89). -/
def reduce_deg (deg : Num) : Num :=
  -- if abs(deg) >= 360.0:
  if ple 360.0 (pabs deg) then
    -- sign = 1.0 if deg >= 0 else -1.0
    let sign : Num := if ple 0 deg then 1.0 else -1.0
    -- frac = abs(deg) % 1
    let frac := pmod (pabs deg) 1
    -- deg = int(abs(deg)) % 360
    let n : Int := imod (ptrunc (pabs deg)) 360
    -- deg = sign * (deg + frac)
    sign * (ofInt n + frac)
  else deg   -- return float(deg)

/-- `Angle(x, radians=True)._deg` : `reduce_deg(degrees(x))` (Angle.set, one numeric argument). -/
def angle_of_rad (x : Num) : Num := reduce_deg (pdegrees x)

/-- `(a + b)._deg` for an Angle `a` and a float or Angle `b` (`Angle.__add__`): `Angle(a._deg + float(b))`. -/
def angle_add (a b : Num) : Num := reduce_deg (a + b)

/-- `(-a)._deg` (`Angle.__neg__`): `Angle(-self._deg)`. -/
def angle_neg (a : Num) : Num := reduce_deg (-a)

/-- `(a - b)._deg` for an Angle `a` and a float `b` (`Angle.__sub__`): `self.__add__(-b)`. -/
def angle_sub (a b : Num) : Num := angle_add a (-b)

/-- `(b - a)._deg` for a float `b` and an Angle `a` (`Angle.__rsub__`): `-self.__sub__(b)`. -/
def angle_rsub (a b : Num) : Num := angle_neg (angle_sub a b)

/-- `Angle.to_positive()` (Angle.py:559, after the fix 92ff91c). -/
def to_positive (deg : Num) : Num :=
  -- if self._deg < 0:
  if plt deg 0 then
    -- self._deg = 360.0 - abs(self._deg)
    let d := 360.0 - pabs deg
    -- if self._deg >= 360.0: self._deg = 0.0
    if ple 360.0 d then 0.0 else d
  else deg

/-! ### Kepler's equation (Coordinates.py:2755), Sinnott's binary search -/

/-- `base.TOL` -/
def TOL : Num := 1e-10

/-- One evaluation of the loop test and body of
    `while abs(e0 - ef) > TOL: ef = e0; m1 = e0 - ecc*sin(e0); s = copysign(1.0, m - m1); e0 += d*s; d /= 2.0`.
    State `(e0, d, ef)`; `.inr e0` when the test fails. -/
def kepler_step (ecc m : Num) (st : Num × Num × Num) : Sum (Num × Num × Num) Num :=
  let e0 := st.1
  let d := st.2.1
  let ef := st.2.2
  if plt TOL (pabs (e0 - ef)) then
    let ef := e0
    let m1 := e0 - ecc * psin e0
    let s := copysign1 (m - m1)
    let e0 := e0 + d * s
    let d := d / 2.0
    .inl (e0, d, ef)
  else .inr e0

/-- Fuel given to the loop; `Props/C11.lean` proves that 35 evaluations of the test suffice for
    every input over ℝ (34 passes through the body). -/
def kepler_fuel : Nat := 100

/-- The reduction of the mean anomaly (radians) to `[0, π]` and the reflection flag `f`. -/
def kepler_reduce (mdeg : Num) : Num × Num :=
  -- m = mean_anomaly.rad()
  let m := pradians mdeg
  -- f = copysign(1.0, m)
  let f := copysign1 m
  -- m = abs(m) / (2.0 * pi)
  let m := pabs m / (2.0 * pi)
  -- m = (m - iint(m)) * 2.0 * pi * f
  let m := (m - ofInt (pfloor m)) * 2.0 * pi * f
  -- if m < 0.0: m += 2.0 * pi
  let m := if plt m 0.0 then m + 2.0 * pi else m
  -- f = 1.0 ; if m > pi: f = -1 ; m = 2.0 * pi - m
  if plt pi m then (-1, 2.0 * pi - m) else (1.0, m)

/-- The binary search alone: `e0` on exit (`none`: fuel exhausted). -/
def kepler_search (ecc m : Num) : Option Num :=
  -- e0 = pi / 2.0 ; d = pi / 4.0 ; ef = 0.0
  loopFuel (kepler_step ecc m) kepler_fuel (pi / 2.0, pi / 4.0, 0.0)

/-- `kepler_equation(eccentricity, mean_anomaly)`: degree values of the Angles `(e, v)`. -/
def kepler_equation (ecc mdeg : Num) : PyRes (Num × Num) :=
  -- if eccentricity >= 1.0: raise ValueError("Invalid eccentricity: Orbit must be elliptic")
  if ple 1.0 ecc then .error .valueError else
  let fm := kepler_reduce mdeg
  let f := fm.1
  let m := fm.2
  match kepler_search ecc m with
  | none => .error .other
  | some e0 =>
    -- e = Angle(e0 * f, radians=True)
    let e := angle_of_rad (e0 * f)
    -- er = e.rad()
    let er := pradians e
    -- v = 2.0 * atan(sqrt((1.0 + ecc) / (1.0 - ecc)) * tan(er / 2.0))
    match fdiv (1.0 + ecc) (1.0 - ecc) with
    | .error x => .error x
    | .ok q =>
      match fsqrt q with
      | .error x => .error x
      | .ok sq =>
        let v := 2.0 * patan (sq * ptan (er / 2.0))
        -- return e, Angle(v, radians=True)
        .ok (e, angle_of_rad v)

/-- `Angle(M)` for a float `M` followed by `kepler_equation`: the constructor reduces whole turns. -/
def kepler_of_float (ecc mean_anomaly : Num) : PyRes (Num × Num) :=
  kepler_equation ecc (reduce_deg mean_anomaly)

/-! ### Speeds (Coordinates.py:2896-2970) -/

/-- `velocity(r, a)`: `42.1218 * sqrt((1.0 / r) - (1.0 / (2.0 * a)))`. -/
def velocity (r a : Num) : PyRes Num :=
  -- if r <= 0.0 or a <= 0.0: raise ValueError("Invalid input values")
  if ple r 0.0 || ple a 0.0 then .error .valueError else
  match fdiv 1.0 r with
  | .error x => .error x
  | .ok ir =>
    match fdiv 1.0 (2.0 * a) with
    | .error x => .error x
    | .ok ia =>
      match fsqrt (ir - ia) with
      | .error x => .error x
      | .ok s => .ok (42.1218 * s)

/-- `velocity_perihelion(e, a)`: `temp = sqrt((1.0 + e) / (1.0 - e)); 29.7847 * temp / sqrt(a)`. -/
def velocity_perihelion (e a : Num) : PyRes Num :=
  match fdiv (1.0 + e) (1.0 - e) with
  | .error x => .error x
  | .ok q =>
    match fsqrt q with
    | .error x => .error x
    | .ok temp =>
      match fsqrt a with
      | .error x => .error x
      | .ok sa => fdiv (29.7847 * temp) sa

/-- `velocity_aphelion(e, a)`: `temp = sqrt((1.0 - e) / (1.0 + e)); 29.7847 * temp / sqrt(a)`. -/
def velocity_aphelion (e a : Num) : PyRes Num :=
  match fdiv (1.0 - e) (1.0 + e) with
  | .error x => .error x
  | .ok q =>
    match fsqrt q with
    | .error x => .error x
    | .ok temp =>
      match fsqrt a with
      | .error x => .error x
      | .ok sa => fdiv (29.7847 * temp) sa

/-! ### Length of the orbit (Coordinates.py:2973) -/

/-- The formula used below the switch: `pi * (21.0*aa - 2.0*gg - 3.0*hh) / 8.0`
    with `aa = (a+b)/2`, `gg = sqrt(a*b)`, `hh = 2ab/(a+b)`. -/
def length_low (a b : Num) : PyRes Num :=
  -- aa = (a + b) / 2.0
  let aa := (a + b) / 2.0
  -- gg = sqrt(a * b)
  match fsqrt (a * b) with
  | .error x => .error x
  | .ok gg =>
    -- hh = (2.0 * a * b) / (a + b)
    match fdiv (2.0 * a * b) (a + b) with
    | .error x => .error x
    | .ok hh => .ok (pi * (21.0 * aa - 2.0 * gg - 3.0 * hh) / 8.0)

/-- The formula used from the switch on: `pi * (3.0*(a+b) - sqrt((a + 3.0*b) * (3.0*a + b)))`. -/
def length_high (a b : Num) : PyRes Num :=
  match fsqrt ((a + 3.0 * b) * (3.0 * a + b)) with
  | .error x => .error x
  | .ok s => .ok (pi * (3.0 * (a + b) - s))

/-- `length_orbit(e, a)`. -/
def length_orbit (e a : Num) : PyRes Num :=
  -- b = a * sqrt(1.0 - e * e)
  match fsqrt (1.0 - e * e) with
  | .error x => .error x
  | .ok s =>
    let b := a * s
    -- if e < 0.95: ... else: ...
    if plt e 0.95 then length_low a b else length_high a b

/-! ### Passage through the nodes (Coordinates.py:3008, 3077) -/

/-- `v = 360.0 - omega` (ascending) or `180.0 - omega` (descending): degree value of the Angle. -/
def node_anomaly (omega : Num) (ascending : Bool) : Num :=
  if ascending then angle_rsub omega 360.0 else angle_rsub omega 180.0

/-- `passage_nodes_elliptic(omega, e, a, t, ascending)`: `(tt._jde, r)`. -/
def passage_nodes_elliptic (omega e a t : Num) (ascending : Bool) : PyRes (Num × Num) :=
  let v := node_anomaly omega ascending
  -- ee = 2.0 * atan(sqrt((1.0 - e)/(1.0 + e)) * tan(v.rad() / 2.0))
  match fdiv (1.0 - e) (1.0 + e) with
  | .error x => .error x
  | .ok q =>
    match fsqrt q with
    | .error x => .error x
    | .ok sq =>
      let ee := 2.0 * patan (sq * ptan (pradians v / 2.0))
      -- m = ee - e * sin(ee)
      let m := ee - e * psin ee
      -- n = 0.9856076686/(a * sqrt(a))
      match fsqrt a with
      | .error x => .error x
      | .ok sa =>
        match fdiv 0.9856076686 (a * sa) with
        | .error x => .error x
        | .ok n =>
          -- tt = t + degrees(m) / n
          match fdiv (pdegrees m) n with
          | .error x => .error x
          | .ok dt =>
            let tt := t + dt
            -- r = a * (1.0 - e * cos(ee))
            let r := a * (1.0 - e * pcos ee)
            .ok (tt, r)

/-- `passage_nodes_parabolic(omega, q, t, ascending)`: `(tt._jde, r)`. -/
def passage_nodes_parabolic (omega q t : Num) (ascending : Bool) : PyRes (Num × Num) :=
  let v := node_anomaly omega ascending
  -- s = tan(v.rad() / 2.0) ; s2 = s * s
  let s := ptan (pradians v / 2.0)
  let s2 := s * s
  -- tt = t + 27.403895 * s * (s2 + 3.0) * q * sqrt(q)
  match fsqrt q with
  | .error x => .error x
  | .ok sq =>
    let tt := t + 27.403895 * s * (s2 + 3.0) * q * sq
    -- r = q * (1.0 + s2)
    let r := q * (1.0 + s2)
    .ok (tt, r)

/-! ### Phase angle and illuminated fraction (Coordinates.py:3140, 3173) -/

/-- `phase_angle(sun_dist, earth_dist, sun_earth_dist)`: degree value of the Angle (with the clamp of a27247f). -/
def phase_angle (sd ed sed : Num) : PyRes Num :=
  -- cosine = ((sd*sd + ed*ed - sed*sed) / (2.0 * sd * ed))
  match fdiv (sd * sd + ed * ed - sed * sed) (2.0 * sd * ed) with
  | .error x => .error x
  | .ok c =>
    -- if abs(cosine) > 1.0 and abs(cosine) < 1.0 + 1e-12: cosine = 1.0 if cosine > 0.0 else -1.0
    let c := if plt 1.0 (pabs c) && plt (pabs c) (1.0 + 1e-12) then (if plt 0.0 c then 1.0 else -1.0) else c
    -- angle = acos(cosine)
    match facos c with
    | .error x => .error x
    | .ok ang => .ok (angle_of_rad ang)   -- Angle(angle, radians=True)

/-- `illuminated_fraction(sun_dist, earth_dist, sun_earth_dist)`. -/
def illuminated_fraction (sd ed sed : Num) : PyRes Num :=
  -- k = ((sd + ed)*(sd + ed) - sed*sed) / (4.0 * sd * ed)
  fdiv ((sd + ed) * (sd + ed) - sed * sed) (4.0 * sd * ed)

end Kepler
end Pymeeus.Gen@K@
