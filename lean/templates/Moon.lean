--! kinds: R F
/-
Model of pymeeus/Moon.py (hand-written from the source, statement by statement; the Python line
is quoted).  The tables 47.A / 47.B and every sum-of-periodic-terms expression are NOT written
here: they are `Pymeeus.MoonData.*`, regenerated from the current source by tools/gen_moon.py
on every bin/setup and bin/check, and interpreted by the evaluators `evalTerms`, `sigma_l`,
`sigma_r`, `sigma_b` below.

Instantiations (tools/instantiate.py):
  Pymeeus/Gen/R/Moon.lean  Num = ℝ      the ideal-arithmetic reading the theorems are about
  Pymeeus/Gen/F/Moon.lean  Num = Float  binary64, compared with CPython bit for bit

Conventions.  An `Epoch` enters as its JDE (a number).  An `Angle` is its `_deg` field (a number);
the few Angle methods used by Moon.py are mirrored at the top (names local to `MoonM`).
The finders take the count from the query itself, `k = round((epoch.jde() - J0) / P, 0)` with their
own `J0`, `P` (plus the quarter / half offsets): they are functions of the query JDE.
`nutation_longitude` / `true_obliquity` / the coarse Sun are the models of templates/Vsop.lean and
SunEarth.lean (namespace `Helio`): `apparent_*_jde`, `position_bright_limb_jde`.
`Epoch(jde)` (the constructor the finders end with) re-derives the JDE through
`get_full_date` / `_compute_jde`; the F model does the same (`epoch_of_jde`), the R model takes
it as the identity (the exact round trip is property C02).
Python exceptions: `PyRes`; `asin` outside [-1, 1] -> ValueError, `/ 0.0` -> ZeroDivisionError.
-/
import Pymeeus.Pre@K@
import Pymeeus.Gen.MoonData
--@only F
import Pymeeus.Gen.F.EpochCore
--@end
import Pymeeus.Gen.@K@.SunEarth
namespace Pymeeus.Gen@K@
namespace MoonM
open Pymeeus Pymeeus.P@K@ Pymeeus.Moon Pymeeus.MoonData

/-! ### numbers of the generated data -/
--@only F
/-- value of the decimal literal `m · 10^(-e)`: exactly what the literal elaborates to. -/
def dec (x : Dec) : Float :=
  if x.m < 0 then -(Float.ofScientific x.m.natAbs true x.e) else Float.ofScientific x.m.natAbs true x.e
/-- `round(x, 0)`: nearest integer, ties to even (as a float again: see `kround`). -/
def mround (x : Float) : Int := PF.pround x
--@end
--@only R
/-- value of the decimal literal `m · 10^(-e)`. -/
def dec (x : Dec) : ℝ := (x.m : ℝ) / 10 ^ x.e
/-- `round(x, 0)`: nearest integer, ties to even. -/
def mround (x : ℝ) : Int :=
  if x - (⌊x⌋ : ℝ) < 1 / 2 then ⌊x⌋
  else if 1 / 2 < x - (⌊x⌋ : ℝ) then ⌊x⌋ + 1
  else if ⌊x⌋ % 2 = 0 then ⌊x⌋ else ⌊x⌋ + 1
--@end

/-! ### the Angle helpers Moon.py uses (Angle.py) -/

/-- `Angle.reduce_deg(deg)` (Angle.py:89). -/
def reduce_deg (deg : Num) : Num :=
  -- if abs(deg) >= 360.0:
  if ple 360.0 (pabs deg) then
    -- sign = 1.0 if deg >= 0 else -1.0
    let sign : Num := if ple 0.0 deg then 1.0 else -1.0
    -- frac = abs(deg) % 1
    let frac : Num := pmod (pabs deg) 1.0
    -- deg = int(abs(deg)) % 360
    let d : Int := imod (ptrunc (pabs deg)) 360
    -- deg = sign * (deg + frac);  return float(deg)
    sign * (ofInt d + frac)
  else deg

/-- `Angle.to_positive()` (Angle.py:559) on the `_deg` field. -/
def to_positive (deg : Num) : Num :=
  -- if self._deg < 0: self._deg = 360.0 - abs(self._deg); if self._deg >= 360.0: self._deg = 0.0
  if plt deg 0.0 then
    let d : Num := 360.0 - pabs deg
    if ple 360.0 d then 0.0 else d
  else deg

/-- `Angle(Angle.reduce_deg(x)).to_positive()`: `reduce_deg` runs twice (once explicitly, once in
    `Angle.set`). -/
def red_pos (x : Num) : Num := to_positive (reduce_deg (reduce_deg x))

/-- `Angle(x, radians=True)`: `reduce_deg(degrees(x))`. -/
def angle_of_rad (x : Num) : Num := reduce_deg (pdegrees x)

/-- `Angle(0, 0, x)` = `Angle.dms2deg(0, 0, x)` (Angle.py:114-204), degrees and minutes the
    int 0. -/
def angle_dms00 (x : Num) : Num :=
  -- sign = -1.0 if (degrees < 0) or (minutes < 0) or (seconds < 0) else 1.0
  let sign : Num := if plt x 0.0 then -1.0 else 1.0
  -- seconds = abs(seconds)
  let seconds : Num := pabs x
  -- if seconds >= 60.0: minutes += int(seconds / 60.0); seconds = seconds % 60
  let ms : Int × Num := if ple 60.0 seconds then (ptrunc (seconds / 60.0), pmod seconds 60.0) else (0, seconds)
  -- if minutes >= 60.0: degrees += int(minutes / 60.0); minutes = minutes % 60
  let dm : Int × Int := if ms.1 ≥ 60 then (ptrunc (ofInt ms.1 / 60.0), imod ms.1 60) else (0, ms.1)
  -- degrees = degrees % 360
  let degrees : Int := imod dm.1 360
  -- deg = sign * (de + mi / 60.0 + se / 3600.0);  return Angle.reduce_deg(deg)
  reduce_deg (sign * (ofInt degrees + ofInt dm.2 / 60.0 + ms.2 / 3600.0))

/-! ### evaluators of the generated data -/

/-- value of an argument expression (same operations, same order as the source). -/
def aeval (env : List Num) : AExp → Num
  | .var i => env.getD i 0.0
  | .scale c a => dec c * aeval env a
  | .add a b => aeval env a + aeval env b
  | .sub a b => aeval env a - aeval env b

/-- amplitude `c0` or `(c0 + c1 * t)` -/
def tamp (t : Num) (tm : Term) : Num :=
  match tm.c1 with
  | none => dec tm.c0
  | some c1 => dec tm.c0 + dec c1 * t

/-- `amp * E * … * E` (left to right, as Python parses `a * E * E * sin(x)`) -/
def epowmul (E : Num) : Nat → Num → Num
  | 0, a => a
  | n + 1, a => epowmul E n (a * E)

/-- one summand `amp [* E [* E]] * sin|cos(arg)` -/
def teval (E t : Num) (env : List Num) (tm : Term) : Num :=
  match tm.fn with
  | .sin => epowmul E tm.epow (tamp t tm) * psin (aeval env tm.arg)
  | .cos => epowmul E tm.epow (tamp t tm) * pcos (aeval env tm.arg)
  | .one => epowmul E tm.epow (tamp t tm)

/-- `x1 + x2 - x3 + …` evaluated left to right, starting from the first summand. -/
def evalTerms (E t : Num) (env : List Num) : List Term → Num
  | [] => 0.0
  | tm :: rest => rest.foldl (fun acc x => acc + teval E t env x) (teval E t env tm)

/-- `argument = 0.0; for j in range(4): if TABLE[i][j]: argument += TABLE[i][j] * arguments[j]` -/
def row_arg (d m mp f : Int) (Dr Mr Mpr Fr : Num) : Num :=
  let a : Num := 0.0
  let a := if d ≠ 0 then a + ofInt d * Dr else a
  let a := if m ≠ 0 then a + ofInt m * Mr else a
  let a := if mp ≠ 0 then a + ofInt mp * Mpr else a
  let a := if f ≠ 0 then a + ofInt f * Fr else a
  a

/-- `if abs(value[1]) == 1: coeff = coeff * E  elif abs(value[1]) == 2: coeff = coeff * E2` -/
def efac (m : Int) (E E2 c : Num) : Num :=
  if m.natAbs = 1 then c * E else if m.natAbs = 2 then c * E2 else c

/-- `sigmal = 0.0; for … : sigmal += coeffl * sin(argument)` over table 47.A -/
def sigma_l (E E2 Dr Mr Mpr Fr : Num) (rows : List RowLR) : Num :=
  rows.foldl (fun acc r => acc + efac r.m E E2 (dec r.cl) * psin (row_arg r.d r.m r.mp r.f Dr Mr Mpr Fr)) 0.0
/-- `sigmar = 0.0; for … : sigmar += coeffr * cos(argument)` over table 47.A -/
def sigma_r (E E2 Dr Mr Mpr Fr : Num) (rows : List RowLR) : Num :=
  rows.foldl (fun acc r => acc + efac r.m E E2 (dec r.cr) * pcos (row_arg r.d r.m r.mp r.f Dr Mr Mpr Fr)) 0.0
/-- `sigmab = 0.0; for … : sigmab += coeffb * sin(argument)` over table 47.B -/
def sigma_b (E E2 Dr Mr Mpr Fr : Num) (rows : List RowB) : Num :=
  rows.foldl (fun acc r => acc + efac r.m E E2 (dec r.cb) * psin (row_arg r.d r.m r.mp r.f Dr Mr Mpr Fr)) 0.0

/-! ### Moon.geocentric_ecliptical_pos (Moon.py:179) -/

/-- `E = 1.0 + (-0.002516 - 0.0000074 * t) * t` (the same line in the position and in three finders) -/
def ecc (t : Num) : Num := 1.0 + (-0.002516 - 0.0000074 * t) * t

def arg_Lprime (t : Num) : Num :=
  218.3164477 + (481267.88123421 + (-0.0015786 + (1.0 / 538841.0 - t / 65194000.0) * t) * t) * t
def arg_D (t : Num) : Num :=
  297.8501921 + (445267.1114034 + (-0.0018819 + (1.0 / 545868.0 - t / 113065000.0) * t) * t) * t
def arg_M (t : Num) : Num :=
  357.5291092 + (35999.0502909 + (-0.0001536 + t / 24490000.0) * t) * t
def arg_Mprime (t : Num) : Num :=
  134.9633964 + (477198.8675055 + (0.0087414 + (1.0 / 69699.9 + t / 14712000.0) * t) * t) * t
def arg_F (t : Num) : Num :=
  93.2720950 + (483202.0175233 + (-0.0036539 + (-1.0 / 3526000.0 + t / 863310000.0) * t) * t) * t

/-- `t = (epoch - JDE2000) / 36525.0`, `JDE2000 = Epoch(2000, 1, 1.5)` -/
def cent (jde : Num) : Num := (jde - 2451545.0) / 36525.0

/-- Σr of the position: the distance series in units of 0.001 km. -/
def pos_sigmar (t : Num) : Num :=
  let E := ecc t
  let E2 := E * E
  sigma_r E E2 (pradians (red_pos (arg_D t))) (pradians (red_pos (arg_M t)))
    (pradians (red_pos (arg_Mprime t))) (pradians (red_pos (arg_F t))) tableLR

/-- `Delta = 385000.56 + (sigmar / 1000.0)` -/
def pos_delta (t : Num) : Num := 385000.56 + (pos_sigmar t / 1000.0)

/-- Σb including the additive terms, in units of 1e-6 degree. -/
def pos_sigmab (t : Num) : Num :=
  let E := ecc t
  let E2 := E * E
  let Lprimer := pradians (red_pos (arg_Lprime t))
  let Dr := pradians (red_pos (arg_D t))
  let Mr := pradians (red_pos (arg_M t))
  let Mprimer := pradians (red_pos (arg_Mprime t))
  let Fr := pradians (red_pos (arg_F t))
  -- A1 = 119.75 + 131.849 * t;  A3 = 313.45 + 481266.484 * t
  let A1r := pradians (red_pos (119.75 + 131.849 * t))
  let A2r := pradians (red_pos (53.09 + 479264.290 * t))
  let A3r := pradians (red_pos (313.45 + 481266.484 * t))
  -- sigmab += (-2235.0 * sin(Lprimer) + 382.0 * sin(A3r) + …)
  sigma_b E E2 Dr Mr Mprimer Fr tableB + evalTerms E t [Lprimer, Mprimer, Fr, A1r, A2r, A3r] pos_addb

/-- Σl including the additive terms, in units of 1e-6 degree. -/
def pos_sigmal (t : Num) : Num :=
  let E := ecc t
  let E2 := E * E
  let Lprimer := pradians (red_pos (arg_Lprime t))
  let Dr := pradians (red_pos (arg_D t))
  let Mr := pradians (red_pos (arg_M t))
  let Mprimer := pradians (red_pos (arg_Mprime t))
  let Fr := pradians (red_pos (arg_F t))
  let A1r := pradians (red_pos (119.75 + 131.849 * t))
  let A2r := pradians (red_pos (53.09 + 479264.290 * t))
  let A3r := pradians (red_pos (313.45 + 481266.484 * t))
  -- sigmal += (3958.0 * sin(A1r) + 1962.0 * sin(Lprimer - Fr) + 318.0 * sin(A2r))
  sigma_l E E2 Dr Mr Mprimer Fr tableLR + evalTerms E t [Lprimer, Mprimer, Fr, A1r, A2r, A3r] pos_addl

/-- `Moon.geocentric_ecliptical_pos(epoch)` -> (Lambda, Beta, Delta, ppi), angles in degrees. -/
def geocentric_ecliptical_pos (jde : Num) : PyRes (Num × Num × Num × Num) :=
  let t := cent jde
  -- Lambda = Lprime + (sigmal / 1000000.0)        (Angle + float -> Angle(...))
  let Lambda := reduce_deg (red_pos (arg_Lprime t) + (pos_sigmal t / 1000000.0))
  -- Beta = Angle(sigmab / 1000000.0)
  let Beta := reduce_deg (pos_sigmab t / 1000000.0)
  -- Delta = 385000.56 + (sigmar / 1000.0)
  let Delta := pos_delta t
  -- ppii = asin(6378.14 / Delta)
  if peq Delta 0.0 then .error .zeroDivisionError else
  let x : Num := 6378.14 / Delta
  if plt x (-1.0) || plt 1.0 x then .error .valueError else
  -- ppi = Angle(ppii, radians=True)
  .ok (Lambda, Beta, Delta, angle_of_rad (pasin x))

/-- `Moon.apparent_ecliptical_pos(epoch)` with `deltaPsi = nutation_longitude(epoch)` (degrees)
    as a parameter: `aLambda = Lambda + deltaPsi` (Angle + Angle). -/
def apparent_ecliptical_pos (jde dpsi : Num) : PyRes (Num × Num × Num × Num) :=
  match geocentric_ecliptical_pos jde with
  | .error e => .error e
  | .ok (Lambda, Beta, Delta, ppi) => .ok (reduce_deg (Lambda + dpsi), Beta, Delta, ppi)

/-- `Coordinates.ecliptical2equatorial(longitude, latitude, obliquity)` (Coordinates.py:968),
    degrees in, degrees out. -/
def ecliptical2equatorial (lon_d lat_d eps_d : Num) : PyRes (Num × Num) :=
  let lon := pradians lon_d
  let lat := pradians lat_d
  let eps := pradians eps_d
  -- x = cos(lat) * cos(lon); y = cos(lat) * sin(lon) * cos(eps) - sin(lat) * sin(eps)
  let x : Num := pcos lat * pcos lon
  let y : Num := pcos lat * psin lon * pcos eps - psin lat * psin eps
  -- z = sin(lat) * cos(eps) + cos(lat) * sin(eps) * sin(lon)
  let z : Num := psin lat * pcos eps + pcos lat * psin eps * psin lon
  -- ra = atan2(y, x); dec = atan2(z, sqrt(x * x + y * y))        (cannot raise)
  let ra := patan2 y x
  let dec := patan2 z (psqrt (x * x + y * y))
  -- ra = Angle(ra, radians=True).to_positive();  dec = Angle(dec, radians=True)
  .ok (to_positive (angle_of_rad ra), angle_of_rad dec)

/-- `Moon.apparent_equatorial_pos(epoch)` with `deltaPsi` and `epsilon = true_obliquity(epoch)`
    (degrees) as parameters. -/
def apparent_equatorial_pos (jde dpsi eps : Num) : PyRes (Num × Num × Num × Num) :=
  match apparent_ecliptical_pos jde dpsi with
  | .error e => .error e
  | .ok (Lambda, Beta, Delta, ppi) =>
    match ecliptical2equatorial Lambda Beta eps with
    | .error e => .error e
    | .ok (ra, dc) => .ok (ra, dc, Delta, ppi)

/-! ### nodes, perigee, illuminated fraction, bright limb -/

/-- `Omega = 125.0445479 + (-1934.1362891 + (0.0020754 + (1.0/476441.0 - t/60616000.0) * t) * t) * t` -/
def node_poly (t : Num) : Num :=
  125.0445479 + (-1934.1362891 + (0.0020754 + (1.0 / 476441.0 - t / 60616000.0) * t) * t) * t

/-- `Moon.longitude_mean_ascending_node(epoch)` (Moon.py:406) -/
def longitude_mean_ascending_node (jde : Num) : Num :=
  let t := cent jde
  let Omega : Num := node_poly t
  -- Omega = Angle(Omega).to_positive()
  to_positive (reduce_deg Omega)

/-- `Moon.longitude_true_ascending_node(epoch)` (Moon.py:451) -/
def longitude_true_ascending_node (jde : Num) : Num :=
  let Omega := longitude_mean_ascending_node jde
  let t := cent jde
  let Dr := pradians (red_pos (arg_D t))
  let Mr := pradians (red_pos (arg_M t))
  let Mprimer := pradians (red_pos (arg_Mprime t))
  let Fr := pradians (red_pos (arg_F t))
  -- corr = (-1.4979 * sin(2.0 * (Dr - Fr)) - 0.15 * sin(Mr) - …)
  let corr := evalTerms 1.0 t [Dr, Mr, Mprimer, Fr] truenode_corr
  -- Omega += Angle(corr)
  reduce_deg (Omega + reduce_deg corr)

/-- `ppii = 83.3532465 + (4069.0137287 + (-0.01032 + (-1.0/80053.0 + t/18999000.0) * t) * t) * t` -/
def perigee_poly (t : Num) : Num :=
  83.3532465 + (4069.0137287 + (-0.01032 + (-1.0 / 80053.0 + t / 18999000.0) * t) * t) * t

/-- `Moon.longitude_mean_perigee(epoch)` (Moon.py:509): `Angle(ppii)` -/
def longitude_mean_perigee (jde : Num) : Num :=
  reduce_deg (perigee_poly (cent jde))

/-- the angle `i` (degrees) of `Moon.illuminated_fraction_disk` (Moon.py:584): a chain of
    `Angle` additions, each of which reduces its result. -/
def illum_i (jde : Num) : Num :=
  let t := cent jde
  let D := red_pos (arg_D t)
  let Dr := pradians D
  let Mr := pradians (red_pos (arg_M t))
  let Mprimer := pradians (red_pos (arg_Mprime t))
  -- 180.0 - D            = -(D.__add__(-180.0))
  let i := reduce_deg (-(reduce_deg (D + (-180.0))))
  -- - 6.289 * sin(Mprimer)
  let i := reduce_deg (i + (-(6.289 * psin Mprimer)))
  -- + 2.1 * sin(Mr)
  let i := reduce_deg (i + 2.1 * psin Mr)
  -- - 1.274 * sin(2.0 * Dr - Mprimer)
  let i := reduce_deg (i + (-(1.274 * psin (2.0 * Dr - Mprimer))))
  -- - 0.658 * sin(2.0 * Dr)
  let i := reduce_deg (i + (-(0.658 * psin (2.0 * Dr))))
  -- - 0.214 * sin(2.0 * Mprimer)
  let i := reduce_deg (i + (-(0.214 * psin (2.0 * Mprimer))))
  -- - 0.11 * sin(Dr)
  let i := reduce_deg (i + (-(0.11 * psin Dr)))
  i

/-- `Moon.illuminated_fraction_disk(epoch)`: `k = (1.0 + cos(i.rad())) / 2.0` -/
def illuminated_fraction_disk (jde : Num) : Num :=
  (1.0 + pcos (pradians (illum_i jde))) / 2.0

/-- `Moon.position_bright_limb(epoch)` (Moon.py:591) with the Sun's (a0, d0) and the Moon's
    (a, d) apparent equatorial coordinates (degrees) as parameters. -/
def position_bright_limb (a0 d0 a d : Num) : Num :=
  let a0r := pradians a0
  let d0r := pradians d0
  let ar := pradians a
  let dr := pradians d
  -- numerator = cos(d0r) * sin(a0r - ar)
  let numerator := pcos d0r * psin (a0r - ar)
  -- denominator = sin(d0r) * cos(dr) - cos(d0r) * sin(dr) * cos(a0r - ar)
  let denominator := psin d0r * pcos dr - pcos d0r * psin dr * pcos (a0r - ar)
  -- xi = Angle(atan2(numerator, denominator), radians=True).to_positive()
  to_positive (angle_of_rad (patan2 numerator denominator))

/-! ### `Epoch(jde)` as the finders call it -/
--@only F
/-- `Epoch(jde)` for a float: `get_full_date()` then `_compute_jde(year, month, day)`
    (Epoch.py:329-331, 357, 376, 1409-1460). -/
def epoch_of_jde (jde : Float) : PyRes Float :=
  match Pymeeus.GenF.get_date jde with
  | .error e => .error e
  | .ok (y, m, d) =>
    -- r = d % 1; d = int(d); h = int(r * 24.0); r = r * 24 - h; mi = int(r * 60.0); s = 60.0 * (r * 60.0 - mi)
    let r := pmod d 1.0
    let di : Int := ptrunc d
    let h : Int := ptrunc (r * 24.0)
    let r := r * 24.0 - ofInt h
    let mi : Int := ptrunc (r * 60.0)
    let s := 60.0 * (r * 60.0 - ofInt mi)
    -- day += hours / DAY2HOURS + minutes / DAY2MIN + sec / DAY2SEC
    let day := ofInt di + (ofInt h / 24.0 + ofInt mi / 1440.0 + s / 86400.0)
    .ok (Pymeeus.GenF.compute_jde y m day)
--@end
--@only R
/-- `Epoch(jde)`: in exact arithmetic the date round trip is the identity (property C02). -/
def epoch_of_jde (jde : ℝ) : PyRes ℝ := .ok jde
--@end

/-- `round(x, 0)` as Python returns it: a float. -/
def kround (x : Num) : Num := ofInt (mround x)

/-! ### Moon.moon_phase (Moon.py:632) -/

/-- the `ValueError` test of `moon_phase` -/
def phase_target_ok (target : String) : Bool :=
  -- if (target != "new") and (target != "first") and (target != "full") and (target != "last"): raise
  !(target ≠ "new" && target ≠ "first" && target ≠ "full" && target ≠ "last")

/-- `k = round((epoch.jde() - 2451550.09766) / 29.530588861, 0)`, then `+= 0.25 / 0.5 / 0.75` -/
def phase_k (jde : Num) (target : String) : Num :=
  let k := kround ((jde - 2451550.09766) / 29.530588861)
  if target = "first" then k + 0.25 else if target = "full" then k + 0.5
  else if target = "last" then k + 0.75 else k

/-- time of the mean phase -/
def phase_mean (k : Num) : Num :=
  let t := k / 1236.85
  -- jde = (2451550.09766 + 29.530588861 * k + (0.00015437 + (-0.00000015 + 0.00000000073 * t) * t) * t * t)
  2451550.09766 + 29.530588861 * k + (0.00015437 + (-0.00000015 + 0.00000000073 * t) * t) * t * t

/-- `corr + corr2 + w` -/
def phase_corr (k : Num) (target : String) : Num :=
  let t := k / 1236.85
  let E := ecc t
  -- M = 2.5534 + 29.1053567 * k + (-0.0000014 - 0.00000011 * t) * t * t
  let M : Num := 2.5534 + 29.1053567 * k + (-0.0000014 - 0.00000011 * t) * t * t
  -- Mprime = (201.5643 + 385.81693528 * k + (0.0107582 + (0.00001238 - 0.000000058 * t) * t) * t * t)
  let Mprime : Num := 201.5643 + 385.81693528 * k + (0.0107582 + (0.00001238 - 0.000000058 * t) * t) * t * t
  -- F = (160.7108 + 390.67050284 * k + (-0.0016118 + (-0.00000227 + 0.000000011 * t) * t) * t * t)
  let F : Num := 160.7108 + 390.67050284 * k + (-0.0016118 + (-0.00000227 + 0.000000011 * t) * t) * t * t
  -- Omega = (124.7746 - 1.56375588 * k + (0.0020672 + 0.00000215 * t) * t * t)
  let Omega : Num := 124.7746 - 1.56375588 * k + (0.0020672 + 0.00000215 * t) * t * t
  let Mr := pradians (red_pos M)
  let Mprimer := pradians (red_pos Mprime)
  let Fr := pradians (red_pos F)
  let Omegar := pradians (red_pos Omega)
  -- a1 = 299.77 + 0.107408 * k - 0.009173 * t * t;  a2 = 251.88 + 0.016321 * k; …
  let a1r := pradians (red_pos (299.77 + 0.107408 * k - 0.009173 * t * t))
  let a2r := pradians (red_pos (251.88 + 0.016321 * k))
  let a3r := pradians (red_pos (251.83 + 26.651886 * k))
  let a4r := pradians (red_pos (349.42 + 36.412478 * k))
  let a5r := pradians (red_pos (84.66 + 18.206239 * k))
  let a6r := pradians (red_pos (141.74 + 53.303771 * k))
  let a7r := pradians (red_pos (207.14 + 2.453732 * k))
  let a8r := pradians (red_pos (154.84 + 7.30686 * k))
  let a9r := pradians (red_pos (34.52 + 27.261239 * k))
  let a10r := pradians (red_pos (207.19 + 0.121824 * k))
  let a11r := pradians (red_pos (291.34 + 1.844379 * k))
  let a12r := pradians (red_pos (161.72 + 24.198154 * k))
  let a13r := pradians (red_pos (239.56 + 25.513099 * k))
  let a14r := pradians (red_pos (331.55 + 3.592518 * k))
  let env : List Num := [Mr, Mprimer, Fr, Omegar, a1r, a2r, a3r, a4r, a5r, a6r, a7r, a8r, a9r, a10r,
                         a11r, a12r, a13r, a14r]
  -- corr = 0.0; w = 0.0; if target == "new": corr = … elif target == "full": … elif first or last: corr = …; w = …
  let corr : Num :=
    if target = "new" then evalTerms E t env phase_corr_new
    else if target = "full" then evalTerms E t env phase_corr_full
    else if target = "first" ∨ target = "last" then evalTerms E t env phase_corr_quarter
    else 0.0
  let w : Num :=
    if target = "new" then 0.0 else if target = "full" then 0.0
    else if target = "first" ∨ target = "last" then
      let w := evalTerms E t env phase_w_quarter
      -- if target == "last": w = -w
      if target = "last" then -w else w
    else 0.0
  let corr2 := evalTerms E t env phase_corr2
  -- jde += corr + corr2 + w
  corr + corr2 + w

/-- `Moon.moon_phase(epoch, target)` before the final `Epoch(jde)`; `jde` is the query `epoch.jde()`. -/
def moon_phase_raw (jde : Num) (target : String) : PyRes Num :=
  if !phase_target_ok target then .error .valueError else
  let k := phase_k jde target
  .ok (phase_mean k + phase_corr k target)

/-- `Moon.moon_phase(epoch, target).jde()` -/
def moon_phase (jde : Num) (target : String) : PyRes Num :=
  match moon_phase_raw jde target with
  | .error e => .error e
  | .ok j => epoch_of_jde j

/-! ### Moon.moon_perigee_apogee (Moon.py:846) -/

def apsis_target_ok (target : String) : Bool :=
  -- if (target != "perigee") and (target != "apogee"): raise ValueError
  !(target ≠ "perigee" && target ≠ "apogee")

/-- `k = round((epoch.jde() - 2451534.6698) / 27.55454989, 0)`; `if target == "apogee": k += 0.5` -/
def apsis_k (jde : Num) (target : String) : Num :=
  let k := kround ((jde - 2451534.6698) / 27.55454989)
  if target = "apogee" then k + 0.5 else k

def apsis_mean (k : Num) : Num :=
  let t := k / 1325.55
  -- jde = (2451534.6698 + 27.55454989 * k + (-0.0006691 + (0.000001098 + 0.0000000052 * t) * t) * t * t)
  2451534.6698 + 27.55454989 * k + (-0.0006691 + (0.000001098 + 0.0000000052 * t) * t) * t * t

/-- the radian arguments `[Dr, Mr, Fr]` -/
def apsis_env (k : Num) : List Num :=
  let t := k / 1325.55
  -- D = (171.9179 + 335.9106046 * k + (-0.0100383 + (-0.00001156 + 0.000000055 * t) * t) * t * t)
  let D : Num := 171.9179 + 335.9106046 * k + (-0.0100383 + (-0.00001156 + 0.000000055 * t) * t) * t * t
  -- M = 347.3477 + 27.1577721 * k + (-0.000813 - 0.000001 * t) * t * t
  let M : Num := 347.3477 + 27.1577721 * k + (-0.000813 - 0.000001 * t) * t * t
  -- F = 316.6109 + 364.5287911 * k + (-0.0125053 - 0.0000148 * t) * t * t
  let F : Num := 316.6109 + 364.5287911 * k + (-0.0125053 - 0.0000148 * t) * t * t
  [pradians (red_pos D), pradians (red_pos M), pradians (red_pos F)]

/-- `corr` of the branch taken (there is no `E` in this function: the lists have `epow = 0`) -/
def apsis_corr (k : Num) (target : String) : Num :=
  let t := k / 1325.55
  if target = "perigee" then evalTerms 1.0 t (apsis_env k) perigee_corr
  else evalTerms 1.0 t (apsis_env k) apogee_corr

/-- `parallax` (arcseconds) of the branch taken -/
def apsis_parallax (k : Num) (target : String) : Num :=
  let t := k / 1325.55
  if target = "perigee" then evalTerms 1.0 t (apsis_env k) perigee_parallax
  else evalTerms 1.0 t (apsis_env k) apogee_parallax

def moon_perigee_apogee_raw (jde : Num) (target : String) : PyRes (Num × Num) :=
  if !apsis_target_ok target then .error .valueError else
  let k := apsis_k jde target
  -- jde += corr;  parallax = Angle(0, 0, parallax)
  .ok (apsis_mean k + apsis_corr k target, angle_dms00 (apsis_parallax k target))

def moon_perigee_apogee (jde : Num) (target : String) : PyRes (Num × Num) :=
  match moon_perigee_apogee_raw jde target with
  | .error e => .error e
  | .ok (j, p) => match epoch_of_jde j with
    | .error e => .error e
    | .ok j' => .ok (j', p)

/-! ### Moon.moon_passage_nodes (Moon.py:1036) -/

def nodes_target_ok (target : String) : Bool :=
  -- if (target != "ascending") and (target != "descending"): raise ValueError
  !(target ≠ "ascending" && target ≠ "descending")

/-- `k = round((epoch.jde() - 2451565.1619) / 27.212220817, 0)`; `if target == "descending": k += 0.5` -/
def nodes_k (jde : Num) (target : String) : Num :=
  let k := kround ((jde - 2451565.1619) / 27.212220817)
  if target = "descending" then k + 0.5 else k

def nodes_mean (k : Num) : Num :=
  let t := k / 1342.23
  -- jde = (2451565.1619 + 27.212220817 * k + (0.0002762 + (0.000000021 - 0.000000000088 * t) * t) * t * t)
  2451565.1619 + 27.212220817 * k + (0.0002762 + (0.000000021 - 0.000000000088 * t) * t) * t * t

def nodes_corr (k : Num) : Num :=
  let t := k / 1342.23
  -- D = (183.638 + 331.73735682 * k + (0.0014852 + (0.00000209 - 0.00000001 * t) * t) * t * t)
  let D : Num := 183.638 + 331.73735682 * k + (0.0014852 + (0.00000209 - 0.00000001 * t) * t) * t * t
  -- M = 17.4006 + 26.8203725 * k + (0.0001186 + 0.00000006 * t) * t * t
  let M : Num := 17.4006 + 26.8203725 * k + (0.0001186 + 0.00000006 * t) * t * t
  -- Mprime = (38.3776 + 355.52747313 * k + (0.0123499 + (0.000014627 - 0.000000069 * t) * t) * t * t)
  let Mprime : Num := 38.3776 + 355.52747313 * k + (0.0123499 + (0.000014627 - 0.000000069 * t) * t) * t * t
  -- Omega = (123.9767 - 1.44098956 * k + (0.0020608 + (0.00000214 - 0.000000016 * t) * t) * t * t)
  let Omega : Num := 123.9767 - 1.44098956 * k + (0.0020608 + (0.00000214 - 0.000000016 * t) * t) * t * t
  -- V = 299.75 + (132.85 - 0.009173 * t) * t
  let V : Num := 299.75 + (132.85 - 0.009173 * t) * t
  -- P = Omega + 272.75 - 2.3 * t
  let P : Num := Omega + 272.75 - 2.3 * t
  let Dr := pradians (red_pos D)
  let Mr := pradians (red_pos M)
  let Mprimer := pradians (red_pos Mprime)
  let Omegar := pradians (red_pos Omega)
  let Vr := pradians (red_pos V)
  let Pr := pradians (red_pos P)
  let E := ecc t
  evalTerms E t [Dr, Mr, Mprimer, Omegar, Vr, Pr] MoonData.nodes_corr

def moon_passage_nodes_raw (jde : Num) (target : String) : PyRes Num :=
  if !nodes_target_ok target then .error .valueError else
  let k := nodes_k jde target
  .ok (nodes_mean k + nodes_corr k)

def moon_passage_nodes (jde : Num) (target : String) : PyRes Num :=
  match moon_passage_nodes_raw jde target with
  | .error e => .error e
  | .ok j => epoch_of_jde j

/-! ### Moon.moon_maximum_declination (Moon.py:1135) -/

def decl_target_ok (target : String) : Bool :=
  -- if (target != "northern") and (target != "southern"): raise ValueError
  !(target ≠ "northern" && target ≠ "southern")

/-- `if target == 'northern': k = round((epoch.jde() - 2451562.5897) / 27.321582247, 0)`
    `else: k = round((epoch.jde() - 2451548.9289) / 27.321582247, 0)` -/
def decl_k (jde : Num) (target : String) : Num :=
  if target = "northern" then kround ((jde - 2451562.5897) / 27.321582247)
  else kround ((jde - 2451548.9289) / 27.321582247)

def decl_mean (k : Num) (target : String) : Num :=
  let t := k / 1336.86
  -- jde = 27.321582247 * k + (0.000119804 - 0.000000141 * t) * t * t
  let jde : Num := 27.321582247 * k + (0.000119804 - 0.000000141 * t) * t * t
  -- if target == 'northern': jde += 2451562.5897  else: jde += 2451548.9289
  if target = "northern" then jde + 2451562.5897 else jde + 2451548.9289

/-- the radian arguments `[Dr, Mr, Mprimer, Fr]` -/
def decl_env (k : Num) (target : String) : List Num :=
  let t := k / 1336.86
  -- D = 333.0705546 * k + (-0.0004214 + 0.00000011 * t) * t * t
  let D : Num := 333.0705546 * k + (-0.0004214 + 0.00000011 * t) * t * t
  -- M = 26.9281592 * k - (0.0000355 + 0.0000001 * t) * t * t
  let M : Num := 26.9281592 * k - (0.0000355 + 0.0000001 * t) * t * t
  -- Mprime = 356.9562794 * k + (0.0103066 + 0.00001251 * t) * t * t
  let Mprime : Num := 356.9562794 * k + (0.0103066 + 0.00001251 * t) * t * t
  -- F = 1.4467807 * k - (0.002069 + 0.00000215 * t) * t * t
  let F : Num := 1.4467807 * k - (0.002069 + 0.00000215 * t) * t * t
  -- northern: D += 152.2029; M += 14.8591; Mprime += 4.6881; F += 325.8867
  -- southern: D += 345.6676; M += 1.13951; Mprime += 186.21; F += 145.1633
  let D := if target = "northern" then D + 152.2029 else D + 345.6676
  let M := if target = "northern" then M + 14.8591 else M + 1.13951
  let Mprime := if target = "northern" then Mprime + 4.6881 else Mprime + 186.21
  let F := if target = "northern" then F + 325.8867 else F + 145.1633
  [pradians (red_pos D), pradians (red_pos M), pradians (red_pos Mprime), pradians (red_pos F)]

def decl_corr (k : Num) (target : String) : Num :=
  let t := k / 1336.86
  let E := ecc t
  if target = "northern" then evalTerms E t (decl_env k target) decl_corr_north
  else evalTerms E t (decl_env k target) decl_corr_south

def decl_value (k : Num) (target : String) : Num :=
  let t := k / 1336.86
  let E := ecc t
  let cor2 : Num := if target = "northern" then evalTerms E t (decl_env k target) decl_cor2_north
                    else evalTerms E t (decl_env k target) decl_cor2_south
  -- declination = 23.6961 - 0.013004 * t + cor2
  let declination : Num := 23.6961 - 0.013004 * t + cor2
  -- if target == 'southern': declination *= -1.0
  let declination := if target = "southern" then declination * (-1.0) else declination
  -- declination = Angle(Angle.reduce_deg(declination))
  reduce_deg (reduce_deg declination)

def moon_maximum_declination_raw (jde : Num) (target : String) : PyRes (Num × Num) :=
  if !decl_target_ok target then .error .valueError else
  let k := decl_k jde target
  .ok (decl_mean k target + decl_corr k target, decl_value k target)

def moon_maximum_declination (jde : Num) (target : String) : PyRes (Num × Num) :=
  match moon_maximum_declination_raw jde target with
  | .error e => .error e
  | .ok (j, d) => match epoch_of_jde j with
    | .error e => .error e
    | .ok j' => .ok (j', d)

/-! ### apparent positions and bright limb from the JDE alone -/

/-- `Moon.apparent_ecliptical_pos(epoch)`: `deltaPsi = nutation_longitude(epoch)` -/
def apparent_ecliptical_pos_jde (jde : Num) : PyRes (Num × Num × Num × Num) :=
  apparent_ecliptical_pos jde (Helio.nutation_longitude jde)

/-- `Moon.apparent_equatorial_pos(epoch)`: `epsilon = true_obliquity(epoch)` -/
def apparent_equatorial_pos_jde (jde : Num) : PyRes (Num × Num × Num × Num) :=
  apparent_equatorial_pos jde (Helio.nutation_longitude jde) (Helio.true_obliquity jde)

/-- `Moon.position_bright_limb(epoch)`:
    `a0, d0, r0 = Sun.apparent_rightascension_declination_coarse(epoch)`;
    `a, d, r, ppi = Moon.apparent_equatorial_pos(epoch)` -/
def position_bright_limb_jde (jde : Num) : PyRes Num :=
  let s := Helio.apparent_rightascension_declination_coarse jde
  match apparent_equatorial_pos_jde jde with
  | .error e => .error e
  | .ok (a, d, _, _) => .ok (position_bright_limb s.1 s.2.1 a d)

end MoonM
end Pymeeus.Gen@K@
