--! kinds: Q R F
/-
Model of pymeeus/Angle.py (hand-written from the source as it is now; tied to the source by the
correspondence check of C03 / C04).  Everything that does not need pi is here; the radians input,
`rad()` and `**` with a float exponent are in templates/AngleR.lean.

An `Angle` object is the value `(deg, tol)`.  Methods that mutate `self` (`set`, `set_ra`,
`to_positive`) are functions returning the new value.  Python numbers that reach the code as `int`
enter the model as the equal `Num` (`ofInt n`): every `int -> float` conversion the code performs on
them is exact below 2**53 (harness inputs stay below 1e15) and the correspondence run sends real
`int` objects to the implementation.
Each definition follows the Python statement by statement; the Python line is quoted.
-/
import Pymeeus.Pre@K@
namespace Pymeeus.Gen@K@
open Pymeeus Pymeeus.P@K@

/-- `base.TOL = 1e-10` -/
def TOL : Num := 1e-10

/-- An `Angle` object: `_deg`, `_tol`. -/
structure Angle where
  deg : Num
  tol : Num

/-- `Angle.reduce_deg(deg)` (Angle.py:89). -/
def reduce_deg (deg : Num) : Num :=
  -- if abs(deg) >= 360.0:
  if ple 360.0 (pabs deg) then
    -- sign = 1.0 if deg >= 0 else -1.0
    let sign : Num := if ple 0 deg then 1.0 else -1.0
    -- frac = abs(deg) % 1
    let frac := pmod (pabs deg) 1
    -- deg = int(abs(deg)) % 360
    let d : Int := imod (ptrunc (pabs deg)) 360
    -- deg = sign * (deg + frac)
    sign * (ofInt d + frac)
  -- return float(deg)
  else deg

/-- `Angle.reduce_dms(degrees, minutes, seconds)` (Angle.py:114): `(degrees, minutes, seconds, sign)`,
    `degrees` and `minutes` are Python ints on return. -/
def reduce_dms (degrees minutes seconds : Num) : Int × Int × Num × Num :=
  -- sign = -1.0 if (degrees < 0) or (minutes < 0) or (seconds < 0) else 1.0
  let sign : Num := if plt degrees 0 || plt minutes 0 || plt seconds 0 then -1.0 else 1.0
  -- degrees = abs(degrees); minutes = abs(minutes); seconds = abs(seconds)
  let degrees := pabs degrees
  let minutes := pabs minutes
  let seconds := pabs seconds
  -- if degrees % 1 > 0.0: minutes += (degrees % 1) * 60.0
  let minutes := if plt 0.0 (pmod degrees 1) then minutes + (pmod degrees 1) * 60.0 else minutes
  -- degrees = int(degrees)
  let degrees : Int := ptrunc degrees
  -- if minutes % 1 > 0.0: seconds += (minutes % 1) * 60.0
  let seconds := if plt 0.0 (pmod minutes 1) then seconds + (pmod minutes 1) * 60.0 else seconds
  -- minutes = int(minutes)
  let minutes : Int := ptrunc minutes
  -- if seconds >= 60.0: minutes += int(seconds / 60.0); seconds = seconds % 60
  let (minutes, seconds) :=
    if ple 60.0 seconds then (minutes + ptrunc (seconds / 60.0), pmod seconds 60) else (minutes, seconds)
  -- if minutes >= 60.0: degrees += int(minutes / 60.0); minutes = minutes % 60
  let (degrees, minutes) :=
    if ple 60.0 (ofInt minutes) then (degrees + ptrunc (ofInt minutes / 60.0), imod minutes 60)
    else (degrees, minutes)
  -- degrees = degrees % 360
  let degrees := imod degrees 360
  (degrees, minutes, seconds, sign)

/-- `Angle.deg2dms(deg)` (Angle.py:158): `(de, mi, se, sign)`. -/
def deg2dms (deg : Num) : Int × Int × Num × Num :=
  -- deg = Angle.reduce_deg(deg)
  let deg := reduce_deg deg
  -- sign = 1.0 if deg >= 0 else -1.0
  let sign : Num := if ple 0 deg then 1.0 else -1.0
  -- deg = abs(deg)
  let deg := pabs deg
  -- mi = (deg % 1) * 60.0
  let mi := (pmod deg 1) * 60.0
  -- de = int(deg)
  let de : Int := ptrunc deg
  -- se = (mi % 1) * 60.0
  let se := (pmod mi 1) * 60.0
  -- mi = int(mi)
  let mi : Int := ptrunc mi
  (de, mi, se, sign)

/-- `Angle.dms2deg(degrees, minutes, seconds)` (Angle.py:185). -/
def dms2deg (degrees minutes seconds : Num) : Num :=
  -- (de, mi, se, sign) = Angle.reduce_dms(degrees, minutes, seconds)
  let (de, mi, se, sign) := reduce_dms degrees minutes seconds
  -- deg = sign * (de + mi / 60.0 + se / 3600.0)
  let deg := sign * (ofInt de + ofInt mi / 60.0 + se / 3600.0)
  -- return Angle.reduce_deg(deg)      (the binary64 sum may round up to a whole turn)
  reduce_deg deg

/-! ### The constructor / `set` (Angle.py:271): dispatch over the shape of `*args` -/

/-- Shape of the positional arguments of `Angle(...)` / `set(...)` (numbers are ints or floats). -/
inductive Shape where
  /-- `Angle()` -/
  | none
  /-- `Angle(x)`, `x` an int or a float -/
  | num (x : Num)
  /-- `Angle(a)`, `a` an Angle -/
  | copy (a : Angle)
  /-- `Angle((x, ...))` / `Angle([x, ...])`: one tuple or list of numbers -/
  | seq (xs : List Num)
  /-- `Angle(x, y, ...)`: two or more separate numbers -/
  | args (xs : List Num)

/-- The degrees / minutes / seconds (/ sign carrier) branches shared by the tuple/list and the
    separate-argument forms: lengths 2, 3, >= 4 (Angle.py:318-341 and 344-365). -/
def set_pieces : List Num → PyRes Num
  -- self._deg = Angle.dms2deg(deg[0], deg[1])
  | [d, m] => .ok (dms2deg d m 0.0)
  -- self._deg = Angle.dms2deg(deg[0], deg[1], deg[2])
  | [d, m, s] => .ok (dms2deg d m s)
  | d :: m :: s :: x :: _ =>
    -- sign = -1.0 if deg[0] < 0 or deg[1] < 0 or deg[2] < 0 or deg[3] < 0 else 1.0
    let sign : Num := if plt d 0 || plt m 0 || plt s 0 || plt x 0 then -1.0 else 1.0
    -- deg0 = sign * abs(deg[0]) ...; self._deg = Angle.dms2deg(deg0, deg1, deg2)
    .ok (dms2deg (sign * pabs d) (sign * pabs m) (sign * pabs s))
  -- (not reachable from `angle_set`: lengths 0 and 1 are handled there)
  | _ => .error .typeError

/-- `Angle.set(*args)` without keyword arguments, on the object `self`. -/
def angle_set (self : Angle) : Shape → PyRes Angle
  -- if len(args) == 0: self._deg = 0.0
  | .none => .ok { self with deg := 0.0 }
  -- isinstance(deg, Angle): self._deg = deg._deg; self._tol = deg._tol
  | .copy a => .ok { deg := a.deg, tol := a.tol }
  -- isinstance(deg, (int, float)): self._deg = Angle.reduce_deg(deg)
  | .num x => .ok { self with deg := reduce_deg x }
  | .seq xs =>
    match xs with
    -- if len(deg) == 0: raise TypeError
    | [] => .error .typeError
    -- elif len(deg) == 1: deg = deg[0]; self._deg = Angle.reduce_deg(deg)
    | [x] => .ok { self with deg := reduce_deg x }
    | _ => match set_pieces xs with
      | .ok v => .ok { self with deg := v }
      | .error e => .error e
  | .args xs =>
    match set_pieces xs with
    | .ok v => .ok { self with deg := v }
    | .error e => .error e

/-- `Angle.set_ra(*args)` (Angle.py:397): `self.set(*args); self._deg = Angle.reduce_deg(self._deg * 15.0)`. -/
def angle_set_ra (self : Angle) (s : Shape) : PyRes Angle :=
  match angle_set self s with
  | .ok a => .ok { a with deg := reduce_deg (a.deg * 15.0) }
  | .error e => .error e

/-- `Angle.__init__`: `self._deg = 0.0; self._tol = TOL; self.set(*args)`. -/
def angle_new (s : Shape) : PyRes Angle := angle_set ⟨0.0, TOL⟩ s
/-- `Angle(*args, ra=True)`. -/
def angle_new_ra (s : Shape) : PyRes Angle := angle_set_ra ⟨0.0, TOL⟩ s

/-- `Angle(x)` for a float `x`, the way every operator builds its result. -/
def mk (x : Num) : Angle := ⟨reduce_deg x, TOL⟩

/-! ### Views -/

/-- `Angle.get_ra()` -/
def get_ra (a : Angle) : Num := a.deg / 15.0
/-- `Angle.__float__()` -/
def angle_float (a : Angle) : Num := a.deg
/-- `Angle.__int__()` -/
def angle_int (a : Angle) : Int := ptrunc a.deg
/-- `Angle.dms_tuple()` -/
def dms_tuple (a : Angle) : Int × Int × Num × Num := deg2dms a.deg
/-- `Angle.ra_tuple()` -/
def ra_tuple (a : Angle) : Int × Int × Num × Num := deg2dms (a.deg / 15.0)

/-- `Angle.to_positive()` (Angle.py:559), the new value of `self`. -/
def to_positive (a : Angle) : Angle :=
  -- if self._deg < 0:
  if plt a.deg 0 then
    -- self._deg = 360.0 - abs(self._deg)
    let d := 360.0 - pabs a.deg
    -- if self._deg >= 360.0: self._deg = 0.0
    if ple 360.0 d then { a with deg := 0.0 } else { a with deg := d }
  else a

/-! ### Operators -/

/-- Right-hand (or, for the reflected methods, left-hand) operand: an Angle, an int or a float. -/
inductive Operand where
  | ang (b : Angle)
  | int (n : Int)
  | flt (x : Num)

/-- `b._deg` / `float(b)`. -/
def Operand.val : Operand → Num
  | .ang b => b.deg
  | .int n => ofInt n
  | .flt x => x

/-- Python float `/`: ZeroDivisionError on a zero divisor. -/
def pdivE (x y : Num) : PyRes Num := if peq y 0.0 then .error .zeroDivisionError else .ok (x / y)

/-- `Angle.__eq__(b)`: `abs(self._deg - float(b)) < self._tol`. -/
def angle_eq (a : Angle) (b : Operand) : Bool := plt (pabs (a.deg - b.val)) a.tol
def angle_ne (a : Angle) (b : Operand) : Bool := !(angle_eq a b)
/-- `Angle.__lt__(b)` -/
def angle_lt (a : Angle) (b : Operand) : Bool := plt a.deg b.val
def angle_ge (a : Angle) (b : Operand) : Bool := !(angle_lt a b)
/-- `Angle.__gt__(b)` -/
def angle_gt (a : Angle) (b : Operand) : Bool := plt b.val a.deg
def angle_le (a : Angle) (b : Operand) : Bool := !(angle_gt a b)

/-- `Angle.__neg__()`: `Angle(-self._deg)`. -/
def angle_neg (a : Angle) : Angle := mk (-a.deg)
/-- `Angle.__abs__()`: `Angle(abs(self._deg))`. -/
def angle_abs (a : Angle) : Angle := mk (pabs a.deg)
/-- `Angle.__round__(n)`: `Angle(round(self._deg, n))`. -/
def angle_round (a : Angle) (n : Int) : Angle := mk (proundn a.deg n)

/-- `-b` for an operand. -/
def Operand.neg : Operand → Operand
  | .ang b => .ang (angle_neg b)
  | .int n => .int (-n)
  | .flt x => .flt (-x)

/-- `b == 0.0` as the division guards evaluate it (`Angle.__eq__` for an Angle operand). -/
def Operand.isZero : Operand → Bool
  | .ang b => angle_eq b (.flt 0.0)
  | .int n => decide (n = 0)
  | .flt x => peq x 0.0

/-- `Angle.__add__(b)`: `Angle(self._deg + float(b))` / `Angle(self._deg + b._deg)`. -/
def angle_add (a : Angle) (b : Operand) : Angle := mk (a.deg + b.val)
/-- `Angle.__sub__(b)`: `self.__add__(-b)`. -/
def angle_sub (a : Angle) (b : Operand) : Angle := angle_add a b.neg
/-- `Angle.__mul__(b)` -/
def angle_mul (a : Angle) (b : Operand) : Angle := mk (a.deg * b.val)

/-- `Angle.__div__(b)` / `__truediv__`. -/
def angle_div (a : Angle) (b : Operand) : PyRes Angle :=
  -- if b == 0.0: raise ZeroDivisionError
  if b.isZero then .error .zeroDivisionError
  -- return Angle(self._deg / float(b))
  else match pdivE a.deg b.val with
    | .ok v => .ok (mk v)
    | .error e => .error e

/-- `Angle.__mod__(b)`. -/
def angle_mod (a : Angle) (b : Operand) : PyRes Angle :=
  -- sign = 1.0 if self._deg >= 0.0 else -1.0
  let sign : Num := if ple 0.0 a.deg then 1.0 else -1.0
  -- return Angle(sign * (abs(self._deg) % b))
  match pmodE (pabs a.deg) b.val with
  | .ok r => .ok (mk (sign * r))
  | .error e => .error e

/-- `Angle.__pow__(b)` for an `int` `b`: `Angle(self._deg ** b)`. -/
def angle_pow_int (a : Angle) (n : Int) : PyRes Angle :=
  match ppowi a.deg n with
  | .ok v => .ok (mk v)
  | .error e => .error e

/-- In-place operators: `self = self <op> b; return self`. -/
def angle_iadd (a : Angle) (b : Operand) : Angle := angle_add a b
def angle_isub (a : Angle) (b : Operand) : Angle := angle_sub a b
def angle_imul (a : Angle) (b : Operand) : Angle := angle_mul a b
def angle_imod (a : Angle) (b : Operand) : PyRes Angle := angle_mod a b
def angle_ipow_int (a : Angle) (n : Int) : PyRes Angle := angle_pow_int a n
/-- `Angle.__idiv__(b)` / `__itruediv__`. -/
def angle_idiv (a : Angle) (b : Operand) : PyRes Angle :=
  -- if b == 0.0: raise ZeroDivisionError
  if b.isZero then .error .zeroDivisionError
  -- self = self / b
  else angle_div a b

/-- `Angle.__radd__(b)`: `self.__add__(b)`. -/
def angle_radd (a : Angle) (b : Operand) : Angle := angle_add a b
/-- `Angle.__rsub__(b)`: `-self.__sub__(b)`. -/
def angle_rsub (a : Angle) (b : Operand) : Angle := angle_neg (angle_sub a b)
/-- `Angle.__rmul__(b)`: `self.__mul__(b)`. -/
def angle_rmul (a : Angle) (b : Operand) : Angle := angle_mul a b

/-- `Angle.__rdiv__(b)` / `__rtruediv__`: `b / self`. -/
def angle_rdiv (a : Angle) (b : Operand) : PyRes Angle :=
  -- if self == 0.0: raise ZeroDivisionError
  if angle_eq a (.flt 0.0) then .error .zeroDivisionError
  -- return Angle(float(b) / self._deg)
  else match pdivE b.val a.deg with
    | .ok v => .ok (mk v)
    | .error e => .error e

/-- `Angle.__rmod__(b)`: `b % self`. -/
def angle_rmod (a : Angle) (b : Operand) : PyRes Angle :=
  -- if isinstance(b, Angle): b = b._deg          (an int `b` is converted by `b >= 0.0` / `abs(b) % float`)
  let bv : Num := b.val
  -- sign = 1.0 if b >= 0.0 else -1.0
  let sign : Num := if ple 0.0 bv then 1.0 else -1.0
  -- return Angle(sign * (abs(b) % self._deg))
  match pmodE (pabs bv) a.deg with
  | .ok r => .ok (mk (sign * r))
  | .error e => .error e

/-! ### Printing (C04): everything of `dms_str` / `ra_str` up to the `str.format` call -/

/-- `dms_str`: the values of `d, m, s, sign` after the rounding / carry chain (Angle.py:437-447).
    `d` becomes a Python float after `d += 1.0` / `d -= 360.0`; its value is a small integer and
    is kept as `Int` here. -/
def dms_fields (deg : Num) (n_dec : Int) : Int × Int × Num × Num :=
  -- d, m, s, sign = Angle.deg2dms(self._deg)
  let (d, m, s, sign) := deg2dms deg
  -- if n_dec >= 0:
  if n_dec ≥ 0 then
    -- s = round(s, n_dec)
    let s := proundn s n_dec
    -- if abs(s - 60.0) < TOL: s = 0.0; m += 1
    let (s, m) := if plt (pabs (s - 60.0)) TOL then ((0.0 : Num), m + 1) else (s, m)
    -- if abs(m - 60.0) < TOL: m = 0; d += 1.0
    let (m, d) := if plt (pabs (ofInt m - 60.0)) TOL then ((0 : Int), d + 1) else (m, d)
    -- if d >= 360.0: d -= 360.0
    let d := if ple 360.0 (ofInt d) then d - 360 else d
    (d, m, s, sign)
  else (d, m, s, sign)

/-- What `dms_str` hands to `str.format`, by branch (the same for `fancy` and not `fancy`; only
    the literal text between the fields differs). -/
inductive Printed where
  /-- `"{}d {}' {}''"` / `"{}:{}:{}"` with `int(sign * d), m, s` -/
  | dms (d : Int) (m : Int) (s : Num)
  /-- `"{}' {}''"` / `"0:{}:{}"` with `int(sign * m), s` -/
  | ms (m : Int) (s : Num)
  /-- `"{}''"` / `"0:0:{}"` with `sign * s` -/
  | s (s : Num)
  /-- `"0d 0' 0.0''"` / `"0:0:0.0"` -/
  | zero

/-- `Angle.dms_str(fancy, n_dec)` up to the format call (Angle.py:448-466). -/
def dms_print (deg : Num) (n_dec : Int) : Printed :=
  let (d, m, s, sign) := dms_fields deg n_dec
  -- if d != 0: "{}d {}' {}''".format(int(sign * d), m, s)
  if d ≠ 0 then .dms (ptrunc (sign * ofInt d)) m s
  -- elif m != 0: "{}' {}''".format(int(sign * m), s)
  else if m ≠ 0 then .ms (ptrunc (sign * ofInt m)) s
  -- elif s != 0.0: "{}''".format(sign * s)
  else if !(peq s 0.0) then .s (sign * s)
  else .zero

/-- `Angle.ra_str(fancy, n_dec)` up to the format call: `a = Angle(self()) / 15.0; a.dms_str(...)`
    (the `d` -> `h` replacement is text only). -/
def ra_print (deg : Num) (n_dec : Int) : PyRes Printed :=
  match angle_div (mk deg) (.flt 15.0) with
  | .ok a => .ok (dms_print a.deg n_dec)
  | .error e => .error e

/-- `a.dms_str(fancy, n_dec)` as a method of the object: only `self._deg` is read
    (`d, m, s, sign = Angle.deg2dms(self._deg)`, module constant `TOL`); the object's `_tol` plays no role. -/
def angle_dms_print (a : Angle) (n_dec : Int) : Printed := dms_print a.deg n_dec
/-- `a.ra_str(fancy, n_dec)` as a method of the object. -/
def angle_ra_print (a : Angle) (n_dec : Int) : PyRes Printed := ra_print a.deg n_dec

end Pymeeus.Gen@K@
