--! kinds: R F
/-
Model of the solar-event routines of pymeeus (property C14), hand-written from the source and tied
to it by the correspondence check of harness/c14.py:

  Sun.get_equinox_solstice      (Sun.py)          `season_*`, `get_equinox_solstice`
  Sun.equation_of_time          (Sun.py)          `eot_*`, `equation_of_time`
  Epoch.rise_set                (Epoch.py)        `rise_*`, `rise_set_core` (+ `rise_set`, F only)
  times_rise_transit_set        (Coordinates.py)  `rts_*`, `times_rise_transit_set`

Instantiations: R (Num = ℝ, the theorems of Props/C14.lean) and F (Num = Float, compared bit for
bit with CPython).  Everything lives in the sub-namespace `SunEvents` (own names; the only other
template used is EpochCore, and only by the F instantiation, for the `Epoch(jde)` round trip).

What is a PARAMETER of the model and not modelled here:
* `sunLon : Num → Num` — `Sun.apparent_geocentric_position(epoch)[0]._deg` (VSOP87 + nutation +
  aberration) as a function of the epoch's JDE.  The R theorems hold for an arbitrary function; the
  F tie feeds the values the implementation saw (see `sunLonOfTable`).
* `mk : Num → PyRes Num` — the constructor `Epoch(jde)` of a float, which stores `jde`, reads the
  calendar date back (`get_full_date`) and recomputes the JDE from it.  The model's own constructor
  is `mkEpoch` below (through EpochCore's `get_date`/`compute_jde`, both instantiations); over ℝ it
  is the identity on `jde ≥ 0` (Refine/EpochCoreR.lean: `mkEpoch_exact`), so the season theorems are
  stated for an arbitrary `mk` and then for `mkEpoch` itself.
* the values of `Epoch.leap_seconds(year, month)`, of α / Δψ / ε in `equation_of_time`: inputs.
-/
import Pymeeus.Gen.@K@.EpochCore
--@only F
import Pymeeus.Gen.F.SunEarth
--@end
namespace Pymeeus.Gen@K@
namespace SunEvents
open Pymeeus Pymeeus.P@K@

/-! ## Mirrors of the few `Angle` operations used (Angle.py) -/

/-- `Angle.reduce_deg(deg)` (Angle.py:89) for a float. -/
def aReduce (deg : Num) : Num :=
  -- if abs(deg) >= 360.0:
  if ple 360.0 (pabs deg) then
    -- sign = 1.0 if deg >= 0 else -1.0
    let sign : Num := if ple 0.0 deg then 1.0 else -1.0
    -- frac = abs(deg) % 1
    let frac : Num := pmod (pabs deg) 1.0
    -- deg = int(abs(deg)) % 360
    let ideg : Int := imod (ptrunc (pabs deg)) 360
    -- deg = sign * (deg + frac)
    sign * (ofInt ideg + frac)
  -- return float(deg)
  else deg

/-- `Angle.to_positive()` (Angle.py:559) on the stored value. -/
def aToPositive (deg : Num) : Num :=
  -- if self._deg < 0: self._deg = 360.0 - abs(self._deg); if self._deg >= 360.0: self._deg = 0.0
  if plt deg 0.0 then
    let d := 360.0 - pabs deg
    if ple 360.0 d then 0.0 else d
  else deg

/-- `Angle(x, radians=True)`: `deg = degrees(x)`, then `reduce_deg`. -/
def aOfRadians (x : Num) : Num := aReduce (pdegrees x)
/-- `-a` : `Angle(-self._deg)` -/
def aNeg (a : Num) : Num := aReduce (-a)
/-- `a + b` (Angle + Angle, Angle + float): `Angle(self._deg + b)` -/
def aAdd (a b : Num) : Num := aReduce (a + b)
/-- `a - b` for an Angle `b`: `self.__add__(-b)` with `-b` an Angle. -/
def aSub (a b : Num) : Num := aAdd a (aNeg b)
/-- `a - b` for a float `b`: `self.__add__(-b)`. -/
def aSubF (a b : Num) : Num := aAdd a (-b)
/-- `a * b` for a float `b`: `Angle(self._deg * float(b))` -/
def aMulF (a b : Num) : Num := aReduce (a * b)
/-- `a / b` for a float `b` (`__truediv__` → `__div__`): `ZeroDivisionError` if `b == 0.0`. -/
def aDivF (a b : Num) : PyRes Num :=
  if peq b 0.0 then .error .zeroDivisionError else .ok (aReduce (a / b))

--@only F
/-- `round(x)` (one argument): nearest int, ties to even. -/
def roundHE (x : Num) : Int := PF.pround x
/-- `round(x, 0)`: the same as a float (keeps the sign of a zero result). -/
def round0 (x : Num) : Num :=
  let r := ofInt (PF.pround x)
  if r == 0.0 && (x.toBits >>> 63 == 1) then -0.0 else r

/-- The function "the implementation's solar longitude at the epochs it asked for": `jdes[i] ↦
    lons[i]` (compared bit for bit), NaN anywhere else. -/
def sunLonOfTable (jdes lons : List Num) (x : Num) : Num :=
  match (jdes.zip lons).find? (fun p => p.1.toBits == x.toBits) with
  | some p => p.2
  | none => 0.0 / 0.0
--@end
--@only R
/-- `round(x)`: nearest int, ties to even. -/
def roundHE (x : Num) : Int :=
  let f := pfloor x
  let r := x - ofInt f
  if plt r (1 / 2) then f else if plt (1 / 2) r then f + 1 else if f % 2 = 0 then f else f + 1
/-- `round(x, 0)`: the same as a float. -/
def round0 (x : Num) : Num := ofInt (roundHE x)
--@end

/-- `Epoch(jde)` for a float (Epoch.set, one numeric argument): `self._jde = jde`, then
    `get_full_date()` and `_compute_jde(year, month, day, utc2tt=False)`. -/
def mkEpoch (jde : Num) : PyRes Num :=
  match get_date jde with
  | .error e => .error e
  | .ok (y, m, d) =>
    -- get_full_date: r = d % 1; d = int(d); h = int(r * 24.0); r = r * 24 - h
    let r := pmod d 1.0
    let di : Int := ptrunc d
    let h : Int := ptrunc (r * 24.0)
    let r := r * 24.0 - ofInt h
    -- mi = int(r * 60.0); s = 60.0 * (r * 60.0 - mi)
    let mi : Int := ptrunc (r * 60.0)
    let s := 60.0 * (r * 60.0 - ofInt mi)
    -- day += hours / DAY2HOURS + minutes / DAY2MIN + sec / DAY2SEC
    let day := ofInt di + (ofInt h / 24.0 + ofInt mi / 1440.0 + s / 86400.0)
    .ok (compute_jde y m day)

/-- `x - 360.0 * round(x / 360.0)` on floats (`round` with one argument: an int, ties to even):
    the reduction to −180 … +180 used by `equation_of_time`, `interpol` and the transit hour angle. -/
def wrap180 (x : Num) : Num := x - 360.0 * ofInt (roundHE (x / 360.0))

/-! ## Sun.get_equinox_solstice (Sun.py:477) -/

/-- `["spring", "summer", "autumn", "winter"].index(target)`, `ValueError("'target' value is
    invalid")` for any other string (`TypeError` for non-`str` is outside the typed model). -/
def season_index (target : String) : PyRes Int :=
  if target = "spring" then .ok 0 else if target = "summer" then .ok 1
  else if target = "autumn" then .ok 2 else if target = "winter" then .ok 3
  else .error .valueError

/-- The approximate instant `jde0` (Meeus tables 27.A / 27.B) as coded; `ValueError("'year' value
    out of range")` outside `-1000 ≤ year ≤ 3000`. `k` is the season index 0..3. -/
def season_jde0 (year : Int) (k : Int) : PyRes Num :=
  -- if (year >= -1000) and (year < 1000):
  if year ≥ -1000 ∧ year < 1000 then
    -- y = year / 1000.0
    let y : Num := ofInt year / 1000.0
    if k = 0 then .ok (1721139.29189 + y * (365242.1374 + y * (0.06134 + y * (0.00111 - y * 0.00071))))
    else if k = 1 then .ok (1721233.25401 + y * (365241.72562 + y * (-0.05323 + y * (0.00907 + y * 0.00025))))
    else if k = 2 then .ok (1721325.70455 + y * (365242.49558 + y * (-0.11677 + y * (-0.00297 + y * 0.00074))))
    else .ok (1721414.39987 + y * (365242.88257 + y * (-0.00769 + y * (-0.00933 - y * 0.00006))))
  -- elif (year >= 1000) and (year <= 3000):
  else if year ≥ 1000 ∧ year ≤ 3000 then
    -- y = (year - 2000.0) / 1000.0
    let y : Num := (ofInt year - 2000.0) / 1000.0
    if k = 0 then .ok (2451623.80984 + y * (365242.37404 + y * (0.05169 + y * (-0.00411 - y * 0.00057))))
    else if k = 1 then .ok (2451716.56767 + y * (365241.62603 + y * (0.00325 + y * (0.00888 - y * 0.0003))))
    else if k = 2 then .ok (2451810.21715 + y * (365242.01767 + y * (-0.11575 + y * (0.00337 + y * 0.00078))))
    else .ok (2451900.05952 + y * (365242.74049 + y * (-0.06223 + y * (-0.00823 + y * 0.00032))))
  else .error .valueError

/-- The angle whose sine drives the correction, in degrees, from `lon._deg`:
    `arg = k * 90.0 - lon.to_positive(); arg = Angle(arg)`.  (`float - Angle` is
    `Angle.__rsub__`: `-(lon.__sub__(b))`, i.e. two `Angle` constructions.) -/
def season_arg (k : Int) (lon : Num) : Num :=
  aNeg (aSubF (aToPositive lon) (ofInt k * 90.0))

/-- `corr = 58.0 * sin(arg.rad())` -/
def season_corr (k : Int) (lon : Num) : Num := 58.0 * psin (pradians (season_arg k lon))

/-- One pass through the body of `while abs(corr) > 0.0000025:` followed by the test, the state
    being the epoch's JDE.  Exit (`.inr`) carries the result of the final `epoch -= corr`. -/
def season_step (mk : Num → PyRes Num) (sunLon : Num → Num) (k : Int) (e : Num) : Sum Num (PyRes Num) :=
  -- lon, lat, r = Sun.apparent_geocentric_position(epoch)
  let lon := sunLon e
  let corr := season_corr k lon
  -- epoch += corr            (Epoch(self._jde + float(b)))
  match mk (e + corr) with
  | .error err => .inr (.error err)
  | .ok e' =>
    -- while abs(corr) > 0.0000025  ...  epoch -= corr   (Epoch(self._jde - b))
    if plt 0.0000025 (pabs corr) then .inl e' else .inr (mk (e' - corr))

/-- `Sun.get_equinox_solstice(year, target)`; `corr = 1.0` initially, so the body runs at least
    once.  `none` = the fuel ran out (the Python loop has no iteration bound; nothing bounds the
    number of passes for an arbitrary `sunLon`, so the theorems are partial-correctness statements
    valid for every fuel; the F tie uses fuel = number of calls the implementation made + 1). -/
def get_equinox_solstice (mk : Num → PyRes Num) (sunLon : Num → Num) (fuel : Nat) (year : Int)
    (target : String) : PyRes (Option Num) :=
  match season_index target with
  | .error err => .error err
  | .ok k =>
    match season_jde0 year k with
    | .error err => .error err
    | .ok jde0 =>
      -- epoch = Epoch(jde0)
      match mk jde0 with
      | .error err => .error err
      | .ok e0 =>
        match loopFuel (season_step mk sunLon k) fuel e0 with
        | none => .ok none
        | some (.error err) => .error err
        | some (.ok e) => .ok (some e)

--@only F
/-- `Sun.apparent_geocentric_position(epoch)[0]._deg` as modelled by templates/SunEarth.lean (property
    C08: VSOP87 Earth, FK5, nutation, aberration, reflected to the Sun).  An exception inside that
    model becomes NaN, which cannot agree with any instant the implementation returns. -/
def sunLonHelio (jde : Num) : Num :=
  match Helio.sun_apparent_geocentric_position jde true with
  | .ok (l, _, _) => l
  | .error _ => 0.0 / 0.0

/-- `Sun.get_equinox_solstice(year, target)` from the year alone: the loop above with the model's own
    constructor and the modelled solar longitude; fuel 64 (the implementation makes 3-4 passes). -/
def get_equinox_solstice_year (year : Int) (target : String) : PyRes (Option Num) :=
  get_equinox_solstice mkEpoch sunLonHelio 64 year target
--@end

/-! ## Sun.equation_of_time (Sun.py:567) -/

/-- Mean longitude `l0` (degrees, after `Angle(l0).to_positive()`), from the epoch's JDE. -/
def eot_l0 (jde : Num) : Num :=
  -- t = (epoch - JDE2000) / 365250
  let t : Num := (jde - 2451545.0) / 365250.0
  let l0 : Num := 280.4664567 + t * (360007.6982779 + t * (0.03032028 + t * (1.0 / 49931.0
                    + t * (-1.0 / 15300.0 - t * 1.0 / 2000000.0))))
  aToPositive (aReduce l0)

/-- `e = l0() - 0.0057183 - alpha() + deltapsi() * cos(epsilon.rad())` — a float (`alpha` already
    `to_positive()`). Arguments are the `_deg` values. -/
def eot_raw (l0 alpha dpsi eps : Num) : Num :=
  l0 - 0.0057183 - alpha + dpsi * pcos (pradians eps)

/-- `e = e - 360.0 * round(e / 360.0)` on floats. -/
def eot_reduce (e : Num) : Num := wrap180 e

/-- `e *= 4.0` (minutes of time); `s = (abs(e) % 1) * 60.0`; `m = int(e)`. -/
def eot_split (e : Num) : Int × Num :=
  let e4 := e * 4.0
  (ptrunc e4, pmod (pabs e4) 1.0 * 60.0)

/-- `Sun.equation_of_time(epoch)` with `alpha` (right ascension from `ecliptical2equatorial`,
    before `to_positive`), `deltapsi`, `epsilon` (the `_deg` values) as inputs. -/
def equation_of_time (jde alpha dpsi eps : Num) : Int × Num :=
  eot_split (eot_reduce (eot_raw (eot_l0 jde) (aToPositive alpha) dpsi eps))

/-! ## Epoch.rise_set (Epoch.py:1796) -/

/-- `limit = Angle(66, 33, 0)` (`dms2deg`: `deg = sign * (de + mi / 60.0 + se / 3600.0)`;
    `return Angle.reduce_deg(deg)`). -/
def rise_limit : Num := aReduce (1.0 * (66.0 + 33.0 / 60.0 + 0.0 / 3600.0))

/-- `corr = -0.83 - 2.076 * sqrt(altitude) / 60.0` (degrees); caller guarantees `altitude ≥ 0`. -/
def rise_h0 (altitude : Num) : Num := -0.83 - 2.076 * psqrt altitude / 60.0

/-- `cos_om = (sin(radians(corr)) - sin(latitude.rad()) * sin_delta) / (cos(latitude.rad()) * cos_delta)` -/
def rise_cos_om (lat sin_delta cos_delta altitude : Num) : Num :=
  (psin (pradians (rise_h0 altitude)) - psin (pradians lat) * sin_delta) / (pcos (pradians lat) * cos_delta)

/-- Mean solar noon `jstar` (days from J2000): `frac = (10.0 + 32.184 + leap_seconds) / 86400.0`;
    `cjd = e.jde() - 2451545.0 + frac`; `jstar = cjd - (float(longitude) / 360.0)`. -/
def rise_jstar (ejde : Num) (leap : Int) (lon : Num) : Num :=
  ejde - 2451545.0 + (10.0 + 32.184 + ofInt leap) / 86400.0 - (lon / 360.0)

/-- Solar mean anomaly in degrees: `m = (357.5291 + 0.98560028 * jstar) % 360`. -/
def rise_m (jstar : Num) : Num := pmod (357.5291 + 0.98560028 * jstar) 360.0

/-- The sunrise equation's own ecliptic longitude of the Sun, in radians: `mr = radians(m)`;
    `c = 1.9148 * sin(mr) + 0.02 * sin(2.0 * mr) + 0.0003 * sin(3.0 * mr)`;
    `lambd = (m + c + 180.0 + 102.9372) % 360`; `lr = radians(lambd)`. -/
def rise_lr (m : Num) : Num :=
  let mr := pradians m
  let c := 1.9148 * psin mr + 0.02 * psin (2.0 * mr) + 0.0003 * psin (3.0 * mr)
  pradians (pmod (m + c + 180.0 + 102.9372) 360.0)

/-- `sin_delta = sin(lr) * sin(radians(23.44))` -/
def rise_sin_delta (m : Num) : Num := psin (rise_lr m) * psin (pradians 23.44)

/-- The sunrise equation's own declination of the Sun (radians, `delta = asin(sin_delta)`) for the
    day of `ejde`, the longitude and the leap-second count. -/
def rise_delta (ejde : Num) (leap : Int) (lon : Num) : Num :=
  pasin (rise_sin_delta (rise_m (rise_jstar ejde leap lon)))

/-- Everything `rise_set` computes between `e = Epoch(year, month, iint(day))` and the two final
    `Epoch(...)` constructions: returns `(jtran, omega, cos_om)`.
    `ejde = e.jde()`, `leap = Epoch.leap_seconds(year, month)`, `lat`/`lon` the `_deg` of the
    Angles, `altitude` in metres.  `ValueError` stands for the latitude test and for
    "math domain error" (`sqrt` of a negative altitude, `acos` outside [-1, 1]). -/
def rise_set_core (ejde : Num) (leap : Int) (lat lon altitude : Num) : PyRes (Num × Num × Num) :=
  -- if latitude > limit or latitude < -limit: raise ValueError
  if plt rise_limit lat || plt lat (aNeg rise_limit) then .error .valueError else
  let jstar := rise_jstar ejde leap lon
  let m := rise_m jstar
  let lr := rise_lr m
  -- jtran = 2451545.5 + jstar + 0.0053 * sin(mr) - 0.0069 * sin(2.0 * lr)
  let jtran := 2451545.5 + jstar + 0.0053 * psin (pradians m) - 0.0069 * psin (2.0 * lr)
  -- sin_delta = sin(lr) * sin(radians(23.44)); delta = asin(sin_delta); cos_delta = cos(delta)
  let sin_delta := rise_sin_delta m
  if plt 1.0 (pabs sin_delta) then .error .valueError else
  let delta := rise_delta ejde leap lon
  let cos_delta := pcos delta
  -- corr = -0.83 - 2.076 * sqrt(altitude) / 60.0
  if plt altitude 0.0 then .error .valueError else
  -- cos_om = (...) / (cos(latitude.rad()) * cos_delta)
  if peq (pcos (pradians lat) * cos_delta) 0.0 then .error .zeroDivisionError else
  let cos_om := rise_cos_om lat sin_delta cos_delta altitude
  -- omega = degrees(acos(cos_om))
  if plt 1.0 (pabs cos_om) then .error .valueError else
  let omega := pdegrees (pacos cos_om)
  .ok (jtran, omega, cos_om)

/-- The two returned epochs before construction: `jtran - (omega / 360.0)`, `jtran + (omega / 360.0)`. -/
def rise_set_args (r : Num × Num × Num) : Num × Num := (r.1 - (r.2.1 / 360.0), r.1 + (r.2.1 / 360.0))

/-- `Epoch.rise_set(latitude, longitude, altitude)` from the stored JDE: `year, month, day =
    self.get_date(); e = Epoch(year, month, iint(day))` mirrored with EpochCore's `get_date` and
    `epoch_ymd`; `leap` is the implementation's `Epoch.leap_seconds(year, month)`.
    Output: the JDEs of `jrise`, `jsett`. -/
def rise_set (jde : Num) (leap : Int) (lat lon altitude : Num) : PyRes (Num × Num) :=
  if plt rise_limit lat || plt lat (aNeg rise_limit) then .error .valueError else
  match get_date jde with
  | .error e => .error e
  | .ok (y, m, d) =>
    -- e = Epoch(year, month, iint(day))
    match epoch_ymd y m (ofInt (pfloor d)) with
    | .error e => .error e
    | .ok ejde =>
      match rise_set_core ejde leap lat lon altitude with
      | .error e => .error e
      | .ok r =>
        match mkEpoch (rise_set_args r).1 with
        | .error e => .error e
        | .ok jr =>
          match mkEpoch (rise_set_args r).2 with
          | .error e => .error e
          | .ok js => .ok (jr, js)

/-! ## times_rise_transit_set (Coordinates.py:1416) -/

/-- One pass of `check_value`'s loop `while m < 0 or m > 1.0`. -/
def rts_check_step (m : Num) : Sum Num Num :=
  if plt m 0.0 || plt 1.0 m then
    -- if m < 0.0: m += 1   elif m > 1.0: m -= 1
    if plt m 0.0 then .inl (m + 1.0) else if plt 1.0 m then .inl (m - 1.0) else .inl m
  else .inr m

/-- `check_value(m)`; fuel 8 (|m| < 1.5 at the three call sites: at most 2 passes). -/
def rts_check_value (m : Num) : Option Num := loopFuel rts_check_step 8 m

/-- `interpol(n, y1, y2, y3)` — Meeus 3.3 on three equidistant points, differences reduced to
    ±180° — the arguments `y*` being the `_deg` of the Angles; the result is an `Angle`:
    `y2 + n * (a + b + n * c) / 2.0`. -/
def rts_interpol (n y1 y2 y3 : Num) : Num :=
  -- a = y2() - y1(); b = y3() - y2()
  let a := y2 - y1
  let b := y3 - y2
  -- a = a - 360.0 * round(a / 360.0); b = b - 360.0 * round(b / 360.0)
  let a := a - 360.0 * ofInt (roundHE (a / 360.0))
  let b := b - 360.0 * ofInt (roundHE (b / 360.0))
  -- c = b - a
  let c := b - a
  aAdd y2 (n * (a + b + n * c) / 2.0)

/-- `hh0 = (sin(h) - sin(lat) * sin(d2)) / (cos(lat) * cos(d2))` (Python float division). -/
def rts_cosH0 (lat d2 h0 : Num) : PyRes Num :=
  let den := pcos (pradians lat) * pcos (pradians d2)
  if peq den 0.0 then .error .zeroDivisionError
  else .ok ((psin (pradians h0) - psin (pradians lat) * psin (pradians d2)) / den)

/-- elevation of `equatorial2horizontal(ha, dec, lat)` (the azimuth is computed and dropped; it
    cannot raise): `ele = Angle(asin(sin(lat)*sin(dec) + cos(lat)*cos(dec)*cos(h)), radians=True)`. -/
def rts_elevation (ha dec lat : Num) : PyRes Num :=
  -- x = cos(dec) * cos(h) * sin(lat) - sin(dec) * cos(lat); y = cos(dec) * sin(h)
  let x := pcos (pradians dec) * pcos (pradians ha) * psin (pradians lat) - psin (pradians dec) * pcos (pradians lat)
  let y := pcos (pradians dec) * psin (pradians ha)
  -- z = sin(lat) * sin(dec) + cos(lat) * cos(dec) * cos(h); ele = atan2(z, sqrt(x * x + y * y))     (cannot raise)
  let z := psin (pradians lat) * psin (pradians dec) + pcos (pradians lat) * pcos (pradians dec) * pcos (pradians ha)
  .ok (aOfRadians (patan2 z (psqrt (x * x + y * y))))

/-- One pass of `for _ in range(2):` on `(m0, m1, m2)`. -/
def rts_iter (lon lat a1 d1 a2 d2 a3 d3 h0 delta_t theta0 : Num) (s : Num × Num × Num) :
    PyRes (Num × Num × Num) :=
  let (m0, m1, m2) := s
  -- n = m0 + delta_t / 86400.0; transit_alpha = interpol(n, alpha1, alpha2, alpha3)
  let transit_alpha := rts_interpol (m0 + delta_t / 86400.0) a1 a2 a3
  let n1 := m1 + delta_t / 86400.0
  let rise_alpha := rts_interpol n1 a1 a2 a3
  let rise_delta := rts_interpol n1 d1 d2 d3
  let n2 := m2 + delta_t / 86400.0
  let set_alpha := rts_interpol n2 a1 a2 a3
  let set_delta := rts_interpol n2 d1 d2 d3
  -- theta = theta0 + 360.985647 * m0; transit_ha = float(theta - longitude - transit_alpha)
  -- transit_ha -= 360.0 * round(transit_ha / 360.0)
  let transit_ha := wrap180 (aSub (aSub (aAdd theta0 (360.985647 * m0)) lon) transit_alpha)
  -- delta_transit = transit_ha / (-360.0)          (floats)
  let delta_transit := transit_ha / (-360.0)
  let rise_ha := aSub (aSub (aAdd theta0 (360.985647 * m1)) lon) rise_alpha
  let set_ha := aSub (aSub (aAdd theta0 (360.985647 * m2)) lon) set_alpha
  -- azi, rise_ele = equatorial2horizontal(rise_ha, rise_delta, latitude)
  match rts_elevation rise_ha rise_delta lat with
  | .error e => .error e
  | .ok rise_ele =>
    match rts_elevation set_ha set_delta lat with
    | .error e => .error e
    | .ok set_ele =>
      -- delta_rise = (rise_ele - h0) / (360.0 * cos(rise_delta.rad()) * cos(lat) * sin(rise_ha.rad()))
      match aDivF (aSub rise_ele h0)
          (360.0 * pcos (pradians rise_delta) * pcos (pradians lat) * psin (pradians rise_ha)) with
      | .error e => .error e
      | .ok delta_rise =>
        match aDivF (aSub set_ele h0)
            (360.0 * pcos (pradians set_delta) * pcos (pradians lat) * psin (pradians set_ha)) with
        | .error e => .error e
        | .ok delta_set =>
          -- m0 += delta_transit; m1 += delta_rise(); m2 += delta_set()
          .ok (m0 + delta_transit, m1 + delta_rise, m2 + delta_set)

/-- The part of `times_rise_transit_set` after the circumpolar test (`|hh0| ≤ 1`): returns
    `(m1 * 24.0, m0 * 24.0, m2 * 24.0)`; `.error .other` = `check_value` ran out of fuel. -/
def rts_times (lon lat a1 d1 a2 d2 a3 d3 h0 delta_t theta0 cosH0 : Num) : PyRes (Num × Num × Num) :=
  -- hh0 = acos(hh0); hh0 = Angle(hh0, radians=True); hh0.to_positive()
  let hh0 := aToPositive (aOfRadians (pacos cosH0))
  -- m0 = (alpha2 + longitude - theta0) / 360.0 ; m0 = m0()
  match aDivF (aSub (aAdd a2 lon) theta0) 360.0 with
  | .error e => .error e
  | .ok m0 =>
    -- m1 = m0 - hh0() / 360.0; m2 = m0 + hh0() / 360.0
    let m1 := m0 - hh0 / 360.0
    let m2 := m0 + hh0 / 360.0
    match rts_check_value m0, rts_check_value m1, rts_check_value m2 with
    | some m0, some m1, some m2 =>
      match rts_iter lon lat a1 d1 a2 d2 a3 d3 h0 delta_t theta0 (m0, m1, m2) with
      | .error e => .error e
      | .ok s1 =>
        match rts_iter lon lat a1 d1 a2 d2 a3 d3 h0 delta_t theta0 s1 with
        | .error e => .error e
        | .ok (m0, m1, m2) => .ok (m1 * 24.0, m0 * 24.0, m2 * 24.0)
    | _, _, _ => .error .other

/-- `times_rise_transit_set(longitude, latitude, alpha1, delta1, alpha2, delta2, alpha3, delta3,
    h0, delta_t, theta0)` on the `_deg` values; `none` = `(None, None, None)`. -/
def times_rise_transit_set (lon lat a1 d1 a2 d2 a3 d3 h0 delta_t theta0 : Num) :
    PyRes (Option (Num × Num × Num)) :=
  match rts_cosH0 lat d2 h0 with
  | .error e => .error e
  | .ok cosH0 =>
    -- if abs(hh0) > 1.0: return (None, None, None)
    if plt 1.0 (pabs cosH0) then .ok none
    else
      match rts_times lon lat a1 d1 a2 d2 a3 d3 h0 delta_t theta0 cosH0 with
      | .error e => .error e
      | .ok t => .ok (some t)

end SunEvents
end Pymeeus.Gen@K@
