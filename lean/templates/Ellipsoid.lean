--! kinds: R F
/-
Model of the Earth-ellipsoid part of pymeeus/Earth.py (property C18): `Ellipsoid.b`, `Ellipsoid.e`,
`IAU76`, `WGS84`, `Earth.rho`, `rho_sinphi`, `rho_cosphi`, `rp`, `linear_velocity`, `rm`,
`distance` (Andoyer), `parallax_correction`, `parallax_ecliptical`.  Hand-written from the source;
every definition follows the Python statement by statement and is tied to /repo by the bit-exact
correspondence run of the binary64 instantiation (harness/c18.py).

A latitude / longitude argument is the number of degrees (for an `Angle` argument: its `_deg`;
both paths of the `isinstance` test end in `radians(value)`).
-/
import Pymeeus.Gen.@K@.Kepler
namespace Pymeeus.Gen@K@
namespace Ellipsoid
open Pymeeus Pymeeus.P@K@ Pymeeus.Gen@K@.Kepler

/-- `x ** y` on floats (C `pow`).  Over ℝ: `Real.rpow`; a negative base with a fractional exponent
    (Python: a complex result) is excluded by the callers below. -/
--@only R
def elpow (x y : Num) : Num := Real.rpow x y
--@end
--@only F
def elpow (x y : Num) : Num := Float.pow x y
--@end

/-- `round(x, 0)` of a float: nearest integer, ties to even, as a float (keeps the sign of a zero result and
    passes non-finite values through, as CPython does). -/
--@only R
def pround0 (x : Num) : Num := ofInt (pround x)
--@end
--@only F
def pround0 (x : Num) : Num :=
  if x.isNaN || x.isInf then x else
  let r := ofInt (pround x)
  if r == 0.0 && (x.toBits >>> 63 == 1) then -0.0 else r
--@end

/-- `class Ellipsoid`: `_a` equatorial radius (m), `_f` flattening, `_omega` angular velocity (rad/s). -/
structure Ell where
  a : Num
  f : Num
  omega : Num

/-- `Ellipsoid.b()`: `self._a * (1.0 - self._f)` -/
def Ell.b (el : Ell) : Num := el.a * (1.0 - el.f)

/-- `Ellipsoid.e()`: `sqrt(2.0 * f - f * f)` -/
def Ell.e (el : Ell) : PyRes Num := fsqrt (2.0 * el.f - el.f * el.f)

/-- `IAU76 = Ellipsoid(6378140.0, (1.0 / 298.257), 7.292114992e-5)` -/
def IAU76 : Ell := ⟨6378140.0, 1.0 / 298.257, 7.292114992e-5⟩
/-- `WGS84 = Ellipsoid(6378137.0, (1.0 / 298.257223563), 7292115e-11)` -/
def WGS84 : Ell := ⟨6378137.0, 1.0 / 298.257223563, 7292115e-11⟩

/-- `Earth.rho(latitude)` -/
def rho (lat : Num) : Num :=
  let phi := pradians lat
  -- return (0.9983271 + 0.0016764 * cos(2.0 * phi) - 0.0000035 * cos(4.0 * phi))
  0.9983271 + 0.0016764 * pcos (2.0 * phi) - 0.0000035 * pcos (4.0 * phi)

/-- `Earth.rho_sinphi(latitude, height)` -/
def rho_sinphi (el : Ell) (lat height : Num) : PyRes Num :=
  let phi := pradians lat
  -- b_a = self._ellip.b() / self._ellip._a
  match fdiv el.b el.a with
  | .error x => .error x
  | .ok b_a =>
    -- u = atan(b_a * tan(phi))
    let u := patan (b_a * ptan phi)
    -- return b_a * sin(u) + height / self._ellip._a * sin(phi)
    match fdiv height el.a with
    | .error x => .error x
    | .ok ha => .ok (b_a * psin u + ha * psin phi)

/-- `Earth.rho_cosphi(latitude, height)` -/
def rho_cosphi (el : Ell) (lat height : Num) : PyRes Num :=
  let phi := pradians lat
  match fdiv el.b el.a with
  | .error x => .error x
  | .ok b_a =>
    let u := patan (b_a * ptan phi)
    -- return cos(u) + height / self._ellip._a * cos(phi)
    match fdiv height el.a with
    | .error x => .error x
    | .ok ha => .ok (pcos u + ha * pcos phi)

/-- `Earth.rp(latitude)`: radius of the parallel of latitude. -/
def rp (el : Ell) (lat : Num) : PyRes Num :=
  let phi := pradians lat
  let a := el.a
  match el.e with
  | .error x => .error x
  | .ok e =>
    -- return (a * cos(phi)) / sqrt(1.0 - e * e * sin(phi) * sin(phi))
    match fsqrt (1.0 - e * e * psin phi * psin phi) with
    | .error x => .error x
    | .ok den => fdiv (a * pcos phi) den

/-- `Earth.linear_velocity(latitude)`: `omega * self.rp(latitude)` -/
def linear_velocity (el : Ell) (lat : Num) : PyRes Num :=
  match rp el lat with
  | .error x => .error x
  | .ok r => .ok (el.omega * r)

/-- `Earth.rm(latitude)`: radius of curvature of the meridian.  A negative base of `** 1.5`
    (Python: complex result, unreachable for `0 ≤ f ≤ 1`) is reported as `.other`. -/
def rm (el : Ell) (lat : Num) : PyRes Num :=
  let phi := pradians lat
  let a := el.a
  match el.e with
  | .error x => .error x
  | .ok e =>
    -- return (a * (1.0 - e * e)) / (1.0 - e * e * sin(phi) * sin(phi)) ** 1.5
    let base := 1.0 - e * e * psin phi * psin phi
    if plt base 0 then .error .other else
    fdiv (a * (1.0 - e * e)) (elpow base 1.5)

/-- `Earth.distance(lon1, lat1, lon2, lat2)`: `(dist, error)` in metres (Andoyer's formula). -/
def distance (el : Ell) (lon1 lat1 lon2 lat2 : Num) : PyRes (Num × Num) :=
  let l1 := pradians lon1
  let phi1 := pradians lat1
  let l2 := pradians lon2
  let phi2 := pradians lat2
  -- f = (phi1 + phi2) / 2.0 ; g = (phi1 - phi2) / 2.0 ; lam = (l1 - l2) / 2.0
  let f := (phi1 + phi2) / 2.0
  let g := (phi1 - phi2) / 2.0
  let lam := (l1 - l2) / 2.0
  -- sin2g = sin(g) ** 2 ... cos2lam = cos(lam) ** 2
  let sin2g := elpow (psin g) 2
  let cos2g := elpow (pcos g) 2
  let cos2f := elpow (pcos f) 2
  let sin2f := elpow (psin f) 2
  let sin2lam := elpow (psin lam) 2
  let cos2lam := elpow (pcos lam) 2
  -- s = sin2g * cos2lam + cos2f * sin2lam ; c = cos2g * cos2lam + sin2f * sin2lam
  let s := sin2g * cos2lam + cos2f * sin2lam
  let c := cos2g * cos2lam + sin2f * sin2lam
  -- if s == 0.0: return 0.0, 0.0
  if peq s 0.0 then .ok (0.0, 0.0) else
  -- omega = atan(sqrt(s / c))
  match fdiv s c with
  | .error x => .error x
  | .ok sc =>
    match fsqrt sc with
    | .error x => .error x
    | .ok rt =>
      let omega := patan rt
      -- r = sqrt(s * c) / omega
      match fsqrt (s * c) with
      | .error x => .error x
      | .ok rsc =>
        match fdiv rsc omega with
        | .error x => .error x
        | .ok r =>
          -- d = 2.0 * omega * self._ellip._a
          let d := 2.0 * omega * el.a
          -- h1 = (3.0 * r - 1.0) / (2.0 * c) ; h2 = (3.0 * r + 1.0) / (2.0 * s)
          match fdiv (3.0 * r - 1.0) (2.0 * c) with
          | .error x => .error x
          | .ok h1 =>
            match fdiv (3.0 * r + 1.0) (2.0 * s) with
            | .error x => .error x
            | .ok h2 =>
              let fe := el.f
              -- dist = d * (1.0 + fe * (h1 * sin2f * cos2g - h2 * cos2f * sin2g))
              let dist := d * (1.0 + fe * (h1 * sin2f * cos2g - h2 * cos2f * sin2g))
              -- error = round(dist * fe * fe, 0)
              let error := pround0 (dist * fe * fe)
              .ok (dist, error)

/-- `sin(Angle(0, 0, 8.794).rad())`: `dms2deg(0, 0, 8.794) = reduce_deg(1.0 * (0 + 0/60.0 + 8.794/3600.0))`. -/
def sin_pi0 : Num := psin (pradians (reduce_deg (1.0 * (0 + 0 / 60.0 + 8.794 / 3600.0))))

/-- `Earth.parallax_correction(right_ascension, declination, latitude, distance, hour_angle, height)`
    (uses `Earth()`, i.e. WGS84): degree values of `(right_ascension + delta_a, dec)`. -/
def parallax_correction (ra dec lat dist ha height : Num) : PyRes (Num × Num) :=
  -- sin_pi = sin(ang.rad()) / distance
  match fdiv sin_pi0 dist with
  | .error x => .error x
  | .ok sin_pi =>
    match rho_sinphi WGS84 lat height with
    | .error x => .error x
    | .ok rsin =>
      match rho_cosphi WGS84 lat height with
      | .error x => .error x
      | .ok rcos =>
        -- delta_a = atan2(-rho_cosphi * sin_pi * sin(H), cos(dec) - rho_cosphi * sin_pi * cos(H))
        let delta_a := patan2 ((-rcos) * sin_pi * psin (pradians ha))
                              (pcos (pradians dec) - rcos * sin_pi * pcos (pradians ha))
        let delta_a := angle_of_rad delta_a
        -- ynum = -rho_cosphi * sin_pi * sin(H) ; xden = cos(dec) - rho_cosphi * sin_pi * cos(H)
        let ynum := (-rcos) * sin_pi * psin (pradians ha)
        let xden := pcos (pradians dec) - rcos * sin_pi * pcos (pradians ha)
        -- dec = atan2(sin(dec) - rho_sinphi * sin_pi, sqrt(ynum * ynum + xden * xden))
        match fsqrt (ynum * ynum + xden * xden) with
        | .error x => .error x
        | .ok hyp =>
          let d := patan2 (psin (pradians dec) - rsin * sin_pi) hyp
          let d := angle_of_rad d
          -- return (right_ascension + delta_a), dec
          .ok (angle_add ra delta_a, d)

/-- `Earth.parallax_ecliptical(longitude, latitude, semidiameter, obs_lat, obliquity, sidereal_time,
    distance, height)`: degree values of `(topo_lon, topo_lat, topo_semi)`. -/
def parallax_ecliptical (lon lat semi obs_lat obl sid dist height : Num) : PyRes (Num × Num × Num) :=
  match fdiv sin_pi0 dist with
  | .error x => .error x
  | .ok sin_pi =>
    match rho_sinphi WGS84 obs_lat height with
    | .error x => .error x
    | .ok rsin =>
      match rho_cosphi WGS84 obs_lat height with
      | .error x => .error x
      | .ok rcos =>
        let lonr := pradians lon
        let latr := pradians lat
        let semir := pradians semi
        let sidr := pradians sid
        let oblr := pradians obl
        -- n = cos(lonr) * cos(latr) - rho_cosphi * sin_pi * cos(sidr)
        let n := pcos lonr * pcos latr - rcos * sin_pi * pcos sidr
        -- ylon = sin(lonr)*cos(latr) - sin_pi*(rho_sinphi*sin(oblr) + rho_cosphi*cos(oblr)*sin(sidr))
        let ylon := psin lonr * pcos latr - sin_pi * (rsin * psin oblr + rcos * pcos oblr * psin sidr)
        -- topo_lon = atan2(ylon, n) ; topo_lon = Angle(topo_lon, radians=True).to_positive()
        let topo_lon := to_positive (angle_of_rad (patan2 ylon n))
        -- hyp = sqrt(ylon * ylon + n * n)
        match fsqrt (ylon * ylon + n * n) with
        | .error x => .error x
        | .ok hyp =>
          -- topo_lat = atan2(sin(latr) - sin_pi*(rho_sinphi*cos(oblr) - rho_cosphi*sin(oblr)*sin(sidr)), hyp)
          let tb := patan2 (psin latr - sin_pi * (rsin * pcos oblr - rcos * psin oblr * psin sidr)) hyp
          -- topo_lat = Angle(topo_lat, radians=True)
          let topo_lat := angle_of_rad tb
          let tlatr := pradians topo_lat
          -- topo_semi = asin((cos(tlatr) * sin(semir)) / hyp)
          match fdiv (pcos tlatr * psin semir) hyp with
          | .error x => .error x
          | .ok q =>
            match fasin q with
            | .error x => .error x
            | .ok ts => .ok (topo_lon, topo_lat, angle_of_rad ts)

end Ellipsoid
end Pymeeus.Gen@K@
