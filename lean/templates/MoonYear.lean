/-
The fractional year the four lunar event finders of pymeeus/Moon.py derive from the query epoch
(Moon.py:673-678, 885-890, 1073-1078, 1187-1192, the same five lines each time):

    y, m, d = epoch.get_date()
    num_days_year = 365.0
    if Epoch.is_leap(y): num_days_year = 366.0
    doy = Epoch.get_doy(y, m, d)
    year = y + doy / num_days_year

Note `doy`, not `doy - 1` as in `Epoch.year()`: the value is `Epoch.year() + 1/num_days_year`.
Built from the calendar models `get_date`, `is_leap` (templates/EpochCore.lean) and `get_doy`
(templates/EpochCal.lean).  Instantiated at Rat (used, cast to ℝ, by the real-number Moon model and
its theorems) and at Float (bit-exact tie).
-/
import Pymeeus.Gen.@K@.EpochCal
namespace Pymeeus.Gen@K@
namespace MoonM
open Pymeeus Pymeeus.P@K@

/-- `year = y + doy / num_days_year` of the finders, from the query JDE -/
def finder_year (jde : Num) : PyRes Num :=
  -- y, m, d = epoch.get_date()
  match get_date jde with
  | .error e => .error e
  | .ok (y, m, d) =>
    -- num_days_year = 365.0; if Epoch.is_leap(y): num_days_year = 366.0
    let num_days_year : Num := if is_leap y then 366.0 else 365.0
    -- doy = Epoch.get_doy(y, m, d)
    match get_doy y m d with
    | .error e => .error e
    -- year = y + doy / num_days_year
    | .ok doy => .ok (ofInt y + doy / num_days_year)

end MoonM
end Pymeeus.Gen@K@
