/-
Model of the religious-calendar functions of pymeeus/Epoch.py (property C19): `Epoch.easter`,
`Epoch.jewish_pesach`, `Epoch.moslem2gregorian`, `Epoch.gregorian2moslem`, and the two helpers
they are used with: `Epoch.dow` and the Julian-calendar branch of `Epoch.doy2date` (the only
part of it `moslem2gregorian` can reach).  Hand-written from the source, statement by statement
(the Python line is quoted); tied to the source by the correspondence check.

All arguments are Python `int`s (the property quantifies over dates).  The helpers carry the
prefix `relig_` so that they do not clash with the models of the same functions that belong to
other properties.
-/
import Pymeeus.Gen.@K@.EpochCore
namespace Pymeeus.Gen@K@
open Pymeeus Pymeeus.P@K@

/-- `Epoch.easter(year)` (Epoch.py:1005) for an `int` year: `(month, day)`. -/
def easter (year : Int) : Int × Int :=
  -- if year >= 1583:
  if year ≥ 1583 then
    -- a = year % 19
    let a := imod year 19
    -- b = iint(year / 100.0)
    let b : Int := pfloor (ofInt year / 100.0)
    -- c = year % 100
    let c := imod year 100
    -- d = iint(b / 4.0)
    let d : Int := pfloor (ofInt b / 4.0)
    -- e = b % 4
    let e := imod b 4
    -- f = iint((b + 8.0) / 25.0)
    let f : Int := pfloor ((ofInt b + 8.0) / 25.0)
    -- g = iint((b - f + 1.0) / 3.0)
    let g : Int := pfloor ((ofInt (b - f) + 1.0) / 3.0)
    -- h = (19 * a + b - d - g + 15) % 30
    let h := imod (19 * a + b - d - g + 15) 30
    -- i = iint(c / 4.0)
    let i : Int := pfloor (ofInt c / 4.0)
    -- k = c % 4
    let k := imod c 4
    -- ll = (32 + 2 * (e + i) - h - k) % 7
    let ll := imod (32 + 2 * (e + i) - h - k) 7
    -- m = iint((a + 11 * h + 22 * ll) / 451.0)
    let m : Int := pfloor (ofInt (a + 11 * h + 22 * ll) / 451.0)
    -- n = iint((h + ll - 7 * m + 114) / 31.0)
    let n : Int := pfloor (ofInt (h + ll - 7 * m + 114) / 31.0)
    -- p = (h + ll - 7 * m + 114) % 31
    let p := imod (h + ll - 7 * m + 114) 31
    -- return (n, p + 1)
    (n, p + 1)
  else
    -- a = year % 4; b = year % 7; c = year % 19
    let a := imod year 4
    let b := imod year 7
    let c := imod year 19
    -- d = (19 * c + 15) % 30
    let d := imod (19 * c + 15) 30
    -- e = (2 * a + 4 * b - d + 34) % 7
    let e := imod (2 * a + 4 * b - d + 34) 7
    -- f = iint((d + e + 114) / 31.0)
    let f : Int := pfloor (ofInt (d + e + 114) / 31.0)
    -- g = (d + e + 114) % 31
    let g := imod (d + e + 114) 31
    -- return (f, g + 1)
    (f, g + 1)

/-- `Epoch.jewish_pesach(year)` (Epoch.py:1066) for an `int` year: `(month, day)`. -/
def jewish_pesach (year : Int) : Int × Int :=
  -- c = iint(year / 100.0)
  let c : Int := pfloor (ofInt year / 100.0)
  -- s = 0 if year < 1583 else iint((3.0 * c - 5.0) / 4.0)
  let s : Int := if year < 1583 then 0 else pfloor ((3.0 * ofInt c - 5.0) / 4.0)
  -- a = (12 * (year + 1)) % 19
  let a := imod (12 * (year + 1)) 19
  -- b = year % 4
  let b := imod year 4
  -- q = (-1.904412361576 + 1.554241796621 * a + 0.25 * b - 0.003177794022 * year + s)
  let q : Num := -1.904412361576 + 1.554241796621 * ofInt a + 0.25 * ofInt b
                  - 0.003177794022 * ofInt year + ofInt s
  -- j = (iint(q) + 3 * year + 5 * b + 2 - s) % 7
  let j := imod (pfloor q + 3 * year + 5 * b + 2 - s) 7
  -- r = q - iint(q)
  let r : Num := q - ofInt (pfloor q)
  let d : Int :=
    -- if j == 2 or j == 4 or j == 6: d = iint(q) + 23
    if j = 2 ∨ j = 4 ∨ j = 6 then pfloor q + 23
    -- elif j == 1 and a > 6 and r > 0.632870370: d = iint(q) + 24
    else if j = 1 ∧ a > 6 ∧ plt 0.632870370 r = true then pfloor q + 24
    -- elif j == 0 and a > 11 and r > 0.897723765: d = iint(q) + 23
    else if j = 0 ∧ a > 11 ∧ plt 0.897723765 r = true then pfloor q + 23
    -- else: d = iint(q) + 22
    else pfloor q + 22
  -- if d > 31: return (4, d - 31) else: return (3, d)
  if d > 31 then (4, d - 31) else (3, d)

/-- `Epoch.dow()` (Epoch.py:1618) of an Epoch whose `_jde` is `jde`: 0 = Sunday. -/
def relig_dow (jde : Num) : Int :=
  -- jd = iint(self._jde - 0.5) + 2.0
  let jd : Num := ofInt (pfloor (jde - 0.5)) + 2.0
  -- doy = iint(jd % 7)
  pfloor (pmod jd (ofInt 7))

/-- The `else` branch of `Epoch.doy2date(year, doy)` (Epoch.py:884-896), taken when
    `year <= 1582`, for `int` arguments.  (The branch `year > 1582` goes through `datetime` and
    is not reached from `moslem2gregorian`.)  The day is a float: `d + frac`, `frac = float(doy % 1)`. -/
def relig_doy2date_julian (year doy : Int) : Int × Int × Num :=
  -- frac = float(doy % 1); doy = int(doy)
  let frac : Num := ofInt (imod doy 1)
  -- if year == 1582 and doy > 277: doy += 10
  let doy := if year = 1582 ∧ doy > 277 then doy + 10 else doy
  -- k = 1 if Epoch.is_leap(year) else 2
  let k : Int := if is_leap year then 1 else 2
  -- if doy < 32: m = 1 else: m = iint((9.0 * (k + doy)) / 275.0 + 0.98)
  let m : Int := if doy < 32 then 1 else pfloor ((9.0 * ofInt (k + doy)) / 275.0 + 0.98)
  -- d = (doy - iint((275.0 * m) / 9.0) + k * iint((m + 9.0) / 12.0) + 30)
  let d : Int := doy - pfloor ((275.0 * ofInt m) / 9.0) + k * pfloor ((ofInt m + 9.0) / 12.0) + 30
  -- return year, int(m), d + frac
  (year, m, ofInt d + frac)

/-- `Epoch.moslem2gregorian(year, month, day)` (Epoch.py:1108) for `int` arguments.  The day of
    the result is an `int` on the Gregorian path (`Sum.inl`) and a float on the path through
    `doy2date` (`Sum.inr`), as in the source. -/
def moslem2gregorian (year month day : Int) : PyRes (Int × Int × (Int ⊕ Num)) :=
  -- if day < 1 or day > 30 or month < 1 or month > 12 or year < 1: raise ValueError
  if day < 1 ∨ day > 30 ∨ month < 1 ∨ month > 12 ∨ year < 1 then .error .valueError else
  -- h = iint(year); m = iint(month); d = iint(day)
  let h := year
  let m := month
  let d := day
  -- n = d + iint(29.5001 * (m - 1) + 0.99)
  let n : Int := d + pfloor (29.5001 * ofInt (m - 1) + 0.99)
  -- q = iint(h / 30.0)
  let q : Int := pfloor (ofInt h / 30.0)
  -- r = h % 30
  let r := imod h 30
  -- a = iint((11.0 * r + 3.0) / 30.0)
  let a : Int := pfloor ((11.0 * ofInt r + 3.0) / 30.0)
  -- w = 404 * q + 354 * r + 208 + a
  let w := 404 * q + 354 * r + 208 + a
  -- q1 = iint(w / 1461.0)
  let q1 : Int := pfloor (ofInt w / 1461.0)
  -- q2 = w % 1461
  let q2 := imod w 1461
  -- g = 621 + 4 * iint(7.0 * q + q1)
  let g : Int := 621 + 4 * pfloor (7.0 * ofInt q + ofInt q1)
  -- k = iint(q2 / 365.2422)
  let k : Int := pfloor (ofInt q2 / 365.2422)
  -- e = iint(365.2422 * k)
  let e : Int := pfloor (365.2422 * ofInt k)
  -- j = q2 - e + n - 1
  let j := q2 - e + n - 1
  -- x = g + k
  let x := g + k
  -- if j > 366 and x % 4 == 0: j -= 366; x += 1  elif j > 365 and x % 4 > 0: j -= 365; x += 1
  let jx : Int × Int :=
    if j > 366 ∧ imod x 4 = 0 then (j - 366, x + 1)
    else if j > 365 ∧ imod x 4 > 0 then (j - 365, x + 1)
    else (j, x)
  let j := jx.1
  let x := jx.2
  -- if (x > 1582) or (x == 1582 and j > 277) or j < 1:
  if x > 1582 ∨ (x = 1582 ∧ j > 277) ∨ j < 1 then
    -- jd = iint(365.25 * (x - 1.0)) + 1721423 + j
    let jd : Int := pfloor (365.25 * (ofInt x - 1.0)) + 1721423 + j
    -- alpha = iint((jd - 1867216.25) / 36524.25)
    let alpha : Int := pfloor ((ofInt jd - 1867216.25) / 36524.25)
    -- beta = jd if jd < 2299161 else (jd + 1 + alpha - iint(alpha / 4.0))
    let beta : Int := if jd < 2299161 then jd else jd + 1 + alpha - pfloor (ofInt alpha / 4.0)
    -- b = beta + 1524
    let b := beta + 1524
    -- c = iint((b - 122.1) / 365.25)
    let c : Int := pfloor ((ofInt b - 122.1) / 365.25)
    -- d = iint(365.25 * c)
    let d : Int := pfloor (365.25 * ofInt c)
    -- e = iint((b - d) / 30.6001)
    let e : Int := pfloor (ofInt (b - d) / 30.6001)
    -- day = b - d - iint(30.6001 * e)
    let day := b - d - pfloor (30.6001 * ofInt e)
    -- month = (e - 1) if e < 14 else (e - 13)
    let month := if e < 14 then e - 1 else e - 13
    -- year = (c - 4716) if month > 2 else (c - 4715)
    let year := if month > 2 then c - 4716 else c - 4715
    -- return year, month, day
    .ok (year, month, .inl day)
  else
    -- return Epoch.doy2date(x, j)
    let t := relig_doy2date_julian x j
    .ok (t.1, t.2.1, .inr t.2.2)

/-- `ylen = 355 if (11 * (h % 30) + 3) % 30 > 18 else 354` (three occurrences in the source). -/
def g2m_ylen (h : Int) : Int := if imod (11 * imod h 30 + 3) 30 > 18 then 355 else 354

/-- Fuel of the two `while` loops of `gregorian2moslem`.  `Props/C19.lean` proves that it is
    never exhausted (each loop runs at most twice). -/
def g2m_fuel : Nat := 8

/-- first loop: `while jj > ylen: jj -= ylen; h += 1; ylen = ...`; state `(jj, h, ylen)` -/
def g2m_step1 (s : Int × Int × Int) : Sum (Int × Int × Int) (Int × Int × Int) :=
  if s.1 > s.2.2 then .inl (s.1 - s.2.2, s.2.1 + 1, g2m_ylen (s.2.1 + 1)) else .inr s

/-- second loop: `while jj <= 0: h -= 1; ylen = ...; jj += ylen` -/
def g2m_step2 (s : Int × Int × Int) : Sum (Int × Int × Int) (Int × Int × Int) :=
  if s.1 ≤ 0 then .inl (s.1 + g2m_ylen (s.2.1 - 1), s.2.1 - 1, g2m_ylen (s.2.1 - 1)) else .inr s

/-- the tail of `gregorian2moslem`: day of the Moslem year `jj` -> `(h, m, d)` -/
def g2m_tail (h jj : Int) : Int × Int × Int :=
  -- if jj == 355: m = 12; d = 30
  if jj = 355 then (h, 12, 30)
  else
    -- s = iint((jj - 1.0) / 29.5)
    let s : Int := pfloor ((ofInt jj - 1.0) / 29.5)
    -- m = 1 + s
    let m := 1 + s
    -- d = iint(jj - 29.5 * s)
    let d : Int := pfloor (ofInt jj - 29.5 * ofInt s)
    (h, m, d)

/-- The straight-line part of `gregorian2moslem` up to the loops: `(h, jj)`. -/
def g2m_head (year month day : Int) : Int × Int :=
  -- x = iint(year); m = iint(month); d = iint(day)
  let x := year
  let m := month
  let d := day
  -- julian = Epoch.is_julian(x, m, d)
  let julian := is_julian x m (ofInt d)
  -- if m < 3: x -= 1; m += 12
  let xm : Int × Int := if m < 3 then (x - 1, m + 12) else (x, m)
  let x := xm.1
  let m := xm.2
  -- alpha = iint(x / 100.0)
  let alpha : Int := pfloor (ofInt x / 100.0)
  -- beta = 0 if julian else 2 - alpha + iint(alpha / 4.0)
  let beta : Int := if julian then 0 else 2 - alpha + pfloor (ofInt alpha / 4.0)
  -- b = iint(365.25 * x) + iint(30.6001 * (m + 1.0)) + d + 1722519 + beta
  let b : Int := pfloor (365.25 * ofInt x) + pfloor (30.6001 * (ofInt m + 1.0)) + d + 1722519 + beta
  -- c = iint((b - 122.1) / 365.25)
  let c : Int := pfloor ((ofInt b - 122.1) / 365.25)
  -- d = iint(365.25 * c)
  let d : Int := pfloor (365.25 * ofInt c)
  -- e = iint((b - d) / 30.6001)
  let e : Int := pfloor (ofInt (b - d) / 30.6001)
  -- d = b - d - iint(30.6001 * e)
  let d := b - d - pfloor (30.6001 * ofInt e)
  -- m = (e - 1) if e < 14 else (e - 13)
  let m := if e < 14 then e - 1 else e - 13
  -- x = (c - 4716) if m > 2 else (c - 4715)
  let x := if m > 2 then c - 4716 else c - 4715
  -- w = 1 if x % 4 == 0 else 2
  let w : Int := if imod x 4 = 0 then 1 else 2
  -- n = iint((275.0 * m) / 9.0) - w * iint((m + 9.0) / 12.0) + d - 30
  let n : Int := pfloor ((275.0 * ofInt m) / 9.0) - w * pfloor ((ofInt m + 9.0) / 12.0) + d - 30
  -- a = x - 623
  let a := x - 623
  -- b = iint(a / 4.0)
  let b : Int := pfloor (ofInt a / 4.0)
  -- c = a % 4
  let c := imod a 4
  -- c1 = 365.2501 * c
  let c1 : Num := 365.2501 * ofInt c
  -- c2 = iint(c1)
  let c2 : Int := pfloor c1
  -- if c1 - c2 > 0.5: c2 += 1
  let c2 : Int := if plt 0.5 (c1 - ofInt c2) then c2 + 1 else c2
  -- dp = 1461 * b + 170 + c2
  let dp := 1461 * b + 170 + c2
  -- q = iint(dp / 10631.0)
  let q : Int := pfloor (ofInt dp / 10631.0)
  -- r = dp % 10631
  let r := imod dp 10631
  -- j = iint(r / 354.0)
  let j : Int := pfloor (ofInt r / 354.0)
  -- k = r % 354
  let k := imod r 354
  -- o = iint((11.0 * j + 14.0) / 30.0)
  let o : Int := pfloor ((11.0 * ofInt j + 14.0) / 30.0)
  -- h = 30 * q + j + 1
  let h := 30 * q + j + 1
  -- jj = k - o + n - 1
  let jj := k - o + n - 1
  (h, jj)

/-- `Epoch.gregorian2moslem(year, month, day)` (Epoch.py:1182) for `int` arguments.
    `.error .other` = a `while` loop did not finish within `g2m_fuel` steps (proved impossible). -/
def gregorian2moslem (year month day : Int) : PyRes (Int × Int × Int) :=
  -- if day < 1 or day > 31 or month < 1 or month > 12 or year < -4712: raise ValueError
  if day < 1 ∨ day > 31 ∨ month < 1 ∨ month > 12 ∨ year < -4712 then .error .valueError else
  let hj := g2m_head year month day
  -- ylen = 355 if (11 * (h % 30) + 3) % 30 > 18 else 354
  -- while jj > ylen: jj -= ylen; h += 1; ylen = 355 if (11 * (h % 30) + 3) % 30 > 18 else 354
  match loopFuel g2m_step1 g2m_fuel (hj.2, hj.1, g2m_ylen hj.1) with
  | none => .error .other
  | some s1 =>
    -- while jj <= 0: h -= 1; ylen = 355 if (11 * (h % 30) + 3) % 30 > 18 else 354; jj += ylen
    match loopFuel g2m_step2 g2m_fuel s1 with
    | none => .error .other
    | some s2 => .ok (g2m_tail s2.2.1 s2.1)

/-! ### The same four functions called with `float` arguments (`isinstance(x, (int, float))` lets
them through).  Each first reduces its arguments to `int`s -- `easter` with `int()` (truncation toward
zero), the other three with `iint()` (floor) -- the range tests of the Moslem functions are made on
the floats, before the reduction. -/

/-- `Epoch.easter(year)` for a `float` year: `year = int(year)`. -/
def easter_num (year : Num) : Int × Int :=
  -- year = int(year)
  easter (ptrunc year)

/-- `Epoch.jewish_pesach(year)` for a `float` year: `year = iint(year)`. -/
def jewish_pesach_num (year : Num) : Int × Int :=
  -- year = iint(year)
  jewish_pesach (pfloor year)

/-- `Epoch.moslem2gregorian(year, month, day)` for `float` arguments. -/
def moslem2gregorian_num (year month day : Num) : PyRes (Int × Int × (Int ⊕ Num)) :=
  -- if day < 1 or day > 30 or month < 1 or month > 12 or year < 1: raise ValueError
  if plt day 1 || plt 30 day || plt month 1 || plt 12 month || plt year 1 then .error .valueError
  -- h = iint(year); m = iint(month); d = iint(day)
  else moslem2gregorian (pfloor year) (pfloor month) (pfloor day)

/-- `Epoch.gregorian2moslem(year, month, day)` for `float` arguments. -/
def gregorian2moslem_num (year month day : Num) : PyRes (Int × Int × Int) :=
  -- if day < 1 or day > 31 or month < 1 or month > 12 or year < -4712: raise ValueError
  if plt day 1 || plt 31 day || plt month 1 || plt 12 month || plt year (-4712) then .error .valueError
  -- x = iint(year); m = iint(month); d = iint(day)
  else gregorian2moslem (pfloor year) (pfloor month) (pfloor day)

end Pymeeus.Gen@K@
