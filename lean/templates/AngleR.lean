--! kinds: R F
/-
The part of pymeeus/Angle.py that needs pi or a real power: the `radians=` keyword of the
constructor, `set_radians`, `rad()`, and `**` with a float / Angle exponent or a number base.
-/
import Pymeeus.Gen.@K@.Angle
namespace Pymeeus.Gen@K@
open Pymeeus Pymeeus.P@K@

/-- `Angle.set(*args, radians=..., ra=...)` (Angle.py:271), all keyword combinations. -/
def angle_set_kw (self : Angle) (s : Shape) (radians ra : Bool) : PyRes Angle :=
  -- if "ra" in kwargs: if kwargs["ra"]: self.set_ra(*args); return      (radians is dropped)
  if ra then angle_set_ra self s
  else if radians then
    match s with
    -- isinstance(deg, (int, float)) and kwargs["radians"]: deg = degrees(deg); reduce_deg(deg)
    | .num x => .ok { self with deg := reduce_deg (pdegrees x) }
    -- len(deg) == 1: deg = deg[0]; deg = degrees(deg); reduce_deg(deg)
    | .seq [x] => .ok { self with deg := reduce_deg (pdegrees x) }
    -- every other shape ignores the keyword
    | s => angle_set self s
  else angle_set self s

/-- `Angle(*args, radians=..., ra=...)`. -/
def angle_new_kw (s : Shape) (radians ra : Bool) : PyRes Angle := angle_set_kw ⟨0.0, TOL⟩ s radians ra

/-- `Angle.set_radians(rads)`: `self.set(rads, radians=True)`. -/
def angle_set_radians (self : Angle) (rads : Num) : PyRes Angle := angle_set_kw self (.num rads) true false

/-- `Angle.rad()`: `radians(self._deg)`. -/
def angle_rad (a : Angle) : Num := pradians a.deg

/-- `Angle.__pow__(b)` / `__ipow__`: `Angle(self._deg ** b)`. -/
def angle_pow (a : Angle) (b : Operand) : PyRes Angle :=
  match (match b with
         | .int n => ppowi a.deg n
         | .flt x => ppow a.deg x
         | .ang b => ppow a.deg b.deg) with
  | .ok v => .ok (mk v)
  | .error e => .error e

/-- `Angle.__rpow__(b)`: `Angle(b ** self._deg)`. -/
def angle_rpow (a : Angle) (b : Operand) : PyRes Angle :=
  match ppow b.val a.deg with
  | .ok v => .ok (mk v)
  | .error e => .error e

end Pymeeus.Gen@K@
