--! kinds: Q R F
/-
Model of the instant-level part of pymeeus/Epoch.py (hand-written from the source; tied to the
source by the correspondence check): `get_full_date`, the argument dispatch of `Epoch.set` /
`Epoch.__init__` (paths WITHOUT the kwargs utc / leap_seconds / local), `check_input_date`, and
the operators `__add__ … __le__`, `__int__`, `__float__`, `__hash__`.

The dynamic `*args` of `set` are modelled by one constructor of `SetArgs` per documented signature;
the harness maps every Python call to its shape.  Well-typed calls only: the year is an `int`,
the month an `int`, a `float` or a `str`, day/hours/minutes/seconds are numbers.
-/
import Pymeeus.Gen.@K@.EpochCore
namespace Pymeeus.Gen@K@
open Pymeeus Pymeeus.P@K@

/-- An `Epoch` object: the only field is `_jde`. -/
structure Epoch where
  jde : Num

/-- `Epoch.get_full_date()` without kwargs (Epoch.py:1454-1461). -/
def get_full_date (jde : Num) : PyRes (Int × Int × Int × Int × Int × Num) :=
  -- y, m, d = self.get_date(**kwargs)
  match get_date jde with
  | .error e => .error e
  | .ok (y, m, d) =>
    -- r = d % 1
    let r := pmod d 1.0
    -- d = int(d)
    let d' : Int := ptrunc d
    -- h = int(r * 24.0)
    let h : Int := ptrunc (r * 24.0)
    -- r = r * 24 - h
    let r := r * 24.0 - ofInt h
    -- mi = int(r * 60.0)
    let mi : Int := ptrunc (r * 60.0)
    -- s = 60.0 * (r * 60.0 - mi)
    let s := 60.0 * (r * 60.0 - ofInt mi)
    .ok (y, m, d', h, mi, s)

/-- The month argument of the constructor: `int`, `float` or `str`. -/
inductive MonthArg where
  | num (n : Int)
  | flt (x : Num)
  | name (s : String)

/-- `Epoch.get_month(month)` (Epoch.py:663-690, `as_string=False`). -/
def get_month : MonthArg → PyRes Int
  | .num n => get_month_int n
  -- month = int(month)  # Truncate if it has decimals
  | .flt x => get_month_int (ptrunc x)
  | .name s => get_month_str s

/-- The positional values `year, month, day[, hours[, minutes[, sec[, ignored …]]]]` handed to
    `_check_values(*args)`; `short` = fewer than three values. -/
inductive Fields where
  | short
  | ymd (year : Int) (month : MonthArg) (day : Num) (rest : List Num)

/-- `Epoch._check_values(*args)` (Epoch.py:449-496) on a value sequence. -/
def check_fields : Fields → PyRes (Int × Int × Num × Num × Num × Num)
  -- if len(args) < 3: raise ValueError("Invalid number of input values")
  | .short => .error .valueError
  | .ymd year month day rest =>
    -- hours = 0.0 …; if len(args) >= 4: hours = args[3]; >= 5: minutes = args[4]; >= 6: sec = args[5]
    let hours := rest.getD 0 0.0
    let minutes := rest.getD 1 0.0
    let sec := rest.getD 2 0.0
    check_values year (get_month month) day hours minutes sec

/-- The shapes of `*args` that `Epoch.set` / `Epoch.__init__` distinguish (kwargs absent). -/
inductive SetArgs where
  /-- `Epoch()` -/
  | none
  /-- `Epoch(e)` with `e` an `Epoch` -/
  | epoch (e : Epoch)
  /-- `Epoch(jde)` with an `int` or `float` -/
  | number (x : Num)
  /-- `Epoch((y, m, d, …))` or `Epoch([y, m, d, …])` -/
  | seq (xs : Fields)
  /-- `Epoch(datetime.datetime(y, m, d, h, mi, s, us))` -/
  | datetime (y m d h mi s us : Int)
  /-- `Epoch(datetime.date(y, m, d))` -/
  | date (y m d : Int)
  /-- one argument of any other class -/
  | other
  /-- exactly two positional arguments -/
  | two
  /-- `Epoch(y, m, d, …)`: three or more positional arguments -/
  | many (xs : Fields)

/-- Tail of `_compute_jde` on the path `utc2tt=False, leap_seconds=0.0, local=False`:
    `deltasec = 0.0; return jde + deltasec / DAY2SEC` (Epoch.py:417-435). -/
def compute_jde_tt (y m : Int) (d : Num) : Num :=
  compute_jde y m d + 0.0 / 86400.0

/-- Last two statements of `set` without kwargs (Epoch.py:356, 376). -/
def set_fold (v : Int × Int × Num × Num × Num × Num) : Epoch :=
  let (year, month, day, hours, minutes, sec) := v
  -- day += hours / DAY2HOURS + minutes / DAY2MIN + sec / DAY2SEC
  let day := day + (hours / 24.0 + minutes / 1440.0 + sec / 86400.0)
  -- self._jde = self._compute_jde(year, month, day, utc2tt=False)
  { jde := compute_jde_tt year month day }

/-- `Epoch.set(self, *args)` (Epoch.py:318-376); returns the receiver after the call. -/
def Epoch.set (_self : Epoch) (args : SetArgs) : PyRes Epoch :=
  -- self._jde = 0.0
  let self : Epoch := { jde := 0.0 }
  match args with
  -- if len(args) == 0: return
  | .none => .ok self
  -- self._jde = args[0]._jde; year, …, sec = self.get_full_date()
  | .epoch e =>
    match get_full_date e.jde with
    | .error err => .error err
    | .ok (y, m, d, h, mi, s) => .ok (set_fold (y, m, ofInt d, ofInt h, ofInt mi, s))
  -- self._jde = args[0]; year, …, sec = self.get_full_date()
  | .number x =>
    match get_full_date x with
    | .error err => .error err
    | .ok (y, m, d, h, mi, s) => .ok (set_fold (y, m, ofInt d, ofInt h, ofInt mi, s))
  -- year, …, sec = self._check_values(*args[0])
  | .seq xs =>
    match check_fields xs with
    | .error err => .error err
    | .ok v => .ok (set_fold v)
  -- self._check_values(d.year, d.month, d.day, d.hour, d.minute, d.second + d.microsecond / 1e6)
  | .datetime y m d h mi s us =>
    match check_fields (.ymd y (.num m) (ofInt d) [ofInt h, ofInt mi, ofInt s + ofInt us / 1e6]) with
    | .error err => .error err
    | .ok v => .ok (set_fold v)
  -- self._check_values(d.year, d.month, d.day)
  | .date y m d =>
    match check_fields (.ymd y (.num m) (ofInt d) []) with
    | .error err => .error err
    | .ok v => .ok (set_fold v)
  -- raise TypeError("Invalid input type")
  | .other => .error .typeError
  -- elif len(args) == 2: raise ValueError("Invalid number of input values")
  | .two => .error .valueError
  -- year, …, sec = self._check_values(*args)
  | .many xs =>
    match check_fields xs with
    | .error err => .error err
    | .ok v => .ok (set_fold v)

/-- `Epoch(*args)`: `self._jde = 0.0; self.set(*args)`. -/
def Epoch.init (args : SetArgs) : PyRes Epoch := Epoch.set { jde := 0.0 } args

/-- `Epoch.check_input_date(*args)` without kwargs (Epoch.py:526-549). -/
def check_input_date : SetArgs → PyRes Epoch
  -- if len(args) == 0: raise ValueError
  | .none => .error .valueError
  -- if isinstance(args[0], Epoch): t = args[0]
  | .epoch e => .ok e
  -- tuple/list: if len(args[0]) >= 3: t = Epoch(args[0][0], args[0][1], args[0][2]) else ValueError
  | .seq .short => .error .valueError
  | .seq (.ymd y m d _) => Epoch.init (.many (.ymd y m d []))
  -- datetime / date: t = Epoch(args[0].year, args[0].month, args[0].day)
  | .datetime y m d _ _ _ _ => Epoch.init (.many (.ymd y (.num m) (ofInt d) []))
  | .date y m d => Epoch.init (.many (.ymd y (.num m) (ofInt d) []))
  -- else: raise TypeError   (a bare number is refused here)
  | .number _ => .error .typeError
  | .other => .error .typeError
  -- elif len(args) == 2: raise ValueError
  | .two => .error .valueError
  -- t = Epoch(args[0], args[1], args[2])
  | .many .short => .error .valueError
  | .many (.ymd y m d _) => Epoch.init (.many (.ymd y m d []))

/-- Right operand of an operator: a number (`int`/`float`), an `Epoch`, or anything else. -/
inductive EpOperand where
  | num (x : Num)
  | epoch (e : Epoch)
  | other

/-- `Epoch.__add__(self, b)` (Epoch.py:1910-1913). -/
def Epoch.add (self : Epoch) : EpOperand → PyRes Epoch
  -- return Epoch(self._jde + float(b))
  | .num b => Epoch.init (.number (self.jde + b))
  | _ => .error .typeError

/-- Result of `__sub__`: an `Epoch` (number operand) or a `float` (Epoch operand). -/
inductive SubRes where
  | epoch (e : Epoch)
  | days (x : Num)

/-- `Epoch.__sub__(self, b)` (Epoch.py:1943-1948). -/
def Epoch.sub (self : Epoch) : EpOperand → PyRes SubRes
  -- return Epoch(self._jde - b)
  | .num b => match Epoch.init (.number (self.jde - b)) with
    | .error err => .error err
    | .ok e => .ok (.epoch e)
  -- return float(self._jde - b._jde)
  | .epoch b => .ok (.days (self.jde - b.jde))
  | .other => .error .typeError

/-- `Epoch.__iadd__(self, b)`: `self = self + b; return self` (the name is rebound to a new object). -/
def Epoch.iadd (self : Epoch) : EpOperand → PyRes Epoch
  | .num b => Epoch.add self (.num b)
  | _ => .error .typeError

/-- `Epoch.__isub__(self, b)`: `self = self - b; return self`. -/
def Epoch.isub (self : Epoch) : EpOperand → PyRes Epoch
  | .num b => match Epoch.sub self (.num b) with
    | .ok (.epoch e) => .ok e
    | .ok (.days _) => .error .other
    | .error err => .error err
  | _ => .error .typeError

/-- `Epoch.__radd__(self, b)`: `return self.__add__(b)`. -/
def Epoch.radd (self : Epoch) : EpOperand → PyRes Epoch
  | .num b => Epoch.add self (.num b)
  | _ => .error .typeError

/-- `Epoch.__int__`: `int(self._jde)`. -/
def Epoch.toInt (self : Epoch) : Int := ptrunc self.jde
/-- `Epoch.__float__`: `float(self._jde)`. -/
def Epoch.toFloat (self : Epoch) : Num := self.jde
/-- `Epoch.__hash__`: `float(self).__hash__()`; CPython's float hash is a parameter (opaque). -/
def Epoch.hash (floatHash : Num → Int) (self : Epoch) : Int := floatHash (Epoch.toFloat self)

/-- `Epoch.__eq__(self, b)` (Epoch.py:2066-2071), `TOL = 1e-10`. -/
def Epoch.eq (self : Epoch) : EpOperand → PyRes Bool
  -- return abs(self._jde - float(b)) < TOL
  | .num b => .ok (plt (pabs (self.jde - b)) 1e-10)
  -- return abs(self._jde - b._jde) < TOL
  | .epoch b => .ok (plt (pabs (self.jde - b.jde)) 1e-10)
  | .other => .error .typeError

/-- `Epoch.__ne__`: `return not self.__eq__(b)`. -/
def Epoch.ne (self : Epoch) (b : EpOperand) : PyRes Bool :=
  match Epoch.eq self b with
  | .ok r => .ok (!r)
  | .error err => .error err

/-- `Epoch.__lt__(self, b)` (Epoch.py:2109-2114). -/
def Epoch.lt (self : Epoch) : EpOperand → PyRes Bool
  | .num b => .ok (plt self.jde b)
  | .epoch b => .ok (plt self.jde b.jde)
  | .other => .error .typeError

/-- `Epoch.__ge__`: `return not self.__lt__(b)`. -/
def Epoch.ge (self : Epoch) (b : EpOperand) : PyRes Bool :=
  match Epoch.lt self b with
  | .ok r => .ok (!r)
  | .error err => .error err

/-- `Epoch.__gt__(self, b)` (Epoch.py:2148-2153). -/
def Epoch.gt (self : Epoch) : EpOperand → PyRes Bool
  | .num b => .ok (plt b self.jde)
  | .epoch b => .ok (plt b.jde self.jde)
  | .other => .error .typeError

/-- `Epoch.__le__`: `return not self.__gt__(b)`. -/
def Epoch.le (self : Epoch) (b : EpOperand) : PyRes Bool :=
  match Epoch.gt self b with
  | .ok r => .ok (!r)
  | .error err => .error err

end Pymeeus.Gen@K@
