--! kinds: R F
/-
Model of the precession functions of pymeeus/Coordinates.py (property C06): `mean_obliquity`,
`precession_equatorial`, `precession_ecliptical`, `precession_newcomb`, `p_motion_equa2eclip`,
`motion_in_space`, `orbital_equinox2equinox`.  Hand-written from the source, tied to it by the
bit-exact correspondence run of the binary64 instantiation.

Angles are their `_deg` value, Epochs their `_jde` (see templates/Coords.lean).
`epoch - JDE2000` is `float(self._jde - 2451545.0)` (Epoch.__sub__, JDE2000 = Epoch(2000, 1, 1.5)).
-/
import Pymeeus.Gen.@K@.Coords
namespace Pymeeus.Gen@K@
namespace Coords
open Pymeeus Pymeeus.P@K@

/-- `mean_obliquity(epoch)` (Coordinates.py:235), the Laskar polynomial. -/
def mean_obliquity (jde : Num) : Num :=
  -- u = (t.jde() - 2451545.0) / 3652500.0
  let u := (jde - 2451545.0) / 3652500.0
  -- epsilon0 = Angle(23, 26, 21.448)      (dms2deg: reduce_deg(sign * (de + mi / 60.0 + se / 3600.0)))
  let epsilon0 : Num := a_reduce (1.0 * (23.0 + 26.0 / 60.0 + 21.448 / 3600.0))
  let delta := u * (-4680.93 + u * (-1.55 + u * (1999.25 + u * (-51.38 + u * (-249.67
      + u * (-39.05 + u * (7.12 + u * (27.87 + u * (5.79 + u * 2.45)))))))))
  -- delta = Angle(0, 0, delta); epsilon0 += delta
  a_add epsilon0 (a_of_sec delta)

/-- The common tail of `precession_equatorial` (Coordinates.py:575-590) and `precession_newcomb`
    (Coordinates.py:810-825), which are the same statements: `zeta`, `z`, `theta` are Angles. -/
def precession_apply (start_ra start_dec zeta z theta : Num) : PyRes (Num × Num) := do
  -- a = cos(start_dec.rad()) * sin(start_ra.rad() + zeta.rad())
  let a := pcos (a_rad start_dec) * psin (a_rad start_ra + a_rad zeta)
  -- b = cos(theta.rad()) * cos(start_dec.rad()) * cos(start_ra.rad() + zeta.rad()) - sin(theta.rad()) * sin(start_dec.rad())
  let b := pcos (a_rad theta) * pcos (a_rad start_dec) * pcos (a_rad start_ra + a_rad zeta)
            - psin (a_rad theta) * psin (a_rad start_dec)
  -- c = sin(theta.rad()) * cos(start_dec.rad()) * cos(start_ra.rad() + zeta.rad()) + cos(theta.rad()) * sin(start_dec.rad())
  let c := psin (a_rad theta) * pcos (a_rad start_dec) * pcos (a_rad start_ra + a_rad zeta)
            + pcos (a_rad theta) * psin (a_rad start_dec)
  -- final_ra = atan2(a, b) + z.rad()
  let final_ra := patan2 a b + a_rad z
  -- final_dec = atan2(c, sqrt(a * a + b * b))
  let final_dec := patan2 c (psqrt (a * a + b * b))
  -- final_ra = Angle(final_ra, radians=True); final_dec = Angle(final_dec, radians=True)
  pure (a_of_rad final_ra, a_of_rad final_dec)

/-- `zeta`, `z`, `theta` (arcseconds) of `precession_equatorial` (Coordinates.py:558-570). -/
def fk5_zeta (tt t : Num) : Num :=
  t * ((2306.2181 + tt * (1.39656 - 0.000139 * tt)) + t * ((0.30188 - 0.000344 * tt) + 0.017998 * t))
def fk5_z (tt t : Num) : Num :=
  t * ((2306.2181 + tt * (1.39656 - 0.000139 * tt)) + t * ((1.09468 + 0.000066 * tt) + 0.018203 * t))
def fk5_theta (tt t : Num) : Num :=
  t * (2004.3109 + tt * (-0.85330 - 0.000217 * tt) + t * (-(0.42665 + 0.000217 * tt) - 0.041833 * t))

/-- `precession_equatorial(start_epoch, final_epoch, start_ra, start_dec, p_motion_ra, p_motion_dec)`
    (Coordinates.py:492); the proper motions are Angles (degrees per year). -/
def precession_equatorial (start_epoch final_epoch start_ra start_dec p_motion_ra p_motion_dec : Num) :
    PyRes (Num × Num) :=
  -- tt = (start_epoch - JDE2000) / 36525.0; t = (final_epoch - start_epoch) / 36525.0
  let tt := (start_epoch - 2451545.0) / 36525.0
  let t := (final_epoch - start_epoch) / 36525.0
  -- start_ra += p_motion_ra * t * 100.0; start_dec += p_motion_dec * t * 100.0
  let start_ra := a_add start_ra (a_mul (a_mul p_motion_ra t) 100.0)
  let start_dec := a_add start_dec (a_mul (a_mul p_motion_dec t) 100.0)
  -- zeta = Angle(0, 0, zeta); z = Angle(0, 0, z); theta = Angle(0, 0, theta)
  precession_apply start_ra start_dec (a_of_sec (fk5_zeta tt t)) (a_of_sec (fk5_z tt t))
    (a_of_sec (fk5_theta tt t))

/-- `zeta`, `z`, `theta` (arcseconds) of `precession_newcomb` (Coordinates.py:803-805). -/
def newcomb_zeta (tt t : Num) : Num := t * (2304.25 + 1.396 * tt + t * (0.302 + 0.018 * t))
def newcomb_z (tt t : Num) : Num := newcomb_zeta tt t + t * t * (0.791 + 0.001 * t)
def newcomb_theta (tt t : Num) : Num := t * (2004.682 - 0.853 * tt - t * (0.426 + 0.042 * t))

/-- `precession_newcomb(...)` (Coordinates.py:748, after fix 34dd87f). -/
def precession_newcomb (start_epoch final_epoch start_ra start_dec p_motion_ra p_motion_dec : Num) :
    PyRes (Num × Num) :=
  -- tt = (start_epoch.jde() - 2415020.3135) / 36524.2199; t = (final_epoch - start_epoch) / 36524.2199
  let tt := (start_epoch - 2415020.3135) / 36524.2199
  let t := (final_epoch - start_epoch) / 36524.2199
  let start_ra := a_add start_ra (a_mul (a_mul p_motion_ra t) 100.0)
  let start_dec := a_add start_dec (a_mul (a_mul p_motion_dec t) 100.0)
  precession_apply start_ra start_dec (a_of_sec (newcomb_zeta tt t)) (a_of_sec (newcomb_z tt t))
    (a_of_sec (newcomb_theta tt t))

/-- `eta`, `pie`, `p` (arcseconds) of `precession_ecliptical` and `orbital_equinox2equinox`
    (Coordinates.py:656-667 and 2713-2724, the same expressions). -/
def ecl_eta (tt t : Num) : Num :=
  t * ((47.0029 + tt * (-0.06603 + 0.000598 * tt)) + t * ((-0.03302 + 0.000598 * tt) + 0.00006 * t))
def ecl_pie (tt t : Num) : Num :=
  tt * (3289.4789 + 0.60622 * tt) + t * (-(869.8089 + 0.50491 * tt) + 0.03536 * t)
def ecl_p (tt t : Num) : Num :=
  t * (5029.0966 + tt * (2.22226 - 0.000042 * tt) + t * (1.11113 - 0.000042 * tt - 0.000006 * t))

/-- `precession_ecliptical(...)` (Coordinates.py:593). -/
def precession_ecliptical (start_epoch final_epoch start_lon start_lat p_motion_lon p_motion_lat : Num) :
    PyRes (Num × Num) := do
  let tt := (start_epoch - 2451545.0) / 36525.0
  let t := (final_epoch - start_epoch) / 36525.0
  -- start_lon += p_motion_lon * t * 100.0; start_lat += p_motion_lat * t * 100.0
  let start_lon := a_add start_lon (a_mul (a_mul p_motion_lon t) 100.0)
  let start_lat := a_add start_lat (a_mul (a_mul p_motion_lat t) 100.0)
  -- eta = Angle(0, 0, eta); pie = Angle(0, 0, pie); p = Angle(0, 0, p); pie += 174.876384
  let eta := a_of_sec (ecl_eta tt t)
  let pie := a_of_sec (ecl_pie tt t)
  let p := a_of_sec (ecl_p tt t)
  let pie := a_add pie 174.876384
  -- a = (cos(eta.rad()) * cos(start_lat.rad()) * sin(pie.rad() - start_lon.rad()) - sin(eta.rad()) * sin(start_lat.rad()))
  let a := pcos (a_rad eta) * pcos (a_rad start_lat) * psin (a_rad pie - a_rad start_lon)
            - psin (a_rad eta) * psin (a_rad start_lat)
  -- b = cos(start_lat.rad()) * cos(pie.rad() - start_lon.rad())
  let b := pcos (a_rad start_lat) * pcos (a_rad pie - a_rad start_lon)
  -- c = cos(eta.rad()) * sin(start_lat.rad()) + sin(eta.rad()) * cos(start_lat.rad()) * sin(pie.rad() - start_lon.rad())
  let c := pcos (a_rad eta) * psin (a_rad start_lat)
            + psin (a_rad eta) * pcos (a_rad start_lat) * psin (a_rad pie - a_rad start_lon)
  -- final_lon = p.rad() + pie.rad() - atan2(a, b)
  let final_lon := a_rad p + a_rad pie - patan2 a b
  -- final_lat = atan2(c, sqrt(a * a + b * b))
  let final_lat := patan2 c (psqrt (a * a + b * b))
  pure (a_of_rad final_lon, a_of_rad final_lat)

/-- `p_motion_equa2eclip(p_motion_ra, p_motion_dec, ra, dec, lat, epsilon)` (Coordinates.py:689);
    returns two floats (radians per year). -/
def p_motion_equa2eclip (p_motion_ra p_motion_dec ra dec lat epsilon : Num) : PyRes (Num × Num) := do
  let pm_ra := a_rad p_motion_ra
  let pm_dec := a_rad p_motion_dec
  let s_eps := psin (a_rad epsilon)
  let c_eps := pcos (a_rad epsilon)
  let s_ra := psin (a_rad ra)
  let c_ra := pcos (a_rad ra)
  let s_dec := psin (a_rad dec)
  let c_dec := pcos (a_rad dec)
  let c_lat := pcos (a_rad lat)
  let se_ca := s_eps * c_ra
  let se_sd_sa := s_eps * s_dec * s_ra
  let pa_cd := pm_ra * c_dec
  let ce_cd := c_eps * c_dec
  let cl2 := c_lat * c_lat
  -- p_motion_lon = (pm_dec * se_ca + pa_cd * (ce_cd + se_sd_sa)) / cl2
  let p_motion_lon ← m_div (pm_dec * se_ca + pa_cd * (ce_cd + se_sd_sa)) cl2
  -- p_motion_lat = (pm_dec * (ce_cd + se_sd_sa) - pa_cd * se_ca) / c_lat
  let p_motion_lat ← m_div (pm_dec * (ce_cd + se_sd_sa) - pa_cd * se_ca) c_lat
  pure (p_motion_lon, p_motion_lat)

/-- `motion_in_space(start_ra, start_dec, distance, velocity, p_motion_ra, p_motion_dec, time)`
    (Coordinates.py:828) with float `distance`, `velocity`, `time` and Angle proper motions. -/
def motion_in_space (start_ra start_dec distance velocity p_motion_ra p_motion_dec time : Num) :
    PyRes (Num × Num) := do
  -- dr = velocity / 977792.0
  let dr := velocity / 977792.0
  let x := distance * pcos (a_rad start_dec) * pcos (a_rad start_ra)
  let y := distance * pcos (a_rad start_dec) * psin (a_rad start_ra)
  let z := distance * psin (a_rad start_dec)
  -- dx = ((x / distance) * dr - z * p_motion_dec.rad() * cos(start_ra.rad()) - y * p_motion_ra.rad())
  let xd ← m_div x distance
  let dx := xd * dr - z * a_rad p_motion_dec * pcos (a_rad start_ra) - y * a_rad p_motion_ra
  -- dy = ((y / distance) * dr - z * p_motion_dec.rad() * sin(start_ra.rad()) + x * p_motion_ra.rad())
  let yd ← m_div y distance
  let dy := yd * dr - z * a_rad p_motion_dec * psin (a_rad start_ra) + x * a_rad p_motion_ra
  -- dz = ((z / distance) * dr + distance * p_motion_dec.rad() * cos(start_dec.rad()))
  let zd ← m_div z distance
  let dz := zd * dr + distance * a_rad p_motion_dec * pcos (a_rad start_dec)
  let xp := x + time * dx
  let yp := y + time * dy
  let zp := z + time * dz
  -- final_ra = atan2(yp, xp); final_dec = atan(zp / sqrt(xp * xp + yp * yp))
  let final_ra := patan2 yp xp
  let q ← m_div zp (psqrt (xp * xp + yp * yp))
  let final_dec := patan q
  pure (a_of_rad final_ra, a_of_rad final_dec)

/-- `orbital_equinox2equinox(epoch0, epoch, i0, arg0, lon0)` (Coordinates.py:2666). -/
def orbital_equinox2equinox (epoch0 epoch i0 arg0 lon0 : Num) : PyRes (Num × Num × Num) := do
  let tt := (epoch0 - 2451545.0) / 36525.0
  let t := (epoch - epoch0) / 36525.0
  -- eta = Angle(0, 0, eta); pie = Angle(0, 0, pie); pie += 174.876384; p = Angle(0, 0, p)
  let eta := a_of_sec (ecl_eta tt t)
  let pie := a_of_sec (ecl_pie tt t)
  let pie := a_add pie 174.876384
  let p := a_of_sec (ecl_p tt t)
  let i0r := a_rad i0
  let etar := a_rad eta
  let lon0r := a_rad lon0
  let pir := a_rad pie
  -- a = sin(i0r) * sin(lon0r - pir); b = -sin(etar) * cos(i0r) + cos(etar) * sin(i0r) * cos(lon0r - pir)
  let a := psin i0r * psin (lon0r - pir)
  let b := -psin etar * pcos i0r + pcos etar * psin i0r * pcos (lon0r - pir)
  -- c = cos(i0r) * cos(etar) + sin(i0r) * sin(etar) * cos(lon0r - pir)
  let c := pcos i0r * pcos etar + psin i0r * psin etar * pcos (lon0r - pir)
  -- i1 = atan2(sqrt(a*a + b*b), c); i1 = Angle(i1, radians=True)
  let i1 := a_of_rad (patan2 (psqrt (a * a + b * b)) c)
  -- omegapsi = atan2(a, b); omegapsi = Angle(omegapsi, radians=True); lon1 = omegapsi + pie + p
  let omegapsi := a_of_rad (patan2 a b)
  let lon1 := a_add (a_add omegapsi pie) p
  -- domega = atan2(-sin(etar) * sin(lon0r - pir), sin(i0r) * cos(etar) - cos(i0r) * sin(etar) * cos(lon0r - pir))
  let domega := patan2 (-psin etar * psin (lon0r - pir))
                  (psin i0r * pcos etar - pcos i0r * psin etar * pcos (lon0r - pir))
  -- domega = Angle(domega, radians=True); arg1 = arg0 + domega
  let arg1 := a_add arg0 (a_of_rad domega)
  pure (i1, arg1, lon1)

end Coords
end Pymeeus.Gen@K@
