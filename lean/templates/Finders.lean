--! kinds: R F
/-
Generic evaluator of the planetary event finders (property C13): gives the generated records of
`Pymeeus/Gen/FinderData.lean` (written by tools/gen_finders.py from the current source of
pymeeus/{Mercury,...,Neptune,Earth}.py) their meaning.  Hand-written, one text, instantiated at
  Gen/R/Finders.lean  (Num = ℝ     : the theorems of Props/C13.lean)
  Gen/F/Finders.lean  (Num = Float : compared bit for bit with CPython on every finder)
Each definition follows the common Python text of the finders statement by statement.

Composition with the calendar models of the other templates (nothing of the calendar is re-modelled here):
  `epoch.year()`      templates/EpochCal.lean `year` (+ EpochCore `get_date`): GenF.year in binary64; in the
                      real-number instantiation the query `_jde` is a rational (every binary64 is one) and the
                      year is GenQ.year, the exact instantiation of the same text, cast to ℝ;
  `Epoch(to_return)`  templates/EpochOps.lean `Epoch.init (.number x)`, instantiated at ℝ and at Float.
-/
import Pymeeus.Pre@K@
import Pymeeus.Gen.FinderData
import Pymeeus.Gen.@K@.EpochOps
--@only F
import Pymeeus.Gen.F.EpochCal
--@end
--@only R
import Pymeeus.Gen.Q.EpochCal
--@end
namespace Pymeeus.Gen@K@
open Pymeeus Pymeeus.P@K@ Pymeeus.Finders

--@only R
/-- A decimal literal of the source, at its decimal value. -/
def ofDec (d : Dec) : Num := ((d.toRat : ℚ) : ℝ)

/-- Python `round(x)` (no ndigits) on a real: nearest integer, ties to even. -/
def kround (x : ℝ) : Int :=
  let f : Int := ⌊x⌋
  let r := x - f
  if r < 1/2 then f else if 1/2 < r then f + 1 else if f % 2 = 0 then f else f + 1
--@end
--@only F
/-- A decimal literal of the source: the correctly rounded binary64 value (as CPython's parser). -/
def ofDec (d : Dec) : Num := PF.ofRat d.toRat

/-- Python `round(x)`: CPython `float.__round__` (half to even). -/
def kround (x : Float) : Int := pround x
--@end

/-- `Angle.fnd_reduce_deg(deg)` (Angle.py:89), what `Angle(x)` stores for a float `x`. -/
def fnd_reduce_deg (deg : Num) : Num :=
  -- if abs(deg) >= 360.0:
  if ple 360.0 (pabs deg) then
    -- sign = 1.0 if deg >= 0 else -1.0
    let sign : Num := if ple 0 deg then 1.0 else -1.0
    -- frac = abs(deg) % 1
    let frac := pmod (pabs deg) 1
    -- deg = int(abs(deg)) % 360
    let d : Int := imod (ptrunc (pabs deg)) 360
    -- deg = sign * (deg + frac)
    sign * (ofInt d + frac)
  else deg

/-- `Angle.fnd_to_positive()` (Angle.py:559) on the stored degrees. -/
def fnd_to_positive (deg : Num) : Num :=
  -- if self._deg < 0: self._deg = 360.0 - abs(self._deg); if self._deg >= 360.0: self._deg = 0.0
  if plt deg 0 then
    let d := 360.0 - pabs deg
    if ple 360.0 d then 0.0 else d
  else deg

def evalArg (m : Num) (aux : List Num) : TrigArg → Num
  | .m => m
  | .jm j => ofDec j * m
  | .aux i => aux.getD i 0

/-- Value of an expression tree; `x` is the polynomial variable, `m` the mean anomaly (radians),
    `aux` the auxiliary angles (radians).  Same operation order as the Python expression. -/
def evalE (x m : Num) (aux : List Num) : FExpr → Num
  | .lit c => ofDec c
  | .x => x
  | .sin a => psin (evalArg m aux a)
  | .cos a => pcos (evalArg m aux a)
  | .neg a => -(evalE x m aux a)
  | .add a b => evalE x m aux a + evalE x m aux b
  | .sub a b => evalE x m aux a - evalE x m aux b
  | .mul a b => evalE x m aux a * evalE x m aux b

/-! ### Meeus ch. 36 periodic-term finders -/

/-- `k = round((365.2425 * y + 1721060.0 - a) / b)` -/
def finder_k (r : Finder) (y : Num) : Int :=
  kround ((ofDec r.yc * y + ofDec r.y0 - ofDec r.A) / ofDec r.B)

/-- `jde0 = a + k * b` -/
def finder_jde0 (r : Finder) (k : Int) : Num := ofDec r.A + ofInt k * ofDec r.B

/-- `m = m0 + k * m1; m = Angle(m).fnd_to_positive(); m = m.rad()` -/
def finder_m (r : Finder) (k : Int) : Num :=
  pradians (fnd_to_positive (fnd_reduce_deg (ofDec r.M0 + ofInt k * ofDec r.M1)))

/-- `t = (jde0 - 2451545.0) / 36525.0` -/
def finder_t (r : Finder) (jde0 : Num) : Num := (jde0 - ofDec r.tj) / ofDec r.tc

/-- `aa = 82.74 + 40.76 * t; aa = Angle(aa).rad()` … -/
def finder_aux (r : Finder) (t : Num) : List Num :=
  r.aux.map fun c => pradians (fnd_reduce_deg (ofDec c.1 + ofDec c.2 * t))

/-- `corr = (...)` for the period count `k`. -/
def finder_corr (r : Finder) (k : Int) : Num :=
  let jde0 := finder_jde0 r k
  let t := finder_t r jde0
  evalE t (finder_m r k) (finder_aux r t) r.corr

/-- `to_return = jde0 + corr` for the period count `k`. -/
def finder_result (r : Finder) (k : Int) : Num := finder_jde0 r k + finder_corr r k

/-- `elon = (...); elon = Angle(elon).fnd_to_positive()` for the period count `k` (degrees). -/
def finder_elon (r : Finder) (k : Int) : Option Num :=
  match r.elon with
  | none => none
  | some e =>
    let jde0 := finder_jde0 r k
    let t := finder_t r jde0
    some (fnd_to_positive (fnd_reduce_deg (evalE t (finder_m r k) (finder_aux r t) e)))

/-- The finder as a function of `y = epoch.year()`: the range check, then `jde0 + corr`
    (the argument of the final `Epoch(...)`). -/
def finder_raw (r : Finder) (y : Num) : PyRes Num :=
  -- if y < -2000.0 or y > 4000.0: raise ValueError
  if plt y (ofDec r.ylo) || plt (ofDec r.yhi) y then .error .valueError
  else .ok (finder_result r (finder_k r y))

/-! ### perihelion_aphelion: the first approximation -/

/-- `k = C * (epoch.year() - Y0); k = round(k)` or `round(k + 0.5) - 0.5`.  The result is an `int`
    for perihelion and a `float` for aphelion; both are returned as `Num` (the conversion of a
    small int is exact). -/
def pa_k (r : PAFinder) (y : Num) (perihelion : Bool) : Num :=
  let k := ofDec r.C * (y - ofDec r.Y0)
  if perihelion then ofInt (kround k) else ofInt (kround (k + ofDec r.half)) - ofDec r.half

/-- `jde = J0 + k * (P + k * Q)` (+ Earth's periodic terms). -/
def pa_jde (r : PAFinder) (k : Num) (perihelion : Bool) : Num :=
  let jde := ofDec r.J0 + k * (ofDec r.P + k * ofDec r.Q)
  -- a1 = Angle(328.41 + 132.788585 * k) ... ; sin(a1.rad())
  let aux := r.aux.map fun c => pradians (fnd_reduce_deg (ofDec c.1 + ofDec c.2 * k))
  match (if perihelion then r.corrPeri else r.corrAph) with
  | none => jde
  | some e => jde + evalE k 0 aux e      -- jde += corr

/-! ### The whole finder: `epoch.year()`, the finder, `Epoch(to_return)` -/

/-- The finder from `y = epoch.year()` to the returned objects: `Epoch(jde0 + corr)` (the constructor of
    templates/EpochOps.lean: it stores the number, reads it back with `get_full_date` and recomputes the JDE)
    and, for the elongation finders, the angle in degrees. -/
def finder_epoch (r : Finder) (y : Num) : PyRes (Epoch × Option Num) :=
  match finder_raw r y with
  | .error e => .error e
  | .ok j =>
    -- return Epoch(to_return)[, elon]
    match Epoch.init (.number j) with
    | .error e => .error e
    | .ok ep => .ok (ep, finder_elon r (finder_k r y))

--@only F
/-- The whole finder from the `_jde` of the query epoch: `y = epoch.year()` is the first statement after the
    type guard, so an error of `year()` propagates; then the finder. -/
def finder_from_jde (r : Finder) (jde : Num) : PyRes (Epoch × Option Num) :=
  match year jde with
  | .error e => .error e
  | .ok y => finder_epoch r y

/-- The first approximation of `perihelion_aphelion` from the `_jde` of the query epoch. -/
def pa_from_jde (r : PAFinder) (jde : Num) (perihelion : Bool) : PyRes Num :=
  match year jde with
  | .error e => .error e
  | .ok y => .ok (pa_jde r (pa_k r y perihelion) perihelion)
--@end
--@only R
/-- The whole finder from the `_jde` of the query epoch, a rational number.  `Epoch.year()` is evaluated in
    the exact rational instantiation of templates/EpochCal.lean (GenQ.year; its theorems are in Props/C16.lean),
    the rest over ℝ. -/
def finder_from_jde (r : Finder) (jde : ℚ) : PyRes (Epoch × Option ℝ) :=
  match GenQ.year jde with
  | .error e => .error e
  | .ok y => finder_epoch r ((y : ℚ) : ℝ)

/-- The first approximation of `perihelion_aphelion` from the `_jde` of the query epoch. -/
def pa_from_jde (r : PAFinder) (jde : ℚ) (perihelion : Bool) : PyRes ℝ :=
  match GenQ.year jde with
  | .error e => .error e
  | .ok y => .ok (pa_jde r (pa_k r ((y : ℚ) : ℝ) perihelion) perihelion)
--@end

end Pymeeus.Gen@K@
