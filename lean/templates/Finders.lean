--! kinds: R F
/-
Generic evaluator of the planetary event finders (property C13): gives the generated records of
`Pymeeus/Gen/FinderData.lean` (written by tools/gen_finders.py from the current source of
pymeeus/{Mercury,...,Neptune,Earth}.py) their meaning.  Hand-written, one text, instantiated at
  Gen/R/Finders.lean  (Num = ℝ     : the theorems of Props/C13.lean)
  Gen/F/Finders.lean  (Num = Float : compared bit for bit with CPython on every finder)
Each definition follows the common Python text of the finders statement by statement.
-/
import Pymeeus.Pre@K@
import Pymeeus.Gen.FinderData
--@only F
import Pymeeus.Gen.F.EpochCore
--@end
namespace Pymeeus.Gen@K@
open Pymeeus Pymeeus.P@K@ Pymeeus.Finders

--@only R
/-- A decimal literal of the source, at its decimal value. -/
def ofDec (d : Dec) : Num := ((d.toRat : ℚ) : ℝ)

/-- Python `round(x)` (no ndigits) on a real: nearest integer, ties to even. -/
def kround (x : ℝ) : Int :=
  let f : Int := ⌊x⌋
  let r := x - f
  if r < 1/2 then f else if 1/2 < r then f + 1 else if f % 2 = 0 then f else f + 1
--@end
--@only F
/-- A decimal literal of the source: the correctly rounded binary64 value (as CPython's parser). -/
def ofDec (d : Dec) : Num := PF.ofRat d.toRat

/-- Python `round(x)`: CPython `float.__round__` (half to even). -/
def kround (x : Float) : Int := pround x
--@end

/-- `Angle.fnd_reduce_deg(deg)` (Angle.py:89), what `Angle(x)` stores for a float `x`. -/
def fnd_reduce_deg (deg : Num) : Num :=
  -- if abs(deg) >= 360.0:
  if ple 360.0 (pabs deg) then
    -- sign = 1.0 if deg >= 0 else -1.0
    let sign : Num := if ple 0 deg then 1.0 else -1.0
    -- frac = abs(deg) % 1
    let frac := pmod (pabs deg) 1
    -- deg = int(abs(deg)) % 360
    let d : Int := imod (ptrunc (pabs deg)) 360
    -- deg = sign * (deg + frac)
    sign * (ofInt d + frac)
  else deg

/-- `Angle.fnd_to_positive()` (Angle.py:559) on the stored degrees. -/
def fnd_to_positive (deg : Num) : Num :=
  -- if self._deg < 0: self._deg = 360.0 - abs(self._deg); if self._deg >= 360.0: self._deg = 0.0
  if plt deg 0 then
    let d := 360.0 - pabs deg
    if ple 360.0 d then 0.0 else d
  else deg

def evalArg (m : Num) (aux : List Num) : TrigArg → Num
  | .m => m
  | .jm j => ofDec j * m
  | .aux i => aux.getD i 0

/-- Value of an expression tree; `x` is the polynomial variable, `m` the mean anomaly (radians),
    `aux` the auxiliary angles (radians).  Same operation order as the Python expression. -/
def evalE (x m : Num) (aux : List Num) : FExpr → Num
  | .lit c => ofDec c
  | .x => x
  | .sin a => psin (evalArg m aux a)
  | .cos a => pcos (evalArg m aux a)
  | .neg a => -(evalE x m aux a)
  | .add a b => evalE x m aux a + evalE x m aux b
  | .sub a b => evalE x m aux a - evalE x m aux b
  | .mul a b => evalE x m aux a * evalE x m aux b

/-! ### Meeus ch. 36 periodic-term finders -/

/-- `k = round((365.2425 * y + 1721060.0 - a) / b)` -/
def finder_k (r : Finder) (y : Num) : Int :=
  kround ((ofDec r.yc * y + ofDec r.y0 - ofDec r.A) / ofDec r.B)

/-- `jde0 = a + k * b` -/
def finder_jde0 (r : Finder) (k : Int) : Num := ofDec r.A + ofInt k * ofDec r.B

/-- `m = m0 + k * m1; m = Angle(m).fnd_to_positive(); m = m.rad()` -/
def finder_m (r : Finder) (k : Int) : Num :=
  pradians (fnd_to_positive (fnd_reduce_deg (ofDec r.M0 + ofInt k * ofDec r.M1)))

/-- `t = (jde0 - 2451545.0) / 36525.0` -/
def finder_t (r : Finder) (jde0 : Num) : Num := (jde0 - ofDec r.tj) / ofDec r.tc

/-- `aa = 82.74 + 40.76 * t; aa = Angle(aa).rad()` … -/
def finder_aux (r : Finder) (t : Num) : List Num :=
  r.aux.map fun c => pradians (fnd_reduce_deg (ofDec c.1 + ofDec c.2 * t))

/-- `corr = (...)` for the period count `k`. -/
def finder_corr (r : Finder) (k : Int) : Num :=
  let jde0 := finder_jde0 r k
  let t := finder_t r jde0
  evalE t (finder_m r k) (finder_aux r t) r.corr

/-- `to_return = jde0 + corr` for the period count `k`. -/
def finder_result (r : Finder) (k : Int) : Num := finder_jde0 r k + finder_corr r k

/-- `elon = (...); elon = Angle(elon).fnd_to_positive()` for the period count `k` (degrees). -/
def finder_elon (r : Finder) (k : Int) : Option Num :=
  match r.elon with
  | none => none
  | some e =>
    let jde0 := finder_jde0 r k
    let t := finder_t r jde0
    some (fnd_to_positive (fnd_reduce_deg (evalE t (finder_m r k) (finder_aux r t) e)))

/-- The finder as a function of `y = epoch.year()`: the range check, then `jde0 + corr`
    (the argument of the final `Epoch(...)`). -/
def finder_raw (r : Finder) (y : Num) : PyRes Num :=
  -- if y < -2000.0 or y > 4000.0: raise ValueError
  if plt y (ofDec r.ylo) || plt (ofDec r.yhi) y then .error .valueError
  else .ok (finder_result r (finder_k r y))

/-! ### perihelion_aphelion: the first approximation -/

/-- `k = C * (epoch.year() - Y0); k = round(k)` or `round(k + 0.5) - 0.5`.  The result is an `int`
    for perihelion and a `float` for aphelion; both are returned as `Num` (the conversion of a
    small int is exact). -/
def pa_k (r : PAFinder) (y : Num) (perihelion : Bool) : Num :=
  let k := ofDec r.C * (y - ofDec r.Y0)
  if perihelion then ofInt (kround k) else ofInt (kround (k + ofDec r.half)) - ofDec r.half

/-- `jde = J0 + k * (P + k * Q)` (+ Earth's periodic terms). -/
def pa_jde (r : PAFinder) (k : Num) (perihelion : Bool) : Num :=
  let jde := ofDec r.J0 + k * (ofDec r.P + k * ofDec r.Q)
  -- a1 = Angle(328.41 + 132.788585 * k) ... ; sin(a1.rad())
  let aux := r.aux.map fun c => pradians (fnd_reduce_deg (ofDec c.1 + ofDec c.2 * k))
  match (if perihelion then r.corrPeri else r.corrAph) with
  | none => jde
  | some e => jde + evalE k 0 aux e      -- jde += corr

--@only F
/-- `Epoch(jde)`: `set` stores `jde`, calls `get_full_date()` and recomputes the JDE from the
    date (Epoch.py:332-376, 1455-1461).  Returns the stored `_jde`. -/
def epoch_of_jde (jde : Num) : PyRes Num :=
  match get_date jde with
  | .error e => .error e
  | .ok (y, m, d) =>
    -- r = d % 1; d = int(d); h = int(r * 24.0); r = r * 24 - h; mi = int(r * 60.0); s = 60.0 * (r * 60.0 - mi)
    let r := pmod d 1
    let di : Int := ptrunc d
    let h : Int := ptrunc (r * 24.0)
    let r := r * 24 - ofInt h
    let mi : Int := ptrunc (r * 60.0)
    let s := 60.0 * (r * 60.0 - ofInt mi)
    -- day += hours / DAY2HOURS + minutes / DAY2MIN + sec / DAY2SEC
    let day := ofInt di + (ofInt h / 24.0 + ofInt mi / 1440.0 + s / 86400.0)
    -- self._jde = self._compute_jde(year, month, day, utc2tt=False)   (... return jde + deltasec / DAY2SEC)
    .ok (compute_jde y m day + 0.0 / 86400.0)

/-- `datetime.date(y, m, d).timetuple().tm_yday` (stub of the standard library, proleptic Gregorian calendar,
    years 1..9999; `ValueError` for a date that does not exist).  Validated by the correspondence run. -/
def tm_yday (y m d : Int) : PyRes Int :=
  let ml : Int := if m = 2 ∧ calendar_isleap y then 29 else maxdays.getD (m - 1).toNat 0
  if y < 1 ∨ 9999 < y ∨ m < 1 ∨ 12 < m ∨ d < 1 ∨ ml < d then .error .valueError
  else
    let before : Int := ((List.range (m - 1).toNat).map fun i =>
      if i = 1 ∧ calendar_isleap y then (29 : Int) else maxdays.getD i 0).foldl (· + ·) 0
    .ok (before + d)

/-- `Epoch.fnd_get_doy(yyyy, mm, dd)` (Epoch.py:752) for int `yyyy`, `mm` and float `dd`. -/
def fnd_get_doy (yyyy mm : Int) (dd : Num) : PyRes Num :=
  -- if dd < 1 or dd >= 32 or mm < 1 or mm > 12: raise ValueError
  if plt dd 1 || ple 32 dd || decide (mm < 1) || decide (mm > 12) then .error .valueError
  else
    -- day = int(dd); frac = dd % 1
    let day : Int := ptrunc dd
    let frac := pmod dd 1
    if yyyy > 1582 then
      -- d = datetime.date(yyyy, mm, day) (ValueError -> ValueError); doy = d.timetuple().tm_yday
      match tm_yday yyyy mm day with
      | .error e => .error e
      | .ok doy => .ok (ofInt doy + frac)        -- float(doy + frac)
    else
      -- leap = Epoch.is_leap(yyyy); maxdays = [...]; if day > maxdays[int(mm) - 1]: raise ValueError
      let leap := is_leap yyyy
      let ml : Int := if mm = 2 then (if leap then 29 else 28) else maxdays.getD (mm - 1).toNat 0
      if day > ml then .error .valueError
      else
        -- k = 1 if leap else 2
        let k : Int := if leap then 1 else 2
        -- doy = (iint((275.0 * mm) / 9.0) - k * iint((mm + 9.0) / 12.0) + day - 30.0)
        let doy : Num := ofInt (pfloor ((275.0 * ofInt mm) / 9.0) - k * pfloor ((ofInt mm + 9.0) / 12.0) + day) - 30.0
        -- if yyyy == 1582 and (mm > 10 or (mm == 10 and day >= 15)): doy -= 10.0
        let doy := if yyyy = 1582 ∧ (mm > 10 ∨ (mm = 10 ∧ day ≥ 15)) then doy - 10.0 else doy
        .ok (doy + frac)

/-- `Epoch.year()` (Epoch.py:1775) of an epoch with the given `_jde`. -/
def epoch_year (jde : Num) : PyRes Num :=
  -- y, m, d = self.get_date(); doy = Epoch.fnd_get_doy(y, m, d)
  match get_date jde with
  | .error e => .error e
  | .ok (y, m, d) =>
    match fnd_get_doy y m d with
    | .error e => .error e
    | .ok doy =>
      -- doy -= 1; days_of_year = 365.0; if self.leap(): days_of_year = 366.0; return y + doy / days_of_year
      let doy := doy - 1
      let days_of_year : Num := if is_leap y then 366.0 else 365.0
      .ok (ofInt y + doy / days_of_year)

/-- The whole finder from `y = epoch.year()`: `Epoch(jde0 + corr).jde()` and, for the elongation
    finders, the angle in degrees. -/
def finder_epoch (r : Finder) (y : Num) : PyRes (Num × Option Num) :=
  match finder_raw r y with
  | .error e => .error e
  | .ok j =>
    match epoch_of_jde j with
    | .error e => .error e
    | .ok je => .ok (je, finder_elon r (finder_k r y))

/-- The whole finder from the query epoch's `_jde`: `epoch.year()` first (an error of `year()` propagates, as in
    Python, where the call is the first statement after the type guard), then the finder. -/
def finder_from_jde (r : Finder) (jde : Num) : PyRes (Num × Option Num) :=
  match epoch_year jde with
  | .error e => .error e
  | .ok y => finder_epoch r y
--@end

end Pymeeus.Gen@K@
