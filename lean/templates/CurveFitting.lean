--! kinds: Q R F
/-
Model of pymeeus/CurveFitting.py (class `CurveFitting`), hand-written from the source and tied
to it by the correspondence check (harness/c17.py).

Instantiations:  Gen/Q/CurveFitting.lean (Num = Rat; theorems of Props/C17.lean),
                 Gen/R/CurveFitting.lean (Num = ℝ; `correlation_coeff` uses `sqrt`),
                 Gen/F/CurveFitting.lean (Num = Float; compared bit for bit with CPython).

Conventions
* a `CurveFitting` object is the record `Fit` (`_x`, `_y`, `_N`, `_P` … `_W`);
* `general_fitting(f0, f1, f2)` takes Python callables; the model takes the already evaluated
  columns `c0 = [f0(x_i)]`, `c1 = [f1(x_i)]`, `c2 = [f2(x_i)]` (`general_fitting_cols`);
* the loops `for i in range(self._N)` over `_x[i]`, `_y[i]` are folds over `zip x y`
  (`set` makes both lists the same length); the eight accumulators are independent, each is its own fold;
* `AttributeError`/`IndexError` are `.other`.
-/
import Pymeeus.Pre@K@
namespace Pymeeus.Gen@K@.CurveFitting
open Pymeeus Pymeeus.P@K@

/-- `base.TOL` -/
def TOL : Num := 1e-10

/-- A `CurveFitting` object after `_compute_parameters`. -/
structure Fit where
  x : List Num
  y : List Num
  N : Int
  P : Num
  Q : Num
  R : Num
  S : Num
  T : Num
  U : Num
  V : Num
  W : Num

/-- One positional argument of `CurveFitting(...)` / `set(...)`. -/
inductive FitArg where
  | num (v : Num)
  | list (l : List Num)
  | fit (o : Fit)
  | other

/-- Python float `a / b`: `ZeroDivisionError` when `b == 0`. -/
def pdiv (a b : Num) : PyRes Num :=
  if peq b 0 then .error .zeroDivisionError else .ok (a / b)

/-- `acc = 0.0; for i in range(N): acc += f(x[i], y[i])` -/
def acc (f : Num → Num → Num) (x y : List Num) : Num :=
  (x.zip y).foldl (fun a p => a + f p.1 p.2) 0.0

/-- `CurveFitting._compute_parameters()` (CurveFitting.py:222). -/
def compute_parameters (x y : List Num) : Fit :=
  { x := x, y := y,
    N := (x.length : Int),                                   -- self._N = len(self._x)
    P := pfsum x,                                            -- self._P = fsum(self._x)
    T := pfsum y,                                            -- self._T = fsum(self._y)
    Q := acc (fun xi _ => xi * xi) x y,                      -- x2 = x*x; self._Q += x2
    R := acc (fun xi _ => xi * xi * xi) x y,                 -- self._R += x2 * x
    S := acc (fun xi _ => (xi * xi) * (xi * xi)) x y,        -- self._S += x2 * x2
    U := acc (fun xi yi => xi * yi) x y,                     -- xy = x*y; self._U += xy
    V := acc (fun xi yi => xi * yi * xi) x y,                -- self._V += xy * x
    W := acc (fun _ yi => yi * yi) x y }                     -- self._W += y*y

/-- the object `set()` leaves when called without arguments (no `_N`, `_P`, …: every fit raises
    `AttributeError`) -/
def empty_fit : Fit := ⟨[], [], 0, 0, 0, 0, 0, 0, 0, 0, 0⟩

/-- tail of `set`: `if len(self._x) > 0: self._compute_parameters()` -/
def finish (x y : List Num) : Fit :=
  if x.length > 0 then compute_parameters x y else empty_fit

def evens : List Num → List Num
  | a :: _ :: l => a :: evens l
  | _ => []
def odds : List Num → List Num
  | _ :: b :: l => b :: odds l
  | _ => []

def FitArg.isNum : FitArg → Bool
  | .num _ => true
  | _ => false
def FitArg.val : FitArg → Num
  | .num v => v
  | _ => 0

/-- `CurveFitting(seq)`: `x = 0, 1, 2, …`. -/
def set1 (seq : List Num) : PyRes Fit :=
  if seq.length < 2 then .error .valueError
  else .ok (finish ((List.range seq.length).map (fun (i : Nat) => ofInt (i : Int))) seq)

/-- `CurveFitting(xlist, ylist)`: the longer list is truncated. -/
def set2 (x y : List Num) : PyRes Fit :=
  let length_min := min x.length y.length
  let x := x.take length_min
  let y := y.take length_min
  if x.length < 2 ∨ y.length < 2 then .error .valueError
  else .ok (finish x y)

/-- `CurveFitting.set(*args)` (CurveFitting.py:128). -/
def set (args : List FitArg) : PyRes Fit :=
  match args with
  | [] => .ok empty_fit
  | [a] =>
    match a with
    | .fit o => .ok (finish o.x o.y)             -- copy: the sums are recomputed
    | .num _ => .error .valueError
    | .list seq => set1 seq
    | .other => .error .typeError
  | [a, b] =>
    if a.isNum || b.isNum then .error .valueError
    else match a, b with
      | .list x, .list y => set2 x y
      | _, _ => .error .typeError
  | [_, _, _] => .error .valueError
  | args =>
    let args := if args.length % 2 != 0 then args.dropLast else args
    if !(args.all FitArg.isNum) then .error .typeError
    else
      let v := args.map FitArg.val
      .ok (finish (evens v) (odds v))

/-- `CurveFitting.linear_fitting()` (CurveFitting.py:330): `y = a*x + b`. -/
def linear_fitting (o : Fit) : PyRes (Num × Num) :=
  if o.x.isEmpty then .error .other else
  let n := ofInt o.N
  let sxy := o.U
  let sx := o.P
  let sy := o.T
  let sx2 := o.Q
  -- d = n * sx2 - sx * sx
  let d := n * sx2 - sx * sx
  -- if abs(d) < TOL: raise ZeroDivisionError
  if plt (pabs d) TOL then .error .zeroDivisionError
  else
    let a := (n * sxy - sx * sy) / d
    let b := (sy * sx2 - sx * sxy) / d
    .ok (a, b)

/-- `CurveFitting.quadratic_fitting()` (CurveFitting.py:377): `y = a*x*x + b*x + c`. -/
def quadratic_fitting (o : Fit) : PyRes (Num × Num × Num) :=
  if o.x.isEmpty then .error .other else
  let n := ofInt o.N
  let p := o.P
  let q := o.Q
  let r := o.R
  let s := o.S
  let t := o.T
  let u := o.U
  let v := o.V
  let q2 := q * q
  -- d = n * q * s + 2.0 * p * q * r - q2 * q - p * p * s - n * r * r
  let d := n * q * s + 2.0 * p * q * r - q2 * q - p * p * s - n * r * r
  if plt (pabs d) TOL then .error .zeroDivisionError
  else
    let a := (n * q * v + p * r * t + p * q * u - q2 * t - p * p * v - n * r * u) / d
    let b := (n * s * u + p * q * v + q * r * t - q2 * u - p * s * t - n * r * v) / d
    let c := (q * s * t + q * r * u + p * r * v - q2 * v - p * s * u - r * r * t) / d
    .ok (a, b, c)

/-- `acc = 0; for i: acc += a_i * b_i` over two evaluated columns -/
def dot (a b : List Num) : Num :=
  (a.zip b).foldl (fun s p => s + p.1 * p.2) 0

/-- `CurveFitting.general_fitting(f0, f1, f2)` (CurveFitting.py:436) on the evaluated columns
    `c0[i] = f0(x_i)`, `c1[i] = f1(x_i)`, `c2[i] = f2(x_i)` and the ordinates `ys`. -/
def general_fitting_cols (c0 c1 c2 ys : List Num) : PyRes (Num × Num × Num) :=
  let m := dot c0 c0      -- m += f0(x) * f0(x)
  let p := dot c0 c1      -- p += f0(x) * f1(x)
  let q := dot c0 c2      -- q += f0(x) * f2(x)
  let r := dot c1 c1      -- r += f1(x) * f1(x)
  let s := dot c1 c2      -- s += f1(x) * f2(x)
  let t := dot c2 c2      -- t += f2(x) * f2(x)
  let u := dot ys c0      -- u += y * f0(x)
  let v := dot ys c1      -- v += y * f1(x)
  let w := dot ys c2      -- w += y * f2(x)
  -- if abs(r) < TOL and abs(t) < TOL and abs(m) >= TOL: return (u / m, 0.0, 0.0)
  if plt (pabs r) TOL && plt (pabs t) TOL && ple TOL (pabs m) then .ok (u / m, 0.0, 0.0)
  -- if abs(t) < TOL and abs(m) >= TOL and abs(r) >= TOL:
  else if plt (pabs t) TOL && ple TOL (pabs m) && ple TOL (pabs r) then
    let d := m * r - p * p
    if plt (pabs d) TOL then .error .zeroDivisionError
    else .ok ((u * r - v * p) / d, (m * v - p * u) / d, 0.0)
  -- if abs(m * r * t) < TOL: raise ZeroDivisionError
  else if plt (pabs (m * r * t)) TOL then .error .zeroDivisionError
  else
    let d := m * r * t + 2.0 * p * q * s - m * s * s - r * q * q - t * p * p
    if plt (pabs d) TOL then .error .zeroDivisionError
    else
      let a := (u * (r * t - s * s) + v * (q * s - p * t) + w * (p * s - q * r)) / d
      let b := (u * (s * q - p * t) + v * (m * t - q * q) + w * (p * q - m * s)) / d
      let c := (u * (p * s - r * q) + v * (p * q - m * s) + w * (m * r - p * p)) / d
      .ok (a, b, c)

/-- `general_fitting` of an object: the columns are the basis functions mapped over `_x`. -/
def general_fitting (o : Fit) (f0 f1 f2 : Num → Num) : PyRes (Num × Num × Num) :=
  general_fitting_cols (o.x.map f0) (o.x.map f1) (o.x.map f2) o.y

--@only R F
/-- `CurveFitting.correlation_coeff()` (CurveFitting.py:295). `math.sqrt` of a negative number is a
    `ValueError`; the division is unguarded in the source. -/
def correlation_coeff (o : Fit) : PyRes Num :=
  if o.x.isEmpty then .error .other else
  let n := ofInt o.N
  let sxy := o.U
  let sx := o.P
  let sy := o.T
  let sx2 := o.Q
  let sy2 := o.W
  let dx := n * sx2 - sx * sx
  let dy := n * sy2 - sy * sy
  if plt dx 0 || plt dy 0 then .error .valueError
  else pdiv (n * sxy - sx * sy) (psqrt dx * psqrt dy)
--@end

end Pymeeus.Gen@K@.CurveFitting
