--! kinds: Q F
/-
Model of pymeeus/Interpolation.py (class `Interpolation`), hand-written from the source and
tied to it by the correspondence check (harness/c12.py).

Instantiations:  Gen/Q/Interpolation.lean (Num = Rat, the ideal reading used by Props/C12.lean)
                 Gen/F/Interpolation.lean (Num = Float, compared bit for bit with CPython).
Each definition follows the Python statement by statement; the Python line is quoted.

Conventions
* an `Interpolation` object is the record `Interp` (`_x`, `_y`, `_table`, `_tol`);
* the `*args` of `set` are values of `PyArg` (number | list of numbers | Interpolation | anything else);
  `Angle` arguments are not modelled (numbers are `int`/`float`, both read as `Num`);
* `IndexError`, `RuntimeError`, `RecursionError` are `.other`.
-/
import Pymeeus.Pre@K@
namespace Pymeeus.Gen@K@.Interpolation
open Pymeeus Pymeeus.P@K@

/-- `base.TOL` -/
def TOL : Num := 1e-10

/-- An `Interpolation` object. -/
structure Interp where
  x : List Num
  y : List Num
  table : List Num
  tol : Num

/-- One positional argument of `Interpolation(...)` / `set(...)`. -/
inductive PyArg where
  | num (v : Num)
  | list (l : List Num)
  | interp (o : Interp)
  | other

/-- Python float `a / b`: `ZeroDivisionError` when `b == 0`. -/
def pdiv (a b : Num) : PyRes Num :=
  if peq b 0 then .error .zeroDivisionError else .ok (a / b)

/-- `min(l)` for a non-empty list (first minimal element; `0` stands for the `ValueError` of `min([])`,
    never reached: `_order_points` is only called with at least two points). -/
def lmin : List Num → Num
  | [] => 0
  | a :: l => l.foldl (fun m v => if plt v m then v else m) a

/-- `max(l)` for a non-empty list. -/
def lmax : List Num → Num
  | [] => 0
  | a :: l => l.foldl (fun m v => if plt m v then v else m) a

/-- `l.index(v)`: position of the first element equal to `v` (`len l` when absent). -/
def index_of (v : Num) : List Num → Nat
  | [] => 0
  | a :: l => if peq a v then 0 else index_of v l + 1

/-- The first loop of `_order_points`: `n` times
    `imin = x.index(min(x)); xnew.append(x[imin]); ynew.append(imin); x[imin] = xmax`.
    Returns the pairs `(xnew[i], ynew[i])`. -/
def order_loop (xmax : Num) : Nat → List Num → List (Num × Nat)
  | 0, _ => []
  | n + 1, x =>
    let imin := index_of (lmin x) x
    (x.getD imin 0, imin) :: order_loop xmax n (x.set imin xmax)

/-- `Interpolation._order_points()` (Interpolation.py:113): selection sort on the abscissae,
    the ordinates follow (`ynew[i] = y[ynew[i]]`). -/
def order_points (x y : List Num) : List Num × List Num :=
  -- xmax = max(x) + 1.0
  let xmax := lmax x + 1.0
  let sel := order_loop xmax x.length x
  (sel.map (·.1), sel.map (fun p => y.getD p.2 0))

/-- `Interpolation._newton_diff(start, end)` (Interpolation.py:332) with `end = start + k`:
    `if abs(end - start) < self._tol: val = self._y[start]`
    `else: val = (nd(start, end-1) - nd(start+1, end)) / (x[start] - x[end])`.
    For `k = 0` the test is `0 < tol`; the caller `compute_table` refuses `tol <= 0` (Python recurses
    without end there). -/
def newton_diff (tol : Num) (x y : List Num) : Nat → Nat → Num
  | s, 0 => y.getD s 0
  | s, k + 1 =>
    if plt (pabs (ofInt ((k : Int) + 1))) tol then y.getD s 0
    else (newton_diff tol x y s k - newton_diff tol x y (s + 1) k) / (x.getD s 0 - x.getD (s + k + 1) 0)

/-- `Interpolation._compute_table()` (Interpolation.py:317): `table[i] = _newton_diff(0, i)`. -/
def compute_table (tol : Num) (x y : List Num) : PyRes (List Num) :=
  if !(plt 0 tol) then .error .other   -- `abs(0) < tol` is never true: unbounded recursion
  else .ok ((List.range x.length).map (fun i => newton_diff tol x y 0 i))

/-- the double loop of `set`: `if abs(self._x[i] - self._x[k]) < self._tol: raise ValueError` -/
def has_dup (tol : Num) : List Num → Bool
  | [] => false
  | a :: l => l.any (fun b => plt (pabs (a - b)) tol) || has_dup tol l

/-- Tail of `set` once `_x`, `_y` are filled: duplicate check, `_order_points`, `_compute_table`. -/
def finish (tol : Num) (x y : List Num) : PyRes Interp :=
  if has_dup tol x then .error .valueError
  else
    let (xo, yo) := order_points x y
    -- if len(self._x) > 0: self._compute_table()
    if xo.length > 0 then
      match compute_table tol xo yo with
      | .error e => .error e
      | .ok t => .ok ⟨xo, yo, t, tol⟩
    else .ok ⟨xo, yo, [], tol⟩

/-- `Interpolation(seq)`: `x = 0, 1, 2, ...`. -/
def set1 (tol : Num) (seq : List Num) : PyRes Interp :=
  if seq.length < 2 then .error .valueError
  else finish tol ((List.range seq.length).map (fun (i : Nat) => ofInt (i : Int))) seq

/-- `Interpolation(xlist, ylist)`: the longer list is truncated. -/
def set2 (tol : Num) (x y : List Num) : PyRes Interp :=
  let length_min := min x.length y.length
  let x := x.take length_min
  let y := y.take length_min
  if x.length < 2 ∨ y.length < 2 then .error .valueError
  else finish tol x y

/-- elements at even / odd positions: `args[2*i]`, `args[2*i+1]` for `i < len(args)/2`. -/
def evens : List Num → List Num
  | a :: _ :: l => a :: evens l
  | _ => []
def odds : List Num → List Num
  | _ :: b :: l => b :: odds l
  | _ => []

def PyArg.isNum : PyArg → Bool
  | .num _ => true
  | _ => false
def PyArg.isList : PyArg → Bool
  | .list _ => true
  | _ => false
def PyArg.val : PyArg → Num
  | .num v => v
  | _ => 0

/-- `Interpolation.set(*args)` (Interpolation.py:153); `tol` is `self._tol` (`TOL` in `__init__`). -/
def set (tol : Num) (args : List PyArg) : PyRes Interp :=
  match args with
  | [] => .ok ⟨[], [], [], tol⟩
  | [a] =>
    match a with
    | .interp o => .ok o                       -- copy constructor (takes the other object's tolerance)
    | .num _ => .error .valueError
    | .list seq => set1 tol seq
    | .other => .error .typeError
  | [a, b] =>
    if a.isNum || b.isNum then .error .valueError
    else match a, b with
      | .list x, .list y => set2 tol x y
      | _, _ => .error .typeError
  | [_, _, _] => .error .valueError
  | args =>
    -- if len(args) % 2 != 0: args = args[:-1]
    let args := if args.length % 2 != 0 then args.dropLast else args
    if !(args.all PyArg.isNum) then .error .typeError
    else
      let v := args.map PyArg.val
      finish tol (evens v) (odds v)

/-- the first loop of `__call__`: `if abs(x - self._x[i]) < self._tol: return self._y[i]` -/
def node_hit (tol x : Num) : List Num → List Num → Option Num
  | xi :: xs, yi :: ys => if plt (pabs (x - xi)) tol then some yi else node_hit tol x xs ys
  | _, _ => none

/-- Horner evaluation of the Newton form, innermost term first:
    `val = table[-1]; for i in range(len(table)-1, 0, -1): val = table[i-1] + (x - self._x[i-1]) * val` -/
def horner (x : Num) : List Num → List Num → Num
  | _, [] => 0
  | _, [t] => t
  | [], t :: _ => t
  | x0 :: xs, t :: ts => t + (x - x0) * horner x xs ts

/-- `Interpolation.__call__(x)` (Interpolation.py:362) for a number `x`. -/
def call (o : Interp) (x : Num) : PyRes Num :=
  match node_hit o.tol x o.x o.y with
  | some v => .ok v
  | none =>
    -- if len(self._table) == 0: raise RuntimeError
    if o.table.isEmpty then .error .other
    else match o.x with
      | [] => .error .other
      | x0 :: xr =>
        -- if x < self._x[0] or x > self._x[-1]: raise ValueError
        if plt x x0 || plt ((x0 :: xr).getLastD 0) x then .error .valueError
        else .ok (horner x o.x o.table)

/-- `s = 1.0; for i in range(k): if i != j: s *= x - self._x[i]` -/
def prod_skip (x : Num) (xs : List Num) (k j : Nat) : Num :=
  (List.range k).foldl (fun s i => if i ≠ j then s * (x - xs.getD i 0) else s) 1.0

/-- `val = 0.0; for j in range(k): val += s_j` -/
def deriv_sum (x : Num) (xs : List Num) (k : Nat) : Num :=
  (List.range k).foldl (fun val j => val + prod_skip x xs k j) 0.0

/-- `Interpolation.derivative(x)` (Interpolation.py:407) for a number `x`. -/
def derivative (o : Interp) (x : Num) : PyRes Num :=
  match o.x with
  | [] => .error .other
  | x0 :: xr =>
    if plt x x0 || plt ((x0 :: xr).getLastD 0) x then .error .valueError
    else if o.x.length = 2 then
      -- return (self._y[1] - self._y[0]) / (self._x[1] - self._x[0])
      pdiv (o.y.getD 1 0 - o.y.getD 0 0) (o.x.getD 1 0 - o.x.getD 0 0)
    else if o.table.length < 2 then .error .other
    else
      -- res = self._table[1]; for k in range(len(self._table) - 1, 1, -1): res += val_k * self._table[k]
      .ok ((List.range' 2 (o.table.length - 2)).reverse.foldl
            (fun res k => res + deriv_sum x o.x k * o.table.getD k 0) (o.table.getD 1 0))

/-- State of the `while` loop of `root`. -/
structure RootState where
  xl : Num
  xh : Num
  yl : Num
  yh : Num
  x : Num
  y : Num
  num_iter : Int

/-- The fallback abscissa of the loop body (`num_iter` already incremented):
    `if num_iter % 2 == 0: x = (xl + xh) / 2.0  else: x = (xl * yh - xh * yl) / (yh - yl)`
    (false position, bisecting every other time so that the bracket shrinks). -/
def root_fallback (s : RootState) : PyRes Num :=
  if imod (s.num_iter + 1) 2 = 0 then .ok ((s.xl + s.xh) / 2.0)
  else pdiv (s.xl * s.yh - s.xh * s.yl) (s.yh - s.yl)

/-- The new iterate `(x, y)` computed by the loop body of `root`. -/
def root_next (o : Interp) (s : RootState) : PyRes (Num × Num) := do
  let yp ← derivative o s.x
  if plt (pabs yp) 1e-3 then
    -- derivative too small: linear interpolation / bisection; y = self.__call__(x)
    let x ← root_fallback s
    let y ← call o x
    pure (x, y)
  else
    -- x = x - y / yp
    let q ← pdiv s.y yp
    let x := s.x - q
    -- if x < xl or x > xh: switch to linear interpolation or bisection
    if plt x s.xl || plt s.xh x then
      let x ← root_fallback s
      let y ← call o x
      pure (x, y)
    else
      let y ← call o x
      pure (x, y)

/-- One test-and-body of `while abs(y) > self._tol:` in `root`. -/
def root_step (o : Interp) (max_iter : Int) (s : RootState) : Sum RootState (PyRes Num) :=
  if !(plt o.tol (pabs s.y)) then .inr (.ok s.x)          -- loop exit: return x
  else if s.num_iter ≥ max_iter then .inr (.error .valueError)
  else
    match root_next o s with
    | .error e => .inr (.error e)
    | .ok (x, y) =>
      -- if (y * yl) >= 0.0: xl = x; yl = y  else: xh = x; yh = y
      if ple 0.0 (y * s.yl) then .inl { s with xl := x, yl := y, x := x, y := y, num_iter := s.num_iter + 1 }
      else .inl { s with xh := x, yh := y, x := x, y := y, num_iter := s.num_iter + 1 }

/-- The limits `root` works with: defaults, swap, clamping to the table
    (`if xl < self._x[0]: xl = xmin`, `if xh > self._x[-1]: xh = xmax`). -/
def root_limits (o : Interp) (xl xh : Num) : PyRes (Num × Num) :=
  match o.x with
  | [] => .error .other
  | x0 :: xr =>
    let xmin := x0
    let xmax := (x0 :: xr).getLastD 0
    -- if xl == 0 and xh == 0: xl = xmin; xh = xmax
    let (xl, xh) := if peq xl 0 && peq xh 0 then (xmin, xmax) else (xl, xh)
    -- if abs(xl - xh) < self._tol: raise ValueError
    if plt (pabs (xl - xh)) o.tol then .error .valueError
    else
      -- if xl > xh: xl, xh = xh, xl
      let (xl, xh) := if plt xh xl then (xh, xl) else (xl, xh)
      let xl := if plt xl xmin then xmin else xl
      let xh := if plt xmax xh then xmax else xh
      .ok (xl, xh)

/-- `Interpolation.root(xl, xh, max_iter)` (Interpolation.py:461) for numeric limits. -/
def root (o : Interp) (xl xh : Num) (max_iter : Int) : PyRes Num := do
  let (xl, xh) ← root_limits o xl xh
  let yl ← call o xl
  let yh ← call o xh
  if plt (pabs yl) o.tol then pure xl          -- xl is a root
  else if plt (pabs yh) o.tol then pure xh     -- xh is a root
  else if plt 0.0 (yl * yh) then .error .valueError
  else
    let x := (xl + xh) / 2.0
    let y ← call o x
    match loopFuel (root_step o max_iter) (max_iter.toNat + 1) ⟨xl, xh, yl, yh, x, y, 0⟩ with
    | some r => r
    | none => .error .other

/-- `Interpolation.minmax(xl, xh, max_iter)` (Interpolation.py:571):
    `prime = Interpolation(x, [self.derivative(xi) for xi in x]); return prime.root(xl, xh, max_iter)` -/
def minmax (o : Interp) (xl xh : Num) (max_iter : Int) : PyRes Num := do
  let y ← o.x.mapM (fun xi => derivative o xi)
  let prime ← set TOL [.list o.x, .list y]
  root prime xl xh max_iter

/-- `Coordinates.planetary_conjunction(alpha1_list, delta1_list, alpha2_list, delta2_list)`
    (Coordinates.py:1963) on the coordinates in degrees (`Angle` arithmetic is float arithmetic on the
    degree value as long as no intermediate result reaches 360 degrees; the harness keeps to that range).
    Returns `(n_0, dd)`. -/
def planetary_conjunction (a1 d1 a2 d2 : List Num) : PyRes (Num × Num) :=
  if a1.length < 3 ∨ d1.length < 3 ∨ a2.length < 3 ∨ d2.length < 3 then .error .valueError
  else if a1.length ≠ d1.length ∨ a1.length ≠ a2.length ∨ a1.length ≠ d2.length then .error .valueError
  else
    -- if n_entries % 2 != 1: drop the last entry of every list
    let (a1, d1, a2, d2) :=
      if a1.length % 2 != 1 then (a1.dropLast, d1.dropLast, a2.dropLast, d2.dropLast) else (a1, d1, a2, d2)
    let n_entries := a1.length
    let half_entries : Int := (n_entries / 2 : Nat)
    -- n_list = [i - half_entries for i in range(n_entries)]
    let n_list := (List.range n_entries).map (fun (i : Nat) => ofInt ((i : Int) - half_entries))
    let dalpha := List.zipWith (fun a b => a - b) a1 a2
    let ddelta := List.zipWith (fun a b => a - b) d1 d2
    do
      let i_alpha ← set TOL [.list n_list, .list dalpha]
      let i_delta ← set TOL [.list n_list, .list ddelta]
      let n_0 ← root i_alpha 0 0 1000        -- n_0 = i_alpha.root()
      let dd ← call i_delta n_0              -- dd = i_delta(n_0)
      pure (n_0, dd)

/-- `Coordinates.planet_star_conjunction(alpha_list, delta_list, alpha_star, delta_star)`. -/
def planet_star_conjunction (a d : List Num) (alpha_star delta_star : Num) : PyRes (Num × Num) :=
  planetary_conjunction a d (a.map (fun _ => alpha_star)) (a.map (fun _ => delta_star))

end Pymeeus.Gen@K@.Interpolation
