--! kinds: R F
/-
Model of the Sun / Earth frame functions of pymeeus (property C08):
  Coordinates.mean_obliquity, true_obliquity                      (nutation_* are in templates/Vsop.lean)
  Sun.geometric_geocentric_position, apparent_geocentric_position
  Sun.rectangular_coordinates_mean_equinox / _j2000 / _b1950 / _equinox
  Sun.true_longitude_coarse, apparent_longitude_coarse, apparent_rightascension_declination_coarse
  Moon.longitude_mean_ascending_node
Hand-written from the source, statement by statement (Python quoted in comments); tied to the source by
the bit-for-bit correspondence run of harness/c08.py.  An `Angle` is its `_deg`, an `Epoch` its `_jde`.
The Earth's positions come from the generated wrappers `Earth_geometric_heliocentric_position` etc.
-/
import Pymeeus.Gen.@K@.VsopPlanets
namespace Pymeeus.Gen@K@
open Pymeeus Pymeeus.P@K@
/- everything of C07-C09 lives in the sub-namespace `Helio`, so that the Python names used here
   (`kepler_equation`, `ecliptical2equatorial`, `mean_obliquity`, …) cannot clash with other templates -/
namespace Helio

/-! ### Obliquity of the ecliptic (Coordinates.py:235, 302) -/

/-- `mean_obliquity(epoch)` -/
def mean_obliquity (jde : Num) : Num :=
  -- u = (t.jde() - 2451545.0) / 3652500.0
  let u := (jde - 2451545.0) / 3652500.0
  -- epsilon0 = Angle(23, 26, 21.448)
  let epsilon0 := angDms 23 26 21.448
  -- delta = u * (-4680.93 + u * (-1.55 + u * (1999.25 + u * (-51.38 + u * (-249.67 + u * (-39.05 + u * (7.12 + u * (27.87 + u * (5.79 + u * 2.45)))))))))
  let delta := u * (-4680.93 + u * (-1.55 + u * (1999.25 + u * (-51.38 + u * (-249.67
    + u * (-39.05 + u * (7.12 + u * (27.87 + u * (5.79 + u * 2.45)))))))))
  -- delta = Angle(0, 0, delta); epsilon0 += delta
  angAdd epsilon0 (angDms 0 0 delta)

/-- `true_obliquity(epoch)`: `return epsilon0 + delta_epsilon` -/
def true_obliquity (jde : Num) : Num :=
  angAdd (mean_obliquity jde) (nutation_obliquity jde)

/-! ### Sun = Earth reflected (Sun.py:185, 229) -/

/-- `lon = lon.to_positive() + 180.0; lat = -lat` -/
def reflect (p : Num × Num × Num) : Num × Num × Num :=
  (angAdd (angToPositive p.1) 180.0, angNeg p.2.1, p.2.2)

/-- `Sun.geometric_geocentric_position(epoch, tofk5)` -/
def sun_geometric_geocentric_position (jde : Num) (tofk5 : Bool) : PyRes (Num × Num × Num) :=
  match Earth_geometric_heliocentric_position jde tofk5 with
  | .error e => .error e
  | .ok p => .ok (reflect p)

/-- `Sun.apparent_geocentric_position(epoch, nutation)` -/
def sun_apparent_geocentric_position (jde : Num) (nutation : Bool) : PyRes (Num × Num × Num) :=
  match Earth_apparent_heliocentric_position jde nutation with
  | .error e => .error e
  | .ok p => .ok (reflect p)

/-! ### Rectangular coordinates (Sun.py:272-475) -/

/-- `Sun.rectangular_coordinates_mean_equinox(epoch)` -/
def rectangular_coordinates_mean_equinox (jde : Num) : PyRes (Num × Num × Num) :=
  -- lon, lat, r = Sun.geometric_geocentric_position(epoch)          (tofk5 defaults to True)
  match sun_geometric_geocentric_position jde true with
  | .error e => .error e
  | .ok (lon, lat, r) =>
    -- epsilon0 = mean_obliquity(epoch); ll = lon.rad(); b = lat.rad(); e = epsilon0.rad()
    let ll := angRad lon
    let b := angRad lat
    let e := angRad (mean_obliquity jde)
    -- x = r * cos(ll)
    let x := r * pcos ll
    -- y = r * (sin(ll) * cos(e) - sin(b) * sin(e))
    let y := r * (psin ll * pcos e - psin b * psin e)
    -- z = r * (sin(ll) * sin(e) + sin(b) * cos(e))
    let z := r * (psin ll * psin e + psin b * pcos e)
    .ok (x, y, z)

/-- the vector of the Sun in the dynamical ecliptic frame J2000, before any rotation:
    `lon = lon.to_positive() + 180.0; lat = -lat; x = r*cos(lat.rad())*cos(lon.rad()); …` -/
def sun_vector_j2000 (jde : Num) : PyRes (Num × Num × Num) :=
  -- lon, lat, r = Earth.geometric_heliocentric_position_j2000(epoch)         (tofk5 defaults to True)
  match Earth_geometric_heliocentric_position_j2000 jde true with
  | .error e => .error e
  | .ok p =>
    let q := reflect p
    let lon := q.1
    let lat := q.2.1
    let r := q.2.2
    let x := r * pcos (angRad lat) * pcos (angRad lon)
    let y := r * pcos (angRad lat) * psin (angRad lon)
    let z := r * psin (angRad lat)
    .ok (x, y, z)

/-- the FK5 J2000 rotation of `rectangular_coordinates_j2000` -/
def rotate_j2000 (v : Num × Num × Num) : Num × Num × Num :=
  let x := v.1
  let y := v.2.1
  let z := v.2.2
  -- x0 = x + 0.00000044036 * y - 0.000000190919 * z
  let x0 := x + 0.00000044036 * y - 0.000000190919 * z
  -- y0 = -0.000000479966 * x + 0.917482137087 * y - 0.397776982902 * z
  let y0 := -0.000000479966 * x + 0.917482137087 * y - 0.397776982902 * z
  -- z0 = 0.397776982902 * y + 0.917482137087 * z
  let z0 := 0.397776982902 * y + 0.917482137087 * z
  (x0, y0, z0)

/-- `Sun.rectangular_coordinates_j2000(epoch)` -/
def rectangular_coordinates_j2000 (jde : Num) : PyRes (Num × Num × Num) :=
  match sun_vector_j2000 jde with
  | .error e => .error e
  | .ok v => .ok (rotate_j2000 v)

/-- the three assignments of `rectangular_coordinates_b1950`, AS CODED: `x` is overwritten before it is
    used for `y`, and `x`, `y` before they are used for `z`. -/
def rotate_b1950 (v : Num × Num × Num) : Num × Num × Num :=
  let x := v.1
  let y := v.2.1
  let z := v.2.2
  -- x = 0.999925702634 * x + 0.012189716217 * y + 0.000011134016 * z
  let x := 0.999925702634 * x + 0.012189716217 * y + 0.000011134016 * z
  -- y = -0.011179418036 * x + 0.917413998946 * y - 0.397777041885 * z
  let y := -0.011179418036 * x + 0.917413998946 * y - 0.397777041885 * z
  -- z = -0.004859003787 * x + 0.397747363646 * y + 0.917482111428 * z
  let z := -0.004859003787 * x + 0.397747363646 * y + 0.917482111428 * z
  (x, y, z)

/-- `Sun.rectangular_coordinates_b1950(epoch)` -/
def rectangular_coordinates_b1950 (jde : Num) : PyRes (Num × Num × Num) :=
  match sun_vector_j2000 jde with
  | .error e => .error e
  | .ok v => .ok (rotate_b1950 v)

/-- the precession angles `(zeta, z, theta)` of `rectangular_coordinates_equinox`, in radians -/
def equinox_angles (jde equinox_jde : Num) : Num × Num × Num :=
  -- t = (equinox_epoch - JDE2000) / 36525.0;  tt = (epoch - equinox_epoch) / 36525.0
  let t := (equinox_jde - 2451545.0) / 36525.0
  let tt := (jde - equinox_jde) / 36525.0
  -- zeta = t * ((2306.2181 + tt * (1.39656 - 0.000139 * tt)) + t * ((0.30188 - 0.000344 * tt) + 0.017998 * t))
  let zeta := t * ((2306.2181 + tt * (1.39656 - 0.000139 * tt)) + t * ((0.30188 - 0.000344 * tt) + 0.017998 * t))
  -- z = t * ((2306.2181 + tt * (1.39656 - 0.000139 * tt)) + t * ((1.09468 + 0.000066 * tt) + 0.018203 * t))
  let z := t * ((2306.2181 + tt * (1.39656 - 0.000139 * tt)) + t * ((1.09468 + 0.000066 * tt) + 0.018203 * t))
  -- theta = t * (2004.3109 + tt * (-0.85330 - 0.000217 * tt) + t * (-(0.42665 + 0.000217 * tt) - 0.041833 * t))
  let theta := t * (2004.3109 + tt * (-0.85330 - 0.000217 * tt) + t * (-(0.42665 + 0.000217 * tt) - 0.041833 * t))
  -- zeta = Angle(0, 0, zeta); zetar = zeta.rad(); …
  (angRad (angDms 0 0 zeta), angRad (angDms 0 0 z), angRad (angDms 0 0 theta))

/-- the rotation of `rectangular_coordinates_equinox` by the angles `(zetar, zr, thetar)` -/
def rotate_equinox (a : Num × Num × Num) (v : Num × Num × Num) : Num × Num × Num :=
  let zetar := a.1
  let zr := a.2.1
  let thetar := a.2.2
  let x0 := v.1
  let y0 := v.2.1
  let z0 := v.2.2
  let xx := pcos zetar * pcos zr * pcos thetar - psin zetar * psin zr
  let xy := psin zetar * pcos zr + pcos zetar * psin zr * pcos thetar
  let xz := pcos zetar * psin thetar
  let yx := -pcos zetar * psin zr - psin zetar * pcos zr * pcos thetar
  let yy := pcos zetar * pcos zr - psin zetar * psin zr * pcos thetar
  let yz := -psin zetar * psin thetar
  let zx := -pcos zr * psin thetar
  let zy := -psin zr * psin thetar
  let zz := pcos thetar
  -- xp = xx * x0 + yx * y0 + zx * z0;  yp = xy * x0 + yy * y0 + zy * z0;  zp = xz * x0 + yz * y0 + zz * z0
  (xx * x0 + yx * y0 + zx * z0, xy * x0 + yy * y0 + zy * z0, xz * x0 + yz * y0 + zz * z0)

/-- `Sun.rectangular_coordinates_equinox(epoch, equinox_epoch)` -/
def rectangular_coordinates_equinox (jde equinox_jde : Num) : PyRes (Num × Num × Num) :=
  match rectangular_coordinates_j2000 jde with
  | .error e => .error e
  | .ok v => .ok (rotate_equinox (equinox_angles jde equinox_jde) v)

/-! ### Low-accuracy Sun (Sun.py:56-183) -/

/-- `Sun.true_longitude_coarse(epoch)` → `(true_lon, r)` -/
def true_longitude_coarse (jde : Num) : Num × Num :=
  -- t = (epoch - JDE2000) / 36525.0
  let t := (jde - 2451545.0) / 36525.0
  -- l0 = 280.46646 + t * (36000.76983 + t * 0.0003032); l0 = Angle(l0); l0.to_positive()
  let l0 := angToPositive (angOfDeg (280.46646 + t * (36000.76983 + t * 0.0003032)))
  -- m = 357.52911 + t * (35999.05029 - t * 0.0001537); m = Angle(m); mrad = m.rad()
  let m := angOfDeg (357.52911 + t * (35999.05029 - t * 0.0001537))
  let mrad := angRad m
  -- e = 0.016708634 - t * (0.000042037 + t * 0.0000001267)
  let e := 0.016708634 - t * (0.000042037 + t * 0.0000001267)
  -- c = ((1.914602 - t * (0.004817 + t * 0.000014)) * sin(mrad) + (0.019993 - t * 0.000101) * sin(2.0 * mrad)
  --      + 0.000289 * sin(3.0 * mrad));  c = Angle(c)
  let c := angOfDeg ((1.914602 - t * (0.004817 + t * 0.000014)) * psin mrad
    + (0.019993 - t * 0.000101) * psin (2.0 * mrad) + 0.000289 * psin (3.0 * mrad))
  -- true_lon = l0 + c; true_anom = m + c
  let true_lon := angAdd l0 c
  let true_anom := angAdd m c
  -- r = (1.000001018 * (1.0 - e * e)) / (1.0 + e * cos(true_anom.rad()))
  let r := (1.000001018 * (1.0 - e * e)) / (1.0 + e * pcos (angRad true_anom))
  (true_lon, r)

/-- `Sun.apparent_longitude_coarse(epoch)` → `(lambd, r)` -/
def apparent_longitude_coarse (jde : Num) : Num × Num :=
  let tr := true_longitude_coarse jde
  let t := (jde - 2451545.0) / 36525.0
  -- omega = 125.04 - 1934.136 * t; omega = Angle(omega)
  let omega := angOfDeg (125.04 - 1934.136 * t)
  -- lambd = true_lon - 0.00569 - 0.00478 * sin(omega.rad())
  let lambd := angSubF (angSubF tr.1 0.00569) (0.00478 * psin (angRad omega))
  (lambd, tr.2)

/-- `Sun.apparent_rightascension_declination_coarse(epoch)` → `(alpha, delta, r)` -/
def apparent_rightascension_declination_coarse (jde : Num) : Num × Num × Num :=
  let ap := apparent_longitude_coarse jde
  let app_lon := ap.1
  -- e0 = mean_obliquity(epoch)
  let e0 := mean_obliquity jde
  let t := (jde - 2451545.0) / 36525.0
  let omega := angOfDeg (125.04 - 1934.136 * t)
  -- e = e0 + 0.00256 * cos(omega.rad())
  let e := angAdd e0 (0.00256 * pcos (angRad omega))
  -- alpha = atan2(cos(e.rad()) * sin(app_lon.rad()), cos(app_lon.rad())); alpha = Angle(alpha, radians=True); alpha.to_positive()
  let alpha := angToPositive (angOfRad (patan2 (pcos (angRad e) * psin (angRad app_lon)) (pcos (angRad app_lon))))
  -- delta = asin(sin(e.rad()) * sin(app_lon.rad())); delta = Angle(delta, radians=True)
  let delta := angOfRad (pasin (psin (angRad e) * psin (angRad app_lon)))
  (alpha, delta, ap.2)

/-! ### Moon.longitude_mean_ascending_node (Moon.py:406) -/

def longitude_mean_ascending_node (jde : Num) : Num :=
  let t := (jde - 2451545.0) / 36525.0
  -- Omega = 125.0445479 + (-1934.1362891 + (0.0020754 + (1.0/476441.0 - t/60616000.0) * t) * t) * t
  let omega := 125.0445479 + (-1934.1362891 + (0.0020754 + (1.0 / 476441.0 - t / 60616000.0) * t) * t) * t
  -- Omega = Angle(Omega).to_positive()
  angToPositive (angOfDeg omega)

end Helio
end Pymeeus.Gen@K@
