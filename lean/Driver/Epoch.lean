import Driver.Core
import Pymeeus.Gen.Q.EpochCore
import Pymeeus.Gen.F.EpochCore
namespace Driver
open Pymeeus

def epochQ : Handler := fun fn a =>
  match fn with
  | "is_julian" => some <| out (GenQ.is_julian a[0]!.i a[1]!.i a[2]!.q)
  | "is_leap" => some <| out (GenQ.is_leap a[0]!.i)
  | "get_month_int" => some <| out (GenQ.get_month_int a[0]!.i)
  | "get_month_str" => some <| out (GenQ.get_month_str a[0]!.s)
  | "compute_jde" => some <| out (GenQ.compute_jde a[0]!.i a[1]!.i a[2]!.q)
  | "get_date" => some <| out (GenQ.get_date a[0]!.q)
  | "epoch_ymd" => some <| out (GenQ.epoch_ymd a[0]!.i a[1]!.i a[2]!.q)
  | "epoch_ymd_name" => some <| out (match GenQ.check_values a[0]!.i (GenQ.get_month_str a[1]!.s) a[2]!.q 0 0 0 with
        | .error e => (.error e : PyRes Rat)
        | .ok (y, m, d, _, _, _) => .ok (GenQ.compute_jde y m d))
  | "mjd" => some <| out (GenQ.mjd a[0]!.q)
  | _ => none

def epochF : Handler := fun fn a =>
  match fn with
  | "is_julian" => some <| out (GenF.is_julian a[0]!.i a[1]!.i a[2]!.f)
  | "is_leap" => some <| out (GenF.is_leap a[0]!.i)
  | "get_month_int" => some <| out (GenF.get_month_int a[0]!.i)
  | "get_month_str" => some <| out (GenF.get_month_str a[0]!.s)
  | "compute_jde" => some <| out (GenF.compute_jde a[0]!.i a[1]!.i a[2]!.f)
  | "get_date" => some <| out (GenF.get_date a[0]!.f)
  | "epoch_ymd" => some <| out (GenF.epoch_ymd a[0]!.i a[1]!.i a[2]!.f)
  | "epoch_ymd_name" => some <| out (match GenF.check_values a[0]!.i (GenF.get_month_str a[1]!.s) a[2]!.f 0 0 0 with
        | .error e => (.error e : PyRes Float)
        | .ok (y, m, d, _, _, _) => .ok (GenF.compute_jde y m (d + (0.0 / 24.0 + 0.0 / 1440.0 + 0.0 / 86400.0))))
  | "mjd" => some <| out (GenF.mjd a[0]!.f)
  | _ => none

end Driver
