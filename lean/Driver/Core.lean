import Pymeeus.PreQ
import Pymeeus.PreF
/-
Line protocol of the model driver.

  input : `<K> <function> <arg> ...`   K = Q (exact) or F (binary64)
          arg = decimal integer | `f<bits as decimal>` (a double) | `s<text without blanks>` |
                `T` / `F` | `[a,b,c]` (list of numbers, no blanks)
  output: one line; values separated by blanks: integers in decimal, Q numbers `num/den`,
          F numbers `f<bits>`, booleans `T`/`F`, `None`, errors `E:<class>`, unknown `?`.
-/
namespace Driver
open Pymeeus

inductive Arg where
  | int (n : Int)
  | flt (x : Float)
  | str (s : String)
  | bool (b : Bool)
  | list (xs : List Arg)
  deriving Inhabited

def parseScalar (t : String) : Option Arg :=
  if t == "T" then some (.bool true) else if t == "F" then some (.bool false) else
  if t.startsWith "f" then (t.drop 1).toNat?.map fun n => .flt (Float.ofBits n.toUInt64)
  else if t.startsWith "s" then some (.str ((t.drop 1).toString.replace "_" " "))
  else t.toInt?.map .int

def parseArg (t : String) : Option Arg :=
  if t.startsWith "[" && t.endsWith "]" then
    let inner := ((t.drop 1).dropEnd 1).toString
    if inner.isEmpty then some (.list []) else
    (inner.splitOn ",").mapM parseScalar |>.map .list
  else parseScalar t

def Arg.q : Arg → Rat
  | .int n => (n : Rat)
  | .flt x => PF.toRat x
  | _ => 0
def Arg.f : Arg → Float
  | .int n => Float.ofInt n
  | .flt x => x
  | _ => 0.0
def Arg.i : Arg → Int
  | .int n => n
  | .flt x => PF.toIntExact x
  | _ => 0
def Arg.s : Arg → String
  | .str s => s
  | _ => ""
def Arg.b : Arg → Bool
  | .bool b => b
  | _ => false
def Arg.isInt : Arg → Bool
  | .int _ => true
  | _ => false
def Arg.ql : Arg → List Rat
  | .list xs => xs.map Arg.q
  | _ => []
def Arg.fl : Arg → List Float
  | .list xs => xs.map Arg.f
  | _ => []

class Out (α : Type) where
  out : α → String
export Out (out)
instance : Out Int := ⟨toString⟩
instance : Out Nat := ⟨toString⟩
instance : Out Rat := ⟨PQ.pshow⟩
instance : Out Float := ⟨PF.pshow⟩
instance : Out Bool := ⟨fun b => if b then "T" else "F"⟩
instance : Out String := ⟨fun s => "s" ++ s.replace " " "_"⟩
instance {α β} [Out α] [Out β] : Out (α × β) := ⟨fun (a, b) => out a ++ " " ++ out b⟩
instance {α} [Out α] : Out (PyRes α) := ⟨fun r => match r with | .ok a => out a | .error e => "E:" ++ toString e⟩
instance {α} [Out α] : Out (Option α) := ⟨fun r => match r with | some a => out a | none => "None"⟩
instance {α} [Out α] : Out (List α) := ⟨fun l => "[" ++ ",".intercalate (l.map out) ++ "]"⟩

abbrev Handler := String → Array Arg → Option String

end Driver
