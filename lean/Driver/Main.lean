import Driver.All
open Driver

def runLine (line : String) : String :=
  match (line.trimAscii.toString.splitOn " ").filter (· ≠ "") with
  | k :: fn :: rest =>
    match rest.mapM parseArg with
    | none => "?badarg"
    | some args =>
      let hs := if k == "Q" then handlersQ else if k == "F" then handlersF else []
      match hs.findSome? (fun h => h fn args.toArray) with
      | some s => s
      | none => "?nofn"
  | _ => "?badline"

partial def loop (hin hout : IO.FS.Stream) : IO Unit := do
  let line ← hin.getLine
  if line.isEmpty then return ()
  hout.putStrLn (runLine line)
  loop hin hout

def main : IO Unit := do
  let hin ← IO.getStdin
  let hout ← IO.getStdout
  loop hin hout
  hout.flush
