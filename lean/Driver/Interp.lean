import Driver.Core
import Pymeeus.Gen.Q.Interpolation
import Pymeeus.Gen.F.Interpolation
/-
Driver handlers for the model of pymeeus/Interpolation.py (property C12).

  interp_set  a1 a2 ...            `Interpolation(a1, a2, ...)`: numbers, `[..]` lists, `s..` = any other object
                                   -> ordered x, ordered y, table (3n numbers) | E:<class>
  interp_call  [xs] [ys] tol x     `i = Interpolation(xs, ys); i.set_tolerance(tol); i(x)`
  interp_deriv [xs] [ys] tol x     `... i.derivative(x)`
  interp_root  [xs] [ys] tol xl xh max_iter     `... i.root(xl, xh, max_iter)`
  interp_minmax [xs] [ys] tol xl xh max_iter    `... i.minmax(xl, xh, max_iter)`
  planetary_conjunction [a1] [d1] [a2] [d2]     coordinates in degrees -> n_0 dd (degrees)
  planet_star_conjunction [a] [d] astar dstar
-/
namespace Driver
open Pymeeus

def outL {α} [Out α] (l : List α) : String := " ".intercalate (l.map out)

namespace IQ
open Pymeeus.GenQ.Interpolation
def toArg : Arg → PyArg
  | .int n => .num (n : Rat)
  | .flt x => .num (PF.toRat x)
  | .list xs => .list (xs.map Arg.q)
  | _ => .other
def showI : PyRes Interp → String
  | .error e => "E:" ++ toString e
  | .ok o => if o.x.isEmpty then "empty" else outL (o.x ++ o.y ++ o.table)
def mk (xs ys : List Rat) (tol : Rat) : PyRes Interp :=
  (set TOL [.list xs, .list ys]).map (fun o => { o with tol := tol })
end IQ

namespace IF
open Pymeeus.GenF.Interpolation
def toArg : Arg → PyArg
  | .int n => .num (Float.ofInt n)
  | .flt x => .num x
  | .list xs => .list (xs.map Arg.f)
  | _ => .other
def showI : PyRes Interp → String
  | .error e => "E:" ++ toString e
  | .ok o => if o.x.isEmpty then "empty" else outL (o.x ++ o.y ++ o.table)
def mk (xs ys : List Float) (tol : Float) : PyRes Interp :=
  (set TOL [.list xs, .list ys]).map (fun o => { o with tol := tol })
end IF

def interpQ : Handler := fun fn a =>
  open Pymeeus.GenQ.Interpolation in
  match fn with
  | "interp_set" => some <| IQ.showI (set TOL (a.toList.map IQ.toArg))
  | "interp_call" => some <| out (IQ.mk a[0]!.ql a[1]!.ql a[2]!.q >>= fun o => call o a[3]!.q)
  | "interp_deriv" => some <| out (IQ.mk a[0]!.ql a[1]!.ql a[2]!.q >>= fun o => derivative o a[3]!.q)
  | "interp_root" => some <| out (IQ.mk a[0]!.ql a[1]!.ql a[2]!.q >>= fun o => root o a[3]!.q a[4]!.q a[5]!.i)
  | "interp_minmax" => some <| out (IQ.mk a[0]!.ql a[1]!.ql a[2]!.q >>= fun o => minmax o a[3]!.q a[4]!.q a[5]!.i)
  | "planetary_conjunction" => some <| out (planetary_conjunction a[0]!.ql a[1]!.ql a[2]!.ql a[3]!.ql)
  | "planet_star_conjunction" => some <| out (planet_star_conjunction a[0]!.ql a[1]!.ql a[2]!.q a[3]!.q)
  | _ => none

def interpF : Handler := fun fn a =>
  open Pymeeus.GenF.Interpolation in
  match fn with
  | "interp_set" => some <| IF.showI (set TOL (a.toList.map IF.toArg))
  | "interp_call" => some <| out (IF.mk a[0]!.fl a[1]!.fl a[2]!.f >>= fun o => call o a[3]!.f)
  | "interp_deriv" => some <| out (IF.mk a[0]!.fl a[1]!.fl a[2]!.f >>= fun o => derivative o a[3]!.f)
  | "interp_root" => some <| out (IF.mk a[0]!.fl a[1]!.fl a[2]!.f >>= fun o => root o a[3]!.f a[4]!.f a[5]!.i)
  | "interp_minmax" => some <| out (IF.mk a[0]!.fl a[1]!.fl a[2]!.f >>= fun o => minmax o a[3]!.f a[4]!.f a[5]!.i)
  | "planetary_conjunction" => some <| out (planetary_conjunction a[0]!.fl a[1]!.fl a[2]!.fl a[3]!.fl)
  | "planet_star_conjunction" => some <| out (planet_star_conjunction a[0]!.fl a[1]!.fl a[2]!.f a[3]!.f)
  | _ => none

end Driver
