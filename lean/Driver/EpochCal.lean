import Driver.Core
import Pymeeus.Gen.Q.EpochCal
import Pymeeus.Gen.F.EpochCal
namespace Driver
open Pymeeus

/-- kwarg `utc`: 0 = absent, 1 = True, 2 = False -/
def optBool (a : Arg) : Option Bool := if a.i = 1 then some true else if a.i = 2 then some false else none
/-- kwarg `leap_seconds`: flag `T` (present) / `F` (absent), then the value -/
def optQ (flag v : Arg) : Option Rat := if flag.b then some v.q else none
def optF (flag v : Arg) : Option Float := if flag.b then some v.f else none

def epochCalQ : Handler := fun fn a =>
  match fn with
  | "dow" => some <| out (GenQ.dow a[0]!.q)
  | "dow_str" => some <| out (GenQ.dow_str a[0]!.q)
  | "get_doy" => some <| out (GenQ.get_doy a[0]!.i a[1]!.i a[2]!.q)
  | "doy" => some <| out (GenQ.doy a[0]!.q)
  | "doy2date" => some <| out (GenQ.doy2date a[0]!.i a[1]!.q)
  | "leap" => some <| out (GenQ.leap a[0]!.q)
  | "year" => some <| out (GenQ.year a[0]!.q)
  | "mean_sidereal_time" => some <| out (GenQ.mean_sidereal_time a[0]!.q)
  | "dt_toordinal" => some <| out (GenQ.dt_toordinal a[0]!.i a[1]!.i a[2]!.i)
  | "dt_fromordinal" => some <| out (GenQ.dt_fromordinal a[0]!.i)
  | "leap_table" => some <| out GenQ.leap_table
  | "leap_seconds" => some <| out (GenQ.leap_seconds a[0]!.i a[1]!.i)
  | "get_last_leap_second" => some <| out GenQ.get_last_leap_second
  | "get_last_leap_second_of" => some <| out (GenQ.get_last_leap_second_of a[0]!.q a[1]!.i)
  | "compute_jde_kw" => some <| out (GenQ.compute_jde_kw a[0]!.i a[1]!.i a[2]!.q a[3]!.b a[4]!.q)
  | "epoch_set_kw" => some <| out (GenQ.epoch_set_kw a[0]!.i a[1]!.i a[2]!.q a[3]!.q a[4]!.q a[5]!.q
        (optBool a[6]!) (optQ a[7]! a[8]!))
  | "get_date_kw" => some <| out (GenQ.get_date_kw a[0]!.q (optBool a[1]!) (optQ a[2]! a[3]!))
  | "tt2ut" => some <| out (GenQ.tt2ut a[0]!.i a[1]!.i)
  | "leap_seconds_num" => some <| out (GenQ.leap_seconds_num a[0]!.q a[1]!.q)
  | "epoch_set_local" => some <| out (GenQ.epoch_set_local a[0]!.i a[1]!.i a[2]!.q a[3]!.q a[4]!.q a[5]!.q
        (optBool a[6]!) (optQ a[7]! a[8]!) (optBool a[9]!) a[10]!.q)
  | "get_date_local" => some <| out (GenQ.get_date_local a[0]!.q (optBool a[1]!) (optQ a[2]! a[3]!) (optBool a[4]!) a[5]!.q)
  | _ => none

def epochCalF : Handler := fun fn a =>
  match fn with
  | "dow" => some <| out (GenF.dow a[0]!.f)
  | "dow_str" => some <| out (GenF.dow_str a[0]!.f)
  | "get_doy" => some <| out (GenF.get_doy a[0]!.i a[1]!.i a[2]!.f)
  | "doy" => some <| out (GenF.doy a[0]!.f)
  | "doy2date" => some <| out (GenF.doy2date a[0]!.i a[1]!.f)
  | "leap" => some <| out (GenF.leap a[0]!.f)
  | "year" => some <| out (GenF.year a[0]!.f)
  | "mean_sidereal_time" => some <| out (GenF.mean_sidereal_time a[0]!.f)
  | "apparent_sidereal_time" => some <| out (GenF.apparent_sidereal_time a[0]!.f a[1]!.f a[2]!.f)
  | "dt_toordinal" => some <| out (GenF.dt_toordinal a[0]!.i a[1]!.i a[2]!.i)
  | "dt_fromordinal" => some <| out (GenF.dt_fromordinal a[0]!.i)
  | "leap_table" => some <| out GenF.leap_table
  | "leap_seconds" => some <| out (GenF.leap_seconds a[0]!.i a[1]!.i)
  | "get_last_leap_second" => some <| out GenF.get_last_leap_second
  | "get_last_leap_second_of" => some <| out (GenF.get_last_leap_second_of a[0]!.f a[1]!.i)
  | "compute_jde_kw" => some <| out (GenF.compute_jde_kw a[0]!.i a[1]!.i a[2]!.f a[3]!.b a[4]!.f)
  | "epoch_set_kw" => some <| out (GenF.epoch_set_kw a[0]!.i a[1]!.i a[2]!.f a[3]!.f a[4]!.f a[5]!.f
        (optBool a[6]!) (optF a[7]! a[8]!))
  | "get_date_kw" => some <| out (GenF.get_date_kw a[0]!.f (optBool a[1]!) (optF a[2]! a[3]!))
  | "tt2ut" => some <| out (GenF.tt2ut a[0]!.i a[1]!.i)
  | "leap_seconds_num" => some <| out (GenF.leap_seconds_num a[0]!.f a[1]!.f)
  | "epoch_set_local" => some <| out (GenF.epoch_set_local a[0]!.i a[1]!.i a[2]!.f a[3]!.f a[4]!.f a[5]!.f
        (optBool a[6]!) (optF a[7]! a[8]!) (optBool a[9]!) a[10]!.f)
  | "get_date_local" => some <| out (GenF.get_date_local a[0]!.f (optBool a[1]!) (optF a[2]! a[3]!) (optBool a[4]!) a[5]!.f)
  | _ => none

end Driver
