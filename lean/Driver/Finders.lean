import Driver.Core
import Pymeeus.Gen.FinderDispatch
import Pymeeus.Gen.F.Finders
/-
Driver handlers of the planetary event finders (C13).  Only the binary64 instantiation is
executable (the finders use sin/cos); the dispatch name -> record is generated
(Pymeeus/Gen/FinderDispatch.lean, tools/gen_finders.py).

  F finder_jde s<Planet>.<finder> f<jde>  -> the whole finder from the `_jde` of the query epoch: `Epoch.year()`,
                                             k, jde0, corr, `Epoch(jde0 + corr)._jde` and the elongation angle | None
  F pa_jde s<Planet>.perihelion_aphelion f<jde> T|F -> first approximation `jde` from the `_jde` of the query epoch
  F finder_raw s<Planet>.<finder> f<y>    -> `jde0 + corr` from y = epoch.year()
  F finder_k s<Planet>.<finder> f<y>      -> the period count k
  F finder_bounds s<Planet>.<finder>      -> B, centre and radius of `corr` (exact rationals `n/d`; the bounds of Props/C13.lean)
  F pa_bounds s<Planet>.perihelion_aphelion -> P, Q, delta, bound of Earth's periodic correction
-/
namespace Driver
open Pymeeus

/-- `s<text>` arguments arrive with `_` turned into blanks; finder names contain `_`. -/
def fname (a : Arg) : String := a.s.replace " " "_"

def outFinder (x : PyRes (GenF.Epoch × Option Float)) : String :=
  match x with
  | .error e => out (.error e : PyRes Float)
  | .ok (ep, el) => out (ep.jde, el)

def findersF : Handler := fun fn a =>
  match fn with
  | "finder_jde" => (finderRecord (fname a[0]!)).map fun r => outFinder (GenF.finder_from_jde r a[1]!.f)
  | "pa_jde" => (paRecord (fname a[0]!)).map fun r => out (GenF.pa_from_jde r a[1]!.f a[2]!.b)
  | "finder_raw" => (finderRecord (fname a[0]!)).map fun r => out (GenF.finder_raw r a[1]!.f)
  | "finder_k" => (finderRecord (fname a[0]!)).map fun r => out (GenF.finder_k r a[1]!.f)
  | "finder_bounds" => (finderRecord (fname a[0]!)).map fun r => out (r.B.toRat, r.corrMid, r.corrRad)
  | "pa_bounds" => (paRecord (fname a[0]!)).map fun r => out (r.P.toRat, r.Q.toRat, r.delta.toRat, r.corrRad)
  | _ => none

end Driver
