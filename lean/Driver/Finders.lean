import Driver.Core
import Pymeeus.Gen.FinderDispatch
import Pymeeus.Gen.F.Finders
/-
Driver handlers of the planetary event finders (C13).  Only the binary64 instantiation is
executable (the finders use sin/cos); the dispatch name -> record is generated
(Pymeeus/Gen/FinderDispatch.lean, tools/gen_finders.py).

  F finder s<Planet>.<finder> f<y>        -> `Epoch(jde0 + corr).jde()` and the elongation angle | None
  F finder_jde s<Planet>.<finder> f<jde>   -> the same from the `_jde` of the query epoch (`Epoch.year()` modelled too)
  F epoch_year f<jde>                     -> `Epoch(jde).year()` for an epoch whose `_jde` is jde
  F finder_raw s<Planet>.<finder> f<y>    -> `jde0 + corr`
  F finder_k s<Planet>.<finder> f<y>      -> the period count k
  F pa_k s<Planet>.perihelion_aphelion f<y> T|F    -> k of the first approximation
  F pa_jde s<Planet>.perihelion_aphelion f<y> T|F  -> first approximation `jde`
  F finder_bounds s<Planet>.<finder>     -> B, centre and radius of `corr` (exact rationals `n/d`; the bounds of Props/C13.lean)
  F pa_bounds s<Planet>.perihelion_aphelion -> P, Q, delta, bound of Earth's periodic correction
  F epoch_of_jde f<jde>                   -> `Epoch(jde).jde()`
-/
namespace Driver
open Pymeeus

/-- `s<text>` arguments arrive with `_` turned into blanks; finder names contain `_`. -/
def fname (a : Arg) : String := a.s.replace " " "_"

def findersF : Handler := fun fn a =>
  match fn with
  | "finder" => (finderRecord (fname a[0]!)).map fun r => out (GenF.finder_epoch r a[1]!.f)
  | "finder_raw" => (finderRecord (fname a[0]!)).map fun r => out (GenF.finder_raw r a[1]!.f)
  | "finder_k" => (finderRecord (fname a[0]!)).map fun r => out (GenF.finder_k r a[1]!.f)
  | "pa_k" => (paRecord (fname a[0]!)).map fun r => out (GenF.pa_k r a[1]!.f a[2]!.b)
  | "pa_jde" => (paRecord (fname a[0]!)).map fun r => out (GenF.pa_jde r (GenF.pa_k r a[1]!.f a[2]!.b) a[2]!.b)
  | "finder_bounds" => (finderRecord (fname a[0]!)).map fun r => out (r.B.toRat, r.corrMid, r.corrRad)
  | "pa_bounds" => (paRecord (fname a[0]!)).map fun r => out (r.P.toRat, r.Q.toRat, r.delta.toRat, r.corrRad)
  | "finder_jde" => (finderRecord (fname a[0]!)).map fun r => out (GenF.finder_from_jde r a[1]!.f)
  | "epoch_year" => some <| out (GenF.epoch_year a[0]!.f)
  | "epoch_of_jde" => some <| out (GenF.epoch_of_jde a[0]!.f)
  | _ => none

end Driver
