import Driver.Core
import Driver.Kepler
import Pymeeus.Gen.F.Ellipsoid
/-! Driver handlers for the model of C18 (binary64 instantiation only).  An ellipsoid is passed as
    its three numbers `a f omega`. -/
namespace Driver
open Pymeeus Pymeeus.GenF

def ellOf (a : Array Arg) (i : Nat) : Ellipsoid.Ell := ⟨a[i]!.f, a[i+1]!.f, a[i+2]!.f⟩

def ellipsoidF : Handler := fun fn a =>
  match fn with
  | "ell_iau76" => some <| out (Ellipsoid.IAU76.a, Ellipsoid.IAU76.f, Ellipsoid.IAU76.omega)
  | "ell_wgs84" => some <| out (Ellipsoid.WGS84.a, Ellipsoid.WGS84.f, Ellipsoid.WGS84.omega)
  | "ell_b" => some <| out ((ellOf a 0).b)
  | "ell_e" => some <| out ((ellOf a 0).e)
  | "rho" => some <| out (Ellipsoid.rho a[0]!.f)
  | "rho_sinphi" => some <| out (Ellipsoid.rho_sinphi (ellOf a 0) a[3]!.f a[4]!.f)
  | "rho_cosphi" => some <| out (Ellipsoid.rho_cosphi (ellOf a 0) a[3]!.f a[4]!.f)
  | "rp" => some <| out (Ellipsoid.rp (ellOf a 0) a[3]!.f)
  | "linear_velocity" => some <| out (Ellipsoid.linear_velocity (ellOf a 0) a[3]!.f)
  | "rm" => some <| out (Ellipsoid.rm (ellOf a 0) a[3]!.f)
  | "distance" => some <| out (Ellipsoid.distance (ellOf a 0) a[3]!.f a[4]!.f a[5]!.f a[6]!.f)
  | "parallax_correction" =>
      some <| out (Ellipsoid.parallax_correction a[0]!.f a[1]!.f a[2]!.f a[3]!.f a[4]!.f a[5]!.f)
  | "parallax_ecliptical" =>
      some <| out (Ellipsoid.parallax_ecliptical a[0]!.f a[1]!.f a[2]!.f a[3]!.f a[4]!.f a[5]!.f a[6]!.f a[7]!.f)
  | _ => none

end Driver
