import Driver.Core
import Pymeeus.Gen.F.VsopPlanets
/-
Driver handlers for the VSOP87 model (binary64 instantiation only; the real-number instantiation is
not executable).  Planets are addressed by name (`sVenus`); an Epoch is passed as its JDE.
-/
namespace Driver
open Pymeeus

/-- rebuild a table from `[n0,n1,…]` (terms per series) and the flat list `[A,B,C,A,B,C,…]` -/
def unflatten (lens : List Int) (flat : List Float) : GenF.Helio.VsopTable :=
  let rec terms (n : Nat) (xs : List Float) (acc : List (Float × Float × Float)) :
      List (Float × Float × Float) × List Float :=
    match n, xs with
    | n + 1, a :: b :: c :: rest => terms n rest ((a, b, c) :: acc)
    | _, rest => (acc.reverse, rest)
  let rec go (ls : List Int) (xs : List Float) (acc : GenF.Helio.VsopTable) : GenF.Helio.VsopTable :=
    match ls with
    | [] => acc.reverse
    | l :: ls' => let (s, rest) := terms l.toNat xs []; go ls' rest (s :: acc)
  go lens flat []

/-- order-sensitive digest of the bits of every coefficient of a table (the harness computes the same
    number from the module attribute of the running pymeeus) -/
def tableDigest (t : GenF.Helio.VsopTable) : Nat :=
  let p : Nat := 2305843009213693951   -- 2^61 - 1
  let step (h : Nat) (x : Float) : Nat := (h * 1000003 + x.toBits.toNat + 1) % p
  t.foldl (fun h s => s.foldl (fun h x => step (step (step h x.1) x.2.1) x.2.2) ((h * 31 + 7) % p)) 0

def smallDigest (t : List (List Float)) : Nat :=
  let p : Nat := 2305843009213693951
  t.foldl (fun h s => s.foldl (fun h x => (h * 1000003 + x.toBits.toNat + 1) % p) ((h * 31 + 7) % p)) 0

def intDigest (t : List (List Int)) : Nat :=
  let p : Nat := 2305843009213693951
  t.foldl (fun h s => s.foldl (fun h x => (h * 1000003 + (x + 1000000).toNat + 1) % p) ((h * 31 + 7) % p)) 0

def vsopTableByName (name : String) : Option GenF.Helio.VsopTable :=
  match name.splitOn "." with
  | [p, "VSOP87_L"] => (GenF.Helio.planet_vsop p).map (·.1)
  | [p, "VSOP87_B"] => (GenF.Helio.planet_vsop p).map (·.2.1)
  | [p, "VSOP87_R"] => (GenF.Helio.planet_vsop p).map (·.2.2)
  | ["Earth", "VSOP87_L_J2000"] => some GenF.Helio.Earth_VSOP87_L_J2000
  | ["Earth", "VSOP87_B_J2000"] => some GenF.Helio.Earth_VSOP87_B_J2000
  | _ => none

def smallTableByName (name : String) : Option (List (List Float)) :=
  match name with
  | "Coordinates.NUTATION_SINE_COEF_TABLE" => some GenF.Helio.NUTATION_SINE_COEF_TABLE
  | "Coordinates.NUTATION_COSINE_COEF_TABLE" => some GenF.Helio.NUTATION_COSINE_COEF_TABLE
  | "Pluto.PLUTO_ARGUMENT" => some GenF.Helio.PLUTO_ARGUMENT
  | "Pluto.PLUTO_LONGITUDE" => some GenF.Helio.PLUTO_LONGITUDE
  | "Pluto.PLUTO_LATITUDE" => some GenF.Helio.PLUTO_LATITUDE
  | "Pluto.PLUTO_RADIUS_VECTOR" => some GenF.Helio.PLUTO_RADIUS_VECTOR
  | "Mercury.ORBITAL_ELEM" => some GenF.Helio.Mercury_ORBITAL_ELEM
  | "Mercury.ORBITAL_ELEM_J2000" => some GenF.Helio.Mercury_ORBITAL_ELEM_J2000
  | "Venus.ORBITAL_ELEM" => some GenF.Helio.Venus_ORBITAL_ELEM
  | "Venus.ORBITAL_ELEM_J2000" => some GenF.Helio.Venus_ORBITAL_ELEM_J2000
  | "Earth.ORBITAL_ELEM" => some GenF.Helio.Earth_ORBITAL_ELEM
  | "Earth.ORBITAL_ELEM_J2000" => some GenF.Helio.Earth_ORBITAL_ELEM_J2000
  | "Mars.ORBITAL_ELEM" => some GenF.Helio.Mars_ORBITAL_ELEM
  | "Mars.ORBITAL_ELEM_J2000" => some GenF.Helio.Mars_ORBITAL_ELEM_J2000
  | "Jupiter.ORBITAL_ELEM" => some GenF.Helio.Jupiter_ORBITAL_ELEM
  | "Jupiter.ORBITAL_ELEM_J2000" => some GenF.Helio.Jupiter_ORBITAL_ELEM_J2000
  | "Saturn.ORBITAL_ELEM" => some GenF.Helio.Saturn_ORBITAL_ELEM
  | "Saturn.ORBITAL_ELEM_J2000" => some GenF.Helio.Saturn_ORBITAL_ELEM_J2000
  | "Uranus.ORBITAL_ELEM" => some GenF.Helio.Uranus_ORBITAL_ELEM
  | "Uranus.ORBITAL_ELEM_J2000" => some GenF.Helio.Uranus_ORBITAL_ELEM_J2000
  | "Neptune.ORBITAL_ELEM" => some GenF.Helio.Neptune_ORBITAL_ELEM
  | "Neptune.ORBITAL_ELEM_J2000" => some GenF.Helio.Neptune_ORBITAL_ELEM_J2000
  | _ => none

def vsopF : Handler := fun fn a =>
  match fn with
  -- F vsop_pos sVenus <jde>
  | "vsop_pos" =>
    match GenF.Helio.planet_vsop a[0]!.s with
    | some (l, b, r) => some <| out (GenF.Helio.vsop_pos a[1]!.f l b r)
    | none => some "?noplanet"
  | "geometric_vsop_pos" =>
    match GenF.Helio.planet_vsop a[0]!.s with
    | some (l, b, r) => some <| out (GenF.Helio.geometric_vsop_pos a[1]!.f l b r a[2]!.b)
    | none => some "?noplanet"
  | "apparent_vsop_pos" =>
    match GenF.Helio.planet_vsop a[0]!.s with
    | some (l, b, r) => some <| out (GenF.Helio.apparent_vsop_pos a[1]!.f l b r a[2]!.b)
    | none => some "?noplanet"
  -- generic evaluator on tables given on the line: [lensL] [flatL] [lensB] [flatB] [lensR] [flatR] jde
  | "vsop_pos_tables" =>
    some <| out (GenF.Helio.vsop_pos a[6]!.f (unflatten (a[0]!.ql.map (·.floor)) a[1]!.fl)
      (unflatten (a[2]!.ql.map (·.floor)) a[3]!.fl) (unflatten (a[4]!.ql.map (·.floor)) a[5]!.fl))
  | "geometric_vsop_pos_tables" =>
    some <| out (GenF.Helio.geometric_vsop_pos a[6]!.f (unflatten (a[0]!.ql.map (·.floor)) a[1]!.fl)
      (unflatten (a[2]!.ql.map (·.floor)) a[3]!.fl) (unflatten (a[4]!.ql.map (·.floor)) a[5]!.fl) true)
  | "apparent_vsop_pos_tables" =>
    some <| out (GenF.Helio.apparent_vsop_pos a[6]!.f (unflatten (a[0]!.ql.map (·.floor)) a[1]!.fl)
      (unflatten (a[2]!.ql.map (·.floor)) a[3]!.fl) (unflatten (a[4]!.ql.map (·.floor)) a[5]!.fl) true)
  -- the per-planet wrapper methods (generated from the source)
  | "geometric_heliocentric_position" => some <| out (GenF.Helio.planet_geometric_heliocentric_position a[0]!.s a[1]!.f a[2]!.b)
  | "apparent_heliocentric_position" => some <| out (GenF.Helio.planet_apparent_heliocentric_position a[0]!.s a[1]!.f)
  | "earth_apparent_heliocentric_position" => some <| out (GenF.Helio.Earth_apparent_heliocentric_position a[0]!.f a[1]!.b)
  | "geometric_heliocentric_position_j2000" => some <| out (GenF.Helio.planet_geometric_heliocentric_position_j2000 a[0]!.s a[1]!.f a[2]!.b)
  | "orbital_elements_mean_equinox" => some <| out (GenF.Helio.planet_orbital_elements_mean_equinox a[0]!.s a[1]!.f)
  | "orbital_elements_j2000" => some <| out (GenF.Helio.planet_orbital_elements_j2000 a[0]!.s a[1]!.f)
  | "nutation_longitude" => some <| out (GenF.Helio.nutation_longitude a[0]!.f)
  | "nutation_obliquity" => some <| out (GenF.Helio.nutation_obliquity a[0]!.f)
  -- the Angle helpers
  | "ang_of_deg" => some <| out (GenF.Helio.angOfDeg a[0]!.f)
  | "ang_of_rad" => some <| out (GenF.Helio.angOfRad a[0]!.f)
  | "ang_to_positive" => some <| out (GenF.Helio.angToPositive a[0]!.f)
  | "ang_dms" => some <| out (GenF.Helio.angDms a[0]!.i a[1]!.i a[2]!.f)
  | "ang_add" => some <| out (GenF.Helio.angAdd a[0]!.f a[1]!.f)
  | "ang_subf" => some <| out (GenF.Helio.angSubF a[0]!.f a[1]!.f)
  | "ang_neg" => some <| out (GenF.Helio.angNeg a[0]!.f)
  | "ang_muli" => some <| out (GenF.Helio.angMulI a[0]!.f a[1]!.i)
  -- table digests
  | "table_digest" =>
    let name := a[0]!.s.replace " " "_"     -- the line protocol turns `_` into a blank
    match vsopTableByName name with
    | some t => some <| out (tableDigest t)
    | none =>
      match smallTableByName name with
      | some t => some <| out (smallDigest t)
      | none => if name == "Coordinates.NUTATION_ARG_TABLE" then some <| out (intDigest GenF.Helio.NUTATION_ARG_TABLE) else some "?notable"
  | _ => none

end Driver
