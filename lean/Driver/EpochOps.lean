import Driver.Core
import Pymeeus.Gen.Q.EpochOps
import Pymeeus.Gen.F.EpochOps
/-
Driver handlers for templates/EpochOps.lean.

  get_full_date <jde>
  set_none | set_other | set_two | set_seq_short | set_many_short
  set_epoch <jde> | set_number <x>
  set_seq <y> <month> <d> [rest…]   | set_many <y> <month> <d> [rest…]
  set_datetime <y> <m> <d> <h> <mi> <s> <us> | set_date <y> <m> <d>
  reset_<shape> <old jde> …          -- `e.set(…)` on an existing object with `_jde = old`
  cid_<shape> …                      -- `Epoch.check_input_date(…)`
  add|radd|iadd|sub|isub <jde> <x>   ; sub_epoch <jde> <jde2> ; <op>_other <jde>
  eq|ne|lt|le|gt|ge <jde> <x>        ; eqe|nee|lte|lee|gte|gee <jde> <jde2> ; cmp_other <op> <jde>
  to_int <jde> ; to_float <jde>
month = int | f<bits> | s<name>.
-/
namespace Driver
open Pymeeus

def monthQ : Arg → GenQ.MonthArg
  | .int n => .num n
  | .flt x => .flt (PF.toRat x)
  | .str s => .name s
  | _ => .num 0
def monthF : Arg → GenF.MonthArg
  | .int n => .num n
  | .flt x => .flt x
  | .str s => .name s
  | _ => .num 0

instance : Out GenQ.Epoch := ⟨fun e => out e.jde⟩
instance : Out GenF.Epoch := ⟨fun e => out e.jde⟩
instance : Out GenQ.SubRes := ⟨fun r => match r with | .epoch e => out e.jde | .days x => out x⟩
instance : Out GenF.SubRes := ⟨fun r => match r with | .epoch e => out e.jde | .days x => out x⟩

/-- shape of the arguments, from the suffix of the function name and the argument list at offset `k` -/
def shapeQ (sh : String) (a : Array Arg) (k : Nat) : Option GenQ.SetArgs :=
  match sh with
  | "none" => some .none
  | "other" => some .other
  | "two" => some .two
  | "seq_short" => some (.seq .short)
  | "many_short" => some (.many .short)
  | "epoch" => some (.epoch { jde := a[k]!.q })
  | "number" => some (.number a[k]!.q)
  | "seq" => some (.seq (.ymd a[k]!.i (monthQ a[k+1]!) a[k+2]!.q a[k+3]!.ql))
  | "many" => some (.many (.ymd a[k]!.i (monthQ a[k+1]!) a[k+2]!.q a[k+3]!.ql))
  | "datetime" => some (.datetime a[k]!.i a[k+1]!.i a[k+2]!.i a[k+3]!.i a[k+4]!.i a[k+5]!.i a[k+6]!.i)
  | "date" => some (.date a[k]!.i a[k+1]!.i a[k+2]!.i)
  | _ => none

def shapeF (sh : String) (a : Array Arg) (k : Nat) : Option GenF.SetArgs :=
  match sh with
  | "none" => some .none
  | "other" => some .other
  | "two" => some .two
  | "seq_short" => some (.seq .short)
  | "many_short" => some (.many .short)
  | "epoch" => some (.epoch { jde := a[k]!.f })
  | "number" => some (.number a[k]!.f)
  | "seq" => some (.seq (.ymd a[k]!.i (monthF a[k+1]!) a[k+2]!.f a[k+3]!.fl))
  | "many" => some (.many (.ymd a[k]!.i (monthF a[k+1]!) a[k+2]!.f a[k+3]!.fl))
  | "datetime" => some (.datetime a[k]!.i a[k+1]!.i a[k+2]!.i a[k+3]!.i a[k+4]!.i a[k+5]!.i a[k+6]!.i)
  | "date" => some (.date a[k]!.i a[k+1]!.i a[k+2]!.i)
  | _ => none

def opNames : List String := ["eq", "ne", "lt", "le", "gt", "ge", "add", "radd", "iadd", "sub", "isub"]

def cmpQ (op : String) (e : GenQ.Epoch) (b : GenQ.EpOperand) : Option (PyRes Bool) :=
  match op with
  | "eq" => some (e.eq b) | "ne" => some (e.ne b) | "lt" => some (e.lt b)
  | "le" => some (e.le b) | "gt" => some (e.gt b) | "ge" => some (e.ge b)
  | _ => none
def cmpF (op : String) (e : GenF.Epoch) (b : GenF.EpOperand) : Option (PyRes Bool) :=
  match op with
  | "eq" => some (e.eq b) | "ne" => some (e.ne b) | "lt" => some (e.lt b)
  | "le" => some (e.le b) | "gt" => some (e.gt b) | "ge" => some (e.ge b)
  | _ => none

def arithQ (op : String) (e : GenQ.Epoch) (b : GenQ.EpOperand) : Option String :=
  match op with
  | "add" => some (out (e.add b)) | "radd" => some (out (e.radd b)) | "iadd" => some (out (e.iadd b))
  | "sub" => some (out (e.sub b)) | "isub" => some (out (e.isub b))
  | _ => none
def arithF (op : String) (e : GenF.Epoch) (b : GenF.EpOperand) : Option String :=
  match op with
  | "add" => some (out (e.add b)) | "radd" => some (out (e.radd b)) | "iadd" => some (out (e.iadd b))
  | "sub" => some (out (e.sub b)) | "isub" => some (out (e.isub b))
  | _ => none

def epochOpsQ : Handler := fun fn a =>
  if fn == "get_full_date" then some <| out (GenQ.get_full_date a[0]!.q)
  else if fn.startsWith "set_" then
    (shapeQ (fn.drop 4).toString a 0).map fun s => out (GenQ.Epoch.init s)
  else if fn.startsWith "reset_" then
    (shapeQ (fn.drop 6).toString a 1).map fun s => out (GenQ.Epoch.set { jde := a[0]!.q } s)
  else if fn.startsWith "cid_" then
    (shapeQ (fn.drop 4).toString a 0).map fun s => out (GenQ.check_input_date s)
  else if fn == "to_int" then some <| out (GenQ.Epoch.toInt { jde := a[0]!.q })
  else if fn == "to_float" then some <| out (GenQ.Epoch.toFloat { jde := a[0]!.q })
  else if fn == "sub_epoch" then some <| out (GenQ.Epoch.sub { jde := a[0]!.q } (.epoch { jde := a[1]!.q }))
  else if fn == "cmp_other" then (cmpQ a[0]!.s { jde := a[1]!.q } .other).map out
  else if fn == "arith_other" then arithQ a[0]!.s { jde := a[1]!.q } .other
  else if fn.endsWith "_epoch" && opNames.contains (fn.dropEnd 6).toString then
    -- <op>_epoch <jde> <jde2> for the comparisons and for radd/iadd/add/isub with an Epoch operand
    let op := (fn.dropEnd 6).toString
    match cmpQ op { jde := a[0]!.q } (.epoch { jde := a[1]!.q }) with
    | some r => some (out r)
    | none => arithQ op { jde := a[0]!.q } (.epoch { jde := a[1]!.q })
  else if !opNames.contains fn then none else
    match cmpQ fn { jde := a[0]!.q } (.num a[1]!.q) with
    | some r => some (out r)
    | none => arithQ fn { jde := a[0]!.q } (.num a[1]!.q)

def epochOpsF : Handler := fun fn a =>
  if fn == "get_full_date" then some <| out (GenF.get_full_date a[0]!.f)
  else if fn.startsWith "set_" then
    (shapeF (fn.drop 4).toString a 0).map fun s => out (GenF.Epoch.init s)
  else if fn.startsWith "reset_" then
    (shapeF (fn.drop 6).toString a 1).map fun s => out (GenF.Epoch.set { jde := a[0]!.f } s)
  else if fn.startsWith "cid_" then
    (shapeF (fn.drop 4).toString a 0).map fun s => out (GenF.check_input_date s)
  else if fn == "to_int" then some <| out (GenF.Epoch.toInt { jde := a[0]!.f })
  else if fn == "to_float" then some <| out (GenF.Epoch.toFloat { jde := a[0]!.f })
  else if fn == "sub_epoch" then some <| out (GenF.Epoch.sub { jde := a[0]!.f } (.epoch { jde := a[1]!.f }))
  else if fn == "cmp_other" then (cmpF a[0]!.s { jde := a[1]!.f } .other).map out
  else if fn == "arith_other" then arithF a[0]!.s { jde := a[1]!.f } .other
  else if fn.endsWith "_epoch" && opNames.contains (fn.dropEnd 6).toString then
    let op := (fn.dropEnd 6).toString
    match cmpF op { jde := a[0]!.f } (.epoch { jde := a[1]!.f }) with
    | some r => some (out r)
    | none => arithF op { jde := a[0]!.f } (.epoch { jde := a[1]!.f })
  else if !opNames.contains fn then none else
    match cmpF fn { jde := a[0]!.f } (.num a[1]!.f) with
    | some r => some (out r)
    | none => arithF fn { jde := a[0]!.f } (.num a[1]!.f)

end Driver
