import Driver.Core
import Pymeeus.Gen.F.SunEvents
/-
Driver handlers of the C14 model (templates/SunEvents.lean), binary64 instantiation only: every
function calls sin/cos/acos, so there is no exact-rational run.
-/
namespace Driver
open Pymeeus Pymeeus.GenF.SunEvents

def sunEventsF : Handler := fun fn a =>
  match fn with
  | "se_reduce" => some <| out (aReduce a[0]!.f)
  | "se_to_positive" => some <| out (aToPositive a[0]!.f)
  | "se_of_radians" => some <| out (aOfRadians a[0]!.f)
  | "se_round0" => some <| out (round0 a[0]!.f)
  | "se_mk_epoch" => some <| out (mkEpoch a[0]!.f)
  | "season_index" => some <| out (season_index a[0]!.s)
  | "season_jde0" => some <| out (season_jde0 a[0]!.i a[1]!.i)
  | "season_corr" => some <| out (season_corr a[0]!.i a[1]!.f)
  -- year target [jdes the implementation asked the solar longitude for] [the longitudes it got]
  | "get_equinox_solstice" =>
      let jdes := a[2]!.fl
      let lons := a[3]!.fl
      some <| out (get_equinox_solstice mkEpoch (sunLonOfTable jdes lons) (jdes.length + 1) a[0]!.i a[1]!.s)
  | "get_equinox_solstice_year" => some <| out (get_equinox_solstice_year a[0]!.i a[1]!.s)
  | "eot_l0" => some <| out (eot_l0 a[0]!.f)
  | "equation_of_time" => some <| out (equation_of_time a[0]!.f a[1]!.f a[2]!.f a[3]!.f)
  | "rise_limit" => some <| out rise_limit
  | "rise_set" => some <| out (rise_set a[0]!.f a[1]!.i a[2]!.f a[3]!.f a[4]!.f)
  | "rts_interpol" => some <| out (rts_interpol a[0]!.f a[1]!.f a[2]!.f a[3]!.f)
  | "rts_elevation" => some <| out (rts_elevation a[0]!.f a[1]!.f a[2]!.f)
  | "times_rise_transit_set" =>
      some <| out (times_rise_transit_set a[0]!.f a[1]!.f a[2]!.f a[3]!.f a[4]!.f a[5]!.f a[6]!.f a[7]!.f
                    a[8]!.f a[9]!.f a[10]!.f)
  | _ => none

end Driver
