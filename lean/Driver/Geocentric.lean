import Driver.Core
import Pymeeus.Gen.F.Geocentric
/-
Driver handlers for the geocentric reductions (binary64 instantiation only).
An Epoch is passed as its JDE, an Angle as its value in degrees, a planet by its class name.
-/
namespace Driver
open Pymeeus

def minorOf (a : Array Arg) : PyRes GenF.Helio.MinorBody :=
  GenF.Helio.minor_set a[0]!.f a[1]!.f a[2]!.f a[3]!.f a[4]!.f a[5]!.f

def geocentricF : Handler := fun fn a =>
  match fn with
  | "geo_epoch_of_jde" => some <| out (GenF.Helio.geo_epoch_of_jde a[0]!.f)
  | "geo_epoch_year" => some <| out (GenF.Helio.geo_epoch_year a[0]!.f)
  | "ecliptical2equatorial" => some <| out (GenF.Helio.ecliptical2equatorial a[0]!.f a[1]!.f a[2]!.f)
  | "planet_geocentric_position" =>
    some <| out (GenF.Helio.planet_geocentric_position GenF.Helio.geo_epoch_of_jde a[0]!.s a[1]!.f)
  | "pluto_geometric_heliocentric_position" =>
    some <| out (GenF.Helio.pluto_geometric_heliocentric_position (GenF.Helio.geo_epoch_year a[0]!.f) a[0]!.f)
  | "pluto_geocentric_position" =>
    some <| out (GenF.Helio.pluto_geocentric_position GenF.Helio.geo_epoch_of_jde GenF.Helio.geo_epoch_year a[0]!.f)
  | "kepler_equation" => some <| out (GenF.Helio.kepler_equation a[0]!.f a[1]!.f)
  -- minor bodies: q e i omega w t  then the epoch / time argument
  | "minor_geocentric_position" =>
    some <| out (match minorOf a with
      | .error e => (.error e : PyRes (Float × Float × Float))
      | .ok b => GenF.Helio.minor_geocentric_position b a[6]!.f)
  | "minor_heliocentric_ecliptical_position" =>
    some <| out (match minorOf a with
      | .error e => (.error e : PyRes (Float × Float))
      | .ok b => GenF.Helio.minor_heliocentric_ecliptical_position b a[6]!.f)
  | "minor_near_parabolic" =>
    some <| out (match minorOf a with
      | .error e => (.error e : PyRes (Float × Float))
      | .ok b => GenF.Helio.near_parabolic b a[6]!.f)
  | "minor_elements" =>
    some <| out (match minorOf a with
      | .error e => (.error e : PyRes (List Float))
      | .ok b => .ok [b.aa, b.bb, b.cc, b.am, b.bm, b.cm, b.a, b.n])
  | _ => none

end Driver
