import Driver.Core
import Pymeeus.Gen.Q.Angle
import Pymeeus.Gen.F.Angle
import Pymeeus.Gen.F.AngleR
/-
Driver handlers for the Angle model (C03, C04).  The Q and F handlers are the same text at the two
instantiations; the F handler also serves the functions of templates/AngleR.lean.

  Angle value    : `[deg,tol]`
  operand        : int token | float token | `[deg,tol]`
  shape          : `s<tag> <payload>` with tag none|num|copy|seq|args
-/
namespace Driver
namespace AngleQ
open Pymeeus Pymeeus.GenQ

instance : Out Angle := ⟨fun a => out a.deg ++ " " ++ out a.tol⟩
instance : Out Printed := ⟨fun p => match p with
  | .dms d m s => "dms " ++ out d ++ " " ++ out m ++ " " ++ out s
  | .ms m s => "ms " ++ out m ++ " " ++ out s
  | .s s => "s " ++ out s
  | .zero => "zero"⟩

/-- `[deg,tol]` -/
def angleOf (a : Arg) : Angle :=
  match a.ql with
  | [d, t] => ⟨d, t⟩
  | _ => ⟨0, 0⟩

/-- operand token: int | float | `[deg,tol]` -/
def operandOf (a : Arg) : Operand :=
  match a with
  | .int n => .int n
  | .flt _ => .flt a.q
  | .list _ => .ang (angleOf a)
  | _ => .int 0

/-- shape: tag string + payload -/
def shapeOf (tag : String) (p : Arg) : Option Shape :=
  match tag with
  | "none" => some .none
  | "num" => some (.num p.q)
  | "copy" => some (.copy (angleOf p))
  | "seq" => some (.seq p.ql)
  | "args" => some (.args p.ql)
  | _ => none

def handler : Handler := fun fn a =>
  match fn with
  | "proundn" => some <| out (PQ.proundn a[0]!.q a[1]!.i)
  | "reduce_deg" => some <| out (reduce_deg a[0]!.q)
  | "reduce_dms" => some <| out (reduce_dms a[0]!.q a[1]!.q a[2]!.q)
  | "dms2deg" => some <| out (dms2deg a[0]!.q a[1]!.q a[2]!.q)
  | "deg2dms" => some <| out (deg2dms a[0]!.q)
  | "angle_new" => (shapeOf a[1]!.s a[2]!).map fun s =>
      out (if a[0]!.b then angle_new_ra s else angle_new s)
  | "angle_set" => (shapeOf a[2]!.s a[3]!).map fun s =>
      out (if a[1]!.b then angle_set_ra (angleOf a[0]!) s else angle_set (angleOf a[0]!) s)
  | "get_ra" => some <| out (get_ra (angleOf a[0]!))
  | "angle_int" => some <| out (angle_int (angleOf a[0]!))
  | "dms_tuple" => some <| out (dms_tuple (angleOf a[0]!))
  | "ra_tuple" => some <| out (ra_tuple (angleOf a[0]!))
  | "to_positive" => some <| out (to_positive (angleOf a[0]!))
  | "neg" => some <| out (angle_neg (angleOf a[0]!))
  | "abs" => some <| out (angle_abs (angleOf a[0]!))
  | "round" => some <| out (angle_round (angleOf a[0]!) a[1]!.i)
  | "cmp" =>
    let x := angleOf a[1]!
    let b := operandOf a[2]!
    (match a[0]!.s with
     | "eq" => some (angle_eq x b) | "ne" => some (angle_ne x b)
     | "lt" => some (angle_lt x b) | "ge" => some (angle_ge x b)
     | "gt" => some (angle_gt x b) | "le" => some (angle_le x b)
     | _ => none).map out
  | "binop" =>
    let x := angleOf a[1]!
    let b := operandOf a[2]!
    ((match a[0]!.s with
     | "add" => some (.ok (angle_add x b)) | "sub" => some (.ok (angle_sub x b))
     | "mul" => some (.ok (angle_mul x b)) | "div" => some (angle_div x b)
     | "mod" => some (angle_mod x b)
     | "iadd" => some (.ok (angle_iadd x b)) | "isub" => some (.ok (angle_isub x b))
     | "imul" => some (.ok (angle_imul x b)) | "idiv" => some (angle_idiv x b)
     | "imod" => some (angle_imod x b)
     | "radd" => some (.ok (angle_radd x b)) | "rsub" => some (.ok (angle_rsub x b))
     | "rmul" => some (.ok (angle_rmul x b)) | "rdiv" => some (angle_rdiv x b)
     | "rmod" => some (angle_rmod x b)
     | _ => none) : Option (PyRes Angle)).map out
  | "pow_int" => some <| out (angle_pow_int (angleOf a[0]!) a[1]!.i)
  | "dms_fields" => some <| out (dms_fields a[0]!.q a[1]!.i)
  | "dms_print" => some <| out (dms_print a[0]!.q a[1]!.i)
  | "ra_print" => some <| out (ra_print a[0]!.q a[1]!.i)
  | _ => none
end AngleQ

namespace AngleF
open Pymeeus Pymeeus.GenF

instance : Out Angle := ⟨fun a => out a.deg ++ " " ++ out a.tol⟩
instance : Out Printed := ⟨fun p => match p with
  | .dms d m s => "dms " ++ out d ++ " " ++ out m ++ " " ++ out s
  | .ms m s => "ms " ++ out m ++ " " ++ out s
  | .s s => "s " ++ out s
  | .zero => "zero"⟩

/-- `[deg,tol]` -/
def angleOf (a : Arg) : Angle :=
  match a.fl with
  | [d, t] => ⟨d, t⟩
  | _ => ⟨0, 0⟩

/-- operand token: int | float | `[deg,tol]` -/
def operandOf (a : Arg) : Operand :=
  match a with
  | .int n => .int n
  | .flt _ => .flt a.f
  | .list _ => .ang (angleOf a)
  | _ => .int 0

/-- shape: tag string + payload -/
def shapeOf (tag : String) (p : Arg) : Option Shape :=
  match tag with
  | "none" => some .none
  | "num" => some (.num p.f)
  | "copy" => some (.copy (angleOf p))
  | "seq" => some (.seq p.fl)
  | "args" => some (.args p.fl)
  | _ => none

def handler : Handler := fun fn a =>
  match fn with
  | "proundn" => some <| out (PF.proundn a[0]!.f a[1]!.i)
  | "reduce_deg" => some <| out (reduce_deg a[0]!.f)
  | "reduce_dms" => some <| out (reduce_dms a[0]!.f a[1]!.f a[2]!.f)
  | "dms2deg" => some <| out (dms2deg a[0]!.f a[1]!.f a[2]!.f)
  | "deg2dms" => some <| out (deg2dms a[0]!.f)
  | "angle_new" => (shapeOf a[1]!.s a[2]!).map fun s =>
      out (if a[0]!.b then angle_new_ra s else angle_new s)
  | "angle_set" => (shapeOf a[2]!.s a[3]!).map fun s =>
      out (if a[1]!.b then angle_set_ra (angleOf a[0]!) s else angle_set (angleOf a[0]!) s)
  | "get_ra" => some <| out (get_ra (angleOf a[0]!))
  | "angle_int" => some <| out (angle_int (angleOf a[0]!))
  | "dms_tuple" => some <| out (dms_tuple (angleOf a[0]!))
  | "ra_tuple" => some <| out (ra_tuple (angleOf a[0]!))
  | "to_positive" => some <| out (to_positive (angleOf a[0]!))
  | "neg" => some <| out (angle_neg (angleOf a[0]!))
  | "abs" => some <| out (angle_abs (angleOf a[0]!))
  | "round" => some <| out (angle_round (angleOf a[0]!) a[1]!.i)
  | "cmp" =>
    let x := angleOf a[1]!
    let b := operandOf a[2]!
    (match a[0]!.s with
     | "eq" => some (angle_eq x b) | "ne" => some (angle_ne x b)
     | "lt" => some (angle_lt x b) | "ge" => some (angle_ge x b)
     | "gt" => some (angle_gt x b) | "le" => some (angle_le x b)
     | _ => none).map out
  | "binop" =>
    let x := angleOf a[1]!
    let b := operandOf a[2]!
    ((match a[0]!.s with
     | "add" => some (.ok (angle_add x b)) | "sub" => some (.ok (angle_sub x b))
     | "mul" => some (.ok (angle_mul x b)) | "div" => some (angle_div x b)
     | "mod" => some (angle_mod x b)
     | "iadd" => some (.ok (angle_iadd x b)) | "isub" => some (.ok (angle_isub x b))
     | "imul" => some (.ok (angle_imul x b)) | "idiv" => some (angle_idiv x b)
     | "imod" => some (angle_imod x b)
     | "radd" => some (.ok (angle_radd x b)) | "rsub" => some (.ok (angle_rsub x b))
     | "rmul" => some (.ok (angle_rmul x b)) | "rdiv" => some (angle_rdiv x b)
     | "rmod" => some (angle_rmod x b)
     | _ => none) : Option (PyRes Angle)).map out
  | "pow_int" => some <| out (angle_pow_int (angleOf a[0]!) a[1]!.i)
  | "dms_fields" => some <| out (dms_fields a[0]!.f a[1]!.i)
  | "dms_print" => some <| out (dms_print a[0]!.f a[1]!.i)
  | "ra_print" => some <| out (ra_print a[0]!.f a[1]!.i)
  | "angle_new_kw" => (shapeOf a[2]!.s a[3]!).map fun s => out (angle_new_kw s a[0]!.b a[1]!.b)
  | "set_radians" => some <| out (angle_set_radians (angleOf a[0]!) a[1]!.f)
  | "rad" => some <| out (angle_rad (angleOf a[0]!))
  | "pow" => some <| out (angle_pow (angleOf a[0]!) (operandOf a[1]!))
  | "rpow" => some <| out (angle_rpow (angleOf a[0]!) (operandOf a[1]!))
  | _ => none
end AngleF

def angleQ : Handler := AngleQ.handler
def angleF : Handler := AngleF.handler

end Driver
