import Driver.Core
import Pymeeus.Gen.F.SunEarth
/-
Driver handlers for the Sun / Earth frame functions (binary64 instantiation only).
An Epoch is passed as its JDE.
-/
namespace Driver
open Pymeeus

def sunEarthF : Handler := fun fn a =>
  match fn with
  | "mean_obliquity" => some <| out (GenF.Helio.mean_obliquity a[0]!.f)
  | "true_obliquity" => some <| out (GenF.Helio.true_obliquity a[0]!.f)
  | "sun_geometric_geocentric_position" => some <| out (GenF.Helio.sun_geometric_geocentric_position a[0]!.f a[1]!.b)
  | "sun_apparent_geocentric_position" => some <| out (GenF.Helio.sun_apparent_geocentric_position a[0]!.f a[1]!.b)
  | "rectangular_coordinates_mean_equinox" => some <| out (GenF.Helio.rectangular_coordinates_mean_equinox a[0]!.f)
  | "rectangular_coordinates_j2000" => some <| out (GenF.Helio.rectangular_coordinates_j2000 a[0]!.f)
  | "rectangular_coordinates_b1950" => some <| out (GenF.Helio.rectangular_coordinates_b1950 a[0]!.f)
  | "rectangular_coordinates_equinox" => some <| out (GenF.Helio.rectangular_coordinates_equinox a[0]!.f a[1]!.f)
  | "true_longitude_coarse" => some <| out (GenF.Helio.true_longitude_coarse a[0]!.f)
  | "apparent_longitude_coarse" => some <| out (GenF.Helio.apparent_longitude_coarse a[0]!.f)
  | "apparent_rightascension_declination_coarse" => some <| out (GenF.Helio.apparent_rightascension_declination_coarse a[0]!.f)
  | "longitude_mean_ascending_node" => some <| out (GenF.Helio.longitude_mean_ascending_node a[0]!.f)
  | _ => none

end Driver
