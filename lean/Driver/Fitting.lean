import Driver.Core
import Pymeeus.Gen.Q.CurveFitting
import Pymeeus.Gen.F.CurveFitting
/-
Driver handlers for the model of pymeeus/CurveFitting.py (property C17).

  fit_set a1 a2 ...             `CurveFitting(a1, a2, ...)` -> N P Q R S T U V W | E:<class>
  fit_linear [xs] [ys]          `CurveFitting(xs, ys).linear_fitting()`      -> a b
  fit_quadratic [xs] [ys]       `... .quadratic_fitting()`                   -> a b c
  fit_general [c0] [c1] [c2] [ys]   `general_fitting(f0, f1, f2)` on the evaluated columns c_k[i] = f_k(x_i) -> a b c
  fit_corr [xs] [ys]            `... .correlation_coeff()`   (binary64 instantiation only: uses sqrt)
-/
namespace Driver
open Pymeeus

namespace FQ
open Pymeeus.GenQ.CurveFitting
def toArg : Arg → FitArg
  | .int n => .num (n : Rat)
  | .flt x => .num (PF.toRat x)
  | .list xs => .list (xs.map Arg.q)
  | _ => .other
def showF : PyRes Fit → String
  | .error e => "E:" ++ toString e
  | .ok o => if o.x.isEmpty then "empty" else
      " ".intercalate (toString o.N :: [o.P, o.Q, o.R, o.S, o.T, o.U, o.V, o.W].map out)
end FQ

namespace FF
open Pymeeus.GenF.CurveFitting
def toArg : Arg → FitArg
  | .int n => .num (Float.ofInt n)
  | .flt x => .num x
  | .list xs => .list (xs.map Arg.f)
  | _ => .other
def showF : PyRes Fit → String
  | .error e => "E:" ++ toString e
  | .ok o => if o.x.isEmpty then "empty" else
      " ".intercalate (toString o.N :: [o.P, o.Q, o.R, o.S, o.T, o.U, o.V, o.W].map out)
end FF

def fittingQ : Handler := fun fn a =>
  open Pymeeus.GenQ.CurveFitting in
  match fn with
  | "fit_set" => some <| FQ.showF (GenQ.CurveFitting.set (a.toList.map FQ.toArg))
  | "fit_linear" => some <| out (GenQ.CurveFitting.set [.list a[0]!.ql, .list a[1]!.ql] >>= linear_fitting)
  | "fit_quadratic" => some <| out (GenQ.CurveFitting.set [.list a[0]!.ql, .list a[1]!.ql] >>= quadratic_fitting)
  | "fit_general" => some <| out (general_fitting_cols a[0]!.ql a[1]!.ql a[2]!.ql a[3]!.ql)
  | _ => none

def fittingF : Handler := fun fn a =>
  open Pymeeus.GenF.CurveFitting in
  match fn with
  | "fit_set" => some <| FF.showF (GenF.CurveFitting.set (a.toList.map FF.toArg))
  | "fit_linear" => some <| out (GenF.CurveFitting.set [.list a[0]!.fl, .list a[1]!.fl] >>= linear_fitting)
  | "fit_quadratic" => some <| out (GenF.CurveFitting.set [.list a[0]!.fl, .list a[1]!.fl] >>= quadratic_fitting)
  | "fit_general" => some <| out (general_fitting_cols a[0]!.fl a[1]!.fl a[2]!.fl a[3]!.fl)
  | "fit_corr" => some <| out (GenF.CurveFitting.set [.list a[0]!.fl, .list a[1]!.fl] >>= correlation_coeff)
  | _ => none

end Driver
