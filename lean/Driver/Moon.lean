import Driver.Core
import Pymeeus.Gen.F.Moon
/-
Driver handlers of the binary64 Moon model (property C15).  There is no `Q` instantiation:
the functions use sin/cos/asin/atan2, so the exact model is the real-number one (theorems only).
-/
namespace Driver
open Pymeeus Pymeeus.GenF.MoonM

def moonF : Handler := fun fn a =>
  match fn with
  | "moon_pos" => some <| out (geocentric_ecliptical_pos a[0]!.f)
  | "moon_app_ecl" => some <| out (apparent_ecliptical_pos a[0]!.f a[1]!.f)
  | "moon_app_equ" => some <| out (apparent_equatorial_pos a[0]!.f a[1]!.f a[2]!.f)
  | "moon_ecl2equ" => some <| out (ecliptical2equatorial a[0]!.f a[1]!.f a[2]!.f)
  | "moon_mean_node" => some <| out (longitude_mean_ascending_node a[0]!.f)
  | "moon_true_node" => some <| out (longitude_true_ascending_node a[0]!.f)
  | "moon_mean_perigee" => some <| out (longitude_mean_perigee a[0]!.f)
  | "moon_illum" => some <| out (illuminated_fraction_disk a[0]!.f)
  | "moon_bright_limb" => some <| out (position_bright_limb a[0]!.f a[1]!.f a[2]!.f a[3]!.f)
  | "moon_phase_raw" => some <| out (moon_phase_raw a[0]!.f a[1]!.s)
  | "moon_phase_j" => some <| out (moon_phase a[0]!.f a[1]!.s)
  | "moon_apsis_j" => some <| out (moon_perigee_apogee a[0]!.f a[1]!.s)
  | "moon_nodes_j" => some <| out (moon_passage_nodes a[0]!.f a[1]!.s)
  | "moon_decl_j" => some <| out (moon_maximum_declination a[0]!.f a[1]!.s)
  | "moon_app_ecl_j" => some <| out (apparent_ecliptical_pos_jde a[0]!.f)
  | "moon_app_equ_j" => some <| out (apparent_equatorial_pos_jde a[0]!.f)
  | "moon_bright_limb_j" => some <| out (position_bright_limb_jde a[0]!.f)
  | "moon_epoch_of_jde" => some <| out (epoch_of_jde a[0]!.f)
  | "moon_reduce_deg" => some <| out (reduce_deg a[0]!.f)
  | "moon_to_positive" => some <| out (to_positive a[0]!.f)
  | "moon_angle_dms00" => some <| out (angle_dms00 a[0]!.f)
  | _ => none

end Driver
