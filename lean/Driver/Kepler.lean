import Driver.Core
import Pymeeus.Gen.F.Kepler
/-! Driver handlers for the model of C11 (binary64 instantiation only: the functions use
    sin/cos/tan/atan/sqrt, there is no exact-rational instantiation). -/
namespace Driver
open Pymeeus Pymeeus.GenF


def keplerF : Handler := fun fn a =>
  match fn with
  | "k_reduce_deg" => some <| out (Kepler.reduce_deg a[0]!.f)
  | "k_angle_of_rad" => some <| out (Kepler.angle_of_rad a[0]!.f)
  | "k_angle_rsub" => some <| out (Kepler.angle_rsub a[0]!.f a[1]!.f)
  | "k_to_positive" => some <| out (Kepler.to_positive a[0]!.f)
  | "kepler_equation" => some <| out (Kepler.kepler_equation a[0]!.f a[1]!.f)
  | "kepler_of_float" => some <| out (Kepler.kepler_of_float a[0]!.f a[1]!.f)
  | "velocity" => some <| out (Kepler.velocity a[0]!.f a[1]!.f)
  | "velocity_perihelion" => some <| out (Kepler.velocity_perihelion a[0]!.f a[1]!.f)
  | "velocity_aphelion" => some <| out (Kepler.velocity_aphelion a[0]!.f a[1]!.f)
  | "length_orbit" => some <| out (Kepler.length_orbit a[0]!.f a[1]!.f)
  | "passage_nodes_elliptic" =>
      some <| out (Kepler.passage_nodes_elliptic a[0]!.f a[1]!.f a[2]!.f a[3]!.f a[4]!.b)
  | "passage_nodes_parabolic" =>
      some <| out (Kepler.passage_nodes_parabolic a[0]!.f a[1]!.f a[2]!.f a[3]!.b)
  | "phase_angle" => some <| out (Kepler.phase_angle a[0]!.f a[1]!.f a[2]!.f)
  | "illuminated_fraction" => some <| out (Kepler.illuminated_fraction a[0]!.f a[1]!.f a[2]!.f)
  | _ => none

end Driver
