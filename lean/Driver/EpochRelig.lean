import Driver.Core
import Pymeeus.Gen.Q.EpochRelig
import Pymeeus.Gen.F.EpochRelig
import Pymeeus.Spec.Computus
import Pymeeus.Spec.Hebrew
import Pymeeus.Spec.Islamic
/-
Driver handlers of the religious-calendar model (property C19).  The `spec_*` entries run the Lean
specifications themselves, so that the harness can compare them with its independent oracles.
-/
namespace Driver
open Pymeeus

instance {α β} [Out α] [Out β] : Out (α ⊕ β) := ⟨fun r => match r with | .inl a => out a | .inr b => out b⟩

def epochReligQ : Handler := fun fn a =>
  match fn with
  | "easter" => some <| out (GenQ.easter a[0]!.i)
  | "jewish_pesach" => some <| out (GenQ.jewish_pesach a[0]!.i)
  | "moslem2gregorian" => some <| out (GenQ.moslem2gregorian a[0]!.i a[1]!.i a[2]!.i)
  | "gregorian2moslem" => some <| out (GenQ.gregorian2moslem a[0]!.i a[1]!.i a[2]!.i)
  | "easter_num" => some <| out (GenQ.easter_num a[0]!.q)
  | "jewish_pesach_num" => some <| out (GenQ.jewish_pesach_num a[0]!.q)
  | "moslem2gregorian_num" => some <| out (GenQ.moslem2gregorian_num a[0]!.q a[1]!.q a[2]!.q)
  | "gregorian2moslem_num" => some <| out (GenQ.gregorian2moslem_num a[0]!.q a[1]!.q a[2]!.q)
  | "relig_doy2date_julian" => some <| out (GenQ.relig_doy2date_julian a[0]!.i a[1]!.i)
  | "spec_easter" => some <| out (Spec.Computus.easter a[0]!.i)
  | "spec_rosh_hashanah" => some <| out (Spec.Hebrew.roshHashanah a[0]!.i)
  | "spec_nisan15" => some <| out (Spec.Hebrew.nisan15 a[0]!.i)
  | "spec_islamic_jdn" => some <| out (Spec.Islamic.jdn a[0]!.i a[1]!.i a[2]!.i)
  | "spec_islamic_valid" => some <| out (decide (Spec.Islamic.Valid a[0]!.i a[1]!.i a[2]!.i))
  | "spec_islamic_next" => some <| out (Spec.Islamic.next a[0]!.i a[1]!.i a[2]!.i)
  | "relig_dow" => some <| out (GenQ.relig_dow a[0]!.q)
  | "relig_dow_ymd" => some <| out (match GenQ.epoch_ymd a[0]!.i a[1]!.i a[2]!.q with
        | .error e => (.error e : PyRes Int)
        | .ok j => .ok (GenQ.relig_dow j))
  | _ => none

def epochReligF : Handler := fun fn a =>
  match fn with
  | "easter" => some <| out (GenF.easter a[0]!.i)
  | "jewish_pesach" => some <| out (GenF.jewish_pesach a[0]!.i)
  | "moslem2gregorian" => some <| out (GenF.moslem2gregorian a[0]!.i a[1]!.i a[2]!.i)
  | "gregorian2moslem" => some <| out (GenF.gregorian2moslem a[0]!.i a[1]!.i a[2]!.i)
  | "easter_num" => some <| out (GenF.easter_num a[0]!.f)
  | "jewish_pesach_num" => some <| out (GenF.jewish_pesach_num a[0]!.f)
  | "moslem2gregorian_num" => some <| out (GenF.moslem2gregorian_num a[0]!.f a[1]!.f a[2]!.f)
  | "gregorian2moslem_num" => some <| out (GenF.gregorian2moslem_num a[0]!.f a[1]!.f a[2]!.f)
  | "relig_doy2date_julian" => some <| out (GenF.relig_doy2date_julian a[0]!.i a[1]!.i)
  | "relig_dow" => some <| out (GenF.relig_dow a[0]!.f)
  | "relig_dow_ymd" => some <| out (match GenF.epoch_ymd a[0]!.i a[1]!.i a[2]!.f with
        | .error e => (.error e : PyRes Int)
        | .ok j => .ok (GenF.relig_dow j))
  | _ => none

end Driver
