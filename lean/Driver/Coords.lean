import Driver.Core
import Pymeeus.Gen.F.Coords
import Pymeeus.Gen.F.Precession
/-
Driver handlers for the coordinate-conversion / precession model (properties C05, C06).
Binary64 instantiation only (the functions use sin/cos/atan2/...: there is no exact-rational one).
All arguments are doubles (`f<bits>`): Angles as their degree value, Epochs as their JDE.
-/
namespace Driver
open Pymeeus
open Pymeeus.GenF.Coords

def coordsF : Handler := fun fn a =>
  let x (i : Nat) : Float := a[i]!.f
  match fn with
  | "a_reduce" => some <| out (a_reduce (x 0))
  | "a_to_positive" => some <| out (a_to_positive (x 0))
  | "a_of_rad" => some <| out (a_of_rad (x 0))
  | "a_of_sec" => some <| out (a_of_sec (x 0))
  | "a_add" => some <| out (a_add (x 0) (x 1))
  | "a_sub" => some <| out (a_sub (x 0) (x 1))
  | "a_mul" => some <| out (a_mul (x 0) (x 1))
  | "equatorial2ecliptical" => some <| out (equatorial2ecliptical (x 0) (x 1) (x 2))
  | "ecliptical2equatorial" => some <| out (ecliptical2equatorial (x 0) (x 1) (x 2))
  | "equatorial2horizontal" => some <| out (equatorial2horizontal (x 0) (x 1) (x 2))
  | "horizontal2equatorial" => some <| out (horizontal2equatorial (x 0) (x 1) (x 2))
  | "equatorial2galactic" => some <| out (equatorial2galactic (x 0) (x 1))
  | "galactic2equatorial" => some <| out (galactic2equatorial (x 0) (x 1))
  | "angular_separation" => some <| out (angular_separation (x 0) (x 1) (x 2) (x 3))
  | "relative_position_angle" => some <| out (relative_position_angle (x 0) (x 1) (x 2) (x 3))
  | "straight_line" => some <| out (straight_line (x 0) (x 1) (x 2) (x 3) (x 4) (x 5))
  | "circle_diameter" => some <| out (circle_diameter (x 0) (x 1) (x 2) (x 3) (x 4) (x 5))
  | "mean_obliquity" => some <| out (mean_obliquity (x 0))
  | "precession_equatorial" => some <| out (precession_equatorial (x 0) (x 1) (x 2) (x 3) (x 4) (x 5))
  | "precession_newcomb" => some <| out (precession_newcomb (x 0) (x 1) (x 2) (x 3) (x 4) (x 5))
  | "precession_ecliptical" => some <| out (precession_ecliptical (x 0) (x 1) (x 2) (x 3) (x 4) (x 5))
  | "p_motion_equa2eclip" => some <| out (p_motion_equa2eclip (x 0) (x 1) (x 2) (x 3) (x 4) (x 5))
  | "motion_in_space" => some <| out (motion_in_space (x 0) (x 1) (x 2) (x 3) (x 4) (x 5) (x 6))
  | "orbital_equinox2equinox" => some <| out (orbital_equinox2equinox (x 0) (x 1) (x 2) (x 3) (x 4))
  | _ => none

end Driver
