/-
Definitions shared by the generated coefficient tables (lean/PymeeusTables/*.lean, written by
tools/gen_tables.py) and by the theorems that use them.  Core Lean only (the driver imports this).

A VSOP87 term `[A, B, C]` of the source is stored as the three integers
`A * 10^expA, B * 10^expB, C * 10^expC` (exact: the decimal literals of the source have at most that
many decimals; the exponents are in PymeeusTables/Scale.lean).
-/
namespace Pymeeus.Tables

abbrev Term3 := Int × Int × Int

/-- Σ |A| over a series (in units of 10^-expA) -/
def sumAbsA : List Term3 → Int
  | [] => 0
  | x :: xs => (x.1.natAbs : Int) + sumAbsA xs

/-- Σ |A * C| over a series (in units of 10^-(expA+expC)) -/
def sumAbsAC : List Term3 → Int
  | [] => 0
  | x :: xs => ((x.1 * x.2.2).natAbs : Int) + sumAbsAC xs

end Pymeeus.Tables
