/-
Prelude shared by all instantiations of the model (core Lean only, no Mathlib).

Python semantics that the model relies on, on `Int`:
* `a % b`  (sign of the divisor)  = `Int.fmod a b`
* `a // b` (floor division)       = `Int.fdiv a b`
-/
namespace Pymeeus

/-- Exception classes the model distinguishes (the harness maps Python exceptions to these). -/
inductive PyErr where
  | valueError | typeError | zeroDivisionError | other
  deriving DecidableEq, Repr, Inhabited

def PyErr.toString : PyErr → String
  | .valueError => "ValueError"
  | .typeError => "TypeError"
  | .zeroDivisionError => "ZeroDivisionError"
  | .other => "Other"

instance : ToString PyErr := ⟨PyErr.toString⟩

abbrev PyRes (α : Type) := Except PyErr α

/-- Python `a % b` on ints. -/
@[inline] def imod (a b : Int) : Int := Int.fmod a b
/-- Python `a // b` on ints. -/
@[inline] def idiv (a b : Int) : Int := Int.fdiv a b

/-- Iterate `step` at most `fuel` times while it returns `Sum.inl` (continue). -/
def loopFuel {σ ρ : Type} (step : σ → Sum σ ρ) : Nat → σ → Option ρ
  | 0, _ => none
  | n + 1, s => match step s with
    | .inl s' => loopFuel step n s'
    | .inr r => some r

end Pymeeus
