import Pymeeus.Prelude
/-
IEEE binary64 instantiation: Python `float` ↦ Lean `Float` (same hardware doubles and
the same glibc libm as CPython).  Used only for the bit-exact structural tie; no
theorem mentions this namespace.
-/
namespace Pymeeus.PF

abbrev Num := Float

/-- Exact value of a finite double as `m * 2^e`. -/
def decode (x : Float) : Int × Int :=
  let b := x.toBits
  let sign : Int := if b >>> 63 = 1 then -1 else 1
  let ex := ((b >>> 52) &&& 0x7ff).toNat
  let fr := (b &&& 0xfffffffffffff).toNat
  if ex = 0 then (sign * fr, -1074) else (sign * (fr + 2^52), (ex : Int) - 1075)

def toRat (x : Float) : Rat :=
  let (m, e) := decode x
  if e ≥ 0 then (m * 2 ^ e.toNat : Int) else Rat.divInt m (2 ^ (-e).toNat : Int)

/-- Correctly rounded (nearest-even) conversion of an exact rational to a double.
    Only needed for values that are representable or for `fsum`-like exact sums. -/
def ofRat (q : Rat) : Float :=
  if q = 0 then 0.0 else
  let neg := q < 0
  let a := if neg then -q else q
  -- find e with 2^52 ≤ a / 2^e < 2^53
  let n := a.num.toNat
  let d := a.den
  let e0 : Int := (n.log2 : Int) - (d.log2 : Int) - 52
  let scaled (e : Int) : Rat := if e ≥ 0 then a / ((2 ^ e.toNat : Nat) : Rat) else a * ((2 ^ (-e).toNat : Nat) : Rat)
  let e1 := if scaled e0 < ((2 ^ 52 : Nat) : Rat) then e0 - 1 else if ((2 ^ 53 : Nat) : Rat) ≤ scaled e0 then e0 + 1 else e0
  let e := if e1 < -1074 then -1074 else e1
  let s := scaled e
  let f := s.floor
  let r := s - f
  let m : Int := if r < 1/2 then f else if 1/2 < r then f + 1 else if f % 2 = 0 then f else f + 1
  let v := Float.scaleB (Float.ofInt m) e
  if neg then -v else v

@[inline] def ofInt (n : Int) : Float := Float.ofInt n

/-- exact integer value of a finite float known to be integral -/
def toIntExact (x : Float) : Int :=
  let (m, e) := decode x
  if e ≥ 0 then m * 2 ^ e.toNat else
    -- integral value: division is exact for the magnitudes; use truncation toward zero
    let p : Int := 2 ^ (-e).toNat
    if m ≥ 0 then m / p else -((-m) / p)

@[inline] def pfloor (x : Float) : Int := toIntExact x.floor
@[inline] def ptrunc (x : Float) : Int := toIntExact (if x < 0 then x.ceil else x.floor)
def pabs (x : Float) : Float := x.abs

/-- C `fmod(x, y)` computed exactly (the result of fmod is always representable). -/
def fmod (x y : Float) : Float :=
  if x.isNaN || y.isNaN || x.isInf || y == 0.0 then (0.0 / 0.0) else
  if y.isInf then x else
  let qx := toRat x
  let qy := toRat y
  let ax := if qx < 0 then -qx else qx
  let ay := if qy < 0 then -qy else qy
  let k := (ax / ay).floor
  let r := ax - ay * k
  if r = 0 then (if x < 0 || x.toBits >>> 63 = 1 then -0.0 else 0.0)
  else let v := ofRat r; if qx < 0 then -v else v

/-- CPython `float_rem`. -/
def pmod (x y : Float) : Float :=
  let m := fmod x y
  if m != 0.0 then
    if (y < 0) != (m < 0) then m + y else m
  else if y < 0 then -0.0 else 0.0

/-- CPython `round(x)` with no ndigits: round-half-even to an int. -/
def pround (x : Float) : Int :=
  let r := x.round   -- half away from zero
  let r := if (x - r).abs == 0.5 then 2.0 * (x / 2.0).round else r
  toIntExact r

@[inline] def peq (x y : Float) : Bool := x == y
@[inline] def plt (x y : Float) : Bool := x < y
@[inline] def ple (x y : Float) : Bool := x ≤ y

/-- `math.fsum(l)` for finite doubles whose exact sum is in range: the exact sum (in ℚ), rounded
    once to nearest-even. -/
def pfsum (l : List Float) : Float := ofRat (l.foldl (fun s v => s + toRat v) 0)

def pshow (x : Float) : String := s!"f{x.toBits.toNat}"

end Pymeeus.PF

namespace Pymeeus.PF
/-! Transcendental functions: Lean's `Float` calls the same glibc libm as CPython's `math`. -/
def pi : Float := 3.141592653589793
@[inline] def psin (x : Float) : Float := Float.sin x
@[inline] def pcos (x : Float) : Float := Float.cos x
@[inline] def ptan (x : Float) : Float := Float.tan x
@[inline] def patan (x : Float) : Float := Float.atan x
@[inline] def patan2 (y x : Float) : Float := Float.atan2 y x
@[inline] def pasin (x : Float) : Float := Float.asin x
@[inline] def pacos (x : Float) : Float := Float.acos x
@[inline] def psqrt (x : Float) : Float := Float.sqrt x
/-- `math.radians(x)` = `x * (pi / 180)` (CPython's `degToRad`). -/
@[inline] def pradians (x : Float) : Float := x * (3.141592653589793 / 180.0)
/-- `math.degrees(x)` = `x * (180 / pi)` (CPython's `radToDeg`). -/
@[inline] def pdegrees (x : Float) : Float := x * (180.0 / 3.141592653589793)
end Pymeeus.PF

namespace Pymeeus.PF
/-! Additions for the Angle model (C03/C04). -/

/-- `10 ** n` as an exact rational. -/
def pow10 (n : Int) : Rat :=
  if n ≥ 0 then ((10 ^ n.toNat : Nat) : Rat) else 1 / ((10 ^ (-n).toNat : Nat) : Rat)

/-- CPython `round(x, n)` for a finite double (`double_round`, dtoa mode 3 + strtod): the exact
    binary value is rounded half-even to `n` decimals and the decimal result is converted to the
    nearest double; the sign of a zero result is the sign of `x`.  (CPython raises OverflowError
    if the result is not finite; not reachable for |x| < 1e300.) -/
def proundn (x : Float) (n : Int) : Float :=
  if x.isNaN || x.isInf then x else
  let q := toRat x
  let p := pow10 n
  let y := q * p
  let f := y.floor
  let r := y - f
  let k : Int := if r < 1/2 then f else if 1/2 < r then f + 1 else if f % 2 = 0 then f else f + 1
  if k = 0 then (if x.toBits >>> 63 = 1 then -0.0 else 0.0) else ofRat ((k : Rat) / p)

/-- CPython `float_pow(x, w)` for finite doubles (floatobject.c, special cases in source order).
    `.zeroDivisionError` for `0.0 ** negative`; `.other` = OverflowError when the result is not
    finite; `.typeError` stands for "negative base, non-integer exponent": CPython returns a
    `complex`, which every caller in Angle.py hands to `Angle(...)`, which raises TypeError. -/
def ppow (x w : Float) : PyRes Float :=
  let isOdd (v : Float) : Bool := fmod v.abs 2.0 == 1.0
  if w == 0.0 then .ok 1.0
  else if x == 0.0 then
    if w < 0.0 then .error .zeroDivisionError else .ok (if isOdd w then x else 0.0)
  else if x < 0.0 && w != w.floor then .error .typeError
  else
    let neg := x < 0.0 && isOdd w
    let v := if x < 0.0 then -x else x
    if v == 1.0 then .ok (if neg then -1.0 else 1.0)
    else
      let r := Float.pow v w
      let r := if neg then -r else r
      if r.isInf then .error .other else .ok r

/-- `x ** n` for a float `x` and an `int` `n`: the int is converted to a double first. -/
def ppowi (x : Float) (n : Int) : PyRes Float := ppow x (Float.ofInt n)

/-- Python float `x % y`: ZeroDivisionError for `y == 0`. -/
def pmodE (x y : Float) : PyRes Float := if y == 0.0 then .error .zeroDivisionError else .ok (pmod x y)

end Pymeeus.PF
