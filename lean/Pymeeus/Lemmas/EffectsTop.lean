/-
  From the statement-level soundness theorem to whole calls and histories.
-/
import Pymeeus.Lemmas.EffectsSound
namespace Pymeeus.Effects

theorem checked_of_check {P : Program} (h : check P = true) : Checked P := by
  intro g fd hg
  unfold check at h
  rw [List.all_eq_true] at h
  have hm : fd ∈ P.funs := List.mem_of_getElem? hg
  have := h fd hm
  simp only [checkFun, Bool.and_eq_true] at this
  exact Option.isSome_iff_exists.mp this.2

theorem specOk_of_check {P : Program} (h : check P = true) {g : Nat} {fd : FunDecl}
    (hg : P.funs[g]? = some fd) : specOk fd = true := by
  unfold check at h
  rw [List.all_eq_true] at h
  have := h fd (List.mem_of_getElem? hg)
  simp only [checkFun, Bool.and_eq_true] at this
  exact this.1

theorem wfenv_entry_vals {h : Heap} (n : Nat) {vals : List Val}
    (hv : ∀ i, WFVal h.next (vals.getD i .scalar)) : WFEnv h (entryEnv n vals) := by
  intro x
  unfold entryEnv
  by_cases hx : x < n
  · simp only [hx, if_true]; exact hv x
  · simp only [hx, if_false]; exact wfval_scalar _

/-- One top-level call of a public function: every object that existed before the call is
unchanged, except the receiver of a documented mutator. -/
theorem call_frame {P : Program} (hck : check P = true) {g : Nat} {fd : FunDecl} {h h' : Heap}
    {vals : List Val} {o : Outcome}
    (hg : P.funs[g]? = some fd) (hw : WFHeap h) (hv : ∀ i, WFVal h.next (vals.getD i .scalar))
    (hex : Exec P fd.body h (entryEnv fd.nparams vals) h' o)
    (id : Nat) (hid : id < h.next)
    (hk : fd.kind = .pure ∨ (fd.kind = .mutator ∧ vals.getD 0 .scalar ≠ .ref id)) :
    h'.obj id = h.obj id := by
  obtain ⟨s', hs'⟩ := checked_of_check hck g fd hg
  have post := sound_stmt (checked_of_check hck) hex fd.sum h.next vals _ s' hs' (Nat.le_refl _) hv hw
    (wfenv_entry_vals _ hv) (entry_rel _ _ _ (oldclosed_of_wf hw))
  refine post.frame id hid ?_
  rintro ⟨i, hi, heq⟩
  have hs := specOk_of_check hck hg
  unfold specOk at hs
  rcases hk with hk | ⟨hk, hne⟩
  · rw [hk] at hs
    simp only [List.isEmpty_iff] at hs
    rw [hs] at hi; cases hi
  · rw [hk] at hs
    simp only [List.all_eq_true, beq_iff_eq] at hs
    have := hs i hi
    subst this
    exact hne heq

/-- The condition on a history under which object `id` is guaranteed unchanged: every call is to a
public function, and `id` is not the receiver of a mutator call. -/
def Untouched (P : Program) (calls : List (FunId × List Val)) (id : Nat) : Prop :=
  ∀ c, c ∈ calls → P.kind c.1 = .pure ∨ (P.kind c.1 = .mutator ∧ c.2.getD 0 .scalar ≠ .ref id)

theorem run_frame {P : Program} (hck : check P = true) {calls h h'} (hrun : Run P calls h h') :
    WFHeap h → (WFHeap h' ∧ h.next ≤ h'.next) ∧
      ∀ id, id < h.next → Untouched P calls id → h'.obj id = h.obj id := by
  induction hrun with
  | nil => intro hw; exact ⟨⟨hw, Nat.le_refl _⟩, fun _ _ _ => rfl⟩
  | @cons g vals rest h h1 h2 fd o hg hv hex _ ih =>
    intro hw
    obtain ⟨hw1, hm1, _⟩ := exec_wf hex hw (wfenv_entry_vals _ hv)
    obtain ⟨⟨hw2, hm2⟩, ih2⟩ := ih hw1
    refine ⟨⟨hw2, Nat.le_trans hm1 hm2⟩, ?_⟩
    intro id hid hun
    have h1 : h1.obj id = h.obj id := by
      refine call_frame hck hg hw hv hex id hid ?_
      have := hun (g, vals) (List.mem_cons_self)
      simpa [Program.kind, hg] using this
    rw [← h1]
    exact ih2 id (Nat.lt_of_lt_of_le hid hm1) (fun c hc => hun c (List.mem_cons_of_mem _ hc))

/-- If every object reachable from `a` in `h` is the same in `h'`, the same objects are reachable. -/
theorem reach_congr {h h' : Heap} {a : Nat} (hsame : ∀ o, Reach h a o → h'.obj o = h.obj o) (o : Nat) :
    Reach h' a o ↔ Reach h a o := by
  constructor
  · intro hr
    induction hr with
    | refl => exact Reach.refl _
    | @step b c k _ e ih =>
      rw [hsame b ih] at e
      exact Reach.step ih e
  · intro hr
    induction hr with
    | refl => exact Reach.refl _
    | @step b c k hb e ih =>
      rw [← hsame b hb] at e
      exact Reach.step ih e

theorem wfheap_alloc {h : Heap} (hw : WFHeap h) : WFHeap h.alloc := by
  have := exec_wf (P := ⟨0, []⟩) (Exec.new (x := 0) (h := h) (e := fun _ => .scalar)) hw
    (fun _ => wfval_scalar _)
  exact this.1


/-- A statement accepted under the empty write set, run at the start of an activation of `fd`: whatever its
outcome (fall through, return, raise), every object that existed before is unchanged — the receiver included. -/
theorem stmt_frame {P : Program} (hck : check P = true) {c : Stmt} {fd : FunDecl} {h h' : Heap} {vals : List Val}
    {o : Outcome} (hacc : (aexec P.sums pureSum c (entryState P.nfields fd)).isSome = true)
    (hw : WFHeap h) (hv : ∀ i, WFVal h.next (vals.getD i .scalar))
    (hex : Exec P c h (entryEnv fd.nparams vals) h' o) :
    ∀ id, id < h.next → h'.obj id = h.obj id := by
  obtain ⟨s', hs'⟩ := Option.isSome_iff_exists.mp hacc
  have post := sound_stmt (checked_of_check hck) hex pureSum h.next vals _ s' hs' (Nat.le_refl _) hv hw
    (wfenv_entry_vals _ hv) (entry_rel _ _ _ (oldclosed_of_wf hw))
  intro id hid
  refine post.frame id hid ?_
  rintro ⟨i, hi, _⟩
  simp [pureSum] at hi

end Pymeeus.Effects
