/-
  Soundness of the effect analysis of Spec/Effects.lean (helper lemmas and the statement-level
  soundness theorem).  Core Lean only.
-/
import Pymeeus.Spec.Effects
namespace Pymeeus.Effects

/-! ## Concretisation -/

/-- Meaning of an abstract value in an activation that started with `n0` objects and arguments
`args`, in the current heap `h`. -/
def Gam (n0 : Nat) (args : List Val) (h : Heap) : AVal → Val → Prop
  | .scal, v => v = .scalar
  | .closed, v => ∀ id, v = .ref id → ∀ o, Reach h id o → n0 ≤ o
  | .fresh, v => ∀ id, v = .ref id → n0 ≤ id
  | .param i, v => v = .scalar ∨ v = args.getD i .scalar
  | .any, _ => True

theorem gam_scalar (n0 args h) (a : AVal) : Gam n0 args h a .scalar := by
  cases a <;> simp [Gam]

theorem gam_le {n0 args h a b v} (hle : AVal.le a b = true) (hg : Gam n0 args h a v) :
    Gam n0 args h b v := by
  cases a <;> cases b <;> simp [AVal.le] at hle <;> simp_all [Gam]
  · intro id hid; exact hg id hid id (Reach.refl id)

theorem le_refl (a : AVal) : a.le a = true := by cases a <;> simp [AVal.le]

theorem le_any (a : AVal) : a.le .any = true := by cases a <;> simp [AVal.le]

theorem le_join_left (a b : AVal) : a.le (a.join b) = true := by
  unfold AVal.join
  by_cases h1 : a.le b = true
  · simp [h1]
  · by_cases h2 : b.le a = true
    · simp [h1, h2, le_refl]
    · simp [h1, h2, le_any]

theorem le_join_right (a b : AVal) : b.le (a.join b) = true := by
  unfold AVal.join
  by_cases h1 : a.le b = true
  · simp [h1, le_refl]
  · by_cases h2 : b.le a = true
    · simp [h1, h2]
    · simp [h1, h2, le_any]

theorem gam_degrade {n0 args h h' a v} (hg : Gam n0 args h a v) : Gam n0 args h' a.degrade v := by
  cases a <;> simp_all [Gam, AVal.degrade]
  · intro id hid; exact hg id hid id (Reach.refl id)

/-- Abstract values other than `closed` do not look at the heap. -/
theorem gam_heap_indep {n0 args h h' a v} (ha : a ≠ .closed) (hg : Gam n0 args h a v) :
    Gam n0 args h' a v := by
  cases a <;> simp_all [Gam]

/-! ## Abstract lists -/

theorem alist_get_set (l : AList) (x y : Nat) (a : AVal) :
    AList.get (l.set x a) y = (if y = x ∧ x < l.length then a else AList.get l y) := by
  unfold AList.get
  by_cases hxy : y = x
  · subst hxy
    by_cases hl : y < l.length
    · simp [hl, List.getD_eq_getElem?_getD]
    · simp [hl]
  · have : x ≠ y := fun h => hxy h.symm
    simp [hxy, List.getD_eq_getElem?_getD, List.getElem?_set_ne this]

theorem alist_le_spec {l1 l2 : AList} (h : AList.le l1 l2 = true) (i : Nat) :
    (AList.get l1 i).le (AList.get l2 i) = true := by
  by_cases hi : i < l2.length
  · unfold AList.le at h
    rw [List.all_eq_true] at h
    exact h i (List.mem_range.mpr hi)
  · have : AList.get l2 i = .any := by
      unfold AList.get; rw [List.getD_eq_getElem?_getD, List.getElem?_eq_none (by omega)]; rfl
    rw [this]; exact le_any _

theorem alist_join_left (l1 l2 : AList) (i : Nat) :
    (AList.get l1 i).le (AList.get (AList.join l1 l2) i) = true := by
  unfold AList.join AList.get
  simp only [List.getD_eq_getElem?_getD, List.getElem?_zipWith]
  cases h1 : l1[i]? <;> cases h2 : l2[i]? <;> simp [le_any, le_join_left]

theorem alist_join_right (l1 l2 : AList) (i : Nat) :
    (AList.get l2 i).le (AList.get (AList.join l1 l2) i) = true := by
  unfold AList.join AList.get
  simp only [List.getD_eq_getElem?_getD, List.getElem?_zipWith]
  cases h1 : l1[i]? <;> cases h2 : l2[i]? <;> simp [le_any, le_join_right]

theorem alist_get_map_degrade (l : AList) (i : Nat) :
    AList.get (l.map AVal.degrade) i = (AList.get l i).degrade := by
  unfold AList.get
  simp only [List.getD_eq_getElem?_getD, List.getElem?_map]
  cases l[i]? <;> simp [AVal.degrade]

theorem alist_get_map_any (l : AList) (i : Nat) :
    AList.get (l.map fun _ => AVal.any) i = .any := by
  unfold AList.get
  simp only [List.getD_eq_getElem?_getD, List.getElem?_map]
  cases l[i]? <;> simp

theorem alist_get_replicate_any (n i : Nat) : AList.get (List.replicate n AVal.any) i = .any := by
  unfold AList.get
  simp only [List.getD_eq_getElem?_getD, List.getElem?_replicate]
  split <;> simp

/-! ## Reachability and heap updates -/

theorem reach_trans {h a b c} (h1 : Reach h a b) (h2 : Reach h b c) : Reach h a c := by
  induction h2 with
  | refl => exact h1
  | step _ e ih => exact Reach.step ih e

theorem reach_alloc {h a o} (hr : Reach h.alloc a o) : Reach h a o := by
  induction hr with
  | refl => exact Reach.refl _
  | @step b c k _ e ih =>
    refine Reach.step (k := k) ih ?_
    simp only [Heap.alloc] at e
    by_cases hb : b = h.next
    · simp [hb] at e
    · simpa [hb] using e

theorem reach_write {h id k v a o} (hr : Reach (h.write id k v) a o) :
    Reach h a o ∨ ∃ t, v = .ref t ∧ Reach h t o := by
  induction hr with
  | refl => exact Or.inl (Reach.refl _)
  | @step b c j _ e ih =>
    simp only [Heap.write] at e
    by_cases hb : b = id
    · by_cases hj : j = k
      · simp [hb, hj] at e
        exact Or.inr ⟨c, e, Reach.refl c⟩
      · have e' : h.obj b j = .ref c := by simpa [hb, hj] using e
        rcases ih with ih | ⟨t, ht, ih⟩
        · exact Or.inl (Reach.step ih e')
        · exact Or.inr ⟨t, ht, Reach.step ih e'⟩
    · have e' : h.obj b j = .ref c := by simpa [hb] using e
      rcases ih with ih | ⟨t, ht, ih⟩
      · exact Or.inl (Reach.step ih e')
      · exact Or.inr ⟨t, ht, Reach.step ih e'⟩

theorem reach_wf {h a o} (hw : WFHeap h) (ha : a < h.next) (hr : Reach h a o) : o < h.next := by
  induction hr with
  | refl => exact ha
  | step _ e ih => exact hw _ _ ih _ e

/-- If every existing object is unchanged, nothing new becomes reachable from an existing object. -/
theorem reach_frame {h h' : Heap} {a o} (hw : WFHeap h) (hf : ∀ id, id < h.next → h'.obj id = h.obj id)
    (ha : a < h.next) (hr : Reach h' a o) : Reach h a o := by
  induction hr with
  | refl => exact Reach.refl _
  | @step b c k _ e ih =>
    have hb : b < h.next := reach_wf hw ha ih
    rw [hf b hb] at e
    exact Reach.step ih e

/-- `Keep n0 h h'`: from an object that exists in `h`, what is reachable in `h'` was reachable in `h`
or has an id `≥ n0`. -/
def Keep (n0 : Nat) (h h' : Heap) : Prop :=
  ∀ a, a < h.next → ∀ o, Reach h' a o → Reach h a o ∨ n0 ≤ o

theorem keep_refl (n0 h) : Keep n0 h h := fun _ _ _ hr => Or.inl hr

theorem keep_trans {n0 h h1 h2} (hm : h.next ≤ h1.next) (k1 : Keep n0 h h1) (k2 : Keep n0 h1 h2) :
    Keep n0 h h2 := by
  intro a ha o hr
  rcases k2 a (Nat.lt_of_lt_of_le ha hm) o hr with h1r | hge
  · exact k1 a ha o h1r
  · exact Or.inr hge

theorem keep_mono {n0 n1 h h'} (hn : n0 ≤ n1) (k : Keep n1 h h') : Keep n0 h h' := by
  intro a ha o hr
  rcases k a ha o hr with h1 | h2
  · exact Or.inl h1
  · exact Or.inr (Nat.le_trans hn h2)

theorem keep_alloc (n0 h) : Keep n0 h h.alloc := fun _ _ _ hr => Or.inl (reach_alloc hr)

theorem keep_frame {n0 h h'} (hw : WFHeap h) (hf : ∀ id, id < h.next → h'.obj id = h.obj id) :
    Keep n0 h h' := fun _ ha _ hr => Or.inl (reach_frame hw hf ha hr)

theorem keep_write {n0 args h id k a v} (hs : AVal.storable a = true) (hg : Gam n0 args h a v) :
    Keep n0 h (h.write id k v) := by
  intro b _ o hr
  rcases reach_write hr with h1 | ⟨t, ht, h2⟩
  · exact Or.inl h1
  · cases a <;> simp [AVal.storable] at hs
    · simp [Gam] at hg; simp [hg] at ht
    · exact Or.inr (hg t ht o h2)

theorem gam_keep {n0 args h h' a v} (k : Keep n0 h h') (hv : WFVal h.next v)
    (hg : Gam n0 args h a v) : Gam n0 args h' a v := by
  by_cases ha : a = .closed
  · subst ha
    intro id hid o hr
    rcases k id (hv id hid) o hr with h1 | h2
    · exact hg id hid o h1
    · exact h2
  · exact gam_heap_indep ha hg

/-! ## Well-formedness is preserved -/

theorem wfval_mono {n m v} (h : n ≤ m) (hv : WFVal n v) : WFVal m v :=
  fun id hid => Nat.lt_of_lt_of_le (hv id hid) h

theorem wfenv_set {h e x v} (he : WFEnv h e) (hv : WFVal h.next v) : WFEnv h (e.set x v) := by
  intro y
  unfold Env.set
  by_cases hy : y = x <;> simp [hy]
  · exact hv
  · exact he y

theorem wfenv_mono {h h' : Heap} {e} (hm : h.next ≤ h'.next) (he : WFEnv h e) : WFEnv h' e :=
  fun x => wfval_mono hm (he x)

theorem wfval_scalar (n) : WFVal n .scalar := by intro id hid; cases hid

theorem wfenv_entry {h : Heap} {e : Env} (n : Nat) (ys : List Var) (he : WFEnv h e) :
    WFEnv h (entryEnv n (ys.map e)) := by
  intro x
  unfold entryEnv
  by_cases hx : x < n
  · simp only [hx, if_true, List.getD_eq_getElem?_getD, List.getElem?_map]
    cases hy : ys[x]? with
    | none => exact wfval_scalar _
    | some y => exact he y
  · simp only [hx, if_false]; exact wfval_scalar _

def WFOut (h : Heap) : Outcome → Prop
  | .norm e => WFEnv h e
  | .exit v _ => WFVal h.next v

theorem exec_wf {P c h e h' o} (hex : Exec P c h e h' o) :
    WFHeap h → WFEnv h e → WFHeap h' ∧ h.next ≤ h'.next ∧ WFOut h' o := by
  induction hex with
  | skip => intro hw he; exact ⟨hw, Nat.le_refl _, he⟩
  | seqN _ _ ih1 ih2 =>
    intro hw he
    obtain ⟨hw1, hm1, he1⟩ := ih1 hw he
    obtain ⟨hw2, hm2, ho⟩ := ih2 hw1 he1
    exact ⟨hw2, Nat.le_trans hm1 hm2, ho⟩
  | seqX _ ih1 => intro hw he; exact ih1 hw he
  | scalar => intro hw he; exact ⟨hw, Nat.le_refl _, wfenv_set he (wfval_scalar _)⟩
  | alias => intro hw he; exact ⟨hw, Nat.le_refl _, wfenv_set he (he _)⟩
  | global hg =>
    intro hw he
    refine ⟨hw, Nat.le_refl _, wfenv_set he ?_⟩
    intro id hid; cases hid; exact hg
  | @new x h e =>
    intro hw he
    have hm : h.next ≤ h.alloc.next := by simp [Heap.alloc]
    refine ⟨?_, hm, ?_⟩
    · intro id k hid
      simp only [Heap.alloc] at hid ⊢
      by_cases hb : id = h.next
      · simp [hb]; exact wfval_scalar _
      · simp only [hb, if_false]
        exact wfval_mono (Nat.le_succ _) (hw id k (by omega))
    · refine wfenv_set (wfenv_mono hm he) ?_
      intro id hid; cases hid; simp [Heap.alloc]
  | @load x y s h e id k hy _ =>
    intro hw he
    exact ⟨hw, Nat.le_refl _, wfenv_set he (hw id k (he y id hy))⟩
  | @store x s y h e id k hx _ =>
    intro hw he
    refine ⟨?_, Nat.le_refl _, he⟩
    intro i j hi
    simp only [Heap.write] at hi ⊢
    by_cases hb : i = id
    · by_cases hj : j = k
      · simp [hb, hj]; exact he y
      · simp only [hb, if_true, hj, if_false]; exact hw id j (hb ▸ hi)
    · simp only [hb, if_false]; exact hw i j hi
  | @callRet x g args h e fd h' v _ _ ih =>
    intro hw he
    obtain ⟨hw', hm, hv⟩ := ih hw (wfenv_entry _ _ he)
    exact ⟨hw', hm, wfenv_set (wfenv_mono hm he) hv⟩
  | @callFall x g args h e fd h' e' _ _ ih =>
    intro hw he
    obtain ⟨hw', hm, _⟩ := ih hw (wfenv_entry _ _ he)
    exact ⟨hw', hm, wfenv_set (wfenv_mono hm he) (wfval_scalar _)⟩
  | @callExc x g args h e fd h' v _ _ ih =>
    intro hw he
    obtain ⟨hw', hm, _⟩ := ih hw (wfenv_entry _ _ he)
    exact ⟨hw', hm, wfval_scalar _⟩
  | iteL _ ih => intro hw he; exact ih hw he
  | iteR _ ih => intro hw he; exact ih hw he
  | whileDone => intro hw he; exact ⟨hw, Nat.le_refl _, he⟩
  | whileStep _ _ ih1 ih2 =>
    intro hw he
    obtain ⟨hw1, hm1, he1⟩ := ih1 hw he
    obtain ⟨hw2, hm2, ho⟩ := ih2 hw1 he1
    exact ⟨hw2, Nat.le_trans hm1 hm2, ho⟩
  | whileExit _ ih => intro hw he; exact ih hw he
  | ret => intro hw he; exact ⟨hw, Nat.le_refl _, he _⟩
  | raise => intro hw _; exact ⟨hw, Nat.le_refl _, wfval_scalar _⟩


/-! ## Old objects: closedness of the pre-existing part of the heap -/

/-- The objects that existed when the activation started (`id < n0`) point only to such objects. -/
def OldClosed (n0 : Nat) (h : Heap) : Prop :=
  ∀ a, a < n0 → ∀ k c, h.obj a k = .ref c → c < n0

/-- No object that existed when the activation started has gained a reference. -/
def NoNew (n0 : Nat) (h h' : Heap) : Prop :=
  ∀ a, a < n0 → ∀ k c, h'.obj a k = .ref c → h.obj a k = .ref c

/-- From an object that existed when the activation started, what is reachable in `h'` was reachable in
`h` or is a new object. -/
def KeepOld (n0 : Nat) (h h' : Heap) : Prop :=
  ∀ a, a < n0 → ∀ o, Reach h' a o → Reach h a o ∨ n0 ≤ o

theorem oldclosed_of_wf {h : Heap} (hw : WFHeap h) : OldClosed h.next h :=
  fun a ha k c hc => hw a k ha c hc

theorem nonew_refl (n0 h) : NoNew n0 h h := fun _ _ _ _ hc => hc

theorem nonew_trans {n0 h h1 h2} (a1 : NoNew n0 h h1) (a2 : NoNew n0 h1 h2) : NoNew n0 h h2 :=
  fun a ha k c hc => a1 a ha k c (a2 a ha k c hc)

theorem nonew_mono {n0 n1 h h'} (hn : n0 ≤ n1) (a : NoNew n1 h h') : NoNew n0 h h' :=
  fun x hx k c hc => a x (Nat.lt_of_lt_of_le hx hn) k c hc

theorem oldclosed_nonew {n0 h h'} (hc : OldClosed n0 h) (hn : NoNew n0 h h') : OldClosed n0 h' :=
  fun a ha k c he => hc a ha k c (hn a ha k c he)

theorem nonew_of_untouched {n0} {h h' : Heap} (hu : ∀ a, a < n0 → h'.obj a = h.obj a) : NoNew n0 h h' := by
  intro a ha k c hc
  rw [hu a ha] at hc; exact hc

theorem keepold_refl (n0 h) : KeepOld n0 h h := fun _ _ _ hr => Or.inl hr

theorem keepold_trans {n0 h h1 h2} (k1 : KeepOld n0 h h1) (k2 : KeepOld n0 h1 h2) : KeepOld n0 h h2 := by
  intro a ha o hr
  rcases k2 a ha o hr with h1r | hge
  · exact k1 a ha o h1r
  · exact Or.inr hge

theorem keepold_of_keep {n0 h h'} (hn : n0 ≤ h.next) (k : Keep n0 h h') : KeepOld n0 h h' :=
  fun a ha o hr => k a (Nat.lt_of_lt_of_le ha hn) o hr

/-- If the old objects point only to old objects and none of them is touched, nothing changes for them. -/
theorem keepold_of_untouched {n0} {h h' : Heap} (hc : OldClosed n0 h)
    (hu : ∀ a, a < n0 → h'.obj a = h.obj a) : KeepOld n0 h h' := by
  intro a ha o hr
  have : Reach h a o ∧ o < n0 := by
    induction hr with
    | refl => exact ⟨Reach.refl _, ha⟩
    | @step b c k _ e ih =>
      obtain ⟨ihr, hb⟩ := ih
      rw [hu b hb] at e
      exact ⟨Reach.step ihr e, hc b hb k c e⟩
  exact Or.inl this.1

theorem alloc_untouched {h : Heap} {n0 : Nat} (hn : n0 ≤ h.next) : ∀ a, a < n0 → h.alloc.obj a = h.obj a := by
  intro a ha
  have : a ≠ h.next := by omega
  simp [Heap.alloc, this]

theorem write_untouched {h : Heap} {n0 id k v} (hid : n0 ≤ id) : ∀ a, a < n0 → (h.write id k v).obj a = h.obj a := by
  intro a ha
  have : a ≠ id := by omega
  simp [Heap.write, this]

theorem nonew_write_scalar {n0 h id k} : NoNew n0 h (h.write id k .scalar) := by
  intro a _ j c hc
  simp only [Heap.write] at hc
  by_cases ha : a = id
  · by_cases hj : j = k
    · simp [ha, hj] at hc
    · simpa [ha, hj] using hc
  · simpa [ha] using hc

end Pymeeus.Effects
