import Mathlib.Data.Rat.Floor
import Mathlib.Tactic.NormNum
import Mathlib.Tactic.Linarith
import Pymeeus.PreQ
/-
Bridges from the `Rat` floors of the exact model to integer division.
-/
namespace Pymeeus

theorem rat_floor_eq_floor (q : ℚ) : q.floor = ⌊q⌋ := rfl

/-- If `q = n / d` with `d > 0` then `floor q = n / d` (integer floor division). -/
theorem rat_floor_eq_div {q : ℚ} (n d : ℤ) (hd : 0 < d) (h : q * d = n) : q.floor = n / d := by
  have hd' : (d : ℚ) ≠ 0 := by exact_mod_cast hd.ne'
  have hq : q = (n : ℚ) / ((d.toNat : ℕ) : ℚ) := by
    have : ((d.toNat : ℕ) : ℤ) = d := Int.toNat_of_nonneg hd.le
    have h2 : ((d.toNat : ℕ) : ℚ) = (d : ℚ) := by exact_mod_cast this
    rw [h2, eq_div_iff hd']; exact h
  rw [rat_floor_eq_floor, hq, Rat.floor_intCast_div_natCast, Int.toNat_of_nonneg hd.le]

@[simp] theorem PQ.pfloor_ofInt (n : ℤ) : PQ.pfloor (PQ.ofInt n) = n := by
  simp [PQ.pfloor, PQ.ofInt, Rat.floor_intCast]

end Pymeeus
