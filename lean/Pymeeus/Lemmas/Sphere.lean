import Mathlib.Analysis.SpecialFunctions.Trigonometric.Inverse
import Mathlib.Analysis.SpecialFunctions.Complex.Arg
import Pymeeus.Spec.Sphere
/-
Helper lemmas for C05 / C06: a unit vector is recovered from `atan2` of (a positive multiple of)
its x, y components and `asin` of its z component.
-/
namespace Pymeeus.Lemmas.Sphere
open Real

/-- `z ∈ [-1, 1]` for a unit vector. -/
theorem abs_le_one_of_unit {X Y Z : ℝ} (h : X ^ 2 + Y ^ 2 + Z ^ 2 = 1) : |Z| ≤ 1 := by
  rw [abs_le]; constructor <;> nlinarith [sq_nonneg X, sq_nonneg Y, sq_nonneg (Z - 1), sq_nonneg (Z + 1)]

/-- The heart of every conversion: for a unit vector `(X, Y, Z)` and any `k > 0`,
    `lon = atan2 (k Y) (k X)`, `lat = asin Z` give back `(X, Y, Z)`. -/
theorem unit_of_arg_arcsin {X Y Z k : ℝ} (h : X ^ 2 + Y ^ 2 + Z ^ 2 = 1) (hk : 0 < k) :
    cos (arcsin Z) * cos (Complex.arg ⟨k * X, k * Y⟩) = X ∧
    cos (arcsin Z) * sin (Complex.arg ⟨k * X, k * Y⟩) = Y ∧
    sin (arcsin Z) = Z := by
  have hZ := abs_le.mp (abs_le_one_of_unit h)
  have hs : sin (arcsin Z) = Z := sin_arcsin hZ.1 hZ.2
  have hc : cos (arcsin Z) = √(X ^ 2 + Y ^ 2) := by
    rw [cos_arcsin]; congr 1; linarith
  have harg : Complex.arg ⟨k * X, k * Y⟩ = Complex.arg ⟨X, Y⟩ := by
    have : (⟨k * X, k * Y⟩ : ℂ) = (k : ℂ) * ⟨X, Y⟩ := by
      apply Complex.ext <;> simp
    rw [this, Complex.arg_real_mul _ hk]
  have hn : ‖(⟨X, Y⟩ : ℂ)‖ = √(X ^ 2 + Y ^ 2) := by
    rw [Complex.norm_def, Complex.normSq_mk]; congr 1; ring
  refine ⟨?_, ?_, hs⟩
  · rw [harg, hc]
    by_cases h0 : (⟨X, Y⟩ : ℂ) = 0
    · have hX : X = 0 := by simpa using congrArg Complex.re h0
      have hY : Y = 0 := by simpa using congrArg Complex.im h0
      simp [hX, hY]
    · rw [Complex.cos_arg h0, hn]
      have hpos : √(X ^ 2 + Y ^ 2) ≠ 0 := by
        rw [← hn]; exact norm_ne_zero_iff.mpr h0
      field_simp
  · rw [harg, hc, Complex.sin_arg, hn]
    by_cases h0 : √(X ^ 2 + Y ^ 2) = 0
    · have : X ^ 2 + Y ^ 2 = 0 := by
        have := Real.sqrt_eq_zero'.mp h0
        nlinarith [sq_nonneg X, sq_nonneg Y]
      have hY : Y = 0 := by nlinarith [sq_nonneg X, sq_nonneg Y]
      simp [hY]
    · field_simp


/-- `|(X, Y)| cos(atan2(Y, X)) = X` and `|(X, Y)| sin(atan2(Y, X)) = Y`, for all reals (also at the origin). -/
theorem norm_mul_cos_sin_arg (X Y : ℝ) :
    √(X ^ 2 + Y ^ 2) * cos (Complex.arg ⟨X, Y⟩) = X ∧ √(X ^ 2 + Y ^ 2) * sin (Complex.arg ⟨X, Y⟩) = Y := by
  have hn : ‖(⟨X, Y⟩ : ℂ)‖ = √(X ^ 2 + Y ^ 2) := by
    rw [Complex.norm_def, Complex.normSq_mk]; congr 1; ring
  by_cases h0 : (⟨X, Y⟩ : ℂ) = 0
  · have hX : X = 0 := by simpa using congrArg Complex.re h0
    have hY : Y = 0 := by simpa using congrArg Complex.im h0
    simp [hX, hY]
  · have hpos : √(X ^ 2 + Y ^ 2) ≠ 0 := by
      rw [← hn]; exact norm_ne_zero_iff.mpr h0
    constructor
    · rw [Complex.cos_arg h0, hn]; field_simp
    · rw [Complex.sin_arg, hn]; field_simp

end Pymeeus.Lemmas.Sphere
