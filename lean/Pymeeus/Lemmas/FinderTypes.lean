/-
Data types of the generated records of the planetary event finders (C13).  Core Lean only (no
Mathlib): the file is imported by the compiled driver as well as by the theorems.

`tools/gen_finders.py` reads the ~40 finder functions of pymeeus/{Mercury,...,Neptune,Earth}.py
with Python's `ast` and writes one record per function to `Pymeeus/Gen/FinderData.lean`.  A record
holds the constants and the expression trees of the function *as written in the source*
(decimal literals kept as exact decimals, the tree shape kept so that the binary64 evaluation has
the operation order of the Python text).  One generic evaluator (`templates/Finders.lean`,
instantiated at ℝ and at `Float`) gives the records their meaning.
-/
namespace Pymeeus.Finders

/-- A decimal literal of the source: `m / 10^e`  (`0.00003` is `⟨3, 5⟩`, `2451612.023` is `⟨2451612023, 3⟩`). -/
structure Dec where
  m : Int
  e : Nat
  deriving DecidableEq, Repr, Inhabited

/-- Exact value of a decimal literal. -/
def Dec.toRat (d : Dec) : Rat := (d.m : Rat) / ((10 ^ d.e : Nat) : Rat)

/-- Argument of a `sin(...)`/`cos(...)` of the source. -/
inductive TrigArg where
  /-- `m` (the mean anomaly, radians) -/
  | m
  /-- `j * m` with a literal `j` -/
  | jm (j : Dec)
  /-- the `i`-th auxiliary angle (`aa`, `bb`, …; `a1.rad()`, …), radians -/
  | aux (i : Nat)
  deriving DecidableEq, Repr, Inhabited

/-- Expression tree of a `corr = (...)` / `elon = (...)` / `jde = ...` right-hand side.
    `x` is the polynomial variable (`t` in the Meeus ch. 36 finders, `k` in perihelion_aphelion). -/
inductive FExpr where
  | lit (c : Dec)
  | x
  | sin (a : TrigArg)
  | cos (a : TrigArg)
  | neg (a : FExpr)
  | add (a b : FExpr)
  | sub (a b : FExpr)
  | mul (a b : FExpr)
  deriving DecidableEq, Repr, Inhabited

/-- One Meeus ch. 36 periodic-term finder.

    y = epoch.year(); if y < ylo or y > yhi: raise ValueError
    k = round((yc * y + y0 - A) / B); jde0 = A + k * B; m = M0 + k * M1 (Angle, to_positive, rad)
    t = (jde0 - tj) / tc; aux_i = Angle(c0 + c1 * t).rad(); corr = <expr>; [elon = <expr>]
    return Epoch(jde0 + corr)[, Angle(elon).to_positive()] -/
structure Finder where
  name : String
  ylo : Dec
  yhi : Dec
  yc : Dec
  y0 : Dec
  A : Dec
  B : Dec
  M0 : Dec
  M1 : Dec
  tj : Dec
  tc : Dec
  aux : List (Dec × Dec)
  corr : FExpr
  elon : Option FExpr
  deriving Repr, Inhabited

/-- One `perihelion_aphelion`.

    k = C * (epoch.year() - Y0); k = round(k)  |  round(k + half) - half
    jde = J0 + k * (P + k * Q)        (`Q` signed; 0 when the source has `J0 + k * P`)
    [Earth: a_i = Angle(c0 + c1 * k); jde += corrPeri | corrAph]
    jde_before = jde - delta; jde_after = jde + delta; three VSOP87 radii; Interpolation.minmax() -/
structure PAFinder where
  name : String
  C : Dec
  Y0 : Dec
  half : Dec
  J0 : Dec
  P : Dec
  Q : Dec
  aux : List (Dec × Dec)
  corrPeri : Option FExpr
  corrAph : Option FExpr
  delta : Dec
  deriving Repr, Inhabited

/-! ### Centre/radius enclosure of an expression tree, in exact rational arithmetic

For `|x - xc| ≤ xr` and arbitrary values of the angles, the value of `e` lies within `rad` of
`mid` (proved over ℝ in `Refine/Finders.lean`).  Computable, so the per-record side conditions
are decided by the kernel from the constants in the source. -/

def qabs (q : Rat) : Rat := if q < 0 then -q else q

/-- Centre of the set of values of `e` when `x ∈ [xc - xr, xc + xr]` and `sin, cos ∈ [-1, 1]`. -/
def FExpr.mid (xc : Rat) : FExpr → Rat
  | .lit c => c.toRat
  | .x => xc
  | .sin _ => 0
  | .cos _ => 0
  | .neg a => -(a.mid xc)
  | .add a b => a.mid xc + b.mid xc
  | .sub a b => a.mid xc - b.mid xc
  | .mul a b => a.mid xc * b.mid xc

/-- Radius of that set around `mid`. -/
def FExpr.rad (xc xr : Rat) : FExpr → Rat
  | .lit _ => 0
  | .x => xr
  | .sin _ => 1
  | .cos _ => 1
  | .neg a => a.rad xc xr
  | .add a b => a.rad xc xr + b.rad xc xr
  | .sub a b => a.rad xc xr + b.rad xc xr
  | .mul a b => qabs (a.mid xc) * b.rad xc xr + qabs (b.mid xc) * a.rad xc xr + a.rad xc xr * b.rad xc xr

/-- Bound on `|t| = |(jde0 - 2451545)/36525|` for queries in -2000..4000 (proved in `Refine/Finders.lean`:
    year -2000 is t = -40.0, year 4000 is t = +20.0, plus half a period). -/
def tMax : Rat := 41

/-- Centre of the values of `corr` for `|t| ≤ tMax`: the constant term of the series. -/
def Finder.corrMid (r : Finder) : Rat := r.corr.mid 0
/-- Radius of the values of `corr` around `corrMid` for `|t| ≤ tMax` and arbitrary angles:
    the sum of the absolute values of the amplitude polynomials on that range. -/
def Finder.corrRad (r : Finder) : Rat := r.corr.rad 0 tMax

/-- The decidable side conditions under which the generic theorems of `Props/C13.lean` hold for a record:
    positive period and scale factors; the period exceeds twice the radius of the periodic terms
    (results strictly increasing); the documented range check; the year-to-JDE constants 365.2425 and
    1721060 of the anchor formula; `|t| ≤ tMax` at both ends of the domain,
    half a period included; the result `jde0 + corr` is a non-negative JDE on the domain (so that `Epoch(...)` is defined). -/
def Finder.ok (r : Finder) : Bool :=
  decide (0 < r.B.toRat) && decide (0 < r.yc.toRat) && decide (0 < r.tc.toRat)
  && decide (0 < r.B.toRat - 2 * r.corrRad)
  && decide (r.ylo.toRat = -2000) && decide (r.yhi.toRat = 4000)
  && decide (r.yc.toRat = 3652425 / 10000) && decide (r.y0.toRat = 1721060)
  && decide (-(tMax * r.tc.toRat) ≤ r.yc.toRat * r.ylo.toRat + r.y0.toRat - r.tj.toRat - r.B.toRat / 2)
  && decide (r.yc.toRat * r.yhi.toRat + r.y0.toRat - r.tj.toRat + r.B.toRat / 2 ≤ tMax * r.tc.toRat)
  && decide (qabs r.corrMid + r.corrRad + tMax * r.tc.toRat ≤ r.tj.toRat)

/-- Bound on `|k|` used for the first approximation of perihelion_aphelion (years -4000..+8000 for every planet). -/
def PAFinder.kMax (r : PAFinder) : Rat := qabs r.C.toRat * 6100

def qmax (a b : Rat) : Rat := if a < b then b else a

/-- Bound on the absolute value of an optional periodic correction for `|k| ≤ kmax`. -/
def optBound (kmax : Rat) : Option FExpr → Rat
  | none => 0
  | some e => qabs (e.mid 0) + e.rad 0 kmax

/-- Bound on Earth's periodic correction (0 for the other planets). -/
def PAFinder.corrRad (r : PAFinder) : Rat :=
  qmax (optBound r.kMax r.corrPeri) (optBound r.kMax r.corrAph)

/-- Bound on the deviation of `jde(k+1) - jde(k)` from `P` for `|k|, |k+1| ≤ kMax`. -/
def PAFinder.var (r : PAFinder) : Rat := qabs r.Q.toRat * (2 * r.kMax + 1) + 2 * r.corrRad

/-- Decidable side conditions of the perihelion_aphelion theorems: positive rate, the half step is 1/2,
    the period exceeds the variation (first approximations strictly increasing), `|k| + 1 ≤ kMax` on -2000..4000. -/
def PAFinder.ok (r : PAFinder) : Bool :=
  decide (0 < r.C.toRat) && decide (r.half.toRat = 1 / 2) && decide (0 < r.P.toRat)
  && decide (0 < r.P.toRat - r.var)
  && decide (r.C.toRat * (4000 - r.Y0.toRat) + 2 ≤ r.kMax) && decide (r.C.toRat * (r.Y0.toRat + 2000) + 2 ≤ r.kMax)

/-! ### The series as a polynomial in the time variable: coefficient bounds

`e.coefs = [b0, b1, b2, ...]`: `b_i` is the sum of the absolute values of all coefficients of `x^i` in `e`, with
every `sin`/`cos` counted as 1 (literals by their absolute value).  So `|e| ≤ b0 + b1 |x| + b2 x² + ...` and the
length of the list bounds the degree. -/

def padd : List Rat → List Rat → List Rat
  | [], ys => ys
  | xs, [] => xs
  | x :: xs, y :: ys => (x + y) :: padd xs ys

def pmul : List Rat → List Rat → List Rat
  | [], _ => []
  | x :: xs, ys => padd (ys.map (x * ·)) (0 :: pmul xs ys)

def FExpr.coefs : FExpr → List Rat
  | .lit c => [qabs c.toRat]
  | .x => [0, 1]
  | .sin _ => [1]
  | .cos _ => [1]
  | .neg a => a.coefs
  | .add a b => padd a.coefs b.coefs
  | .sub a b => padd a.coefs b.coefs
  | .mul a b => pmul a.coefs b.coefs

/-- Are all multipliers `j` of `sin(j * m)` / `cos(j * m)` whole numbers (so that a whole turn added to `m` is invisible)? -/
def TrigArg.integral : TrigArg → Bool
  | .jm j => decide (j.toRat.den = 1)
  | _ => true

def FExpr.integral : FExpr → Bool
  | .lit _ => true
  | .x => true
  | .sin a => a.integral
  | .cos a => a.integral
  | .neg a => a.integral
  | .add a b => a.integral && b.integral
  | .sub a b => a.integral && b.integral
  | .mul a b => a.integral && b.integral

/-- Centre and radius of the values of the reported elongation angle (before `Angle(...).to_positive()`), degrees. -/
def Finder.elonMid (r : Finder) : Rat := match r.elon with | none => 0 | some e => e.mid 0
def Finder.elonRad (r : Finder) : Rat := match r.elon with | none => 0 | some e => e.rad 0 tMax

end Pymeeus.Finders
