/-
  Statement-level soundness of the effect analysis (Spec/Effects.lean): if the abstract execution
  accepts a statement, every concrete execution of it respects the frame described by the
  function's summary.  Induction on the big-step derivation: unbounded loops, recursion.
-/
import Pymeeus.Lemmas.Effects
namespace Pymeeus.Effects

/-- The abstract state describes the concrete environment and the receiver's attributes. -/
structure Rel (n0 : Nat) (args : List Val) (h : Heap) (s : AState) (e : Env) : Prop where
  live : s.dead = false
  ne : s.exposed = false → OldClosed n0 h
  env : ∀ x, Gam n0 args h (AList.get s.env x) (e x)
  fld : ∀ id, args.getD 0 .scalar = .ref id → ∀ f, Gam n0 args h (AList.get s.fld f) (h.obj id f)

theorem rel_le {n0 args h s1 s2 e} (hle : AState.le s1 s2 = true) (hr : Rel n0 args h s1 e) :
    Rel n0 args h s2 e := by
  simp only [AState.le, hr.live, Bool.false_or, Bool.and_eq_true, Bool.not_eq_true', Bool.or_eq_true] at hle
  refine ⟨hle.1.1.1, ?_, fun x => gam_le (alist_le_spec hle.1.2 x) (hr.env x),
         fun id hid f => gam_le (alist_le_spec hle.2 f) (hr.fld id hid f)⟩
  intro h2
  rcases hle.1.1.2 with h1 | h1
  · exact hr.ne h1
  · rw [h2] at h1; cases h1

theorem rel_join_left {n0 args h s1 e} (s2 : AState) (hr : Rel n0 args h s1 e) :
    Rel n0 args h (s1.join s2) e := by
  unfold AState.join
  simp only [hr.live, Bool.false_eq_true, if_false]
  split
  · exact hr
  · refine ⟨rfl, ?_, fun x => gam_le (alist_join_left _ _ x) (hr.env x),
      fun id hid f => gam_le (alist_join_left _ _ f) (hr.fld id hid f)⟩
    intro h2
    simp only [Bool.or_eq_false_iff] at h2
    exact hr.ne h2.1

theorem rel_join_right {n0 args h s2 e} (s1 : AState) (hr : Rel n0 args h s2 e) :
    Rel n0 args h (s1.join s2) e := by
  unfold AState.join
  split
  · exact hr
  · simp only [hr.live, Bool.false_eq_true, if_false]
    refine ⟨rfl, ?_, fun x => gam_le (alist_join_right _ _ x) (hr.env x),
      fun id hid f => gam_le (alist_join_right _ _ f) (hr.fld id hid f)⟩
    intro h2
    simp only [Bool.or_eq_false_iff] at h2
    exact hr.ne h2.2

theorem gam_set {n0 args h} {l : AList} {e : Env} (x : Nat) {a v}
    (hl : ∀ y, Gam n0 args h (AList.get l y) (e y)) (hg : Gam n0 args h a v) :
    ∀ y, Gam n0 args h (AList.get (l.set x a) y) (e.set x v y) := by
  intro y
  rw [alist_get_set]
  unfold Env.set
  by_cases hy : y = x
  · by_cases hx : x < l.length
    · simp [hy, hx]; exact hg
    · have : AList.get l x = .any := by
        unfold AList.get; rw [List.getD_eq_getElem?_getD, List.getElem?_eq_none (by omega)]; rfl
      simp [hy, hx, this, Gam]
  · simp [hy]; exact hl y

theorem rel_setVar {n0 args h s e} (x : Var) {a v} (hr : Rel n0 args h s e)
    (hg : Gam n0 args h a v) : Rel n0 args h (s.setVar x a) (e.set x v) :=
  ⟨hr.live, hr.ne, gam_set x hr.env hg, hr.fld⟩

/-! ### Loop invariants computed by `iter` -/

theorem iter_spec {f : AState → Option AState} {n s inv} (h : iter f n s = some inv) :
    (∀ n0 args hp e, Rel n0 args hp s e → Rel n0 args hp inv e) ∧
    ∃ s', f inv = some s' ∧ s'.le inv = true := by
  induction n generalizing s with
  | zero => simp [iter] at h
  | succ n ih =>
    unfold iter at h
    cases hf : f s with
    | none => simp [hf] at h
    | some s' =>
      simp only [hf] at h
      by_cases hle : s'.le s = true
      · simp [hle] at h
        subst h
        exact ⟨fun _ _ _ _ hr => hr, s', hf, hle⟩
      · simp [hle] at h
        obtain ⟨h1, h2⟩ := ih h
        exact ⟨fun n0 args hp e hr => h1 n0 args hp e (rel_join_left _ hr), h2⟩

theorem iter_fix {f : AState → Option AState} {n s inv} (h : iter f (n + 1) s = some inv) :
    iter f (n + 1) inv = some inv := by
  obtain ⟨_, s', hf, hle⟩ := iter_spec h
  unfold iter
  simp [hf, hle]

/-! ### Post-condition of a statement -/

/-- Object `id` is the own object of a parameter the summary allows to be written. -/
def Written (me : Summary) (args : List Val) (id : Nat) : Prop :=
  ∃ i, i ∈ me.writes ∧ args.getD i .scalar = .ref id

def OutOk (n0 : Nat) (args : List Val) (me : Summary) (h' : Heap) (s' : AState) : Outcome → Prop
  | .norm e' => Rel n0 args h' s' e'
  | .exit v false => Gam n0 args h' me.ret v
  | .exit _ true => True

structure Post (n0 : Nat) (args : List Val) (me : Summary) (h h' : Heap) (s' : AState)
    (o : Outcome) : Prop where
  frame : ∀ id, id < n0 → ¬ Written me args id → h'.obj id = h.obj id
  keep : me.keeps = true → KeepOld n0 h h'
  nonew : me.keeps = true → me.exposes = false → NoNew n0 h h'
  out : OutOk n0 args me h' s' o

theorem outok_exit {n0 args me h' s1} (s2 : AState) {v x}
    (ho : OutOk n0 args me h' s1 (.exit v x)) : OutOk n0 args me h' s2 (.exit v x) := by
  cases x <;> exact ho

theorem post_exit {n0 args me h h' s1} (s2 : AState) {v x}
    (hp : Post n0 args me h h' s1 (.exit v x)) : Post n0 args me h h' s2 (.exit v x) :=
  ⟨hp.frame, hp.keep, hp.nonew, outok_exit s2 hp.out⟩

theorem post_weaken {n0 args me h h' s1 s2 o} (hp : Post n0 args me h h' s1 o)
    (hw : ∀ e', Rel n0 args h' s1 e' → Rel n0 args h' s2 e') : Post n0 args me h h' s2 o := by
  refine ⟨hp.frame, hp.keep, hp.nonew, ?_⟩
  cases o with
  | norm e' => exact hw e' hp.out
  | exit v x => exact outok_exit s2 hp.out

theorem post_seq {n0 args me h h1 h2 s1 s2 e1 o}
    (p1 : Post n0 args me h h1 s1 (.norm e1)) (p2 : Post n0 args me h1 h2 s2 o) :
    Post n0 args me h h2 s2 o :=
  ⟨fun id hid hnw => (p2.frame id hid hnw).trans (p1.frame id hid hnw),
   fun hk => keepold_trans (p1.keep hk) (p2.keep hk),
   fun hk he => nonew_trans (p1.nonew hk he) (p2.nonew hk he),
   p2.out⟩

/-- A statement that does not touch the heap. -/
theorem post_same {n0 args me h s' o} (ho : OutOk n0 args me h s' o) : Post n0 args me h h s' o :=
  ⟨fun _ _ _ => rfl, fun _ => keepold_refl _ _, fun _ _ => nonew_refl _ _, ho⟩

/-- Transport of `Rel` along a heap change that keeps closedness and does not touch the receiver. -/
theorem rel_transport {n0 args h h' s e} (hk : Keep n0 h h') (hnn : NoNew n0 h h') (hn : n0 ≤ h.next)
    (hargs : ∀ i, WFVal n0 (args.getD i .scalar)) (hw : WFHeap h) (he : WFEnv h e)
    (hself : ∀ id, args.getD 0 .scalar = .ref id → h'.obj id = h.obj id)
    (hr : Rel n0 args h s e) : Rel n0 args h' s e := by
  refine ⟨hr.live, fun hx => oldclosed_nonew (hr.ne hx) hnn, fun x => gam_keep hk (he x) (hr.env x), ?_⟩
  intro id hid f
  rw [hself id hid]
  have hlt : id < h.next := Nat.lt_of_lt_of_le (hargs 0 id hid) hn
  exact gam_keep hk (hw id f hlt) (hr.fld id hid f)

/-- A variable through which a write is permitted and which holds an old object: the object is the
own object of a writable parameter. -/
theorem writable_written {n0 args h me ax id} (hwr : writable me ax = true)
    (hg : Gam n0 args h ax (.ref id)) (hid : id < n0) : Written me args id := by
  cases ax with
  | scal => simp [Gam] at hg
  | closed => exact absurd (hg id rfl id (Reach.refl id)) (by omega)
  | fresh => exact absurd (hg id rfl) (by omega)
  | param i =>
    simp only [writable, List.contains_iff_mem] at hwr
    rcases hg with hg | hg
    · cases hg
    · exact ⟨i, hwr, hg.symm⟩
  | any => simp [writable] at hwr

theorem reach_alloc_new {h : Heap} {o} (hr : Reach h.alloc h.next o) : o = h.next := by
  generalize ha : h.next = a at hr
  induction hr with
  | refl => rfl
  | @step b c k _ e ih =>
    have hb := ih
    subst hb
    simp [Heap.alloc, ha] at e


theorem storeFld_env (s : AState) (ax sel ay) : (s.storeFld ax sel ay).env = s.env := by
  unfold AState.storeFld
  split <;> rfl

theorem storeFld_dead (s : AState) (ax sel ay) : (s.storeFld ax sel ay).dead = s.dead := by
  unfold AState.storeFld
  split <;> rfl

theorem storeFld_exposed (s : AState) (ax sel ay) : (s.storeFld ax sel ay).exposed = s.exposed := by
  unfold AState.storeFld
  split <;> rfl

theorem storeFld_mark (s : AState) (ax sel ay) : (s.storeFld ax sel ay).mark = s.mark.storeFld ax sel ay := by
  unfold AState.storeFld
  split <;> rfl

theorem expose_some {me : Summary} {s s' : AState} (h : s.expose me = some s') :
    s' = s.mark ∧ ¬ (me.keeps = true ∧ me.exposes = false) := by
  unfold AState.expose at h
  by_cases hc : (me.keeps && !me.exposes) = true
  · simp [hc] at h
  · simp only [hc, Bool.false_eq_true, if_false, Option.some.injEq] at h
    refine ⟨h.symm, ?_⟩
    rintro ⟨h1, h2⟩
    simp [h1, h2] at hc

/-- a variable through which a write is permitted and which is not a parameter holds a new object -/
theorem nonparam_new {n0 args h me ax id} (hwr : writable me ax = true) (hp : ax.isParam = false)
    (hg : Gam n0 args h ax (.ref id)) : n0 ≤ id := by
  cases ax with
  | scal => simp [Gam] at hg
  | closed => exact hg id rfl id (Reach.refl id)
  | fresh => exact hg id rfl
  | param i => simp [AVal.isParam] at hp
  | any => simp [writable] at hwr

theorem write_obj_ne {h : Heap} {id k v i} (hne : i ≠ id) : (h.write id k v).obj i = h.obj i := by
  simp [Heap.write, hne]

theorem write_obj_same (h : Heap) (id k v f) :
    (h.write id k v).obj id f = if f = k then v else h.obj id f := by
  simp [Heap.write]

/-- The abstract state after a permitted store `x.sel := y` (target object `id`, slot `k`). -/
theorem rel_storeFld {n0 args} {h : Heap} {s1 : AState} {e : Env} {ax : AVal} {sel : Sel} {ay : AVal}
    {id k : Nat} {me : Summary} {vy : Val}
    (hargs : ∀ i, WFVal n0 (args.getD i .scalar))
    (hlive : s1.dead = false)
    (hne : s1.exposed = false → OldClosed n0 (h.write id k vy))
    (hwr : writable me ax = true)
    (hax : Gam n0 args h ax (.ref id))
    (hpick : sel.picks k)
    (henv : ∀ x, Gam n0 args (h.write id k vy) (AList.get s1.env x) (e x))
    (hfld : ∀ sid, args.getD 0 .scalar = .ref sid →
      ∀ f, Gam n0 args (h.write id k vy) (AList.get s1.fld f) (h.obj sid f))
    (hay : Gam n0 args (h.write id k vy) ay vy) :
    Rel n0 args (h.write id k vy) (s1.storeFld ax sel ay) e := by
  refine ⟨by rw [storeFld_dead]; exact hlive, by rw [storeFld_exposed]; exact hne,
    fun x => by rw [storeFld_env]; exact henv x, ?_⟩
  intro sid hsid f
  have hsidlt : sid < n0 := hargs 0 sid hsid
  cases ax with
  | scal => simp [Gam] at hax
  | any => simp [writable] at hwr
  | closed =>
    have : n0 ≤ id := hax id rfl id (Reach.refl id)
    rw [write_obj_ne (by omega)]
    exact hfld sid hsid f
  | fresh =>
    have : n0 ≤ id := hax id rfl
    rw [write_obj_ne (by omega)]
    exact hfld sid hsid f
  | param i =>
    cases i with
    | succ j =>
      simp only [AState.storeFld, AState.forget, alist_get_map_any]
      trivial
    | zero =>
      cases sel with
      | elem =>
        simp only [AState.storeFld, AState.forget, alist_get_map_any]
        trivial
      | field g =>
        have hk : k = g := hpick
        have hid : id = sid := by
          rcases hax with hax | hax
          · cases hax
          · rw [hsid] at hax; cases hax; rfl
        subst hid
        subst hk
        simp only [AState.storeFld]
        rw [write_obj_same, alist_get_set]
        by_cases hf : f = k
        · by_cases hl : k < s1.fld.length
          · simp [hf, hl]; exact hay
          · have : AList.get s1.fld k = .any := by
              unfold AList.get; rw [List.getD_eq_getElem?_getD, List.getElem?_eq_none (by omega)]; rfl
            simp [hf, hl, this, Gam]
        · simp [hf]; exact hfld id hsid f


theorem gam_aload {n0 args h s e y sel id k} (hr : Rel n0 args h s e) (hy : e y = .ref id)
    (hp : Sel.picks sel k) : Gam n0 args h (aload s y sel) (h.obj id k) := by
  have hg := hr.env y
  rw [hy] at hg
  unfold aload
  split
  · rename_i heq
    rw [heq] at hg
    intro t ht o ho
    exact hg id rfl o (reach_trans (Reach.step (Reach.refl id) ht) ho)
  · rename_i f heq
    rw [heq] at hg
    have hk : k = f := hp
    subst hk
    rcases hg with hg | hg
    · cases hg
    · exact hr.fld id hg.symm k
  · trivial

/-- Soundness of the abstract store. -/
theorem store_post {n0 args me} {h : Heap} {s s' : AState} {e : Env} {x y : Var} {sel : Sel} {id k : Nat}
    (ha : astore me x sel y s = some s') (hn : n0 ≤ h.next)
    (hargs : ∀ i, WFVal n0 (args.getD i .scalar)) (hw : WFHeap h) (he : WFEnv h e)
    (hr : Rel n0 args h s e) (hx : e x = .ref id) (hp : Sel.picks sel k) :
    Post n0 args me h (h.write id k (e y)) s' (.norm e) := by
  unfold astore at ha
  have hax := hr.env x
  rw [hx] at hax
  by_cases hwr : writable me (AList.get s.env x) = true
  · simp only [hwr, if_true] at ha
    have hframe : ∀ i, i < n0 → ¬ Written me args i → (h.write id k (e y)).obj i = h.obj i := by
      intro i hi hnw
      by_cases hii : i = id
      · subst hii; exact absurd (writable_written hwr hax hi) hnw
      · exact write_obj_ne hii
    have hfldold : ∀ sid, args.getD 0 .scalar = .ref sid → sid < h.next :=
      fun sid hsid => Nat.lt_of_lt_of_le (hargs 0 sid hsid) hn
    by_cases hst : (AList.get s.env y).storable = true
    · simp only [hst, if_true] at ha
      have hk : Keep n0 h (h.write id k (e y)) := keep_write hst (hr.env y)
      have henv' : ∀ v, Gam n0 args (h.write id k (e y)) (AList.get s.env v) (e v) :=
        fun v => gam_keep hk (he v) (hr.env v)
      have hfld' : ∀ sid, args.getD 0 .scalar = .ref sid →
          ∀ f, Gam n0 args (h.write id k (e y)) (AList.get s.fld f) (h.obj sid f) :=
        fun sid hsid f => gam_keep hk (hw sid f (hfldold sid hsid)) (hr.fld sid hsid f)
      have hay' := gam_keep hk (he y) (hr.env y)
      by_cases hex : ((AList.get s.env x).isParam && AList.get s.env y == AVal.closed) = true
      · -- a reference to a new closed object goes into a parameter's object
        simp only [hex, if_true] at ha
        obtain ⟨hs', hflags⟩ := expose_some ha
        subst hs'
        refine ⟨hframe, fun _ => keepold_of_keep hn hk, fun h1 h2 => absurd ⟨h1, h2⟩ hflags, ?_⟩
        rw [storeFld_mark]
        exact rel_storeFld (s1 := s.mark) hargs hr.live (fun hc => by simp [AState.mark] at hc) hwr hax hp
          henv' hfld' hay'
      · simp only [hex, Bool.false_eq_true, if_false, Option.some.injEq] at ha
        subst ha
        have hnn : NoNew n0 h (h.write id k (e y)) := by
          by_cases hpar : (AList.get s.env x).isParam = true
          · have hyc : AList.get s.env y ≠ .closed := by
              intro hc; simp [hpar, hc] at hex
            have hys : AList.get s.env y = .scal := by
              cases hy : AList.get s.env y <;> simp [hy, AVal.storable] at hst hyc ⊢
            have := hr.env y
            rw [hys] at this
            simp only [Gam] at this
            rw [this]; exact nonew_write_scalar
          · exact nonew_of_untouched (write_untouched (nonparam_new hwr (by simpa using hpar) hax))
        refine ⟨hframe, fun _ => keepold_of_keep hn hk, fun _ _ => hnn, ?_⟩
        exact rel_storeFld hargs hr.live (fun hc => oldclosed_nonew (hr.ne hc) hnn) hwr hax hp henv' hfld' hay'
    · simp only [hst, Bool.false_eq_true, if_false] at ha
      have hne : AList.get s.env y ≠ .closed := by
        intro hc; rw [hc] at hst; simp [AVal.storable] at hst
      have henv' : ∀ v, Gam n0 args (h.write id k (e y)) (AList.get s.degrade.env v) (e v) := by
        intro v
        simp only [AState.degrade, alist_get_map_degrade]
        exact gam_degrade (hr.env v)
      have hfld' : ∀ sid, args.getD 0 .scalar = .ref sid →
          ∀ f, Gam n0 args (h.write id k (e y)) (AList.get s.degrade.fld f) (h.obj sid f) := by
        intro sid hsid f
        simp only [AState.degrade, alist_get_map_degrade]
        exact gam_degrade (hr.fld sid hsid f)
      have hay' : Gam n0 args (h.write id k (e y)) (AList.get s.env y) (e y) := gam_heap_indep hne (hr.env y)
      by_cases hpar : (AList.get s.env x).isParam = true
      · simp only [hpar, if_true] at ha
        by_cases hkp : me.keeps = true
        · simp [hkp] at ha
        · simp only [hkp, Bool.false_eq_true, if_false, Option.some.injEq] at ha
          subst ha
          refine ⟨hframe, fun hk => absurd hk hkp, fun hk => absurd hk hkp, ?_⟩
          rw [storeFld_mark]
          exact rel_storeFld (s1 := s.degrade.mark) hargs hr.live (fun hc => by simp [AState.mark] at hc) hwr hax hp
            henv' hfld' hay'
      · simp only [hpar, Bool.false_eq_true, if_false] at ha
        have hunt := write_untouched (h := h) (k := k) (v := e y) (nonparam_new hwr (by simpa using hpar) hax)
        have hnn : NoNew n0 h (h.write id k (e y)) := nonew_of_untouched hunt
        by_cases hkx : (me.keeps && s.exposed) = true
        · simp [hkx] at ha
        · simp only [hkx, Bool.false_eq_true, if_false, Option.some.injEq] at ha
          subst ha
          refine ⟨hframe, ?_, fun _ _ => hnn, ?_⟩
          · intro hk
            have hxe : s.exposed = false := by
              cases hse : s.exposed <;> simp [hk, hse] at hkx ⊢
            exact keepold_of_untouched (hr.ne hxe) hunt
          · exact rel_storeFld (s1 := s.degrade) hargs hr.live
              (fun hc => oldclosed_nonew (hr.ne hc) hnn) hwr hax hp henv' hfld' hay'
  · simp [hwr] at ha


theorem aargs_get (l : AList) (ys : List Var) {i : Nat} (hi : i < ys.length) :
    AList.get (ys.map (AList.get l)) i = AList.get l ys[i] := by
  conv => lhs; unfold AList.get
  rw [List.getD_eq_getElem?_getD, List.getElem?_map, List.getElem?_eq_getElem hi]
  rfl

theorem cargs_get (e : Env) (ys : List Var) {i : Nat} (hi : i < ys.length) :
    (ys.map e).getD i .scalar = e ys[i] := by
  rw [List.getD_eq_getElem?_getD, List.getElem?_map, List.getElem?_eq_getElem hi]
  rfl

theorem cargs_get_ge (e : Env) (ys : List Var) {i : Nat} (hi : ¬ i < ys.length) :
    (ys.map e).getD i .scalar = .scalar := by
  rw [List.getD_eq_getElem?_getD, List.getElem?_eq_none (by simp; omega)]
  rfl

theorem gam_instRet {n0 m args} {h' : Heap} {l : AList} {e : Env} {ys : List Var} {r : AVal} {vr : Val}
    (henv : ∀ v, Gam n0 args h' (AList.get l v) (e v)) (hn : n0 ≤ m)
    (hv : Gam m (ys.map e) h' r vr) :
    Gam n0 args h' (instRet (ys.map (AList.get l)) r) vr := by
  cases r with
  | scal => exact hv
  | closed => intro id hid o ho; exact Nat.le_trans hn (hv id hid o ho)
  | fresh => intro id hid; exact Nat.le_trans hn (hv id hid)
  | any => trivial
  | param i =>
    simp only [instRet]
    rcases hv with hv | hv
    · rw [hv]; exact gam_scalar _ _ _ _
    · by_cases hi : i < ys.length
      · rw [aargs_get l ys hi, hv, cargs_get e ys hi]; exact henv _
      · rw [hv, cargs_get_ge e ys hi]; exact gam_scalar _ _ _ _

/-- Soundness of the abstract call, given the callee's post-condition (relative to its own
activation, which starts with `h.next` objects and the arguments `ys.map e`). -/
theorem call_post {n0 args me cs} {h h' : Heap} {s s' : AState} {e : Env} {x : Var} {ys : List Var}
    {vr : Val}
    (ha : acall me cs x ys s = some s') (hn : n0 ≤ h.next)
    (hargs : ∀ i, WFVal n0 (args.getD i .scalar)) (hw : WFHeap h) (he : WFEnv h e)
    (hr : Rel n0 args h s e)
    (hframe : ∀ id, id < h.next → ¬ Written cs (ys.map e) id → h'.obj id = h.obj id)
    (hkeep : cs.keeps = true → Keep h.next h h')
    (hnonew : cs.keeps = true → cs.exposes = false → NoNew h.next h h')
    (hv : Gam h.next (ys.map e) h' cs.ret vr) :
    Post n0 args me h h' s' (.norm (e.set x vr)) := by
  unfold acall at ha
  by_cases hall : (cs.writes.all fun i =>
      decide (i < ys.length) && writable me (AList.get (ys.map (AList.get s.env)) i)) = true
  · simp only [hall, if_true] at ha
    rw [List.all_eq_true] at hall
    -- what a written argument is
    have hwa : ∀ i, i ∈ cs.writes → ∀ id, (ys.map e).getD i .scalar = .ref id →
        writable me (AList.get s.env ys[i]!) = true ∧ Gam n0 args h (AList.get s.env ys[i]!) (.ref id) ∧
        AList.get (ys.map (AList.get s.env)) i = AList.get s.env ys[i]! := by
      intro i hi id hid
      have h1 := hall i hi
      simp only [Bool.and_eq_true, decide_eq_true_eq] at h1
      obtain ⟨hlt, hwr⟩ := h1
      rw [aargs_get _ _ hlt] at hwr
      rw [cargs_get e ys hlt] at hid
      have hidx : ys[i]! = ys[i] := by simp [hlt]
      rw [hidx]
      refine ⟨hwr, ?_, aargs_get _ _ hlt⟩
      rw [← hid]; exact hr.env _
    -- caller's frame
    have hfr : ∀ id, id < n0 → ¬ Written me args id → h'.obj id = h.obj id := by
      intro id hid hnw
      refine hframe id (Nat.lt_of_lt_of_le hid hn) ?_
      rintro ⟨i, hi, heq⟩
      obtain ⟨hwr, hg, _⟩ := hwa i hi id heq
      exact hnw (writable_written hwr hg hid)
    -- no object that existed at activation start is touched unless a parameter is passed in a written position
    have hold : (cs.writes.any fun i => (AList.get (ys.map (AList.get s.env)) i).isParam) = false →
        ∀ a, a < n0 → h'.obj a = h.obj a := by
      intro hany a hal
      refine hframe a (Nat.lt_of_lt_of_le hal hn) ?_
      rintro ⟨i, hi, heq⟩
      obtain ⟨hwr, hg, hidx⟩ := hwa i hi a heq
      have hnp : (AList.get (ys.map (AList.get s.env)) i).isParam = false := by
        rw [List.any_eq_false] at hany
        simpa using hany i hi
      rw [hidx] at hnp
      have := nonparam_new hwr hnp hg
      omega
    have hself : (cs.writes.any fun i => (AList.get (ys.map (AList.get s.env)) i).isParam) = false →
        ∀ sid, args.getD 0 .scalar = .ref sid → h'.obj sid = h.obj sid :=
      fun hany sid hsid => hold hany sid (hargs 0 sid hsid)
    generalize htch : (cs.writes.any fun i => (AList.get (ys.map (AList.get s.env)) i).isParam) = touches
      at ha hold hself
    generalize hs1 : (if touches = true then s.forget else s) = s1 at ha
    have hs1env : s1.env = s.env := by
      rw [← hs1]; split <;> rfl
    have hs1live : s1.dead = false := by
      rw [← hs1]; split <;> exact hr.live
    have hs1exp : s1.exposed = s.exposed := by
      rw [← hs1]; split <;> rfl
    -- the intermediate state (and any state that differs from it in the `exposed` flag only)
    have hrel1 : Keep n0 h h' → ∀ sx : AState, sx.env = s1.env → sx.fld = s1.fld → sx.dead = s1.dead →
        (sx.exposed = false → OldClosed n0 h') → Rel n0 args h' sx e := by
      intro hk sx h1 h2 h3 hne
      refine ⟨by rw [h3]; exact hs1live, hne, fun v => by rw [h1, hs1env]; exact gam_keep hk (he v) (hr.env v), ?_⟩
      intro sid hsid f
      rw [h2]
      by_cases hany : touches = true
      · rw [← hs1]; simp only [hany, if_true, AState.forget, alist_get_map_any]; trivial
      · rw [← hs1]; simp only [hany, Bool.false_eq_true, if_false]
        rw [hself (by simpa using hany) sid hsid]
        exact gam_keep hk (hw sid f (Nat.lt_of_lt_of_le (hargs 0 sid hsid) hn)) (hr.fld sid hsid f)
    have hrel2 : ∀ sx : AState, sx.env = s1.degrade.env → sx.fld = s1.degrade.fld → sx.dead = s1.dead →
        (sx.exposed = false → OldClosed n0 h') → Rel n0 args h' sx e := by
      intro sx h1 h2 h3 hne
      refine ⟨by rw [h3]; exact hs1live, hne, ?_, ?_⟩
      · intro v
        rw [h1]
        simp only [AState.degrade, alist_get_map_degrade, hs1env]
        exact gam_degrade (hr.env v)
      · intro sid hsid f
        rw [h2]
        by_cases hany : touches = true
        · rw [← hs1]; simp only [hany, if_true, AState.degrade, AState.forget, alist_get_map_degrade,
            alist_get_map_any, AVal.degrade]; trivial
        · rw [← hs1]; simp only [hany, Bool.false_eq_true, if_false, AState.degrade, alist_get_map_degrade]
          rw [hself (by simpa using hany) sid hsid]
          exact gam_degrade (hr.fld sid hsid f)
    by_cases hA : (cs.writes.isEmpty || cs.keeps) = true
    · simp only [hA, if_true] at ha
      have hk : Keep n0 h h' := by
        simp only [Bool.or_eq_true] at hA
        rcases hA with hA | hA
        · refine keep_frame hw (fun id hid => hframe id hid ?_)
          rintro ⟨i, hi, _⟩
          rw [List.isEmpty_iff] at hA
          rw [hA] at hi; cases hi
        · exact keep_mono hn (hkeep hA)
      have hvx : Gam n0 args h' (instRet (ys.map (AList.get s.env)) cs.ret) vr :=
        gam_instRet (l := s.env) (fun v => gam_keep hk (he v) (hr.env v)) hn hv
      by_cases hE : (touches && cs.exposes) = true
      · simp only [hE, if_true] at ha
        obtain ⟨hs', hflags⟩ := expose_some ha
        subst hs'
        refine ⟨hfr, fun _ => keepold_of_keep hn hk, fun h1 h2 => absurd ⟨h1, h2⟩ hflags, ?_⟩
        have hrel := hrel1 hk s1.mark rfl rfl rfl (fun hc => by simp [AState.mark] at hc)
        exact rel_setVar x hrel hvx
      · simp only [hE, Bool.false_eq_true, if_false, Option.some.injEq] at ha
        subst ha
        have hnn : NoNew n0 h h' := by
          by_cases hany : touches = true
          · have hce : cs.exposes = false := by
              cases hc : cs.exposes <;> simp [hany, hc] at hE ⊢
            have hne : cs.writes ≠ [] := by
              intro hc
              have : touches = false := by rw [← htch, hc]; rfl
              rw [this] at hany; cases hany
            have hck : cs.keeps = true := by
              simp only [Bool.or_eq_true, List.isEmpty_iff] at hA
              rcases hA with hA | hA
              · exact absurd hA hne
              · exact hA
            exact nonew_mono hn (hnonew hck hce)
          · exact nonew_of_untouched (hold (by simpa using hany))
        refine ⟨hfr, fun _ => keepold_of_keep hn hk, fun _ _ => hnn, ?_⟩
        have hrel := hrel1 hk s1 rfl rfl rfl (fun hc => oldclosed_nonew (hr.ne (hs1exp ▸ hc)) hnn)
        exact rel_setVar x hrel hvx
    · simp only [hA, Bool.false_eq_true, if_false] at ha
      have hvx2 : ∀ sx : AState, sx.env = s1.degrade.env → Rel n0 args h' sx e →
          Gam n0 args h' (instRet (ys.map (AList.get s1.degrade.env)) cs.ret) vr := by
        intro sx h1 hrel
        exact gam_instRet (l := s1.degrade.env) (fun v => by have := hrel.env v; rwa [h1] at this) hn hv
      by_cases hany : touches = true
      · simp only [hany, if_true] at ha
        by_cases hkp : me.keeps = true
        · simp [hkp] at ha
        · simp only [hkp, Bool.false_eq_true, if_false, Option.some.injEq] at ha
          subst ha
          refine ⟨hfr, fun hk => absurd hk hkp, fun hk => absurd hk hkp, ?_⟩
          have hrel := hrel2 s1.degrade.mark rfl rfl rfl (fun hc => by simp [AState.mark] at hc)
          exact rel_setVar x hrel (hvx2 s1.degrade.mark rfl hrel)
      · simp only [hany, Bool.false_eq_true, if_false] at ha
        have hunt := hold (by simpa using hany)
        have hnn : NoNew n0 h h' := nonew_of_untouched hunt
        by_cases hkx : (me.keeps && s.exposed) = true
        · simp [hkx] at ha
        · simp only [hkx, Bool.false_eq_true, if_false, Option.some.injEq] at ha
          subst ha
          refine ⟨hfr, ?_, fun _ _ => hnn, ?_⟩
          · intro hk
            have hxe : s.exposed = false := by
              cases hse : s.exposed <;> simp [hk, hse] at hkx ⊢
            exact keepold_of_untouched (hr.ne hxe) hunt
          · have hrel := hrel2 s1.degrade rfl rfl rfl
              (fun hc => oldclosed_nonew (hr.ne (by rw [← hs1exp]; exact hc)) hnn)
            exact rel_setVar x hrel (hvx2 _ rfl hrel)
  · simp [hall] at ha

/-- Every function body is accepted by the abstract execution against its annotated summary. -/
def Checked (P : Program) : Prop :=
  ∀ (g : Nat) (fd : FunDecl), P.funs[g]? = some fd →
    ∃ s', aexec P.sums fd.sum fd.body (entryState P.nfields fd) = some s'

theorem sums_get {P : Program} {g : Nat} {fd : FunDecl} (h : P.funs[g]? = some fd) : P.sums[g]? = some fd.sum := by
  simp [Program.sums, List.getElem?_map, h]

theorem entry_rel (nf : Nat) (fd : FunDecl) {n0 : Nat} (vals : List Val) {h : Heap} (hoc : OldClosed n0 h) :
    Rel n0 vals h (entryState nf fd) (entryEnv fd.nparams vals) := by
  refine ⟨rfl, fun _ => hoc, ?_, ?_⟩
  · intro x
    unfold entryState entryEnv AList.get
    simp only [List.getD_eq_getElem?_getD]
    by_cases hx : x < fd.nparams
    · rw [List.getElem?_append_left (by simp [hx])]
      simp [hx, Gam]
    · simp only [hx, if_false]
      exact gam_scalar _ _ _ _
  · intro id _ f
    simp only [entryState, alist_get_replicate_any]; trivial

theorem wf_args_map {h : Heap} {e : Env} (he : WFEnv h e) (ys : List Var) (i : Nat) :
    WFVal h.next ((ys.map e).getD i .scalar) := by
  by_cases hi : i < ys.length
  · rw [cargs_get e ys hi]; exact he _
  · rw [cargs_get_ge e ys hi]; exact wfval_scalar _

/-- **Statement-level soundness.**  `n0` is the number of objects that existed when the enclosing
activation started, `args` its arguments, `me` its (annotated) summary. -/
theorem sound_stmt {P : Program} (hc : Checked P) {c h e h' o} (hex : Exec P c h e h' o) :
    ∀ (me : Summary) (n0 : Nat) (args : List Val) (s s' : AState),
      aexec P.sums me c s = some s' → n0 ≤ h.next → (∀ i, WFVal n0 (args.getD i .scalar)) →
      WFHeap h → WFEnv h e → Rel n0 args h s e → Post n0 args me h h' s' o := by
  induction hex with
  | skip =>
    intro me n0 args s s' ha _ _ _ _ hr
    simp only [aexec, Option.some.injEq] at ha; subst ha
    exact post_same (hr)
  | seqN h1 _ ih1 ih2 =>
    intro me n0 args s s' ha hn hargs hw he hr
    simp only [aexec] at ha
    split at ha
    · cases ha
    · rename_i s1 hs1
      obtain ⟨hw1, hm1, he1⟩ := exec_wf h1 hw he
      have p1 := ih1 me n0 args s s1 hs1 hn hargs hw he hr
      have p2 := ih2 me n0 args s1 s' ha (Nat.le_trans hn hm1) hargs hw1 he1 p1.out
      exact post_seq p1 p2
  | seqX _ ih1 =>
    intro me n0 args s s' ha hn hargs hw he hr
    simp only [aexec] at ha
    split at ha
    · cases ha
    · rename_i s1 hs1
      exact post_exit s' (ih1 me n0 args s s1 hs1 hn hargs hw he hr)
  | scalar =>
    intro me n0 args s s' ha _ _ _ _ hr
    simp only [aexec, Option.some.injEq] at ha; subst ha
    exact post_same (rel_setVar _ hr rfl)
  | alias =>
    intro me n0 args s s' ha _ _ _ _ hr
    simp only [aexec, Option.some.injEq] at ha; subst ha
    exact post_same (rel_setVar _ hr (hr.env _))
  | global _ =>
    intro me n0 args s s' ha _ _ _ _ hr
    simp only [aexec, Option.some.injEq] at ha; subst ha
    exact post_same (rel_setVar _ hr trivial)
  | @new x h e =>
    intro me n0 args s s' ha hn hargs hw he hr
    simp only [aexec, Option.some.injEq] at ha; subst ha
    have hobj : ∀ id, id < h.next → h.alloc.obj id = h.obj id := by
      intro id hid
      have : id ≠ h.next := by omega
      simp [Heap.alloc, this]
    have hnn : NoNew n0 h h.alloc := nonew_of_untouched (alloc_untouched hn)
    refine ⟨fun id hid _ => hobj id (by omega), fun _ => keepold_of_keep hn (keep_alloc _ _), fun _ _ => hnn, ?_⟩
    have hr' : Rel n0 args h.alloc s e :=
      rel_transport (keep_alloc n0 h) hnn hn hargs hw he
        (fun id hid => hobj id (Nat.lt_of_lt_of_le (hargs 0 id hid) hn)) hr
    refine rel_setVar x hr' ?_
    intro id hid o ho
    cases hid
    rw [reach_alloc_new ho]; exact hn
  | @load x y sel h e id k hy hp =>
    intro me n0 args s s' ha _ _ _ _ hr
    simp only [aexec, Option.some.injEq] at ha; subst ha
    exact post_same (rel_setVar _ hr (gam_aload hr hy hp))
  | @store x sel y h e id k hx hp =>
    intro me n0 args s s' ha hn hargs hw he hr
    simp only [aexec] at ha
    exact store_post ha hn hargs hw he hr hx hp
  | @callRet x g ys h e fd h' v hfd hbody ih =>
    intro me n0 args s s' ha hn hargs hw he hr
    simp only [aexec, sums_get hfd] at ha
    obtain ⟨sc, hsc⟩ := hc g fd hfd
    have pc := ih fd.sum h.next (ys.map e) _ sc hsc (Nat.le_refl _) (wf_args_map he ys) hw
      (wfenv_entry _ _ he) (entry_rel _ _ _ (oldclosed_of_wf hw))
    exact call_post ha hn hargs hw he hr pc.frame pc.keep pc.nonew pc.out
  | @callFall x g ys h e fd h' e' hfd hbody ih =>
    intro me n0 args s s' ha hn hargs hw he hr
    simp only [aexec, sums_get hfd] at ha
    obtain ⟨sc, hsc⟩ := hc g fd hfd
    have pc := ih fd.sum h.next (ys.map e) _ sc hsc (Nat.le_refl _) (wf_args_map he ys) hw
      (wfenv_entry _ _ he) (entry_rel _ _ _ (oldclosed_of_wf hw))
    exact call_post ha hn hargs hw he hr pc.frame pc.keep pc.nonew (gam_scalar _ _ _ _)
  | @callExc x g ys h e fd h' v hfd hbody ih =>
    intro me n0 args s s' ha hn hargs hw he hr
    simp only [aexec, sums_get hfd] at ha
    obtain ⟨sc, hsc⟩ := hc g fd hfd
    have pc := ih fd.sum h.next (ys.map e) _ sc hsc (Nat.le_refl _) (wf_args_map he ys) hw
      (wfenv_entry _ _ he) (entry_rel _ _ _ (oldclosed_of_wf hw))
    have pp := call_post (vr := .scalar) ha hn hargs hw he hr pc.frame pc.keep pc.nonew (gam_scalar _ _ _ _)
    exact ⟨pp.frame, pp.keep, pp.nonew, trivial⟩
  | iteL _ ih =>
    intro me n0 args s s' ha hn hargs hw he hr
    simp only [aexec] at ha
    split at ha
    · rename_i s1 s2 hs1 hs2
      simp only [Option.some.injEq] at ha; subst ha
      exact post_weaken (ih me n0 args s s1 hs1 hn hargs hw he hr) (fun _ h => rel_join_left _ h)
    · cases ha
  | iteR _ ih =>
    intro me n0 args s s' ha hn hargs hw he hr
    simp only [aexec] at ha
    split at ha
    · rename_i s1 s2 hs1 hs2
      simp only [Option.some.injEq] at ha; subst ha
      exact post_weaken (ih me n0 args s s2 hs2 hn hargs hw he hr) (fun _ h => rel_join_right _ h)
    · cases ha
  | whileDone =>
    intro me n0 args s s' ha _ _ _ _ hr
    simp only [aexec] at ha
    exact post_same ((iter_spec ha).1 _ _ _ _ hr)
  | @whileStep c h e h1 e1 h2 o hb _ ih1 ih2 =>
    intro me n0 args s s' ha hn hargs hw he hr
    simp only [aexec] at ha
    obtain ⟨hinv, sb, hsb, hle⟩ := iter_spec ha
    have hfix : aexec P.sums me (.while c) s' = some s' := by
      simp only [aexec]; exact iter_fix (n := 11) ha
    obtain ⟨hw1, hm1, he1⟩ := exec_wf hb hw he
    have p1 := ih1 me n0 args s' sb hsb hn hargs hw he (hinv _ _ _ _ hr)
    have p1' : Post n0 args me h h1 s' (.norm e1) := post_weaken p1 (fun _ h => rel_le hle h)
    have p2 := ih2 me n0 args s' s' hfix (Nat.le_trans hn hm1) hargs hw1 he1 p1'.out
    exact post_seq p1' p2
  | @whileExit c h e h1 v x _ ih1 =>
    intro me n0 args s s' ha hn hargs hw he hr
    simp only [aexec] at ha
    obtain ⟨hinv, sb, hsb, _⟩ := iter_spec ha
    exact post_exit s' (ih1 me n0 args s' sb hsb hn hargs hw he (hinv _ _ _ _ hr))
  | ret =>
    intro me n0 args s s' ha _ _ _ _ hr
    simp only [aexec] at ha
    split at ha
    · rename_i hle
      exact post_same (gam_le hle (hr.env _))
    · cases ha
  | raise =>
    intro me n0 args s s' _ _ _ _ _ _
    exact post_same (trivial)

end Pymeeus.Effects
