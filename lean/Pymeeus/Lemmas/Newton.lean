import Mathlib.LinearAlgebra.Lagrange
import Mathlib.Tactic.Ring
import Mathlib.Tactic.FieldSimp
import Mathlib.Tactic.Linarith
/-
Newton's divided-difference form of the interpolating polynomial, over any field:
the divided differences computed by the recursion `f[s..e] = (f[s..e-1] - f[s+1..e]) / (x_s - x_e)` are the
leading coefficients of the Lagrange interpolants, and the Newton form built from them IS the
Lagrange interpolant (Mathlib's `Lagrange.interpolate`).  Nothing here mentions the model.
-/
namespace Pymeeus.Newton
open Polynomial

variable {K : Type*} [Field K]

/-- divided difference `f[v_s, …, v_{s+k}]` of the values `r` at the nodes `v` -/
def dd (v r : ℕ → K) : ℕ → ℕ → K
  | s, 0 => r s
  | s, k + 1 => (dd v r s k - dd v r (s + 1) k) / (v s - v (s + k + 1))

/-- the interpolating polynomial through the nodes `s, …, s+k` -/
noncomputable def P (v r : ℕ → K) (s k : ℕ) : K[X] := Lagrange.interpolate (Finset.Icc s (s + k)) v r

theorem Icc_erase_right (s k : ℕ) : (Finset.Icc s (s + (k + 1))).erase (s + k + 1) = Finset.Icc s (s + k) := by
  ext i; simp only [Finset.mem_erase, Finset.mem_Icc]; omega

theorem Icc_erase_left (s k : ℕ) : (Finset.Icc s (s + (k + 1))).erase s = Finset.Icc (s + 1) (s + 1 + k) := by
  ext i; simp only [Finset.mem_erase, Finset.mem_Icc]; omega

theorem card_Icc (s k : ℕ) : (Finset.Icc s (s + k)).card = k + 1 := by
  rw [Nat.card_Icc]; omega

theorem degree_P_lt {v r : ℕ → K} {s k : ℕ} (hv : Set.InjOn v (Finset.Icc s (s + k) : Finset ℕ)) :
    (P v r s k).degree < (k + 1 : ℕ) := by
  have := Lagrange.degree_interpolate_lt r hv
  rw [card_Icc] at this
  exact this

theorem coeff_mul_basisDivisor (Q : K[X]) (a b : K) (k : ℕ) (hQ : Q.degree < (k + 1 : ℕ)) :
    (Q * Lagrange.basisDivisor a b).coeff (k + 1) = (a - b)⁻¹ * Q.coeff k := by
  unfold Lagrange.basisDivisor
  have e : Q * (C (a - b)⁻¹ * (X - C b)) = C (a - b)⁻¹ * (Q * X) - C ((a - b)⁻¹ * b) * Q := by
    rw [C_mul]; ring
  rw [e, coeff_sub, coeff_C_mul, coeff_C_mul, coeff_mul_X, coeff_eq_zero_of_degree_lt hQ, mul_zero, sub_zero]

/-- The divided difference is the leading coefficient of the interpolating polynomial. -/
theorem coeff_P (v r : ℕ → K) : ∀ (k s : ℕ), Set.InjOn v (Finset.Icc s (s + k) : Finset ℕ) →
    (P v r s k).coeff k = dd v r s k := by
  intro k
  induction k with
  | zero =>
    intro s _
    unfold P
    rw [show Finset.Icc s (s + 0) = {s} by simp, Lagrange.interpolate_singleton, coeff_C_zero]
    rfl
  | succ k ih =>
    intro s hv
    have hi : s ∈ Finset.Icc s (s + (k + 1)) := by simp
    have hj : s + k + 1 ∈ Finset.Icc s (s + (k + 1)) := by simp only [Finset.mem_Icc]; omega
    have hij : s ≠ s + k + 1 := by omega
    have hvij : v s ≠ v (s + k + 1) := fun e => hij (hv (by exact_mod_cast hi) (by exact_mod_cast hj) e)
    have hv1 : Set.InjOn v (Finset.Icc s (s + k) : Finset ℕ) := by
      apply hv.mono; intro i hi; simp only [Finset.coe_Icc, Set.mem_Icc] at hi ⊢; omega
    have hv2 : Set.InjOn v (Finset.Icc (s + 1) (s + 1 + k) : Finset ℕ) := by
      apply hv.mono; intro i hi; simp only [Finset.coe_Icc, Set.mem_Icc] at hi ⊢; omega
    have key := Lagrange.interpolate_eq_add_interpolate_erase r hv hi hj hij
    rw [Icc_erase_right, Icc_erase_left] at key
    unfold P
    rw [key, coeff_add]
    have c1 := coeff_mul_basisDivisor (P v r s k) (v s) (v (s + k + 1)) k (degree_P_lt hv1)
    have c2 := coeff_mul_basisDivisor (P v r (s + 1) k) (v (s + k + 1)) (v s) k (degree_P_lt hv2)
    unfold P at c1 c2
    rw [c1, c2]
    have i1 := ih s hv1
    have i2 := ih (s + 1) hv2
    unfold P at i1 i2
    rw [i1, i2]
    show _ = (dd v r s k - dd v r (s + 1) k) / (v s - v (s + k + 1))
    have h1 : v s - v (s + k + 1) ≠ 0 := sub_ne_zero.mpr hvij
    have h2 : v (s + k + 1) - v s ≠ 0 := sub_ne_zero.mpr (Ne.symm hvij)
    field_simp
    ring

theorem monic_prod (v : ℕ → K) (S : Finset ℕ) : (∏ i ∈ S, (X - C (v i))).Monic :=
  monic_prod_of_monic _ _ (fun i _ => monic_X_sub_C (v i))

theorem natDegree_prod (v : ℕ → K) (S : Finset ℕ) : (∏ i ∈ S, (X - C (v i))).natDegree = S.card := by
  rw [natDegree_prod_of_monic _ _ (fun i _ => monic_X_sub_C (v i))]
  simp

/-- Newton's step: adding the node `s+k+1` adds the term `f[s..s+k+1] · Π (X - v_i)`. -/
theorem newton_step (v r : ℕ → K) (s k : ℕ) (hv : Set.InjOn v (Finset.Icc s (s + (k + 1)) : Finset ℕ)) :
    P v r s (k + 1) = P v r s k + C (dd v r s (k + 1)) * ∏ i ∈ Finset.Icc s (s + k), (X - C (v i)) := by
  have hv1 : Set.InjOn v (Finset.Icc s (s + k) : Finset ℕ) := by
    apply hv.mono; intro i hi; simp only [Finset.coe_Icc, Set.mem_Icc] at hi ⊢; omega
  rw [← sub_eq_zero]
  apply eq_zero_of_degree_lt_of_eval_index_eq_zero (Finset.Icc s (s + k)) hv1
  · rw [card_Icc, degree_lt_iff_coeff_zero]
    intro m hm
    have hmon := monic_prod v (Finset.Icc s (s + k))
    have hnat : (∏ i ∈ Finset.Icc s (s + k), (X - C (v i))).natDegree = k + 1 := by
      rw [natDegree_prod, card_Icc]
    rw [coeff_sub, coeff_add, coeff_C_mul]
    rcases Nat.eq_or_lt_of_le hm with rfl | hlt
    · have e1 : (P v r s (k + 1)).coeff (k + 1) = dd v r s (k + 1) := coeff_P v r (k + 1) s hv
      have e2 : (P v r s k).coeff (k + 1) = 0 := coeff_eq_zero_of_degree_lt (degree_P_lt hv1)
      have e3 : (∏ i ∈ Finset.Icc s (s + k), (X - C (v i))).coeff (k + 1) = 1 := by
        rw [← hnat]; exact hmon.coeff_natDegree
      rw [e1, e2, e3]; ring
    · have e1 : (P v r s (k + 1)).coeff m = 0 := by
        apply coeff_eq_zero_of_degree_lt
        exact lt_of_lt_of_le (degree_P_lt hv) (by exact_mod_cast hlt)
      have e2 : (P v r s k).coeff m = 0 := by
        apply coeff_eq_zero_of_degree_lt
        exact lt_of_lt_of_le (degree_P_lt hv1) (by exact_mod_cast hm)
      have e3 : (∏ i ∈ Finset.Icc s (s + k), (X - C (v i))).coeff m = 0 := by
        apply coeff_eq_zero_of_natDegree_lt; rw [hnat]; exact hlt
      rw [e1, e2, e3]; ring
  · intro i hi
    have hi' : i ∈ Finset.Icc s (s + (k + 1)) := by simp only [Finset.mem_Icc] at hi ⊢; omega
    rw [eval_sub, eval_add, eval_mul, eval_prod]
    have z : ∏ j ∈ Finset.Icc s (s + k), eval (v i) (X - C (v j)) = 0 :=
      Finset.prod_eq_zero hi (by simp)
    unfold P
    rw [Lagrange.eval_interpolate_at_node r hv hi', Lagrange.eval_interpolate_at_node r hv1 hi, z]
    ring

/-- The Newton form with coefficients `c` on the nodes `v`: `Σ_{j ≤ k} c_j Π_{i<j} (X - v_i)`. -/
noncomputable def newtonPoly (v c : ℕ → K) : ℕ → K[X]
  | 0 => C (c 0)
  | k + 1 => newtonPoly v c k + C (c (k + 1)) * ∏ i ∈ Finset.range (k + 1), (X - C (v i))

theorem range_eq_Icc (k : ℕ) : Finset.range (k + 1) = Finset.Icc 0 (0 + k) := by
  ext i; simp only [Finset.mem_range, Finset.mem_Icc]; omega

/-- **Newton = Lagrange**: the Newton form on the divided differences is the interpolating polynomial. -/
theorem newtonPoly_eq_interpolate (v r : ℕ → K) : ∀ k : ℕ, Set.InjOn v (Finset.range (k + 1) : Finset ℕ) →
    newtonPoly v (dd v r 0) k = Lagrange.interpolate (Finset.range (k + 1)) v r := by
  intro k
  induction k with
  | zero =>
    intro _
    rw [show Finset.range (0 + 1) = {0} by rfl, Lagrange.interpolate_singleton]
    rfl
  | succ k ih =>
    intro hv
    have hv1 : Set.InjOn v (Finset.range (k + 1) : Finset ℕ) := by
      apply hv.mono; intro i hi; simp only [Finset.coe_range, Set.mem_Iio] at hi ⊢; omega
    have hv' : Set.InjOn v (Finset.Icc 0 (0 + (k + 1)) : Finset ℕ) := by rw [← range_eq_Icc]; exact hv
    have step := newton_step v r 0 k hv'
    unfold P at step
    rw [← range_eq_Icc, ← range_eq_Icc] at step
    show newtonPoly v (dd v r 0) k + _ = _
    rw [ih hv1, step]

/-- value of the Newton form: `Σ_{j ≤ k} c_j Π_{i<j} (x - v_i)` -/
def nf (x : K) (v c : ℕ → K) (k : ℕ) : K :=
  ∑ j ∈ Finset.range (k + 1), c j * ∏ i ∈ Finset.range j, (x - v i)

theorem eval_newtonPoly (x : K) (v c : ℕ → K) (k : ℕ) : (newtonPoly v c k).eval x = nf x v c k := by
  induction k with
  | zero => simp [newtonPoly, nf]
  | succ k ih =>
    unfold nf at *
    rw [Finset.sum_range_succ, ← ih]
    simp [newtonPoly, eval_prod]

/-- derivative of the Newton form: `Σ_{1 ≤ j ≤ k} c_j Σ_{m<j} Π_{i<j, i≠m} (x - v_i)` -/
def nfd (x : K) (v c : ℕ → K) (k : ℕ) : K :=
  ∑ j ∈ Finset.range (k + 1), c j * ∑ m ∈ Finset.range j, ∏ i ∈ (Finset.range j).erase m, (x - v i)

theorem eval_derivative_newtonPoly (x : K) (v c : ℕ → K) (k : ℕ) :
    (derivative (newtonPoly v c k)).eval x = nfd x v c k := by
  induction k with
  | zero => simp [newtonPoly, nfd]
  | succ k ih =>
    unfold nfd at *
    rw [Finset.sum_range_succ, ← ih]
    simp only [newtonPoly, derivative_add, eval_add, derivative_mul, derivative_C, zero_mul, zero_add, eval_mul,
      eval_C]
    congr 1
    congr 1
    rw [derivative_prod_finset, eval_finsetSum]
    apply Finset.sum_congr rfl
    intro m _
    simp [eval_prod]

end Pymeeus.Newton
