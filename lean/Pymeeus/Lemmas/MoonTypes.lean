/-
Data types of the generated part of the Moon model (core Lean only: the compiled driver
imports this file).  `tools/gen_moon.py` reads pymeeus/Moon.py with `ast` and writes
`Pymeeus/Gen/MoonData.lean`, whose definitions are values of these types:

* the tables 47.A / 47.B (`PERIODIC_TERMS_LR_TABLE`, `PERIODIC_TERMS_B_TABLE`) as lists of rows;
* every "sum of periodic terms" expression of the module
  (`corr = (-0.4072 * sin(Mprimer) + 0.17241 * E * sin(Mr) + ...)`) as a list of `Term`s in
  source order.

All numbers are kept as exact decimals `m · 10^(-e)` taken from the literal's source text, so
the same data serve the real-number theorems (amplitude sums are integer computations) and the
binary64 evaluator (`Float.ofScientific m true e` is what the literal itself elaborates to).
-/
namespace Pymeeus.Moon

/-- The decimal literal `m · 10^(-e)`. -/
structure Dec where
  m : Int
  e : Nat
  deriving DecidableEq, Repr, Inhabited

/-- Argument of a `sin`/`cos` of a periodic term, kept as the source's expression tree so that
    the binary64 evaluation performs the same operations in the same order
    (`2.0 * (Dr - Fr)` and `2.0 * Dr - 2.0 * Fr` differ in binary64). Variables are numbered
    by the translator (the order is part of the generated file). -/
inductive AExp where
  | var (i : Nat)
  | scale (c : Dec) (a : AExp)      -- `c * a`
  | add (a b : AExp)                -- `a + b`
  | sub (a b : AExp)                -- `a - b`
  deriving DecidableEq, Repr, Inhabited

inductive Fn where
  | sin | cos | one
  deriving DecidableEq, Repr, Inhabited

/-- One summand `amp [* E [* E]] * fn(arg)` with `amp = c0` or `amp = (c0 + c1 * t)`.
    A summand that is subtracted in the source has the sign folded into `c0`, `c1`
    (exact in binary64: `a - c*x = a + (-c)*x`). -/
structure Term where
  c0 : Dec
  c1 : Option Dec
  epow : Nat
  fn : Fn
  arg : AExp
  deriving DecidableEq, Repr, Inhabited

/-- Row `[D, M, M', F, Σl coefficient, Σr coefficient]` of table 47.A. -/
structure RowLR where
  d : Int
  m : Int
  mp : Int
  f : Int
  cl : Dec
  cr : Dec
  deriving Repr, Inhabited

/-- Row `[D, M, M', F, Σb coefficient]` of table 47.B. -/
structure RowB where
  d : Int
  m : Int
  mp : Int
  f : Int
  cb : Dec
  deriving Repr, Inhabited

/-- `|m|` scaled to the common exponent `s` (`e ≤ s`): `|m| · 10^(s - e)`; the integer whose
    quotient by `10^s` is the absolute value of the literal. -/
def Dec.absScaled (s : Nat) (x : Dec) : Nat := x.m.natAbs * 10 ^ (s - x.e)

end Pymeeus.Moon
