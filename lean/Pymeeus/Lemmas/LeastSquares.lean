import Mathlib.Algebra.BigOperators.Group.List.Basic
import Mathlib.Algebra.Order.Field.Basic
import Mathlib.Algebra.Order.BigOperators.Ring.List
import Mathlib.Algebra.QuadraticDiscriminant
import Mathlib.Tactic.Ring
import Mathlib.Tactic.FieldSimp
import Mathlib.Tactic.LinearCombination
import Mathlib.Tactic.Positivity
import Mathlib.Tactic.Linarith
/-
Least squares over a list of points, for any (ordered) field: sums `S l f = Σ_{i ∈ l} f i`,
the normal equations of a fit with up to three basis functions solved by Cramer's rule,
optimality of a solution of the normal equations, Cauchy–Schwarz for the correlation coefficient.
Nothing here mentions the model; Refine/CurveFitting.lean connects the model's accumulators to `S`.
-/
namespace Pymeeus.LS
variable {K : Type*} {ι : Type*}

/-- `Σ_{i ∈ l} f i` -/
def S [AddMonoid K] (l : List ι) (f : ι → K) : K := (l.map f).sum

section ring
variable [CommRing K]

@[simp] theorem S_nil (f : ι → K) : S [] f = 0 := rfl
@[simp] theorem S_cons (i : ι) (l : List ι) (f : ι → K) : S (i :: l) f = f i + S l f := by
  simp [S]

theorem S_perm {l l' : List ι} (h : l.Perm l') (f : ι → K) : S l f = S l' f :=
  (h.map f).sum_eq

theorem S_congr {l : List ι} {f g : ι → K} (h : ∀ i ∈ l, f i = g i) : S l f = S l g := by
  unfold S; rw [List.map_congr_left h]

theorem S_const (l : List ι) (c : K) : S l (fun _ => c) = (l.length : K) * c := by
  induction l with
  | nil => simp
  | cons i t ih => simp only [S_cons, ih, List.length_cons]; push_cast; ring

theorem S_zero (l : List ι) : S l (fun _ => (0 : K)) = 0 := by
  rw [S_const]; ring

/-- residual times a test function, expanded: `Σ (y - (a f0 + b f1 + c f2)) g`. -/
theorem S_resid (l : List ι) (y f0 f1 f2 g : ι → K) (a b c : K) :
    S l (fun i => (y i - (a * f0 i + b * f1 i + c * f2 i)) * g i)
      = S l (fun i => y i * g i) - a * S l (fun i => f0 i * g i) - b * S l (fun i => f1 i * g i)
        - c * S l (fun i => f2 i * g i) := by
  induction l with
  | nil => simp
  | cons i t ih => simp only [S_cons]; linear_combination ih

/-- Sum of squared residuals of another coefficient triple, expanded around `(a, b, c)`. -/
theorem S_sse (l : List ι) (y f0 f1 f2 : ι → K) (a b c a' b' c' : K) :
    S l (fun i => (y i - (a' * f0 i + b' * f1 i + c' * f2 i)) ^ 2)
      = S l (fun i => (y i - (a * f0 i + b * f1 i + c * f2 i)) ^ 2)
        - 2 * ((a' - a) * S l (fun i => (y i - (a * f0 i + b * f1 i + c * f2 i)) * f0 i)
             + (b' - b) * S l (fun i => (y i - (a * f0 i + b * f1 i + c * f2 i)) * f1 i)
             + (c' - c) * S l (fun i => (y i - (a * f0 i + b * f1 i + c * f2 i)) * f2 i))
        + S l (fun i => ((a' - a) * f0 i + (b' - b) * f1 i + (c' - c) * f2 i) ^ 2) := by
  induction l with
  | nil => simp
  | cons i t ih => simp only [S_cons]; linear_combination ih

theorem S_map {κ : Type*} (l : List κ) (g : κ → ι) (f : ι → K) : S (l.map g) f = S l (fun k => f (g k)) := by
  unfold S; rw [List.map_map]; rfl

/-- sums of products of affinely rescaled quantities -/
theorem S_affine_mul (l : List ι) (f g : ι → K) (a b c d : K) :
    S l (fun i => (a * f i + b) * (c * g i + d))
      = a * c * S l (fun i => f i * g i) + a * d * S l f + b * c * S l g + (l.length : K) * (b * d) := by
  induction l with
  | nil => simp
  | cons i t ih => simp only [S_cons, List.length_cons]; push_cast; linear_combination ih

theorem S_affine (l : List ι) (f : ι → K) (a b : K) :
    S l (fun i => a * f i + b) = a * S l f + (l.length : K) * b := by
  induction l with
  | nil => simp
  | cons i t ih => simp only [S_cons, List.length_cons]; push_cast; linear_combination ih

end ring

section cramer
variable [Field K]

/-- Cramer's rule as `general_fitting` writes it (symmetric 3×3 system). -/
theorem cramer3 (m p q r s t u v w d : K) (hd : d ≠ 0)
    (hdef : d = m * r * t + 2 * p * q * s - m * s * s - r * q * q - t * p * p) :
    u - (u * (r * t - s * s) + v * (q * s - p * t) + w * (p * s - q * r)) / d * m
      - (u * (s * q - p * t) + v * (m * t - q * q) + w * (p * q - m * s)) / d * p
      - (u * (p * s - r * q) + v * (p * q - m * s) + w * (m * r - p * p)) / d * q = 0 ∧
    v - (u * (r * t - s * s) + v * (q * s - p * t) + w * (p * s - q * r)) / d * p
      - (u * (s * q - p * t) + v * (m * t - q * q) + w * (p * q - m * s)) / d * r
      - (u * (p * s - r * q) + v * (p * q - m * s) + w * (m * r - p * p)) / d * s = 0 ∧
    w - (u * (r * t - s * s) + v * (q * s - p * t) + w * (p * s - q * r)) / d * q
      - (u * (s * q - p * t) + v * (m * t - q * q) + w * (p * q - m * s)) / d * s
      - (u * (p * s - r * q) + v * (p * q - m * s) + w * (m * r - p * p)) / d * t = 0 := by
  refine ⟨?_, ?_, ?_⟩ <;> (field_simp; rw [hdef]; ring)

/-- Cramer's rule of the two-function branch of `general_fitting` and of `linear_fitting`. -/
theorem cramer2 (m p r u v d : K) (hd : d ≠ 0) (hdef : d = m * r - p * p) :
    u - (u * r - v * p) / d * m - (m * v - p * u) / d * p = 0 ∧
    v - (u * r - v * p) / d * p - (m * v - p * u) / d * r = 0 := by
  refine ⟨?_, ?_⟩ <;> (field_simp; rw [hdef]; ring)

/-- Cramer's rule as `quadratic_fitting` writes it (`n, p, q, r, s = Σ1, Σx, Σx², Σx³, Σx⁴`,
    `t, u, v = Σy, Σxy, Σx²y`). -/
theorem cramer_quadratic (n p q r s t u v d : K) (hd : d ≠ 0)
    (hdef : d = n * q * s + 2 * p * q * r - q * q * q - p * p * s - n * r * r) :
    v - (n * q * v + p * r * t + p * q * u - q * q * t - p * p * v - n * r * u) / d * s
      - (n * s * u + p * q * v + q * r * t - q * q * u - p * s * t - n * r * v) / d * r
      - (q * s * t + q * r * u + p * r * v - q * q * v - p * s * u - r * r * t) / d * q = 0 ∧
    u - (n * q * v + p * r * t + p * q * u - q * q * t - p * p * v - n * r * u) / d * r
      - (n * s * u + p * q * v + q * r * t - q * q * u - p * s * t - n * r * v) / d * q
      - (q * s * t + q * r * u + p * r * v - q * q * v - p * s * u - r * r * t) / d * p = 0 ∧
    t - (n * q * v + p * r * t + p * q * u - q * q * t - p * p * v - n * r * u) / d * q
      - (n * s * u + p * q * v + q * r * t - q * q * u - p * s * t - n * r * v) / d * p
      - (q * s * t + q * r * u + p * r * v - q * q * v - p * s * u - r * r * t) / d * n = 0 := by
  refine ⟨?_, ?_, ?_⟩ <;> (field_simp; rw [hdef]; ring)

/-- A non-singular symmetric 3×3 system has at most one solution. -/
theorem unique3 (m p q r s t a b c : K)
    (hd : m * r * t + 2 * p * q * s - m * s * s - r * q * q - t * p * p ≠ 0)
    (h0 : a * m + b * p + c * q = 0) (h1 : a * p + b * r + c * s = 0) (h2 : a * q + b * s + c * t = 0) :
    a = 0 ∧ b = 0 ∧ c = 0 := by
  have ha : a * (m * r * t + 2 * p * q * s - m * s * s - r * q * q - t * p * p) = 0 := by
    linear_combination (r * t - s * s) * h0 + (q * s - p * t) * h1 + (p * s - q * r) * h2
  have hb : b * (m * r * t + 2 * p * q * s - m * s * s - r * q * q - t * p * p) = 0 := by
    linear_combination (s * q - p * t) * h0 + (m * t - q * q) * h1 + (p * q - m * s) * h2
  have hc : c * (m * r * t + 2 * p * q * s - m * s * s - r * q * q - t * p * p) = 0 := by
    linear_combination (p * s - r * q) * h0 + (p * q - m * s) * h1 + (m * r - p * p) * h2
  exact ⟨(mul_eq_zero.mp ha).resolve_right hd, (mul_eq_zero.mp hb).resolve_right hd,
    (mul_eq_zero.mp hc).resolve_right hd⟩

/-- A non-singular symmetric 2×2 system has at most one solution. -/
theorem unique2 (m p r a b : K) (hd : m * r - p * p ≠ 0)
    (h0 : a * m + b * p = 0) (h1 : a * p + b * r = 0) : a = 0 ∧ b = 0 := by
  have ha : a * (m * r - p * p) = 0 := by linear_combination r * h0 - p * h1
  have hb : b * (m * r - p * p) = 0 := by linear_combination m * h1 - p * h0
  exact ⟨(mul_eq_zero.mp ha).resolve_right hd, (mul_eq_zero.mp hb).resolve_right hd⟩

/-- Noiseless data are recovered by any solution of the normal equations (three basis functions). -/
theorem recover3 (l : List ι) (y f0 f1 f2 : ι → K) (a b c a0 b0 c0 : K)
    (hy : ∀ i ∈ l, y i = a0 * f0 i + b0 * f1 i + c0 * f2 i)
    (h0 : S l (fun i => (y i - (a * f0 i + b * f1 i + c * f2 i)) * f0 i) = 0)
    (h1 : S l (fun i => (y i - (a * f0 i + b * f1 i + c * f2 i)) * f1 i) = 0)
    (h2 : S l (fun i => (y i - (a * f0 i + b * f1 i + c * f2 i)) * f2 i) = 0)
    (hd : S l (fun i => f0 i * f0 i) * S l (fun i => f1 i * f1 i) * S l (fun i => f2 i * f2 i)
      + 2 * S l (fun i => f0 i * f1 i) * S l (fun i => f0 i * f2 i) * S l (fun i => f1 i * f2 i)
      - S l (fun i => f0 i * f0 i) * S l (fun i => f1 i * f2 i) * S l (fun i => f1 i * f2 i)
      - S l (fun i => f1 i * f1 i) * S l (fun i => f0 i * f2 i) * S l (fun i => f0 i * f2 i)
      - S l (fun i => f2 i * f2 i) * S l (fun i => f0 i * f1 i) * S l (fun i => f0 i * f1 i) ≠ 0) :
    a = a0 ∧ b = b0 ∧ c = c0 := by
  have e : ∀ g : ι → K, S l (fun i => (y i - (a * f0 i + b * f1 i + c * f2 i)) * g i)
      = S l (fun i => (0 - ((a - a0) * f0 i + (b - b0) * f1 i + (c - c0) * f2 i)) * g i) := by
    intro g; apply S_congr; intro i hi; rw [hy i hi]; ring
  rw [e, S_resid] at h0 h1 h2
  have z : ∀ g : ι → K, S l (fun i => (0 : K) * g i) = 0 := by
    intro g; rw [S_congr (g := fun _ => (0 : K)) (fun i _ => zero_mul _), S_zero]
  rw [z] at h0 h1 h2
  have s01 : S l (fun i => f1 i * f0 i) = S l (fun i => f0 i * f1 i) := S_congr (fun i _ => mul_comm _ _)
  have s02 : S l (fun i => f2 i * f0 i) = S l (fun i => f0 i * f2 i) := S_congr (fun i _ => mul_comm _ _)
  have s12 : S l (fun i => f2 i * f1 i) = S l (fun i => f1 i * f2 i) := S_congr (fun i _ => mul_comm _ _)
  rw [s01, s02] at h0
  rw [s12] at h1
  obtain ⟨ha, hb, hc⟩ := unique3 _ _ _ _ _ _ (a - a0) (b - b0) (c - c0) hd
    (by linear_combination -h0) (by linear_combination -h1) (by linear_combination -h2)
  exact ⟨sub_eq_zero.mp ha, sub_eq_zero.mp hb, sub_eq_zero.mp hc⟩

/-- The normal equations with a non-singular Gram matrix have at most one solution (three basis functions). -/
theorem unique_solution3 (l : List ι) (y f0 f1 f2 : ι → K) (a b c a' b' c' : K)
    (h0 : S l (fun i => (y i - (a * f0 i + b * f1 i + c * f2 i)) * f0 i) = 0)
    (h1 : S l (fun i => (y i - (a * f0 i + b * f1 i + c * f2 i)) * f1 i) = 0)
    (h2 : S l (fun i => (y i - (a * f0 i + b * f1 i + c * f2 i)) * f2 i) = 0)
    (k0 : S l (fun i => (y i - (a' * f0 i + b' * f1 i + c' * f2 i)) * f0 i) = 0)
    (k1 : S l (fun i => (y i - (a' * f0 i + b' * f1 i + c' * f2 i)) * f1 i) = 0)
    (k2 : S l (fun i => (y i - (a' * f0 i + b' * f1 i + c' * f2 i)) * f2 i) = 0)
    (hd : S l (fun i => f0 i * f0 i) * S l (fun i => f1 i * f1 i) * S l (fun i => f2 i * f2 i)
      + 2 * S l (fun i => f0 i * f1 i) * S l (fun i => f0 i * f2 i) * S l (fun i => f1 i * f2 i)
      - S l (fun i => f0 i * f0 i) * S l (fun i => f1 i * f2 i) * S l (fun i => f1 i * f2 i)
      - S l (fun i => f1 i * f1 i) * S l (fun i => f0 i * f2 i) * S l (fun i => f0 i * f2 i)
      - S l (fun i => f2 i * f2 i) * S l (fun i => f0 i * f1 i) * S l (fun i => f0 i * f1 i) ≠ 0) :
    a' = a ∧ b' = b ∧ c' = c := by
  rw [S_resid] at h0 h1 h2 k0 k1 k2
  have s01 : S l (fun i => f1 i * f0 i) = S l (fun i => f0 i * f1 i) := S_congr (fun i _ => mul_comm _ _)
  have s02 : S l (fun i => f2 i * f0 i) = S l (fun i => f0 i * f2 i) := S_congr (fun i _ => mul_comm _ _)
  have s12 : S l (fun i => f2 i * f1 i) = S l (fun i => f1 i * f2 i) := S_congr (fun i _ => mul_comm _ _)
  rw [s01, s02] at h0 k0
  rw [s12] at h1 k1
  obtain ⟨ha, hb, hc⟩ := unique3 _ _ _ _ _ _ (a' - a) (b' - b) (c' - c) hd
    (by linear_combination h0 - k0) (by linear_combination h1 - k1) (by linear_combination h2 - k2)
  exact ⟨sub_eq_zero.mp ha, sub_eq_zero.mp hb, sub_eq_zero.mp hc⟩

/-- Noiseless data are recovered by any solution of the normal equations (two basis functions). -/
theorem recover2 (l : List ι) (y f0 f1 : ι → K) (a b a0 b0 : K)
    (hy : ∀ i ∈ l, y i = a0 * f0 i + b0 * f1 i)
    (h0 : S l (fun i => (y i - (a * f0 i + b * f1 i)) * f0 i) = 0)
    (h1 : S l (fun i => (y i - (a * f0 i + b * f1 i)) * f1 i) = 0)
    (hd : S l (fun i => f0 i * f0 i) * S l (fun i => f1 i * f1 i)
      - S l (fun i => f0 i * f1 i) * S l (fun i => f0 i * f1 i) ≠ 0) :
    a = a0 ∧ b = b0 := by
  have e : ∀ g : ι → K, S l (fun i => (y i - (a * f0 i + b * f1 i)) * g i)
      = S l (fun i => (0 - ((a - a0) * f0 i + (b - b0) * f1 i + 0 * 0)) * g i) := by
    intro g; apply S_congr; intro i hi; rw [hy i hi]; ring
  rw [e, S_resid l (fun _ => 0) f0 f1 (fun _ => 0)] at h0 h1
  have z : ∀ g : ι → K, S l (fun i => (0 : K) * g i) = 0 := by
    intro g; rw [S_congr (g := fun _ => (0 : K)) (fun i _ => zero_mul _), S_zero]
  rw [z] at h0 h1
  have s01 : S l (fun i => f1 i * f0 i) = S l (fun i => f0 i * f1 i) := S_congr (fun i _ => mul_comm _ _)
  rw [s01] at h0
  obtain ⟨ha, hb⟩ := unique2 _ _ _ (a - a0) (b - b0) hd
    (by linear_combination -h0) (by linear_combination -h1)
  exact ⟨sub_eq_zero.mp ha, sub_eq_zero.mp hb⟩

end cramer

section ordered
variable [Field K] [LinearOrder K] [IsStrictOrderedRing K]

theorem S_sq_nonneg (l : List ι) (f : ι → K) : 0 ≤ S l (fun i => f i ^ 2) := by
  induction l with
  | nil => simp
  | cons i t ih => simp only [S_cons]; positivity

/-- A solution of the normal equations minimises the sum of squared residuals. -/
theorem sse_min (l : List ι) (y f0 f1 f2 : ι → K) (a b c : K)
    (h0 : S l (fun i => (y i - (a * f0 i + b * f1 i + c * f2 i)) * f0 i) = 0)
    (h1 : S l (fun i => (y i - (a * f0 i + b * f1 i + c * f2 i)) * f1 i) = 0)
    (h2 : S l (fun i => (y i - (a * f0 i + b * f1 i + c * f2 i)) * f2 i) = 0) (a' b' c' : K) :
    S l (fun i => (y i - (a * f0 i + b * f1 i + c * f2 i)) ^ 2)
      ≤ S l (fun i => (y i - (a' * f0 i + b' * f1 i + c' * f2 i)) ^ 2) := by
  rw [S_sse l y f0 f1 f2 a b c a' b' c', h0, h1, h2]
  have := S_sq_nonneg l (fun i => (a' - a) * f0 i + (b' - b) * f1 i + (c' - c) * f2 i)
  linarith

/-- Cauchy–Schwarz for list sums. -/
theorem cauchy_schwarz (l : List ι) (f g : ι → K) :
    S l (fun i => f i * g i) ^ 2 ≤ S l (fun i => f i ^ 2) * S l (fun i => g i ^ 2) := by
  have key : ∀ t : K, 0 ≤ S l (fun i => f i ^ 2) * (t * t) + 2 * S l (fun i => f i * g i) * t
      + S l (fun i => g i ^ 2) := by
    intro t
    have h : S l (fun i => (f i * t + g i) ^ 2)
        = S l (fun i => f i ^ 2) * (t * t) + 2 * S l (fun i => f i * g i) * t + S l (fun i => g i ^ 2) := by
      induction l with
      | nil => simp
      | cons i r ih => simp only [S_cons]; linear_combination ih
    rw [← h]; exact S_sq_nonneg l _
  have := discrim_le_zero key
  unfold discrim at this
  nlinarith [this]

/-- Centred sums without division: `Σ (n x_i - Σx)(n y_i - Σy) = n (n Σxy - Σx Σy)`. -/
theorem S_centred (l : List ι) (f g : ι → K) :
    S l (fun i => ((l.length : K) * f i - S l f) * ((l.length : K) * g i - S l g))
      = (l.length : K) * ((l.length : K) * S l (fun i => f i * g i) - S l f * S l g) := by
  have h : ∀ (n sf sg : K), S l (fun i => (n * f i - sf) * (n * g i - sg))
      = n * n * S l (fun i => f i * g i) - n * sg * S l f - n * sf * S l g + (l.length : K) * (sf * sg) := by
    intro n sf sg
    induction l with
    | nil => simp
    | cons i r ih => simp only [S_cons, List.length_cons]; push_cast; linear_combination ih
  rw [h]; ring

/-- `(n Σxy - Σx Σy)² ≤ (n Σx² - (Σx)²)(n Σy² - (Σy)²)`. -/
theorem covariance_sq_le (l : List ι) (f g : ι → K) :
    ((l.length : K) * S l (fun i => f i * g i) - S l f * S l g) ^ 2
      ≤ ((l.length : K) * S l (fun i => f i * f i) - S l f * S l f)
        * ((l.length : K) * S l (fun i => g i * g i) - S l g * S l g) := by
  by_cases hn : l = []
  · subst hn; simp
  have hpos : (0 : K) < (l.length : K) := by
    have : 0 < l.length := List.length_pos_iff.mpr hn
    exact_mod_cast this
  have cs := cauchy_schwarz l (fun i => (l.length : K) * f i - S l f) (fun i => (l.length : K) * g i - S l g)
  have e1 := S_centred l f g
  have e2 := S_centred l f f
  have e3 := S_centred l g g
  simp only [pow_two] at cs
  rw [e1, e2, e3] at cs
  have hn2 : (0 : K) < (l.length : K) * (l.length : K) := by positivity
  have : (l.length : K) * (l.length : K) * (((l.length : K) * S l (fun i => f i * g i) - S l f * S l g) ^ 2)
      ≤ (l.length : K) * (l.length : K) * (((l.length : K) * S l (fun i => f i * f i) - S l f * S l f)
        * ((l.length : K) * S l (fun i => g i * g i) - S l g * S l g)) := by
    nlinarith [cs]
  exact le_of_mul_le_mul_left this hn2

/-- `n Σx² - (Σx)² ≥ 0`. -/
theorem variance_nonneg (l : List ι) (f : ι → K) :
    0 ≤ (l.length : K) * S l (fun i => f i * f i) - S l f * S l f := by
  by_cases hn : l = []
  · subst hn; simp
  have hpos : (0 : K) < (l.length : K) := by
    have : 0 < l.length := List.length_pos_iff.mpr hn
    exact_mod_cast this
  have e2 := S_centred l f f
  have nn := S_sq_nonneg l (fun i => (l.length : K) * f i - S l f)
  simp only [pow_two] at nn
  rw [e2] at nn
  exact nonneg_of_mul_nonneg_right nn hpos

end ordered
end Pymeeus.LS
