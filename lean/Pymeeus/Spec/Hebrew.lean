/-
The arithmetic (fixed) Hebrew calendar, written from its definition, not from the code:

* The molad (mean conjunction) of Tishri of year 1 A.M. fell on day 2 (Monday) at 5 hours 204
  parts (1 hour = 1080 parts, the day starts at 18h of the previous civil day); a lunation lasts
  29 days 12 hours 793 parts.  Years 3, 6, 8, 11, 14, 17, 19 of the 19-year cycle have 13 months.
* Rosh Hashanah (1 Tishri) is the day of the molad of Tishri, postponed
  (1) by one day if the molad falls at or after 18 hours (molad zaken),
  (2) by two days if, in a common year, the molad falls on a Tuesday at or after 9h 204p (GaTaRaD),
  (3) by one day if, in a year following a leap year, it falls on a Monday at or after 15h 589p
      (BeTUTeKaPoT),
  (4) and then by one more day if the day is a Sunday, Wednesday or Friday (lo ADU rosh).
* From 15 Nisan to the next 1 Tishri there are always 163 days.

Day 0 of the count is the Sunday before the epoch molad, JDN 347997 (1 Tishri 1 A.M. is Monday
7 October -3760, JDN 347998).
-/
namespace Pymeeus.Spec.Hebrew

def leap (h : Int) : Bool := decide ((7 * h + 1) % 19 < 7)

/-- lunations between the molad of Tishri 1 A.M. and the molad of Tishri `h` A.M. -/
def monthsBefore (h : Int) : Int := (235 * h - 234) / 19

/-- the molad of Tishri `h` in parts since the beginning of day 0 -/
def moladParts (h : Int) : Int := (1 * 24 + 5) * 1080 + 204 + ((29 * 24 + 12) * 1080 + 793) * monthsBefore h

/-- Rosh Hashanah of year `h` in days since day 0 (a Sunday) -/
def roshHashanahDay (h : Int) : Int :=
  let day := moladParts h / 25920
  let p := moladParts h % 25920
  let wd := day % 7
  let day1 :=
    if p ≥ 18 * 1080 then day + 1
    else if wd = 2 ∧ p ≥ 9 * 1080 + 204 ∧ leap h = false then day + 2
    else if wd = 1 ∧ p ≥ 15 * 1080 + 589 ∧ leap (h - 1) = true then day + 1
    else day
  if day1 % 7 = 0 ∨ day1 % 7 = 3 ∨ day1 % 7 = 5 then day1 + 1 else day1

/-- Julian Day Number of 1 Tishri `h` A.M. -/
def roshHashanah (h : Int) : Int := 347997 + roshHashanahDay h

/-- Julian Day Number of 15 Nisan `h` A.M.: 163 days before the following Rosh Hashanah. -/
def nisan15 (h : Int) : Int := roshHashanah (h + 1) - 163

/-- The Hebrew year in whose Nisan the Pesach of civil year `y` falls. -/
def yearOfPesach (y : Int) : Int := y + 3760

end Pymeeus.Spec.Hebrew
