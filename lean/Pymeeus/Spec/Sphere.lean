import Mathlib.Analysis.SpecialFunctions.Trigonometric.Basic
/-
Specification vocabulary for the coordinate properties C05 / C06, written from the public
definitions (not from the code): directions on the unit sphere as triples of reals, the
elementary rotations, the rotation of each pair of celestial frames.

Angles of `dir` are in DEGREES (as the library's `Angle`), angles of the rotations in radians.
-/
noncomputable section
namespace Pymeeus.Spec.Sphere
open Real

abbrev V3 := ℝ × ℝ × ℝ

/-- degrees to radians -/
def rad (d : ℝ) : ℝ := d * (π / 180)

/-- Unit vector of the direction with longitude `lon` and latitude `lat` (degrees). -/
def dir (lon lat : ℝ) : V3 :=
  (cos (rad lat) * cos (rad lon), cos (rad lat) * sin (rad lon), sin (rad lat))

def dot (u v : V3) : ℝ := u.1 * v.1 + u.2.1 * v.2.1 + u.2.2 * v.2.2

/-- Unit vector towards the North (increasing latitude) at the direction (lon, lat), degrees. -/
def northV (lon lat : ℝ) : V3 :=
  (-(sin (rad lat) * cos (rad lon)), -(sin (rad lat) * sin (rad lon)), cos (rad lat))

/-- Unit vector towards the East (increasing longitude) at longitude `lon`, degrees. -/
def eastV (lon : ℝ) : V3 := (-sin (rad lon), cos (rad lon), 0)

/-- Frame rotation about the x axis by `a`: equatorial → ecliptical for `a` = obliquity. -/
def rotX (a : ℝ) (v : V3) : V3 :=
  (v.1, v.2.1 * cos a + v.2.2 * sin a, -(v.2.1 * sin a) + v.2.2 * cos a)

/-- Active rotation about the z axis by `a` (adds `a` to the longitude). -/
def rotZ (a : ℝ) (v : V3) : V3 :=
  (v.1 * cos a - v.2.1 * sin a, v.1 * sin a + v.2.1 * cos a, v.2.2)

/-- Rotation about the y axis: `(x cos a - z sin a, y, x sin a + z cos a)`. -/
def rotY (a : ℝ) (v : V3) : V3 :=
  (v.1 * cos a - v.2.2 * sin a, v.2.1, v.1 * sin a + v.2.2 * cos a)

/-- Reflection of the longitude about `a/2`: longitude `l` ↦ `a - l`. -/
def flipZ (a : ℝ) (v : V3) : V3 :=
  (v.1 * cos a + v.2.1 * sin a, v.1 * sin a - v.2.1 * cos a, v.2.2)

/-- Rotation about the y axis that takes the direction of latitude `phi` on the x–z meridian to the
    z axis: `(x sin φ - z cos φ, y, x cos φ + z sin φ)`. -/
def tilt (phi : ℝ) (v : V3) : V3 :=
  (v.1 * sin phi - v.2.2 * cos phi, v.2.1, v.1 * cos phi + v.2.2 * sin phi)

/-- The transpose (inverse) of `tilt phi`. -/
def tiltT (phi : ℝ) (v : V3) : V3 :=
  (v.1 * sin phi + v.2.2 * cos phi, v.2.1, -(v.1 * cos phi) + v.2.2 * sin phi)

/-- Equatorial (hour angle, declination) → horizontal (azimuth from the South towards the West,
    elevation) for an observer at latitude `phi` (radians): the zenith is the direction (H = 0, δ = φ),
    the South point (H = 0, δ = φ - 90°), the West point (H = 90°, δ = 0). -/
def horizontalOfEquatorial (phi : ℝ) (v : V3) : V3 := tilt phi v

/-- Horizontal → equatorial: the transpose. -/
def equatorialOfHorizontal (phi : ℝ) (v : V3) : V3 := tiltT phi v

/-- B1950 galactic frame (IAU 1958): the galactic pole at RA 192.25°, Dec 27.4°; the celestial pole
    at galactic longitude 123° (so the ascending node of the galactic plane is at l = 33°,
    303° = 123° + 180°).  Equatorial → galactic: reflect the right ascension about the pole's
    meridian (`192.25° - α`), tilt by the pole's declination, reflect again (`l = 303° - x`). -/
def galacticOfEquatorial (v : V3) : V3 :=
  flipZ (rad 303) (tilt (rad 27.4) (flipZ (rad 192.25) v))

/-- Galactic → equatorial: `l - 123°`, the same tilt, `α = y + 12.25°` (12.25° = 192.25° - 180°). -/
def equatorialOfGalactic (v : V3) : V3 :=
  rotZ (rad 12.25) (tilt (rad 27.4) (rotZ (-(rad 123)) v))

/-- The precession rotation with the three Euler angles ζ, z, θ (radians):
    `Rz(z) · Ry(θ) · Rz(ζ)` in the active convention on (RA, Dec) directions. -/
def precessionRot (zeta z theta : ℝ) (v : V3) : V3 := rotZ z (rotY theta (rotZ zeta v))

end Pymeeus.Spec.Sphere
