/-
Weekday of a Gregorian calendar date by Zeller's congruence (written from its textbook form, not from
the code): h = (d + ⌊13 (m + 1) / 5⌋ + K + ⌊K / 4⌋ + ⌊J / 4⌋ + 5 J) mod 7 with January and February
counted as months 13 and 14 of the previous year, K = year mod 100, J = ⌊year / 100⌋, h = 0 for Saturday.
-/
namespace Pymeeus.Spec

def zeller (y m d : Int) : Int :=
  let y' := if m ≤ 2 then y - 1 else y
  let m' := if m ≤ 2 then m + 12 else m
  let K := y' % 100
  let J := y' / 100
  (d + 13 * (m' + 1) / 5 + K + K / 4 + J / 4 + 5 * J) % 7

/-- 0 = Sunday, ..., 6 = Saturday -/
def weekdayGregorian (y m d : Int) : Int := (zeller y m d + 6) % 7

end Pymeeus.Spec
