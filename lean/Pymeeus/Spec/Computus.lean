/-
The tabular Computus (date of Easter), written from the definition of the ecclesiastical
calendar, not from the code and not from Butcher's / Gauss' closed recipes:

* Julian calendar (years up to 1582): the paschal full moon of the year depends only on its
  golden number and is read off the 19-line table of Dionysius Exiguus.
* Gregorian calendar (from 1583): golden number; epact = 11·golden number + 20, corrected by the
  solar equation (the century leap days dropped since 1600) and the lunar equation (8 days in
  2500 years, first in 1800), modulo 30, with the two exceptions (epact 24 counts as 25; epact
  25 counts as 26 when the golden number is above 11); the paschal new moon is the day of the
  calendar labelled with that epact between 8 March and 5 April, the paschal full moon its 14th day.
* Easter is the Sunday strictly after the paschal full moon; the weekday comes from the day count
  of the calendar in force (leap rule of the Julian resp. Gregorian calendar).

Days of March are counted through: "March 32" is 1 April.
-/
namespace Pymeeus.Spec.Computus

def goldenNumber (y : Int) : Int := y % 19 + 1

/-- Paschal full moon of the Julian calendar for golden numbers 1..19, as a day of March. -/
def julianTable : List Int :=
  [36, 25, 44, 33, 22, 41, 30, 49, 38, 27, 46, 35, 24, 43, 32, 21, 40, 29, 48]

/-- century years since 1600 that were not leap years -/
def solarEquation (y : Int) : Int := y / 100 - y / 400 - 12

/-- lunar equation: one day eight times in 25 centuries (1800, 2100, 2400, ..., 3900, 4300, ...) -/
def lunarEquation (y : Int) : Int := (8 * (y / 100 + 1) + 5) / 25 - 5

def epact (y : Int) : Int :=
  let e := (11 * goldenNumber y + 20 + lunarEquation y - solarEquation y) % 30
  if e = 24 ∨ (e = 25 ∧ goldenNumber y > 11) then e + 1 else e

/-- the paschal full moon as a day of March (21 .. 49) -/
def paschalFullMoon (y : Int) : Int :=
  if y ≤ 1582 then julianTable.getD (goldenNumber y - 1).toNat 0
  else
    let n := 44 - epact y
    if n < 21 then n + 30 else n

/-- Julian Day Number of "March n" of year `y` in the calendar in force in spring of that year
    (Julian through 1582, Gregorian from 1583), from the leap rules:
    1 March of year 0 is JDN 1721118 (Julian) resp. 1721120 (proleptic Gregorian). -/
def marchDayNumber (y n : Int) : Int :=
  if y ≤ 1582 then 365 * y + y / 4 + n + 1721117
  else 365 * y + y / 4 - y / 100 + y / 400 + n + 1721119

/-- 0 = Sunday (JDN 0 was a Monday). -/
def weekday (j : Int) : Int := (j + 1) % 7

/-- Easter as a day of March: the first Sunday strictly after the paschal full moon. -/
def easterMarchDay (y : Int) : Int :=
  let n := paschalFullMoon y
  n + (7 - weekday (marchDayNumber y n))

def easter (y : Int) : Int × Int :=
  let n := easterMarchDay y
  if n ≤ 31 then (3, n) else (4, n - 31)

end Pymeeus.Spec.Computus
