import Pymeeus.Spec.Civil
/-
Instants of the civil calendar, written from the definitions (not from the code): the n-th civil
day counted with the successor function `next` from 1 January -4712, and the lexicographic
orders on date and date/time tuples that "the date tuple never decreases" refers to.
-/
namespace Pymeeus.Spec

/-- The n-th day of the civil calendar: day 0 is 1 January -4712, day n+1 is the day after day n. -/
def civilDay : Nat → Int × Int × Int
  | 0 => (-4712, 1, 1)
  | n + 1 => next (civilDay n).1 (civilDay n).2.1 (civilDay n).2.2

/-- strict lexicographic order on (year, month, day) -/
def dateLt (a b : Int × Int × Int) : Prop :=
  a.1 < b.1 ∨ (a.1 = b.1 ∧ (a.2.1 < b.2.1 ∨ (a.2.1 = b.2.1 ∧ a.2.2 < b.2.2)))

/-- lexicographic order (≤) on (hour, minute, second) -/
def timeLe (a b : Int × Int × Rat) : Prop :=
  a.1 < b.1 ∨ (a.1 = b.1 ∧ (a.2.1 < b.2.1 ∨ (a.2.1 = b.2.1 ∧ a.2.2 ≤ b.2.2)))

/-- lexicographic order (≤) on (year, month, day, hour, minute, second) -/
def fullLe (a b : Int × Int × Int × Int × Int × Rat) : Prop :=
  dateLt (a.1, a.2.1, a.2.2.1) (b.1, b.2.1, b.2.2.1) ∨
    ((a.1, a.2.1, a.2.2.1) = (b.1, b.2.1, b.2.2.1) ∧ timeLe a.2.2.2 b.2.2.2)

end Pymeeus.Spec
