/-
Delta-T = TT - UT in seconds: the polynomial expressions of Espenak & Meeus ("Five Millennium Canon of Solar
Eclipses", NASA/TP-2006-214141; eclipse.gsfc.nasa.gov/SEhelp/deltatpoly2004.html), written from the publication
in power form (not from the code, which is in Horner form).  The segment is chosen by the calendar year; `y` is the
decimal year at which the polynomial is evaluated (the publication takes y = year + (month - 0.5)/12).
-/
namespace Pymeeus.Spec

def deltaT (year : Int) (y : Rat) : Rat :=
  if year < -500 then
    let u := (y - 1820) / 100;
    (-20) + 32 * u ^ 2
  else if year < 500 then
    let u := y / 100;
    10583.6 - 1014.41 * u + 33.78311 * u ^ 2 - 5.952053 * u ^ 3 - 0.1798452 * u ^ 4 + 0.022174192 * u ^ 5
      + 0.0090316521 * u ^ 6
  else if year < 1600 then
    let u := (y - 1000) / 100;
    1574.2 - 556.01 * u + 71.23472 * u ^ 2 + 0.319781 * u ^ 3 - 0.8503463 * u ^ 4 - 0.005050998 * u ^ 5
      + 0.0083572073 * u ^ 6
  else if year < 1700 then
    let t := y - 1600;
    120 - 0.9808 * t - 0.01532 * t ^ 2 + t ^ 3 / 7129
  else if year < 1800 then
    let t := y - 1700;
    8.83 + 0.1603 * t - 0.0059285 * t ^ 2 + 0.00013336 * t ^ 3 - t ^ 4 / 1174000
  else if year < 1860 then
    let t := y - 1800;
    13.72 - 0.332447 * t + 0.0068612 * t ^ 2 + 0.0041116 * t ^ 3 - 0.00037436 * t ^ 4 + 0.0000121272 * t ^ 5
      - 0.0000001699 * t ^ 6 + 0.000000000875 * t ^ 7
  else if year < 1900 then
    let t := y - 1860;
    7.62 + 0.5737 * t - 0.251754 * t ^ 2 + 0.01680668 * t ^ 3 - 0.0004473624 * t ^ 4 + t ^ 5 / 233174
  else if year < 1920 then
    let t := y - 1900;
    (-2.79) + 1.494119 * t - 0.0598939 * t ^ 2 + 0.0061966 * t ^ 3 - 0.000197 * t ^ 4
  else if year < 1941 then
    let t := y - 1920;
    21.20 + 0.84493 * t - 0.076100 * t ^ 2 + 0.0020936 * t ^ 3
  else if year < 1961 then
    let t := y - 1950;
    29.07 + 0.407 * t - t ^ 2 / 233 + t ^ 3 / 2547
  else if year < 1986 then
    let t := y - 1975;
    45.45 + 1.067 * t - t ^ 2 / 260 - t ^ 3 / 718
  else if year < 2005 then
    let t := y - 2000;
    63.86 + 0.3345 * t - 0.060374 * t ^ 2 + 0.0017275 * t ^ 3 + 0.000651814 * t ^ 4 + 0.00002373599 * t ^ 5
  else if year < 2050 then
    let t := y - 2000;
    62.92 + 0.32217 * t + 0.005589 * t ^ 2
  else if year < 2150 then
    (-20) + 32 * ((y - 1820) / 100) ^ 2 - 0.5628 * (2150 - y)
  else
    let u := (y - 1820) / 100;
    (-20) + 32 * u ^ 2

end Pymeeus.Spec
