import Mathlib.Analysis.SpecialFunctions.Trigonometric.Basic
import Mathlib.Algebra.BigOperators.Group.Finset.Basic
/-
Specification side of C07, written from the property text / the public definition of a VSOP87
series, not from the code:

  a coordinate of VSOP87 is  Σ_i t^i Σ_j A_ij cos(B_ij + C_ij t)   (t in Julian millennia from J2000).
-/
noncomputable section
namespace Pymeeus.Spec

/-- `Σ_j A_j cos(B_j + C_j t)` over one series of terms `(A, B, C)`. -/
def seriesDirect (s : List (ℝ × ℝ × ℝ)) (t : ℝ) : ℝ :=
  (s.map fun x => x.1 * Real.cos (x.2.1 + x.2.2 * t)).sum

/-- `Σ_i t^i Σ_j A_ij cos(B_ij + C_ij t)`: the direct term-by-term summation of a table. -/
def directSum (tbl : List (List (ℝ × ℝ × ℝ))) (t : ℝ) : ℝ :=
  ∑ i ∈ Finset.range tbl.length, t ^ i * seriesDirect (tbl.getD i []) t

/-- Gaussian gravitational constant (rad/day, AU, solar mass): `n² a³ = k²` for a massless planet. -/
def gaussK : ℝ := 0.01720209895

/-! Layout of the orbital-element tables (Meeus, tables 31.A / 31.B; docstrings of ORBITAL_ELEM):
row 0 = mean longitude L (degrees; coefficients of T^0..T^3, T in Julian centuries), row 1 of the
mean-equinox table = semi-major axis a (AU). -/

/-- rate of the mean longitude, degrees per Julian century (`table[0][1]`) -/
def elemRate (elem : List (List ℝ)) : ℝ := (elem.getD 0 []).getD 1 0

/-- mean motion in radians per day -/
def meanMotion (elem : List (List ℝ)) : ℝ := elemRate elem * (Real.pi / 180) / 36525

/-- semi-major axis in AU (`ORBITAL_ELEM[1][0]`) -/
def semiMajorAxis (elem : List (List ℝ)) : ℝ := (elem.getD 1 []).getD 0 0

/-- amplitude of the first term of series 1 of a table: for a longitude table the secular term `A t`
    (units of 1e-8 rad per Julian millennium) -/
def leadAmp (tbl : List (List (ℝ × ℝ × ℝ))) : ℝ := ((tbl.getD 1 []).headD (0, 0, 0)).1

/-- the cubic `p0 + p1 t + p2 t² + p3 t³` of a row of an orbital-element table (Meeus ch. 31), Horner form -/
def cubic (t p0 p1 p2 p3 : ℝ) : ℝ := p0 + t * (p1 + t * (p2 + t * p3))

/-- eccentricity at J2000.0 (`ORBITAL_ELEM[2][0]`) -/
def elemEcc (elem : List (List ℝ)) : ℝ := (elem.getD 2 []).getD 0 0

/-- the constant term of series 0 of a radius-vector table, in AU: the time average of `r` -/
def meanRadius (tbl : List (List (ℝ × ℝ × ℝ))) : ℝ := ((tbl.getD 0 []).headD (0, 0, 0)).1 / 100000000

/-- coefficient of `T²` of the mean longitude, degrees per century² (`table[0][2]`) -/
def elemAccel (elem : List (List ℝ)) : ℝ := (elem.getD 0 []).getD 2 0

/-- amplitude of the first term of series 2 of a table, converted from 1e-8 rad per millennium² to
    degrees per century² (for a longitude table whose series 2 starts with the secular term `A t²`) -/
def leadAccel (tbl : List (List (ℝ × ℝ × ℝ))) : ℝ :=
  ((tbl.getD 2 []).headD (0, 0, 0)).1 / 100000000 * (180 / Real.pi) / 100

/-- the same rate in degrees per Julian century -/
def leadRate (tbl : List (List (ℝ × ℝ × ℝ))) : ℝ := leadAmp tbl / 100000000 * (180 / Real.pi) / 10

end Pymeeus.Spec

noncomputable section
namespace Pymeeus.Spec

/-- IAU (1976/1980) mean obliquity of the ecliptic, degrees; `T` in Julian centuries from J2000.0:
    `23°26′21.448″ − 46.8150″ T − 0.00059″ T² + 0.001813″ T³`. -/
def iauObliquity (T : ℝ) : ℝ :=
  23 + 26 / 60 + 21.448 / 3600 + (-46.8150 * T - 0.00059 * T ^ 2 + 0.001813 * T ^ 3) / 3600

/-- the B1950 rotation matrix of Meeus (26.?) / `Sun.rectangular_coordinates_b1950`, applied to a vector -/
def b1950Matrix (v : ℝ × ℝ × ℝ) : ℝ × ℝ × ℝ :=
  (0.999925702634 * v.1 + 0.012189716217 * v.2.1 + 0.000011134016 * v.2.2,
   -0.011179418036 * v.1 + 0.917413998946 * v.2.1 - 0.397777041885 * v.2.2,
   -0.004859003787 * v.1 + 0.397747363646 * v.2.1 + 0.917482111428 * v.2.2)

/-- longitude of the ascending node of the Moon's mean orbit used by the 1980 IAU nutation theory
    (Meeus ch. 22), in radians; `T` in Julian centuries from J2000.0 -/
def nutationNode (T : ℝ) : ℝ :=
  (125.04452 + T * (-1934.136261 + T * (0.0020708 + T / 450000))) * (Real.pi / 180)

/-- squared Euclidean norm -/
def normSq (v : ℝ × ℝ × ℝ) : ℝ := v.1 ^ 2 + v.2.1 ^ 2 + v.2.2 ^ 2

/-- the three orbit regimes of `Minor`, as documented: `e < 0.98`, `|e − 1| < 1e-10`, otherwise -/
inductive Regime where
  | elliptic | parabolic | nearParabolic
  deriving DecidableEq

/-- which regime an eccentricity falls in -/
def regimeOf (e : ℝ) : Regime :=
  if e < 0.98 then .elliptic else if |e - 1| < 1e-10 then .parabolic else .nearParabolic

end Pymeeus.Spec
