/-
Greenwich mean sidereal time for any instant: Meeus (12.4), the IAU 1982 expression (Aoki et al.) written
for the instant itself — in degrees
  θ₀ = 280.46061837 + 360.98564736629 (JD − 2451545.0) + 0.000387933 T² − T³ / 38710000,  T = (JD − 2451545) / 36525.
Written from the published formula, not from the code (which uses the 0h polynomial plus a constant rate).
-/
namespace Pymeeus.Spec

/-- IAU 1982 GMST as a fraction of a turn, reduced to [0, 1) -/
def gmstIAU1982 (j : Rat) : Rat :=
  let T : Rat := (j - 2451545) / 36525
  let θ : Rat := 280.46061837 + 360.98564736629 * (j - 2451545) + 0.000387933 * (T * T) - T * T * T / 38710000
  θ / 360 - ((θ / 360).floor : Int)

end Pymeeus.Spec
