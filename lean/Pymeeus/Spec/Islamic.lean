/-
The arithmetic (tabular) Islamic calendar, written from its definition, not from the code:
12 months of alternately 30 and 29 days; in the leap years 2, 5, 7, 10, 13, 16, 18, 21, 24, 26, 29
of each 30-year cycle the last month has 30 days; 1 Muharram 1 A.H. is 16 July 622 (Julian),
Julian Day Number 1948440.
-/
namespace Pymeeus.Spec.Islamic

def leapYears : List Int := [2, 5, 7, 10, 13, 16, 18, 21, 24, 26, 29]

def leap (h : Int) : Bool := leapYears.contains (h % 30)

def yearLen (h : Int) : Int := if leap h then 355 else 354

def monthLen (h m : Int) : Int := if m % 2 = 1 ∨ (m = 12 ∧ leap h = true) then 30 else 29

/-- `(h, m, d)` is a date of the Islamic calendar (year 1 or later). -/
def Valid (h m d : Int) : Prop := 1 ≤ h ∧ 1 ≤ m ∧ m ≤ 12 ∧ 1 ≤ d ∧ d ≤ monthLen h m

instance (h m d : Int) : Decidable (Valid h m d) := by unfold Valid; infer_instance

/-- Julian Day Number of an Islamic date (the formula of the property statement:
    `d + ceil(29.5 (m - 1)) + 354 (h - 1) + floor((3 + 11 h) / 30) + 1948439`). -/
def jdn (h m d : Int) : Int := d + (59 * (m - 1) + 1) / 2 + 354 * (h - 1) + (3 + 11 * h) / 30 + 1948439

/-- The day after an Islamic date. -/
def next (h m d : Int) : Int × Int × Int :=
  if d < monthLen h m then (h, m, d + 1)
  else if m < 12 then (h, m + 1, 1)
  else (h + 1, 1, 1)

end Pymeeus.Spec.Islamic
