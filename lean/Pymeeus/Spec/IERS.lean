/-
The leap-second history, written from IERS Bulletin C (not from the code): a positive leap second was
inserted at the end of 30 June or 31 December preceding each of the 27 dates below (the first day on
which the new count is in force).  No leap second was inserted after 2016-12-31 up to the time of
writing of the library; UTC - TAI was -10 s on 1972-01-01.
-/
namespace Pymeeus.Spec

/-- (year, month) of the first day of validity of the 1st, 2nd, ..., 27th leap second. -/
def iersDates : List (Int × Int) :=
  [(1972, 7), (1973, 1), (1974, 1), (1975, 1), (1976, 1), (1977, 1), (1978, 1), (1979, 1), (1980, 1),
   (1981, 7), (1982, 7), (1983, 7), (1985, 7), (1988, 1), (1990, 1), (1991, 1), (1992, 7), (1993, 7),
   (1994, 7), (1996, 1), (1997, 7), (1999, 1), (2006, 1), (2009, 1), (2012, 7), (2015, 7), (2017, 1)]

/-- `(a, b)` is not later than `(y, m)` -/
def notLater (y m : Int) (p : Int × Int) : Bool := decide (p.1 < y) || (decide (p.1 = y) && decide (p.2 ≤ m))

/-- number of leap seconds inserted before the first day of month `m` of year `y` (inclusive of an
    insertion at the end of the previous day) -/
def iers (y m : Int) : Int := ((iersDates.filter (notLater y m)).length : Int)

/-- the instant, in years, from which the leap second of an IERS date counts: 1 January = `y`, 1 July = `y + 1/2` -/
def iersKey (p : Int × Int) : Rat := (p.1 : Rat) + ((p.2 : Rat) - 1) / 12

/-- number of IERS dates whose key is strictly below `l` (years) -/
def iersBelow (l : Rat) : Int := ((iersDates.filter (fun p => decide (iersKey p < l))).length : Int)

end Pymeeus.Spec
