/-
  Guard logic for property C20: the Boolean formula an `isinstance` guard computes over
  "argument i has class c", and what the property demands of it.
-/
namespace Pymeeus.Guards

/-- A guard formula.  `isa i cs`: argument `i` is an instance of one of the classes `cs`
(classes are numbered per argument from 1; class 0 is "any other class"). -/
inductive GForm where
  | isa (arg : Nat) (classes : List Nat)
  | not (a : GForm)
  | and (a b : GForm)
  | or (a b : GForm)
  | tt
  | ff
  deriving Repr

/-- A valuation gives each argument its class. -/
def GForm.eval (v : List Nat) : GForm → Bool
  | .isa i cs => cs.contains (v.getD i 0)
  | .not a => !(a.eval v)
  | .and a b => a.eval v && b.eval v
  | .or a b => a.eval v || b.eval v
  | .tt => true
  | .ff => false

/-- All valuations: argument `i` ranges over `0 .. sizes[i]` (0 = a class the guard does not name). -/
def allVals : List Nat → List (List Nat)
  | [] => [[]]
  | n :: rest => (List.range (n + 1)).flatMap fun c => (allVals rest).map (c :: ·)

/-- What the property demands of the guard `reject` (true = the call is refused with TypeError)
over arguments with `sizes[i]` named classes each: every combination in which some guarded argument
has a class the guard does not name is rejected, and some combination is accepted. -/
def guardOk (sizes : List Nat) (reject : GForm) : Bool :=
  (allVals sizes).all (fun v => !(v.any (· == 0)) || reject.eval v) &&
  (allVals sizes).any (fun v => !(reject.eval v))

end Pymeeus.Guards
