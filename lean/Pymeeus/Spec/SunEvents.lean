import Mathlib.Analysis.SpecialFunctions.Trigonometric.Basic
/-
Specification side of C14, written from the public definitions (Meeus, Astronomical Algorithms,
2nd ed., tables 27.A / 27.B and formula 13.6), not from the code.
-/
noncomputable section
namespace Pymeeus.Spec.SunEvents

/-- Meeus table 27.A (years −1000 … +1000): JDE0 = c0 + c1 Y + c2 Y² + c3 Y³ + c4 Y⁴, Y = year/1000.
    Rows: March equinox, June solstice, September equinox, December solstice. -/
def table27A : Fin 4 → (ℝ × ℝ × ℝ × ℝ × ℝ)
  | 0 => (1721139.29189, 365242.13740,  0.06134,  0.00111, -0.00071)
  | 1 => (1721233.25401, 365241.72562, -0.05323,  0.00907,  0.00025)
  | 2 => (1721325.70455, 365242.49558, -0.11677, -0.00297,  0.00074)
  | 3 => (1721414.39987, 365242.88257, -0.00769, -0.00933, -0.00006)

/-- Meeus table 27.B (years +1000 … +3000): Y = (year − 2000)/1000. -/
def table27B : Fin 4 → (ℝ × ℝ × ℝ × ℝ × ℝ)
  | 0 => (2451623.80984, 365242.37404,  0.05169, -0.00411, -0.00057)
  | 1 => (2451716.56767, 365241.62603,  0.00325,  0.00888, -0.00030)
  | 2 => (2451810.21715, 365242.01767, -0.11575,  0.00337,  0.00078)
  | 3 => (2451900.05952, 365242.74049, -0.06223, -0.00823,  0.00032)

def poly4 (c : ℝ × ℝ × ℝ × ℝ × ℝ) (Y : ℝ) : ℝ :=
  c.1 + c.2.1 * Y + c.2.2.1 * Y ^ 2 + c.2.2.2.1 * Y ^ 3 + c.2.2.2.2 * Y ^ 4

/-- The approximate instant of Meeus chapter 27 for a year in −1000 … 3000. -/
def jde0 (year : Int) (k : Fin 4) : ℝ :=
  if year < 1000 then poly4 (table27A k) ((year : ℝ) / 1000)
  else poly4 (table27B k) (((year : ℝ) - 2000) / 1000)

/-- Sine of the altitude of a body of declination `δ` at hour angle `H` seen from latitude `φ`
    (radians; Meeus 13.6). -/
def sinAltitude (φ δ H : ℝ) : ℝ := Real.sin φ * Real.sin δ + Real.cos φ * Real.cos δ * Real.cos H

/-- Geometric mean longitude of the Sun referred to the mean equinox of the date, degrees
    (Meeus 28.2), `τ` in Julian millennia from J2000.0:
    L0 = 280.4664567 + 360007.6982779 τ + 0.03032028 τ² + τ³/49931 − τ⁴/15300 − τ⁵/2000000. -/
def meanLongitude (τ : ℝ) : ℝ :=
  280.4664567 + 360007.6982779 * τ + 0.03032028 * τ ^ 2 + τ ^ 3 / 49931 - τ ^ 4 / 15300 - τ ^ 5 / 2000000

end Pymeeus.Spec.SunEvents
