/-
The civil calendar, written from its definition (not from the code): Julian calendar
(astronomical year numbering, leap year = multiple of 4) through 4 October 1582, Gregorian
calendar from 15 October 1582; the dates 5..14 October 1582 do not exist.
-/
namespace Pymeeus.Spec

def leap (y : Int) : Bool :=
  if y < 1582 then decide (y % 4 = 0)
  else decide (y % 4 = 0) && (decide (y % 100 ≠ 0) || decide (y % 400 = 0))

def monthLen (y m : Int) : Int :=
  if m = 2 then (if leap y then 29 else 28)
  else if m = 4 ∨ m = 6 ∨ m = 9 ∨ m = 11 then 30 else 31

/-- `(y, m, d)` is a date of the civil calendar on or after 1 January -4712. -/
def Valid (y m d : Int) : Prop :=
  -4712 ≤ y ∧ 1 ≤ m ∧ m ≤ 12 ∧ 1 ≤ d ∧ d ≤ monthLen y m ∧ ¬ (y = 1582 ∧ m = 10 ∧ 5 ≤ d ∧ d ≤ 14)

instance (y m d : Int) : Decidable (Valid y m d) := by unfold Valid; infer_instance

/-- The day after a civil date. -/
def next (y m d : Int) : Int × Int × Int :=
  if y = 1582 ∧ m = 10 ∧ d = 4 then (1582, 10, 15)
  else if d < monthLen y m then (y, m, d + 1)
  else if m < 12 then (y, m + 1, 1)
  else (y + 1, 1, 1)

end Pymeeus.Spec
