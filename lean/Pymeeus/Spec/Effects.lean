/-
  Effect language, semantics and effect analysis for property C20
  ("calls are side-effect free").  Core Lean only (no Mathlib).

  The language abstracts numbers away: a value is either a *scalar* (every number, bool, string,
  None: one token, all scalar computations and all branch conditions are nondeterministic) or a
  *reference* to a heap object.  An object is a map from slots to values; named attributes and list
  / tuple / dict elements are slots.  What the language keeps of a Python function is its *effect
  skeleton*: allocations, aliasing, loads of reference-valued slots, stores, calls, control flow.
-/
namespace Pymeeus.Effects

abbrev Var := Nat
abbrev FunId := Nat
abbrev Field := Nat

/-- Values: numbers, booleans, strings and `None` are all the one token `scalar`. -/
inductive Val where
  | scalar
  | ref (id : Nat)
  deriving DecidableEq, Repr

/-- An object: slot ↦ value (attributes and sequence elements alike). -/
abbrev Obj := Nat → Val

/-- Heap with a bump allocator: the objects that exist are those with `id < next`. -/
structure Heap where
  next : Nat
  obj : Nat → Obj

abbrev Env := Var → Val

def Env.set (e : Env) (x : Var) (v : Val) : Env := fun y => if y = x then v else e y

def Heap.write (h : Heap) (id k : Nat) (v : Val) : Heap :=
  { next := h.next, obj := fun i => if i = id then (fun j => if j = k then v else h.obj i j) else h.obj i }

def Heap.alloc (h : Heap) : Heap :=
  { next := h.next + 1, obj := fun i => if i = h.next then (fun _ => .scalar) else h.obj i }

/-- Slot selector: a named attribute, or "some element" (index abstracted: `x[i]`, `x.append(e)`). -/
inductive Sel where
  | field (f : Field)
  | elem
  deriving DecidableEq, Repr

def Sel.picks : Sel → Nat → Prop
  | .field f, k => k = f
  | .elem, _ => True

inductive Stmt where
  | skip
  | seq (a b : Stmt)
  /-- `x := <scalar expression>` -/
  | scalar (x : Var)
  /-- `x := y` -/
  | alias (x y : Var)
  /-- `x := G` for a module-level object (table, constant object) `G`, pre-allocated at id `g` -/
  | global (x : Var) (g : Nat)
  /-- `x := new` (object / list / tuple / dict literal; all slots scalar) -/
  | new (x : Var)
  /-- `x := y.f` / `x := y[i]` (reference-valued slots; scalar-valued loads are `scalar x`) -/
  | load (x y : Var) (s : Sel)
  /-- `x.f := y` / `x[i] := y` / `x.append(y)` -/
  | store (x : Var) (s : Sel) (y : Var)
  /-- `x := g(args)`; a method call is a call with the receiver as first argument -/
  | call (x : Var) (g : FunId) (args : List Var)
  /-- `if * then a else b` -/
  | ite (a b : Stmt)
  /-- `while * do c` -/
  | while (c : Stmt)
  /-- `return x` -/
  | ret (x : Var)
  /-- `raise ...` -/
  | raise
  deriving Repr

/-- A block of statements. -/
def blk : List Stmt → Stmt
  | [] => .skip
  | [a] => a
  | a :: r => .seq a (blk r)

/-- `x[i] := y` -/
abbrev Stmt.setitem (x y : Var) : Stmt := .store x .elem y
/-- `x.append(y)` -/
abbrev Stmt.append (x y : Var) : Stmt := .store x .elem y

/-- Abstract values of the effect analysis (relative to one activation of a function).
* `scal`   : a scalar;
* `closed` : a scalar, or an object allocated during this activation from which only objects
             allocated during this activation can be reached;
* `fresh`  : a scalar, or an object allocated during this activation;
* `param i`: a scalar, or the value of parameter `i` at entry;
* `any`    : anything. -/
inductive AVal where
  | scal
  | closed
  | fresh
  | param (i : Nat)
  | any
  deriving DecidableEq, Repr

/-- Function summary (an annotation which `check` verifies against the body). -/
structure Summary where
  /-- parameters whose *own* object may be written (no other pre-existing object may be) -/
  writes : List Nat
  /-- `true`: the function stores only scalars and references to `closed` new objects into the objects
  of its parameters, and nothing but such values anywhere once one of those new objects has been made
  reachable from a parameter (before that it may fill its own temporaries with anything) -/
  keeps : Bool
  /-- (meaningful with `keeps`) `true`: the function may store a reference to a new object into the object of
  a parameter; `false`: it stores only scalars there -/
  exposes : Bool
  /-- what a returned value may be (relative to the callee's activation) -/
  ret : AVal
  deriving Repr, DecidableEq

inductive Kind where
  /-- public, documented as having no side effect -/
  | pure
  /-- public, documented in-place mutator of its receiver (parameter 0) -/
  | mutator
  /-- private helper: any verified summary is accepted -/
  | helper
  deriving DecidableEq, Repr

structure FunDecl where
  name : String
  nparams : Nat
  nvars : Nat
  body : Stmt
  kind : Kind
  sum : Summary
  deriving Repr

structure Program where
  /-- number of attribute names in use (width of the receiver's abstract field table) -/
  nfields : Nat
  funs : List FunDecl
  deriving Repr

/-- Result of running a statement: fall through with an environment, or leave the function
(`exc = false`: `return v`; `exc = true`: an exception propagates). -/
inductive Outcome where
  | norm (e : Env)
  | exit (v : Val) (exc : Bool)

/-- Environment of a callee at entry: parameter `i` holds argument `i`, everything else a scalar. -/
def entryEnv (nparams : Nat) (args : List Val) : Env :=
  fun i => if i < nparams then args.getD i .scalar else .scalar

/-- Big-step semantics.  Loops and recursion are unbounded; branch conditions, indices and all
scalar results are nondeterministic. -/
inductive Exec (P : Program) : Stmt → Heap → Env → Heap → Outcome → Prop where
  | skip {h e} : Exec P .skip h e h (.norm e)
  | seqN {a b h e h1 e1 h2 o} :
      Exec P a h e h1 (.norm e1) → Exec P b h1 e1 h2 o → Exec P (.seq a b) h e h2 o
  | seqX {a b h e h1 v x} :
      Exec P a h e h1 (.exit v x) → Exec P (.seq a b) h e h1 (.exit v x)
  | scalar {x h e} : Exec P (.scalar x) h e h (.norm (e.set x .scalar))
  | alias {x y h e} : Exec P (.alias x y) h e h (.norm (e.set x (e y)))
  | global {x g h e} : g < h.next → Exec P (.global x g) h e h (.norm (e.set x (.ref g)))
  | new {x h e} : Exec P (.new x) h e h.alloc (.norm (e.set x (.ref h.next)))
  | load {x y s h e id k} : e y = .ref id → s.picks k →
      Exec P (.load x y s) h e h (.norm (e.set x (h.obj id k)))
  | store {x s y h e id k} : e x = .ref id → s.picks k →
      Exec P (.store x s y) h e (h.write id k (e y)) (.norm e)
  | callRet {x g args h e fd h' v} : P.funs[g]? = some fd →
      Exec P fd.body h (entryEnv fd.nparams (args.map e)) h' (.exit v false) →
      Exec P (.call x g args) h e h' (.norm (e.set x v))
  | callFall {x g args h e fd h' e'} : P.funs[g]? = some fd →
      Exec P fd.body h (entryEnv fd.nparams (args.map e)) h' (.norm e') →
      Exec P (.call x g args) h e h' (.norm (e.set x .scalar))
  | callExc {x g args h e fd h' v} : P.funs[g]? = some fd →
      Exec P fd.body h (entryEnv fd.nparams (args.map e)) h' (.exit v true) →
      Exec P (.call x g args) h e h' (.exit .scalar true)
  | iteL {a b h e h' o} : Exec P a h e h' o → Exec P (.ite a b) h e h' o
  | iteR {a b h e h' o} : Exec P b h e h' o → Exec P (.ite a b) h e h' o
  | whileDone {c h e} : Exec P (.while c) h e h (.norm e)
  | whileStep {c h e h1 e1 h2 o} :
      Exec P c h e h1 (.norm e1) → Exec P (.while c) h1 e1 h2 o → Exec P (.while c) h e h2 o
  | whileExit {c h e h1 v x} :
      Exec P c h e h1 (.exit v x) → Exec P (.while c) h e h1 (.exit v x)
  | ret {x h e} : Exec P (.ret x) h e h (.exit (e x) false)
  | raise {h e} : Exec P .raise h e h (.exit .scalar true)

/-- `Reach h a o`: object `o` can be reached from object `a` by following references in `h`. -/
inductive Reach (h : Heap) : Nat → Nat → Prop where
  | refl (a : Nat) : Reach h a a
  | step {a b c k : Nat} : Reach h a b → h.obj b k = .ref c → Reach h a c

/-- No dangling references. -/
def WFVal (n : Nat) (v : Val) : Prop := ∀ id, v = .ref id → id < n
def WFHeap (h : Heap) : Prop := ∀ id k, id < h.next → WFVal h.next (h.obj id k)
def WFEnv (h : Heap) (e : Env) : Prop := ∀ x, WFVal h.next (e x)

/-- A history: a sequence of top-level calls `(g, argument values)`, each started in the heap the
previous one left; the arguments of a call must exist when it is made (they may be results of
earlier calls). -/
inductive Run (P : Program) : List (FunId × List Val) → Heap → Heap → Prop where
  | nil {h} : Run P [] h h
  | cons {g vals rest h h1 h2 fd o} : P.funs[g]? = some fd →
      (∀ i, WFVal h.next (vals.getD i .scalar)) →
      Exec P fd.body h (entryEnv fd.nparams vals) h1 o → Run P rest h1 h2 →
      Run P ((g, vals) :: rest) h h2

/-- Kind of function `g` (`helper` if there is no such function). -/
def Program.kind (P : Program) (g : FunId) : Kind :=
  match P.funs[g]? with
  | some fd => fd.kind
  | none => .helper

/-! ## The analysis -/

def AVal.le : AVal → AVal → Bool
  | _, .any => true
  | .scal, .scal => true
  | .scal, .closed => true
  | .scal, .fresh => true
  | .scal, .param _ => true
  | .closed, .closed => true
  | .closed, .fresh => true
  | .fresh, .fresh => true
  | .param i, .param j => i == j
  | _, _ => false

def AVal.join (a b : AVal) : AVal :=
  if a.le b then b else if b.le a then a else .any

/-- What is left of an abstract value when some object may have received a non-closed reference. -/
def AVal.degrade : AVal → AVal
  | .closed => .fresh
  | a => a

/-- A value that may be stored without breaking closedness. -/
def AVal.storable : AVal → Bool
  | .scal => true
  | .closed => true
  | _ => false

abbrev AList := List AVal

def AList.get (l : AList) (i : Nat) : AVal := l.getD i .any

def AList.le (l1 l2 : AList) : Bool :=
  (List.range l2.length).all fun i => (AList.get l1 i).le (AList.get l2 i)

def AList.join (l1 l2 : AList) : AList := List.zipWith AVal.join l1 l2

/-- Abstract state: one abstract value per variable, and one per attribute of the receiver
(the object parameter 0 points to). -/
structure AState where
  env : AList
  fld : AList
  /-- `true`: no execution reaches this point (after `return` / `raise`) -/
  dead : Bool
  /-- `true`: an object that existed when the activation started may by now point to an object
  allocated since (a reference was stored into a parameter's object) -/
  exposed : Bool
  deriving Repr

def AState.le (s1 s2 : AState) : Bool :=
  s1.dead || (!s2.dead && (!s1.exposed || s2.exposed) && AList.le s1.env s2.env && AList.le s1.fld s2.fld)
def AState.join (s1 s2 : AState) : AState :=
  if s1.dead then s2 else if s2.dead then s1
  else ⟨AList.join s1.env s2.env, AList.join s1.fld s2.fld, false, s1.exposed || s2.exposed⟩
def AState.degrade (s : AState) : AState :=
  ⟨s.env.map AVal.degrade, s.fld.map AVal.degrade, s.dead, s.exposed⟩
def AState.setVar (s : AState) (x : Var) (a : AVal) : AState := ⟨s.env.set x a, s.fld, s.dead, s.exposed⟩
def AState.forget (s : AState) : AState := ⟨s.env, s.fld.map (fun _ => .any), s.dead, s.exposed⟩
def AState.kill (s : AState) : AState := ⟨s.env, s.fld, true, s.exposed⟩
def AState.mark (s : AState) : AState := ⟨s.env, s.fld, s.dead, true⟩
/-- Record that a reference to a new object is (or may be) stored into a parameter's object; a function whose
summary promises `keeps` without `exposes` may not do that. -/
def AState.expose (me : Summary) (s : AState) : Option AState :=
  if me.keeps && !me.exposes then none else some s.mark

/-- Effect of a permitted store through a variable of abstract value `ax` on the receiver's table. -/
def AState.storeFld (s : AState) (ax : AVal) (sel : Sel) (ay : AVal) : AState :=
  match ax, sel with
  | .param 0, .field f => ⟨s.env, s.fld.set f ay, s.dead, s.exposed⟩
  | .param _, _ => s.forget
  | _, _ => s

def iter (f : AState → Option AState) : Nat → AState → Option AState
  | 0, _ => none
  | n + 1, s =>
    match f s with
    | none => none
    | some s' => if s'.le s then some s else iter f n (s.join s')

def loopFuel : Nat := 12

/-- May a callee write the object this abstract value points to? -/
def writable (me : Summary) : AVal → Bool
  | .scal => true
  | .closed => true
  | .fresh => true
  | .param i => me.writes.contains i
  | .any => false

def AVal.isParam : AVal → Bool
  | .param _ => true
  | _ => false

/-- Instantiate a callee's result abstraction in the caller. -/
def instRet (aargs : AList) : AVal → AVal
  | .param i => AList.get aargs i
  | a => a

/-- Abstract value of `y.sel`. -/
def aload (s : AState) (y : Var) (sel : Sel) : AVal :=
  match AList.get s.env y, sel with
  | .closed, _ => .closed
  | .param 0, .field f => AList.get s.fld f
  | _, _ => .any

/-- Abstract store `x.sel := y`. -/
def astore (me : Summary) (x : Var) (sel : Sel) (y : Var) (s : AState) : Option AState :=
  let ax := AList.get s.env x
  let ay := AList.get s.env y
  if writable me ax then
    if ay.storable then
      -- a reference to a new object stored into a parameter's object
      if ax.isParam && ay == .closed then (s.storeFld ax sel ay).expose me
      else some (s.storeFld ax sel ay)
    else if ax.isParam then
      -- something else than a scalar / closed new object stored into a parameter's object
      if me.keeps then none else some (s.degrade.storeFld ax sel ay).mark
    -- … into an object of this activation: harmless as long as no such object hangs from a parameter
    else if me.keeps && s.exposed then none
    else some (s.degrade.storeFld ax sel ay)
  else none

/-- Abstract call `x := g(ys)` of a function with summary `cs`. -/
def acall (me cs : Summary) (x : Var) (ys : List Var) (s : AState) : Option AState :=
  let aargs : AList := ys.map (AList.get s.env)
  if cs.writes.all (fun i => decide (i < ys.length) && writable me (AList.get aargs i)) then
    let touches := cs.writes.any (fun i => (AList.get aargs i).isParam)
    let s1 := if touches then s.forget else s
    if cs.writes.isEmpty || cs.keeps then
      let r := s1.setVar x (instRet aargs cs.ret)
      if touches && cs.exposes then r.expose me else some r
    else
      -- the callee may store anything into the objects it writes
      let s2 := s1.degrade
      let r := s2.setVar x (instRet (ys.map (AList.get s2.env)) cs.ret)
      if touches then (if me.keeps then none else some r.mark)
      else if me.keeps && s.exposed then none
      else some r
  else none

/-- Abstract execution.  `none` = the function is rejected. -/
def aexec (sums : List Summary) (me : Summary) : Stmt → AState → Option AState
  | .skip, s => some s
  | .seq a b, s =>
    match aexec sums me a s with
    | none => none
    | some s1 => aexec sums me b s1
  | .scalar x, s => some (s.setVar x .scal)
  | .alias x y, s => some (s.setVar x (AList.get s.env y))
  | .global x _, s => some (s.setVar x .any)
  | .new x, s => some (s.setVar x .closed)
  | .load x y sel, s => some (s.setVar x (aload s y sel))
  | .store x sel y, s => astore me x sel y s
  | .call x g ys, s =>
    match sums[g]? with
    | none => none
    | some cs => acall me cs x ys s
  | .ite a b, s =>
    match aexec sums me a s, aexec sums me b s with
    | some s1, some s2 => some (s1.join s2)
    | _, _ => none
  | .while c, s => iter (aexec sums me c) loopFuel s
  | .ret x, s => if (AList.get s.env x).le me.ret then some s.kill else none
  | .raise, s => some s.kill

def entryState (nfields : Nat) (fd : FunDecl) : AState :=
  ⟨(List.range fd.nparams).map AVal.param ++ List.replicate (fd.nvars - fd.nparams) .scal,
   List.replicate nfields .any, false, false⟩

/-- What the property demands of a function of each kind. -/
def specOk (fd : FunDecl) : Bool :=
  match fd.kind with
  | .pure => fd.sum.writes.isEmpty
  | .mutator => fd.sum.writes.all (· == 0)
  | .helper => true

def checkFun (nfields : Nat) (sums : List Summary) (fd : FunDecl) : Bool :=
  specOk fd && (aexec sums fd.sum fd.body (entryState nfields fd)).isSome

def Program.sums (P : Program) : List Summary := P.funs.map (·.sum)

/-- The decidable check: every function satisfies its annotated summary (assuming the annotated
summaries of its callees), public pure functions have the empty write set, documented mutators
write at most their receiver. -/
def check (P : Program) : Bool := P.funs.all (checkFun P.nfields P.sums)


/-! ## Guards and half-written receivers (syntactic views of a skeleton) -/

/-- The first statement of a body (the translator puts the `isinstance` guard of a function there). -/
def Stmt.head : Stmt → Stmt
  | .seq a _ => a
  | c => c

/-- Does the statement contain a `raise`? -/
def Stmt.hasRaise : Stmt → Bool
  | .raise => true
  | .seq a b => a.hasRaise || b.hasRaise
  | .ite a b => a.hasRaise || b.hasRaise
  | .while c => c.hasRaise
  | _ => false

/-- The summary "writes no parameter": a statement accepted under it writes only objects it allocates. -/
def pureSum : Summary := ⟨[], false, true, .any⟩

/-- The head statement of `fd` can raise and is accepted under the empty write set. -/
def guardHeadOk (P : Program) (fd : FunDecl) : Bool :=
  fd.body.head.hasRaise && (aexec P.sums pureSum fd.body.head (entryState P.nfields fd)).isSome

/-- Syntactic classification: walking the statement in control-flow order with `w` = "the receiver (variable 0)
may already have been written on a path reaching this point" (a store through variable 0, or a call passing
variable 0 in a position the callee's summary writes): is an explicit `raise` reachable with `w` set?
Returns (such a raise exists, `w` after, can control fall through).  Paths that ended in `return` / `raise`
do not reach what follows; exceptions propagating out of callees are not counted; loops are walked twice. -/
def halfWrite (sums : List Summary) : Stmt → Bool → Bool × Bool × Bool
  | .seq a b, w =>
    let ra := halfWrite sums a w
    if ra.2.2 then
      let rb := halfWrite sums b ra.2.1
      (ra.1 || rb.1, rb.2.1, rb.2.2)
    else ra
  | .store x _ _, w => (false, w || x == 0, true)
  | .call _ g ys, w =>
    (false, w || (match sums[g]? with
      | some cs => cs.writes.any (fun i => ys.getD i 1 == 0)
      | none => true), true)
  | .ite a b, w =>
    let ra := halfWrite sums a w
    let rb := halfWrite sums b w
    (ra.1 || rb.1, (ra.2.2 && ra.2.1) || (rb.2.2 && rb.2.1), ra.2.2 || rb.2.2)
  | .while c, w =>
    let r1 := halfWrite sums c w
    let w1 := w || (r1.2.2 && r1.2.1)
    let r2 := halfWrite sums c w1
    (r1.1 || r2.1, w1 || (r2.2.2 && r2.2.1), true)
  | .raise, w => (w, w, false)
  | .ret _, w => (false, w, false)
  | _, w => (false, w, true)

/-- `fd` may leave through an explicit `raise` after having written its receiver. -/
def mayLeaveHalfWritten (P : Program) (fd : FunDecl) : Bool := (halfWrite P.sums fd.body false).1

end Pymeeus.Effects
