import Mathlib.Data.Rat.Floor
import Mathlib.Algebra.Order.Floor.Ring
import Pymeeus.Gen.Q.Angle
/-
Reading a printed sexagesimal value back (written from the property text, not from the code).

`dms_str` hands one of four field lists to the formatter (`GenQ.Printed`).  A reader attaches the
sign of the leading field to the whole value; the form is well-formed when the leading field that is
printed is non-zero and every later field is non-negative ("the sign appears exactly once, on the
leading non-zero field").
-/
namespace Pymeeus.Spec
open Pymeeus Pymeeus.GenQ

/-- Sign of an integer field as a rational (`0 ↦ 1`; a leading field is never 0 in a well-formed print). -/
def sgnZ (n : ℤ) : ℚ := if n < 0 then -1 else 1

/-- The value (degrees, or hours for RA) a reader assigns to the printed fields. -/
def readback : Printed → ℚ
  | .dms d m s => sgnZ d * ((|d| : ℤ) + (m : ℚ) / 60 + s / 3600)
  | .ms m s => sgnZ m * (((|m| : ℤ) : ℚ) / 60 + s / 3600)
  | .s s => s / 3600
  | .zero => 0

/-- "carry the sign exactly once on the leading non-zero field". -/
def signOnce : Printed → Prop
  | .dms d m s => d ≠ 0 ∧ 0 ≤ m ∧ 0 ≤ s
  | .ms m s => m ≠ 0 ∧ 0 ≤ s
  | .s s => s ≠ 0
  | .zero => True

/-- "never show 60 in the minutes or seconds field" (and the leading field below `turn`). -/
def fieldsBelow (turn : ℤ) : Printed → Prop
  | .dms d m s => |d| < turn ∧ m < 60 ∧ s < 60
  | .ms m s => |m| < 60 ∧ s < 60
  | .s s => |s| < 60
  | .zero => True

end Pymeeus.Spec
