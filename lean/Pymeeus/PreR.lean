import Mathlib.Analysis.SpecialFunctions.Trigonometric.Basic
import Mathlib.Analysis.SpecialFunctions.Trigonometric.Inverse
import Mathlib.Analysis.SpecialFunctions.Trigonometric.Arctan
import Mathlib.Analysis.SpecialFunctions.Complex.Arg
import Mathlib.Analysis.SpecialFunctions.Pow.Real
import Pymeeus.Prelude
/-
Real-number instantiation: Python `float` ↦ `ℝ`, `math.*` ↦ Mathlib's real functions.
Not executable; used only by theorems about code that calls transcendental functions.
-/
noncomputable section
namespace Pymeeus.PR

abbrev Num := ℝ

def ofInt (n : Int) : ℝ := (n : ℝ)
def pfloor (x : ℝ) : Int := ⌊x⌋
def ptrunc (x : ℝ) : Int := if 0 ≤ x then ⌊x⌋ else -⌊-x⌋
def pmod (x y : ℝ) : ℝ := x - y * (⌊x / y⌋ : ℤ)
def pabs (x : ℝ) : ℝ := |x|
def pround (x : ℝ) : Int := round x   -- NOTE: Mathlib's `round` rounds half up; only used away from ties
def peq (x y : ℝ) : Bool := decide (x = y)
def plt (x y : ℝ) : Bool := decide (x < y)
def ple (x y : ℝ) : Bool := decide (x ≤ y)

/-- `math.fsum(l)`: exact sum. -/
def pfsum (l : List ℝ) : ℝ := l.foldl (· + ·) 0

def pi : ℝ := Real.pi
def psin (x : ℝ) : ℝ := Real.sin x
def pcos (x : ℝ) : ℝ := Real.cos x
def ptan (x : ℝ) : ℝ := Real.tan x
def patan (x : ℝ) : ℝ := Real.arctan x
/-- `math.atan2(y, x)`: the argument of `x + i y`, in (-π, π]. -/
def patan2 (y x : ℝ) : ℝ := Complex.arg ⟨x, y⟩
def pasin (x : ℝ) : ℝ := Real.arcsin x
def pacos (x : ℝ) : ℝ := Real.arccos x
def psqrt (x : ℝ) : ℝ := Real.sqrt x
def pradians (x : ℝ) : ℝ := x * (Real.pi / 180)
def pdegrees (x : ℝ) : ℝ := x * (180 / Real.pi)

end Pymeeus.PR
