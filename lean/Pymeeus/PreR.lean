import Mathlib.Analysis.SpecialFunctions.Trigonometric.Basic
import Mathlib.Analysis.SpecialFunctions.Trigonometric.Inverse
import Mathlib.Analysis.SpecialFunctions.Trigonometric.Arctan
import Mathlib.Analysis.SpecialFunctions.Complex.Arg
import Mathlib.Analysis.SpecialFunctions.Pow.Real
import Pymeeus.Prelude
/-
Real-number instantiation: Python `float` ↦ `ℝ`, `math.*` ↦ Mathlib's real functions.
Not executable; used only by theorems about code that calls transcendental functions.
-/
noncomputable section
namespace Pymeeus.PR

abbrev Num := ℝ

def ofInt (n : Int) : ℝ := (n : ℝ)
def pfloor (x : ℝ) : Int := ⌊x⌋
def ptrunc (x : ℝ) : Int := if 0 ≤ x then ⌊x⌋ else -⌊-x⌋
def pmod (x y : ℝ) : ℝ := x - y * (⌊x / y⌋ : ℤ)
def pabs (x : ℝ) : ℝ := |x|
def pround (x : ℝ) : Int := round x   -- NOTE: Mathlib's `round` rounds half up; only used away from ties
def peq (x y : ℝ) : Bool := decide (x = y)
def plt (x y : ℝ) : Bool := decide (x < y)
def ple (x y : ℝ) : Bool := decide (x ≤ y)

/-- `math.fsum(l)`: exact sum. -/
def pfsum (l : List ℝ) : ℝ := l.foldl (· + ·) 0

def pi : ℝ := Real.pi
def psin (x : ℝ) : ℝ := Real.sin x
def pcos (x : ℝ) : ℝ := Real.cos x
def ptan (x : ℝ) : ℝ := Real.tan x
def patan (x : ℝ) : ℝ := Real.arctan x
/-- `math.atan2(y, x)`: the argument of `x + i y`, in (-π, π]. -/
def patan2 (y x : ℝ) : ℝ := Complex.arg ⟨x, y⟩
def pasin (x : ℝ) : ℝ := Real.arcsin x
def pacos (x : ℝ) : ℝ := Real.arccos x
def psqrt (x : ℝ) : ℝ := Real.sqrt x
def pradians (x : ℝ) : ℝ := x * (Real.pi / 180)
def pdegrees (x : ℝ) : ℝ := x * (180 / Real.pi)

end Pymeeus.PR

noncomputable section
namespace Pymeeus.PR
/-! Additions for the Angle model (C03/C04). -/

def pow10 (n : Int) : ℝ := (10 : ℝ) ^ n

/-- `round(x, n)`: nearest multiple of `10**-n`, ties to even. -/
def proundn (x : ℝ) (n : Int) : ℝ :=
  let y := x * pow10 n
  let f : Int := ⌊y⌋
  let r := y - f
  let k : Int := if r < 1/2 then f else if 1/2 < r then f + 1 else if f % 2 = 0 then f else f + 1
  (k : ℝ) / pow10 n

/-- `x ** n` for a float `x` and an `int` `n`. -/
def ppowi (x : ℝ) (n : Int) : PyRes ℝ :=
  if n ≥ 0 then .ok (x ^ n.toNat)
  else if x = 0 then .error .zeroDivisionError
  else .ok (1 / x ^ (-n).toNat)

/-- `x ** w` on floats, ideal reading: `.typeError` stands for the complex result of a negative
    base with a non-integer exponent (see `PF.ppow`). -/
def ppow (x w : ℝ) : PyRes ℝ :=
  if w = 0 then .ok 1
  else if x = 0 then (if w < 0 then .error .zeroDivisionError else .ok 0)
  else if x < 0 then (if w = (⌊w⌋ : ℤ) then .ok (x ^ (⌊w⌋ : ℤ)) else .error .typeError)
  else .ok (Real.rpow x w)

def pmodE (x y : ℝ) : PyRes ℝ := if y = 0 then .error .zeroDivisionError else .ok (pmod x y)

end Pymeeus.PR
