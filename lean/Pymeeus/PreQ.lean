import Pymeeus.Prelude
/-
Exact (ideal arithmetic) instantiation: Python `float` ↦ `Rat`.
Every decimal literal of the source is taken at its decimal value.
-/
namespace Pymeeus.PQ

abbrev Num := Rat

@[inline] def ofInt (n : Int) : Rat := (n : Rat)
/-- `iint(x)` / `int(math.floor(x))`. -/
@[inline] def pfloor (x : Rat) : Int := x.floor
/-- `int(x)`: truncation toward zero. -/
def ptrunc (x : Rat) : Int := if 0 ≤ x then x.floor else -((-x).floor)
/-- Python float `x % y` for `y ≠ 0`: `x - y * floor (x / y)` (sign of the divisor). -/
def pmod (x y : Rat) : Rat := x - y * ((x / y).floor : Int)
def pabs (x : Rat) : Rat := if x < 0 then -x else x
/-- `round(x)`: nearest integer, ties to even. -/
def pround (x : Rat) : Int :=
  let f := x.floor
  let r := x - f
  if r < 1/2 then f else if 1/2 < r then f + 1 else if f % 2 = 0 then f else f + 1
@[inline] def peq (x y : Rat) : Bool := decide (x = y)
@[inline] def plt (x y : Rat) : Bool := decide (x < y)
@[inline] def ple (x y : Rat) : Bool := decide (x ≤ y)

/-- `math.fsum(l)`: the exactly rounded sum; exact in ℚ. -/
def pfsum (l : List Rat) : Rat := l.foldl (· + ·) 0

def pshow (x : Rat) : String := s!"{x.num}/{x.den}"

end Pymeeus.PQ
