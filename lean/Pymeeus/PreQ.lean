import Pymeeus.Prelude
/-
Exact (ideal arithmetic) instantiation: Python `float` ↦ `Rat`.
Every decimal literal of the source is taken at its decimal value.
-/
namespace Pymeeus.PQ

abbrev Num := Rat

@[inline] def ofInt (n : Int) : Rat := (n : Rat)
/-- `iint(x)` / `int(math.floor(x))`. -/
@[inline] def pfloor (x : Rat) : Int := x.floor
/-- `int(x)`: truncation toward zero. -/
def ptrunc (x : Rat) : Int := if 0 ≤ x then x.floor else -((-x).floor)
/-- Python float `x % y` for `y ≠ 0`: `x - y * floor (x / y)` (sign of the divisor). -/
def pmod (x y : Rat) : Rat := x - y * ((x / y).floor : Int)
def pabs (x : Rat) : Rat := if x < 0 then -x else x
/-- `round(x)`: nearest integer, ties to even. -/
def pround (x : Rat) : Int :=
  let f := x.floor
  let r := x - f
  if r < 1/2 then f else if 1/2 < r then f + 1 else if f % 2 = 0 then f else f + 1
@[inline] def peq (x y : Rat) : Bool := decide (x = y)
@[inline] def plt (x y : Rat) : Bool := decide (x < y)
@[inline] def ple (x y : Rat) : Bool := decide (x ≤ y)

/-- `math.fsum(l)`: the exactly rounded sum; exact in ℚ. -/
def pfsum (l : List Rat) : Rat := l.foldl (· + ·) 0

def pshow (x : Rat) : String := s!"{x.num}/{x.den}"

end Pymeeus.PQ

namespace Pymeeus.PQ
/-! Additions for the Angle model (C03/C04). -/

/-- `10 ** n` as an exact rational, `n` any integer. -/
def pow10 (n : Int) : Rat :=
  if n ≥ 0 then ((10 ^ n.toNat : Nat) : Rat) else 1 / ((10 ^ (-n).toNat : Nat) : Rat)

/-- `round(x, n)` on a float: the multiple of `10**-n` nearest to `x`, ties to even. -/
def proundn (x : Rat) (n : Int) : Rat := (pround (x * pow10 n) : Int) / pow10 n

/-- `x ** n` for a float `x` and an `int` `n` (`float_pow`): `0.0 ** negative` raises
    ZeroDivisionError; no overflow in exact arithmetic. -/
def ppowi (x : Rat) (n : Int) : PyRes Rat :=
  if n ≥ 0 then .ok (x ^ n.toNat)
  else if x = 0 then .error .zeroDivisionError
  else .ok (1 / x ^ (-n).toNat)

/-- Python float `x % y`: ZeroDivisionError for `y == 0`. -/
def pmodE (x y : Rat) : PyRes Rat := if y = 0 then .error .zeroDivisionError else .ok (pmod x y)

end Pymeeus.PQ
