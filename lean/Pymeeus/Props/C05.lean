import Pymeeus.Refine.Separation
/-
C05 — Celestial coordinate conversions are inverse rotations; separation metric.

Property theorems only (helpers in Refine/Coords.lean, Refine/Separation.lean, Lemmas/Sphere.lean;
specification vocabulary in Spec/Sphere.lean).  They are statements about `Pymeeus.GenR.Coords`, the
real-number instantiation of the model in templates/Coords.lean (an `Angle` is its degree value).
`dir lon lat` is the unit vector of a direction (degrees), `rad` converts degrees to radians.

The source (after the fixes proposed in findings.d/proposed-1..4.patch) forms the three components x, y, z of
the rotated direction and returns `atan2(y, x)`, `atan2(z, sqrt(x*x + y*y))`: no `tan`, no `asin`, no
division.  The conversion theorems therefore hold for EVERY direction, both poles included, with no safety
hypothesis; the conclusion `f … = .ok …` says that nothing is raised.
-/
noncomputable section
namespace Pymeeus.C05
open Real Pymeeus Pymeeus.PR Pymeeus.GenR.Coords Pymeeus.Spec.Sphere Pymeeus.Refine.Coords

/-! ### "conversions are rotations" — `dir (f p) = M · dir p`, with the documented ranges -/

/-- equatorial → ecliptical is the rotation `Rx(ε)`; longitude in [0, 360), latitude in [-90, 90]. -/
theorem is_rotation_equatorial2ecliptical (α δ ε : ℝ) :
    ∃ lon lat, equatorial2ecliptical α δ ε = .ok (lon, lat) ∧
      dir lon lat = rotX (rad ε) (dir α δ) ∧ (0 ≤ lon ∧ lon < 360) ∧ (-90 ≤ lat ∧ lat ≤ 90) :=
  equatorial2ecliptical_spec α δ ε

/-- ecliptical → equatorial is the rotation `Rx(-ε)`; right ascension in [0, 360), declination in [-90, 90]. -/
theorem is_rotation_ecliptical2equatorial (l b ε : ℝ) :
    ∃ ra dec, ecliptical2equatorial l b ε = .ok (ra, dec) ∧
      dir ra dec = rotX (-(rad ε)) (dir l b) ∧ (0 ≤ ra ∧ ra < 360) ∧ (-90 ≤ dec ∧ dec ≤ 90) :=
  ecliptical2equatorial_spec l b ε

/-- (hour angle, declination) → (azimuth from the South westwards, elevation) is the rotation that takes
    the direction (H = 0, δ = φ) to the zenith; azimuth in (-180, 180], elevation in [-90, 90]. -/
theorem is_rotation_equatorial2horizontal (H δ φ : ℝ) :
    ∃ azi ele, equatorial2horizontal H δ φ = .ok (azi, ele) ∧
      dir azi ele = horizontalOfEquatorial (rad φ) (dir H δ) ∧ (-180 < azi ∧ azi ≤ 180) ∧ (-90 ≤ ele ∧ ele ≤ 90) :=
  equatorial2horizontal_spec H δ φ

/-- horizontal → equatorial is the transposed rotation; hour angle in (-180, 180], declination in [-90, 90]. -/
theorem is_rotation_horizontal2equatorial (A h φ : ℝ) :
    ∃ H dec, horizontal2equatorial A h φ = .ok (H, dec) ∧
      dir H dec = equatorialOfHorizontal (rad φ) (dir A h) ∧ (-180 < H ∧ H ≤ 180) ∧ (-90 ≤ dec ∧ dec ≤ 90) :=
  horizontal2equatorial_spec A h φ

/-- equatorial → galactic is the fixed rotation built from 192.25°, 27.4°, 303°; longitude in [0, 360). -/
theorem is_rotation_equatorial2galactic (α δ : ℝ) :
    ∃ lon lat, equatorial2galactic α δ = .ok (lon, lat) ∧
      dir lon lat = galacticOfEquatorial (dir α δ) ∧ (0 ≤ lon ∧ lon < 360) ∧ (-90 ≤ lat ∧ lat ≤ 90) :=
  equatorial2galactic_spec α δ

/-- galactic → equatorial is the fixed rotation built from 123°, 27.4°, 12.25°; right ascension in [0, 360). -/
theorem is_rotation_galactic2equatorial (l b : ℝ) :
    ∃ ra dec, galactic2equatorial l b = .ok (ra, dec) ∧
      dir ra dec = equatorialOfGalactic (dir l b) ∧ (0 ≤ ra ∧ ra < 360) ∧ (-90 ≤ dec ∧ dec ≤ 90) :=
  galactic2equatorial_spec l b

/-- The galactic rotation is the one of the definition: it takes the direction RA 192.25°, Dec 27.4° to
    the galactic pole, and the celestial pole to galactic longitude 123°, latitude 27.4°. -/
theorem galactic_frame_definition :
    galacticOfEquatorial (dir 192.25 27.4) = (0, 0, 1) ∧ galacticOfEquatorial (0, 0, 1) = dir 123 27.4 := by
  constructor
  · unfold galacticOfEquatorial flipZ tilt dir
    ext
    · simp only
      linear_combination (cos (rad 27.4) * sin (rad 27.4) * cos (rad 303)) * sin_sq_add_cos_sq (rad 192.25)
    · simp only
      linear_combination (cos (rad 27.4) * sin (rad 27.4) * sin (rad 303)) * sin_sq_add_cos_sq (rad 192.25)
    · simp only
      linear_combination (cos (rad 27.4)) ^ 2 * sin_sq_add_cos_sq (rad 192.25) + sin_sq_add_cos_sq (rad 27.4)
  · unfold galacticOfEquatorial
    rw [rad_303]
    unfold flipZ tilt dir
    simp only [cos_add_pi, sin_add_pi]
    ext <;> simp only <;> ring

/-! ### "mutually inverse … for every obliquity or observer latitude" (as directions on the sphere) -/

/-- ecliptical2equatorial ∘ equatorial2ecliptical is the identity on directions, for every obliquity and every
    direction (the poles of either frame included). -/
theorem inverse_ecliptical_of_equatorial (α δ ε lon lat : ℝ)
    (h : equatorial2ecliptical α δ ε = .ok (lon, lat)) :
    ∃ ra dec, ecliptical2equatorial lon lat ε = .ok (ra, dec) ∧ dir ra dec = dir α δ := by
  obtain ⟨lon', lat', h', hd, _, _⟩ := equatorial2ecliptical_spec α δ ε
  rw [h] at h'; injection h' with h'; injection h' with e1 e2; subst e1 e2
  obtain ⟨ra, dec, hr, hd2, _, _⟩ := ecliptical2equatorial_spec lon lat ε
  exact ⟨ra, dec, hr, by rw [hd2, hd, rotX_neg_rotX]⟩

/-- equatorial2ecliptical ∘ ecliptical2equatorial is the identity on directions, for every obliquity. -/
theorem inverse_equatorial_of_ecliptical (l b ε ra dec : ℝ)
    (h : ecliptical2equatorial l b ε = .ok (ra, dec)) :
    ∃ lon lat, equatorial2ecliptical ra dec ε = .ok (lon, lat) ∧ dir lon lat = dir l b := by
  obtain ⟨ra', dec', h', hd, _, _⟩ := ecliptical2equatorial_spec l b ε
  rw [h] at h'; injection h' with h'; injection h' with e1 e2; subst e1 e2
  obtain ⟨lon, lat, hr, hd2, _, _⟩ := equatorial2ecliptical_spec ra dec ε
  exact ⟨lon, lat, hr, by rw [hd2, hd, rotX_rotX_neg]⟩

/-- horizontal2equatorial ∘ equatorial2horizontal is the identity on directions, for every observer latitude. -/
theorem inverse_horizontal_of_equatorial (H δ φ azi ele : ℝ)
    (h : equatorial2horizontal H δ φ = .ok (azi, ele)) :
    ∃ H' dec, horizontal2equatorial azi ele φ = .ok (H', dec) ∧ dir H' dec = dir H δ := by
  obtain ⟨a', e', h', hd, _, _⟩ := equatorial2horizontal_spec H δ φ
  rw [h] at h'; injection h' with h'; injection h' with e1 e2; subst e1 e2
  obtain ⟨H', dec, hr, hd2, _, _⟩ := horizontal2equatorial_spec azi ele φ
  exact ⟨H', dec, hr, by rw [hd2, hd]; exact tiltT_tilt _ _⟩

/-- equatorial2horizontal ∘ horizontal2equatorial is the identity on directions, for every observer latitude. -/
theorem inverse_equatorial_of_horizontal (A h φ H dec : ℝ)
    (hc : horizontal2equatorial A h φ = .ok (H, dec)) :
    ∃ azi ele, equatorial2horizontal H dec φ = .ok (azi, ele) ∧ dir azi ele = dir A h := by
  obtain ⟨H', d', h', hd, _, _⟩ := horizontal2equatorial_spec A h φ
  rw [hc] at h'; injection h' with h'; injection h' with e1 e2; subst e1 e2
  obtain ⟨azi, ele, hr, hd2, _, _⟩ := equatorial2horizontal_spec H dec φ
  exact ⟨azi, ele, hr, by rw [hd2, hd]; exact tilt_tiltT _ _⟩

/-- galactic2equatorial ∘ equatorial2galactic is the identity on directions
    (303° − 180° = 123° and 192.25° − 180° = 12.25° is what makes it exact). -/
theorem inverse_galactic_of_equatorial (α δ lon lat : ℝ)
    (h : equatorial2galactic α δ = .ok (lon, lat)) :
    ∃ ra dec, galactic2equatorial lon lat = .ok (ra, dec) ∧ dir ra dec = dir α δ := by
  obtain ⟨lon', lat', h', hd, _, _⟩ := equatorial2galactic_spec α δ
  rw [h] at h'; injection h' with h'; injection h' with e1 e2; subst e1 e2
  obtain ⟨ra, dec, hr, hd2, _, _⟩ := galactic2equatorial_spec lon lat
  exact ⟨ra, dec, hr, by rw [hd2, hd, equatorialOfGalactic_galacticOfEquatorial]⟩

/-- equatorial2galactic ∘ galactic2equatorial is the identity on directions. -/
theorem inverse_equatorial_of_galactic (l b ra dec : ℝ)
    (h : galactic2equatorial l b = .ok (ra, dec)) :
    ∃ lon lat, equatorial2galactic ra dec = .ok (lon, lat) ∧ dir lon lat = dir l b := by
  obtain ⟨ra', dec', h', hd, _, _⟩ := galactic2equatorial_spec l b
  rw [h] at h'; injection h' with h'; injection h' with e1 e2; subst e1 e2
  obtain ⟨lon, lat, hr, hd2, _, _⟩ := equatorial2galactic_spec ra dec
  exact ⟨lon, lat, hr, by rw [hd2, hd, galacticOfEquatorial_equatorialOfGalactic]⟩

/-- Mutually inverse IN COORDINATES: for a right ascension in [0°, 360°) and a declination strictly between the poles,
    converting to ecliptical and back returns exactly the same two numbers, for every obliquity. -/
theorem roundtrip_equatorial_ecliptical (α δ ε lon lat : ℝ) (hα : 0 ≤ α ∧ α < 360) (hδ : -90 < δ ∧ δ < 90)
    (h : equatorial2ecliptical α δ ε = .ok (lon, lat)) :
    ecliptical2equatorial lon lat ε = .ok (α, δ) := by
  obtain ⟨lon', lat', h', hd, _, _⟩ := equatorial2ecliptical_spec α δ ε
  rw [h] at h'; injection h' with h'; injection h' with e1 e2; subst e1 e2
  obtain ⟨ra, dec, hr, hd2, hra, hdec⟩ := ecliptical2equatorial_spec lon lat ε
  have hdir : dir α δ = dir ra dec := by rw [hd2, hd, rotX_neg_rotX]
  obtain ⟨x1, x2⟩ := dir_inj hδ hdec (by rw [abs_lt]; constructor <;> linarith [hα.1, hα.2, hra.1, hra.2]) hdir
  rw [hr, ← x1, ← x2]

/-- The same for galactic coordinates. -/
theorem roundtrip_equatorial_galactic (α δ lon lat : ℝ) (hα : 0 ≤ α ∧ α < 360) (hδ : -90 < δ ∧ δ < 90)
    (h : equatorial2galactic α δ = .ok (lon, lat)) :
    galactic2equatorial lon lat = .ok (α, δ) := by
  obtain ⟨lon', lat', h', hd, _, _⟩ := equatorial2galactic_spec α δ
  rw [h] at h'; injection h' with h'; injection h' with e1 e2; subst e1 e2
  obtain ⟨ra, dec, hr, hd2, hra, hdec⟩ := galactic2equatorial_spec lon lat
  have hdir : dir α δ = dir ra dec := by rw [hd2, hd, equatorialOfGalactic_galacticOfEquatorial]
  obtain ⟨x1, x2⟩ := dir_inj hδ hdec (by rw [abs_lt]; constructor <;> linarith [hα.1, hα.2, hra.1, hra.2]) hdir
  rw [hr, ← x1, ← x2]

/-- The same for horizontal coordinates (hour angle in (-180°, 180°], the range the source returns), for every
    observer latitude. -/
theorem roundtrip_equatorial_horizontal (H δ φ azi ele : ℝ) (hH : -180 < H ∧ H ≤ 180) (hδ : -90 < δ ∧ δ < 90)
    (h : equatorial2horizontal H δ φ = .ok (azi, ele)) :
    horizontal2equatorial azi ele φ = .ok (H, δ) := by
  obtain ⟨a', e', h', hd, _, _⟩ := equatorial2horizontal_spec H δ φ
  rw [h] at h'; injection h' with h'; injection h' with e1 e2; subst e1 e2
  obtain ⟨H', dec, hr, hd2, hH', hdec⟩ := horizontal2equatorial_spec azi ele φ
  have hdir : dir H δ = dir H' dec := by rw [hd2, hd]; exact (tiltT_tilt _ _).symm
  obtain ⟨x1, x2⟩ := dir_inj hδ hdec (by rw [abs_lt]; constructor <;> linarith [hH.1, hH.2, hH'.1, hH'.2]) hdir
  rw [hr, ← x1, ← x2]

/-! ### "keep the angle between any two directions unchanged" -/

/-- All the frame rotations are orthogonal: they preserve the dot product of any two vectors. -/
theorem frame_rotations_orthogonal (a : ℝ) (u v : V3) :
    dot (rotX a u) (rotX a v) = dot u v ∧
    dot (horizontalOfEquatorial a u) (horizontalOfEquatorial a v) = dot u v ∧
    dot (equatorialOfHorizontal a u) (equatorialOfHorizontal a v) = dot u v ∧
    dot (galacticOfEquatorial u) (galacticOfEquatorial v) = dot u v ∧
    dot (equatorialOfGalactic u) (equatorialOfGalactic v) = dot u v :=
  ⟨rotX_dot a u v, tilt_dot a u v, tiltT_dot a u v, galactic_dot u v, equatorialOfGalactic_dot u v⟩

/-- The cosine of the angle between two directions is unchanged by equatorial2ecliptical
    (and, by the same one-line argument from `frame_rotations_orthogonal`, by the other five). -/
theorem preserves_angle_equatorial2ecliptical (α1 δ1 α2 δ2 ε l1 b1 l2 b2 : ℝ)
    (e1 : equatorial2ecliptical α1 δ1 ε = .ok (l1, b1)) (e2 : equatorial2ecliptical α2 δ2 ε = .ok (l2, b2)) :
    dot (dir l1 b1) (dir l2 b2) = dot (dir α1 δ1) (dir α2 δ2) := by
  obtain ⟨_, _, h', hd1, _, _⟩ := equatorial2ecliptical_spec α1 δ1 ε
  rw [e1] at h'; injection h' with h'; injection h' with x1 x2; subst x1 x2
  obtain ⟨_, _, h', hd2, _, _⟩ := equatorial2ecliptical_spec α2 δ2 ε
  rw [e2] at h'; injection h' with h'; injection h' with x1 x2; subst x1 x2
  rw [hd1, hd2, rotX_dot]

theorem preserves_angle_equatorial2horizontal (H1 δ1 H2 δ2 φ a1 e1 a2 e2 : ℝ)
    (c1 : equatorial2horizontal H1 δ1 φ = .ok (a1, e1)) (c2 : equatorial2horizontal H2 δ2 φ = .ok (a2, e2)) :
    dot (dir a1 e1) (dir a2 e2) = dot (dir H1 δ1) (dir H2 δ2) := by
  obtain ⟨_, _, h', hd1, _, _⟩ := equatorial2horizontal_spec H1 δ1 φ
  rw [c1] at h'; injection h' with h'; injection h' with x1 x2; subst x1 x2
  obtain ⟨_, _, h', hd2, _, _⟩ := equatorial2horizontal_spec H2 δ2 φ
  rw [c2] at h'; injection h' with h'; injection h' with x1 x2; subst x1 x2
  rw [hd1, hd2]; exact tilt_dot _ _ _

theorem preserves_angle_equatorial2galactic (α1 δ1 α2 δ2 l1 b1 l2 b2 : ℝ)
    (e1 : equatorial2galactic α1 δ1 = .ok (l1, b1)) (e2 : equatorial2galactic α2 δ2 = .ok (l2, b2)) :
    dot (dir l1 b1) (dir l2 b2) = dot (dir α1 δ1) (dir α2 δ2) := by
  obtain ⟨_, _, h', hd1, _, _⟩ := equatorial2galactic_spec α1 δ1
  rw [e1] at h'; injection h' with h'; injection h' with x1 x2; subst x1 x2
  obtain ⟨_, _, h', hd2, _, _⟩ := equatorial2galactic_spec α2 δ2
  rw [e2] at h'; injection h' with h'; injection h' with x1 x2; subst x1 x2
  rw [hd1, hd2, galactic_dot]

/-! ### "angular separation … equal the dot/cross-product value …, are symmetric" -/

/-- `angular_separation` never raises; the cosine of the result is the dot product of the two unit vectors and the
    result lies in [0°, 180°] (which determines it: it is the arccos of the dot product).  No hypothesis (Meeus'
    x, y, z formula with `atan2`). -/
theorem separation_cos_eq_dot (α1 δ1 α2 δ2 : ℝ) :
    ∃ θ, angular_separation α1 δ1 α2 δ2 = .ok θ ∧
      cos (rad θ) = dot (dir α1 δ1) (dir α2 δ2) ∧ 0 ≤ θ ∧ θ ≤ 180 :=
  angular_separation_spec α1 δ1 α2 δ2

/-- The separation is symmetric in the two bodies. -/
theorem separation_symmetric (α1 δ1 α2 δ2 : ℝ) :
    angular_separation α1 δ1 α2 δ2 = angular_separation α2 δ2 α1 δ1 := by
  obtain ⟨θ, h, hc, h0, h1⟩ := angular_separation_spec α1 δ1 α2 δ2
  obtain ⟨θ', h', hc', h0', h1'⟩ := angular_separation_spec α2 δ2 α1 δ1
  rw [h, h']
  congr 1
  apply deg_eq_of_cos_eq ⟨h0, h1⟩ ⟨h0', h1'⟩
  rw [hc, hc', dot_comm]

/-! ### "relative position angle equals the dot/cross-product value …, antisymmetric" -/

/-- The position angle of body 1 relative to body 2 is the argument of (north, east) components of body 1 in the
    tangent frame at body 2 (i.e. `atan2(u₁·east₂, u₁·north₂)`), in (-180°, 180°] — for every pair of directions. -/
theorem position_angle_eq_arg (α1 δ1 α2 δ2 : ℝ) :
    rad (relative_position_angle α1 δ1 α2 δ2)
        = Complex.arg ⟨dot (dir α1 δ1) (northV α2 δ2), dot (dir α1 δ1) (eastV α2)⟩ ∧
      -180 < relative_position_angle α1 δ1 α2 δ2 ∧ relative_position_angle α1 δ1 α2 δ2 ≤ 180 :=
  ⟨rpa_spec α1 δ1 α2 δ2, rpa_range α1 δ1 α2 δ2⟩

/-- Antisymmetry, first exact sense: exchanging the two right ascensions (a mirror image) negates the angle. -/
theorem position_angle_mirror (α1 δ1 α2 δ2 : ℝ) (h1 : -90 < δ1 ∧ δ1 < 90) (h : sin (rad α1 - rad α2) ≠ 0) :
    relative_position_angle α2 δ1 α1 δ2 = -relative_position_angle α1 δ1 α2 δ2 :=
  rpa_mirror α1 δ1 α2 δ2 h1 h

/-- Antisymmetry, second exact sense: the two orderings of the bodies give angles of opposite signs
    (their sum is not 0 or ±180° in general: the meridians converge). -/
theorem position_angle_opposite_sign (α1 δ1 α2 δ2 : ℝ) (h1 : -90 < δ1 ∧ δ1 < 90) (h2 : -90 < δ2 ∧ δ2 < 90)
    (h : sin (rad α1 - rad α2) ≠ 0) :
    (relative_position_angle α1 δ1 α2 δ2 < 0 ↔ 0 < relative_position_angle α2 δ2 α1 δ1) ∧
    (0 < relative_position_angle α1 δ1 α2 δ2 ↔ relative_position_angle α2 δ2 α1 δ1 < 0) := by
  have hneg : sin (rad α2 - rad α1) = -sin (rad α1 - rad α2) := by rw [← sin_neg]; congr 1; ring
  constructor
  · constructor
    · intro k1
      apply rpa_pos_of_sin_pos _ _ _ _ h2
      rw [hneg]; linarith [(rpa_neg_iff α1 δ1 α2 δ2 h1).mp k1]
    · intro k2
      apply (rpa_neg_iff α1 δ1 α2 δ2 h1).mpr
      by_contra hc
      have hpos : 0 < sin (rad α1 - rad α2) := lt_of_le_of_ne (not_lt.mp hc) (Ne.symm h)
      have := (rpa_neg_iff α2 δ2 α1 δ1 h2).mpr (by rw [hneg]; linarith)
      linarith
  · constructor
    · intro k1
      apply (rpa_neg_iff α2 δ2 α1 δ1 h2).mpr
      rw [hneg]
      by_contra hc
      have hlt : sin (rad α1 - rad α2) < 0 := by
        rcases lt_or_gt_of_ne h with h' | h'
        · exact h'
        · exfalso; apply hc; linarith
      have := (rpa_neg_iff α1 δ1 α2 δ2 h1).mpr hlt
      linarith
    · intro k2
      apply rpa_pos_of_sin_pos _ _ _ _ h1
      have := (rpa_neg_iff α2 δ2 α1 δ1 h2).mp k2
      rw [hneg] at this; linarith

example : sin (rad 90 - rad 0) ≠ 0 := by
  have : rad 90 - rad 0 = π / 2 := by unfold rad; ring
  rw [this, sin_pi_div_two]; norm_num

/-! ### "the diameter of the smallest circle enclosing three nearby bodies lies between their largest
    mutual separation and 2/√3 times it" -/

/-- With `a` the largest of the three mutual separations (as returned by `angular_separation`) and the strict
    triangle inequality between them, `circle_diameter` never raises and returns `D` with `a ≤ D ≤ 2a/√3`. -/
theorem circle_diameter_bounds (α1 δ1 α2 δ2 α3 δ3 s12 s13 s23 : ℝ)
    (h12 : angular_separation α1 δ1 α2 δ2 = .ok s12) (h13 : angular_separation α1 δ1 α3 δ3 = .ok s13)
    (h23 : angular_separation α2 δ2 α3 δ3 = .ok s23)
    (htri : 2 * max s12 (max s13 s23) < s12 + s13 + s23) :
    ∃ D, circle_diameter α1 δ1 α2 δ2 α3 δ3 = .ok D ∧
      max s12 (max s13 s23) ≤ D ∧ D ≤ 2 / √3 * max s12 (max s13 s23) :=
  circle_diameter_spec α1 δ1 α2 δ2 α3 δ3 s12 s13 s23 h12 h13 h23 htri

/-- The hypotheses of `circle_diameter_bounds` are satisfiable: three mutually perpendicular directions are 90° apart. -/
example : ∃ s, angular_separation 0 0 90 0 = .ok s ∧ angular_separation 0 0 0 90 = .ok s ∧
    angular_separation 90 0 0 90 = .ok s ∧ 2 * max s (max s s) < s + s + s := by
  have h90 : cos (rad 90) = 0 := by
    have : rad 90 = π / 2 := by unfold rad; ring
    rw [this, cos_pi_div_two]
  have key : ∀ a1 d1 a2 d2 : ℝ, dot (dir a1 d1) (dir a2 d2) = 0 → angular_separation a1 d1 a2 d2 = .ok 90 := by
    intro a1 d1 a2 d2 hd
    obtain ⟨θ, h, hc, h0, h1⟩ := angular_separation_spec a1 d1 a2 d2
    rw [h]; congr 1
    apply deg_eq_of_cos_eq ⟨h0, h1⟩ ⟨by norm_num, by norm_num⟩
    rw [hc, hd, h90]
  have r0 : rad 0 = 0 := by unfold rad; ring
  refine ⟨90, key _ _ _ _ ?_, key _ _ _ _ ?_, key _ _ _ _ ?_, by norm_num⟩ <;>
    simp [dot, dir, r0, h90]

/-! ### growth round: `straight_line` (was tied and range-checked only), independence of the argument order -/

/-- `straight_line`: for EVERY six Angles the call either returns `(psi, omega)` with `psi` in [0°, 180°] and `omega`
    in [-90°, 90°], or raises ZeroDivisionError — and it raises exactly when one of the two denominators
    `|l₁×…|·|l₂×…|`, `|u₂|·|l₃×…|` is zero (two of the bodies coincide or are antipodal).  In particular no ValueError:
    the clamp `max(-1, min(1, ·))` keeps `acos` / `asin` inside their domain also for bodies exactly in line. -/
theorem straight_line_total (α1 δ1 α2 δ2 α3 δ3 : ℝ) :
    ∃ n1 d1 n2 d2 : ℝ, straight_line α1 δ1 α2 δ2 α3 δ3 = sl_tail n1 d1 n2 d2 ∧
      ((∃ psi omega, straight_line α1 δ1 α2 δ2 α3 δ3 = .ok (psi, omega) ∧ (0 ≤ psi ∧ psi ≤ 180) ∧
          (-90 ≤ omega ∧ omega ≤ 90) ∧ d1 ≠ 0 ∧ d2 ≠ 0) ∨
       (straight_line α1 δ1 α2 δ2 α3 δ3 = .error .zeroDivisionError ∧ (d1 = 0 ∨ d2 = 0))) := by
  obtain ⟨n1, d1, n2, d2, h⟩ := straight_line_eq_tail α1 δ1 α2 δ2 α3 δ3
  exact ⟨n1, d1, n2, d2, h, by rw [h]; exact sl_tail_total n1 d1 n2 d2⟩

/-- The clamp of `straight_line` is the identity on [-1, 1] and saturates outside: `max(-1, min(1, q))`. -/
theorem straight_line_clamp (q : ℝ) : |pmax2 (-1.0) (pmin2 1.0 q)| ≤ 1 := clamp_abs_le_one q

/-- `circle_diameter` does not depend on the order in which the three bodies are given: exchanging bodies 1 and 2, or
    bodies 2 and 3 (these generate all six orders), returns the same result — value or exception — for every input,
    ties between the three separations included.  (The choice of "the largest of the three" is a symmetric function.) -/
theorem circle_diameter_order_independent (α1 δ1 α2 δ2 α3 δ3 : ℝ) :
    circle_diameter α1 δ1 α2 δ2 α3 δ3 = circle_diameter α2 δ2 α1 δ1 α3 δ3 ∧
    circle_diameter α1 δ1 α2 δ2 α3 δ3 = circle_diameter α1 δ1 α3 δ3 α2 δ2 :=
  ⟨circle_diameter_swap12 α1 δ1 α2 δ2 α3 δ3, circle_diameter_swap23 α1 δ1 α2 δ2 α3 δ3⟩

end Pymeeus.C05
