import Pymeeus.Refine.Ellipsoid
import Pymeeus.Refine.Parallax
import Pymeeus.Refine.ParallaxEcl
/-!
# C18 — Earth ellipsoid quantities and surface distance satisfy their identities

Theorems about the real-number instantiation `Pymeeus.GenR.Ellipsoid` of `templates/Ellipsoid.lean` (the model of
`Ellipsoid`, `Earth.rho_sinphi`, `rho_cosphi`, `rp`, `linear_velocity`, `rm`, `distance` of pymeeus/Earth.py), for
EVERY ellipsoid with `a > 0`, `0 ≤ f < 1` (`Valid el`) and every latitude.  Latitudes and longitudes are degree values;
`pradians x = x * (π/180)`.
-/
noncomputable section
namespace Pymeeus.C18
open Pymeeus Pymeeus.PR Pymeeus.GenR.Kepler Pymeeus.GenR.Ellipsoid Pymeeus.Refine.Kepler Pymeeus.Refine.Ellipsoid
  Pymeeus.Refine.Parallax Real Filter Topology

/-! ## The ellipsoid -/

/-- `Ellipsoid.b` and `Ellipsoid.e`: `b = a (1 − f)` and the eccentricity satisfies `e² = 1 − (b/a)²`. -/
theorem ellipsoid_b_e {el : Ell} (h : Valid el) :
    el.b = el.a * (1 - el.f) ∧ ∃ e, el.e = .ok e ∧ 0 ≤ e ∧ e ^ 2 = 1 - (el.b / el.a) ^ 2 := by
  refine ⟨b_eq el, _, e_eq h, Real.sqrt_nonneg _, ?_⟩
  rw [sq, e_sq h, b_eq]
  have := h.a_pos.ne'
  field_simp

/-! ## Geocentric coordinates of the observer -/

/-- "the observer's geocentric coordinates at sea level lie on the meridian ellipse
    (rho cos phi')^2 + (rho sin phi' * a/b)^2 = 1" — for every valid ellipsoid and every latitude (the identity is
    `cos² u + sin² u = 1` with `u = atan((b/a) tan φ)`). -/
theorem on_ellipse {el : Ell} (h : Valid el) (lat : ℝ) :
    ∃ c s, rho_cosphi el lat 0 = .ok c ∧ rho_sinphi el lat 0 = .ok s ∧ c ^ 2 + (s * (el.a / el.b)) ^ 2 = 1 := by
  refine ⟨_, _, rho_cosphi_eq h lat 0, rho_sinphi_eq h lat 0, ?_⟩
  have hb := b_pos h
  have h1f : (1 - el.f) ≠ 0 := by linarith [h.f_lt_one]
  have hab : (1 - el.f) * (el.a / el.b) = 1 := by
    rw [b_eq]; field_simp [h.a_pos.ne']
  set u := Real.arctan ((1 - el.f) * Real.tan (pradians lat))
  have : ((1 - el.f) * Real.sin u + 0 / el.a * Real.sin (pradians lat)) * (el.a / el.b) = Real.sin u := by
    rw [zero_div, zero_mul, add_zero, mul_assoc, mul_comm (Real.sin u), ← mul_assoc, hab, one_mul]
  rw [this, zero_div, zero_mul, add_zero, add_comm]
  exact Real.sin_sq_add_cos_sq u

/-- "height adds h/a times (cos phi, sin phi)". -/
theorem height_term {el : Ell} (h : Valid el) (lat height : ℝ) :
    ∃ c s c0 s0, rho_cosphi el lat height = .ok c ∧ rho_sinphi el lat height = .ok s ∧
      rho_cosphi el lat 0 = .ok c0 ∧ rho_sinphi el lat 0 = .ok s0 ∧
      c = c0 + height / el.a * Real.cos (pradians lat) ∧ s = s0 + height / el.a * Real.sin (pradians lat) := by
  refine ⟨_, _, _, _, rho_cosphi_eq h lat height, rho_sinphi_eq h lat height, rho_cosphi_eq h lat 0,
    rho_sinphi_eq h lat 0, ?_, ?_⟩ <;> ring

/-- "the parallel radius equals a * rho cos phi'" for `|φ| < 90°` (`cos φ > 0`): the two differently coded formulas
    `a cos φ / sqrt(1 − e² sin² φ)` and `a cos(atan((1−f) tan φ))` agree, using `e² = 2f − f²` and
    `cos(atan x) = 1/sqrt(1+x²)`. -/
theorem parallel_radius {el : Ell} (h : Valid el) {lat : ℝ} (hlat : 0 < Real.cos (pradians lat)) :
    ∃ r c, rp el lat = .ok r ∧ rho_cosphi el lat 0 = .ok c ∧ r = el.a * c := by
  refine ⟨_, _, rp_eq h lat, rho_cosphi_eq h lat 0, ?_⟩
  set x := pradians lat
  have hb := base_pos h x
  rw [zero_div, zero_mul, add_zero, Real.cos_arctan, Real.tan_eq_sin_div_cos]
  have hc2 : 0 < Real.cos x ^ 2 := by positivity
  have harg : 1 + ((1 - el.f) * (Real.sin x / Real.cos x)) ^ 2
      = (Real.cos x ^ 2 + (1 - el.f) ^ 2 * Real.sin x ^ 2) / Real.cos x ^ 2 := by
    field_simp
  rw [harg, Real.sqrt_div hb.le, Real.sqrt_sq hlat.le]
  have hs := Real.sqrt_pos.mpr hb
  field_simp

/-- "linear speed is angular velocity times parallel radius". -/
theorem linear_velocity_is_omega_rp {el : Ell} (h : Valid el) (lat : ℝ) :
    ∃ v r, linear_velocity el lat = .ok v ∧ rp el lat = .ok r ∧ v = el.omega * r :=
  ⟨_, _, linear_velocity_eq h lat, rp_eq h lat, rfl⟩


/-- Boundary values of the parallel radius: `rp = a` on the equator and `rp = 0` at both poles (hence the linear
    speed is `ω a` on the equator and 0 at the poles). -/
theorem rp_equator_and_poles {el : Ell} (h : Valid el) :
    rp el 0 = .ok el.a ∧ rp el 90 = .ok 0 ∧ rp el (-90) = .ok 0 ∧
    linear_velocity el 0 = .ok (el.omega * el.a) ∧ linear_velocity el 90 = .ok 0 := by
  have h0 : pradians 0 = 0 := by simp [pradians]
  have hp : pradians 90 = π / 2 := by unfold pradians; ring
  have hn : pradians (-90) = -(π / 2) := by unfold pradians; ring
  refine ⟨?_, ?_, ?_, ?_, ?_⟩
  · rw [rp_eq h, h0, Real.cos_zero, Real.sin_zero]; congr 1; simp
  · rw [rp_eq h, hp, Real.cos_pi_div_two]; congr 1; simp
  · rw [rp_eq h, hn, Real.cos_neg, Real.cos_pi_div_two]; congr 1; simp
  · rw [linear_velocity_eq h, h0, Real.cos_zero, Real.sin_zero]; congr 1; simp
  · rw [linear_velocity_eq h, hp, Real.cos_pi_div_two]; congr 1; simp

/-- `Earth.rho` (Meeus' trigonometric series for the IAU 1976 ellipsoid): it is even in the latitude, equals exactly 1
    on the equator, `0.9966472` at the poles — the ratio `b/a = 1 − 1/298.257` of IAU76 to 1e-7 — and stays between
    these two values for every latitude. -/
theorem rho_series (lat : ℝ) :
    rho (-lat) = rho lat ∧ rho 0 = 1 ∧ rho 90 = 0.9966472 ∧ |rho 90 - IAU76.b / IAU76.a| < 1e-7 ∧
    0.9966472 ≤ rho lat ∧ rho lat ≤ 1 := by
  have hneg : pradians (-lat) = -pradians lat := by unfold pradians; ring
  have h0 : pradians 0 = 0 := by simp [pradians]
  have h90 : rho 90 = 0.9966472 := by
    have hp2 : 2.0 * pradians 90 = π := by unfold pradians; norm_num; ring
    have hp4 : 4.0 * pradians 90 = 2 * π := by unfold pradians; norm_num; ring
    unfold rho pcos; dsimp only; rw [hp2, hp4, Real.cos_pi, Real.cos_two_pi]; norm_num
  refine ⟨?_, ?_, h90, ?_, ?_, ?_⟩
  · unfold rho pcos; dsimp only; rw [hneg, mul_neg, mul_neg, Real.cos_neg, Real.cos_neg]
  · unfold rho pcos; dsimp only; rw [h0, mul_zero, mul_zero, Real.cos_zero]; norm_num
  · rw [h90, b_eq]; norm_num [IAU76, abs_lt]
  all_goals
    have h4 : Real.cos (4.0 * pradians lat) = 2 * Real.cos (2.0 * pradians lat) ^ 2 - 1 := by
      rw [show (4.0 : ℝ) * pradians lat = 2 * (2.0 * pradians lat) by norm_num; ring, Real.cos_two_mul]
    have hx1 := Real.neg_one_le_cos (2.0 * pradians lat)
    have hx2 := Real.cos_le_one (2.0 * pradians lat)
    unfold rho pcos; dsimp only; rw [h4]
    norm_num
    nlinarith

/-! ## Meridian radius of curvature -/

/-- "the meridian radius of curvature runs from b^2/a at the equator …" -/
theorem rm_equator {el : Ell} (h : Valid el) : rm el 0 = .ok (el.b ^ 2 / el.a) := by
  rw [rm_eq h, b_eq]
  have : pradians 0 = 0 := by simp [pradians]
  rw [this, Real.cos_zero, Real.sin_zero]
  congr 1
  have ha := h.a_pos.ne'
  norm_num
  field_simp

/-- "… to a^2/b at the poles" (both poles). -/
theorem rm_poles {el : Ell} (h : Valid el) : rm el 90 = .ok (el.a ^ 2 / el.b) ∧ rm el (-90) = .ok (el.a ^ 2 / el.b) := by
  have hpos : 0 < 1 - el.f := by linarith [h.f_lt_one]
  have hp : pradians 90 = π / 2 := by unfold pradians; ring
  have hn : pradians (-90) = -(π / 2) := by unfold pradians; ring
  have hpow : ((1 - el.f) ^ 2) ^ (1.5 : ℝ) = (1 - el.f) ^ 3 := by
    rw [← Real.rpow_natCast, ← Real.rpow_mul hpos.le, ← Real.rpow_natCast]
    norm_num
  have hval : el.a * (1 - el.f) ^ 2 / (1 - el.f) ^ 3 = el.a ^ 2 / el.b := by
    rw [b_eq]; have := h.a_pos.ne'; field_simp
  have h15 : (1.5 : ℝ) = 3 / 2 := by norm_num
  rw [h15] at hpow
  constructor
  · rw [rm_eq h, hp, Real.cos_pi_div_two, Real.sin_pi_div_two]
    congr 1; norm_num; rw [hpow, hval]
  · rw [rm_eq h, hn, Real.cos_neg, Real.sin_neg, Real.cos_pi_div_two, Real.sin_pi_div_two]
    congr 1; norm_num; rw [hpow, hval]

/-- `rm` is monotone in `|φ|` between the equator and the poles. -/
theorem rm_monotone {el : Ell} (h : Valid el) {lat1 lat2 : ℝ} (h12 : |lat1| ≤ |lat2|) (h2 : |lat2| ≤ 90) :
    ∃ r1 r2, rm el lat1 = .ok r1 ∧ rm el lat2 = .ok r2 ∧ r1 ≤ r2 ∧ el.b ^ 2 / el.a ≤ r1 ∧ r2 ≤ el.a ^ 2 / el.b := by
  have hpi := Real.pi_pos
  have hpos : 0 < 1 - el.f := by linarith [h.f_lt_one]
  have hle1 : (1 - el.f) ^ 2 ≤ 1 := by nlinarith [h.f_nonneg]
  -- sin² is monotone in |φ| on [0, 90°]
  have sinsq_abs : ∀ x : ℝ, Real.sin (pradians x) ^ 2 = Real.sin (pradians |x|) ^ 2 := by
    intro x
    rcases abs_choice x with hx | hx <;> rw [hx]
    have : pradians (-x) = -pradians x := by unfold pradians; ring
    rw [this, Real.sin_neg, neg_sq]
  have sin_mono : ∀ x y : ℝ, 0 ≤ x → x ≤ y → y ≤ 90 → Real.sin (pradians x) ^ 2 ≤ Real.sin (pradians y) ^ 2 := by
    intro x y hx hxy hy
    have h0 : 0 ≤ Real.sin (pradians x) := by
      apply Real.sin_nonneg_of_nonneg_of_le_pi <;> unfold pradians <;> nlinarith
    have : Real.sin (pradians x) ≤ Real.sin (pradians y) := by
      apply Real.sin_le_sin_of_le_of_le_pi_div_two <;> unfold pradians <;> nlinarith
    nlinarith
  have hs12 : Real.sin (pradians lat1) ^ 2 ≤ Real.sin (pradians lat2) ^ 2 := by
    rw [sinsq_abs lat1, sinsq_abs lat2]; exact sin_mono _ _ (abs_nonneg _) h12 h2
  have base_of : ∀ x : ℝ, Real.cos x ^ 2 + (1 - el.f) ^ 2 * Real.sin x ^ 2 = 1 - (1 - (1 - el.f) ^ 2) * Real.sin x ^ 2 := by
    intro x; nlinarith [Real.sin_sq_add_cos_sq x]
  have hb1 := base_pos h (pradians lat1)
  have hb2 := base_pos h (pradians lat2)
  have hbase : Real.cos (pradians lat2) ^ 2 + (1 - el.f) ^ 2 * Real.sin (pradians lat2) ^ 2
      ≤ Real.cos (pradians lat1) ^ 2 + (1 - el.f) ^ 2 * Real.sin (pradians lat1) ^ 2 := by
    rw [base_of, base_of]; nlinarith
  have hpw : (Real.cos (pradians lat2) ^ 2 + (1 - el.f) ^ 2 * Real.sin (pradians lat2) ^ 2) ^ (1.5 : ℝ)
      ≤ (Real.cos (pradians lat1) ^ 2 + (1 - el.f) ^ 2 * Real.sin (pradians lat1) ^ 2) ^ (1.5 : ℝ) :=
    Real.rpow_le_rpow hb2.le hbase (by norm_num)
  have hnum : 0 < el.a * (1 - el.f) ^ 2 := by have := h.a_pos; positivity
  have hp1 := Real.rpow_pos_of_pos hb1 (1.5 : ℝ)
  have hp2 := Real.rpow_pos_of_pos hb2 (1.5 : ℝ)
  -- the extreme values
  have hpow : ((1 - el.f) ^ 2) ^ (1.5 : ℝ) = (1 - el.f) ^ 3 := by
    rw [← Real.rpow_natCast, ← Real.rpow_mul hpos.le, ← Real.rpow_natCast]
    norm_num
  have hlo : (Real.cos (pradians lat1) ^ 2 + (1 - el.f) ^ 2 * Real.sin (pradians lat1) ^ 2) ^ (1.5 : ℝ) ≤ 1 := by
    have : Real.cos (pradians lat1) ^ 2 + (1 - el.f) ^ 2 * Real.sin (pradians lat1) ^ 2 ≤ 1 := by
      rw [base_of]; nlinarith [sq_nonneg (Real.sin (pradians lat1))]
    calc _ ≤ (1 : ℝ) ^ (1.5 : ℝ) := Real.rpow_le_rpow hb1.le this (by norm_num)
      _ = 1 := Real.one_rpow _
  have hhi : (1 - el.f) ^ 3 ≤ (Real.cos (pradians lat2) ^ 2 + (1 - el.f) ^ 2 * Real.sin (pradians lat2) ^ 2) ^ (1.5 : ℝ) := by
    have : (1 - el.f) ^ 2 ≤ Real.cos (pradians lat2) ^ 2 + (1 - el.f) ^ 2 * Real.sin (pradians lat2) ^ 2 := by
      rw [base_of]; nlinarith [Real.sin_sq_le_one (pradians lat2)]
    rw [← hpow]; exact Real.rpow_le_rpow (by positivity) this (by norm_num)
  refine ⟨_, _, rm_eq h lat1, rm_eq h lat2, ?_, ?_, ?_⟩
  · exact div_le_div_of_nonneg_left hnum.le hp2 hpw
  · rw [b_eq]
    have : (el.a * (1 - el.f)) ^ 2 / el.a = el.a * (1 - el.f) ^ 2 / 1 := by
      have := h.a_pos.ne'; field_simp
    rw [this]
    exact div_le_div_of_nonneg_left hnum.le hp1 hlo
  · have : el.a ^ 2 / el.b = el.a * (1 - el.f) ^ 2 / (1 - el.f) ^ 3 := by
      rw [b_eq]; have := h.a_pos.ne'; field_simp
    rw [this]
    exact div_le_div_of_nonneg_left hnum.le (by positivity) hhi

/-! ## Surface distance (Andoyer) -/

/-- "Surface distance is symmetric": exchanging the two points gives the same result (value or exception), for
    every ellipsoid and all coordinates — every term depends on the points through `(φ₁+φ₂)`, `(φ₁−φ₂)²`-even and
    `(λ₁−λ₂)`-even quantities only. -/
theorem distance_symmetric (el : Ell) (lon1 lat1 lon2 lat2 : ℝ) :
    distance el lon1 lat1 lon2 lat2 = distance el lon2 lat2 lon1 lat1 := by
  rw [distance_eq_andoyer, distance_eq_andoyer]
  have hg : (pradians lat2 - pradians lat1) / 2 = -((pradians lat1 - pradians lat2) / 2) := by ring
  have hl : (pradians lon2 - pradians lon1) / 2 = -((pradians lon1 - pradians lon2) / 2) := by ring
  have hf : (pradians lat2 + pradians lat1) / 2 = (pradians lat1 + pradians lat2) / 2 := by ring
  rw [hg, hl, hf, Real.sin_neg, Real.cos_neg, Real.sin_neg, Real.cos_neg, neg_sq, neg_sq]

/-- "zero for coincident points": `distance(p, p) = (0, 0)` (the early return added by the repair 25dc7e6). -/
theorem distance_coincident (el : Ell) (lon lat : ℝ) : distance el lon lat lon lat = .ok (0, 0) := by
  rw [distance_eq_andoyer]
  apply andoyer_zero
  simp

/-- "equals a times the longitude difference along the equator" for `|Δλ| < 180°`: there the Andoyer correction
    terms vanish (`sin² F = 0`, `sin² G = 0`) and `ω = |Δλ|/2` exactly. -/
theorem distance_equator {el : Ell} (lon1 lon2 : ℝ) (hd : |lon1 - lon2| < 180) :
    ∃ d err, distance el lon1 0 lon2 0 = .ok (d, err) ∧ d = el.a * |pradians lon1 - pradians lon2| := by
  have hpi := Real.pi_pos
  rw [distance_eq_andoyer]
  have h0 : pradians 0 = 0 := by simp [pradians]
  simp only [h0, sub_self, add_zero, zero_div, Real.sin_zero, Real.cos_zero]
  set lam := (pradians lon1 - pradians lon2) / 2 with hlam
  have hlam2 : pradians lon1 - pradians lon2 = 2 * lam := by rw [hlam]; ring
  have habs : |lam| < π / 2 := by
    have : lam = (lon1 - lon2) * (π / 360) := by rw [hlam]; unfold pradians; ring
    rw [this, abs_mul, abs_of_pos (by positivity : (0:ℝ) < π / 360)]
    calc |lon1 - lon2| * (π / 360) < 180 * (π / 360) := mul_lt_mul_of_pos_right hd (by positivity)
      _ = π / 2 := by ring
  by_cases hz : lam = 0
  · refine ⟨0, 0, ?_, ?_⟩
    · apply andoyer_zero; rw [hz]; simp
    · rw [hlam2, hz]; simp
  · have hcos : 0 < Real.cos lam := Real.cos_pos_of_mem_Ioo ⟨by linarith [(abs_lt.mp habs).1], (abs_lt.mp habs).2⟩
    have hsin : Real.sin lam ≠ 0 := by
      intro hs
      have := Real.sin_eq_zero_iff_of_lt_of_lt (x := lam) (by linarith [(abs_lt.mp habs).1]) (by linarith [(abs_lt.mp habs).2])
      exact hz (this.mp hs)
    have hs : 0 < (0:ℝ) ^ 2 * Real.cos lam ^ 2 + 1 ^ 2 * Real.sin lam ^ 2 := by
      have : 0 < Real.sin lam ^ 2 := by positivity
      nlinarith
    have hc : 0 < (1:ℝ) ^ 2 * Real.cos lam ^ 2 + 0 ^ 2 * Real.sin lam ^ 2 := by
      have : 0 < Real.cos lam ^ 2 := by positivity
      nlinarith
    rw [andoyer_ok el.a el.f hs hc]
    refine ⟨_, _, rfl, ?_⟩
    -- ω = atan(sqrt(sin²λ/cos²λ)) = |λ|
    have hratio : ((0:ℝ) ^ 2 * Real.cos lam ^ 2 + 1 ^ 2 * Real.sin lam ^ 2) / (1 ^ 2 * Real.cos lam ^ 2 + 0 ^ 2 * Real.sin lam ^ 2)
        = Real.tan lam ^ 2 := by
      rw [Real.tan_eq_sin_div_cos]; field_simp; ring
    have hom : Real.arctan (Real.sqrt (Real.tan lam ^ 2)) = |lam| := by
      rw [Real.sqrt_sq_eq_abs]
      rcases abs_choice lam with hl | hl
      · have hl0 : 0 ≤ lam := abs_eq_self.mp hl
        have : 0 ≤ Real.tan lam := Real.tan_nonneg_of_nonneg_of_le_pi_div_two hl0 (by linarith [(abs_lt.mp habs).2])
        rw [abs_of_nonneg this, hl]
        exact Real.arctan_tan (by linarith) (abs_lt.mp habs).2
      · have hl0 : lam ≤ 0 := abs_eq_neg_self.mp hl
        have : Real.tan lam ≤ 0 := Real.tan_nonpos_of_nonpos_of_neg_pi_div_two_le hl0 (by linarith [(abs_lt.mp habs).1])
        rw [abs_of_nonpos this, hl, ← Real.tan_neg]
        exact Real.arctan_tan (by linarith [(abs_lt.mp habs).2]) (by linarith [(abs_lt.mp habs).1])
    simp only [hratio, hom]
    rw [hlam2, abs_mul, abs_of_pos (by norm_num : (0:ℝ) < 2)]
    ring

/-- The result depends on the longitudes only through their difference modulo a whole turn: adding 360° to either
    longitude changes nothing (value or exception).  (Pins the unit of any "short way round" wrap: a wrap by 360
    applied to the radian value would break this.) -/
theorem distance_longitude_periodic (el : Ell) (lon1 lat1 lon2 lat2 : ℝ) :
    distance el (lon1 + 360) lat1 lon2 lat2 = distance el lon1 lat1 lon2 lat2 ∧
    distance el lon1 lat1 (lon2 + 360) lat2 = distance el lon1 lat1 lon2 lat2 := by
  have h1 : (pradians (lon1 + 360) - pradians lon2) / 2 = (pradians lon1 - pradians lon2) / 2 + π := by
    unfold pradians; ring
  have h2 : (pradians lon1 - pradians (lon2 + 360)) / 2 = (pradians lon1 - pradians lon2) / 2 - π := by
    unfold pradians; ring
  constructor
  · rw [distance_eq_andoyer, distance_eq_andoyer, h1, Real.sin_add_pi, Real.cos_add_pi, neg_sq, neg_sq]
  · rw [distance_eq_andoyer, distance_eq_andoyer, h2, Real.sin_sub_pi, Real.cos_sub_pi, neg_sq, neg_sq]

/-- Haversine structure of the two auxiliary quantities of `Earth.distance`: with `F = (φ₁+φ₂)/2`, `G = (φ₁−φ₂)/2`,
    `L = (λ₁−λ₂)/2`, `s = sin²G cos²L + cos²F sin²L` and `c = cos²G cos²L + sin²F sin²L` satisfy `s + c = 1` for all
    inputs, so `0 ≤ s ≤ 1`, `c = 0` exactly for antipodal points, and `ω = atan sqrt(s/c) = asin sqrt(s)` is half the
    spherical distance (haversine formula). -/
theorem haversine_identity (F G L : ℝ) :
    (Real.sin G ^ 2 * Real.cos L ^ 2 + Real.cos F ^ 2 * Real.sin L ^ 2)
      + (Real.cos G ^ 2 * Real.cos L ^ 2 + Real.sin F ^ 2 * Real.sin L ^ 2) = 1 ∧
    (0 < Real.cos G ^ 2 * Real.cos L ^ 2 + Real.sin F ^ 2 * Real.sin L ^ 2 →
      Real.arctan (Real.sqrt ((Real.sin G ^ 2 * Real.cos L ^ 2 + Real.cos F ^ 2 * Real.sin L ^ 2)
          / (Real.cos G ^ 2 * Real.cos L ^ 2 + Real.sin F ^ 2 * Real.sin L ^ 2)))
        = Real.arcsin (Real.sqrt (Real.sin G ^ 2 * Real.cos L ^ 2 + Real.cos F ^ 2 * Real.sin L ^ 2))) := by
  have h := s_add_c F G L
  refine ⟨h, fun hc => ?_⟩
  have hs0 : 0 ≤ Real.sin G ^ 2 * Real.cos L ^ 2 + Real.cos F ^ 2 * Real.sin L ^ 2 := by positivity
  have hc' : Real.cos G ^ 2 * Real.cos L ^ 2 + Real.sin F ^ 2 * Real.sin L ^ 2
      = 1 - (Real.sin G ^ 2 * Real.cos L ^ 2 + Real.cos F ^ 2 * Real.sin L ^ 2) := by linarith
  rw [hc']
  exact arctan_sqrt_ratio hs0 (by linarith)

/-- `Earth.distance` IS Andoyer's formula, for every ellipsoid and every pair of points that is neither coincident
    (`s = 0`) nor antipodal (`c = 0`): `dist = 2 ω a (1 + f (H₁ sin²F cos²G − H₂ cos²F sin²G))`, `ω = atan sqrt(s/c)`,
    `R = sqrt(s c)/ω`, `H₁ = (3R−1)/(2c)`, `H₂ = (3R+1)/(2s)`, and the error estimate is `round(dist f², 0)` — with NO
    other case distinction: in particular no threshold on `s` (two points 1 m apart are not "coincident") and no
    special branch near the antipode. -/
theorem distance_is_andoyer (el : Ell) (lon1 lat1 lon2 lat2 : ℝ) :
    let F := (pradians lat1 + pradians lat2) / 2
    let G := (pradians lat1 - pradians lat2) / 2
    let L := (pradians lon1 - pradians lon2) / 2
    let s := Real.sin G ^ 2 * Real.cos L ^ 2 + Real.cos F ^ 2 * Real.sin L ^ 2
    let c := Real.cos G ^ 2 * Real.cos L ^ 2 + Real.sin F ^ 2 * Real.sin L ^ 2
    let ω := Real.arctan (Real.sqrt (s / c))
    let R := Real.sqrt (s * c) / ω
    let H1 := (3 * R - 1) / (2 * c)
    let H2 := (3 * R + 1) / (2 * s)
    let d := 2 * ω * el.a * (1 + el.f * (H1 * Real.sin F ^ 2 * Real.cos G ^ 2 - H2 * Real.cos F ^ 2 * Real.sin G ^ 2))
    (s = 0 → distance el lon1 lat1 lon2 lat2 = .ok (0, 0)) ∧
    (s ≠ 0 → c = 0 → distance el lon1 lat1 lon2 lat2 = .error .zeroDivisionError) ∧
    (0 < s → 0 < c → distance el lon1 lat1 lon2 lat2 = .ok (d, pround0 (d * el.f * el.f))) := by
  intro F G L s c ω R H1 H2 d
  rw [distance_eq_andoyer]
  refine ⟨fun h => andoyer_zero _ _ h, fun hs hc => andoyer_antipodal _ _ hs hc, fun hs hc => ?_⟩
  rw [andoyer_ok el.a el.f hs hc]

/-- "stays within 0.6 % of the great-circle distance" — PARTIAL.  Proved, for every valid ellipsoid and every pair of
    points that is neither coincident nor antipodal: the result lies between `(1 − 2.5 f)` and `(1 + f)` times the
    great-circle distance `2 ω a` on the sphere of radius `a` (`ω = asin sqrt(s)`, haversine), because Andoyer's
    correction term lies in `[-5/2, 1]` (`R = sin 2ω / 2ω ∈ (0, 1]`, `sin²F cos²G ≤ c`, `cos²F sin²G ≤ s`).  For the
    built-in ellipsoids this is 0.84 % / 0.34 %.
    NOT proved (evaluated on the implementation by the harness): the statement's 0.6 %, which holds only against
    the sphere of MEAN radius (2a+b)/3 and needs the joint range of the two terms, not the separate ranges used here. -/
theorem distance_near_great_circle_partial {el : Ell} (h : Valid el) (lon1 lat1 lon2 lat2 : ℝ) :
    let F := (pradians lat1 + pradians lat2) / 2
    let G := (pradians lat1 - pradians lat2) / 2
    let L := (pradians lon1 - pradians lon2) / 2
    let s := Real.sin G ^ 2 * Real.cos L ^ 2 + Real.cos F ^ 2 * Real.sin L ^ 2
    let c := Real.cos G ^ 2 * Real.cos L ^ 2 + Real.sin F ^ 2 * Real.sin L ^ 2
    0 < s → 0 < c →
    ∃ d err, distance el lon1 lat1 lon2 lat2 = .ok (d, err) ∧
      (1 - 5 / 2 * el.f) * (2 * Real.arcsin (Real.sqrt s) * el.a) ≤ d ∧
      d ≤ (1 + el.f) * (2 * Real.arcsin (Real.sqrt s) * el.a) ∧ 0 < Real.arcsin (Real.sqrt s) := by
  intro F G L s c hs hc
  have hsc : s + c = 1 := s_add_c F G L
  obtain ⟨hR0, hR1⟩ := R_range hs hc hsc
  obtain ⟨hP, hQ⟩ := PQ_le F G L
  have hcorr := correction_range (P := Real.sin F ^ 2 * Real.cos G ^ 2) (Q := Real.cos F ^ 2 * Real.sin G ^ 2)
    hs hc (by positivity) hP (by positivity) hQ hR0 hR1
  have hom : Real.arctan (Real.sqrt (s / c)) = Real.arcsin (Real.sqrt s) := by
    have hc' : c = 1 - s := by linarith
    rw [hc']; exact arctan_sqrt_ratio hs.le (by linarith)
  have hpos : 0 < Real.arcsin (Real.sqrt s) := Real.arcsin_pos.mpr (Real.sqrt_pos.mpr hs)
  obtain ⟨_, _, hform⟩ := distance_is_andoyer el lon1 lat1 lon2 lat2
  refine ⟨_, _, hform hs hc, ?_, ?_, hpos⟩
  · rw [hom] at hcorr ⊢
    have hA : 0 < 2 * Real.arcsin (Real.sqrt s) * el.a := by have := h.a_pos; positivity
    have hf := h.f_nonneg
    obtain ⟨lo, _⟩ := hcorr
    have e : (3 * (Real.sqrt (s * c) / Real.arcsin (Real.sqrt s)) - 1) / (2 * c) * Real.sin F ^ 2 * Real.cos G ^ 2
        - (3 * (Real.sqrt (s * c) / Real.arcsin (Real.sqrt s)) + 1) / (2 * s) * Real.cos F ^ 2 * Real.sin G ^ 2
        = (3 * (Real.sqrt (s * c) / Real.arcsin (Real.sqrt s)) - 1) / (2 * c) * (Real.sin F ^ 2 * Real.cos G ^ 2)
        - (3 * (Real.sqrt (s * c) / Real.arcsin (Real.sqrt s)) + 1) / (2 * s) * (Real.cos F ^ 2 * Real.sin G ^ 2) := by ring
    rw [e]
    nlinarith [mul_nonneg hf hA.le]
  · rw [hom] at hcorr ⊢
    have hA : 0 < 2 * Real.arcsin (Real.sqrt s) * el.a := by have := h.a_pos; positivity
    have hf := h.f_nonneg
    obtain ⟨_, hi⟩ := hcorr
    have e : (3 * (Real.sqrt (s * c) / Real.arcsin (Real.sqrt s)) - 1) / (2 * c) * Real.sin F ^ 2 * Real.cos G ^ 2
        - (3 * (Real.sqrt (s * c) / Real.arcsin (Real.sqrt s)) + 1) / (2 * s) * Real.cos F ^ 2 * Real.sin G ^ 2
        = (3 * (Real.sqrt (s * c) / Real.arcsin (Real.sqrt s)) - 1) / (2 * c) * (Real.sin F ^ 2 * Real.cos G ^ 2)
        - (3 * (Real.sqrt (s * c) / Real.arcsin (Real.sqrt s)) + 1) / (2 * s) * (Real.cos F ^ 2 * Real.sin G ^ 2) := by ring
    rw [e]
    nlinarith [mul_nonneg hf hA.le]

/-- "stays within 0.6 % of the great-circle distance" — the clause itself, against the sphere of mean radius
    `(2a + b)/3 = a (1 − f/3)`, for every ellipsoid with `0 ≤ f ≤ 0.0035` (both built-in ellipsoids) and EVERY pair of
    points that is neither coincident nor antipodal.  Sharp form for every valid ellipsoid: the result lies between
    `(1 − 2f)` and `(1 + f)` times `2 ω a` — Andoyer's correction lies in `[-2, 1]`, because the two terms satisfy
    `P/c + Q/s ≤ 1` (`s c − P s − Q c = cos²L sin²L (sin²F + sin²G − 1)²`); `1 − 2f` is attained by short north-south
    arcs at the equator. -/
theorem distance_within_0_6_percent_of_great_circle {el : Ell} (h : Valid el) (lon1 lat1 lon2 lat2 : ℝ) :
    let F := (pradians lat1 + pradians lat2) / 2
    let G := (pradians lat1 - pradians lat2) / 2
    let L := (pradians lon1 - pradians lon2) / 2
    let s := Real.sin G ^ 2 * Real.cos L ^ 2 + Real.cos F ^ 2 * Real.sin L ^ 2
    let c := Real.cos G ^ 2 * Real.cos L ^ 2 + Real.sin F ^ 2 * Real.sin L ^ 2
    let gc := 2 * Real.arcsin (Real.sqrt s) * ((2 * el.a + el.b) / 3)      -- great circle on the mean sphere
    0 < s → 0 < c →
    ∃ d err, distance el lon1 lat1 lon2 lat2 = .ok (d, err) ∧
      (1 - 2 * el.f) * (2 * Real.arcsin (Real.sqrt s) * el.a) ≤ d ∧
      d ≤ (1 + el.f) * (2 * Real.arcsin (Real.sqrt s) * el.a) ∧
      (el.f ≤ 0.0035 → |d - gc| ≤ 0.006 * gc) := by
  intro F G L s c gc hs hc
  have hsc : s + c = 1 := s_add_c F G L
  obtain ⟨hR0, hR1⟩ := R_range hs hc hsc
  have hjoint := PQ_joint F G L
  have hcorr := correction_range_joint (P := Real.sin F ^ 2 * Real.cos G ^ 2) (Q := Real.cos F ^ 2 * Real.sin G ^ 2)
    hs hc (by positivity) (by positivity) hjoint hR0 hR1
  have hom : Real.arctan (Real.sqrt (s / c)) = Real.arcsin (Real.sqrt s) := by
    have hc' : c = 1 - s := by linarith
    rw [hc']; exact arctan_sqrt_ratio hs.le (by linarith)
  have hpos : 0 < Real.arcsin (Real.sqrt s) := Real.arcsin_pos.mpr (Real.sqrt_pos.mpr hs)
  obtain ⟨_, _, hform⟩ := distance_is_andoyer el lon1 lat1 lon2 lat2
  rw [hom] at hcorr
  have hA : 0 < 2 * Real.arcsin (Real.sqrt s) * el.a := by have := h.a_pos; positivity
  have hf := h.f_nonneg
  have e : (3 * (Real.sqrt (s * c) / Real.arcsin (Real.sqrt s)) - 1) / (2 * c) * Real.sin F ^ 2 * Real.cos G ^ 2
      - (3 * (Real.sqrt (s * c) / Real.arcsin (Real.sqrt s)) + 1) / (2 * s) * Real.cos F ^ 2 * Real.sin G ^ 2
      = (3 * (Real.sqrt (s * c) / Real.arcsin (Real.sqrt s)) - 1) / (2 * c) * (Real.sin F ^ 2 * Real.cos G ^ 2)
      - (3 * (Real.sqrt (s * c) / Real.arcsin (Real.sqrt s)) + 1) / (2 * s) * (Real.cos F ^ 2 * Real.sin G ^ 2) := by ring
  obtain ⟨lo, hi⟩ := hcorr
  have hlo : (1 - 2 * el.f) * (2 * Real.arcsin (Real.sqrt s) * el.a)
      ≤ 2 * Real.arctan (Real.sqrt (s / c)) * el.a * (1 + el.f * ((3 * (Real.sqrt (s * c) / Real.arctan (Real.sqrt (s / c))) - 1) / (2 * c) * Real.sin F ^ 2 * Real.cos G ^ 2
        - (3 * (Real.sqrt (s * c) / Real.arctan (Real.sqrt (s / c))) + 1) / (2 * s) * Real.cos F ^ 2 * Real.sin G ^ 2)) := by
    rw [hom, e]; nlinarith [mul_nonneg hf hA.le]
  have hhi : 2 * Real.arctan (Real.sqrt (s / c)) * el.a * (1 + el.f * ((3 * (Real.sqrt (s * c) / Real.arctan (Real.sqrt (s / c))) - 1) / (2 * c) * Real.sin F ^ 2 * Real.cos G ^ 2
        - (3 * (Real.sqrt (s * c) / Real.arctan (Real.sqrt (s / c))) + 1) / (2 * s) * Real.cos F ^ 2 * Real.sin G ^ 2))
      ≤ (1 + el.f) * (2 * Real.arcsin (Real.sqrt s) * el.a) := by
    rw [hom, e]; nlinarith [mul_nonneg hf hA.le]
  refine ⟨_, _, hform hs hc, hlo, hhi, ?_⟩
  intro hf35
  have hgc : gc = (1 - el.f / 3) * (2 * Real.arcsin (Real.sqrt s) * el.a) := by
    show 2 * Real.arcsin (Real.sqrt s) * ((2 * el.a + el.b) / 3) = _
    rw [b_eq]; ring
  rw [hgc, abs_le]
  norm_num at hf35 ⊢
  constructor <;> nlinarith [mul_nonneg hf hA.le]

/-- On a sphere (`f = 0`) the surface distance IS the great-circle (haversine) distance `2 a asin sqrt(s)`. -/
theorem distance_sphere_is_great_circle {el : Ell} (h : Valid el) (hf : el.f = 0) (lon1 lat1 lon2 lat2 : ℝ) :
    let F := (pradians lat1 + pradians lat2) / 2
    let G := (pradians lat1 - pradians lat2) / 2
    let L := (pradians lon1 - pradians lon2) / 2
    let s := Real.sin G ^ 2 * Real.cos L ^ 2 + Real.cos F ^ 2 * Real.sin L ^ 2
    let c := Real.cos G ^ 2 * Real.cos L ^ 2 + Real.sin F ^ 2 * Real.sin L ^ 2
    0 < s → 0 < c →
    ∃ d err, distance el lon1 lat1 lon2 lat2 = .ok (d, err) ∧ d = 2 * Real.arcsin (Real.sqrt s) * el.a := by
  intro F G L s c hs hc
  obtain ⟨d, err, hd, lo, hi, _⟩ := distance_near_great_circle_partial h lon1 lat1 lon2 lat2 hs hc
  refine ⟨d, err, hd, ?_⟩
  rw [hf] at lo hi
  linarith

/-- The hypotheses `0 < s`, `0 < c` are satisfiable: two points 90° apart on the equator (`s = c = 1/2`). -/
example : 0 < Real.sin ((pradians 0 - pradians 0) / 2) ^ 2 * Real.cos ((pradians 0 - pradians 90) / 2) ^ 2
      + Real.cos ((pradians 0 + pradians 0) / 2) ^ 2 * Real.sin ((pradians 0 - pradians 90) / 2) ^ 2 := by
  have h : (pradians 0 - pradians 90) / 2 = -(π / 4) := by unfold pradians; ring
  have h0 : (pradians 0 + pradians 0) / 2 = 0 := by unfold pradians; ring
  rw [h, h0, Real.sin_neg, Real.sin_pi_div_four, Real.cos_zero]
  have : (0:ℝ) < (-(Real.sqrt 2 / 2)) ^ 2 := by
    have h2 : (0:ℝ) < Real.sqrt 2 := Real.sqrt_pos.mpr (by norm_num)
    nlinarith
  nlinarith [sq_nonneg (Real.sin ((pradians 0 - pradians 0) / 2)), sq_nonneg (Real.cos (-(π / 4)))]

/-- "equals … the integral of the meridian radius of curvature along a meridian (1e-4)" — PARTIAL.  Proved, for two
    distinct points of one meridian less than 180° apart: the spherical angle of Andoyer's formula is exactly the
    latitude difference, and the result lies between `(1 − 2.5 f)` and `(1 + f)` times `a |Δφ|`.  Since the meridian
    radius of curvature lies between `b²/a = a(1−f)²` and `a²/b = a/(1−f)` (`rm_monotone`), the meridian arc lies
    between those multiples of `|Δφ|`, so both agree to a few `f`.
    NOT proved (evaluated on the implementation against a quadrature): the 1e-4 of the statement — it needs the
    second-order expansion of the arc integral in `f`, and is false for `f ∈ (0.0099, 0.01]` (listed finding). -/
theorem distance_meridian_partial {el : Ell} (h : Valid el) (lon : ℝ) {lat1 lat2 : ℝ} (hne : lat1 ≠ lat2)
    (hlt : |lat1 - lat2| < 180) :
    ∃ d err, distance el lon lat1 lon lat2 = .ok (d, err) ∧
      (1 - 5 / 2 * el.f) * (el.a * |pradians lat1 - pradians lat2|) ≤ d ∧
      d ≤ (1 + el.f) * (el.a * |pradians lat1 - pradians lat2|) := by
  have hpi := Real.pi_pos
  obtain ⟨G, hG⟩ : ∃ G, G = (pradians lat1 - pradians lat2) / 2 := ⟨_, rfl⟩
  have hGe : G = (lat1 - lat2) * (π / 360) := by rw [hG]; unfold pradians; ring
  have hGabs : |G| < π / 2 := by
    rw [hGe, abs_mul, abs_of_pos (by positivity : (0:ℝ) < π / 360)]
    calc |lat1 - lat2| * (π / 360) < 180 * (π / 360) := mul_lt_mul_of_pos_right hlt (by positivity)
      _ = π / 2 := by ring
  have hG0 : G ≠ 0 := by
    rw [hGe]; exact mul_ne_zero (sub_ne_zero.mpr hne) (by positivity)
  have hcos : 0 < Real.cos G := Real.cos_pos_of_mem_Ioo ⟨(abs_lt.mp hGabs).1, (abs_lt.mp hGabs).2⟩
  have hsin : Real.sin G ≠ 0 := by
    intro hs
    exact hG0 ((Real.sin_eq_zero_iff_of_lt_of_lt (by linarith [(abs_lt.mp hGabs).1]) (by linarith [(abs_lt.mp hGabs).2])).mp hs)
  have hL : (pradians lon - pradians lon) / 2 = 0 := by ring
  have key := distance_near_great_circle_partial h lon lat1 lon lat2
  simp only [hL, Real.sin_zero, Real.cos_zero, ← hG] at key
  have hs : 0 < Real.sin G ^ 2 * 1 ^ 2 + Real.cos ((pradians lat1 + pradians lat2) / 2) ^ 2 * 0 ^ 2 := by
    have : 0 < Real.sin G ^ 2 := by positivity
    nlinarith
  have hc : 0 < Real.cos G ^ 2 * 1 ^ 2 + Real.sin ((pradians lat1 + pradians lat2) / 2) ^ 2 * 0 ^ 2 := by
    have : 0 < Real.cos G ^ 2 := by positivity
    nlinarith
  obtain ⟨d, err, hd, lo, hi, _⟩ := key hs hc
  refine ⟨d, err, hd, ?_, ?_⟩
  all_goals
    have hsq : Real.sin G ^ 2 * 1 ^ 2 + Real.cos ((pradians lat1 + pradians lat2) / 2) ^ 2 * 0 ^ 2 = Real.sin G ^ 2 := by ring
    have hang : Real.arcsin (Real.sqrt (Real.sin G ^ 2)) = |G| := by
      rw [Real.sqrt_sq_eq_abs]
      rcases abs_choice G with hg | hg
      · have : 0 ≤ G := abs_eq_self.mp hg
        rw [hg, abs_of_nonneg (Real.sin_nonneg_of_nonneg_of_le_pi this (by linarith [(abs_lt.mp hGabs).2]))]
        exact Real.arcsin_sin (by linarith) (by linarith [(abs_lt.mp hGabs).2])
      · have hn : G ≤ 0 := abs_eq_neg_self.mp hg
        rw [hg, abs_of_nonpos (Real.sin_nonpos_of_nonpos_of_neg_pi_le hn (by linarith [(abs_lt.mp hGabs).1])), ← Real.sin_neg]
        exact Real.arcsin_sin (by linarith [(abs_lt.mp hGabs).2]) (by linarith [(abs_lt.mp hGabs).1])
    rw [hsq, hang] at lo hi
    have e : el.a * |pradians lat1 - pradians lat2| = 2 * |G| * el.a := by
      have : pradians lat1 - pradians lat2 = 2 * G := by rw [hG]; ring
      rw [this, abs_mul, abs_of_pos (by norm_num : (0:ℝ) < 2)]; ring
    rw [e]
  · exact lo
  · exact hi

/-- Along a meridian Andoyer's formula is EXACTLY the first-order (in `f`) meridian arc: for two distinct points of one
    meridian less than 180° apart, `dist = a [ (1 − f/2) |Δφ| − (3f/2) sin|Δφ| cos(φ₁+φ₂) ]`, which is
    `∫ a (1 − f/2 − (3f/2) cos 2φ) dφ` between the two latitudes — the integrand being the expansion to first order in `f`
    of the meridian radius of curvature `a(1−e²)/(1−e² sin²φ)^(3/2) = a (1 − 2f + 3f sin²φ) + O(f²)`.  So the 1e-4
    clause is an `O(f²)` statement (error `≈ f²` relative; it is evaluated on the implementation). -/
theorem distance_meridian_first_order {el : Ell} (lon : ℝ) {lat1 lat2 : ℝ} (hne : lat1 ≠ lat2) (hlt : |lat1 - lat2| < 180) :
    ∃ d err, distance el lon lat1 lon lat2 = .ok (d, err) ∧
      d = el.a * ((1 - el.f / 2) * |pradians lat1 - pradians lat2|
            - 3 * el.f / 2 * Real.sin |pradians lat1 - pradians lat2| * Real.cos (pradians lat1 + pradians lat2)) := by
  have hpi := Real.pi_pos
  obtain ⟨G, hG⟩ : ∃ G, G = (pradians lat1 - pradians lat2) / 2 := ⟨_, rfl⟩
  obtain ⟨F, hF⟩ : ∃ F, F = (pradians lat1 + pradians lat2) / 2 := ⟨_, rfl⟩
  have hGe : G = (lat1 - lat2) * (π / 360) := by rw [hG]; unfold pradians; ring
  have hGabs : |G| < π / 2 := by
    rw [hGe, abs_mul, abs_of_pos (by positivity : (0:ℝ) < π / 360)]
    calc |lat1 - lat2| * (π / 360) < 180 * (π / 360) := mul_lt_mul_of_pos_right hlt (by positivity)
      _ = π / 2 := by ring
  have hG0 : G ≠ 0 := by rw [hGe]; exact mul_ne_zero (sub_ne_zero.mpr hne) (by positivity)
  have hGpos : 0 < |G| := abs_pos.mpr hG0
  have hcos : 0 < Real.cos G := Real.cos_pos_of_mem_Ioo ⟨(abs_lt.mp hGabs).1, (abs_lt.mp hGabs).2⟩
  have hsin : Real.sin G ≠ 0 := by
    intro hs
    exact hG0 ((Real.sin_eq_zero_iff_of_lt_of_lt (by linarith [(abs_lt.mp hGabs).1]) (by linarith [(abs_lt.mp hGabs).2])).mp hs)
  have hL : (pradians lon - pradians lon) / 2 = 0 := by ring
  obtain ⟨_, _, hform⟩ := distance_is_andoyer el lon lat1 lon lat2
  simp only [hL, Real.sin_zero, Real.cos_zero, ← hG, ← hF] at hform
  have hs2 : 0 < Real.sin G ^ 2 := by positivity
  have hc2 : 0 < Real.cos G ^ 2 := by positivity
  have es : Real.sin G ^ 2 * 1 ^ 2 + Real.cos F ^ 2 * 0 ^ 2 = Real.sin G ^ 2 := by ring
  have ec : Real.cos G ^ 2 * 1 ^ 2 + Real.sin F ^ 2 * 0 ^ 2 = Real.cos G ^ 2 := by ring
  rw [es, ec] at hform
  refine ⟨_, _, hform hs2 hc2, ?_⟩
  -- ω = |G|
  have hom : Real.arctan (Real.sqrt (Real.sin G ^ 2 / Real.cos G ^ 2)) = |G| := by
    have : Real.sin G ^ 2 / Real.cos G ^ 2 = Real.tan G ^ 2 := by rw [Real.tan_eq_sin_div_cos, div_pow]
    rw [this, Real.sqrt_sq_eq_abs]
    rcases abs_choice G with hl | hl
    · have hl0 : 0 ≤ G := abs_eq_self.mp hl
      rw [abs_of_nonneg (Real.tan_nonneg_of_nonneg_of_le_pi_div_two hl0 (by linarith [(abs_lt.mp hGabs).2])), hl]
      exact Real.arctan_tan (by linarith) (abs_lt.mp hGabs).2
    · have hl0 : G ≤ 0 := abs_eq_neg_self.mp hl
      rw [abs_of_nonpos (Real.tan_nonpos_of_nonpos_of_neg_pi_div_two_le hl0 (by linarith [(abs_lt.mp hGabs).1])), hl,
        ← Real.tan_neg]
      exact Real.arctan_tan (by linarith [(abs_lt.mp hGabs).2]) (by linarith [(abs_lt.mp hGabs).1])
  -- sqrt(s c) = |sin G| cos G, and 2 |sin G| cos G = sin |2G|
  have hsc : Real.sqrt (Real.sin G ^ 2 * Real.cos G ^ 2) = |Real.sin G| * Real.cos G := by
    rw [← mul_pow, Real.sqrt_sq_eq_abs, abs_mul, abs_of_pos hcos]
  have hsin2 : Real.sin |pradians lat1 - pradians lat2| = 2 * (|Real.sin G| * Real.cos G) := by
    have h2 : pradians lat1 - pradians lat2 = 2 * G := by rw [hG]; ring
    rw [h2, abs_mul, abs_of_pos (by norm_num : (0:ℝ) < 2), Real.sin_two_mul]
    rcases abs_choice G with hl | hl
    · have hl0 : 0 ≤ G := abs_eq_self.mp hl
      rw [hl, abs_of_nonneg (Real.sin_nonneg_of_nonneg_of_le_pi hl0 (by linarith [(abs_lt.mp hGabs).2]))]; ring
    · have hl0 : G ≤ 0 := abs_eq_neg_self.mp hl
      rw [hl, Real.sin_neg, Real.cos_neg, abs_of_nonpos (Real.sin_nonpos_of_nonpos_of_neg_pi_le hl0 (by linarith [(abs_lt.mp hGabs).1]))]
      ring
  have hcos2 : Real.cos (pradians lat1 + pradians lat2) = Real.cos F ^ 2 - Real.sin F ^ 2 := by
    have h2 : pradians lat1 + pradians lat2 = 2 * F := by rw [hF]; ring
    rw [h2, Real.cos_two_mul']
  have habsd : |pradians lat1 - pradians lat2| = 2 * |G| := by
    have h2 : pradians lat1 - pradians lat2 = 2 * G := by rw [hG]; ring
    rw [h2, abs_mul, abs_of_pos (by norm_num : (0:ℝ) < 2)]
  rw [hom, hsc, hsin2, hcos2, habsd]
  have hFF := Real.sin_sq_add_cos_sq F
  obtain ⟨S, hS⟩ : ∃ S, S = |Real.sin G| * Real.cos G := ⟨_, rfl⟩
  rw [← hS]
  have hg : |G| ≠ 0 := hGpos.ne'
  have hs2' : Real.sin G ^ 2 ≠ 0 := hs2.ne'
  have hc2' : Real.cos G ^ 2 ≠ 0 := hc2.ne'
  field_simp
  have hc : Real.cos F ^ 2 = 1 - Real.sin F ^ 2 := by linarith
  rw [hc]
  ring

example : ∃ d err, distance WGS84 33 0 33 10 = .ok (d, err) ∧
    (1 - 5 / 2 * WGS84.f) * (WGS84.a * |pradians 0 - pradians 10|) ≤ d ∧
    d ≤ (1 + WGS84.f) * (WGS84.a * |pradians 0 - pradians 10|) :=
  distance_meridian_partial wgs84_valid 33 (by norm_num) (by norm_num [abs_lt])

/-- Antipodal points: the property promises nothing beyond symmetry.  In exact real arithmetic the model divides by
    zero (`c = 0`): `distance(λ, φ, λ + 180°, −φ)` is a `ZeroDivisionError`.  (In binary64 `cos(π/2) ≠ 0`, so the
    implementation returns a finite value there; see the harness class `distance/antipodal`.) -/
theorem distance_antipodal_undefined (el : Ell) (lon lat : ℝ) :
    distance el lon lat (lon + 180) (-lat) = .error .zeroDivisionError := by
  rw [distance_eq_andoyer]
  have hl : (pradians lon - pradians (lon + 180)) / 2 = -(π / 2) := by unfold pradians; ring
  have hf : (pradians lat + pradians (-lat)) / 2 = 0 := by unfold pradians; ring
  have hg : (pradians lat - pradians (-lat)) / 2 = pradians lat := by unfold pradians; ring
  rw [hl, hf, hg, Real.sin_neg, Real.cos_neg, Real.sin_pi_div_two, Real.cos_pi_div_two, Real.sin_zero, Real.cos_zero]
  apply andoyer_antipodal <;> norm_num

/-! ## Topocentric parallax (after the repairs f8a396f and ea54de3) -/

/-- Value of a result, `d` when the model raised an exception (used to state limits of the model functions). -/
def valueOr {α : Type} (d : α) : PyRes α → α
  | .ok a => a
  | .error _ => d

/-- `parallax_correction` succeeds for every non-zero distance and returns a declination in `[-90°, 90°]` — also at and
    near the celestial poles, where the code before f8a396f returned `δ' − 180°`. -/
theorem parallax_correction_declination_in_range (ra dec lat : ℝ) {dist : ℝ} (hd : dist ≠ 0) (ha height : ℝ) :
    ∃ ra' dec', parallax_correction ra dec lat dist ha height = .ok (ra', dec') ∧ -90 ≤ dec' ∧ dec' ≤ 90 := by
  obtain ⟨h1, h2⟩ := dec'_range dec lat dist ha height
  exact ⟨_, _, parallax_correction_eq ra dec lat hd ha height, h1, h2⟩

/-- "Topocentric parallax corrections … never displace a body by more than the horizontal parallax
    asin(sin 8.794 arcsec / distance)" for `parallax_correction`, for EVERY right ascension, declination (poles
    included), observer latitude, hour angle and height: with `ρ² = (ρ cos φ')² + (ρ sin φ')²` the observer's geocentric
    distance in equatorial radii and `s = ρ · sin 8.794'' / distance < 1` (the body is outside the Earth), the angular
    separation `p` between `(α, δ)` and the returned `(α', δ')` satisfies `cos p ≥ sqrt(1 − s²)`, i.e.
    `p = arccos(…) ≤ arcsin s`.  (At sea level `ρ ≤ 1`; the factor is the one of DESIGN §6 C18.) -/
theorem parallax_correction_bounded_by_horizontal_parallax (ra dec lat : ℝ) {dist : ℝ} (hd : dist ≠ 0) (ha height : ℝ) :
    ∃ ra' dec' rc rs, parallax_correction ra dec lat dist ha height = .ok (ra', dec') ∧
      rho_cosphi WGS84 lat height = .ok rc ∧ rho_sinphi WGS84 lat height = .ok rs ∧
      ((sin_pi0 / dist) ^ 2 * (rc ^ 2 + rs ^ 2) < 1 →
        Real.sqrt (1 - (sin_pi0 / dist) ^ 2 * (rc ^ 2 + rs ^ 2))
            ≤ Real.sin (pradians dec) * Real.sin (pradians dec')
              + Real.cos (pradians dec) * Real.cos (pradians dec') * Real.cos (pradians (ra' - ra)) ∧
        Real.arccos (Real.sin (pradians dec) * Real.sin (pradians dec')
              + Real.cos (pradians dec) * Real.cos (pradians dec') * Real.cos (pradians (ra' - ra)))
            ≤ Real.arcsin (Real.sqrt ((sin_pi0 / dist) ^ 2 * (rc ^ 2 + rs ^ 2)))) := by
  refine ⟨_, _, _, _, parallax_correction_eq ra dec lat hd ha height, rho_cosphi_eq wgs84_valid lat height,
    rho_sinphi_eq wgs84_valid lat height, ?_⟩
  intro hs
  have hb := parallax_correction_bound dec lat dist ha height hs
  obtain ⟨j, hj⟩ := reduce_deg_congr (ra + delta_a dec lat dist ha height)
  have hcos : Real.cos (pradians (angle_add ra (delta_a dec lat dist ha height) - ra))
      = Real.cos (pradians (delta_a dec lat dist ha height)) := by
    unfold angle_add; rw [hj]
    have : pradians (ra + delta_a dec lat dist ha height + 360 * (j : ℝ) - ra)
        = pradians (delta_a dec lat dist ha height) + (j : ℝ) * (2 * π) := by unfold pradians; ring
    rw [this, Real.cos_add_int_mul_two_pi]
  rw [hcos]
  have hb' : Real.sqrt (1 - (sin_pi0 / dist) ^ 2 * (rcos lat height ^ 2 + rsin lat height ^ 2))
      ≤ Real.sin (pradians dec) * Real.sin (pradians (dec' dec lat dist ha height))
        + Real.cos (pradians dec) * Real.cos (pradians (dec' dec lat dist ha height))
          * Real.cos (pradians (delta_a dec lat dist ha height)) := hb
  refine ⟨hb', ?_⟩
  have hs0 : 0 ≤ (sin_pi0 / dist) ^ 2 * (rcos lat height ^ 2 + rsin lat height ^ 2) := by positivity
  change Real.arccos _ ≤ Real.arcsin (Real.sqrt ((sin_pi0 / dist) ^ 2 * (rcos lat height ^ 2 + rsin lat height ^ 2)))
  rw [Real.arcsin_eq_arccos (Real.sqrt_nonneg _), Real.sq_sqrt hs0]
  exact Real.arccos_le_arccos hb'

/-- "Topocentric parallax corrections tend to zero as distance grows": in coordinates, `(α', δ') → (α, δ)` as
    `distance → ∞` for every observer latitude, hour angle and height, for bodies not at a pole (`|δ| < 90°`; at a
    pole α' has no limit) and `|α| < 360°` (the range of an Angle).  In terms of the angular separation the statement
    for every δ is the bound above: `p ≤ asin(ρ sin 8.794''/distance) → 0`. -/
theorem parallax_correction_limit (ra dec lat ha height : ℝ) (hra : |ra| < 360) (h1 : -90 < dec) (h2 : dec < 90) :
    Tendsto (fun dist => valueOr (0, 0) (parallax_correction ra dec lat dist ha height)) atTop (𝓝 (ra, dec)) := by
  have hpi := Real.pi_pos
  have hd1 : -(π / 2) < pradians dec := by unfold pradians; nlinarith
  have hd2 : pradians dec < π / 2 := by unfold pradians; nlinarith
  have hdec : 0 < Real.cos (pradians dec) := Real.cos_pos_of_mem_Ioo ⟨hd1, hd2⟩
  have hda := delta_a_tendsto dec lat ha height hdec
  have hdc := dec'_tendsto dec lat ha height h1 h2
  have hsum : Tendsto (fun dist => ra + delta_a dec lat dist ha height) atTop (𝓝 ra) := by
    simpa using (tendsto_const_nhds (x := ra)).add hda
  have hev : ∀ᶠ dist in atTop, |ra + delta_a dec lat dist ha height| < 360 :=
    (continuous_abs.tendsto ra).comp hsum |>.eventually (gt_mem_nhds hra)
  have hpair : Tendsto (fun dist => (ra + delta_a dec lat dist ha height, dec' dec lat dist ha height)) atTop (𝓝 (ra, dec)) :=
    hsum.prodMk_nhds hdc
  refine hpair.congr' ?_
  filter_upwards [hev, eventually_gt_atTop (0 : ℝ)] with dist hsmall hpos
  rw [parallax_correction_eq ra dec lat hpos.ne' ha height]
  simp only [valueOr, angle_add, reduce_deg_small hsmall]

/-- `parallax_ecliptical`: every successful call (any semidiameter) returns a longitude in `[0°, 360°)` and a latitude
    in `[-90°, 90°]`, and displaces the body by at most the horizontal parallax: with `s = ρ sin 8.794''/distance < 1`
    the separation `p` between `(λ, β)` and the returned `(λ', β')` has `cos p ≥ sqrt(1 − s²)`, `p ≤ arcsin s`.
    (Before ea54de3 southern latitudes with `cos λ' > 0` came back as `180° − |β'|`.) -/
theorem parallax_ecliptical_in_range_and_bounded (lon lat semi obs obl sid : ℝ) {dist : ℝ} (hd : dist ≠ 0) (height : ℝ)
    {tl tb ts : ℝ} (h : parallax_ecliptical lon lat semi obs obl sid dist height = .ok (tl, tb, ts)) :
    0 ≤ tl ∧ tl < 360 ∧ -90 ≤ tb ∧ tb ≤ 90 ∧
    ∃ rc rs, rho_cosphi WGS84 obs height = .ok rc ∧ rho_sinphi WGS84 obs height = .ok rs ∧
      ((sin_pi0 / dist) ^ 2 * (rc ^ 2 + rs ^ 2) < 1 →
        Real.sqrt (1 - (sin_pi0 / dist) ^ 2 * (rc ^ 2 + rs ^ 2))
            ≤ Real.sin (pradians lat) * Real.sin (pradians tb)
              + Real.cos (pradians lat) * Real.cos (pradians tb) * Real.cos (pradians tl - pradians lon) ∧
        Real.arccos (Real.sin (pradians lat) * Real.sin (pradians tb)
              + Real.cos (pradians lat) * Real.cos (pradians tb) * Real.cos (pradians tl - pradians lon))
            ≤ Real.arcsin (Real.sqrt ((sin_pi0 / dist) ^ 2 * (rc ^ 2 + rs ^ 2)))) := by
  obtain ⟨h1, h2⟩ := parallax_ecliptical_ok lon lat semi obs obl sid hd height h
  simp only at h1 h2
  obtain ⟨r1, r2⟩ := elon0_range lon lat obs obl sid dist height
  obtain ⟨p1, p2, _⟩ := to_positive_spec r1 r2
  obtain ⟨q1, q2⟩ := elat_range lon lat obs obl sid dist height
  rw [h1, h2]
  refine ⟨p1, p2, q1, q2, _, _, rho_cosphi_eq wgs84_valid obs height, rho_sinphi_eq wgs84_valid obs height, ?_⟩
  intro hs
  have hb : Real.sqrt (1 - (sin_pi0 / dist) ^ 2 * (rcos obs height ^ 2 + rsin obs height ^ 2))
      ≤ Real.sin (pradians lat) * Real.sin (pradians (elat lon lat obs obl sid dist height))
        + Real.cos (pradians lat) * Real.cos (pradians (elat lon lat obs obl sid dist height))
          * Real.cos (pradians (to_positive (elon0 lon lat obs obl sid dist height)) - pradians lon) :=
    parallax_ecliptical_bound lon lat obs obl sid dist height hs
  refine ⟨hb, ?_⟩
  have hs0 : 0 ≤ (sin_pi0 / dist) ^ 2 * (rcos obs height ^ 2 + rsin obs height ^ 2) := by positivity
  change Real.arccos _ ≤ Real.arcsin (Real.sqrt ((sin_pi0 / dist) ^ 2 * (rcos obs height ^ 2 + rsin obs height ^ 2)))
  rw [Real.arcsin_eq_arccos (Real.sqrt_nonneg _), Real.sq_sqrt hs0]
  exact Real.arccos_le_arccos hb

/-- The family on which the code before ea54de3 returned a latitude in `(90°, 180°)` (body at λ = 0 with a southern
    latitude, observer on the equator at sea level, sidereal time 0): the call succeeds and the topocentric latitude
    is southern, in `(-90°, 0°)`. -/
theorem parallax_ecliptical_south_latitude {lat dist : ℝ} (obl : ℝ) (h1 : -90 < lat) (h2 : lat < 0) (hd : 0 < dist)
    (hn : sin_pi0 / dist < Real.cos (pradians lat)) :
    ∃ tl tb, parallax_ecliptical 0 lat 0 0 obl 0 dist 0 = .ok (tl, tb, 0) ∧ -90 < tb ∧ tb < 0 := by
  have hpi := Real.pi_pos
  have hb2 : pradians lat < 0 := by unfold pradians; nlinarith
  have hb1 : -π < pradians lat := by unfold pradians; nlinarith
  have hsin : Real.sin (pradians lat) < 0 := Real.sin_neg_of_neg_of_neg_pi_lt hb2 hb1
  have hen : en 0 lat 0 0 dist 0 = Real.cos (pradians lat) - sin_pi0 / dist := by
    unfold en; rw [rcos_equator_sea_level, pradians_zero, Real.cos_zero]; ring
  have hez : ezz lat 0 obl 0 dist 0 = Real.sin (pradians lat) := by
    unfold ezz; rw [rcos_equator_sea_level, rsin_equator_sea_level, pradians_zero, Real.sin_zero]; ring
  have hnpos : 0 < en 0 lat 0 0 dist 0 := by rw [hen]; linarith
  have hehpos : 0 < eh 0 lat 0 obl 0 dist 0 := by
    unfold eh; apply Real.sqrt_pos.mpr
    nlinarith [mul_self_nonneg (eyl 0 lat 0 obl 0 dist 0), mul_pos hnpos hnpos]
  refine ⟨_, _, parallax_ecliptical_semi0 0 lat 0 obl 0 hd.ne' 0 hehpos.ne', ?_, ?_⟩
  · -- re > 0 gives |arg| < π/2
    have : |Complex.arg ⟨eh 0 lat 0 obl 0 dist 0, ezz lat 0 obl 0 dist 0⟩| < π / 2 := by
      rw [Complex.abs_arg_lt_pi_div_two_iff]; exact Or.inl hehpos
    have hlo := (abs_lt.mp this).1
    unfold elat
    calc (-90 : ℝ) = -(π / 2) * (180 / π) := by field_simp; ring
      _ < _ := mul_lt_mul_of_pos_right hlo (by positivity)
  · have : Complex.arg ⟨eh 0 lat 0 obl 0 dist 0, ezz lat 0 obl 0 dist 0⟩ < 0 := by
      rw [Complex.arg_neg_iff]; show ezz lat 0 obl 0 dist 0 < 0; rw [hez]; exact hsin
    unfold elat
    exact mul_neg_of_neg_of_pos this (by positivity)

/-- Behaviour at the pole ("poles included"): as the latitude tends to 90° the observer's coordinates tend to
    `(ρ cos φ', ρ sin φ') = (0, b/a + h/a)` — the polar radius plus the height, the height term being kept.  (Over ℝ the
    value AT 90° is not used: Mathlib's `tan (π/2)` is a junk 0, while binary64 `tan(radians(90))` is 1.6e16; the limit
    is the statement that is true of both.) -/
theorem rho_pole_limit {el : Ell} (h : Valid el) (height : ℝ) :
    Tendsto (fun lat => valueOr 0 (rho_sinphi el lat height)) (𝓝[<] 90) (𝓝 (el.b / el.a + height / el.a)) ∧
    Tendsto (fun lat => valueOr 0 (rho_cosphi el lat height)) (𝓝[<] 90) (𝓝 0) := by
  have hpi := Real.pi_pos
  have hf : 0 < 1 - el.f := by linarith [h.f_lt_one]
  have hx : Tendsto (fun lat : ℝ => pradians lat) (𝓝[<] 90) (𝓝[<] (π / 2)) := by
    apply tendsto_nhdsWithin_of_tendsto_nhds_of_eventually_within
    · have hc : Continuous (fun lat : ℝ => pradians lat) := by unfold pradians; fun_prop
      have := (hc.tendsto 90).mono_left (nhdsWithin_le_nhds (s := Set.Iio 90))
      have e : pradians 90 = π / 2 := by unfold pradians; ring
      rwa [e] at this
    · filter_upwards [self_mem_nhdsWithin] with lat hlat
      have : lat < 90 := hlat
      show pradians lat < π / 2
      unfold pradians; nlinarith
  have hx' : Tendsto (fun lat : ℝ => pradians lat) (𝓝[<] 90) (𝓝 (π / 2)) := hx.mono_right nhdsWithin_le_nhds
  have htan : Tendsto (fun lat => (1 - el.f) * Real.tan (pradians lat)) (𝓝[<] 90) atTop :=
    (Real.tendsto_tan_pi_div_two.comp hx).const_mul_atTop hf
  have hu : Tendsto (fun lat => Real.arctan ((1 - el.f) * Real.tan (pradians lat))) (𝓝[<] 90) (𝓝 (π / 2)) :=
    (Real.tendsto_arctan_atTop.mono_right nhdsWithin_le_nhds).comp htan
  have hsinu := (Real.continuous_sin.tendsto (π / 2)).comp hu
  have hcosu := (Real.continuous_cos.tendsto (π / 2)).comp hu
  have hsinx := (Real.continuous_sin.tendsto (π / 2)).comp hx'
  have hcosx := (Real.continuous_cos.tendsto (π / 2)).comp hx'
  rw [Real.sin_pi_div_two] at hsinu hsinx
  rw [Real.cos_pi_div_two] at hcosu hcosx
  have hba : el.b / el.a = 1 - el.f := by rw [b_eq]; field_simp [h.a_pos.ne']
  constructor
  · have := (hsinu.const_mul (1 - el.f)).add (hsinx.const_mul (height / el.a))
    rw [mul_one, mul_one] at this
    rw [hba]
    refine this.congr' ?_
    filter_upwards with lat
    simp only [rho_sinphi_eq h, valueOr, Function.comp]
  · have := hcosu.add (hcosx.const_mul (height / el.a))
    rw [mul_zero, add_zero] at this
    refine this.congr' ?_
    filter_upwards with lat
    simp only [rho_cosphi_eq h, valueOr, Function.comp]

/-- The hypotheses of `parallax_ecliptical_south_latitude` are satisfiable (β = -10°, 1 AU). -/
example : sin_pi0 / 1 < Real.cos (pradians (-10)) := by
  have hpi := Real.pi_pos
  have h3 := Real.pi_lt_d2
  have hs : sin_pi0 ≤ 8.794 / 3600 * (π / 180) := by
    rw [sin_pi0_eq]; apply Real.sin_le; positivity
  have hc := Real.one_sub_sq_div_two_le_cos (x := pradians (-10))
  unfold pradians at hc ⊢
  rw [div_one]
  norm_num at hs hc ⊢
  nlinarith

/-- The hypothesis `s < 1` of the bounds holds e.g. for the Moon's distance (0.0025 AU) at any sea-level site with
    `ρ ≤ 1`: `sin 8.794'' / 0.0025 < 1`. -/
example : (sin_pi0 / 0.0025) ^ 2 * 1 < 1 := by
  have hpi := Real.pi_pos
  have h3 := Real.pi_lt_d2
  have hs : sin_pi0 ≤ 8.794 / 3600 * (π / 180) := by
    rw [sin_pi0_eq]; apply Real.sin_le; positivity
  have h0 := sin_pi0_pos
  have : sin_pi0 / 0.0025 < 1 := by rw [div_lt_one (by norm_num)]; nlinarith
  have h1 : 0 < sin_pi0 / 0.0025 := by positivity
  nlinarith

example : Valid WGS84 := ⟨by norm_num [WGS84], by norm_num [WGS84], by norm_num [WGS84]⟩
example : Valid IAU76 := ⟨by norm_num [IAU76], by norm_num [IAU76], by norm_num [IAU76]⟩

end Pymeeus.C18
