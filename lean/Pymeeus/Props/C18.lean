import Pymeeus.Gen.R.Ellipsoid
namespace Pymeeus.C18
theorem stub : (1 : Nat) = 1 := rfl
end Pymeeus.C18
