import Pymeeus.Refine.EpochOps
import Pymeeus.Props.C01
/-
C02 — Instants survive JDE <-> date/time; input forms agree; Epoch arithmetic.

Property theorems only (helper lemmas live in Refine/EpochOps.lean, Refine/Calendar.lean).  They are
statements about `Pymeeus.GenQ`, the exact-arithmetic (Rat) instantiation of the model in
templates/EpochCore.lean + templates/EpochOps.lean, for EVERY rational JDE ≥ -1/2 (the whole domain of the class, from -4712-01-01 0h) — no upper bound (the
property asks for ≤ 5.4e6) — and every rational day offset.  `Spec.Valid`, `Spec.civilDay`,
`Spec.fullLe` are written from the definitions of the civil calendar (Spec/Civil.lean,
Spec/Instant.lean).  That binary64 rounding stays within 1e-8 / 1e-9 day is NOT a theorem; it is
measured on the implementation by harness/c02.py.
-/
namespace Pymeeus.C02
open Pymeeus Pymeeus.PQ Pymeeus.GenQ Pymeeus.Refine Pymeeus.Spec

/-! ### JDE -> (year, month, day, hour, minute, second) -> JDE -/

/-- "every field in its canonical range (hour 0-23, minute 0-59, 0 <= second < 60, day within the
    month)": `get_full_date` succeeds at every instant `j ≥ 0`, the date is a date of the civil
    calendar (so `1 ≤ d ≤` month length, not in the 1582 gap) and the time fields are canonical. -/
theorem fields_canonical (j : ℚ) (hj : -1 / 2 ≤ j) :
    ∃ y m d h mi s, get_full_date j = .ok (y, m, d, h, mi, s) ∧ Valid y m d ∧
      0 ≤ h ∧ h ≤ 23 ∧ 0 ≤ mi ∧ mi ≤ 59 ∧ 0 ≤ s ∧ s < 60 := by
  refine ⟨_, _, _, _, _, _, get_full_date_civil j hj, civilDay_valid _, ?_⟩
  obtain ⟨a, b⟩ := hourOf_bounds _ (dayFrac_nonneg j) (dayFrac_lt_one j)
  obtain ⟨c, d⟩ := minOf_bounds (dayFrac j)
  obtain ⟨e, f⟩ := secOf_bounds (dayFrac j)
  exact ⟨a, b, c, d, e, f⟩

/-- The date that `get_full_date` returns is the civil date of the instant's day, counted from
    1 January -4712 with the successor function of the civil calendar (an independent day count). -/
theorem full_date_is_civil_day (j : ℚ) (hj : -1 / 2 ≤ j) :
    ∃ h mi s, get_full_date j = .ok ((civilDay ⌊j + 1 / 2⌋.toNat).1, (civilDay ⌊j + 1 / 2⌋.toNat).2.1,
      (civilDay ⌊j + 1 / 2⌋.toNat).2.2, h, mi, s) ∧
      (h : ℚ) / 24 + (mi : ℚ) / 1440 + s / 86400 = Int.fract (j + 1 / 2) :=
  ⟨_, _, _, get_full_date_civil j hj, hms_sum _⟩

/-- "Any instant given as a Julian Ephemeris Day survives JDE -> (year, month, day, hour, minute,
    second) -> JDE": in exact arithmetic the round trip is the identity (error 0 ≤ 1e-8 day). -/
theorem full_date_roundtrip (j : ℚ) (hj : -1 / 2 ≤ j) (y m d h mi : Int) (s : ℚ)
    (hfd : get_full_date j = .ok (y, m, d, h, mi, s)) :
    compute_jde y m ((d : ℚ) + ((h : ℚ) / 24 + (mi : ℚ) / 1440 + s / 86400)) = j := by
  rw [get_full_date_civil j hj] at hfd
  injection hfd with hfd
  simp only [Prod.mk.injEq] at hfd
  obtain ⟨rfl, rfl, rfl, rfl, rfl, rfl⟩ := hfd
  rw [hms_sum, compute_jde_frac _ _ _ _ (dayFrac_nonneg j) (dayFrac_lt_one j) (civilDay_valid _), jdnI_civilDay]
  exact (instant_split j hj).symm

/-- The same round trip through the constructor `Epoch(y, m, d, h, mi, s)`. -/
theorem full_date_roundtrip_constructor (j : ℚ) (hj : -1 / 2 ≤ j) (y m d h mi : Int) (s : ℚ)
    (hfd : get_full_date j = .ok (y, m, d, h, mi, s)) :
    Epoch.init (.many (.ymd y (.num m) (ofInt d) [ofInt h, ofInt mi, s])) = .ok { jde := j } := by
  rw [get_full_date_civil j hj] at hfd
  injection hfd with hfd
  simp only [Prod.mk.injEq] at hfd
  obtain ⟨rfl, rfl, rfl, rfl, rfl, rfl⟩ := hfd
  obtain ⟨hy, hm1, hm12, hd1, hdl, _⟩ := civilDay_valid (dayNo j)
  obtain ⟨a, b⟩ := hourOf_bounds _ (dayFrac_nonneg j) (dayFrac_lt_one j)
  obtain ⟨c, d⟩ := minOf_bounds (dayFrac j)
  obtain ⟨e, f⟩ := secOf_bounds (dayFrac j)
  unfold Epoch.init Epoch.set check_fields get_month
  simp only [List.getD_cons_zero, List.getD_cons_succ, ofInt]
  rw [check_values_ok _ _ _ _ _ _ hy hm1 hm12 (by exact_mod_cast hd1)
    (by exact_mod_cast (by omega : (civilDay (dayNo j)).2.2 < monthLen _ _ + 1))
    (by exact_mod_cast a) (by exact_mod_cast (by omega : hourOf (dayFrac j) < 24))
    (by exact_mod_cast c) (by exact_mod_cast (by omega : minOf (dayFrac j) < 60)) e f]
  simp only
  rw [set_fold_eq _ _ _ _ _ _ (civilDay_valid _) (by rw [hms_sum]; exact dayFrac_nonneg j) (by rw [hms_sum]; exact dayFrac_lt_one j),
    hms_sum, jdnI_civilDay]
  rw [← instant_split j hj]

/-- "the date tuple never decreasing as JDE grows": the full date/time tuples of two instants
    `0 ≤ j₁ ≤ j₂` are in lexicographic order. -/
theorem date_monotone (j₁ j₂ : ℚ) (h0 : -1 / 2 ≤ j₁) (h : j₁ ≤ j₂) :
    ∃ t₁ t₂, get_full_date j₁ = .ok t₁ ∧ get_full_date j₂ = .ok t₂ ∧ fullLe t₁ t₂ := by
  refine ⟨_, _, get_full_date_civil j₁ h0, get_full_date_civil j₂ (le_trans h0 h), ?_⟩
  rcases lt_or_eq_of_le (dayNo_mono j₁ j₂ h) with hlt | heq
  · left; exact civilDay_lt _ _ hlt
  · right
    refine ⟨by rw [heq], ?_⟩
    exact time_mono _ _ (dayFrac_mono_of_dayNo_eq j₁ j₂ h0 h heq)

/-- Day-level form: a later day number has a strictly later (year, month, day). -/
theorem date_strictly_monotone (j₁ j₂ : ℚ) (h0 : -1 / 2 ≤ j₁) (h : ⌊j₁ + 1 / 2⌋ < ⌊j₂ + 1 / 2⌋) :
    ∃ y₁ m₁ d₁ y₂ m₂ d₂, get_date j₁ = .ok (y₁, m₁, d₁) ∧ get_date j₂ = .ok (y₂, m₂, d₂) ∧
      dateLt (y₁, m₁, ⌊d₁⌋) (y₂, m₂, ⌊d₂⌋) := by
  have hz1 : 0 ≤ ⌊j₁ + 1 / 2⌋ := Int.floor_nonneg.mpr (by linarith)
  have h2 : -1 / 2 ≤ j₂ := by
    by_contra hneg
    have : ⌊j₂ + 1 / 2⌋ < 0 := Int.floor_lt.mpr (by push_cast; linarith [not_le.mp hneg])
    omega
  refine ⟨_, _, _, _, _, _, get_date_civil j₁ h0, get_date_civil j₂ h2, ?_⟩
  have e1 := pfloor_add_fract (civilDay (dayNo j₁)).2.2 _ (dayFrac_nonneg j₁) (dayFrac_lt_one j₁)
  have e2 := pfloor_add_fract (civilDay (dayNo j₂)).2.2 _ (dayFrac_nonneg j₂) (dayFrac_lt_one j₂)
  unfold pfloor at e1 e2
  rw [rat_floor_eq_floor] at e1 e2
  rw [e1, e2]
  apply civilDay_lt
  unfold dayNo
  omega

/-! ### The constructor: a JDE, a copy, and the documented input forms -/

/-- `Epoch(jde)` does not store `jde`: it sends it through `get_full_date` and `_compute_jde`.
    In exact arithmetic that detour is the identity. -/
theorem set_jde_exact (j : ℚ) (hj : -1 / 2 ≤ j) : Epoch.init (.number j) = .ok { jde := j } := by
  obtain ⟨hy, hm1, hm12, hd1, hdl, _⟩ := civilDay_valid (dayNo j)
  unfold Epoch.init Epoch.set
  simp only [get_full_date_civil j hj, ofInt]
  rw [set_fold_eq _ _ _ _ _ _ (civilDay_valid _) (by rw [hms_sum]; exact dayFrac_nonneg j) (by rw [hms_sum]; exact dayFrac_lt_one j),
    hms_sum, jdnI_civilDay, ← instant_split j hj]

/-- "copy of another Epoch": `Epoch(e)` has the JDE of `e`. -/
theorem set_epoch_copy (e : Epoch) (hj : -1 / 2 ≤ e.jde) : Epoch.init (.epoch e) = .ok e := by
  have := set_jde_exact e.jde hj
  unfold Epoch.init Epoch.set at this ⊢
  exact this

/-- "set() versus constructor": `e.set(args)` forgets the previous state of `e`. -/
theorem set_eq_constructor (old : Epoch) (args : SetArgs) : Epoch.set old args = Epoch.init args := rfl

/-- "separate numbers, tuple, list": a tuple/list of values is treated as the separate values. -/
theorem forms_seq_eq_many (xs : Fields) : Epoch.init (.seq xs) = Epoch.init (.many xs) := rfl

/-- "date/datetime": a `datetime` is the separate values (y, m, d, h, mi, s + µs/10⁶). -/
theorem forms_datetime (y m d h mi s us : Int) :
    Epoch.init (.datetime y m d h mi s us) =
      Epoch.init (.many (.ymd y (.num m) (ofInt d) [ofInt h, ofInt mi, ofInt s + ofInt us / 1e6])) := rfl

/-- "date/datetime": a `date` is the separate values (y, m, d). -/
theorem forms_date (y m d : Int) :
    Epoch.init (.date y m d) = Epoch.init (.many (.ymd y (.num m) (ofInt d) [])) := rfl

/-- "month names": the month given by its short or long name, in any letter case and with blanks
    around it, is the month given by its number. -/
theorem forms_month_name (s : String) (i : Nat) (hi : i < 12)
    (h : py_strip_capitalize s = months_mmm[i]! ∨ py_strip_capitalize s = months_full[i]!)
    (y : Int) (d : ℚ) (rest : List ℚ) :
    Epoch.init (.many (.ymd y (.name s) d rest)) = Epoch.init (.many (.ymd y (.num ((i : Int) + 1)) d rest)) := by
  have h1 : get_month (.name s) = get_month (.num ((i : Int) + 1)) := by
    show get_month_str s = get_month_int ((i : Int) + 1)
    rw [C01.month_names s i hi h]
    unfold get_month_int
    have : (i : Int) + 1 ≥ 1 ∧ (i : Int) + 1 ≤ 12 := by omega
    simp only [this, and_self, if_true]
  unfold Epoch.init Epoch.set check_fields
  simp only [h1]

/-- A month given as a float with integral value is the month given as an int. -/
theorem forms_month_float (n : Int) (y : Int) (d : ℚ) (rest : List ℚ) :
    Epoch.init (.many (.ymd y (.flt (n : ℚ)) d rest)) = Epoch.init (.many (.ymd y (.num n) d rest)) := by
  have h1 : get_month (.flt (n : ℚ)) = get_month (.num n) := by
    show get_month_int (ptrunc (n : ℚ)) = get_month_int n
    congr 1
    unfold ptrunc
    split_ifs
    · rw [rat_floor_eq_floor, Int.floor_intCast]
    · rw [rat_floor_eq_floor, show (-(n : ℚ)) = ((-n : ℤ) : ℚ) by push_cast; rfl, Int.floor_intCast]; ring
  unfold Epoch.init Epoch.set check_fields
  simp only [h1]

/-- "fractional day versus h/m/s": for a civil date and a canonical time of day (integer hour and
    minute), `Epoch(y, m, d, h, mi, s)` is accepted and stores the instant
    `(day number) - 1/2 + h/24 + mi/1440 + s/86400`. -/
theorem forms_hms (y m d h mi : Int) (s : ℚ) (hv : Valid y m d) (hh0 : 0 ≤ h) (hh1 : h ≤ 23)
    (hm0 : 0 ≤ mi) (hm1 : mi ≤ 59) (hs0 : 0 ≤ s) (hs1 : s < 60) :
    Epoch.init (.many (.ymd y (.num m) (ofInt d) [ofInt h, ofInt mi, s])) =
      .ok { jde := (jdnI y m d : ℚ) - 1 / 2 + ((h : ℚ) / 24 + (mi : ℚ) / 1440 + s / 86400) } := by
  obtain ⟨hy, hmo1, hmo12, hd1, hdl, _⟩ := id hv
  have qh0 : (0 : ℚ) ≤ (h : ℚ) := by exact_mod_cast hh0
  have qh1 : (h : ℚ) ≤ 23 := by exact_mod_cast hh1
  have qm0 : (0 : ℚ) ≤ (mi : ℚ) := by exact_mod_cast hm0
  have qm1 : (mi : ℚ) ≤ 59 := by exact_mod_cast hm1
  unfold Epoch.init Epoch.set check_fields get_month
  simp only [List.getD_cons_zero, List.getD_cons_succ, ofInt]
  rw [check_values_ok _ _ _ _ _ _ hy hmo1 hmo12 (by exact_mod_cast hd1)
    (by exact_mod_cast (by omega : d < monthLen y m + 1)) qh0 (by linarith) qm0 (by linarith) hs0 hs1]
  simp only
  rw [set_fold_eq _ _ _ _ _ _ hv (by positivity) (by linarith)]

/-- "fractional day versus h/m/s": the same instant given as `(y, m, d + h/24 + mi/1440 + s/86400)`
    gives the same JDE as `(y, m, d, h, mi, s)`. -/
theorem forms_fractional_day (y m d h mi : Int) (s : ℚ) (hv : Valid y m d) (hh0 : 0 ≤ h) (hh1 : h ≤ 23)
    (hm0 : 0 ≤ mi) (hm1 : mi ≤ 59) (hs0 : 0 ≤ s) (hs1 : s < 60) :
    Epoch.init (.many (.ymd y (.num m) ((d : ℚ) + ((h : ℚ) / 24 + (mi : ℚ) / 1440 + s / 86400)) [])) =
      Epoch.init (.many (.ymd y (.num m) (ofInt d) [ofInt h, ofInt mi, s])) := by
  rw [forms_hms y m d h mi s hv hh0 hh1 hm0 hm1 hs0 hs1]
  obtain ⟨hy, hmo1, hmo12, hd1, hdl, _⟩ := id hv
  have qh0 : (0 : ℚ) ≤ (h : ℚ) := by exact_mod_cast hh0
  have qh1 : (h : ℚ) ≤ 23 := by exact_mod_cast hh1
  have qm0 : (0 : ℚ) ≤ (mi : ℚ) := by exact_mod_cast hm0
  have qm1 : (mi : ℚ) ≤ 59 := by exact_mod_cast hm1
  have qd1 : (1 : ℚ) ≤ (d : ℚ) := by exact_mod_cast hd1
  have qdl : (d : ℚ) ≤ (monthLen y m : ℚ) := by exact_mod_cast hdl
  have f0 : 0 ≤ (h : ℚ) / 24 + (mi : ℚ) / 1440 + s / 86400 := by positivity
  have f1 : (h : ℚ) / 24 + (mi : ℚ) / 1440 + s / 86400 < 1 := by linarith
  unfold Epoch.init Epoch.set check_fields get_month
  simp only [List.getD_nil]
  rw [show (0.0 : ℚ) = 0 by norm_num,
    check_values_ok _ _ _ _ _ _ hy hmo1 hmo12 (by linarith) (by linarith) le_rfl (by norm_num) le_rfl
      (by norm_num) le_rfl (by norm_num)]
  simp only
  unfold set_fold compute_jde_tt
  have e0 : ∀ q : ℚ, q + ((0 : ℚ) / 24.0 + 0 / 1440.0 + 0 / 86400.0) = q := by intro q; norm_num
  simp only [e0, compute_jde_frac y m d _ f0 f1 hv]
  congr 1
  norm_num

/-- `Epoch.check_input_date`: the date given as separate values, tuple/list (extra values are
    dropped), `date`, `datetime` (time of day dropped) is `Epoch(y, m, d)`; an `Epoch` is returned as it is. -/
theorem check_input_date_forms (y m d : Int) (mo : MonthArg) (dq : ℚ) (rest : List ℚ) (h mi s us : Int) (e : Epoch) :
    check_input_date (.many (.ymd y mo dq rest)) = Epoch.init (.many (.ymd y mo dq [])) ∧
    check_input_date (.seq (.ymd y mo dq rest)) = Epoch.init (.many (.ymd y mo dq [])) ∧
    check_input_date (.date y m d) = Epoch.init (.many (.ymd y (.num m) (ofInt d) [])) ∧
    check_input_date (.datetime y m d h mi s us) = Epoch.init (.many (.ymd y (.num m) (ofInt d) [])) ∧
    check_input_date (.epoch e) = .ok e :=
  ⟨rfl, rfl, rfl, rfl, rfl⟩

/-- The evening of 4 October 1582 (formerly finding C02-reform-eve-hms-rounds-to-day-5, repaired in
    `_compute_jde` by `if jde < 2299160.5: jde -= b`): `_compute_jde` is now continuous up to and
    INCLUDING day 5.0 — the value `4 + h/24 + mi/1440 + s/86400` can be rounded up to in binary64 —
    so "October 5.0, 1582" is the reform instant JDE 2299160.5, the same instant as 15.0 October, and
    no longer 10 days before it. -/
theorem reform_eve_day_continuous (x : ℚ) (h4 : 4 ≤ x) (h5 : x ≤ 5) :
    compute_jde 1582 10 x = 2299155.5 + x ∧ compute_jde 1582 10 5 = 2299160.5 ∧
      compute_jde 1582 10 15 = 2299160.5 := by
  refine ⟨?_, by decide +kernel, by decide +kernel⟩
  rcases lt_or_eq_of_le h5 with hlt | heq
  · have := compute_jde_frac 1582 10 4 (x - 4) (by linarith) (by linarith) (by decide)
    rw [show ((4 : Int) : ℚ) + (x - 4) = x by push_cast; ring] at this
    rw [this, show jdnI 1582 10 4 = 2299160 by decide]
    norm_num; ring
  · subst heq
    have : compute_jde 1582 10 5 = 2299160.5 := by decide +kernel
    rw [this]; norm_num

/-- On the evening of 4 October 1582 the h/m/s form and the fractional-day form agree, for every
    canonical time of day up to (not including) 24h: both store `2299159.5 + h/24 + mi/1440 + s/86400`. -/
theorem reform_eve_forms_agree (h mi : Int) (s : ℚ) (hh0 : 0 ≤ h) (hh1 : h ≤ 23)
    (hm0 : 0 ≤ mi) (hm1 : mi ≤ 59) (hs0 : 0 ≤ s) (hs1 : s < 60) :
    Epoch.init (.many (.ymd 1582 (.num 10) (ofInt 4) [ofInt h, ofInt mi, s])) =
        .ok { jde := 2299159.5 + ((h : ℚ) / 24 + (mi : ℚ) / 1440 + s / 86400) } ∧
      Epoch.init (.many (.ymd 1582 (.num 10) (((4 : Int) : ℚ) + ((h : ℚ) / 24 + (mi : ℚ) / 1440 + s / 86400)) [])) =
        .ok { jde := 2299159.5 + ((h : ℚ) / 24 + (mi : ℚ) / 1440 + s / 86400) } := by
  have hv : Valid 1582 10 4 := by decide
  have e := forms_hms 1582 10 4 h mi s hv hh0 hh1 hm0 hm1 hs0 hs1
  have e2 := forms_fractional_day 1582 10 4 h mi s hv hh0 hh1 hm0 hm1 hs0 hs1
  rw [e] at e2
  have hj : ((jdnI 1582 10 4 : Int) : ℚ) - 1 / 2 = 2299159.5 := by
    rw [show jdnI 1582 10 4 = 2299160 by decide]; norm_num
  rw [hj] at e e2
  exact ⟨e, e2⟩

/-! ### Arithmetic -/

/-- "Adding days translates the time axis": `e + x` is the Epoch at `jde e + x`. -/
theorem add_translates (e : Epoch) (x : ℚ) (h : -1 / 2 ≤ e.jde + x) :
    Epoch.add e (.num x) = .ok { jde := e.jde + x } := set_jde_exact _ h

/-- "(e + x) - e = x" -/
theorem add_sub (e : Epoch) (x : ℚ) (h : -1 / 2 ≤ e.jde + x) :
    ∃ a, Epoch.add e (.num x) = .ok a ∧ Epoch.sub a (.epoch e) = .ok (.days x) := by
  refine ⟨_, add_translates e x h, ?_⟩
  unfold Epoch.sub
  simp

/-- "e - (e - x) = x" -/
theorem sub_sub (e : Epoch) (x : ℚ) (h : -1 / 2 ≤ e.jde - x) :
    ∃ b, Epoch.sub e (.num x) = .ok (.epoch b) ∧ Epoch.sub e (.epoch b) = .ok (.days x) := by
  refine ⟨{ jde := e.jde - x }, ?_, ?_⟩
  · simp only [Epoch.sub, set_jde_exact _ h]
  · simp [Epoch.sub]

/-- "right-hand and in-place forms agree": `x + e`, `e += x` give the value of `e + x`; `e -= x`
    gives the value of `e - x` (for every operand, including the ill-typed ones: same exception). -/
theorem radd_iadd_isub_agree (e : Epoch) (b : EpOperand) :
    Epoch.radd e b = Epoch.add e b ∧ Epoch.iadd e b = Epoch.add e b ∧
      (∀ x, b = .num x → Epoch.sub e b = (Epoch.isub e b).map SubRes.epoch) := by
  refine ⟨?_, ?_, ?_⟩
  · cases b <;> rfl
  · cases b <;> rfl
  · intro x hb; subst hb
    cases h : Epoch.init (.number (e.jde - x)) <;> simp [Epoch.isub, Epoch.sub, h, Except.map]

/-! ### Order -/

/-- "< orders Epochs as their JDE values" (Epoch operand and bare number). -/
theorem lt_iff (e₁ e₂ : Epoch) (x : ℚ) :
    (Epoch.lt e₁ (.epoch e₂) = .ok true ↔ e₁.jde < e₂.jde) ∧ (Epoch.lt e₁ (.num x) = .ok true ↔ e₁.jde < x) := by
  simp [Epoch.lt, plt]

/-- "<= orders Epochs as their JDE values". -/
theorem le_iff (e₁ e₂ : Epoch) (x : ℚ) :
    (Epoch.le e₁ (.epoch e₂) = .ok true ↔ e₁.jde ≤ e₂.jde) ∧ (Epoch.le e₁ (.num x) = .ok true ↔ e₁.jde ≤ x) := by
  simp [Epoch.le, Epoch.gt, plt]

/-- `>` orders Epochs as their JDE values. -/
theorem gt_iff (e₁ e₂ : Epoch) (x : ℚ) :
    (Epoch.gt e₁ (.epoch e₂) = .ok true ↔ e₁.jde > e₂.jde) ∧ (Epoch.gt e₁ (.num x) = .ok true ↔ e₁.jde > x) := by
  simp [Epoch.gt, plt]

/-- `>=` orders Epochs as their JDE values. -/
theorem ge_iff (e₁ e₂ : Epoch) (x : ℚ) :
    (Epoch.ge e₁ (.epoch e₂) = .ok true ↔ e₁.jde ≥ e₂.jde) ∧ (Epoch.ge e₁ (.num x) = .ok true ↔ e₁.jde ≥ x) := by
  simp [Epoch.ge, Epoch.lt, plt]

/-- `==` as coded: true exactly when the JDEs differ by less than `TOL = 1e-10` day. -/
theorem eq_iff (e₁ e₂ : Epoch) (x : ℚ) :
    (Epoch.eq e₁ (.epoch e₂) = .ok true ↔ |e₁.jde - e₂.jde| < 1 / 10 ^ 10) ∧
      (Epoch.eq e₁ (.num x) = .ok true ↔ |e₁.jde - x| < 1 / 10 ^ 10) := by
  have habs : ∀ q : ℚ, pabs q = |q| := by
    intro q; unfold pabs; split_ifs with hq
    · exact (abs_of_neg hq).symm
    · exact (abs_of_nonneg (not_lt.mp hq)).symm
  have htol : (1e-10 : ℚ) = 1 / 10 ^ 10 := by norm_num
  simp [Epoch.eq, plt, habs, htol]

/-- `!=` is the negation of `==`. -/
theorem ne_iff (e₁ : Epoch) (b : EpOperand) (r : Bool) (h : Epoch.eq e₁ b = .ok r) : Epoch.ne e₁ b = .ok (!r) := by
  unfold Epoch.ne; rw [h]

/-- "== orders Epochs as their JDE values", the part that holds: equal JDEs compare equal, and JDEs at
    least `1e-10` day apart (in particular apart by more than the property's 1e-8 day) compare unequal. -/
theorem eq_partial (e₁ e₂ : Epoch) :
    (e₁.jde = e₂.jde → Epoch.eq e₁ (.epoch e₂) = .ok true) ∧
      (1 / 10 ^ 10 ≤ |e₁.jde - e₂.jde| → Epoch.eq e₁ (.epoch e₂) = .ok false) := by
  have h := (eq_iff e₁ e₂ 0).1
  constructor
  · intro he; rw [h, he]; norm_num
  · intro ha
    have : ¬ (Epoch.eq e₁ (.epoch e₂) = .ok true) := by rw [h]; exact not_lt.mpr ha
    revert this
    unfold Epoch.eq
    cases plt (pabs (e₁.jde - e₂.jde)) 1e-10 <;> simp

/-- `==` is NOT equality of the JDE values: two Epochs 1e-11 day apart are `==` and `<` at once
    (the tolerance `base.TOL` is documented in `__eq__`; closer than the property's own 1e-8 day). -/
theorem eq_strict_counterexample :
    ∃ e₁ e₂ : Epoch, e₁.jde ≠ e₂.jde ∧ Epoch.eq e₁ (.epoch e₂) = .ok true ∧ Epoch.lt e₁ (.epoch e₂) = .ok true :=
  ⟨{ jde := 0 }, { jde := 1 / 10 ^ 11 }, by decide +kernel, by decide +kernel, by decide +kernel⟩

/-- `__float__`, `__int__`, `__hash__` depend on the JDE only (`float.__hash__` is a parameter). -/
theorem float_int_hash (e : Epoch) (fh : ℚ → Int) :
    Epoch.toFloat e = e.jde ∧ (0 ≤ e.jde → Epoch.toInt e = ⌊e.jde⌋) ∧ Epoch.hash fh e = fh e.jde :=
  ⟨rfl, fun h => ptrunc_nonneg _ h, rfl⟩

/-! ### Growth round: injectivity, exact acceptance ranges, tables, algebra of the operators -/

/-- Distinct instants have distinct date/time tuples: `get_full_date` is injective on the whole domain
    (so no rounding / merging of fields — e.g. seconds rounded to microseconds — can hold of the model). -/
theorem full_date_injective (j₁ j₂ : ℚ) (h₁ : -1 / 2 ≤ j₁) (h₂ : -1 / 2 ≤ j₂)
    (h : get_full_date j₁ = get_full_date j₂) : j₁ = j₂ := by
  obtain ⟨y, m, d, hh, mi, s, hfd, _⟩ := fields_canonical j₁ h₁
  have r1 := full_date_roundtrip j₁ h₁ y m d hh mi s hfd
  have r2 := full_date_roundtrip j₂ h₂ y m d hh mi s (h ▸ hfd)
  rw [← r1, ← r2]

/-- "the date tuple never decreasing as JDE grows", strict form: a later instant has a different, and
    lexicographically not smaller, date/time tuple. -/
theorem date_strictly_monotone_full (j₁ j₂ : ℚ) (h0 : -1 / 2 ≤ j₁) (h : j₁ < j₂) :
    ∃ t₁ t₂, get_full_date j₁ = .ok t₁ ∧ get_full_date j₂ = .ok t₂ ∧ fullLe t₁ t₂ ∧ t₁ ≠ t₂ := by
  obtain ⟨t₁, t₂, e1, e2, hle⟩ := date_monotone j₁ j₂ h0 h.le
  refine ⟨t₁, t₂, e1, e2, hle, ?_⟩
  intro heq
  have := full_date_injective j₁ j₂ h0 (by linarith) (by rw [e1, e2, heq])
  linarith

/-- `get_full_date` refines `get_date`: same year and month, the day of `get_date` is the integer day
    plus the time of day, and the integer day is its floor. -/
theorem full_date_refines_date (j : ℚ) (hj : -1 / 2 ≤ j) :
    ∃ y m d h mi s, get_full_date j = .ok (y, m, d, h, mi, s) ∧
      get_date j = .ok (y, m, (d : ℚ) + ((h : ℚ) / 24 + (mi : ℚ) / 1440 + s / 86400)) ∧
      ⌊(d : ℚ) + ((h : ℚ) / 24 + (mi : ℚ) / 1440 + s / 86400)⌋ = d := by
  refine ⟨_, _, _, _, _, _, get_full_date_civil j hj, ?_, ?_⟩
  · rw [hms_sum]; exact get_date_civil j hj
  · rw [hms_sum]
    have := pfloor_add_fract (civilDay (dayNo j)).2.2 _ (dayFrac_nonneg j) (dayFrac_lt_one j)
    unfold pfloor at this; rwa [rat_floor_eq_floor] at this

/-- The origin of the domain: JDE -1/2 is 0h of 1 January -4712, and JDE 0 is its noon. -/
theorem origin_of_domain : get_full_date (-1 / 2 : ℚ) = .ok (-4712, 1, 1, 0, 0, 0) ∧
    get_full_date (0 : ℚ) = .ok (-4712, 1, 1, 12, 0, 0) := by
  constructor <;> decide +kernel

/-- The time fields in seconds: `3600 h + 60 mi + s` is exactly `86400 × frac(JDE + 1/2)`; in particular an
    error ε in the JDE inside one minute moves the seconds field by exactly `86400 ε` (no amplification
    beyond the change of unit: the size of the binary64 error itself is measured, not proved). -/
theorem seconds_of_day (j : ℚ) (hj : -1 / 2 ≤ j) (y m d h mi : Int) (s : ℚ)
    (hfd : get_full_date j = .ok (y, m, d, h, mi, s)) :
    3600 * (h : ℚ) + 60 * (mi : ℚ) + s = 86400 * Int.fract (j + 1 / 2) := by
  rw [get_full_date_civil j hj] at hfd
  injection hfd with hfd
  simp only [Prod.mk.injEq] at hfd
  obtain ⟨_, _, _, rfl, rfl, rfl⟩ := hfd
  have := hms_sum (dayFrac j)
  unfold dayFrac at this ⊢
  linarith

/-- `_compute_jde` is an isometry inside a civil day: a perturbation of the folded day by `f₂ - f₁` changes
    the JDE by exactly `f₂ - f₁` (the constructor does not amplify the rounding error of
    `day + h/24 + mi/1440 + s/86400`). -/
theorem compute_jde_isometry (y m d : Int) (f₁ f₂ : ℚ) (hv : Valid y m d) (a₁ : 0 ≤ f₁) (b₁ : f₁ < 1)
    (a₂ : 0 ≤ f₂) (b₂ : f₂ < 1) :
    compute_jde y m ((d : ℚ) + f₂) - compute_jde y m ((d : ℚ) + f₁) = f₂ - f₁ := by
  rw [compute_jde_frac y m d f₁ a₁ b₁ hv, compute_jde_frac y m d f₂ a₂ b₂ hv]; ring

/-- "datetime": a `datetime` of the civil calendar with microseconds is accepted and stores the instant
    `(day number) - 1/2 + h/24 + mi/1440 + (s + µs/10⁶)/86400` — the microsecond field counts. -/
theorem forms_datetime_instant (y m d h mi s us : Int) (hv : Valid y m d) (hh0 : 0 ≤ h) (hh1 : h ≤ 23)
    (hm0 : 0 ≤ mi) (hm1 : mi ≤ 59) (hs0 : 0 ≤ s) (hs1 : s ≤ 59) (hu0 : 0 ≤ us) (hu1 : us ≤ 999999) :
    Epoch.init (.datetime y m d h mi s us) =
      .ok { jde := (jdnI y m d : ℚ) - 1 / 2 + ((h : ℚ) / 24 + (mi : ℚ) / 1440 + ((s : ℚ) + (us : ℚ) / 10 ^ 6) / 86400) } := by
  have qs0 : (0 : ℚ) ≤ (s : ℚ) := by exact_mod_cast hs0
  have qs1 : (s : ℚ) ≤ 59 := by exact_mod_cast hs1
  have qu0 : (0 : ℚ) ≤ (us : ℚ) := by exact_mod_cast hu0
  have qu1 : (us : ℚ) ≤ 999999 := by exact_mod_cast hu1
  have e : ofInt s + ofInt us / 1e6 = (s : ℚ) + (us : ℚ) / 10 ^ 6 := by unfold ofInt; norm_num
  rw [forms_datetime, e]
  exact forms_hms y m d h mi _ hv hh0 hh1 hm0 hm1 (by positivity) (by
    have : (us : ℚ) / 10 ^ 6 < 1 := by rw [div_lt_one (by norm_num)]; linarith
    linarith)

/-- Two `datetime`s that differ only in the microsecond field are different instants. -/
theorem forms_datetime_microseconds_count (y m d h mi s us us' : Int) (hv : Valid y m d) (hh0 : 0 ≤ h) (hh1 : h ≤ 23)
    (hm0 : 0 ≤ mi) (hm1 : mi ≤ 59) (hs0 : 0 ≤ s) (hs1 : s ≤ 59) (hu0 : 0 ≤ us) (hu1 : us ≤ 999999)
    (hu0' : 0 ≤ us') (hu1' : us' ≤ 999999) (hne : us ≠ us') :
    Epoch.init (.datetime y m d h mi s us) ≠ Epoch.init (.datetime y m d h mi s us') := by
  rw [forms_datetime_instant y m d h mi s us hv hh0 hh1 hm0 hm1 hs0 hs1 hu0 hu1,
    forms_datetime_instant y m d h mi s us' hv hh0 hh1 hm0 hm1 hs0 hs1 hu0' hu1']
  intro heq
  injection heq with heq
  injection heq with heq
  have : (us : ℚ) = (us' : ℚ) := by
    have h2 : ((us : ℚ) / 10 ^ 6) = ((us' : ℚ) / 10 ^ 6) := by linarith
    field_simp at h2
    linarith
  exact hne (by exact_mod_cast this)

/-- "which exception is raised when" (separate values, numeric month): the constructor accepts EXACTLY
    year ≥ -4712, month 1..12, 1 ≤ day < month length + 1 (civil month lengths, leap rule in force),
    0 ≤ hours < 24, 0 ≤ minutes < 60, 0 ≤ seconds < 60 — every bound included/excluded as written — stores
    `_compute_jde` of the folded day, and raises ValueError for every other input. -/
theorem constructor_accepts_iff (y m : Int) (d h mi s : ℚ) :
    Epoch.init (.many (.ymd y (.num m) d [h, mi, s])) =
      if (-4712 ≤ y ∧ 1 ≤ m ∧ m ≤ 12 ∧ 1 ≤ d ∧ d < (monthLen y m : ℚ) + 1 ∧
          0 ≤ h ∧ h < 24 ∧ 0 ≤ mi ∧ mi < 60 ∧ 0 ≤ s ∧ s < 60)
      then .ok { jde := compute_jde y m (d + (h / 24 + mi / 1440 + s / 86400)) }
      else .error .valueError := by
  unfold Epoch.init Epoch.set check_fields get_month
  simp only [List.getD_cons_zero, List.getD_cons_succ]
  rw [check_values_cases]
  split_ifs
  · simp only [set_fold, compute_jde_tt]
    congr 2
    · norm_num
  · rfl

/-- The same with fewer values: missing hours / minutes / seconds are 0, extra values are ignored. -/
theorem constructor_defaults (y : Int) (mo : MonthArg) (d h mi s x : ℚ) (rest : List ℚ) :
    Epoch.init (.many (.ymd y mo d [])) = Epoch.init (.many (.ymd y mo d [0, 0, 0])) ∧
    Epoch.init (.many (.ymd y mo d [h])) = Epoch.init (.many (.ymd y mo d [h, 0, 0])) ∧
    Epoch.init (.many (.ymd y mo d [h, mi])) = Epoch.init (.many (.ymd y mo d [h, mi, 0])) ∧
    Epoch.init (.many (.ymd y mo d (h :: mi :: s :: x :: rest))) = Epoch.init (.many (.ymd y mo d [h, mi, s])) := by
  have z : (0.0 : ℚ) = 0 := by norm_num
  refine ⟨?_, ?_, ?_, ?_⟩ <;>
    simp [Epoch.init, Epoch.set, check_fields, z]

/-- The dispatch of `Epoch.set` / `check_input_date` / the operators on argument shapes: which exception
    is raised when. -/
theorem dispatch_errors (e : Epoch) (e₂ : Epoch) (x : ℚ) :
    Epoch.init .two = .error .valueError ∧ Epoch.init .other = .error .typeError ∧
    Epoch.init (.seq .short) = .error .valueError ∧ Epoch.init .none = .ok { jde := 0 } ∧
    check_input_date .none = .error .valueError ∧ check_input_date .two = .error .valueError ∧
    check_input_date (.number x) = .error .typeError ∧ check_input_date .other = .error .typeError ∧
    check_input_date (.seq .short) = .error .valueError ∧
    Epoch.add e .other = .error .typeError ∧ Epoch.add e (.epoch e₂) = .error .typeError ∧
    Epoch.radd e (.epoch e₂) = .error .typeError ∧ Epoch.iadd e (.epoch e₂) = .error .typeError ∧
    Epoch.isub e (.epoch e₂) = .error .typeError ∧ Epoch.sub e .other = .error .typeError ∧
    Epoch.eq e .other = .error .typeError ∧ Epoch.ne e .other = .error .typeError ∧
    Epoch.lt e .other = .error .typeError ∧ Epoch.le e .other = .error .typeError ∧
    Epoch.gt e .other = .error .typeError ∧ Epoch.ge e .other = .error .typeError := by
  have z : (0.0 : ℚ) = 0 := by norm_num
  refine ⟨rfl, rfl, rfl, ?_, rfl, rfl, rfl, rfl, rfl, rfl, rfl, rfl, rfl, rfl, rfl, rfl, rfl, rfl, rfl, rfl, rfl⟩
  simp [Epoch.init, Epoch.set, z]

/-- The tables behind the validation and the month names, as they are in the model now: 12 entries each;
    `maxdays` is the month-length table of a common year of the civil calendar; every short name is the
    first three letters of the long name; the names are pairwise distinct. -/
theorem tables :
    maxdays.length = 12 ∧ months_mmm.length = 12 ∧ months_full.length = 12 ∧
    (∀ i : Fin 12, maxdays.getD i.val 0 = monthLen 2001 (i.val + 1)) ∧
    (∀ i : Fin 12, ((months_full.getD i.val "").take 3).toString = months_mmm.getD i.val "" ∧ (months_mmm.getD i.val "").length = 3) ∧
    months_mmm.Nodup ∧ months_full.Nodup := by
  refine ⟨rfl, rfl, rfl, by decide, by decide, by decide, by decide⟩

/-- A comparison with a bare number is the comparison with the Epoch at that JDE (all six operators; in
    particular `==` with a number uses the same absolute tolerance, nothing relative). -/
theorem cmp_number_as_epoch (e : Epoch) (x : ℚ) :
    Epoch.eq e (.num x) = Epoch.eq e (.epoch { jde := x }) ∧ Epoch.ne e (.num x) = Epoch.ne e (.epoch { jde := x }) ∧
    Epoch.lt e (.num x) = Epoch.lt e (.epoch { jde := x }) ∧ Epoch.le e (.num x) = Epoch.le e (.epoch { jde := x }) ∧
    Epoch.gt e (.num x) = Epoch.gt e (.epoch { jde := x }) ∧ Epoch.ge e (.num x) = Epoch.ge e (.epoch { jde := x }) :=
  ⟨rfl, rfl, rfl, rfl, rfl, rfl⟩

/-- The tolerance of `==` is absolute at every magnitude: at JDE 5·10⁶ two values 10⁻⁹ day apart are unequal
    (a relative tolerance of 10⁻⁹ would make them equal), and `==` is symmetric. -/
theorem eq_tolerance_absolute (e₁ e₂ : Epoch) :
    Epoch.eq { jde := 5000000 } (.num (5000000 + 1 / 10 ^ 9)) = .ok false ∧
    Epoch.eq e₁ (.epoch e₂) = Epoch.eq e₂ (.epoch e₁) := by
  refine ⟨by decide +kernel, ?_⟩
  have habs : pabs (e₁.jde - e₂.jde) = pabs (e₂.jde - e₁.jde) := by
    unfold pabs
    split_ifs <;> linarith
  simp only [Epoch.eq, habs]

/-- `==` with a tolerance is not transitive (three Epochs 0.6·10⁻¹⁰ day apart). -/
theorem eq_not_transitive_counterexample :
    ∃ a b c : Epoch, Epoch.eq a (.epoch b) = .ok true ∧ Epoch.eq b (.epoch c) = .ok true ∧
      Epoch.eq a (.epoch c) = .ok false :=
  ⟨{ jde := 0 }, { jde := 6 / 10 ^ 11 }, { jde := 12 / 10 ^ 11 }, by decide +kernel, by decide +kernel, by decide +kernel⟩

/-- The four order operators are one total order: exactly one of `<`, equal JDE, `>` holds; `<=` is `<` or
    equal JDE; `>=` is the negation of `<` and `<=` the negation of `>`. -/
theorem order_total (e₁ e₂ : Epoch) :
    (Epoch.lt e₁ (.epoch e₂) = .ok true ∨ e₁.jde = e₂.jde ∨ Epoch.gt e₁ (.epoch e₂) = .ok true) ∧
    ¬ (Epoch.lt e₁ (.epoch e₂) = .ok true ∧ Epoch.gt e₁ (.epoch e₂) = .ok true) ∧
    (Epoch.le e₁ (.epoch e₂) = .ok true ↔ (Epoch.lt e₁ (.epoch e₂) = .ok true ∨ e₁.jde = e₂.jde)) ∧
    (Epoch.ge e₁ (.epoch e₂) = .ok true ↔ ¬ Epoch.lt e₁ (.epoch e₂) = .ok true) ∧
    (Epoch.le e₁ (.epoch e₂) = .ok true ↔ ¬ Epoch.gt e₁ (.epoch e₂) = .ok true) ∧
    (Epoch.gt e₁ (.epoch e₂) = Epoch.lt e₂ (.epoch e₁)) := by
  rw [(lt_iff e₁ e₂ 0).1, (gt_iff e₁ e₂ 0).1, (le_iff e₁ e₂ 0).1, (ge_iff e₁ e₂ 0).1]
  refine ⟨lt_trichotomy _ _, fun h => lt_asymm h.1 h.2, le_iff_lt_or_eq, not_lt.symm, not_lt.symm, rfl⟩

/-- Translating both Epochs by the same number of days keeps their order and their difference. -/
theorem add_preserves_order (e₁ e₂ : Epoch) (x : ℚ) (h₁ : -1 / 2 ≤ e₁.jde + x) (h₂ : -1 / 2 ≤ e₂.jde + x) :
    ∃ a₁ a₂, Epoch.add e₁ (.num x) = .ok a₁ ∧ Epoch.add e₂ (.num x) = .ok a₂ ∧
      (Epoch.lt a₁ (.epoch a₂) = Epoch.lt e₁ (.epoch e₂)) ∧
      Epoch.sub a₁ (.epoch a₂) = Epoch.sub e₁ (.epoch e₂) := by
  refine ⟨_, _, add_translates e₁ x h₁, add_translates e₂ x h₂, ?_, ?_⟩
  · simp [Epoch.lt, plt]
  · simp [Epoch.sub]

/-- Algebra of `+` and `-` with numbers: `e + 0 = e`, `(e + x) + y = e + (x + y)`, `(e + x) - x = e`,
    `e - x = e + (-x)`, and `e₁ - e₂ = -(e₂ - e₁)`. -/
theorem add_algebra (e e₂ : Epoch) (x y : ℚ) (h0 : -1 / 2 ≤ e.jde) (hx : -1 / 2 ≤ e.jde + x)
    (hxy : -1 / 2 ≤ e.jde + x + y) :
    Epoch.add e (.num 0) = .ok e ∧
    (∃ a, Epoch.add e (.num x) = .ok a ∧ Epoch.add a (.num y) = Epoch.add e (.num (x + y))) ∧
    (∃ a, Epoch.add e (.num x) = .ok a ∧ Epoch.sub a (.num x) = .ok (.epoch e)) ∧
    Epoch.sub e (.num x) = (Epoch.add e (.num (-x))).map SubRes.epoch ∧
    (∃ u v, Epoch.sub e (.epoch e₂) = .ok (.days u) ∧ Epoch.sub e₂ (.epoch e) = .ok (.days v) ∧ u = -v) := by
  refine ⟨?_, ?_, ?_, ?_, ?_⟩
  · have := add_translates e 0 (by linarith)
    rw [this]; simp
  · refine ⟨_, add_translates e x hx, ?_⟩
    rw [add_translates _ y (by simpa using hxy), add_translates e (x + y) (by linarith)]
    simp [add_assoc]
  · refine ⟨_, add_translates e x hx, ?_⟩
    have : Epoch.init (.number (e.jde + x - x)) = .ok { jde := e.jde + x - x } := set_jde_exact _ (by linarith)
    simp only [Epoch.sub, this]
    simp
  · simp only [Epoch.sub, Epoch.add, sub_eq_add_neg]
    cases Epoch.init (.number (e.jde + -x)) <;> rfl
  · exact ⟨_, _, rfl, rfl, by ring⟩

/-! ### Calendar order is Julian-Day order (added in the last growth round) -/

/-- date -> JD is injective on civil dates (the "bijection" of C01 read from the other side; follows from
    `C01.roundtrip`). -/
theorem jd_injective (y m d y' m' d' : Int) (h : Valid y m d) (h' : Valid y' m' d')
    (e : compute_jde y m (ofInt d) = compute_jde y' m' (ofInt d')) : (y, m, d) = (y', m', d') := by
  have r := C01.roundtrip y m d h
  have r' := C01.roundtrip y' m' d' h'
  rw [e, r'] at r
  injection r with r
  simp only [Prod.mk.injEq] at r ⊢
  exact ⟨r.1.symm, r.2.1.symm, by exact_mod_cast r.2.2.symm⟩

/-- `dateLt` is asymmetric (a strict order), used below. -/
theorem dateLt_asymm (a b : Int × Int × Int) (h : dateLt a b) : ¬ dateLt b a := by
  unfold dateLt at *; omega

/-- A later Julian Day is a later civil date and conversely: for two civil dates the order of the day numbers
    computed by the constructor IS the lexicographic order of (year, month, day) - across month ends, year ends,
    the year 0 and the 1582 reform alike. -/
theorem jd_order_iff_date_order (y m d y' m' d' : Int) (h : Valid y m d) (h' : Valid y' m' d') :
    compute_jde y m (ofInt d) < compute_jde y' m' (ofInt d') ↔ dateLt (y, m, d) (y', m', d') := by
  have key : ∀ (a b c a' b' c' : Int), Valid a b c → Valid a' b' c' →
      compute_jde a b (ofInt c) < compute_jde a' b' (ofInt c') → dateLt (a, b, c) (a', b', c') := by
    intro a b c a' b' c' v v' hlt
    have e1 := compute_jde_int a b c v
    have e2 := compute_jde_int a' b' c' v'
    have hz0 : 0 ≤ jdnI a b c := by
      obtain ⟨hy, hm1, hm12, hd1, hdl, _⟩ := v
      unfold jdnI
      have e1 : ∀ Y : Int, 1461 * Y / 4 = 365 * Y + Y / 4 := by intro Y; omega
      simp only [e1, isJulianI]
      interval_cases b <;> simp <;> split_ifs <;> omega
    have hn : (0 : ℚ) ≤ (jdnI a b c : ℚ) := by exact_mod_cast hz0
    have h0 : -1 / 2 ≤ compute_jde a b (ofInt c) := by rw [e1]; linarith
    have hfl : ⌊compute_jde a b (ofInt c) + 1 / 2⌋ < ⌊compute_jde a' b' (ofInt c') + 1 / 2⌋ := by
      rw [e1, e2] at hlt ⊢
      have : (jdnI a b c : ℚ) < jdnI a' b' c' := by linarith
      have hz : jdnI a b c < jdnI a' b' c' := by exact_mod_cast this
      simpa using hz
    obtain ⟨y₁, m₁, d₁, y₂, m₂, d₂, g1, g2, hl⟩ := date_strictly_monotone _ _ h0 hfl
    rw [C01.roundtrip a b c v] at g1
    rw [C01.roundtrip a' b' c' v'] at g2
    injection g1 with g1; injection g2 with g2
    simp only [Prod.mk.injEq] at g1 g2
    obtain ⟨rfl, rfl, rfl⟩ := g1
    obtain ⟨rfl, rfl, rfl⟩ := g2
    simpa using hl
  constructor
  · exact key y m d y' m' d' h h'
  · intro hl
    rcases lt_trichotomy (compute_jde y m (ofInt d)) (compute_jde y' m' (ofInt d')) with l | e | g
    · exact l
    · have := jd_injective y m d y' m' d' h h' e
      simp only [Prod.mk.injEq] at this
      obtain ⟨rfl, rfl, rfl⟩ := this
      exact absurd hl (by unfold dateLt; omega)
    · exact absurd (key y' m' d' y m d h' h g) (dateLt_asymm _ _ hl)


-- Non-vacuity: the hypotheses are met by concrete, non-trivial inputs, and the conclusions are not
-- trivially true.
example : get_full_date (2436116.31 : ℚ) = .ok (1957, 10, 4, 19, 26, 24) := by decide +kernel
example : get_full_date (2299160.5 - 1 / 172800 : ℚ) = .ok (1582, 10, 4, 23, 59, 59.5) := by decide +kernel
example : get_full_date (2299160.5 : ℚ) = .ok (1582, 10, 15, 0, 0, 0) := by decide +kernel
example : civilDay 0 = (-4712, 1, 1) ∧ civilDay 60 = (-4712, 3, 1) := by decide +kernel
example : Valid 1582 10 4 ∧ (0 : ℚ) ≤ 59.99999999999 ∧ (59.99999999999 : ℚ) < 60 := by
  refine ⟨by decide, by norm_num, by norm_num⟩
example : fullLe (1582, 10, 4, 23, 59, 59.5) (1582, 10, 15, 0, 0, 0) ∧ ¬ fullLe (1582, 10, 15, 0, 0, 0) (1582, 10, 4, 23, 59, 59.5) := by
  unfold fullLe dateLt timeLe; constructor <;> norm_num
example : Epoch.init .two = .error .valueError ∧ Epoch.init .other = .error .typeError ∧
    Epoch.init .none = .ok { jde := 0.0 } := ⟨rfl, rfl, rfl⟩
example : py_strip_capitalize " oCtober " = months_full[9]! := by decide
example : Valid 2000 2 29 ∧ ((29 : ℚ) + 1 / 2 < (monthLen 2000 2 : ℚ) + 1) ∧ ¬ ((29 : ℚ) < (monthLen 1900 2 : ℚ) + 1) := by
  refine ⟨by decide, ?_, ?_⟩ <;> norm_num [monthLen, leap]
example : (match Epoch.init (.many (.ymd 2001 (.num 8) 31 [0, 0, 0])) with | .ok e => some e.jde | .error _ => none) = some 2452152.5 ∧
    (match Epoch.init (.many (.ymd 2001 (.num 9) 31 [0, 0, 0])) with | .ok e => some e.jde | .error _ => none) = none := by
  decide +kernel

example : Valid 1582 10 4 ∧ Valid 1582 10 15 ∧ dateLt (1582, 10, 4) (1582, 10, 15) ∧
    compute_jde 1582 10 (ofInt 4) < compute_jde 1582 10 (ofInt 15) := by
  refine ⟨by decide, by decide, by unfold dateLt; simp, by decide +kernel⟩

end Pymeeus.C02
