import Pymeeus.Refine.Calendar
import Pymeeus.Gen.Q.EpochOps
/-
C02 — Instants survive JDE <-> date/time; input forms agree; Epoch arithmetic.
-/
namespace Pymeeus.C02
open Pymeeus Pymeeus.PQ Pymeeus.GenQ

/-- "< orders Epochs as their JDE values" -/
theorem lt_iff (e1 e2 : Epoch) : Epoch.lt e1 (.epoch e2) = .ok (decide (e1.jde < e2.jde)) := rfl

end Pymeeus.C02
