import Pymeeus.Refine.AnglePrint
/-
C04 — Sexagesimal and right-ascension decomposition and printing are canonical.

Property theorems only.  They are statements about `Pymeeus.GenQ`, the exact-arithmetic instantiation
of templates/Angle.lean (`deg2dms`, `dms_tuple`, `ra_tuple`, and `dms_str` / `ra_str` up to the
`str.format` call: `dms_fields`, `dms_print`, `ra_print`), for EVERY rational |x| < 360 and EVERY
integer `n_dec`.  The reading of a printed form (`readback`, `signOnce`, `fieldsBelow`) is
Spec/Sexagesimal.lean.  `proundn s n` is Python's `round(s, n)` (half-even at decimal `n`).
-/
namespace Pymeeus.C04
open Pymeeus Pymeeus.PQ Pymeeus.GenQ Pymeeus.Refine Pymeeus.Spec

/-- "Splitting any Angle into (degrees, minutes, seconds, sign) gives integer degrees in [0, 360),
    integer minutes in [0, 60), seconds in [0, 60) and sign ±1, and recombining the pieces reproduces
    the value" — exactly, in the ideal arithmetic. -/
theorem split (a : Angle) (h : |a.deg| < 360) :
    ∃ (d m : ℤ) (s sg : ℚ), dms_tuple a = (d, m, s, sg) ∧
      0 ≤ d ∧ d < 360 ∧ 0 ≤ m ∧ m < 60 ∧ 0 ≤ s ∧ s < 60 ∧ (sg = 1 ∨ sg = -1) ∧
      sg * ((d : ℚ) + (m : ℚ) / 60 + s / 3600) = a.deg := by
  obtain ⟨d, m, s, sg, _, _, _, _, hs, _, hsg, d0, d1, m0, m1, s0, s1, hv, _⟩ :=
    dms_fields_full (L := 360) (le_refl _) (by exact_mod_cast h) 0
  exact ⟨d, m, s, sg, hs, d0, d1, m0, m1, s0, s1, hsg, hv⟩

example : dms_tuple ⟨-12.5125, TOL⟩ = (12, 30, 45, -1) := by decide +kernel

/-- "... or as right ascension in hours ... (hours in [0, 24))": the same for `ra_tuple`, recombining to
    the value divided by 15. -/
theorem split_ra (a : Angle) (h : |a.deg| < 360) :
    ∃ (hr m : ℤ) (s sg : ℚ), ra_tuple a = (hr, m, s, sg) ∧
      0 ≤ hr ∧ hr < 24 ∧ 0 ≤ m ∧ m < 60 ∧ 0 ≤ s ∧ s < 60 ∧ (sg = 1 ∨ sg = -1) ∧
      sg * ((hr : ℚ) + (m : ℚ) / 60 + s / 3600) = a.deg / 15 := by
  have h24 : |a.deg / 15| < ((24 : ℤ) : ℚ) := by
    rw [abs_div, abs_of_pos (by norm_num : (0 : ℚ) < 15), div_lt_iff₀ (by norm_num)]
    push_cast; linarith
  obtain ⟨d, m, s, sg, _, _, _, _, hs, _, hsg, d0, d1, m0, m1, s0, s1, hv, _⟩ :=
    dms_fields_full (L := 24) (by norm_num) h24 0
  refine ⟨d, m, s, sg, ?_, d0, d1, m0, m1, s0, s1, hsg, hv⟩
  unfold ra_tuple
  rw [show (15.0 : ℚ) = 15 by norm_num]; exact hs

example : ra_tuple ⟨345, TOL⟩ = (23, 0, 0, 1) := by decide +kernel

/-- "The printed forms never show 60 in the minutes or seconds field": after the rounding / carry
    chain of `dms_str`, for every `n_dec` (negative = no rounding), the fields are canonical again. -/
theorem fields_carry (x : ℚ) (n : ℤ) (h : |x| < 360) :
    ∃ (D M : ℤ) (S sg : ℚ), dms_fields x n = (D, M, S, sg) ∧
      0 ≤ D ∧ D < 360 ∧ 0 ≤ M ∧ M < 60 ∧ 0 ≤ S ∧ S < 60 ∧ (sg = 1 ∨ sg = -1) := by
  obtain ⟨_, _, _, sg, D, M, S, _, _, hf, hsg, _, _, _, _, _, _, _, D0, D1, _, M0, M1, S0, S1, _⟩ :=
    dms_fields_full (L := 360) (le_refl _) (by exact_mod_cast h) n
  exact ⟨D, M, S, sg, hf, D0, D1, M0, M1, S0, S1, hsg⟩

example : dms_fields (359 + 59 / 60 + 59.9999 / 3600) 2 = (0, 0, 0, 1) ∧
    dms_fields (-(10 + 59.9999 / 3600)) 0 = (10, 1, 0, -1) ∧
    dms_fields (23 + 59 / 60 + 59.4 / 3600) 0 = (23, 59, 59, 1) := by decide +kernel

/-- "... and read back to the value rounded at the requested decimal, modulo 360 degrees": the fields
    after the carry chain recombine, up to a whole turn, to the split value with its seconds field
    rounded half-even at decimal `n` — exactly for `n ≤ 10`; for `n ≥ 11` the carry threshold
    `abs(s - 60.0) < 1e-10` may act on a rounded value that is not yet 60, which moves the result by
    less than 1e-10 arcsecond (`e`).  With `n < 0` nothing is rounded. -/
theorem fields_value (x : ℚ) (n : ℤ) (h : |x| < 360) :
    ∃ (d m : ℤ) (s sg : ℚ) (D M : ℤ) (S : ℚ),
      deg2dms x = (d, m, s, sg) ∧ dms_fields x n = (D, M, S, sg) ∧
      (n < 0 → sg * ((D : ℚ) + (M : ℚ) / 60 + S / 3600) = x) ∧
      (0 ≤ n → ∃ (k : ℤ) (e : ℚ), |e| < 1e-10 ∧ (n ≤ 10 → e = 0) ∧
        sg * ((D : ℚ) + (M : ℚ) / 60 + S / 3600) =
          sg * ((d : ℚ) + (m : ℚ) / 60 + (proundn s n + e) / 3600) + 360 * k) ∧
      |sg * ((d : ℚ) + (m : ℚ) / 60 + proundn s n / 3600) - x| ≤ 1 / (2 * pow10 n) / 3600 := by
  obtain ⟨d, m, s, sg, D, M, S, e, hs, hf, hsg, _, _, _, _, _, _, hv, _, _, _, _, _, _, _, hneg, hpos⟩ :=
    dms_fields_full (L := 360) (le_refl _) (by exact_mod_cast h) n
  refine ⟨d, m, s, sg, D, M, S, hs, hf, fun hn => ?_, fun hn => ?_, ?_⟩
  · obtain ⟨e1, e2, e3⟩ := hneg hn
    rw [e1, e2, e3]; exact hv
  · obtain ⟨he, he10, hval⟩ := hpos hn
    rcases hval with hv' | hv'
    · exact ⟨0, e, he, he10, by rw [hv']; push_cast; ring⟩
    · rcases hsg with e1 | e1
      · exact ⟨-1, e, he, he10, by rw [hv', e1]; push_cast; ring⟩
      · exact ⟨1, e, he, he10, by rw [hv', e1]; push_cast; ring⟩
  · have hr := proundn_spec s n
    have hp := pow10_pos n
    have e0 : sg * ((d : ℚ) + (m : ℚ) / 60 + proundn s n / 3600) - x = sg * ((proundn s n - s) / 3600) := by
      rw [← hv]; ring
    rw [e0, abs_mul, abs_div, abs_of_pos (by norm_num : (0 : ℚ) < 3600)]
    have hsgabs : |sg| = 1 := by rcases hsg with e1 | e1 <;> rw [e1] <;> norm_num
    rw [hsgabs, one_mul, abs_sub_comm]
    exact div_le_div_of_nonneg_right hr (by norm_num)

/-- "carry the sign exactly once on the leading non-zero field": what `dms_str` hands to the formatter
    has a non-zero leading field carrying the sign and non-negative later fields, shows no 60 and no 360,
    and a reader gets back `sign * (D + M/60 + S/3600)` of the fields after the carry chain — for both
    styles (they differ only in the literal text between the fields). -/
theorem sign_once (x : ℚ) (n : ℤ) (h : |x| < 360) :
    signOnce (dms_print x n) ∧ fieldsBelow 360 (dms_print x n) ∧
    ∃ (D M : ℤ) (S sg : ℚ), dms_fields x n = (D, M, S, sg) ∧
      readback (dms_print x n) = sg * ((D : ℚ) + (M : ℚ) / 60 + S / 3600) := by
  obtain ⟨D, M, S, sg, hf, D0, D1, M0, M1, S0, S1, hsg⟩ := fields_carry x n h
  obtain ⟨h1, h2, h3⟩ := dms_print_spec hf D0 M0 S0 hsg
  exact ⟨h1, h3 360 D1 M1 S1, D, M, S, sg, hf, h2⟩

/-- Read-back of the printed form, end to end: with no rounding (`n_dec < 0`) the printed value IS the
    Angle's value; with `0 ≤ n_dec ≤ 10` it is, modulo 360, the value with its seconds rounded half-even
    at decimal `n_dec`, which is within half a unit of that decimal (in arcseconds) of the value. -/
theorem print_reads_back (x : ℚ) (n : ℤ) (h : |x| < 360) :
    (n < 0 → readback (dms_print x n) = x) ∧
    (0 ≤ n → n ≤ 10 → ∃ k : ℤ, |readback (dms_print x n) + 360 * k - x| ≤ 1 / (2 * pow10 n) / 3600) := by
  obtain ⟨_, _, D, M, S, sg, hf, hrb⟩ := sign_once x n h
  obtain ⟨d, m, s, sg', D', M', S', hs, hf', hneg, hpos, hclose⟩ := fields_value x n h
  rw [hf] at hf'
  have e1 : D' = D := by injection hf' with a b; exact a.symm
  have e2 : M' = M := by injection hf' with a b; injection b with b c; exact b.symm
  have e3 : S' = S := by injection hf' with a b; injection b with b c; injection c with c d'; exact c.symm
  have e4 : sg' = sg := by injection hf' with a b; injection b with b c; injection c with c d'; exact d'.symm
  subst e1 e2 e3 e4
  refine ⟨fun hn => by rw [hrb]; exact hneg hn, fun hn h10 => ?_⟩
  obtain ⟨k, e, _, he0, hval⟩ := hpos hn
  refine ⟨-k, ?_⟩
  rw [hrb, hval, he0 h10]
  have : sg' * ((d : ℚ) + (m : ℚ) / 60 + (proundn s n + 0) / 3600) + 360 * (k : ℚ) + 360 * ((-k : ℤ) : ℚ) - x =
      sg' * ((d : ℚ) + (m : ℚ) / 60 + proundn s n / 3600) - x := by push_cast; ring
  rw [this]; exact hclose

/-- Right ascension: `ra_str` prints the fields of `value / 15`; minutes and seconds stay below 60, the
    sign is carried once, and the hour field is at most 24 (it is not wrapped: `if d >= 360.0: d -= 360.0`
    of `dms_str` is in degrees; the property only asks the printed RA to read back modulo 24 h, see
    `ra_reads_back`, and `ra_hour_field_can_be_24` for the observation). Without rounding the hour field
    is below 24 and the print reads back exactly. -/
theorem ra_print_fields (x : ℚ) (n : ℤ) (h : |x| < 360) :
    ∃ p : Printed, ra_print x n = .ok p ∧ signOnce p ∧ fieldsBelow 25 p ∧
      (n < 0 → fieldsBelow 24 p ∧ readback p = x / 15) := by
  have h24 : |x / 15| < ((24 : ℤ) : ℚ) := by
    rw [abs_div, abs_of_pos (by norm_num : (0 : ℚ) < 15), div_lt_iff₀ (by norm_num)]
    push_cast; linarith
  obtain ⟨d, m, s, sg, D, M, S, _, _, hf, hsg, _, d1, _, _, _, _, hv, D0, _, D2, M0, M1, S0, S1, hneg, _⟩ :=
    dms_fields_full (L := 24) (by norm_num) h24 n
  obtain ⟨h1, h2, h3⟩ := dms_print_spec hf D0 M0 S0 hsg
  refine ⟨dms_print (x / 15) n, ra_print_eq h n, h1, h3 25 (by omega) M1 S1, fun hn => ?_⟩
  obtain ⟨e1, e2, e3⟩ := hneg hn
  refine ⟨h3 24 (by omega) M1 S1, ?_⟩
  rw [h2, e1, e2, e3]; exact hv

/-- Right ascension read-back: what `ra_str` prints reads back (no modulus needed: the hour field is
    never wrapped) to `value / 15` with its seconds rounded half-even at decimal `n_dec`, which is
    within half a unit of that decimal of `value / 15`; hence also "modulo 24 h". -/
theorem ra_reads_back (x : ℚ) (n : ℤ) (h : |x| < 360) (hn : 0 ≤ n) (h10 : n ≤ 10) :
    ∃ p : Printed, ra_print x n = .ok p ∧ |readback p - x / 15| ≤ 1 / (2 * pow10 n) / 3600 := by
  have h24 : |x / 15| < ((24 : ℤ) : ℚ) := by
    rw [abs_div, abs_of_pos (by norm_num : (0 : ℚ) < 15), div_lt_iff₀ (by norm_num)]
    push_cast; linarith
  obtain ⟨d, m, s, sg, D, M, S, e, _, hf, hsg, d0, d1, m0, m1, s0, s1, hv, D0, _, _, M0, _, S0, _, _, hpos⟩ :=
    dms_fields_full (L := 24) (by norm_num) h24 n
  obtain ⟨_, h2, _⟩ := dms_print_spec hf D0 M0 S0 hsg
  obtain ⟨_, he0, hval⟩ := hpos hn
  have hs60 : proundn s n ≤ ((60 : ℤ) : ℚ) := proundn_le_int (by push_cast; linarith) hn
  push_cast at hs60
  have hDq : (0 : ℚ) ≤ (D : ℚ) := by exact_mod_cast D0
  have hMq : (0 : ℚ) ≤ (M : ℚ) := by exact_mod_cast M0
  have hdq : (d : ℚ) ≤ 23 := by exact_mod_cast (by omega : d ≤ 23)
  have hmq : (m : ℚ) ≤ 59 := by exact_mod_cast (by omega : m ≤ 59)
  rw [he0 h10] at hval
  have hval' : (D : ℚ) + (M : ℚ) / 60 + S / 3600 = (d : ℚ) + (m : ℚ) / 60 + proundn s n / 3600 := by
    rcases hval with hv' | hv'
    · rw [hv']; ring
    · exfalso
      have : (0 : ℚ) ≤ (D : ℚ) + (M : ℚ) / 60 + S / 3600 := by positivity
      linarith
  refine ⟨dms_print (x / 15) n, ra_print_eq h n, ?_⟩
  rw [h2, hval']
  have hr := proundn_spec s n
  have hp := pow10_pos n
  have e0 : sg * ((d : ℚ) + (m : ℚ) / 60 + proundn s n / 3600) - x / 15 = sg * ((proundn s n - s) / 3600) := by
    rw [← hv]; ring
  rw [e0, abs_mul, abs_div, abs_of_pos (by norm_num : (0 : ℚ) < 3600)]
  have hsgabs : |sg| = 1 := by rcases hsg with e1 | e1 <;> rw [e1] <;> norm_num
  rw [hsgabs, one_mul, abs_sub_comm]
  exact div_le_div_of_nonneg_right hr (by norm_num)

/-- OBSERVATION (not demanded by the property, which reads printed RA modulo 24 h): the hour field of
    `ra_str` can be 24. `Angle(359.9999).ra_str(n_dec=0)` prints "24h 0' 0.0''". -/
theorem ra_hour_field_can_be_24 : ra_print 359.9999 0 = .ok (.dms 24 0 0) ∧ ¬ fieldsBelow 24 (.dms 24 0 0) := by
  constructor
  · exact printsDms_iff (by decide +kernel)
  · simp [fieldsBelow]

/-! ### Growth round: decimals shown, sign of the print, independence of the tolerance, split after `to_positive` -/

/-- "any number of decimals": with `n_dec ≥ 0` the seconds handed to the formatter are a whole multiple of
    `10 ** -n_dec` (so at most `n_dec` decimals are shown), for every value. -/
theorem seconds_have_n_decimals (x : ℚ) (n : ℤ) (h : |x| < 360) (hn : 0 ≤ n) :
    ∃ k : ℤ, (dms_fields x n).2.2.1 = (k : ℚ) / pow10 n := by
  obtain ⟨d, m, s, sg, _, _, _, _, hs, _⟩ := dms_fields_full (L := 360) (le_refl _) (by exact_mod_cast h) n
  rcases dms_fields_seconds_form hs hn with e | e
  · exact ⟨0, by rw [e]; simp⟩
  · rw [e]; exact proundn_multiple s n

example : (dms_fields (12 + 34 / 60 + 56.789 / 3600) 2).2.2.1 = 5679 / pow10 2 := by decide +kernel

/-- The sign a reader sees is the sign of the value: a positive Angle never prints negative and a
    negative one never prints positive (a print of 0 has no sign), for every `n_dec`. -/
theorem print_sign (x : ℚ) (n : ℤ) (h : |x| < 360) :
    (0 < x → 0 ≤ readback (dms_print x n)) ∧ (x < 0 → readback (dms_print x n) ≤ 0) := by
  obtain ⟨d, m, s, sg, D, M, S, _, _, hf, hsg, d0, _, m0, _, s0, _, hv, D0, _, _, M0, _, S0, _, _, _⟩ :=
    dms_fields_full (L := 360) (le_refl _) (by exact_mod_cast h) n
  obtain ⟨_, h2, _⟩ := dms_print_spec hf D0 M0 S0 hsg
  have hd : (0 : ℚ) ≤ d := by exact_mod_cast d0
  have hm : (0 : ℚ) ≤ m := by exact_mod_cast m0
  have hD : (0 : ℚ) ≤ D := by exact_mod_cast D0
  have hM : (0 : ℚ) ≤ M := by exact_mod_cast M0
  have hb : (0 : ℚ) ≤ (d : ℚ) + (m : ℚ) / 60 + s / 3600 := by positivity
  have hB : (0 : ℚ) ≤ (D : ℚ) + (M : ℚ) / 60 + S / 3600 := by positivity
  rw [h2]
  rcases hsg with e | e
  · subst e
    exact ⟨fun _ => by linarith, fun hx => by linarith⟩
  · subst e
    exact ⟨fun hx => by linarith, fun _ => by linarith⟩

example : readback (dms_print 0 3) = 0 ∧ readback (dms_print (-1 / 7200000) 2) = 0 := by decide +kernel

/-- The printed forms depend on the Angle's value only, not on its comparison tolerance (the carry
    thresholds are the module constant `TOL`). -/
theorem print_independent_of_tolerance (a b : Angle) (n : ℤ) (h : a.deg = b.deg) :
    angle_dms_print a n = angle_dms_print b n ∧ angle_ra_print a n = angle_ra_print b n := by
  unfold angle_dms_print angle_ra_print; rw [h]; exact ⟨rfl, rfl⟩

example : angle_dms_print ⟨10 + 59.7 / 3600, 0.5⟩ 0 = angle_dms_print ⟨10 + 59.7 / 3600, TOL⟩ 0 := rfl

/-- The split of the positive form is the split of the NEW value: for a negative Angle,
    `a.to_positive().dms_tuple()` has sign +1 and recombines to `a + 360` (no stale decomposition in
    the functional model; object-level memoisation is C20's subject). -/
theorem split_after_to_positive (a : Angle) (h : |a.deg| < 360) (hneg : a.deg < 0) :
    ∃ (d m : ℤ) (s : ℚ), dms_tuple (to_positive a) = (d, m, s, 1) ∧ 0 ≤ d ∧ d < 360 ∧ 0 ≤ m ∧ m < 60 ∧
      0 ≤ s ∧ s < 60 ∧ (d : ℚ) + (m : ℚ) / 60 + s / 3600 = a.deg + 360 := by
  have habs := abs_lt.mp h
  have hp : (to_positive a).deg = a.deg + 360 := by
    unfold to_positive
    have hp : plt a.deg 0 = true := by rw [plt_iff]; exact hneg
    have hd : ¬ (ple 360.0 (360.0 - pabs a.deg) = true) := by
      rw [ple_iff, pabs_eq, abs_of_neg hneg]; norm_num; linarith
    rw [if_pos hp]; simp only [hd]
    rw [pabs_eq, abs_of_neg hneg]; norm_num; ring
  have hr : |(to_positive a).deg| < 360 := by rw [hp, abs_lt]; constructor <;> linarith [habs.1]
  have hpos : 0 ≤ (to_positive a).deg := by rw [hp]; linarith [habs.1]
  have hsplit := deg2dms_of_lt hr
  obtain ⟨d0, d1, m0, m1, s0, s1, hrec⟩ := split_spec (L := 360) (abs_nonneg _) (by exact_mod_cast hr)
  refine ⟨_, _, _, ?_, d0, d1, m0, m1, s0, s1, ?_⟩
  · unfold dms_tuple; rw [hsplit, if_pos hpos]
  · rw [hrec, abs_of_nonneg hpos, hp]

/-- The minutes -> degrees carry is taken when the seconds carry produced it, for either sign, and the
    degrees field grows by one (it is the unsigned field). -/
example : dms_fields (10 + 59 / 60 + 59.9999 / 3600) 0 = (11, 0, 0, 1) ∧
    dms_fields (-(10 + 59 / 60 + 59.9999 / 3600)) 0 = (11, 0, 0, -1) ∧
    dms_fields (-(10 + 59 / 60 + 59.9999 / 3600)) 4 = (10, 59, 59.9999, -1) := by decide +kernel

/-- With no rounding requested (`n_dec < 0`) `dms_str` prints exactly the fields `dms_tuple` returns,
    for every value. -/
theorem fields_unrounded_eq_tuple (a : Angle) (n : ℤ) (hn : n < 0) : dms_fields a.deg n = dms_tuple a := by
  unfold dms_fields dms_tuple
  have : ¬ (n ≥ 0) := by omega
  simp only [this, if_false]

/-- Splitting and rebuilding is the identity: for every Angle value, feeding the pieces of `dms_tuple`
    (each multiplied by the returned sign, as `Angle(sign*d, sign*m, sign*s)` does) back through
    `dms2deg` returns exactly the value — the two formulas of the library are inverse to each other,
    including `(0, -m, s)` for values in (-1, 0) and the all-zero split. -/
theorem rebuild_from_split (x : ℚ) (h : |x| < 360) :
    ∃ (d m : ℤ) (s sg : ℚ), deg2dms x = (d, m, s, sg) ∧ dms2deg (sg * d) (sg * m) (sg * s) = x := by
  obtain ⟨d, m, s, sg, _, _, _, _, hs, _, hsg, d0, d1, m0, m1, s0, s1, hv, _⟩ :=
    dms_fields_full (L := 360) (le_refl _) (by exact_mod_cast h) 0
  refine ⟨d, m, s, sg, hs, ?_⟩
  have hd : (0 : ℚ) ≤ d := by exact_mod_cast d0
  have hm : (0 : ℚ) ≤ m := by exact_mod_cast m0
  have hd1 : (d : ℚ) ≤ 359 := by exact_mod_cast (by omega : d ≤ 359)
  have hm1 : (m : ℚ) ≤ 59 := by exact_mod_cast (by omega : m ≤ 59)
  set V : ℚ := (d : ℚ) + (m : ℚ) / 60 + s / 3600 with hV
  have hV0 : 0 ≤ V := by rw [hV]; positivity
  have hV1 : V < 360 := by rw [hV]; linarith
  obtain ⟨P, hP, hP0, hP1, k, hk⟩ := reduce_dms_value (sg * d) (sg * m) (sg * s)
  have habs : |sg * (d : ℚ)| + |sg * (m : ℚ)| / 60 + |sg * s| / 3600 = V := by
    have e : |sg| = 1 := by rcases hsg with e | e <;> rw [e] <;> norm_num
    rw [abs_mul, abs_mul, abs_mul, e, abs_of_nonneg hd, abs_of_nonneg hm, abs_of_nonneg s0]; ring
  rw [habs] at hk
  have hk0 : k = 0 := by
    have h1 : (360 : ℚ) * k < 360 := by linarith
    have h2 : -(360 : ℚ) < 360 * k := by linarith
    have h3 : (k : ℚ) < 1 := by linarith
    have h4 : (-1 : ℚ) < k := by linarith
    have h5 : k < 1 := by exact_mod_cast h3
    have h6 : -1 < k := by exact_mod_cast h4
    omega
  rw [hk0] at hk
  have hPV : P = V := by push_cast at hk; linarith
  rw [hP, hPV, ← hv]
  by_cases hz : V = 0
  · rw [hz]; ring
  · congr 1
    have hVpos : 0 < V := lt_of_le_of_ne hV0 (Ne.symm hz)
    unfold dmsSign
    rcases hsg with e | e
    · subst e
      rw [if_neg]; push Not
      exact ⟨by linarith, by linarith, by linarith⟩
    · subst e
      rw [if_pos]
      by_contra hcon
      push Not at hcon
      obtain ⟨c1, c2, c3⟩ := hcon
      have : V = 0 := by rw [hV]; nlinarith
      exact hz this

example : dms2deg 0 (-5) (-30) = -(5 / 60 + 30 / 3600) ∧ deg2dms (-(5 / 60 + 30 / 3600)) = (0, 5, 30, -1) := by
  decide +kernel

/-- The rounding carry fires exactly at the boundary (for `0 ≤ n_dec ≤ 10`): if the seconds rounded at
    `n_dec` are not 60 the printed fields are the split fields with the rounded seconds, untouched;
    if they are exactly 60 the seconds show 0 and minutes / degrees advance by one minute with the
    wrap-arounds `60' -> 1d` and `360d -> 0d` — for EVERY value, including the boundary values themselves. -/
theorem carry_exactly_at_sixty (x : ℚ) (n : ℤ) (h : |x| < 360) (hn : 0 ≤ n) (h10 : n ≤ 10) :
    ∃ (d m : ℤ) (s sg : ℚ), deg2dms x = (d, m, s, sg) ∧
      (proundn s n ≠ 60 → dms_fields x n = (d, m, proundn s n, sg)) ∧
      (proundn s n = 60 → dms_fields x n = ((d + (m + 1) / 60) % 360, (m + 1) % 60, 0, sg)) := by
  obtain ⟨d, m, s, sg, D, M, S, e, hs, hf, hsg, d0, d1, m0, m1, s0, s1, hv, D0, D1, _, M0, M1, S0, S1, _, hpos⟩ :=
    dms_fields_full (L := 360) (le_refl _) (by exact_mod_cast h) n
  obtain ⟨_, he0, hval⟩ := hpos hn
  rw [he0 h10, add_zero] at hval
  have hform := dms_fields_seconds_form hs hn
  rw [hf] at hform
  simp only at hform
  have hs'0 := proundn_nonneg s0 n
  have hs'60 : proundn s n ≤ ((60 : ℤ) : ℚ) := proundn_le_int (by push_cast; linarith) hn
  push_cast at hs'60
  have hDq : (0 : ℚ) ≤ (D : ℚ) := by exact_mod_cast D0
  have hMq : (0 : ℚ) ≤ (M : ℚ) := by exact_mod_cast M0
  have hdq : (d : ℚ) ≤ 359 := by exact_mod_cast (by omega : d ≤ 359)
  have hmq : (m : ℚ) ≤ 59 := by exact_mod_cast (by omega : m ≤ 59)
  have hd0q : (0 : ℚ) ≤ (d : ℚ) := by exact_mod_cast d0
  have hm0q : (0 : ℚ) ≤ (m : ℚ) := by exact_mod_cast m0
  refine ⟨d, m, s, sg, hs, fun hne => ?_, fun heq => ?_⟩
  · -- no carry: the rounded seconds are below 60, so both sides are canonical and equal field by field
    have hlt : proundn s n < 60 := lt_of_le_of_ne hs'60 hne
    have hval' : (D : ℚ) + (M : ℚ) / 60 + S / 3600 = (d : ℚ) + (m : ℚ) / 60 + proundn s n / 3600 := by
      rcases hval with hv' | hv'
      · exact hv'
      · exfalso
        have : (0 : ℚ) ≤ (D : ℚ) + (M : ℚ) / 60 + S / 3600 := by positivity
        linarith
    have hS : S = proundn s n := by
      rcases hform with e0 | e0
      · -- S = 0: then 3600 (D - d) + 60 (M - m) = s', a multiple of 60 in [0, 60): s' = 0
        have hj : proundn s n = 60 * (((60 * (D - d) + (M - m) : ℤ)) : ℚ) := by
          rw [e0] at hval'; push_cast; linarith
        set j : ℤ := 60 * (D - d) + (M - m) with hjdef
        have hj1 : (j : ℚ) < 1 := by linarith
        have hj0 : (-1 : ℚ) < j := by linarith
        have : j = 0 := by
          have a1 : j < 1 := by exact_mod_cast hj1
          have a2 : -1 < j := by exact_mod_cast hj0
          omega
        rw [hj, this, e0]; simp
      · exact e0
    have hDM : 60 * D + M = 60 * d + m := by
      have : (60 : ℚ) * D + M = 60 * d + m := by rw [hS] at hval'; linarith
      exact_mod_cast this
    have hM : M = m := by omega
    have hD : D = d := by omega
    rw [hf, hD, hM, hS]
  · -- carry: seconds show 0, one minute is added with wrap-arounds
    have hS : S = 0 := by
      rcases hform with e0 | e0
      · exact e0
      · exfalso; rw [e0, heq] at S1; exact lt_irrefl _ S1
    rw [hS, heq] at hval
    have hDM : 60 * D + M = 60 * d + m + 1 ∨ 60 * D + M = 60 * d + m + 1 - 21600 := by
      rcases hval with hv' | hv'
      · left
        have : (60 : ℚ) * D + M = 60 * d + m + 1 := by linarith
        exact_mod_cast this
      · right
        have : (60 : ℚ) * D + M = 60 * d + m + 1 - 21600 := by linarith
        exact_mod_cast this
    have hM : M = (m + 1) % 60 := by omega
    have hD : D = (d + (m + 1) / 60) % 360 := by omega
    rw [hf, hD, hM, hS]

/-- just below the boundary nothing carries; at the boundary it does -/
example : dms_fields (10 + 59.94 / 3600) 1 = (10, 0, 59.9, 1) ∧ dms_fields (10 + 59.96 / 3600) 1 = (10, 1, 0, 1) ∧
    proundn 59.96 1 = 60 := by decide +kernel

end Pymeeus.C04
