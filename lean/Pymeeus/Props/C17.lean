import Pymeeus.Refine.CurveFitting
import Pymeeus.Refine.CurveFittingR
/-
C17 — Curve fitting returns the least-squares solution.

Property theorems only (helpers: Lemmas/LeastSquares.lean, Refine/CurveFitting.lean,
Refine/CurveFittingR.lean).  The statements are about `Pymeeus.GenQ.CurveFitting`, the exact
(rational) instantiation of the model lean/templates/CurveFitting.lean, and — for the correlation
coefficient, which needs a square root — about `Pymeeus.GenR.CurveFitting` (real numbers).
Data sets are lists of ANY length; `S l f` is the sum of `f` over the list `l`.
`TOL = 1e-10` is the code's own determinant guard.
-/
namespace Pymeeus.C17
open Pymeeus Pymeeus.PQ Pymeeus.GenQ.CurveFitting Pymeeus.LS Pymeeus.Refine.CurveFitting

/-! ### Normal equations ("leave residuals orthogonal to every basis function") -/

/-- Linear fit `y = a x + b` of `CurveFitting(xs, ys)`: the residuals are orthogonal to `x` and to `1`. -/
theorem linear_normal_equations (xs ys : List ℚ) (o : Fit) (a b : ℚ)
    (hset : GenQ.CurveFitting.set [.list xs, .list ys] = .ok o) (hfit : linear_fitting o = .ok (a, b)) :
    S (xs.zip ys) (fun p => (p.2 - (a * p.1 + b)) * p.1) = 0 ∧
    S (xs.zip ys) (fun p => p.2 - (a * p.1 + b)) = 0 := by
  obtain ⟨rfl, hlen⟩ := set_two_lists_ok hset
  exact linear_normal _ (ne_nil_of_two_le hlen) a b hfit

/-- Quadratic fit `y = a x² + b x + c`: the residuals are orthogonal to `x²`, `x` and `1`. -/
theorem quadratic_normal_equations (xs ys : List ℚ) (o : Fit) (a b c : ℚ)
    (hset : GenQ.CurveFitting.set [.list xs, .list ys] = .ok o) (hfit : quadratic_fitting o = .ok (a, b, c)) :
    S (xs.zip ys) (fun p => (p.2 - (a * (p.1 * p.1) + b * p.1 + c * 1)) * (p.1 * p.1)) = 0 ∧
    S (xs.zip ys) (fun p => (p.2 - (a * (p.1 * p.1) + b * p.1 + c * 1)) * p.1) = 0 ∧
    S (xs.zip ys) (fun p => (p.2 - (a * (p.1 * p.1) + b * p.1 + c * 1)) * 1) = 0 := by
  obtain ⟨rfl, hlen⟩ := set_two_lists_ok hset
  exact quadratic_normal _ (ne_nil_of_two_le hlen) a b c hfit

/-- General fit `y = a f0(x) + b f1(x) + c f2(x)` of an object holding the points `pts`: the residuals of
    the returned coefficients are orthogonal to `f0`, and to `f1` / `f2` unless the code treated that function
    as absent (`Σ f_k(x_i)² < TOL`; the coefficient returned for it is then `0`). -/
theorem general_normal_equations (pts : List (ℚ × ℚ)) (f0 f1 f2 : ℚ → ℚ) (a b c : ℚ)
    (hfit : general_fitting (fit_of pts) f0 f1 f2 = .ok (a, b, c)) :
    S pts (fun p => (p.2 - (a * f0 p.1 + b * f1 p.1 + c * f2 p.1)) * f0 p.1) = 0 ∧
    (TOL ≤ |S pts (fun p => f1 p.1 * f1 p.1)| →
      S pts (fun p => (p.2 - (a * f0 p.1 + b * f1 p.1 + c * f2 p.1)) * f1 p.1) = 0) ∧
    (TOL ≤ |S pts (fun p => f2 p.1 * f2 p.1)| →
      S pts (fun p => (p.2 - (a * f0 p.1 + b * f1 p.1 + c * f2 p.1)) * f2 p.1) = 0) := by
  unfold general_fitting at hfit
  rw [(fit_of_fields pts).1, (fit_of_fields pts).2.1, List.map_map, List.map_map, List.map_map] at hfit
  exact general_normal pts (fun p => f0 p.1) (fun p => f1 p.1) (fun p => f2 p.1) (fun p => p.2) a b c hfit

/-! ### Least squares ("return the least-squares coefficients") -/

/-- No other straight line has a smaller sum of squared residuals. -/
theorem linear_least_squares (xs ys : List ℚ) (o : Fit) (a b : ℚ)
    (hset : GenQ.CurveFitting.set [.list xs, .list ys] = .ok o) (hfit : linear_fitting o = .ok (a, b))
    (a' b' : ℚ) :
    S (xs.zip ys) (fun p => (p.2 - (a * p.1 + b)) ^ 2) ≤ S (xs.zip ys) (fun p => (p.2 - (a' * p.1 + b')) ^ 2) := by
  obtain ⟨h0, h1⟩ := linear_normal_equations xs ys o a b hset hfit
  have k0 : S (xs.zip ys) (fun p => (p.2 - (a * p.1 + b * 1 + 0 * 0)) * p.1) = 0 := by
    exact (S_congr (fun p _ => by ring)).trans h0
  have k1 : S (xs.zip ys) (fun p => (p.2 - (a * p.1 + b * 1 + 0 * 0)) * 1) = 0 := by
    exact (S_congr (fun p _ => by ring)).trans h1
  have k2 : S (xs.zip ys) (fun p => (p.2 - (a * p.1 + b * 1 + 0 * 0)) * 0) = 0 := by
    rw [S_congr (g := fun _ => (0 : ℚ)) (fun p _ => mul_zero _), S_zero]
  have := sse_min (xs.zip ys) (fun p => p.2) (fun p => p.1) (fun _ => 1) (fun _ => 0) a b 0 k0 k1 k2 a' b' 0
  calc S (xs.zip ys) (fun p => (p.2 - (a * p.1 + b)) ^ 2)
      = S (xs.zip ys) (fun p => (p.2 - (a * p.1 + b * 1 + 0 * 0)) ^ 2) := S_congr (fun p _ => by ring)
    _ ≤ S (xs.zip ys) (fun p => (p.2 - (a' * p.1 + b' * 1 + 0 * 0)) ^ 2) := this
    _ = S (xs.zip ys) (fun p => (p.2 - (a' * p.1 + b')) ^ 2) := S_congr (fun p _ => by ring)

/-- No other parabola has a smaller sum of squared residuals. -/
theorem quadratic_least_squares (xs ys : List ℚ) (o : Fit) (a b c : ℚ)
    (hset : GenQ.CurveFitting.set [.list xs, .list ys] = .ok o) (hfit : quadratic_fitting o = .ok (a, b, c))
    (a' b' c' : ℚ) :
    S (xs.zip ys) (fun p => (p.2 - (a * (p.1 * p.1) + b * p.1 + c * 1)) ^ 2)
      ≤ S (xs.zip ys) (fun p => (p.2 - (a' * (p.1 * p.1) + b' * p.1 + c' * 1)) ^ 2) := by
  obtain ⟨h0, h1, h2⟩ := quadratic_normal_equations xs ys o a b c hset hfit
  exact sse_min (xs.zip ys) (fun p => p.2) (fun p => p.1 * p.1) (fun p => p.1) (fun _ => 1) a b c h0 h1 h2 a' b' c'

/-- General fit: no other coefficient triple has a smaller sum of squared residuals, provided each of `f1`, `f2`
    is either present for the code (`Σ f_k² ≥ TOL`) or identically zero on the abscissae (the default
    `lambda: 0.0` of a missing function). -/
theorem general_least_squares (pts : List (ℚ × ℚ)) (f0 f1 f2 : ℚ → ℚ) (a b c : ℚ)
    (hfit : general_fitting (fit_of pts) f0 f1 f2 = .ok (a, b, c))
    (hf1 : TOL ≤ |S pts (fun p => f1 p.1 * f1 p.1)| ∨ ∀ p ∈ pts, f1 p.1 = 0)
    (hf2 : TOL ≤ |S pts (fun p => f2 p.1 * f2 p.1)| ∨ ∀ p ∈ pts, f2 p.1 = 0) (a' b' c' : ℚ) :
    S pts (fun p => (p.2 - (a * f0 p.1 + b * f1 p.1 + c * f2 p.1)) ^ 2)
      ≤ S pts (fun p => (p.2 - (a' * f0 p.1 + b' * f1 p.1 + c' * f2 p.1)) ^ 2) := by
  obtain ⟨h0, h1, h2⟩ := general_normal_equations pts f0 f1 f2 a b c hfit
  have zero_col : ∀ (f g : ℚ → ℚ), (∀ p ∈ pts, f p.1 = 0) →
      S pts (fun p => (p.2 - (a * f0 p.1 + b * f1 p.1 + c * f2 p.1)) * f p.1) = 0 := by
    intro f g hz
    rw [S_congr (g := fun _ => (0 : ℚ)) (fun p hp => by rw [hz p hp, mul_zero]), S_zero]
  have k1 := hf1.elim h1 (zero_col f1 f1)
  have k2 := hf2.elim h2 (zero_col f2 f2)
  exact sse_min pts (fun p => p.2) (fun p => f0 p.1) (fun p => f1 p.1) (fun p => f2 p.1) a b c h0 k1 k2 a' b' c'

/-! ### Uniqueness ("match an exact rational solution of the normal equations") -/

/-- The linear fit is THE solution of the normal equations: any pair `(a', b')` whose residuals are orthogonal to
    `x` and `1` equals the returned pair. -/
theorem linear_solution_unique (xs ys : List ℚ) (o : Fit) (a b a' b' : ℚ)
    (hset : GenQ.CurveFitting.set [.list xs, .list ys] = .ok o) (hfit : linear_fitting o = .ok (a, b))
    (h0 : S (xs.zip ys) (fun p => (p.2 - (a' * p.1 + b')) * p.1) = 0)
    (h1 : S (xs.zip ys) (fun p => p.2 - (a' * p.1 + b')) = 0) : a' = a ∧ b' = b := by
  obtain ⟨k0, k1⟩ := linear_normal_equations xs ys o a b hset hfit
  obtain ⟨rfl, hlen⟩ := set_two_lists_ok hset
  obtain ⟨hd, _, _⟩ := linear_ok (ne_nil_of_two_le hlen) hfit
  have hd0 := ne_zero_of_not_lt_TOL hd
  -- the difference of the two residuals is (a - a') x + (b - b'); it is orthogonal to x and 1
  have d0 : S (xs.zip ys) (fun p => ((a - a') * p.1 + (b - b') * 1) * p.1) = 0 := by
    have : S (xs.zip ys) (fun p => ((a - a') * p.1 + (b - b') * 1) * p.1)
        = S (xs.zip ys) (fun p => (p.2 - (a' * p.1 + b')) * p.1) - S (xs.zip ys) (fun p => (p.2 - (a * p.1 + b)) * p.1) := by
      induction xs.zip ys with
      | nil => simp
      | cons p t ih => simp only [S_cons]; linear_combination ih
    rw [this, h0, k0, sub_zero]
  have d1 : S (xs.zip ys) (fun p => ((a - a') * p.1 + (b - b') * 1) * 1) = 0 := by
    have : S (xs.zip ys) (fun p => ((a - a') * p.1 + (b - b') * 1) * 1)
        = S (xs.zip ys) (fun p => p.2 - (a' * p.1 + b')) - S (xs.zip ys) (fun p => p.2 - (a * p.1 + b)) := by
      induction xs.zip ys with
      | nil => simp
      | cons p t ih => simp only [S_cons]; linear_combination ih
    rw [this, h1, k1, sub_zero]
  rw [S_lin2] at d0 d1
  have e1 : S (xs.zip ys) (fun _ : ℚ × ℚ => (1 : ℚ) * 1) = sN (xs.zip ys) := by rw [S_const]; simp [sN]
  have e2 : S (xs.zip ys) (fun p : ℚ × ℚ => p.1 * 1) = sX (xs.zip ys) := S_congr (fun p _ => mul_one _)
  have e3 : S (xs.zip ys) (fun p : ℚ × ℚ => (1 : ℚ) * p.1) = sX (xs.zip ys) := S_congr (fun p _ => one_mul _)
  rw [e3] at d0
  rw [e1, e2] at d1
  have hdet : sXX (xs.zip ys) * sN (xs.zip ys) - sX (xs.zip ys) * sX (xs.zip ys) ≠ 0 := by
    intro h; apply hd0; linear_combination h
  obtain ⟨ua, ub⟩ := unique2 (sXX (xs.zip ys)) (sX (xs.zip ys)) (sN (xs.zip ys)) (a - a') (b - b') hdet d0 d1
  exact ⟨(sub_eq_zero.mp ua).symm, (sub_eq_zero.mp ub).symm⟩

/-- The quadratic fit is THE solution of its normal equations. -/
theorem quadratic_solution_unique (xs ys : List ℚ) (o : Fit) (a b c a' b' c' : ℚ)
    (hset : GenQ.CurveFitting.set [.list xs, .list ys] = .ok o) (hfit : quadratic_fitting o = .ok (a, b, c))
    (k0 : S (xs.zip ys) (fun p => (p.2 - (a' * (p.1 * p.1) + b' * p.1 + c' * 1)) * (p.1 * p.1)) = 0)
    (k1 : S (xs.zip ys) (fun p => (p.2 - (a' * (p.1 * p.1) + b' * p.1 + c' * 1)) * p.1) = 0)
    (k2 : S (xs.zip ys) (fun p => (p.2 - (a' * (p.1 * p.1) + b' * p.1 + c' * 1)) * 1) = 0) :
    a' = a ∧ b' = b ∧ c' = c := by
  obtain ⟨h0, h1, h2⟩ := quadratic_normal_equations xs ys o a b c hset hfit
  obtain ⟨rfl, hlen⟩ := set_two_lists_ok hset
  obtain ⟨hd, _, _, _⟩ := quadratic_ok (ne_nil_of_two_le hlen) hfit
  have hd0 := ne_zero_of_not_lt_TOL hd
  refine unique_solution3 (xs.zip ys) (fun p => p.2) (fun p => p.1 * p.1) (fun p => p.1) (fun _ => 1)
    a b c a' b' c' h0 h1 h2 k0 k1 k2 ?_
  have e1 : S (xs.zip ys) (fun _ : ℚ × ℚ => (1 : ℚ) * 1) = sN (xs.zip ys) := by rw [S_const]; simp [sN]
  have e2 : S (xs.zip ys) (fun p : ℚ × ℚ => p.1 * 1) = sX (xs.zip ys) := S_congr (fun p _ => mul_one _)
  have e3 : S (xs.zip ys) (fun p : ℚ × ℚ => p.1 * p.1 * 1) = sXX (xs.zip ys) := S_congr (fun p _ => mul_one _)
  rw [e1, e2, e3]
  intro h; apply hd0; unfold sXX sXXX sXXXX at *; linear_combination h

/-- The general fit with three present basis functions is THE solution of its normal equations. -/
theorem general_solution_unique (pts : List (ℚ × ℚ)) (f0 f1 f2 : ℚ → ℚ) (a b c a' b' c' : ℚ)
    (hfit : general_fitting (fit_of pts) f0 f1 f2 = .ok (a, b, c))
    (hf1 : TOL ≤ |S pts (fun p => f1 p.1 * f1 p.1)|) (hf2 : TOL ≤ |S pts (fun p => f2 p.1 * f2 p.1)|)
    (k0 : S pts (fun p => (p.2 - (a' * f0 p.1 + b' * f1 p.1 + c' * f2 p.1)) * f0 p.1) = 0)
    (k1 : S pts (fun p => (p.2 - (a' * f0 p.1 + b' * f1 p.1 + c' * f2 p.1)) * f1 p.1) = 0)
    (k2 : S pts (fun p => (p.2 - (a' * f0 p.1 + b' * f1 p.1 + c' * f2 p.1)) * f2 p.1) = 0) :
    a' = a ∧ b' = b ∧ c' = c := by
  obtain ⟨h0, h1, h2⟩ := general_normal_equations pts f0 f1 f2 a b c hfit
  refine unique_solution3 pts (fun p => p.2) (fun p => f0 p.1) (fun p => f1 p.1) (fun p => f2 p.1)
    a b c a' b' c' h0 (h1 hf1) (h2 hf2) k0 k1 k2 ?_
  unfold general_fitting at hfit
  rw [(fit_of_fields pts).1, (fit_of_fields pts).2.1, List.map_map, List.map_map, List.map_map] at hfit
  rcases general_ok pts (fun p => f0 p.1) (fun p => f1 p.1) (fun p => f2 p.1) (fun p => p.2) hfit with
    ⟨hr, _⟩ | ⟨ht, _⟩ | ⟨_, hd, _⟩
  · exact absurd hr (not_lt.mpr hf1)
  · exact absurd ht (not_lt.mpr hf2)
  · exact ne_zero_of_not_lt_TOL hd

/-! ### Exact recovery of noiseless data -/

/-- Data lying exactly on a line `y = a0 x + b0` give back `(a0, b0)`. -/
theorem linear_exact_recovery (xs ys : List ℚ) (o : Fit) (a b a0 b0 : ℚ)
    (hset : GenQ.CurveFitting.set [.list xs, .list ys] = .ok o) (hfit : linear_fitting o = .ok (a, b))
    (hdata : ∀ p ∈ xs.zip ys, p.2 = a0 * p.1 + b0) : a = a0 ∧ b = b0 := by
  obtain ⟨h0, h1⟩ := linear_normal_equations xs ys o a b hset hfit
  obtain ⟨rfl, hlen⟩ := set_two_lists_ok hset
  obtain ⟨hd, _, _⟩ := linear_ok (ne_nil_of_two_le hlen) hfit
  have hd0 := ne_zero_of_not_lt_TOL hd
  have k0 : S (xs.zip ys) (fun p => (p.2 - (a * p.1 + b * 1)) * p.1) = 0 := by
    exact (S_congr (fun p _ => by ring)).trans h0
  have k1 : S (xs.zip ys) (fun p => (p.2 - (a * p.1 + b * 1)) * 1) = 0 := by
    exact (S_congr (fun p _ => by ring)).trans h1
  refine recover2 (xs.zip ys) (fun p => p.2) (fun p => p.1) (fun _ => 1) a b a0 b0
    (fun p hp => by rw [hdata p hp]; ring) k0 k1 ?_
  have e1 : S (xs.zip ys) (fun _ : ℚ × ℚ => (1 : ℚ) * 1) = sN (xs.zip ys) := by rw [S_const]; simp [sN]
  have e2 : S (xs.zip ys) (fun p : ℚ × ℚ => p.1 * 1) = sX (xs.zip ys) := S_congr (fun p _ => mul_one _)
  rw [e1, e2]
  intro h; apply hd0; unfold sXX; linear_combination h

/-- Data lying exactly on a parabola `y = a0 x² + b0 x + c0` give back `(a0, b0, c0)`. -/
theorem quadratic_exact_recovery (xs ys : List ℚ) (o : Fit) (a b c a0 b0 c0 : ℚ)
    (hset : GenQ.CurveFitting.set [.list xs, .list ys] = .ok o) (hfit : quadratic_fitting o = .ok (a, b, c))
    (hdata : ∀ p ∈ xs.zip ys, p.2 = a0 * (p.1 * p.1) + b0 * p.1 + c0) : a = a0 ∧ b = b0 ∧ c = c0 := by
  obtain ⟨h0, h1, h2⟩ := quadratic_normal_equations xs ys o a b c hset hfit
  obtain ⟨rfl, hlen⟩ := set_two_lists_ok hset
  obtain ⟨hd, _, _, _⟩ := quadratic_ok (ne_nil_of_two_le hlen) hfit
  have hd0 := ne_zero_of_not_lt_TOL hd
  refine recover3 (xs.zip ys) (fun p => p.2) (fun p => p.1 * p.1) (fun p => p.1) (fun _ => 1) a b c a0 b0 c0
    (fun p hp => by rw [hdata p hp]; ring) h0 h1 h2 ?_
  have e1 : S (xs.zip ys) (fun _ : ℚ × ℚ => (1 : ℚ) * 1) = sN (xs.zip ys) := by rw [S_const]; simp [sN]
  have e2 : S (xs.zip ys) (fun p : ℚ × ℚ => p.1 * 1) = sX (xs.zip ys) := S_congr (fun p _ => mul_one _)
  have e3 : S (xs.zip ys) (fun p : ℚ × ℚ => p.1 * p.1 * 1) = sXX (xs.zip ys) := S_congr (fun p _ => mul_one _)
  rw [e1, e2, e3]
  intro h; apply hd0; unfold sXX sXXX sXXXX at *; linear_combination h

/-- Data generated exactly by `a0 f0 + b0 f1 + c0 f2` give back `(a0, b0, c0)` when all three functions are
    present for the code (`Σ f_k² ≥ TOL`). -/
theorem general_exact_recovery (pts : List (ℚ × ℚ)) (f0 f1 f2 : ℚ → ℚ) (a b c a0 b0 c0 : ℚ)
    (hfit : general_fitting (fit_of pts) f0 f1 f2 = .ok (a, b, c))
    (hf1 : TOL ≤ |S pts (fun p => f1 p.1 * f1 p.1)|) (hf2 : TOL ≤ |S pts (fun p => f2 p.1 * f2 p.1)|)
    (hdata : ∀ p ∈ pts, p.2 = a0 * f0 p.1 + b0 * f1 p.1 + c0 * f2 p.1) : a = a0 ∧ b = b0 ∧ c = c0 := by
  obtain ⟨h0, h1, h2⟩ := general_normal_equations pts f0 f1 f2 a b c hfit
  refine recover3 pts (fun p => p.2) (fun p => f0 p.1) (fun p => f1 p.1) (fun p => f2 p.1) a b c a0 b0 c0
    hdata h0 (h1 hf1) (h2 hf2) ?_
  unfold general_fitting at hfit
  rw [(fit_of_fields pts).1, (fit_of_fields pts).2.1, List.map_map, List.map_map, List.map_map] at hfit
  rcases general_ok pts (fun p => f0 p.1) (fun p => f1 p.1) (fun p => f2 p.1) (fun p => p.2) hfit with
    ⟨hr, _⟩ | ⟨ht, _⟩ | ⟨_, hd, _⟩
  · exact absurd hr (not_lt.mpr hf1)
  · exact absurd ht (not_lt.mpr hf2)
  · exact ne_zero_of_not_lt_TOL hd

/-! ### Non-vacuity: the hypotheses above are met by concrete, non-trivial data -/

example : GenQ.CurveFitting.set [.list [0, 1, 2, 3], .list [1, 3, 5, 8]] = .ok (fit_of [(0, 1), (1, 3), (2, 5), (3, 8)]) := by
  rw [set_two_lists]; rfl
example : linear_fitting (fit_of [(0, 1), (1, 3), (2, 5), (3, 8)]) = .ok (23 / 10, 4 / 5) := by decide +kernel
example : quadratic_fitting (fit_of [(0, 1), (1, 3), (2, 5), (3, 8)]) = .ok (1 / 4, 31 / 20, 21 / 20) := by decide +kernel
example : general_fitting (fit_of [(0, 1), (1, 3), (2, 5), (3, 8)]) (fun x => x * x) (fun x => x) (fun _ => 1)
    = .ok (1 / 4, 31 / 20, 21 / 20) := by decide +kernel
example : general_fitting (fit_of [(0, 1), (1, 3), (2, 5), (3, 8)]) (fun x => x) (fun _ => 1) (fun _ => 0)
    = .ok (23 / 10, 4 / 5, 0) := by decide +kernel
example : general_fitting (fit_of [(1, 1), (2, 3), (3, 5)]) (fun x => x) (fun _ => 0) (fun _ => 0)
    = .ok (11 / 7, 0, 0) := by decide +kernel
example : linear_fitting (fit_of [(2, 1), (2, 3), (2, 5)]) = .error .zeroDivisionError := by decide +kernel

/-! ### Independence of the input form -/

/-- "do not depend on … the input form": two lists, positional pairs `x0, y0, x1, y1, …` (with or without a
    trailing unpaired argument) and the copy constructor all build the same object; the fits are functions of
    that object. -/
theorem form_invariant (pts : List (ℚ × ℚ)) (h : 2 ≤ pts.length) (z : ℚ) :
    GenQ.CurveFitting.set [.list (pts.map Prod.fst), .list (pts.map Prod.snd)] = .ok (fit_of pts) ∧
    GenQ.CurveFitting.set (flat pts) = .ok (fit_of pts) ∧
    GenQ.CurveFitting.set (flat pts ++ [.num z]) = .ok (fit_of pts) ∧
    GenQ.CurveFitting.set [.fit (fit_of pts)] = .ok (fit_of pts) := by
  refine ⟨?_, set_varargs pts h, set_varargs_odd pts h z, set_copy pts (ne_nil_of_two_le h)⟩
  rw [set_two_lists, zip_map_fst_snd]
  have : 2 ≤ min (pts.map Prod.fst).length (pts.map Prod.snd).length := by simp [h]
  rw [if_pos this]

/-- The one-list form `CurveFitting([y0, y1, …])` is the two-list form with the abscissae `0, 1, 2, …`. -/
theorem single_list_form (ys : List ℚ) :
    GenQ.CurveFitting.set [.list ys]
      = GenQ.CurveFitting.set [.list ((List.range ys.length).map (fun (i : ℕ) => ((i : ℤ) : ℚ))), .list ys] := by
  simp only [GenQ.CurveFitting.set, set1, set2, FitArg.isNum, Bool.or_self, Bool.false_eq_true, if_false,
    List.length_map, List.length_range, Nat.min_self, List.take_length, ofInt]
  rw [List.take_of_length_le (by simp)]
  simp only [List.length_map, List.length_range, or_self]

/-- Lists of unequal length: the longer one is cut to the length of the shorter one. -/
theorem unequal_lengths_truncated (xs ys : List ℚ) :
    GenQ.CurveFitting.set [.list xs, .list ys]
      = GenQ.CurveFitting.set [.list (xs.take (min xs.length ys.length)), .list (ys.take (min xs.length ys.length))] := by
  rw [set_two_lists, set_two_lists, take_zip']
  simp

/-- Arity rules of the constructor: a single number, two or three numbers, or a number next to a list
    are refused with ValueError, other objects with TypeError, lists shorter than two with ValueError. -/
theorem arity_rules (v w u : ℚ) (l : List ℚ) :
    GenQ.CurveFitting.set [.num v] = .error .valueError ∧
    GenQ.CurveFitting.set [.num v, .num w] = .error .valueError ∧
    GenQ.CurveFitting.set [.num v, .num w, .num u] = .error .valueError ∧
    GenQ.CurveFitting.set [.list l, .num v] = .error .valueError ∧
    GenQ.CurveFitting.set [.num v, .list l] = .error .valueError ∧
    GenQ.CurveFitting.set [.other] = .error .typeError ∧
    GenQ.CurveFitting.set [.list l, .other] = .error .typeError ∧
    GenQ.CurveFitting.set [.list [v], .list l] = .error .valueError ∧
    GenQ.CurveFitting.set [.list [v]] = .error .valueError := by
  refine ⟨rfl, rfl, rfl, rfl, rfl, rfl, rfl, ?_, rfl⟩
  rw [set_two_lists]
  have : ¬ 2 ≤ min [v].length l.length := by simp
  rw [if_neg this]

/-! ### Independence of the order of the points -/

/-- The linear fit does not depend on the order in which the points were supplied. -/
theorem linear_perm_invariant (pts pts' : List (ℚ × ℚ)) (h : pts.Perm pts') :
    linear_fitting (fit_of pts) = linear_fitting (fit_of pts') := by
  by_cases hne : pts = []
  · subst hne; rw [List.nil_perm.mp h]
  · have hne' : pts' ≠ [] := fun e => hne (by subst e; exact List.perm_nil.mp h)
    obtain ⟨e1, e2, e3, e4, _, _, e7, _, _⟩ := sums_perm h
    rw [linear_fitting_eq pts hne, linear_fitting_eq pts' hne', e1, e2, e3, e4, e7]

/-- The quadratic fit does not depend on the order of the points. -/
theorem quadratic_perm_invariant (pts pts' : List (ℚ × ℚ)) (h : pts.Perm pts') :
    quadratic_fitting (fit_of pts) = quadratic_fitting (fit_of pts') := by
  by_cases hne : pts = []
  · subst hne; rw [List.nil_perm.mp h]
  · have hne' : pts' ≠ [] := fun e => hne (by subst e; exact List.perm_nil.mp h)
    obtain ⟨e1, e2, e3, e4, e5, e6, e7, e8, _⟩ := sums_perm h
    rw [quadratic_fitting_eq pts hne, quadratic_fitting_eq pts' hne', e1, e2, e3, e4, e5, e6, e7, e8]

/-- The general fit does not depend on the order of the points. -/
theorem general_perm_invariant (pts pts' : List (ℚ × ℚ)) (h : pts.Perm pts') (f0 f1 f2 : ℚ → ℚ) :
    general_fitting (fit_of pts) f0 f1 f2 = general_fitting (fit_of pts') f0 f1 f2 := by
  unfold general_fitting
  rw [(fit_of_fields pts).1, (fit_of_fields pts).2.1, (fit_of_fields pts').1, (fit_of_fields pts').2.1]
  simp only [List.map_map]
  rw [general_cols_eq pts (f0 ∘ Prod.fst) (f1 ∘ Prod.fst) (f2 ∘ Prod.fst) Prod.snd,
    general_cols_eq pts' (f0 ∘ Prod.fst) (f1 ∘ Prod.fst) (f2 ∘ Prod.fst) Prod.snd]
  simp only [S_perm h]

/-! ### The general fit specialises to the quadratic and the linear fit -/

/-- `general_fitting(x², x, 1)` equals `quadratic_fitting` — provided `Σx⁴ · Σx² · n ≥ TOL`: below that the
    general fit raises ZeroDivisionError ("functions are null") before looking at the determinant. -/
theorem general_eq_quadratic (pts : List (ℚ × ℚ)) (hne : pts ≠ [])
    (hbig : TOL ≤ |sXXXX pts * sXX pts * sN pts|) :
    general_fitting (fit_of pts) (fun x => x * x) (fun x => x) (fun _ => 1) = quadratic_fitting (fit_of pts) := by
  unfold general_fitting
  rw [(fit_of_fields pts).1, (fit_of_fields pts).2.1]
  simp only [List.map_map]
  rw [general_cols_eq pts ((fun x => x * x) ∘ Prod.fst) ((fun x => x) ∘ Prod.fst) ((fun _ => 1) ∘ Prod.fst) Prod.snd,
    quadratic_fitting_eq pts hne]
  have m : S pts (fun p : ℚ × ℚ => ((fun x : ℚ => x * x) ∘ Prod.fst) p * ((fun x : ℚ => x * x) ∘ Prod.fst) p) = sXXXX pts := rfl
  have p' : S pts (fun p : ℚ × ℚ => ((fun x : ℚ => x * x) ∘ Prod.fst) p * ((fun x : ℚ => x) ∘ Prod.fst) p) = sXXX pts := rfl
  have q : S pts (fun p : ℚ × ℚ => ((fun x : ℚ => x * x) ∘ Prod.fst) p * ((fun _ : ℚ => (1 : ℚ)) ∘ Prod.fst) p) = sXX pts :=
    S_congr (fun p _ => mul_one _)
  have r : S pts (fun p : ℚ × ℚ => ((fun x : ℚ => x) ∘ Prod.fst) p * ((fun x : ℚ => x) ∘ Prod.fst) p) = sXX pts := rfl
  have s' : S pts (fun p : ℚ × ℚ => ((fun x : ℚ => x) ∘ Prod.fst) p * ((fun _ : ℚ => (1 : ℚ)) ∘ Prod.fst) p) = sX pts :=
    S_congr (fun p _ => mul_one _)
  have t : S pts (fun p : ℚ × ℚ => ((fun _ : ℚ => (1 : ℚ)) ∘ Prod.fst) p * ((fun _ : ℚ => (1 : ℚ)) ∘ Prod.fst) p) = sN pts := by
    refine (S_congr (g := fun _ => (1 : ℚ)) (fun p _ => mul_one _)).trans ?_
    rw [S_const]; simp [sN]
  have u : S pts (fun p : ℚ × ℚ => p.2 * ((fun x : ℚ => x * x) ∘ Prod.fst) p) = sXXY pts :=
    S_congr (fun p _ => by simp only [Function.comp]; ring)
  have v : S pts (fun p : ℚ × ℚ => p.2 * ((fun x : ℚ => x) ∘ Prod.fst) p) = sXY pts :=
    S_congr (fun p _ => by simp only [Function.comp]; ring)
  have w : S pts (fun p : ℚ × ℚ => p.2 * ((fun _ : ℚ => (1 : ℚ)) ∘ Prod.fst) p) = sY pts :=
    S_congr (fun p _ => mul_one _)
  simp only [m, p', q, r, s', t, u, v, w]
  have ht : ¬ |sN pts| < TOL := by
    have := sN_ge_one hne
    rw [abs_of_nonneg (by linarith)]; have := TOL_lt_one; linarith
  have c1 : ¬ ((|sXX pts| < TOL ∧ |sN pts| < TOL) ∧ TOL ≤ |sXXXX pts|) := fun h => ht h.1.2
  have c2 : ¬ ((|sN pts| < TOL ∧ TOL ≤ |sXXXX pts|) ∧ TOL ≤ |sXX pts|) := fun h => ht h.1.1
  have c3 : ¬ |sXXXX pts * sXX pts * sN pts| < TOL := not_lt.mpr hbig
  rw [if_neg c1, if_neg c2, if_neg c3]
  have hd : sXXXX pts * sXX pts * sN pts + 2 * sXXX pts * sXX pts * sX pts - sXXXX pts * sX pts * sX pts
      - sXX pts * sXX pts * sXX pts - sN pts * sXXX pts * sXXX pts
      = sN pts * sXX pts * sXXXX pts + 2 * sX pts * sXX pts * sXXX pts - sXX pts * sXX pts * sXX pts
        - sX pts * sX pts * sXXXX pts - sN pts * sXXX pts * sXXX pts := by ring
  simp only [hd]
  split_ifs
  · rfl
  · congr 3 <;> ring

/-- `general_fitting(x, 1)` equals `linear_fitting` (third coefficient `0`) — provided `Σx² ≥ TOL`: below that
    the general fit raises ZeroDivisionError. -/
theorem general_eq_linear (pts : List (ℚ × ℚ)) (hne : pts ≠ []) (hbig : TOL ≤ |sXX pts|) :
    general_fitting (fit_of pts) (fun x => x) (fun _ => 1) (fun _ => 0)
      = (linear_fitting (fit_of pts)).map (fun ab => (ab.1, ab.2, 0)) := by
  unfold general_fitting
  rw [(fit_of_fields pts).1, (fit_of_fields pts).2.1]
  simp only [List.map_map]
  rw [general_cols_eq pts ((fun x => x) ∘ Prod.fst) ((fun _ => 1) ∘ Prod.fst) ((fun _ => 0) ∘ Prod.fst) Prod.snd,
    linear_fitting_eq pts hne]
  have m : S pts (fun p : ℚ × ℚ => ((fun x : ℚ => x) ∘ Prod.fst) p * ((fun x : ℚ => x) ∘ Prod.fst) p) = sXX pts := rfl
  have p' : S pts (fun p : ℚ × ℚ => ((fun x : ℚ => x) ∘ Prod.fst) p * ((fun _ : ℚ => (1 : ℚ)) ∘ Prod.fst) p) = sX pts :=
    S_congr (fun p _ => mul_one _)
  have r : S pts (fun p : ℚ × ℚ => ((fun _ : ℚ => (1 : ℚ)) ∘ Prod.fst) p * ((fun _ : ℚ => (1 : ℚ)) ∘ Prod.fst) p) = sN pts := by
    refine (S_congr (g := fun _ => (1 : ℚ)) (fun p _ => mul_one _)).trans ?_
    rw [S_const]; simp [sN]
  have t : S pts (fun p : ℚ × ℚ => ((fun _ : ℚ => (0 : ℚ)) ∘ Prod.fst) p * ((fun _ : ℚ => (0 : ℚ)) ∘ Prod.fst) p) = 0 :=
    (S_congr (g := fun _ => (0 : ℚ)) (fun p _ => mul_zero _)).trans (S_zero pts)
  have u : S pts (fun p : ℚ × ℚ => p.2 * ((fun x : ℚ => x) ∘ Prod.fst) p) = sXY pts :=
    S_congr (fun p _ => by simp only [Function.comp]; ring)
  have v : S pts (fun p : ℚ × ℚ => p.2 * ((fun _ : ℚ => (1 : ℚ)) ∘ Prod.fst) p) = sY pts :=
    S_congr (fun p _ => mul_one _)
  simp only [m, p', r, t, u, v]
  have hn : TOL ≤ |sN pts| := by
    have := sN_ge_one hne
    rw [abs_of_nonneg (by linarith)]; have := TOL_lt_one; linarith
  have c1 : ¬ ((|sN pts| < TOL ∧ |(0 : ℚ)| < TOL) ∧ TOL ≤ |sXX pts|) := fun h => absurd h.1.1 (not_lt.mpr hn)
  have c2 : (|(0 : ℚ)| < TOL ∧ TOL ≤ |sXX pts|) ∧ TOL ≤ |sN pts| := ⟨⟨by rw [abs_zero]; exact TOL_pos, hbig⟩, hn⟩
  rw [if_neg c1, if_pos c2]
  have hd : sXX pts * sN pts - sX pts * sX pts = sN pts * sXX pts - sX pts * sX pts := by ring
  simp only [hd]
  split_ifs
  · rfl
  · simp only [Except.map]; congr 3 <;> ring

/-! ### Degenerate data ("raise ZeroDivisionError instead of returning numbers") -/

/-- All abscissae equal: the linear fit raises ZeroDivisionError. -/
theorem linear_degenerate (pts : List (ℚ × ℚ)) (hne : pts ≠ []) (c : ℚ) (h : ∀ p ∈ pts, p.1 = c) :
    linear_fitting (fit_of pts) = .error .zeroDivisionError := by
  obtain ⟨e1, e2, _, _⟩ := const_x_sums h
  rw [linear_fitting_eq pts hne, e1, e2]
  have : sN pts * (sN pts * (c * c)) - sN pts * c * (sN pts * c) = 0 := by ring
  simp only [this, abs_zero, TOL_pos, if_true]

/-- All abscissae equal: the quadratic fit raises ZeroDivisionError. -/
theorem quadratic_degenerate (pts : List (ℚ × ℚ)) (hne : pts ≠ []) (c : ℚ) (h : ∀ p ∈ pts, p.1 = c) :
    quadratic_fitting (fit_of pts) = .error .zeroDivisionError := by
  obtain ⟨e1, e2, e3, e4⟩ := const_x_sums h
  rw [quadratic_fitting_eq pts hne, e1, e2, e3, e4]
  have : sN pts * (sN pts * (c * c)) * (sN pts * (c * c * (c * c))) + 2 * (sN pts * c) * (sN pts * (c * c)) * (sN pts * (c * c * c))
      - sN pts * (c * c) * (sN pts * (c * c)) * (sN pts * (c * c)) - sN pts * c * (sN pts * c) * (sN pts * (c * c * (c * c)))
      - sN pts * (sN pts * (c * c * c)) * (sN pts * (c * c * c)) = 0 := by ring
  simp only [this, abs_zero, TOL_pos, if_true]

/-- The determinant guard of the linear fit, exactly: ZeroDivisionError is raised if and only if
    `|n Σx² - (Σx)²| < TOL` (for the boundary value `TOL` itself the fit is returned) — not only when the
    determinant is exactly zero. -/
theorem linear_refuses_iff (pts : List (ℚ × ℚ)) (hne : pts ≠ []) :
    linear_fitting (fit_of pts) = .error .zeroDivisionError ↔ |sN pts * sXX pts - sX pts * sX pts| < TOL := by
  rw [linear_fitting_eq pts hne]
  constructor
  · intro h; by_contra hn; simp only [hn, if_false] at h; cases h
  · intro h; simp only [h, if_true]

/-- The determinant guard of the quadratic fit, exactly. -/
theorem quadratic_refuses_iff (pts : List (ℚ × ℚ)) (hne : pts ≠ []) :
    quadratic_fitting (fit_of pts) = .error .zeroDivisionError ↔
      |sN pts * sXX pts * sXXXX pts + 2 * sX pts * sXX pts * sXXX pts - sXX pts * sXX pts * sXX pts
        - sX pts * sX pts * sXXXX pts - sN pts * sXXX pts * sXXX pts| < TOL := by
  rw [quadratic_fitting_eq pts hne]
  constructor
  · intro h; by_contra hn; simp only [hn, if_false] at h; cases h
  · intro h; simp only [h, if_true]

-- a determinant that is tiny but not zero (1e-12) is refused; one equal to TOL is not
example : linear_fitting (fit_of [(0, 0), (1 / 1000000, 1)]) = .error .zeroDivisionError := by decide +kernel
example : linear_fitting (fit_of [(0, 0), (1 / 100000, 1)]) = .ok (100000, 0) := by decide +kernel

/-- Fewer distinct abscissae than coefficients: when the abscissae take at most two different values the
    parabola is not determined and the quadratic fit raises ZeroDivisionError. -/
theorem quadratic_degenerate_two_abscissae (pts : List (ℚ × ℚ)) (hne : pts ≠ []) (a b : ℚ)
    (h : ∀ p ∈ pts, p.1 = a ∨ p.1 = b) :
    quadratic_fitting (fit_of pts) = .error .zeroDivisionError := by
  obtain ⟨k, l, hkl⟩ := two_values_sums h
  rw [quadratic_refuses_iff pts hne]
  have e0 : sN pts = k + l := by
    have := hkl (fun _ => 1); rw [S_const] at this; unfold sN; linarith
  have e1 : sX pts = k * a + l * b := hkl (fun x => x)
  have e2 : sXX pts = k * (a * a) + l * (b * b) := hkl (fun x => x * x)
  have e3 : sXXX pts = k * (a * a * a) + l * (b * b * b) := hkl (fun x => x * x * x)
  have e4 : sXXXX pts = k * (a * a * (a * a)) + l * (b * b * (b * b)) := hkl (fun x => x * x * (x * x))
  rw [e0, e1, e2, e3, e4]
  have : (k + l) * (k * (a * a) + l * (b * b)) * (k * (a * a * (a * a)) + l * (b * b * (b * b)))
      + 2 * (k * a + l * b) * (k * (a * a) + l * (b * b)) * (k * (a * a * a) + l * (b * b * b))
      - (k * (a * a) + l * (b * b)) * (k * (a * a) + l * (b * b)) * (k * (a * a) + l * (b * b))
      - (k * a + l * b) * (k * a + l * b) * (k * (a * a * (a * a)) + l * (b * b * (b * b)))
      - (k + l) * (k * (a * a * a) + l * (b * b * b)) * (k * (a * a * a) + l * (b * b * b)) = 0 := by ring
  rw [this, abs_zero]; exact TOL_pos

example : quadratic_fitting (fit_of [(1, 2), (3, 5), (1, 4), (3, 0), (3, 7)]) = .error .zeroDivisionError := by
  decide +kernel

/-- Linearly dependent basis functions: if `f2 = λ f0 + μ f1` on the abscissae and both `f1`, `f2` are present for the
    code (`Σ f_k² ≥ TOL`), the general fit raises ZeroDivisionError (the Gram determinant is exactly zero). -/
theorem general_dependent_columns (pts : List (ℚ × ℚ)) (f0 f1 f2 : ℚ → ℚ) (lam mu : ℚ)
    (hdep : ∀ p ∈ pts, f2 p.1 = lam * f0 p.1 + mu * f1 p.1)
    (hf1 : TOL ≤ |S pts (fun p => f1 p.1 * f1 p.1)|) (hf2 : TOL ≤ |S pts (fun p => f2 p.1 * f2 p.1)|) :
    general_fitting (fit_of pts) f0 f1 f2 = .error .zeroDivisionError := by
  unfold general_fitting
  rw [(fit_of_fields pts).1, (fit_of_fields pts).2.1, List.map_map, List.map_map, List.map_map]
  rw [general_cols_eq pts (f0 ∘ Prod.fst) (f1 ∘ Prod.fst) (f2 ∘ Prod.fst) Prod.snd]
  simp only [Function.comp]
  have c1 : ¬ ((|S pts (fun p => f1 p.1 * f1 p.1)| < TOL ∧ |S pts (fun p => f2 p.1 * f2 p.1)| < TOL) ∧
      TOL ≤ |S pts (fun p => f0 p.1 * f0 p.1)|) := fun h => absurd h.1.1 (not_lt.mpr hf1)
  have c2 : ¬ ((|S pts (fun p => f2 p.1 * f2 p.1)| < TOL ∧ TOL ≤ |S pts (fun p => f0 p.1 * f0 p.1)|) ∧
      TOL ≤ |S pts (fun p => f1 p.1 * f1 p.1)|) := fun h => absurd h.1.1 (not_lt.mpr hf2)
  rw [if_neg c1, if_neg c2]
  split_ifs with h3 h4
  · rfl
  · rfl
  · exfalso
    apply h4
    -- the sums involving f2 in terms of those of f0, f1
    have q : S pts (fun p => f0 p.1 * f2 p.1)
        = lam * S pts (fun p => f0 p.1 * f0 p.1) + mu * S pts (fun p => f0 p.1 * f1 p.1) := by
      rw [S_congr (g := fun p => (lam * f0 p.1 + mu * f1 p.1) * f0 p.1) (fun p hp => by rw [hdep p hp]; ring), S_lin2]
      congr 2
      exact S_congr (fun p _ => mul_comm _ _)
    have s' : S pts (fun p => f1 p.1 * f2 p.1)
        = lam * S pts (fun p => f0 p.1 * f1 p.1) + mu * S pts (fun p => f1 p.1 * f1 p.1) := by
      rw [S_congr (g := fun p => (lam * f0 p.1 + mu * f1 p.1) * f1 p.1) (fun p hp => by rw [hdep p hp]; ring), S_lin2]
    have t : S pts (fun p => f2 p.1 * f2 p.1)
        = lam * S pts (fun p => f0 p.1 * f2 p.1) + mu * S pts (fun p => f1 p.1 * f2 p.1) := by
      rw [S_congr (g := fun p => (lam * f0 p.1 + mu * f1 p.1) * f2 p.1) (fun p hp => by rw [hdep p hp]), S_lin2]
    rw [t, q, s']
    have : S pts (fun p => f0 p.1 * f0 p.1) * S pts (fun p => f1 p.1 * f1 p.1) *
          (lam * (lam * S pts (fun p => f0 p.1 * f0 p.1) + mu * S pts (fun p => f0 p.1 * f1 p.1))
            + mu * (lam * S pts (fun p => f0 p.1 * f1 p.1) + mu * S pts (fun p => f1 p.1 * f1 p.1)))
        + 2 * S pts (fun p => f0 p.1 * f1 p.1)
          * (lam * S pts (fun p => f0 p.1 * f0 p.1) + mu * S pts (fun p => f0 p.1 * f1 p.1))
          * (lam * S pts (fun p => f0 p.1 * f1 p.1) + mu * S pts (fun p => f1 p.1 * f1 p.1))
        - S pts (fun p => f0 p.1 * f0 p.1)
          * (lam * S pts (fun p => f0 p.1 * f1 p.1) + mu * S pts (fun p => f1 p.1 * f1 p.1))
          * (lam * S pts (fun p => f0 p.1 * f1 p.1) + mu * S pts (fun p => f1 p.1 * f1 p.1))
        - S pts (fun p => f1 p.1 * f1 p.1)
          * (lam * S pts (fun p => f0 p.1 * f0 p.1) + mu * S pts (fun p => f0 p.1 * f1 p.1))
          * (lam * S pts (fun p => f0 p.1 * f0 p.1) + mu * S pts (fun p => f0 p.1 * f1 p.1))
        - (lam * (lam * S pts (fun p => f0 p.1 * f0 p.1) + mu * S pts (fun p => f0 p.1 * f1 p.1))
            + mu * (lam * S pts (fun p => f0 p.1 * f1 p.1) + mu * S pts (fun p => f1 p.1 * f1 p.1)))
          * S pts (fun p => f0 p.1 * f1 p.1) * S pts (fun p => f0 p.1 * f1 p.1) = 0 := by ring
    rw [this, abs_zero]; exact TOL_pos

example : general_fitting (fit_of [(1, 2), (2, 5), (3, 4), (5, 0)]) (fun x => x) (fun _ => 1) (fun x => 2 * x + 3)
    = .error .zeroDivisionError := by decide +kernel

/-! ### Correlation coefficient (real-number model: `sqrt`) -/
section correlation
open Pymeeus.Refine

/-- "degenerate data raise ZeroDivisionError": `correlation_coeff` never raises ValueError (the arguments of
    `sqrt` are never negative) and raises ZeroDivisionError exactly when `n Σx² = (Σx)²` or `n Σy² = (Σy)²`. -/
theorem correlation_error_iff (pts : List (ℝ × ℝ)) (hne : pts ≠ []) :
    (GenR.CurveFitting.correlation_coeff (CurveFittingR.fit_of pts) = .error .zeroDivisionError ↔
      CurveFittingR.dX pts = 0 ∨ CurveFittingR.dY pts = 0) ∧
    ∀ e, GenR.CurveFitting.correlation_coeff (CurveFittingR.fit_of pts) = .error e → e = .zeroDivisionError := by
  rw [CurveFittingR.correlation_eq pts hne, ← CurveFittingR.sqrt_mul_eq_zero_iff]
  constructor
  · constructor
    · intro h; by_contra h0; rw [if_neg h0] at h; cases h
    · intro h; rw [if_pos h]
  · intro e h
    split_ifs at h
    · injection h with h; exact h.symm

/-- "The correlation coefficient lies in [-1, 1]". -/
theorem correlation_range (pts : List (ℝ × ℝ)) (hne : pts ≠ []) (r : ℝ)
    (h : GenR.CurveFitting.correlation_coeff (CurveFittingR.fit_of pts) = .ok r) : -1 ≤ r ∧ r ≤ 1 := by
  rw [CurveFittingR.correlation_eq pts hne] at h
  split_ifs at h with h0
  injection h with h
  have hD : 0 < Real.sqrt (CurveFittingR.dX pts) * Real.sqrt (CurveFittingR.dY pts) :=
    lt_of_le_of_ne (mul_nonneg (Real.sqrt_nonneg _) (Real.sqrt_nonneg _)) (Ne.symm h0)
  have hsq : CurveFittingR.cXY pts ^ 2 ≤ (Real.sqrt (CurveFittingR.dX pts) * Real.sqrt (CurveFittingR.dY pts)) ^ 2 := by
    rw [mul_pow, Real.sq_sqrt (CurveFittingR.dX_nonneg pts), Real.sq_sqrt (CurveFittingR.dY_nonneg pts)]
    exact CurveFittingR.cXY_sq_le pts
  obtain ⟨l1, l2⟩ := abs_le_of_sq_le_sq' hsq hD.le
  rw [← h]
  constructor
  · rw [le_div_iff₀ hD]; linarith
  · rw [div_le_iff₀ hD]; linarith

/-- "is ±1 for collinear data": points on a line `y = α x + β`, `α ≠ 0`, abscissae not all equal. -/
theorem correlation_collinear (pts : List (ℝ × ℝ)) (hne : pts ≠ []) (α β r : ℝ) (hα : α ≠ 0)
    (hline : ∀ p ∈ pts, p.2 = α * p.1 + β)
    (h : GenR.CurveFitting.correlation_coeff (CurveFittingR.fit_of pts) = .ok r) :
    r = if 0 < α then 1 else -1 := by
  rw [CurveFittingR.correlation_eq pts hne] at h
  split_ifs at h with h0
  injection h with h
  obtain ⟨hdy, hc⟩ := CurveFittingR.collinear_sums hline
  have hD0 : CurveFittingR.dX pts ≠ 0 := fun e =>
    h0 ((CurveFittingR.sqrt_mul_eq_zero_iff pts).mpr (Or.inl e))
  have hD : 0 < CurveFittingR.dX pts := lt_of_le_of_ne (CurveFittingR.dX_nonneg pts) (Ne.symm hD0)
  have hs : Real.sqrt (CurveFittingR.dY pts) = |α| * Real.sqrt (CurveFittingR.dX pts) := by
    rw [hdy, Real.sqrt_mul (mul_self_nonneg α), Real.sqrt_mul_self_eq_abs]
  have hss : Real.sqrt (CurveFittingR.dX pts) * Real.sqrt (CurveFittingR.dX pts) = CurveFittingR.dX pts :=
    Real.mul_self_sqrt hD.le
  rw [← h, hc, hs]
  have habs : |α| ≠ 0 := abs_ne_zero.mpr hα
  have e : Real.sqrt (CurveFittingR.dX pts) * (|α| * Real.sqrt (CurveFittingR.dX pts)) = |α| * CurveFittingR.dX pts := by
    rw [show Real.sqrt (CurveFittingR.dX pts) * (|α| * Real.sqrt (CurveFittingR.dX pts))
      = |α| * (Real.sqrt (CurveFittingR.dX pts) * Real.sqrt (CurveFittingR.dX pts)) by ring, hss]
  rw [e]
  split_ifs with hp
  · rw [abs_of_pos hp]; field_simp
  · have hn : α < 0 := lt_of_le_of_ne (not_lt.mp hp) hα
    rw [abs_of_neg hn]; field_simp

/-- "is unchanged by positive affine rescaling of either variable": `x ↦ αx + β`, `y ↦ γy + δ` with `α, γ > 0`
    (same value, or ZeroDivisionError on both sides). -/
theorem correlation_affine_invariant (pts : List (ℝ × ℝ)) (hne : pts ≠ []) (α β γ δ : ℝ) (hα : 0 < α) (hγ : 0 < γ) :
    GenR.CurveFitting.correlation_coeff (CurveFittingR.fit_of (CurveFittingR.rescale α β γ δ pts))
      = GenR.CurveFitting.correlation_coeff (CurveFittingR.fit_of pts) := by
  rw [CurveFittingR.correlation_eq pts hne, CurveFittingR.correlation_eq _ (CurveFittingR.rescale_ne_nil hne)]
  obtain ⟨e1, e2, e3⟩ := CurveFittingR.rescale_sums α β γ δ pts
  have s1 : Real.sqrt (α * α * CurveFittingR.dX pts) = α * Real.sqrt (CurveFittingR.dX pts) := by
    rw [Real.sqrt_mul (mul_self_nonneg α), Real.sqrt_mul_self hα.le]
  have s2 : Real.sqrt (γ * γ * CurveFittingR.dY pts) = γ * Real.sqrt (CurveFittingR.dY pts) := by
    rw [Real.sqrt_mul (mul_self_nonneg γ), Real.sqrt_mul_self hγ.le]
  rw [e1, e2, e3, s1, s2]
  by_cases h0 : Real.sqrt (CurveFittingR.dX pts) * Real.sqrt (CurveFittingR.dY pts) = 0
  · have : α * Real.sqrt (CurveFittingR.dX pts) * (γ * Real.sqrt (CurveFittingR.dY pts)) = 0 := by
      have : α * Real.sqrt (CurveFittingR.dX pts) * (γ * Real.sqrt (CurveFittingR.dY pts))
          = α * γ * (Real.sqrt (CurveFittingR.dX pts) * Real.sqrt (CurveFittingR.dY pts)) := by ring
      rw [this, h0, mul_zero]
    rw [if_pos this, if_pos h0]
  · have hne' : α * Real.sqrt (CurveFittingR.dX pts) * (γ * Real.sqrt (CurveFittingR.dY pts)) ≠ 0 := by
      have : α * Real.sqrt (CurveFittingR.dX pts) * (γ * Real.sqrt (CurveFittingR.dY pts))
          = α * γ * (Real.sqrt (CurveFittingR.dX pts) * Real.sqrt (CurveFittingR.dY pts)) := by ring
      rw [this]; exact mul_ne_zero (mul_ne_zero hα.ne' hγ.ne') h0
    rw [if_neg hne', if_neg h0]
    congr 1
    have hx : Real.sqrt (CurveFittingR.dX pts) ≠ 0 := left_ne_zero_of_mul h0
    have hy : Real.sqrt (CurveFittingR.dY pts) ≠ 0 := right_ne_zero_of_mul h0
    field_simp

/-- "changes sign when one variable is negated": `x ↦ -x` (and likewise `y ↦ -y`). -/
theorem correlation_negation (pts : List (ℝ × ℝ)) (hne : pts ≠ []) :
    GenR.CurveFitting.correlation_coeff (CurveFittingR.fit_of (CurveFittingR.rescale (-1) 0 1 0 pts))
      = (GenR.CurveFitting.correlation_coeff (CurveFittingR.fit_of pts)).map (fun r => -r) ∧
    GenR.CurveFitting.correlation_coeff (CurveFittingR.fit_of (CurveFittingR.rescale 1 0 (-1) 0 pts))
      = (GenR.CurveFitting.correlation_coeff (CurveFittingR.fit_of pts)).map (fun r => -r) := by
  constructor
  · rw [CurveFittingR.correlation_eq pts hne, CurveFittingR.correlation_eq _ (CurveFittingR.rescale_ne_nil hne)]
    obtain ⟨e1, e2, e3⟩ := CurveFittingR.rescale_sums (-1) 0 1 0 pts
    have e1' : CurveFittingR.dX (CurveFittingR.rescale (-1) 0 1 0 pts) = CurveFittingR.dX pts := by rw [e1]; ring
    have e2' : CurveFittingR.dY (CurveFittingR.rescale (-1) 0 1 0 pts) = CurveFittingR.dY pts := by rw [e2]; ring
    have e3' : CurveFittingR.cXY (CurveFittingR.rescale (-1) 0 1 0 pts) = -CurveFittingR.cXY pts := by rw [e3]; ring
    rw [e1', e2', e3']
    split_ifs
    · rfl
    · simp only [Except.map, neg_div]
  · rw [CurveFittingR.correlation_eq pts hne, CurveFittingR.correlation_eq _ (CurveFittingR.rescale_ne_nil hne)]
    obtain ⟨e1, e2, e3⟩ := CurveFittingR.rescale_sums 1 0 (-1) 0 pts
    have e1' : CurveFittingR.dX (CurveFittingR.rescale 1 0 (-1) 0 pts) = CurveFittingR.dX pts := by rw [e1]; ring
    have e2' : CurveFittingR.dY (CurveFittingR.rescale 1 0 (-1) 0 pts) = CurveFittingR.dY pts := by rw [e2]; ring
    have e3' : CurveFittingR.cXY (CurveFittingR.rescale 1 0 (-1) 0 pts) = -CurveFittingR.cXY pts := by rw [e3]; ring
    rw [e1', e2', e3']
    split_ifs
    · rfl
    · simp only [Except.map, neg_div]

/-- "degenerate data raise ZeroDivisionError": all abscissae equal, or all ordinates equal. -/
theorem correlation_degenerate (pts : List (ℝ × ℝ)) (hne : pts ≠ []) (c : ℝ)
    (h : (∀ p ∈ pts, p.1 = c) ∨ (∀ p ∈ pts, p.2 = c)) :
    GenR.CurveFitting.correlation_coeff (CurveFittingR.fit_of pts) = .error .zeroDivisionError := by
  rw [(correlation_error_iff pts hne).1]
  exact h.elim (fun hx => Or.inl (CurveFittingR.const_x_dX hx)) (fun hy => Or.inr (CurveFittingR.const_y_dY hy))

end correlation

end Pymeeus.C17
