import Pymeeus.Gen.Q.CurveFitting
namespace Pymeeus.C17
open Pymeeus

/-- placeholder while the property theorems are being written -/
theorem placeholder : (1 : Nat) = 1 := rfl

end Pymeeus.C17
