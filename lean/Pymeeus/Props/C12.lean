import Pymeeus.Refine.Interpolation
/-
C12 — Interpolation reproduces polynomials; roots and extrema lie where asked.

Property theorems only (helpers: Lemmas/Newton.lean, Refine/OrderPoints.lean, Refine/Interpolation.lean,
Refine/Root.lean).  Statements are about `Pymeeus.GenQ.Interpolation`, the exact (rational) instantiation
of the model lean/templates/Interpolation.lean; tables have ANY number of points (≥ 2).
`poly o` is Mathlib's Lagrange interpolating polynomial through the points of the object `o`;
`nodes l i` is `l[i]`.
-/
namespace Pymeeus.C12
open Pymeeus Pymeeus.PQ Pymeeus.GenQ.Interpolation Pymeeus.Refine.Interpolation Polynomial

/-! ### Construction: ordering, independence of the input order and form -/

/-- `_order_points` returns a permutation of the points, sorted by abscissa. -/
theorem order_points_sorted_perm (x y : List ℚ) (hlen : x.length = y.length) :
    ((order_points x y).1.zip (order_points x y).2).Perm (x.zip y) ∧
    (order_points x y).1.Pairwise (· ≤ ·) ∧
    (order_points x y).1.length = x.length ∧ (order_points x y).2.length = x.length := by
  obtain ⟨h1, h2, h3, h4⟩ := order_points_spec x y hlen
  exact ⟨h3, h4, h1, h2⟩

/-- "whatever the order in which the points were supplied": two tables that are permutations of each other
    (as lists of points) give the same object, or are refused alike. -/
theorem construction_order_independent (tol : ℚ) (x y x' y' : List ℚ)
    (hlen : x.length = y.length) (hlen' : x'.length = y'.length) (hperm : (x.zip y).Perm (x'.zip y')) :
    GenQ.Interpolation.set tol [.list x, .list y] = GenQ.Interpolation.set tol [.list x', .list y'] := by
  have hl : x.length = x'.length := by
    have := hperm.length_eq
    simp only [List.length_zip, ← hlen, ← hlen', Nat.min_self] at this
    exact this
  rw [set_two_lists, set_two_lists, ← hlen, ← hlen', Nat.min_self, Nat.min_self, ← hl]
  by_cases h2 : x.length < 2
  · rw [if_pos h2, if_pos h2]
  · rw [if_neg h2, if_neg h2, List.take_of_length_le (le_refl _), List.take_of_length_le (le_of_eq hlen.symm),
      List.take_of_length_le (le_of_eq hl.symm), List.take_of_length_le (by rw [← hlen', hl])]
    have hx : x.Perm x' := by
      have := hperm.map Prod.fst
      rwa [map_fst_zip_eq hlen, map_fst_zip_eq hlen'] at this
    unfold finish
    rw [has_dup_perm tol hx]
    by_cases hd : has_dup tol x' = true
    · rw [if_pos hd, if_pos hd]
    · rw [if_neg hd, if_neg hd]
      by_cases h0 : 0 < tol
      · have hnd : x.Nodup := hx.nodup_iff.mpr (has_dup_false h0 (by simpa using hd))
        rw [order_points_perm_invariant x y x' y' hlen hlen' hperm hnd]
      · -- a non-positive tolerance: the table cannot be computed, whatever the order
        have hp : plt 0 tol = false := by simp [plt, h0]
        simp only [compute_table, hp, Bool.not_false, if_true]
        have l1 := (order_points_spec x y hlen).1
        have l2 := (order_points_spec x' y' hlen').1
        have p1 : (order_points x y).1.length > 0 := by rw [l1]; omega
        have p2 : (order_points x' y').1.length > 0 := by rw [l2, ← hl]; omega
        simp only [p1, p2, if_true]

/-- "…and whatever input form was used": positional pairs `x0, y0, x1, y1, …` (with or without a trailing
    unpaired argument) build what the two lists build; the copy constructor returns the object. -/
theorem construction_form_independent (tol : ℚ) (pts : List (ℚ × ℚ)) (h : 2 ≤ pts.length) (z : ℚ) (o : Interp) :
    GenQ.Interpolation.set tol (flat pts)
      = GenQ.Interpolation.set tol [.list (pts.map Prod.fst), .list (pts.map Prod.snd)] ∧
    GenQ.Interpolation.set tol (flat pts ++ [.num z])
      = GenQ.Interpolation.set tol [.list (pts.map Prod.fst), .list (pts.map Prod.snd)] ∧
    GenQ.Interpolation.set tol [.interp o] = .ok o :=
  ⟨set_varargs tol pts h, set_varargs_odd tol pts h z, rfl⟩

/-! ### The interpolant passes through every point and reproduces polynomials -/

/-- "The interpolating polynomial through n tabulated points passes through every point": for the Newton form
    itself (Horner evaluation of the divided-difference table, not only the node shortcut of `__call__`), and
    for `__call__`. -/
theorem interpolates (xs ys : List ℚ) (o : Interp)
    (hset : GenQ.Interpolation.set TOL [.list xs, .list ys] = .ok o) :
    (∀ i < o.x.length, horner (nodes o.x i) o.x o.table = nodes o.y i) ∧
    (∀ p ∈ xs.zip ys, call o p.1 = .ok p.2) := by
  obtain ⟨wf, htol, hperm, _⟩ := set_two_lists_ok TOL_pos TOL_le_one hset
  have hnode : ∀ i < o.x.length, horner (nodes o.x i) o.x o.table = nodes o.y i := by
    intro i hi
    rw [horner_eq_eval wf]
    exact Lagrange.eval_interpolate_at_node (nodes o.y) (injOn_nodes wf.sorted) (Finset.mem_range.mpr hi)
  refine ⟨hnode, ?_⟩
  intro p hp
  have hp' : p ∈ o.x.zip o.y := hperm.symm.subset hp
  obtain ⟨i, hi, hget⟩ := List.mem_iff_getElem.mp hp'
  have hix : i < o.x.length := by simp at hi; exact hi.1
  have hiy : i < o.y.length := by simp at hi; exact hi.2
  have e1 : p.1 = nodes o.x i := by
    unfold nodes; rw [List.getD_eq_getElem _ 0 hix, ← hget]; simp
  have e2 : p.2 = nodes o.y i := by
    unfold nodes; rw [List.getD_eq_getElem _ 0 hiy, ← hget]; simp
  rw [call_eq wf]
  cases hn : node_hit o.tol p.1 o.x o.y with
  | some v =>
    -- the node that was hit is `i` itself: the abscissae are more than `tol` apart
    obtain ⟨j, hj, hclose, hv⟩ := node_hit_some o.tol p.1 o.x o.y v wf.len hn
    have hij : j = i := by
      by_contra hne
      have hdist : ¬ |nodes o.x i - nodes o.x j| < o.tol := by
        -- from the duplicate check of `set`
        rw [set_two_lists] at hset
        split_ifs at hset with hl
        unfold finish at hset
        split_ifs at hset with hd
        have hpw := (has_dup_false_iff TOL _).mp (by simpa using hd)
        have hx : o.x.Perm (xs.take (min xs.length ys.length)) := by
          have := hperm.map Prod.fst
          rw [map_fst_zip_eq wf.len, ← take_zip, map_fst_zip_eq (by simp)] at this
          exact this
        have hpw' : o.x.Pairwise (fun a b => ¬ |a - b| < TOL) :=
          (hx.pairwise_iff (fun {a b} hab => by rwa [abs_sub_comm])).mpr hpw
        rw [htol]
        have gi : nodes o.x i = o.x[i] := by unfold nodes; exact List.getD_eq_getElem _ 0 hix
        have gj : nodes o.x j = o.x[j] := by unfold nodes; exact List.getD_eq_getElem _ 0 hj
        rw [gi, gj]
        rcases Nat.lt_or_gt_of_ne hne with hlt | hgt
        · rw [abs_sub_comm]; exact List.pairwise_iff_getElem.mp hpw' j i hj hix hlt
        · exact List.pairwise_iff_getElem.mp hpw' i j hix hj hgt
      rw [e1] at hclose
      exact hdist hclose
    rw [hv, hij, e2]
  | none =>
    exfalso
    have := (node_hit_none_iff o.tol p.1 o.x o.y wf.len).mp hn i hix
    apply this
    rw [e1, sub_self, abs_zero, htol]; exact TOL_pos

/-- "reproduces any polynomial of degree below n … whatever the order in which the points were supplied":
    if the ordinates are the values of a polynomial `p` of degree `< n` then the Newton form evaluates to `p`
    everywhere, exactly; `__call__` returns `p(t)` for every `t` inside the table that is not within the
    tolerance of a node (there it returns the node's ordinate `p(x_i)`). -/
theorem reproduces_polynomial (xs ys : List ℚ) (o : Interp) (p : ℚ[X])
    (hset : GenQ.Interpolation.set TOL [.list xs, .list ys] = .ok o)
    (hdeg : p.degree < (o.x.length : ℕ)) (hval : ∀ q ∈ xs.zip ys, q.2 = p.eval q.1) :
    poly o = p ∧ (∀ t, horner t o.x o.table = p.eval t) ∧
    (∀ t v, call o t = .ok v → v = p.eval t ∨ ∃ i < o.x.length, |t - nodes o.x i| < TOL ∧ v = p.eval (nodes o.x i)) := by
  obtain ⟨wf, htol, hperm, _⟩ := set_two_lists_ok TOL_pos TOL_le_one hset
  have hnodes : ∀ i < o.x.length, nodes o.y i = p.eval (nodes o.x i) := by
    intro i hi
    have hiy : i < o.y.length := wf.len ▸ hi
    have hm : (o.x[i], o.y[i]) ∈ o.x.zip o.y := by
      rw [List.mem_iff_getElem]; exact ⟨i, by simp [hi, hiy], by simp⟩
    have := hval _ (hperm.subset hm)
    unfold nodes
    rw [List.getD_eq_getElem _ 0 hi, List.getD_eq_getElem _ 0 hiy]
    exact this
  have hpoly : poly o = p := by
    symm
    apply Lagrange.eq_interpolate_of_eval_eq (nodes o.y) (injOn_nodes wf.sorted)
    · rw [Finset.card_range]; exact hdeg
    · intro i hi; exact (hnodes i (Finset.mem_range.mp hi)).symm
  refine ⟨hpoly, fun t => by rw [horner_eq_eval wf, hpoly], ?_⟩
  intro t v hc
  rw [call_eq wf] at hc
  cases hn : node_hit o.tol t o.x o.y with
  | some w =>
    rw [hn] at hc
    injection hc with hc
    obtain ⟨i, hi, hclose, hw⟩ := node_hit_some o.tol t o.x o.y w wf.len hn
    right
    exact ⟨i, hi, by rw [← htol]; exact hclose, by rw [← hc, hw, hnodes i hi]⟩
  | none =>
    rw [hn] at hc
    simp only at hc
    split_ifs at hc
    injection hc with hc
    left; rw [← hc, hpoly]

end Pymeeus.C12
