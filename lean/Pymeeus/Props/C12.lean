import Pymeeus.Refine.Interpolation
import Pymeeus.Refine.Root
import Pymeeus.Refine.Derivative
/-
C12 — Interpolation reproduces polynomials; roots and extrema lie where asked.

Property theorems only (helpers: Lemmas/Newton.lean, Refine/OrderPoints.lean, Refine/Interpolation.lean,
Refine/Root.lean).  Statements are about `Pymeeus.GenQ.Interpolation`, the exact (rational) instantiation
of the model lean/templates/Interpolation.lean; tables have ANY number of points (≥ 2).
`poly o` is Mathlib's Lagrange interpolating polynomial through the points of the object `o`;
`nodes l i` is `l[i]`.
-/
namespace Pymeeus.C12
open Pymeeus Pymeeus.PQ Pymeeus.GenQ.Interpolation Pymeeus.Refine.Interpolation Polynomial

/-! ### Construction: ordering, independence of the input order and form -/

/-- `_order_points` returns a permutation of the points, sorted by abscissa. -/
theorem order_points_sorted_perm (x y : List ℚ) (hlen : x.length = y.length) :
    ((order_points x y).1.zip (order_points x y).2).Perm (x.zip y) ∧
    (order_points x y).1.Pairwise (· ≤ ·) ∧
    (order_points x y).1.length = x.length ∧ (order_points x y).2.length = x.length := by
  obtain ⟨h1, h2, h3, h4⟩ := order_points_spec x y hlen
  exact ⟨h3, h4, h1, h2⟩

/-- "whatever the order in which the points were supplied": two tables that are permutations of each other
    (as lists of points) give the same object, or are refused alike. -/
theorem construction_order_independent (tol : ℚ) (x y x' y' : List ℚ)
    (hlen : x.length = y.length) (hlen' : x'.length = y'.length) (hperm : (x.zip y).Perm (x'.zip y')) :
    GenQ.Interpolation.set tol [.list x, .list y] = GenQ.Interpolation.set tol [.list x', .list y'] := by
  have hl : x.length = x'.length := by
    have := hperm.length_eq
    simp only [List.length_zip, ← hlen, ← hlen', Nat.min_self] at this
    exact this
  rw [set_two_lists, set_two_lists, ← hlen, ← hlen', Nat.min_self, Nat.min_self, ← hl]
  by_cases h2 : x.length < 2
  · rw [if_pos h2, if_pos h2]
  · rw [if_neg h2, if_neg h2, List.take_of_length_le (le_refl _), List.take_of_length_le (le_of_eq hlen.symm),
      List.take_of_length_le (le_of_eq hl.symm), List.take_of_length_le (by rw [← hlen', hl])]
    have hx : x.Perm x' := by
      have := hperm.map Prod.fst
      rwa [map_fst_zip_eq hlen, map_fst_zip_eq hlen'] at this
    unfold finish
    rw [has_dup_perm tol hx]
    by_cases hd : has_dup tol x' = true
    · rw [if_pos hd, if_pos hd]
    · rw [if_neg hd, if_neg hd]
      by_cases h0 : 0 < tol
      · have hnd : x.Nodup := hx.nodup_iff.mpr (has_dup_false h0 (by simpa using hd))
        rw [order_points_perm_invariant x y x' y' hlen hlen' hperm hnd]
      · -- a non-positive tolerance: the table cannot be computed, whatever the order
        have hp : plt 0 tol = false := by simp [plt, h0]
        simp only [compute_table, hp, Bool.not_false, if_true]
        have l1 := (order_points_spec x y hlen).1
        have l2 := (order_points_spec x' y' hlen').1
        have p1 : (order_points x y).1.length > 0 := by rw [l1]; omega
        have p2 : (order_points x' y').1.length > 0 := by rw [l2, ← hl]; omega
        simp only [p1, p2, if_true]

/-- "…and whatever input form was used": positional pairs `x0, y0, x1, y1, …` (with or without a trailing
    unpaired argument) build what the two lists build; the copy constructor returns the object. -/
theorem construction_form_independent (tol : ℚ) (pts : List (ℚ × ℚ)) (h : 2 ≤ pts.length) (z : ℚ) (o : Interp) :
    GenQ.Interpolation.set tol (flat pts)
      = GenQ.Interpolation.set tol [.list (pts.map Prod.fst), .list (pts.map Prod.snd)] ∧
    GenQ.Interpolation.set tol (flat pts ++ [.num z])
      = GenQ.Interpolation.set tol [.list (pts.map Prod.fst), .list (pts.map Prod.snd)] ∧
    GenQ.Interpolation.set tol [.interp o] = .ok o :=
  ⟨set_varargs tol pts h, set_varargs_odd tol pts h z, rfl⟩

/-- The one-list form `Interpolation([y0, y1, …])` is the two-list form with the abscissae `0, 1, 2, …`. -/
theorem single_list_form (tol : ℚ) (ys : List ℚ) :
    GenQ.Interpolation.set tol [.list ys]
      = GenQ.Interpolation.set tol [.list ((List.range ys.length).map (fun (i : ℕ) => ((i : ℤ) : ℚ))), .list ys] := by
  rw [set_two_lists]
  simp only [GenQ.Interpolation.set, set1, List.length_map, List.length_range, Nat.min_self, List.take_length, ofInt]
  rw [List.take_of_length_le (by simp)]

/-- Lists of unequal length: the longer one is cut to the length of the shorter one. -/
theorem unequal_lengths_truncated (tol : ℚ) (xs ys : List ℚ) :
    GenQ.Interpolation.set tol [.list xs, .list ys]
      = GenQ.Interpolation.set tol [.list (xs.take (min xs.length ys.length)), .list (ys.take (min xs.length ys.length))] := by
  rw [set_two_lists, set_two_lists]
  simp [List.take_take]

/-! ### The interpolant passes through every point and reproduces polynomials -/

/-- "The interpolating polynomial through n tabulated points passes through every point": for the Newton form
    itself (Horner evaluation of the divided-difference table, not only the node shortcut of `__call__`), and
    for `__call__`. -/
theorem interpolates (xs ys : List ℚ) (o : Interp)
    (hset : GenQ.Interpolation.set TOL [.list xs, .list ys] = .ok o) :
    (∀ i < o.x.length, horner (nodes o.x i) o.x o.table = nodes o.y i) ∧
    (∀ p ∈ xs.zip ys, call o p.1 = .ok p.2) := by
  obtain ⟨wf, htol, hperm, _⟩ := set_two_lists_ok TOL_pos TOL_le_one hset
  have hnode : ∀ i < o.x.length, horner (nodes o.x i) o.x o.table = nodes o.y i := by
    intro i hi
    rw [horner_eq_eval wf]
    exact Lagrange.eval_interpolate_at_node (nodes o.y) (injOn_nodes wf.sorted) (Finset.mem_range.mpr hi)
  refine ⟨hnode, ?_⟩
  intro p hp
  have hp' : p ∈ o.x.zip o.y := hperm.symm.subset hp
  obtain ⟨i, hi, hget⟩ := List.mem_iff_getElem.mp hp'
  have hix : i < o.x.length := by simp at hi; exact hi.1
  have hiy : i < o.y.length := by simp at hi; exact hi.2
  have e1 : p.1 = nodes o.x i := by
    unfold nodes; rw [List.getD_eq_getElem _ 0 hix, ← hget]; simp
  have e2 : p.2 = nodes o.y i := by
    unfold nodes; rw [List.getD_eq_getElem _ 0 hiy, ← hget]; simp
  rw [call_eq wf]
  cases hn : node_hit o.tol p.1 o.x o.y with
  | some v =>
    -- the node that was hit is `i` itself: the abscissae are more than `tol` apart
    obtain ⟨j, hj, hclose, hv⟩ := node_hit_some o.tol p.1 o.x o.y v wf.len hn
    have hij : j = i := by
      by_contra hne
      have hdist : ¬ |nodes o.x i - nodes o.x j| < o.tol := by
        -- from the duplicate check of `set`
        rw [set_two_lists] at hset
        split_ifs at hset with hl
        unfold finish at hset
        split_ifs at hset with hd
        have hpw := (has_dup_false_iff TOL _).mp (by simpa using hd)
        have hx : o.x.Perm (xs.take (min xs.length ys.length)) := by
          have := hperm.map Prod.fst
          rw [map_fst_zip_eq wf.len, ← take_zip, map_fst_zip_eq (by simp)] at this
          exact this
        have hpw' : o.x.Pairwise (fun a b => ¬ |a - b| < TOL) :=
          (hx.pairwise_iff (fun {a b} hab => by rwa [abs_sub_comm])).mpr hpw
        rw [htol]
        have gi : nodes o.x i = o.x[i] := by unfold nodes; exact List.getD_eq_getElem _ 0 hix
        have gj : nodes o.x j = o.x[j] := by unfold nodes; exact List.getD_eq_getElem _ 0 hj
        rw [gi, gj]
        rcases Nat.lt_or_gt_of_ne hne with hlt | hgt
        · rw [abs_sub_comm]; exact List.pairwise_iff_getElem.mp hpw' j i hj hix hlt
        · exact List.pairwise_iff_getElem.mp hpw' i j hix hj hgt
      rw [e1] at hclose
      exact hdist hclose
    rw [hv, hij, e2]
  | none =>
    exfalso
    have := (node_hit_none_iff o.tol p.1 o.x o.y wf.len).mp hn i hix
    apply this
    rw [e1, sub_self, abs_zero, htol]; exact TOL_pos

/-- "reproduces any polynomial of degree below n … whatever the order in which the points were supplied":
    if the ordinates are the values of a polynomial `p` of degree `< n` then the Newton form evaluates to `p`
    everywhere, exactly; `__call__` returns `p(t)` for every `t` inside the table that is not within the
    tolerance of a node (there it returns the node's ordinate `p(x_i)`). -/
theorem reproduces_polynomial (xs ys : List ℚ) (o : Interp) (p : ℚ[X])
    (hset : GenQ.Interpolation.set TOL [.list xs, .list ys] = .ok o)
    (hdeg : p.degree < (o.x.length : ℕ)) (hval : ∀ q ∈ xs.zip ys, q.2 = p.eval q.1) :
    poly o = p ∧ (∀ t, horner t o.x o.table = p.eval t) ∧
    (∀ t v, call o t = .ok v → v = p.eval t ∨ ∃ i < o.x.length, |t - nodes o.x i| < TOL ∧ v = p.eval (nodes o.x i)) := by
  obtain ⟨wf, htol, hperm, _⟩ := set_two_lists_ok TOL_pos TOL_le_one hset
  have hnodes : ∀ i < o.x.length, nodes o.y i = p.eval (nodes o.x i) := by
    intro i hi
    have hiy : i < o.y.length := wf.len ▸ hi
    have hm : (o.x[i], o.y[i]) ∈ o.x.zip o.y := by
      rw [List.mem_iff_getElem]; exact ⟨i, by simp [hi, hiy], by simp⟩
    have := hval _ (hperm.subset hm)
    unfold nodes
    rw [List.getD_eq_getElem _ 0 hi, List.getD_eq_getElem _ 0 hiy]
    exact this
  have hpoly : poly o = p := by
    symm
    apply Lagrange.eq_interpolate_of_eval_eq (nodes o.y) (injOn_nodes wf.sorted)
    · rw [Finset.card_range]; exact hdeg
    · intro i hi; exact (hnodes i (Finset.mem_range.mp hi)).symm
  refine ⟨hpoly, fun t => by rw [horner_eq_eval wf, hpoly], ?_⟩
  intro t v hc
  rw [call_eq wf] at hc
  cases hn : node_hit o.tol t o.x o.y with
  | some w =>
    rw [hn] at hc
    injection hc with hc
    obtain ⟨i, hi, hclose, hw⟩ := node_hit_some o.tol t o.x o.y w wf.len hn
    right
    exact ⟨i, hi, by rw [← htol]; exact hclose, by rw [← hc, hw, hnodes i hi]⟩
  | none =>
    rw [hn] at hc
    simp only at hc
    split_ifs at hc
    injection hc with hc
    left; rw [← hc, hpoly]

/-- "…and its derivative": `derivative(t)` is the derivative of the interpolating polynomial at `t`, for every `t`
    inside the table; hence the derivative of any polynomial of degree `< n` the data were sampled from. -/
theorem derivative_is_polynomial_derivative (xs ys : List ℚ) (o : Interp) (t : ℚ)
    (hset : GenQ.Interpolation.set TOL [.list xs, .list ys] = .ok o) (ht : xfirst o ≤ t ∧ t ≤ xlast o) :
    GenQ.Interpolation.derivative o t = .ok ((Polynomial.derivative (poly o)).eval t) ∧
    ∀ p : ℚ[X], p.degree < (o.x.length : ℕ) → (∀ q ∈ xs.zip ys, q.2 = p.eval q.1) →
      GenQ.Interpolation.derivative o t = .ok ((Polynomial.derivative p).eval t) := by
  obtain ⟨wf, _, _, _⟩ := set_two_lists_ok TOL_pos TOL_le_one hset
  refine ⟨derivative_eq wf ht, ?_⟩
  intro p hdeg hval
  rw [derivative_eq wf ht, (reproduces_polynomial xs ys o p hset hdeg hval).1]

/-! ### Refusals -/

/-- "refuses abscissae outside the table … with ValueError": an abscissa at least the tolerance beyond either end
    of the table is refused by `__call__` and by `derivative`. -/
theorem rejects_outside (xs ys : List ℚ) (o : Interp) (t : ℚ)
    (hset : GenQ.Interpolation.set TOL [.list xs, .list ys] = .ok o)
    (ht : t + TOL ≤ xfirst o ∨ xlast o + TOL ≤ t) :
    call o t = .error .valueError ∧ GenQ.Interpolation.derivative o t = .error .valueError := by
  obtain ⟨wf, htol, _, _⟩ := set_two_lists_ok TOL_pos TOL_le_one hset
  have hout : t < xfirst o ∨ xlast o < t := by
    rcases ht with h | h
    · left; linarith [TOL_pos]
    · right; linarith [TOL_pos]
  refine ⟨?_, derivative_outside wf hout⟩
  rw [call_eq wf]
  have hnone : node_hit o.tol t o.x o.y = none := by
    rw [node_hit_none_iff o.tol t o.x o.y wf.len, htol]
    intro i hi
    obtain ⟨b1, b2⟩ := nodes_between wf hi
    rw [not_lt]
    rcases ht with h | h
    · rw [abs_of_nonpos (by linarith [TOL_pos])]; linarith
    · rw [abs_of_nonneg (by linarith [TOL_pos])]; linarith
  rw [hnone]
  simp only [hout, if_true]

/-- "…and duplicated abscissae with ValueError": two abscissae closer than the tolerance. -/
theorem rejects_duplicates (tol : ℚ) (xs ys : List ℚ) (i j : ℕ) (hij : i < j)
    (hj : j < min xs.length ys.length) (hclose : |nodes xs i - nodes xs j| < tol) :
    GenQ.Interpolation.set tol [.list xs, .list ys] = .error .valueError := by
  rw [set_two_lists]
  split_ifs with hl
  · rfl
  · unfold finish
    have hd : has_dup tol (xs.take (min xs.length ys.length)) = true := by
      apply has_dup_true_of_close hij (by simpa using hj)
      have g : ∀ k, k < min xs.length ys.length → (xs.take (min xs.length ys.length)).getD k 0 = nodes xs k := by
        intro k hk
        unfold nodes
        simp only [List.getD_eq_getElem?_getD, List.getElem?_take, hk, if_true]
      rw [g i (by omega), g j hj]; exact hclose
    rw [if_pos hd]

/-- The arity rules of `set`: one number, two or three positional numbers, a number next to a list, or fewer
    than two points are refused with ValueError; other objects with TypeError. -/
theorem arity_rules (tol v w u : ℚ) (l : List ℚ) :
    GenQ.Interpolation.set tol [.num v] = .error .valueError ∧
    GenQ.Interpolation.set tol [.num v, .num w] = .error .valueError ∧
    GenQ.Interpolation.set tol [.num v, .num w, .num u] = .error .valueError ∧
    GenQ.Interpolation.set tol [.list l, .num v] = .error .valueError ∧
    GenQ.Interpolation.set tol [.num v, .list l] = .error .valueError ∧
    GenQ.Interpolation.set tol [.other] = .error .typeError ∧
    GenQ.Interpolation.set tol [.list l, .other] = .error .typeError ∧
    GenQ.Interpolation.set tol [.list [v]] = .error .valueError ∧
    GenQ.Interpolation.set tol [.list [v], .list l] = .error .valueError ∧
    GenQ.Interpolation.set tol [.num v, .num w, .num u, .other] = .error .typeError := by
  refine ⟨rfl, rfl, rfl, rfl, rfl, rfl, rfl, rfl, ?_, ?_⟩
  · rw [set_two_lists]
    have : min [v].length l.length < 2 := by simp
    rw [if_pos this]
  · rw [set_many]; simp [PyArg.isNum]

/-! ### Root finding -/

/-- "Root finding on [xl, xh] returns an abscissa inside [xl, xh] at which the interpolant vanishes (to the
    object's tolerance)" — partial correctness: whenever `root(xl, xh)` returns `v` (limits in either order, clamped
    to the table; the requested interval meets the table), `v` lies between the limits and inside the table, and
    `|I(v)| ≤ tol` for the value `I(v)` that `__call__` returns at `v`.  (Whether it returns is the convergence of
    the Newton / false-position / bisection iteration; `root_terminates` and `root_fallback_halves_bracket` below
    are what is proved about it.) -/
theorem root_post (xs ys : List ℚ) (o : Interp) (xl xh v : ℚ) (m : Int)
    (hset : GenQ.Interpolation.set TOL [.list xs, .list ys] = .ok o)
    (hnd : ¬ (xl = 0 ∧ xh = 0))
    (hmeet : max (min xl xh) (xfirst o) ≤ min (max xl xh) (xlast o))
    (hr : root o xl xh m = .ok v) :
    (min xl xh ≤ v ∧ v ≤ max xl xh) ∧ (xfirst o ≤ v ∧ v ≤ xlast o) ∧ ∃ y, call o v = .ok y ∧ |y| ≤ TOL := by
  obtain ⟨wf, htol, _, _⟩ := set_two_lists_ok TOL_pos TOL_le_one hset
  obtain ⟨A, B, hlim⟩ := root_ok_limits hr
  obtain ⟨hA, hB⟩ := (root_limits_spec wf hlim).2 hnd
  have hAB : A ≤ B := by rw [hA, hB]; exact hmeet
  obtain ⟨r1, r2, y, hy, hyt⟩ := root_post_core (by rw [htol]; exact TOL_pos) hlim hAB hr
  rw [htol] at hyt
  refine ⟨⟨?_, ?_⟩, ⟨?_, ?_⟩, y, hy, hyt⟩
  · exact le_trans (le_max_left _ _) (hA ▸ r1)
  · exact le_trans (hB ▸ r2) (min_le_left _ _)
  · exact le_trans (le_max_right _ _) (hA ▸ r1)
  · exact le_trans (hB ▸ r2) (min_le_right _ _)

/-- `root()` without limits searches the whole table. -/
theorem root_post_default (xs ys : List ℚ) (o : Interp) (v : ℚ) (m : Int)
    (hset : GenQ.Interpolation.set TOL [.list xs, .list ys] = .ok o) (hr : root o 0 0 m = .ok v) :
    (xfirst o ≤ v ∧ v ≤ xlast o) ∧ ∃ y, call o v = .ok y ∧ |y| ≤ TOL := by
  obtain ⟨wf, htol, _, _⟩ := set_two_lists_ok TOL_pos TOL_le_one hset
  obtain ⟨A, B, hlim⟩ := root_ok_limits hr
  obtain ⟨hA, hB⟩ := (root_limits_spec wf hlim).1 ⟨rfl, rfl⟩
  have hfl : xfirst o ≤ xlast o := (nodes_between wf (i := 0) (by have := wf.two; omega)).2
  obtain ⟨r1, r2, y, hy, hyt⟩ := root_post_core (by rw [htol]; exact TOL_pos) hlim (by rw [hA, hB]; exact hfl) hr
  rw [htol] at hyt
  exact ⟨⟨hA ▸ r1, hB ▸ r2⟩, y, hy, hyt⟩

/-- Which exception `root` raises when: limits closer than the tolerance are refused with ValueError. -/
theorem root_refuses_equal_limits (xs ys : List ℚ) (o : Interp) (xl xh : ℚ) (m : Int)
    (hset : GenQ.Interpolation.set TOL [.list xs, .list ys] = .ok o)
    (hnd : ¬ (xl = 0 ∧ xh = 0)) (hc : |xl - xh| < TOL) :
    root o xl xh m = .error .valueError := by
  obtain ⟨wf, htol, _, _⟩ := set_two_lists_ok TOL_pos TOL_le_one hset
  have hx : o.x ≠ [] := by intro e; have := wf.two; rw [e] at this; simp at this
  unfold root
  rw [root_limits_equal hx hnd (by rw [htol]; exact hc)]
  rfl

/-- What `root` does at its (clamped) limits `A ≤ B`, before iterating: a limit at which the interpolant is within
    the tolerance is returned (the lower one first); if the interpolant has the same sign at both limits the
    interval is refused with ValueError ("Probably no root exists"). -/
theorem root_at_limits (o : Interp) (xl xh A B yl yh : ℚ) (m : Int)
    (hlim : root_limits o xl xh = .ok (A, B)) (hyl : call o A = .ok yl) (hyh : call o B = .ok yh) :
    (|yl| < o.tol → root o xl xh m = .ok A) ∧
    (¬ |yl| < o.tol → |yh| < o.tol → root o xl xh m = .ok B) ∧
    (¬ |yl| < o.tol → ¬ |yh| < o.tol → 0 < yl * yh → root o xl xh m = .error .valueError) :=
  root_entry m hlim hyl hyh

/-- Which exception `root` raises: on a constructed object, for limits whose interval meets the table, `root` returns
    an abscissa or raises ValueError ("limits equal", "no root", "too many iterations") — never ZeroDivisionError
    (the slopes it divides by are ≥ 1e-3, the false-position denominator has opposite-sign terms), never an
    out-of-table evaluation, never an exhausted loop. -/
theorem root_returns_or_valueError (xs ys : List ℚ) (o : Interp) (xl xh : ℚ) (m : Int)
    (hset : GenQ.Interpolation.set TOL [.list xs, .list ys] = .ok o)
    (hnd : ¬ (xl = 0 ∧ xh = 0))
    (hmeet : max (min xl xh) (xfirst o) ≤ min (max xl xh) (xlast o)) :
    (∃ v, root o xl xh m = .ok v) ∨ root o xl xh m = .error .valueError := by
  obtain ⟨wf, htol, _, _⟩ := set_two_lists_ok TOL_pos TOL_le_one hset
  have hx : o.x ≠ [] := by intro e; have := wf.two; rw [e] at this; simp at this
  by_cases hc : |xl - xh| < o.tol
  · right
    unfold root
    rw [root_limits_equal hx hnd hc]
    rfl
  · cases hlim : root_limits o xl xh with
    | error e =>
      -- the only refusal of `root_limits` on a non-empty table is the one excluded by `hc`
      exfalso
      unfold root_limits at hlim
      cases hxs : o.x with
      | nil => exact hx hxs
      | cons x0 xr =>
        rw [hxs] at hlim
        simp only at hlim
        have c : (peq xl 0 && peq xh 0) = false := by
          simp only [peq, Bool.and_eq_false_iff, decide_eq_false_iff_not]
          by_cases hxl : xl = 0
          · right; exact fun e => hnd ⟨hxl, e⟩
          · left; exact hxl
        rw [c] at hlim
        simp only [Bool.false_eq_true, if_false, plt, pabs_eq, hc, decide_false] at hlim
        cases hlim
    | ok p =>
      obtain ⟨A, B⟩ := p
      obtain ⟨hA, hB⟩ := (root_limits_spec wf hlim).2 hnd
      exact root_total_core wf (by rw [htol]; exact TOL_pos) m hlim (by rw [hA, hB]; exact hmeet)
        (by rw [hA]; exact le_max_right _ _) (by rw [hB]; exact min_le_right _ _)

/-- Termination of the iteration: the loop of `root` (any object, any start state with `num_iter = 0`) ends within
    `max_iter + 1` passes — by its exit test `abs(y) <= tol` or by ValueError('Too many iterations'); the model's
    fuel is never exhausted. -/
theorem root_terminates (o : Interp) (m : Int) (s : RootState) (h0 : s.num_iter = 0) :
    loopFuel (root_step o m) (m.toNat + 1) s ≠ none := by
  apply root_loop_terminates
  rw [h0]; omega

/-- The fallback of `root` bisects every other time: on a pass with an even iteration count on which the slope is
    below 1e-3 (Newton switched off) the bracket `[xl, xh]` is halved — it cannot keep one end for ever. -/
theorem root_fallback_halves_bracket (o : Interp) (m : Int) (s s' : RootState) (yp : ℚ)
    (hd : GenQ.Interpolation.derivative o s.x = .ok yp) (hsmall : |yp| < 1e-3)
    (he : imod (s.num_iter + 1) 2 = 0) (h : root_step o m s = .inl s') :
    s'.xh - s'.xl = (s.xh - s.xl) / 2 :=
  root_step_halves hd hsmall he h

/-! ### Extrema -/

/-- "extremum finding returns an abscissa inside the interval at which its derivative vanishes" — partial
    correctness: `minmax` is `root` applied to the interpolant of the nodal derivatives, which IS the derivative
    `P'` of the interpolating polynomial; a returned `v` lies between the limits and inside the table, and
    `|P'(v)| ≤ TOL` (or `v` is within the tolerance of a node `x_i` with `|P'(x_i)| ≤ TOL`: the node shortcut of
    `__call__`). -/
theorem minmax_post (xs ys : List ℚ) (o : Interp) (xl xh v : ℚ) (m : Int)
    (hset : GenQ.Interpolation.set TOL [.list xs, .list ys] = .ok o)
    (hnd : ¬ (xl = 0 ∧ xh = 0))
    (hmeet : max (min xl xh) (xfirst o) ≤ min (max xl xh) (xlast o))
    (hr : minmax o xl xh m = .ok v) :
    (min xl xh ≤ v ∧ v ≤ max xl xh) ∧ (xfirst o ≤ v ∧ v ≤ xlast o) ∧
    ∃ d, |d| ≤ TOL ∧ (d = (Polynomial.derivative (poly o)).eval v ∨
      ∃ i < o.x.length, |v - nodes o.x i| < TOL ∧ d = (Polynomial.derivative (poly o)).eval (nodes o.x i)) := by
  obtain ⟨wf, htol, _, _, hsep⟩ := set_two_lists_ok TOL_pos TOL_le_one hset
  obtain ⟨heq, wfp⟩ := minmax_eq wf hsep xl xh m
  rw [heq] at hr
  obtain ⟨A, B, hlim⟩ := root_ok_limits hr
  obtain ⟨hA, hB⟩ := (root_limits_spec wfp hlim).2 hnd
  have hf : xfirst (prime_of o) = xfirst o := rfl
  have hl : xlast (prime_of o) = xlast o := rfl
  rw [hf] at hA
  rw [hl] at hB
  have hAB : A ≤ B := by rw [hA, hB]; exact hmeet
  obtain ⟨r1, r2, d, hd, hdt⟩ := root_post_core (o := prime_of o) TOL_pos hlim hAB hr
  refine ⟨⟨?_, ?_⟩, ⟨?_, ?_⟩, d, hdt, ?_⟩
  · exact le_trans (le_max_left _ _) (hA ▸ r1)
  · exact le_trans (hB ▸ r2) (min_le_left _ _)
  · exact le_trans (le_max_right _ _) (hA ▸ r1)
  · exact le_trans (hB ▸ r2) (min_le_right _ _)
  · rw [call_eq wfp] at hd
    cases hn : node_hit (prime_of o).tol v (prime_of o).x (prime_of o).y with
    | some w =>
      rw [hn] at hd
      injection hd with hd
      obtain ⟨i, hi, hclose, hw⟩ := node_hit_some _ v _ _ w wfp.len hn
      right
      refine ⟨i, hi, hclose, ?_⟩
      rw [← hd, hw]
      show nodes (o.x.map (fun xi => (Polynomial.derivative (poly o)).eval xi)) i = _
      have hi' : i < o.x.length := hi
      unfold nodes
      rw [List.getD_eq_getElem _ 0 (by simpa using hi'), List.getD_eq_getElem _ 0 hi']
      simp
    | none =>
      rw [hn] at hd
      simp only at hd
      split_ifs at hd
      injection hd with hd
      left; rw [← hd, poly_prime wf]

/-! ### Conjunction helpers -/

/-- "The conjunction helpers built on it return the time at which the interpolated coordinate difference is zero":
    if `planetary_conjunction` (coordinates in degrees) returns `(n0, dd)` then, with `ia` / `id` the interpolation
    objects of the right-ascension / declination differences over the times `-h, …, h`, the time `n0` lies inside
    the table, `|ia(n0)| ≤ TOL`, and `dd = id(n0)`. -/
theorem conjunction_post (a1 d1 a2 d2 : List ℚ) (n0 dd : ℚ)
    (h : planetary_conjunction a1 d1 a2 d2 = .ok (n0, dd)) :
    ∃ (ns da de : List ℚ) (ia id : Interp),
      GenQ.Interpolation.set TOL [.list ns, .list da] = .ok ia ∧ GenQ.Interpolation.set TOL [.list ns, .list de] = .ok id ∧
      (xfirst ia ≤ n0 ∧ n0 ≤ xlast ia) ∧ (∃ y, call ia n0 = .ok y ∧ |y| ≤ TOL) ∧ call id n0 = .ok dd := by
  unfold planetary_conjunction at h
  split_ifs at h
  all_goals
    simp only [bind, Except.bind] at h
    split at h
    · cases h
    · rename_i ia hia
      split at h
      · cases h
      · rename_i id hid
        split at h
        · cases h
        · rename_i r hr
          split at h
          · cases h
          · rename_i v hv
            simp only [pure, Except.pure] at h
            injection h with h
            injection h with e1 e2
            subst e1; subst e2
            exact ⟨_, _, _, ia, id, hia, hid, (root_post_default _ _ ia r 1000 hia hr).1,
              (root_post_default _ _ ia r 1000 hia hr).2, hv⟩

/-- The time returned by `planetary_conjunction` lies in the table of times `-h, …, n-1-h` (`n` entries used: all
    of them, or all but the last when their number is even; `h = n / 2`). -/
theorem conjunction_time_window (a1 d1 a2 d2 : List ℚ) (n0 dd : ℚ)
    (h : planetary_conjunction a1 d1 a2 d2 = .ok (n0, dd)) :
    ∃ n : ℕ, (n = a1.length ∨ n = a1.length - 1) ∧ 3 ≤ n + 1 ∧
      (((0 : ℤ) - ((n / 2 : ℕ) : ℤ) : ℤ) : ℚ) ≤ n0 ∧ n0 ≤ ((((n - 1 : ℕ) : ℤ) - ((n / 2 : ℕ) : ℤ) : ℤ) : ℚ) := by
  have key : ∀ (b1 b2 : List ℚ) (ia : Interp) (r : ℚ), b1.length = b2.length → 2 ≤ b1.length →
      GenQ.Interpolation.set TOL [.list (times b1.length ((b1.length / 2 : ℕ) : ℤ)),
        .list (List.zipWith (fun a b => a - b) b1 b2)] = .ok ia →
      root ia 0 0 1000 = .ok r →
      (((0 : ℤ) - ((b1.length / 2 : ℕ) : ℤ) : ℤ) : ℚ) ≤ r ∧
        r ≤ ((((b1.length - 1 : ℕ) : ℤ) - ((b1.length / 2 : ℕ) : ℤ) : ℤ) : ℚ) := by
    intro b1 b2 ia r hl h2 hia hr
    have hx : ia.x = times b1.length ((b1.length / 2 : ℕ) : ℤ) :=
      set_sorted_keeps_x TOL_pos TOL_le_one (times_sorted _ _) (by simp [times, hl]) hia
    obtain ⟨⟨r1, r2⟩, _⟩ := root_post_default _ _ ia r 1000 hia hr
    have hlen : ia.x.length = b1.length := by rw [hx]; simp [times]
    have f : xfirst ia = (((0 : ℤ) - ((b1.length / 2 : ℕ) : ℤ) : ℤ) : ℚ) := by
      unfold xfirst; rw [hx, nodes_times _ (by omega)]; norm_num
    have l : xlast ia = ((((b1.length - 1 : ℕ) : ℤ) - ((b1.length / 2 : ℕ) : ℤ) : ℤ) : ℚ) := by
      unfold xlast; rw [hlen, hx, nodes_times _ (by omega)]
    rw [f] at r1; rw [l] at r2
    exact ⟨r1, r2⟩
  unfold planetary_conjunction at h
  split_ifs at h with g1 g2 g3
  all_goals
    simp only [bind, Except.bind] at h
    split at h
    · cases h
    · rename_i ia hia
      split at h
      · cases h
      · rename_i id hid
        split at h
        · cases h
        · rename_i r hr
          split at h
          · cases h
          · rename_i v hv
            simp only [pure, Except.pure] at h
            injection h with h
            injection h with e1 e2
            subst e1
            first
              | exact ⟨a1.dropLast.length, Or.inr (by simp), by simp; omega,
                  key a1.dropLast a2.dropLast ia r (by simp; omega) (by simp; omega) hia hr⟩
              | exact ⟨a1.length, Or.inl rfl, by omega, key a1 a2 ia r (by omega) (by omega) hia hr⟩

/-! ### Non-vacuity: concrete tables satisfy the hypotheses used above -/

example : (GenQ.Interpolation.set TOL [.list [3, 1, 2], .list [9, 1, 4]]).map (fun o => (o.x, o.y, o.table))
    = .ok ([1, 2, 3], [1, 4, 9], [1, 3, 1]) := by decide +kernel
example : (GenQ.Interpolation.set TOL [.list [3, 1, 2], .list [9, 1, 4]] >>= fun o => call o (5 / 2))
    = .ok (25 / 4) := by decide +kernel
example : (GenQ.Interpolation.set TOL [.list [3, 1, 2], .list [9, 1, 4]] >>= fun o => GenQ.Interpolation.derivative o (5 / 2))
    = .ok 5 := by decide +kernel
example : (GenQ.Interpolation.set TOL [.list [0, 1, 2], .list [-1, 1, 3]] >>= fun o => root o (1 / 4) 1 5)
    = .ok (1 / 2) := by decide +kernel
example : (GenQ.Interpolation.set TOL [.list [0, 1, 2], .list [3, 0, 1]] >>= fun o => minmax o (1 / 2) 2 5)
    = .ok (5 / 4) := by decide +kernel
example : planetary_conjunction [10, 11, 12] [5, 6, 7] [12, 11, 10] [1, 1, 1] = .ok (0, 5) := by decide +kernel
example : (GenQ.Interpolation.set TOL [.list [0, 1, 2], .list [3, 1, 2]] >>= fun o => root o 0 2 5)
    = .error .valueError := by decide +kernel   -- no sign change
example : (GenQ.Interpolation.set TOL [.list [0, 1, 2], .list [3, 0, 1]] >>= fun o => root o (1 / 2) 1 5)
    = .ok 1 := by decide +kernel                 -- the upper limit is a root
example : (GenQ.Interpolation.set TOL [.list [0, 1, 2], .list [3, 0, 1]] >>= fun o => call o 3)
    = .error .valueError := by decide +kernel

end Pymeeus.C12
