import Pymeeus.Gen.Q.Interpolation
namespace Pymeeus.C12
open Pymeeus

/-- placeholder while the property theorems are being written -/
theorem placeholder : (1 : Nat) = 1 := rfl

end Pymeeus.C12
