/-
  C20 — Calls are side-effect free (and total on their documented domain).

  The effect clause of the property is decided by a *verified effect analysis*
  (Spec/Effects.lean): `check : Program → Bool`.  The general theorems below are proved once, for
  every program, every heap, every execution (loops and recursion unbounded).  `check_current`
  re-runs the analysis, inside the Lean kernel, on the effect skeleton that tools/py2effects.py
  regenerates from the current pymeeus source on every run (Gen/Effects/Current.lean).

  Outside the model: the values of scalar computations (the model makes them nondeterministic, so
  "returns equal results" is carried here as "the second call reads exactly the same input: same
  reachable objects with the same contents"); that the skeleton abstracts the Python faithfully
  (checked dynamically by harness/c20.py); totality (dynamic only).
-/
import Pymeeus.Lemmas.EffectsTop
import Pymeeus.Gen.Effects.Checks

namespace Pymeeus.C20
open Pymeeus.Effects

/-- "No library call changes the Angle, Epoch, list or tuple objects passed to it, nor any
module-level table or constant": if the analysis accepts the program, a call of a public function
documented as side-effect free, started in any well-formed heap with any arguments, by any
execution, leaves every object that existed before the call (arguments, everything reachable
from them, module-level tables, everything else) exactly as it was. -/
/- Coverage of the proof.  `sound` rests on `sound_stmt` (Lemmas/EffectsSound.lean), an induction over the
   derivation of `Exec` with one case per rule of the semantics: skip, seqN, seqX, scalar, alias, global, new, load,
   store, callRet, callFall, callExc, iteL, iteR, whileDone, whileStep, whileExit, ret, raise — i.e. every
   constructor of `Stmt` (skip, seq, scalar, alias, global, new, load, store, call, ite, while, ret, raise) and every
   transfer rule of `aexec`, including the ones added since the first version: the `dead` state after return/raise,
   the `exposed` phase of `astore` / `acall` (`AState.expose`, `AState.mark`, summaries with `exposes`) and the
   receiver-attribute table.  What the translator added later (namedtuple / __slots__ holders, zip / enumerate as
   values, walrus, slices, per-operator result types) is expressed with the SAME statement constructors (new + store
   + load; the operator typing only prunes dispatch alternatives), so it needs no new case: the examples further
   down pin each shape on a minimal accepted / rejected pair. -/
theorem sound {P : Program} (hck : check P = true) {g : Nat} {fd : FunDecl} {h h' : Heap}
    {vals : List Val} {o : Outcome} (hg : P.funs[g]? = some fd) (hpure : fd.kind = .pure)
    (hw : WFHeap h) (hv : ∀ i, WFVal h.next (vals.getD i .scalar))
    (hex : Exec P fd.body h (entryEnv fd.nparams vals) h' o) :
    ∀ id, id < h.next → h'.obj id = h.obj id :=
  fun id hid => call_frame hck hg hw hv hex id hid (Or.inl hpure)

/-- "the only in-place mutators Angle.to_positive, Angle.set, …": a documented mutator changes at
most the receiver object itself (parameter 0): not the other arguments, not an object the receiver
merely points to (a list shared with a copy source), no module-level table. -/
theorem sound_mutator {P : Program} (hck : check P = true) {g : Nat} {fd : FunDecl} {h h' : Heap}
    {vals : List Val} {o : Outcome} (hg : P.funs[g]? = some fd) (hmut : fd.kind = .mutator)
    (hw : WFHeap h) (hv : ∀ i, WFVal h.next (vals.getD i .scalar))
    (hex : Exec P fd.body h (entryEnv fd.nparams vals) h' o) :
    ∀ id, id < h.next → vals.getD 0 .scalar ≠ .ref id → h'.obj id = h.obj id :=
  fun id hid hne => call_frame hck hg hw hv hex id hid (Or.inr ⟨hmut, hne⟩)

/-- History clause, heap part: after any sequence of public calls (each started where the previous
one stopped, arguments possibly results of earlier calls), an object that existed at the start and
was not the receiver of a mutator call in the sequence is unchanged. -/
theorem history_frame {P : Program} (hck : check P = true) {calls h h'} (hrun : Run P calls h h')
    (hw : WFHeap h) : ∀ id, id < h.next → Untouched P calls id → h'.obj id = h.obj id :=
  (run_frame hck hrun hw).2

/-- "calling any function twice with equal arguments, in any order relative to other calls, returns
equal results": whatever calls are made in between, the part of the heap a later call with the same
argument `a` can read — the objects reachable from `a` (or from a module table `a`) — is the same
set of objects with the same contents, provided none of them was the receiver of a mutator call.
(Equality of the *numbers* computed from equal inputs is determinism of float arithmetic, which the
model abstracts; it is checked dynamically.) -/
theorem history {P : Program} (hck : check P = true) {calls h h'} (hrun : Run P calls h h')
    (hw : WFHeap h) {a : Nat} (ha : a < h.next)
    (hun : ∀ o, Reach h a o → Untouched P calls o) :
    (∀ o, Reach h' a o ↔ Reach h a o) ∧ ∀ o, Reach h a o → h'.obj o = h.obj o := by
  have hsame : ∀ o, Reach h a o → h'.obj o = h.obj o := fun o ho =>
    history_frame hck hrun hw o (reach_wf hw ha ho) (hun o ho)
  exact ⟨reach_congr hsame, hsame⟩

/-- "copies made by copy-constructors do not share state with their source", in the form that
matters: allocate `b` (`h.alloc`, the new object is `h.next`), run the constructor on it with the
source `a` as argument and then any public calls whatsoever in which `b` is the only object used
as receiver of a mutator: nothing reachable from the source `a` changes — even if the constructor
made `b` point to `a`'s lists, because accepted mutators write the receiver object only. -/
theorem copy_independent {P : Program} (hck : check P = true) {calls h h'} (hw : WFHeap h)
    (hrun : Run P calls h.alloc h') {a : Nat} (ha : a < h.next)
    (hcalls : ∀ c, c ∈ calls → P.kind c.1 = .pure ∨
      (P.kind c.1 = .mutator ∧ c.2.getD 0 .scalar = .ref h.next)) :
    (∀ o, Reach h' a o ↔ Reach h a o) ∧ ∀ o, Reach h a o → h'.obj o = h.obj o := by
  have hwa := wfheap_alloc hw
  have hobj : ∀ id, id < h.next → h.alloc.obj id = h.obj id := by
    intro id hid
    have : id ≠ h.next := by omega
    simp [Heap.alloc, this]
  have hsame : ∀ o, Reach h a o → h'.obj o = h.obj o := by
    intro o ho
    have hlt := reach_wf hw ha ho
    rw [← hobj o hlt]
    refine history_frame hck hrun hwa o (by simp [Heap.alloc]; omega) ?_
    intro c hc
    rcases hcalls c hc with hp | ⟨hm, hr⟩
    · exact Or.inl hp
    · refine Or.inr ⟨hm, ?_⟩
      rw [hr]; intro heq; cases heq; omega
  exact ⟨reach_congr hsame, hsame⟩


/-! ### The current source -/

/-- The per-run obligation: the effect skeleton regenerated from the current pymeeus source
(`Current.program`, every function and method of the 19 modules) is accepted by the analysis.
Evaluated by the kernel, module by module (Gen/Effects/Check_*.lean), against the current source;
a change of the source that makes a public function write an argument, an object reachable from
it, or a module-level table breaks this theorem. -/
theorem check_current : check Current.program = true := by
  have h := Current.all_checked
  unfold check
  rw [Current.sums_eq]
  exact h

/-- The functions treated as in-place mutators of their receiver are exactly the documented ones
(the anchors of the property plus `Minor.set`, and the constructors); every other public function is
held to "writes nothing". -/
theorem mutators_documented :
    (Current.program.funs.filter (fun fd => fd.kind == .mutator)).map (·.name) =
      ["Angle.__init__", "Angle.set_tolerance", "Angle.set", "Angle.set_radians", "Angle.set_ra",
       "Angle.to_positive", "CurveFitting.__init__", "CurveFitting.set", "Ellipsoid.__init__",
       "Earth.__init__", "Earth.set", "Epoch.__init__", "Epoch.set", "Interpolation.__init__",
       "Interpolation.set", "Interpolation.set_tolerance", "Minor.__init__", "Minor.set",
       "Sun.__init__"] := by
  decide +kernel

/-- `sound` instantiated at the current source: no public side-effect-free function or method of
pymeeus changes any object that exists when it is called. -/
theorem current_pure_calls_change_nothing {g : Nat} {fd : FunDecl} {h h' : Heap} {vals : List Val}
    {o : Outcome} (hg : Current.program.funs[g]? = some fd) (hpure : fd.kind = .pure)
    (hw : WFHeap h) (hv : ∀ i, WFVal h.next (vals.getD i .scalar))
    (hex : Exec Current.program fd.body h (entryEnv fd.nparams vals) h' o) :
    ∀ id, id < h.next → h'.obj id = h.obj id :=
  sound check_current hg hpure hw hv hex

/-- "ill-typed … arguments are rejected with TypeError": for every public function with `isinstance`
guards at its head, the Boolean formula it evaluates (extracted as written: `and` / `or` / `not`
over "argument i is an instance of classes C") rejects every combination of argument classes in
which some guarded argument has a class the guard does not name — it is the conjunction the signature
requires, not a weaker formula — and accepts some combination.  Decided over all class combinations. -/
theorem guards_current :
    Current.guards.all (fun g => Pymeeus.Guards.guardOk g.2.1 g.2.2) = true := by
  decide +kernel

/-- The weaker formula of the defect fixed by commit 98cf229 (`and` written for `or`:
`if not isinstance(epoch, Epoch) and not isinstance(tofk5, bool): raise TypeError`) is refused. -/
example : Pymeeus.Guards.guardOk [1, 1] (.and (.not (.isa 0 [1])) (.not (.isa 1 [1]))) = false := by decide
example : Pymeeus.Guards.guardOk [1, 1] (.or (.not (.isa 0 [1])) (.not (.isa 1 [1]))) = true := by decide
example : Pymeeus.Guards.guardOk [1, 1] (.not (.and (.isa 0 [1]) (.isa 1 [1]))) = true := by decide

/-! ### The analysis discriminates (the hypotheses above are not vacuous)

Variables: 0 = first parameter, …; attribute 0 = `_deg`, attribute 1 = `_x`. -/

/-- `def set(self, deg): deg[0] = degrees(deg[0]); self._deg = …` — the defect fixed by commit 6a9fdb4
(`Angle([x], radians=True)` overwrote the caller's list element). -/
def exPreFix : Program := ⟨2, [
  ⟨"set", 2, 3, blk [.setitem 1 2, .store 0 (.field 0) 2], .mutator, ⟨[0], true, true, .scal⟩⟩]⟩
/-- the repaired version: reads `deg[0]` into a local, writes `self` only -/
def exPostFix : Program := ⟨2, [
  ⟨"set", 2, 3, blk [.load 2 1 .elem, .scalar 2, .store 0 (.field 0) 2], .mutator, ⟨[0], true, true, .scal⟩⟩]⟩

example : check exPreFix = false := by decide
example : check exPostFix = true := by decide
/-- not even the weaker summary "writes self and the list" passes for a documented mutator -/
example : check ⟨2, [⟨"set", 2, 3, blk [.setitem 1 2, .store 0 (.field 0) 2], .mutator,
    ⟨[0, 1], true, true, .scal⟩⟩]⟩ = false := by decide

/-- the pre-fix program really has an execution that changes the caller's list: the semantics can
express the defect (heap: object 0 = self, object 1 = the list). -/
theorem prefix_mutates_argument :
    ∃ h', Exec exPreFix (blk [.setitem 1 2, .store 0 (.field 0) 2])
        ⟨2, fun _ _ => .ref 0⟩ (entryEnv 2 [.ref 0, .ref 1]) h' (.norm (entryEnv 2 [.ref 0, .ref 1]))
      ∧ h'.obj 1 0 ≠ (⟨2, fun _ _ => .ref 0⟩ : Heap).obj 1 0 := by
  refine ⟨_, Exec.seqN (Exec.store (id := 1) (k := 0) rfl trivial)
    (Exec.store (id := 0) (k := 0) rfl rfl), ?_⟩
  simp [Heap.write, entryEnv]

/-- A copy constructor that shares the list (`self._x = other._x`) is accepted on its own … -/
def exShare : FunDecl :=
  ⟨"__init__", 2, 3, blk [.load 2 1 (.field 1), .store 0 (.field 1) 2], .mutator, ⟨[0], false, true, .scal⟩⟩
/-- … a mutator that rebinds before appending (`self._x = []; self._x.append(v)`) is accepted … -/
def exRebind : FunDecl :=
  ⟨"set", 2, 4, blk [.new 2, .store 0 (.field 1) 2, .load 3 0 (.field 1), .append 3 1], .mutator,
    ⟨[0], false, true, .scal⟩⟩
/-- … but one that appends in place (`self._x.append(v)`) is rejected: with the sharing constructor it
would change the copy's source. -/
def exInPlace : FunDecl :=
  ⟨"add", 2, 4, blk [.load 3 0 (.field 1), .append 3 1], .mutator, ⟨[0], false, true, .scal⟩⟩

example : check ⟨2, [exShare, exRebind]⟩ = true := by decide
example : check ⟨2, [exShare, exInPlace]⟩ = false := by decide
/-- a copying constructor (`self._x = list(other._x)`) keeps the new object closed -/
example : check ⟨2, [⟨"__init__", 2, 5, blk [.load 2 1 (.field 1), .new 3, .load 4 2 .elem,
    .scalar 4, .store 3 .elem 4, .store 0 (.field 1) 3], .mutator, ⟨[0], true, true, .scal⟩⟩]⟩ = true := by decide

/-- an operator building a new object from two operands (`__add__`): accepted, result new -/
example : check ⟨2, [⟨"__init__", 2, 3, blk [.scalar 2, .store 0 (.field 0) 2], .mutator, ⟨[0], true, true, .scal⟩⟩,
    ⟨"__add__", 2, 5, blk [.new 2, .call 3 0 [2, 4], .ret 2], .pure, ⟨[], true, true, .closed⟩⟩]⟩ = true := by decide
/-- an "operator" that updates its left operand in place: rejected -/
example : check ⟨2, [⟨"__iadd__", 2, 3, blk [.scalar 2, .store 0 (.field 0) 2, .ret 0], .pure,
    ⟨[0], true, true, .param 0⟩⟩]⟩ = false := by decide
/-- a function that writes into a module-level table: rejected whatever summary is proposed -/
example : check ⟨2, [⟨"f", 0, 2, blk [.global 0 7, .scalar 1, .setitem 0 1], .pure, ⟨[], true, true, .scal⟩⟩]⟩
    = false := by decide
/-- calling a mutator on a tuple element of a callee's fresh result is fine
(`lon, lat = g(); lon.to_positive()`), on an element of a parameter it is not -/
example : check ⟨2, [
    ⟨"to_positive", 1, 2, blk [.scalar 1, .store 0 (.field 0) 1, .ret 0], .mutator, ⟨[0], true, true, .param 0⟩⟩,
    ⟨"g", 0, 3, blk [.new 0, .new 1, .append 0 1, .ret 0], .pure, ⟨[], true, true, .closed⟩⟩,
    ⟨"f", 0, 4, blk [.call 0 1 [], .load 1 0 .elem, .call 2 0 [1], .ret 2], .pure, ⟨[], true, true, .closed⟩⟩]⟩
    = true := by decide
example : check ⟨2, [
    ⟨"to_positive", 1, 2, blk [.scalar 1, .store 0 (.field 0) 1, .ret 0], .mutator, ⟨[0], true, true, .param 0⟩⟩,
    ⟨"f", 1, 4, blk [.load 1 0 .elem, .call 2 0 [1], .ret 2], .pure, ⟨[], true, true, .any⟩⟩]⟩
    = false := by decide

/-! ### Temporaries may hold anything; objects hung from a parameter may not

A summary with `keeps = true` lets callers keep treating their new objects as closed.  The function may fill
its own temporaries with arbitrary references (a generator expression over a parameter, an options dict)
as long as no object allocated by it is reachable from a parameter's object (`exposes = false`: only scalars
are stored there). -/

/-- `def set(self, pieces): tmp = [p for p in pieces]; self._deg = <number>`: accepted with `keeps`, not exposing -/
example : check ⟨2, [⟨"set", 2, 5, blk [.new 2, .load 3 1 .elem, .append 2 3, .scalar 4, .store 0 (.field 0) 4],
    .mutator, ⟨[0], true, false, .scal⟩⟩]⟩ = true := by decide
/-- … so a caller may still mutate an element of a tuple of such objects returned by a callee -/
example : check ⟨2, [
    ⟨"set", 2, 5, blk [.new 2, .load 3 1 .elem, .append 2 3, .scalar 4, .store 0 (.field 0) 4], .mutator,
      ⟨[0], true, false, .scal⟩⟩,
    ⟨"pair", 1, 4, blk [.new 1, .call 2 0 [1, 0], .new 3, .append 3 1, .ret 3], .pure, ⟨[], true, false, .closed⟩⟩,
    ⟨"use", 1, 5, blk [.call 1 1 [0], .load 2 1 .elem, .call 3 0 [2, 0], .ret 2], .pure, ⟨[], true, false, .closed⟩⟩]⟩
    = true := by decide
/-- `self._x = []` needs `exposes`; claiming "scalars only" is refused -/
example : check ⟨2, [⟨"set", 1, 3, blk [.new 1, .store 0 (.field 1) 1], .mutator, ⟨[0], true, false, .scal⟩⟩]⟩ = false := by
  decide
example : check ⟨2, [⟨"set", 1, 3, blk [.new 1, .store 0 (.field 1) 1], .mutator, ⟨[0], true, true, .scal⟩⟩]⟩ = true := by
  decide
/-- `self._x = t; t.append(old)`: once `t` hangs from `self`, putting an old reference into it breaks `keeps` -/
example : check ⟨2, [⟨"set", 2, 4, blk [.new 2, .store 0 (.field 1) 2, .append 2 1], .mutator,
    ⟨[0], true, true, .scal⟩⟩]⟩ = false := by decide
/-- the other order is caught as well: the temporary is no longer `closed` when it is hung from `self` -/
example : check ⟨2, [⟨"set", 2, 4, blk [.new 2, .append 2 1, .store 0 (.field 1) 2], .mutator,
    ⟨[0], true, true, .scal⟩⟩]⟩ = false := by decide
/-- … both are fine for a summary that does not promise `keeps` (its callers then stop trusting closedness) -/
example : check ⟨2, [⟨"set", 2, 4, blk [.new 2, .store 0 (.field 1) 2, .append 2 1], .mutator,
    ⟨[0], false, true, .scal⟩⟩]⟩ = true := by decide

/-! ### Hidden module-level state (the shapes of the seeded changes C19-c, C20-c, C01-c, C07-c, C10-c)

tools/py2effects.py maps every attribute / element store whose base is a class object, a function object
or a module, every `global` rebinding, `setattr`, and every mutating method of a module-level container to a
store through a `global` object (object 0 = "unknown module-level state").  Whatever summary is proposed,
such a function is rejected; only reading the state is accepted.
(`python3 tools/py2effects.py --selftest` runs the translator itself on these Python shapes.) -/

/-- `class Epoch: _leap_years = {}` … `Epoch._leap_years[cycle] = leap; return Epoch._leap_years[cycle]`
in a static method (C19-c): a store into the class-level dict (module-level object 5) -/
example : check ⟨2, [⟨"is_leap", 1, 4, blk [.global 1 5, .scalar 2, .setitem 1 2, .global 1 5, .load 3 1 .elem, .ret 3],
    .pure, ⟨[], true, true, .any⟩⟩]⟩ = false := by decide
example : check ⟨2, [⟨"is_leap", 1, 4, blk [.global 1 5, .scalar 2, .setitem 1 2, .global 1 5, .load 3 1 .elem, .ret 3],
    .pure, ⟨[], false, true, .any⟩⟩]⟩ = false := by decide
/-- only reading the class-level dict is fine -/
example : check ⟨2, [⟨"is_leap", 1, 4, blk [.global 1 5, .load 3 1 .elem, .ret 3], .pure, ⟨[], true, true, .any⟩⟩]⟩ = true := by
  decide
/-- `f._last = (t, value)` / `last = f._last` (C20-c): the function object is module-level state -/
example : check ⟨2, [⟨"nutation_longitude", 1, 4, blk [.global 1 0, .load 2 1 (.field 1), .new 3, .global 1 0,
    .store 1 (.field 1) 3, .ret 2], .pure, ⟨[], false, true, .any⟩⟩]⟩ = false := by decide
/-- `global COUNT; COUNT = x`: a store into the module namespace -/
example : check ⟨2, [⟨"f", 1, 3, blk [.global 1 0, .store 1 (.field 0) 0], .pure, ⟨[], false, true, .scal⟩⟩]⟩ = false := by
  decide
/-- `TABLE.append(x)`, `TABLE.pop()`, `TABLE.sort()`, `TABLE.clear()`, `CACHE.update(..)`, `TABLE[i] = x`,
`del TABLE[i]` on a module-level container (C01-c, C07-c, C10-c): all are element stores -/
example : check ⟨2, [⟨"f", 1, 3, blk [.global 1 3, .append 1 0], .pure, ⟨[], false, true, .scal⟩⟩]⟩ = false := by decide
example : check ⟨2, [⟨"f", 1, 3, blk [.global 1 3, .load 2 1 .elem, .scalar 0, .setitem 1 0, .ret 2], .pure,
    ⟨[], false, true, .any⟩⟩]⟩ = false := by decide
/-- … while working on a local copy (`t = list(TABLE); t.append(x); t.sort()`) is accepted -/
example : check ⟨2, [⟨"f", 1, 5, blk [.global 1 3, .new 2, .load 3 1 .elem, .store 2 .elem 3, .append 2 0, .ret 2], .pure,
    ⟨[], false, true, .fresh⟩⟩]⟩ = true := by decide
/-- `setattr(o, name, x)` on a parameter: a store into the parameter's object, which a side-effect-free
function may not do (the translator gives up on `setattr` and emits a store to unknown state) -/
example : check ⟨2, [⟨"f", 2, 3, blk [.store 0 .elem 1], .pure, ⟨[0], false, true, .scal⟩⟩]⟩ = false := by decide
example : check ⟨2, [⟨"f", 2, 4, blk [.global 3 0, .store 3 .elem 2], .pure, ⟨[], false, true, .scal⟩⟩]⟩ = false := by decide
/-- `def f(x, acc=[]): acc.append(x); return acc`: the function writes its parameter `acc`, and the default
object is one module-level object shared by every call that omits the argument -/
example : check ⟨2, [⟨"f", 2, 3, blk [.append 1 0, .ret 1], .pure, ⟨[1], false, true, .param 1⟩⟩]⟩ = false := by decide
example : check ⟨2, [⟨"_f", 2, 3, blk [.append 1 0, .ret 1], .helper, ⟨[1], false, true, .param 1⟩⟩,
    ⟨"caller", 1, 4, blk [.global 1 0, .call 2 0 [0, 1], .ret 2], .pure, ⟨[], false, true, .any⟩⟩]⟩ = false := by decide

/-! ### Rejection before effects -/

/-- "ill-typed or out-of-range arguments are rejected with TypeError or ValueError": whatever the first statement
of a function does when it is accepted under the empty write set — in particular when it leaves through its
`raise` — no object that existed when the call started has been written, not even the receiver of a mutator:
the guard dominates every effect.  (A body execution that leaves inside its first statement has, by rule `seqX`,
exactly that statement's final heap.) -/
theorem guard_dominates_effects {P : Program} (hck : check P = true) {fd : FunDecl} {h h' : Heap}
    {vals : List Val} {o : Outcome} (hok : guardHeadOk P fd = true)
    (hw : WFHeap h) (hv : ∀ i, WFVal h.next (vals.getD i .scalar))
    (hex : Exec P fd.body.head h (entryEnv fd.nparams vals) h' o) :
    ∀ id, id < h.next → h'.obj id = h.obj id := by
  simp only [guardHeadOk, Bool.and_eq_true] at hok
  exact stmt_frame hck hok.2 hw hv hex

/-- … and a rejected call as a whole: if the body is `guard; rest` and the execution leaves inside the guard,
the heap is untouched. -/
theorem rejected_call_changes_nothing {P : Program} (hck : check P = true) {fd : FunDecl} {a b : Stmt}
    {h h' : Heap} {vals : List Val} {v : Val} {x : Bool} (hbody : fd.body = .seq a b)
    (hok : guardHeadOk P fd = true) (hw : WFHeap h) (hv : ∀ i, WFVal h.next (vals.getD i .scalar))
    (hex : Exec P a h (entryEnv fd.nparams vals) h' (.exit v x)) :
    Exec P fd.body h (entryEnv fd.nparams vals) h' (.exit v x) ∧ ∀ id, id < h.next → h'.obj id = h.obj id := by
  refine ⟨by rw [hbody]; exact Exec.seqX hex, ?_⟩
  have : fd.body.head = a := by rw [hbody]; rfl
  exact guard_dominates_effects hck hok hw hv (this ▸ hex)

/-- On the current source: of the 182 functions whose first statement can raise (the `isinstance` / range guards at
the head of the public functions), every one, `Earth.set` at most excepted, has a first statement that writes nothing that
existed before the call.  (`Earth.set` is `if isinstance(e, Ellipsoid): self._ellip = e  else: raise TypeError`:
its first statement contains the write, on the branch that does not raise.) -/
theorem guards_dominate_current :
    ((Current.program.funs.filter (fun fd => fd.body.head.hasRaise)).filter
      (fun fd => !guardHeadOk Current.program fd)).all (fun fd => fd.name ∈ ["Earth.set"]) = true := by
  decide +kernel

/-- Which documented mutators can leave through an explicit `raise` AFTER having written their receiver (a
half-written `self`): at most `CurveFitting.set`, `Epoch.set` and `Interpolation.set` — they clear the receiver
first (`self._jde = 0.0`, `self._x = []`) and validate afterwards, so `e.set(2000, 13, 1)` raises ValueError and
leaves `e.jde() == 0.0` (all three are flagged on the source of today, and the behaviour is confirmed on the
implementation).  All the other mutators (and all constructors) write the receiver only on paths that do
not reach a `raise` of their own.  (Syntactic, on the skeleton: `halfWrite`; exceptions propagating out of callees
are not counted.) -/
theorem mutators_half_written :
    (Current.program.funs.filter (fun fd => fd.kind == .mutator && mayLeaveHalfWritten Current.program fd)).all
      (fun fd => fd.name ∈ ["CurveFitting.set", "Epoch.set", "Interpolation.set"]) = true := by
  decide +kernel

/-- `halfWrite` discriminates: validate-then-write is clean, write-then-validate is flagged. -/
example : mayLeaveHalfWritten ⟨2, [⟨"set", 2, 3, blk [.ite .raise .skip, .scalar 2, .store 0 (.field 0) 2], .mutator,
    ⟨[0], true, false, .scal⟩⟩]⟩ ⟨"set", 2, 3, blk [.ite .raise .skip, .scalar 2, .store 0 (.field 0) 2], .mutator,
    ⟨[0], true, false, .scal⟩⟩ = false := by decide
example : mayLeaveHalfWritten ⟨2, []⟩ ⟨"set", 2, 3, blk [.scalar 2, .store 0 (.field 0) 2, .ite .raise .skip], .mutator,
    ⟨[0], true, false, .scal⟩⟩ = true := by decide
/-- a write on a branch that returns does not taint the raise of the other branch -/
example : mayLeaveHalfWritten ⟨2, []⟩ ⟨"set", 2, 3, blk [.ite (blk [.scalar 2, .store 0 (.field 0) 2, .ret 2]) .skip,
    .raise], .mutator, ⟨[0], true, false, .scal⟩⟩ = false := by decide
/-- a guard that writes before raising is not a dominating guard -/
example : guardHeadOk ⟨2, []⟩ ⟨"f", 2, 3, blk [.ite (blk [.scalar 2, .store 0 (.field 0) 2, .raise]) .skip, .ret 0],
    .mutator, ⟨[0], true, false, .scal⟩⟩ = false := by decide
example : guardHeadOk ⟨2, []⟩ ⟨"f", 2, 3, blk [.ite .raise .skip, .scalar 2, .store 0 (.field 0) 2], .mutator,
    ⟨[0], true, false, .scal⟩⟩ = true := by decide

/-! ### The shapes of the seeded changes of C20, and of the constructs added to the translator -/

/-- C20-a (`kepler_equation` reduces its Angle argument in place, `mean_anomaly.to_positive()`): a side-effect-free
function that calls a mutator on its parameter -/
example : check ⟨2, [
    ⟨"to_positive", 1, 2, blk [.scalar 1, .store 0 (.field 0) 1, .ret 0], .mutator, ⟨[0], true, false, .param 0⟩⟩,
    ⟨"kepler_equation", 2, 4, blk [.call 2 0 [1], .scalar 3, .ret 3], .pure, ⟨[], true, false, .scal⟩⟩]⟩ = false := by
  decide
/-- … working on a copy (`m = Angle(mean_anomaly); m.to_positive()`) is accepted -/
example : check ⟨2, [
    ⟨"to_positive", 1, 2, blk [.scalar 1, .store 0 (.field 0) 1, .ret 0], .mutator, ⟨[0], true, false, .param 0⟩⟩,
    ⟨"kepler_equation", 2, 5, blk [.new 2, .scalar 3, .store 2 (.field 0) 3, .call 4 0 [2], .ret 3], .pure,
      ⟨[], true, false, .scal⟩⟩]⟩ = true := by decide
/-- C20-d (`Interpolation.set` clears its lists in place, `del self._x[:]`, while the copy constructor shares
them): the in-place clear is a store into an object merely loaded from the receiver -/
example : check ⟨2, [exShare,
    ⟨"set", 2, 4, blk [.load 3 0 (.field 1), .scalar 2, .setitem 3 2], .mutator, ⟨[0], false, true, .scal⟩⟩]⟩ = false := by
  decide
/- (C20-c, the function-attribute cache, is the `nutation_longitude` example above; C20-b, C20-e and C20-f are
   value / totality defects, not effects: they are the business of the dynamic side.) -/

/-- namedtuple / `__slots__` holder: a new object of the function holding loaded values; reading them back and
returning is fine, mutating what a field holds is a write to the caller's object -/
example : check ⟨3, [⟨"f", 2, 6, blk [.new 2, .store 2 (.field 1) 1, .scalar 3, .store 2 (.field 2) 3,
    .load 4 2 (.field 1), .load 5 4 .elem, .ret 5], .pure, ⟨[], true, false, .any⟩⟩]⟩ = true := by decide
example : check ⟨3, [⟨"f", 2, 6, blk [.new 2, .store 2 (.field 1) 1, .load 4 2 (.field 1), .append 4 0], .pure,
    ⟨[], false, false, .any⟩⟩]⟩ = false := by decide
/-- … a holder of new closed values may be mutated through (`box = _Box([1.0, 2.0], 2); box.items.append(3.0)`) -/
example : check ⟨3, [⟨"f", 1, 5, blk [.new 1, .new 2, .store 2 (.field 1) 1, .load 3 2 (.field 1), .scalar 4,
    .append 3 4], .pure, ⟨[], true, false, .scal⟩⟩]⟩ = true := by decide
/-- `rows = zip(NAMES, ROWS)` as a value: a new sequence of new tuples holding elements of module tables; iterating
and reading is fine, `row.append(..)` on an element is a write to the table -/
example : check ⟨2, [⟨"f", 0, 8, blk [.global 0 3, .global 1 4, .new 2, .new 3, .load 4 0 .elem, .append 3 4,
    .load 4 1 .elem, .append 3 4, .append 2 3, .while (blk [.load 5 2 .elem, .load 6 5 .elem]), .scalar 7, .ret 7],
    .pure, ⟨[], true, false, .scal⟩⟩]⟩ = true := by decide
example : check ⟨2, [⟨"f", 0, 8, blk [.global 0 3, .global 1 4, .new 2, .new 3, .load 4 0 .elem, .append 3 4,
    .load 4 1 .elem, .append 3 4, .append 2 3, .while (blk [.load 5 2 .elem, .load 6 5 .elem, .scalar 7, .append 6 7])],
    .pure, ⟨[], false, false, .scal⟩⟩]⟩ = false := by decide
/-- a slice of a module table (`part = ROWS[:1]`): the new list may be appended to, its rows may not -/
example : check ⟨2, [⟨"f", 0, 5, blk [.global 0 3, .new 1, .load 2 0 .elem, .append 1 2, .scalar 3, .append 1 3],
    .pure, ⟨[], false, false, .scal⟩⟩]⟩ = true := by decide
example : check ⟨2, [⟨"f", 0, 5, blk [.global 0 3, .new 1, .load 2 0 .elem, .append 1 2, .load 4 1 .elem, .scalar 3,
    .append 4 3], .pure, ⟨[], false, false, .scal⟩⟩]⟩ = false := by decide

/-- heap with the source object 0 (attribute 1 -> list 1) and its list 1 -/
def exHeap : Heap := ⟨2, fun i k => if i = 0 ∧ k = 1 then .ref 1 else .scalar⟩

/-- The hypotheses of `copy_independent` are satisfiable: `b = Copy(a); b.set(v)` is a history of the
program {sharing constructor, rebinding mutator}. -/
example : ∃ h', Run ⟨2, [exShare, exRebind]⟩ [(0, [.ref 2, .ref 0]), (1, [.ref 2, .scalar])] exHeap.alloc h' := by
  have e1 := Exec.seqN (P := ⟨2, [exShare, exRebind]⟩) (h := exHeap.alloc) (e := entryEnv 2 [.ref 2, .ref 0])
    (Exec.load (x := 2) (y := 1) (s := .field 1) (id := 0) (k := 1) rfl rfl)
    (Exec.store (x := 0) (s := .field 1) (y := 2) (id := 2) (k := 1) rfl rfl)
  have e2 := Exec.seqN (P := ⟨2, [exShare, exRebind]⟩) (h := exHeap.alloc.write 2 1 (.ref 1))
      (e := entryEnv 2 [.ref 2, .scalar]) (Exec.new (x := 2))
    (Exec.seqN (Exec.store (x := 0) (s := .field 1) (y := 2) (id := 2) (k := 1) rfl rfl)
      (Exec.seqN (Exec.load (x := 3) (y := 0) (s := .field 1) (id := 2) (k := 1) rfl rfl)
        (Exec.store (x := 3) (s := .elem) (y := 1) (id := 3) (k := 0) rfl trivial)))
  refine ⟨_, Run.cons (fd := exShare) rfl ?_ e1 (Run.cons (fd := exRebind) rfl ?_ e2 Run.nil)⟩
  · intro i t ht
    match i with
    | 0 => cases ht; decide
    | 1 => cases ht; decide
    | (n+2) => simp at ht
  · intro i t ht
    match i with
    | 0 => cases ht; decide
    | 1 => simp at ht
    | (n+2) => simp at ht

end Pymeeus.C20
