/-
  C20 — Calls are side-effect free (and total on their documented domain).

  The effect clause of the property is decided by a *verified effect analysis*
  (Spec/Effects.lean): `check : Program → Bool`.  The general theorems below are proved once, for
  every program, every heap, every execution (loops and recursion unbounded).  `check_current`
  re-runs the analysis, inside the Lean kernel, on the effect skeleton that tools/py2effects.py
  regenerates from the current pymeeus source on every run (Gen/Effects/Current.lean).

  Outside the model: the values of scalar computations (the model makes them nondeterministic, so
  "returns equal results" is carried here as "the second call reads exactly the same input: same
  reachable objects with the same contents"); that the skeleton abstracts the Python faithfully
  (checked dynamically by harness/c20.py); totality (dynamic only).
-/
import Pymeeus.Lemmas.EffectsTop
import Pymeeus.Gen.Effects.Current

namespace Pymeeus.C20
open Pymeeus.Effects

/-- "No library call changes the Angle, Epoch, list or tuple objects passed to it, nor any
module-level table or constant": if the analysis accepts the program, a call of a public function
documented as side-effect free, started in any well-formed heap with any arguments, by any
execution, leaves every object that existed before the call (arguments, everything reachable
from them, module-level tables, everything else) exactly as it was. -/
theorem sound {P : Program} (hck : check P = true) {g : Nat} {fd : FunDecl} {h h' : Heap}
    {vals : List Val} {o : Outcome} (hg : P.funs[g]? = some fd) (hpure : fd.kind = .pure)
    (hw : WFHeap h) (hv : ∀ i, WFVal h.next (vals.getD i .scalar))
    (hex : Exec P fd.body h (entryEnv fd.nparams vals) h' o) :
    ∀ id, id < h.next → h'.obj id = h.obj id :=
  fun id hid => call_frame hck hg hw hv hex id hid (Or.inl hpure)

/-- "the only in-place mutators Angle.to_positive, Angle.set, …": a documented mutator changes at
most the receiver object itself (parameter 0): not the other arguments, not an object the receiver
merely points to (a list shared with a copy source), no module-level table. -/
theorem sound_mutator {P : Program} (hck : check P = true) {g : Nat} {fd : FunDecl} {h h' : Heap}
    {vals : List Val} {o : Outcome} (hg : P.funs[g]? = some fd) (hmut : fd.kind = .mutator)
    (hw : WFHeap h) (hv : ∀ i, WFVal h.next (vals.getD i .scalar))
    (hex : Exec P fd.body h (entryEnv fd.nparams vals) h' o) :
    ∀ id, id < h.next → vals.getD 0 .scalar ≠ .ref id → h'.obj id = h.obj id :=
  fun id hid hne => call_frame hck hg hw hv hex id hid (Or.inr ⟨hmut, hne⟩)

/-- History clause, heap part: after any sequence of public calls (each started where the previous
one stopped, arguments possibly results of earlier calls), an object that existed at the start and
was not the receiver of a mutator call in the sequence is unchanged. -/
theorem history_frame {P : Program} (hck : check P = true) {calls h h'} (hrun : Run P calls h h')
    (hw : WFHeap h) : ∀ id, id < h.next → Untouched P calls id → h'.obj id = h.obj id :=
  (run_frame hck hrun hw).2

/-- "calling any function twice with equal arguments, in any order relative to other calls, returns
equal results": whatever calls are made in between, the part of the heap a later call with the same
argument `a` can read — the objects reachable from `a` (or from a module table `a`) — is the same
set of objects with the same contents, provided none of them was the receiver of a mutator call.
(Equality of the *numbers* computed from equal inputs is determinism of float arithmetic, which the
model abstracts; it is checked dynamically.) -/
theorem history {P : Program} (hck : check P = true) {calls h h'} (hrun : Run P calls h h')
    (hw : WFHeap h) {a : Nat} (ha : a < h.next)
    (hun : ∀ o, Reach h a o → Untouched P calls o) :
    (∀ o, Reach h' a o ↔ Reach h a o) ∧ ∀ o, Reach h a o → h'.obj o = h.obj o := by
  have hsame : ∀ o, Reach h a o → h'.obj o = h.obj o := fun o ho =>
    history_frame hck hrun hw o (reach_wf hw ha ho) (hun o ho)
  exact ⟨reach_congr hsame, hsame⟩

/-- "copies made by copy-constructors do not share state with their source", in the form that
matters: allocate `b` (`h.alloc`, the new object is `h.next`), run the constructor on it with the
source `a` as argument and then any public calls whatsoever in which `b` is the only object used
as receiver of a mutator: nothing reachable from the source `a` changes — even if the constructor
made `b` point to `a`'s lists, because accepted mutators write the receiver object only. -/
theorem copy_independent {P : Program} (hck : check P = true) {calls h h'} (hw : WFHeap h)
    (hrun : Run P calls h.alloc h') {a : Nat} (ha : a < h.next)
    (hcalls : ∀ c, c ∈ calls → P.kind c.1 = .pure ∨
      (P.kind c.1 = .mutator ∧ c.2.getD 0 .scalar = .ref h.next)) :
    (∀ o, Reach h' a o ↔ Reach h a o) ∧ ∀ o, Reach h a o → h'.obj o = h.obj o := by
  have hwa := wfheap_alloc hw
  have hobj : ∀ id, id < h.next → h.alloc.obj id = h.obj id := by
    intro id hid
    have : id ≠ h.next := by omega
    simp [Heap.alloc, this]
  have hsame : ∀ o, Reach h a o → h'.obj o = h.obj o := by
    intro o ho
    have hlt := reach_wf hw ha ho
    rw [← hobj o hlt]
    refine history_frame hck hrun hwa o (by simp [Heap.alloc]; omega) ?_
    intro c hc
    rcases hcalls c hc with hp | ⟨hm, hr⟩
    · exact Or.inl hp
    · refine Or.inr ⟨hm, ?_⟩
      rw [hr]; intro heq; cases heq; omega
  exact ⟨reach_congr hsame, hsame⟩

end Pymeeus.C20
