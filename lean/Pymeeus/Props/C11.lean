import Pymeeus.Refine.Kepler
import Pymeeus.Refine.TwoBody
/-!
# C11 — Kepler's equation is solved; two-body relations hold

Theorems about the real-number instantiation `Pymeeus.GenR.Kepler` of `templates/Kepler.lean` (the model of
`kepler_equation`, `velocity*`, `length_orbit`, `passage_nodes_*`, `phase_angle`, `illuminated_fraction` of
pymeeus/Coordinates.py).  Angles are degree values, as in the model; `pradians x = x * (π/180)`.
-/
noncomputable section
namespace Pymeeus.C11
open Pymeeus Pymeeus.PR Pymeeus.GenR.Kepler Pymeeus.Refine.Kepler Pymeeus.Refine.TwoBody Real

/-! ## Kepler's equation -/

/-- "bisection terminates after a fixed number of steps": for EVERY eccentricity and reduced anomaly (no
    hypothesis at all) the loop `while abs(e0 - ef) > TOL` evaluates its test exactly 35 times, i.e. makes exactly
    34 passes: fuel 35 yields a result, fuel 34 does not. (`|e0 - ef| = (π/2)/2^k` after `k` passes, and
    `(π/2)/2^33 > 1e-10 ≥ (π/2)/2^34`.) -/
theorem bisection_terminates (ecc m : ℝ) :
    (∃ e0, loopFuel (kepler_step ecc m) 35 (π / 2, π / 4, 0) = some e0) ∧
      loopFuel (kepler_step ecc m) 34 (π / 2, π / 4, 0) = none := by
  obtain ⟨⟨e0, h, _⟩, hn⟩ :=
    run_loop ecc m (fun _ _ => True) (fun _ _ _ _ => trivial) 34 0 (by norm_num) (π / 2, π / 4, 0) inv_init trivial
  exact ⟨⟨e0, h⟩, hn⟩

/-- The fuel the model gives to the loop (100) is never exhausted: `kepler_search` returns a value for every input. -/
theorem search_total (ecc m : ℝ) : ∃ e0, kepler_search ecc m = some e0 := by
  obtain ⟨⟨e0, h⟩, _⟩ := bisection_terminates ecc m
  refine ⟨e0, ?_⟩
  have := loopFuel_mono _ _ _ _ h 65
  have hinit : ((Pymeeus.PR.pi / 2.0, Pymeeus.PR.pi / 4.0, 0.0) : ℝ × ℝ × ℝ) = (π / 2, π / 4, 0) := by
    simp only [Pymeeus.PR.pi]; norm_num
  unfold kepler_search kepler_fuel
  rw [hinit]; exact this

/-- "the root E* of E − e sin E = M exists and is unique (1 − e cos E ≥ 1 − e > 0, strictly monotone)". -/
theorem kepler_root_exists_unique {e : ℝ} (he0 : 0 ≤ e) (he1 : e < 1) {m : ℝ} (h0 : 0 ≤ m) (h1 : m ≤ π) :
    ∃! x : ℝ, x - e * Real.sin x = m := by
  obtain ⟨x, _, _, hx⟩ := kep_root_exists e h0 h1
  refine ⟨x, hx, fun y hy => ?_⟩
  exact (kep_strictMono he0 he1).injective (by show kep e y = kep e x; unfold kep at hx ⊢; rw [hy, hx])

/-- "… and stays within the current bracket, hence |E − E*| ≤ final step": for `0 ≤ e < 1` and a reduced anomaly
    `m = x − e sin x` with `x ∈ [0, π]`, the search returns `e0` with `|e0 − x| ≤ (π/2)/2^34` (≈ 9.1e-11 rad),
    strictly inside `(0, π)`. -/
theorem bisection_invariant {e : ℝ} (he0 : 0 ≤ e) (he1 : e < 1) {x : ℝ} (hx0 : 0 ≤ x) (hx1 : x ≤ π) :
    ∃ e0, kepler_search e (x - e * Real.sin x) = some e0 ∧ |e0 - x| ≤ (π / 2) / 2 ^ 34 ∧ 0 < e0 ∧ e0 < π := by
  obtain ⟨e0, hs, h1, h2, h3⟩ := search_spec he0 he1 hx0 hx1
  have := gap_pos 34
  exact ⟨e0, hs, h1, by linarith, by linarith⟩

/-- Main clause: "for every eccentricity in [0, 1) and every mean anomaly the returned eccentric anomaly E
    satisfies E − e sin E = M modulo 360 degrees to 5e-8 degree".  The bound proved is
    `(1 + e) · 90 / 2^34 ≤ 180/2^34 ≈ 1.05e-8` degree. -/
theorem kepler_residual {e : ℝ} (he0 : 0 ≤ e) (he1 : e < 1) (M : ℝ) :
    ∃ E v, kepler_equation e M = .ok (E, v) ∧
      ∃ k : ℤ, |E - e * pdegrees (Real.sin (pradians E)) - M - 360 * k| ≤ (1 + e) * (90 / 2 ^ 34) := by
  obtain ⟨f, m, e0, xr, hred, hf, hx0, hx1, hxm, hs, h1, h2, h3, heq, hA, hB⟩ := kepler_struct he0 he1 M
  obtain ⟨hr0, hr1, k, hk⟩ := red2pi_spec (M * (π / 180))
  have hpi := Real.pi_pos
  refine ⟨_, _, heq, ?_⟩
  have hE : pradians (e0 * f * (180 / π)) = e0 * f := radians_degrees _
  rw [hE]
  -- the residual in radians
  have hres : |kep e e0 - m| ≤ (1 + e) * gap 34 := by
    rw [← hxm]
    calc |kep e e0 - kep e xr| ≤ (1 + e) * |e0 - xr| := kep_sub_le he0 xr e0
      _ ≤ (1 + e) * gap 34 := by apply mul_le_mul_of_nonneg_left h1; linarith
  have hgap : gap 34 * (180 / π) = 90 / 2 ^ 34 := by unfold gap; field_simp; ring
  generalize hμ : M * (π / 180) = μ at *
  have hM : M = μ * (180 / π) := by rw [← hμ]; field_simp
  by_cases hc : π < red2pi μ
  · obtain ⟨hf1, hm⟩ := hB hc
    refine ⟨-(k + 1), ?_⟩
    have : e0 * f * (180 / π) - e * pdegrees (Real.sin (e0 * f)) - M - 360 * ((-(k + 1) : ℤ) : ℝ)
        = -(kep e e0 - m) * (180 / π) := by
      have hsin : Real.sin (e0 * -1) = -Real.sin e0 := by rw [mul_neg_one, Real.sin_neg]
      rw [hf1, hsin, hM, hm]
      unfold pdegrees kep
      conv_lhs => rw [hk]
      push_cast
      field_simp
      ring
    rw [this, abs_mul, abs_neg, abs_of_pos (by positivity : (0:ℝ) < 180 / π)]
    calc |kep e e0 - m| * (180 / π) ≤ (1 + e) * gap 34 * (180 / π) :=
          mul_le_mul_of_nonneg_right hres (by positivity)
      _ = (1 + e) * (90 / 2 ^ 34) := by rw [mul_assoc, hgap]
  · obtain ⟨hf1, hm⟩ := hA (not_lt.mp hc)
    refine ⟨-k, ?_⟩
    have : e0 * f * (180 / π) - e * pdegrees (Real.sin (e0 * f)) - M - 360 * ((-k : ℤ) : ℝ)
        = (kep e e0 - m) * (180 / π) := by
      rw [hf1, mul_one, hM, hm]
      unfold pdegrees kep
      conv_lhs => rw [hk]
      push_cast
      field_simp
      ring
    rw [this, abs_mul, abs_of_pos (by positivity : (0:ℝ) < 180 / π)]
    calc |kep e e0 - m| * (180 / π) ≤ (1 + e) * gap 34 * (180 / π) :=
          mul_le_mul_of_nonneg_right hres (by positivity)
      _ = (1 + e) * (90 / 2 ^ 34) := by rw [mul_assoc, hgap]

/-- The constant of `kepler_residual` is below the 5e-8 degree of the property statement. -/
theorem residual_bound_lt {e : ℝ} (_he0 : 0 ≤ e) (he1 : e < 1) : (1 + e) * (90 / 2 ^ 34) < (5e-8 : ℝ) := by
  have : (1 + e) * (90 / 2 ^ 34) ≤ 2 * (90 / 2 ^ 34 : ℝ) := by
    apply mul_le_mul_of_nonneg_right (by linarith) (by positivity)
  have h2 : 2 * (90 / 2 ^ 34 : ℝ) < 5e-8 := by norm_num
  linarith


/-- "lies in the same half revolution as M": write `M = r + 360 k` with `0 ≤ r < 360` (this determines `r`);
    if `r ≤ 180` the returned `E` is in `(0°, 180°)`, otherwise in `(-180°, 0°)` — the reflection `f = -1` is applied
    exactly when the reduced anomaly lies in `(π, 2π)`. -/
theorem kepler_half_revolution {e : ℝ} (he0 : 0 ≤ e) (he1 : e < 1) (M : ℝ) :
    ∃ E v, kepler_equation e M = .ok (E, v) ∧
      ∃ (r : ℝ) (k : ℤ), 0 ≤ r ∧ r < 360 ∧ M = r + 360 * k ∧
        (r ≤ 180 → 0 < E ∧ E < 180) ∧ (180 < r → -180 < E ∧ E < 0) := by
  obtain ⟨f, m, e0, xr, hred, hf, hx0, hx1, hxm, hs, h1, h2, h3, heq, hA, hB⟩ := kepler_struct he0 he1 M
  obtain ⟨hr0, hr1, k, hk⟩ := red2pi_spec (M * (π / 180))
  have hpi := Real.pi_pos
  have hg := gap_pos 34
  generalize hμ : M * (π / 180) = μ at *
  have hM : M = μ * (180 / π) := by rw [← hμ]; field_simp
  have hpos : (0 : ℝ) < 180 / π := by positivity
  have hE1 : 0 < e0 * (180 / π) := by apply mul_pos <;> linarith
  have hE2 : e0 * (180 / π) < 180 := by
    calc e0 * (180 / π) < π * (180 / π) := by apply mul_lt_mul_of_pos_right (by linarith) hpos
      _ = 180 := by field_simp
  refine ⟨_, _, heq, red2pi μ * (180 / π), k, by positivity, ?_, ?_, ?_, ?_⟩
  · calc red2pi μ * (180 / π) < 2 * π * (180 / π) := by apply mul_lt_mul_of_pos_right hr1 hpos
      _ = 360 := by field_simp; ring
  · rw [hM]; conv_lhs => rw [hk]
    field_simp; ring
  · intro hr
    have : red2pi μ ≤ π := by
      by_contra hcon
      have : π * (180 / π) < red2pi μ * (180 / π) := mul_lt_mul_of_pos_right (not_le.mp hcon) hpos
      have e180 : π * (180 / π) = 180 := by field_simp
      linarith
    obtain ⟨hf1, _⟩ := hA this
    rw [hf1, mul_one]; exact ⟨hE1, hE2⟩
  · intro hr
    have : π < red2pi μ := by
      by_contra hcon
      have : red2pi μ * (180 / π) ≤ π * (180 / π) := mul_le_mul_of_nonneg_right (not_lt.mp hcon) hpos.le
      have e180 : π * (180 / π) = 180 := by field_simp
      linarith
    obtain ⟨hf1, _⟩ := hB this
    rw [hf1]
    constructor <;> nlinarith

/-- "the true anomaly satisfies tan(v/2) = sqrt((1+e)/(1-e)) tan(E/2)" for the returned pair `(E, v)`; both half
    angles are strictly inside `(-90°, 90°)`, so the tangents are genuine (`cos ≠ 0`), not Mathlib's junk value. -/
theorem true_anomaly_relation {e : ℝ} (he0 : 0 ≤ e) (he1 : e < 1) (M : ℝ) :
    ∃ E v, kepler_equation e M = .ok (E, v) ∧
      Real.tan (pradians v / 2) = Real.sqrt ((1 + e) / (1 - e)) * Real.tan (pradians E / 2) ∧
      Real.cos (pradians E / 2) ≠ 0 ∧ Real.cos (pradians v / 2) ≠ 0 := by
  obtain ⟨f, m, e0, xr, hred, hf, hx0, hx1, hxm, hs, h1, h2, h3, heq, hA, hB⟩ := kepler_struct he0 he1 M
  have hg := gap_pos 34
  have hpi := Real.pi_pos
  refine ⟨_, _, heq, ?_, ?_, ?_⟩
  · rw [radians_degrees, radians_degrees]
    have : 2 * Real.arctan (Real.sqrt ((1 + e) / (1 - e)) * Real.tan (e0 * f / 2)) / 2
        = Real.arctan (Real.sqrt ((1 + e) / (1 - e)) * Real.tan (e0 * f / 2)) := by ring
    rw [this, Real.tan_arctan]
  · rw [radians_degrees]
    apply (Real.cos_pos_of_mem_Ioo ⟨?_, ?_⟩).ne' <;> rcases hf with h | h <;> rw [h] <;> linarith
  · rw [radians_degrees]
    have : 2 * Real.arctan (Real.sqrt ((1 + e) / (1 - e)) * Real.tan (e0 * f / 2)) / 2
        = Real.arctan (Real.sqrt ((1 + e) / (1 - e)) * Real.tan (e0 * f / 2)) := by ring
    rw [this]; exact (Real.cos_arctan_pos _).ne'

/-- The returned `E` is within `(π/2)/2^34` rad of EVERY solution `x ∈ (-π, π]` of Kepler's equation for an
    anomaly congruent to `M` (the bracket invariant carried through reduction and reflection). -/
theorem kepler_near_root {e : ℝ} (he0 : 0 ≤ e) (he1 : e < 1) (M x : ℝ) (k : ℤ) (hx1 : -π < x) (hx2 : x ≤ π)
    (hM : pradians M = x - e * Real.sin x + 2 * π * k) :
    ∃ E v, kepler_equation e M = .ok (E, v) ∧ |pradians E - x| ≤ (π / 2) / 2 ^ 34 := by
  obtain ⟨f, m, e0, xr, hred, hf, hx0, hxpi, hxm, hs, h1, h2, h3, heq, hA, hB⟩ := kepler_struct he0 he1 M
  obtain ⟨hr0, hr1, k', hk'⟩ := red2pi_spec (M * (π / 180))
  have hpi := Real.pi_pos
  have hmono := kep_strictMono he0 he1
  refine ⟨_, _, heq, ?_⟩
  rw [radians_degrees]
  unfold pradians at hM
  generalize hμ : M * (π / 180) = μ at *
  -- kep e x lies in (-π, π]
  have hkx1 : -π < kep e x := by
    have := hmono hx1; rw [kep_neg, kep_pi] at this; exact this
  have hkx2 : kep e x ≤ π := by
    have := hmono.monotone hx2; rw [kep_pi] at this; exact this
  have hkx : kep e x = x - e * Real.sin x := rfl
  by_cases hc : π < red2pi μ
  · obtain ⟨hf1, hm⟩ := hB hc
    -- kep e x + m = 2π (k' - k + 1), and lies in (-π, 2π): so it is 0
    have hsum : kep e x + m = 2 * π * ((k' - k + 1 : ℤ) : ℝ) := by
      push_cast; rw [hm, hkx]; linarith
    have hj : (k' - k + 1 : ℤ) = 0 := by
      have hlo : -π < 2 * π * ((k' - k + 1 : ℤ) : ℝ) := by rw [← hsum]; rw [hm]; linarith
      have hhi : 2 * π * ((k' - k + 1 : ℤ) : ℝ) < 2 * π := by rw [← hsum]; rw [hm]; linarith
      have h1' : (-1 : ℝ) < ((k' - k + 1 : ℤ) : ℝ) := by nlinarith
      have h2' : ((k' - k + 1 : ℤ) : ℝ) < 1 := by nlinarith
      have h1'' : (-1 : ℤ) < k' - k + 1 := by exact_mod_cast h1'
      have h2'' : k' - k + 1 < (1 : ℤ) := by exact_mod_cast h2'
      omega
    rw [hj] at hsum
    have hxr : xr = -x := by
      apply hmono.injective
      rw [hxm, kep_neg]; simp at hsum; linarith
    rw [hxr] at h1
    rw [hf1]
    have : e0 * -1 - x = -(e0 - -x) := by ring
    rw [this, abs_neg]; unfold gap at h1; exact h1
  · obtain ⟨hf1, hm⟩ := hA (not_lt.mp hc)
    have hsum : kep e x - m = 2 * π * ((k' - k : ℤ) : ℝ) := by
      push_cast; rw [hm, hkx]; linarith
    have hj : (k' - k : ℤ) = 0 := by
      have hlo : -(2 * π) < 2 * π * ((k' - k : ℤ) : ℝ) := by rw [← hsum]; rw [hm]; linarith [not_lt.mp hc]
      have hhi : 2 * π * ((k' - k : ℤ) : ℝ) < 2 * π := by rw [← hsum]; rw [hm]; linarith
      have h1' : (-1 : ℝ) < ((k' - k : ℤ) : ℝ) := by nlinarith
      have h2' : ((k' - k : ℤ) : ℝ) < 1 := by nlinarith
      have h1'' : (-1 : ℤ) < k' - k := by exact_mod_cast h1'
      have h2'' : k' - k < (1 : ℤ) := by exact_mod_cast h2'
      omega
    rw [hj] at hsum
    have hxr : xr = x := by
      apply hmono.injective
      rw [hxm]; simp at hsum; linarith
    rw [hxr] at h1
    rw [hf1, mul_one]
    unfold gap at h1; exact h1

/-- "every mean anomaly, of either sign and any number of turns": `Angle(M)` reduces `M` by whole turns only, so
    the residual clause holds for the composition `kepler_equation(e, Angle(M))` with `M` any real number. -/
theorem kepler_any_turns {e : ℝ} (he0 : 0 ≤ e) (he1 : e < 1) (M : ℝ) :
    ∃ E v, kepler_of_float e M = .ok (E, v) ∧
      (∃ k : ℤ, |E - e * pdegrees (Real.sin (pradians E)) - M - 360 * k| ≤ (1 + e) * (90 / 2 ^ 34)) ∧
      Real.tan (pradians v / 2) = Real.sqrt ((1 + e) / (1 - e)) * Real.tan (pradians E / 2) ∧
      -180 < E ∧ E < 180 := by
  obtain ⟨j, hj⟩ := reduce_deg_congr M
  obtain ⟨E, v, h, k, hk⟩ := kepler_residual he0 he1 (reduce_deg M)
  obtain ⟨E', v', h', htan, _, _⟩ := true_anomaly_relation he0 he1 (reduce_deg M)
  obtain ⟨E'', v'', h'', r, k2, _, _, _, hlo, hhi⟩ := kepler_half_revolution he0 he1 (reduce_deg M)
  rw [h] at h' h''
  simp only [Except.ok.injEq, Prod.mk.injEq] at h' h''
  obtain ⟨rfl, rfl⟩ := h'
  obtain ⟨rfl, rfl⟩ := h''
  refine ⟨E, v, h, ⟨k + j, ?_⟩, htan, ?_, ?_⟩
  · rw [hj] at hk
    have : E - e * pdegrees (Real.sin (pradians E)) - M - 360 * ((k + j : ℤ) : ℝ)
        = E - e * pdegrees (Real.sin (pradians E)) - (M + 360 * (j : ℝ)) - 360 * (k : ℝ) := by push_cast; ring
    rw [this]; exact hk
  · rcases le_or_gt r 180 with h | h
    · linarith [(hlo h).1]
    · exact (hhi h).1
  · rcases le_or_gt r 180 with h | h
    · exact (hlo h).2
    · linarith [(hhi h).2]

example : ∃ E v, kepler_equation 0.99 2 = .ok (E, v) ∧
    ∃ k : ℤ, |E - 0.99 * pdegrees (Real.sin (pradians E)) - 2 - 360 * k| ≤ (1 + 0.99) * (90 / 2 ^ 34) :=
  kepler_residual (by norm_num) (by norm_num) 2


/-! ## Vis-viva -/

/-- "speed at r = a(1-e) equals the perihelion speed": the source uses two constants, 42.1218 (= k√2 in km/s) in
    `velocity` and 29.7847 in `velocity_perihelion`; the exact ratio of the two results is `42.1218/(√2·29.7847)`,
    which is within 1e-5 of 1. -/
theorem vis_viva_perihelion {e a : ℝ} (he0 : 0 ≤ e) (he1 : e < 1) (ha : 0 < a) :
    ∃ v1 vp, velocity (a * (1 - e)) a = .ok v1 ∧ velocity_perihelion e a = .ok vp ∧ 0 < vp ∧
      v1 = 42.1218 / (Real.sqrt 2 * 29.7847) * vp ∧ |v1 / vp - 1| < 1e-5 := by
  have hA : 0 < (1 + e) / (1 - e) := by apply div_pos <;> linarith
  have hsA := Real.sqrt_pos.mpr hA
  have hsa := Real.sqrt_pos.mpr ha
  have hs2 : (0 : ℝ) < Real.sqrt 2 := by positivity
  have hvp : 0 < 29.7847 * Real.sqrt ((1 + e) / (1 - e)) / Real.sqrt a := by positivity
  have hrel : 42.1218 * (Real.sqrt ((1 + e) / (1 - e)) / (Real.sqrt 2 * Real.sqrt a))
      = 42.1218 / (Real.sqrt 2 * 29.7847) * (29.7847 * Real.sqrt ((1 + e) / (1 - e)) / Real.sqrt a) := by
    field_simp
  refine ⟨_, _, velocity_peri_eq he0 he1 ha, velocity_perihelion_eq he0 he1 ha, hvp, hrel, ?_⟩
  rw [hrel, mul_div_assoc, div_self hvp.ne', mul_one]
  exact const_ratio_close

/-- "… and a(1+e) equals the aphelion speed" (same exact ratio). -/
theorem vis_viva_aphelion {e a : ℝ} (he0 : 0 ≤ e) (he1 : e < 1) (ha : 0 < a) :
    ∃ v2 va, velocity (a * (1 + e)) a = .ok v2 ∧ velocity_aphelion e a = .ok va ∧
      v2 = 42.1218 / (Real.sqrt 2 * 29.7847) * va ∧ (0 < va → |v2 / va - 1| < 1e-5) ∧ (0 < e → 0 < va) ∧ 0 ≤ va := by
  have hA : 0 < (1 - e) / (1 + e) := by apply div_pos <;> linarith
  have hsA := Real.sqrt_pos.mpr hA
  have hsa := Real.sqrt_pos.mpr ha
  have hs2 : (0 : ℝ) < Real.sqrt 2 := by positivity
  have hva : 0 < 29.7847 * Real.sqrt ((1 - e) / (1 + e)) / Real.sqrt a := by positivity
  have hrel : 42.1218 * (Real.sqrt ((1 - e) / (1 + e)) / (Real.sqrt 2 * Real.sqrt a))
      = 42.1218 / (Real.sqrt 2 * 29.7847) * (29.7847 * Real.sqrt ((1 - e) / (1 + e)) / Real.sqrt a) := by
    field_simp
  refine ⟨_, _, velocity_aph_eq he0 he1 ha, velocity_aphelion_eq he0 he1 ha, hrel, ?_, fun _ => hva, hva.le⟩
  intro _
  rw [hrel, mul_div_assoc, div_self hva.ne', mul_one]
  exact const_ratio_close

/-- "whose product is the squared circular speed": perihelion × aphelion speed = 29.7847²/a exactly; the circular
    speed `velocity(a, a)` squared is 42.1218²/(2a); the two agree to 1e-5 (ratio 2·29.7847²/42.1218²). -/
theorem perihelion_aphelion_product {e a : ℝ} (he0 : 0 ≤ e) (he1 : e < 1) (ha : 0 < a) :
    ∃ vp va vc, velocity_perihelion e a = .ok vp ∧ velocity_aphelion e a = .ok va ∧ velocity a a = .ok vc ∧
      vp * va = 29.7847 ^ 2 / a ∧ vc ^ 2 = 42.1218 ^ 2 / (2 * a) ∧ |vp * va / vc ^ 2 - 1| < 1e-5 := by
  have h1 : 0 < 1 - e := by linarith
  have h2 : 0 < 1 + e := by linarith
  have hsa := Real.sqrt_pos.mpr ha
  have hprod : Real.sqrt ((1 + e) / (1 - e)) * Real.sqrt ((1 - e) / (1 + e)) = 1 := by
    rw [← Real.sqrt_mul (by positivity)]
    have : (1 + e) / (1 - e) * ((1 - e) / (1 + e)) = 1 := by field_simp
    rw [this, Real.sqrt_one]
  have haa : Real.sqrt a * Real.sqrt a = a := Real.mul_self_sqrt ha.le
  have h22 : Real.sqrt 2 * Real.sqrt 2 = 2 := Real.mul_self_sqrt (by norm_num)
  have e1 : 29.7847 * Real.sqrt ((1 + e) / (1 - e)) / Real.sqrt a * (29.7847 * Real.sqrt ((1 - e) / (1 + e)) / Real.sqrt a)
      = 29.7847 ^ 2 / a := by
    have : 29.7847 * Real.sqrt ((1 + e) / (1 - e)) / Real.sqrt a * (29.7847 * Real.sqrt ((1 - e) / (1 + e)) / Real.sqrt a)
        = 29.7847 ^ 2 * (Real.sqrt ((1 + e) / (1 - e)) * Real.sqrt ((1 - e) / (1 + e))) / (Real.sqrt a * Real.sqrt a) := by
      field_simp
    rw [this, hprod, haa, mul_one]
  have e2 : (42.1218 * (1 / (Real.sqrt 2 * Real.sqrt a))) ^ 2 = 42.1218 ^ 2 / (2 * a) := by
    have : (42.1218 * (1 / (Real.sqrt 2 * Real.sqrt a))) ^ 2
        = 42.1218 ^ 2 / ((Real.sqrt 2 * Real.sqrt 2) * (Real.sqrt a * Real.sqrt a)) := by
      field_simp
    rw [this, h22, haa]
  refine ⟨_, _, _, velocity_perihelion_eq he0 he1 ha, velocity_aphelion_eq he0 he1 ha, velocity_circ_eq ha, e1, e2, ?_⟩
  rw [e1, e2]
  have : (29.7847 : ℝ) ^ 2 / a / (42.1218 ^ 2 / (2 * a)) = 2 * 29.7847 ^ 2 / 42.1218 ^ 2 := by
    field_simp
  rw [this]; norm_num [abs_lt]

/-! ## Length of the orbit -/

/-- "orbit length lies between the circumferences of the inscribed and circumscribed circles", for BOTH formulas
    of the source and every `0 < b ≤ a` (so on either side of the switch). -/
theorem length_bounds_both_formulas {a b : ℝ} (hb : 0 < b) (hab : b ≤ a) :
    (∃ L, length_low a b = .ok L ∧ 2 * π * b ≤ L ∧ L ≤ 2 * π * a) ∧
    (∃ L, length_high a b = .ok L ∧ 2 * π * b ≤ L ∧ L ≤ 2 * π * a) := by
  have ha : 0 < a := by linarith
  have hpi := Real.pi_pos
  obtain ⟨l1, l2⟩ := low_bounds hb hab
  obtain ⟨g1, g2⟩ := high_bounds hb hab
  refine ⟨⟨_, length_low_eq ha hb.le, ?_, ?_⟩, ⟨_, length_high_eq ha hb.le, ?_, ?_⟩⟩
  · rw [mul_div_assoc]; nlinarith
  · rw [mul_div_assoc]; nlinarith
  · nlinarith
  · nlinarith

/-- `length_orbit(e, a)` for `0 ≤ e < 1`, `a > 0`: `2πb ≤ L ≤ 2πa` with `b = a√(1−e²)`, whichever formula the
    switch `e < 0.95` selects. -/
theorem length_orbit_bounds {e a : ℝ} (he0 : 0 ≤ e) (he1 : e < 1) (ha : 0 < a) :
    ∃ L, length_orbit e a = .ok L ∧ 2 * π * (a * Real.sqrt (1 - e * e)) ≤ L ∧ L ≤ 2 * π * a := by
  have hee : e * e < 1 := by nlinarith
  have hs : 0 < Real.sqrt (1 - e * e) := Real.sqrt_pos.mpr (by linarith)
  have hs1 : Real.sqrt (1 - e * e) ≤ 1 := by
    rw [Real.sqrt_le_left (by norm_num)]; nlinarith [mul_nonneg he0 he0]
  have hb : 0 < a * Real.sqrt (1 - e * e) := mul_pos ha hs
  have hab : a * Real.sqrt (1 - e * e) ≤ a := by nlinarith
  obtain ⟨⟨L1, h1, h1a, h1b⟩, ⟨L2, h2, h2a, h2b⟩⟩ := length_bounds_both_formulas hb hab
  rw [length_orbit_eq hee.le]
  split
  · exact ⟨L1, h1, h1a, h1b⟩
  · exact ⟨L2, h2, h2a, h2b⟩

/-- "… and is continuous across the formula switch at e = 0.95" — what is true: at `e = 0.95` the formula used below
    the switch (`L₁`, the left limit of `length_orbit`) and the one used from the switch on (`L₂ = length_orbit(0.95, a)`)
    differ by a relative jump between 1.4e-4 and 1.5e-4 (numerically 1.4409e-4), for every `a > 0`.  Both formulas are
    approximations of the perimeter accurate to about 1e-4 there; the harness checks the jump against 2e-4. -/
theorem length_switch_jump {a : ℝ} (ha : 0 < a) :
    ∃ L1 L2, length_low a (a * Real.sqrt (1 - 0.95 * 0.95)) = .ok L1 ∧ length_orbit 0.95 a = .ok L2 ∧
      1.4e-4 * L2 < L1 - L2 ∧ L1 - L2 < 1.5e-4 * L2 := by
  have hpi := Real.pi_pos
  set t := Real.sqrt (1 - 0.95 * 0.95) with htdef
  have ht0 : 0 < t := Real.sqrt_pos.mpr (by norm_num)
  have ht : t ^ 2 = 0.0975 := by rw [htdef, Real.sq_sqrt (by norm_num)]; norm_num
  have hw0 : 0 < Real.sqrt t := Real.sqrt_pos.mpr ht0
  have hw : Real.sqrt t ^ 2 = t := Real.sq_sqrt ht0.le
  have hSarg : 0 < (1 + 3 * t) * (3 + t) := by positivity
  have hS0 : 0 < Real.sqrt ((1 + 3 * t) * (3 + t)) := Real.sqrt_pos.mpr hSarg
  have hS : Real.sqrt ((1 + 3 * t) * (3 + t)) ^ 2 = (1 + 3 * t) * (3 + t) := Real.sq_sqrt hSarg.le
  obtain ⟨hlo, hhi⟩ := switch_scalar ht0 ht hw0 hw hS0 hS
  have hb : 0 ≤ a * t := by positivity
  -- the two results as π a × (scalar expression)
  have hG : Real.sqrt (a * (a * t)) = a * Real.sqrt t := by
    rw [← mul_assoc, Real.sqrt_mul (by positivity), Real.sqrt_mul_self ha.le]
  have hH : 2 * a * (a * t) / (a + a * t) = a * (2 * t / (1 + t)) := by
    have : a ≠ 0 := ha.ne'
    have : 1 + t ≠ 0 := by linarith
    field_simp
  have hS' : Real.sqrt ((a + 3 * (a * t)) * (3 * a + a * t)) = a * Real.sqrt ((1 + 3 * t) * (3 + t)) := by
    have : (a + 3 * (a * t)) * (3 * a + a * t) = a * a * ((1 + 3 * t) * (3 + t)) := by ring
    rw [this, Real.sqrt_mul (by positivity), Real.sqrt_mul_self ha.le]
  have hL1 : π * (21 * ((a + a * t) / 2) - 2 * Real.sqrt (a * (a * t)) - 3 * (2 * a * (a * t) / (a + a * t))) / 8
      = π * a * ((21 * ((1 + t) / 2) - 2 * Real.sqrt t - 3 * (2 * t / (1 + t))) / 8) := by
    rw [hG, hH]; ring
  have hL2 : π * (3 * (a + a * t) - Real.sqrt ((a + 3 * (a * t)) * (3 * a + a * t)))
      = π * a * (3 * (1 + t) - Real.sqrt ((1 + 3 * t) * (3 + t))) := by
    rw [hS']; ring
  have horb : length_orbit 0.95 a = length_high a (a * t) := by
    rw [length_orbit_eq (by norm_num), if_neg (by norm_num)]
  refine ⟨_, _, length_low_eq ha hb, by rw [horb]; exact length_high_eq ha hb, ?_, ?_⟩
  · rw [hL1, hL2]
    have hpa : 0 < π * a := by positivity
    nlinarith
  · rw [hL1, hL2]
    have hpa : 0 < π * a := by positivity
    nlinarith

/-! ## Phase angle and illuminated fraction -/

/-- "phase angle and illuminated fraction satisfy k = (1 + cos i)/2" for triangle-feasible distances
    (`|r − Δ| ≤ R ≤ r + Δ`: the hypothesis under which `acos` is defined). -/
theorem illuminated_fraction_phase {r d R : ℝ} (hr : 0 < r) (hd : 0 < d) (h1 : |r - d| ≤ R) (h2 : R ≤ r + d) :
    ∃ i k, phase_angle r d R = .ok i ∧ illuminated_fraction r d R = .ok k ∧
      k = (1 + Real.cos (pradians i)) / 2 ∧ 0 ≤ i ∧ i ≤ 180 := by
  obtain ⟨hc1, hc2⟩ := phase_cos_bounds hr hd h1 h2
  have hpi := Real.pi_pos
  refine ⟨_, _, phase_angle_eq hr hd h1 h2, illuminated_fraction_eq hr hd, ?_, ?_, ?_⟩
  · rw [radians_degrees, Real.cos_arccos hc1 hc2]
    field_simp; ring
  · have := Real.arccos_nonneg ((r * r + d * d - R * R) / (2 * r * d)); positivity
  · have := Real.arccos_le_pi ((r * r + d * d - R * R) / (2 * r * d))
    calc Real.arccos ((r * r + d * d - R * R) / (2 * r * d)) * (180 / π) ≤ π * (180 / π) :=
          mul_le_mul_of_nonneg_right this (by positivity)
      _ = 180 := by field_simp

/-- The clamp added by a27247f (rounding can push the cosine of a flat triangle an ulp beyond ±1): a cosine that
    overshoots by less than 1e-12 yields exactly 0° (cosine > 1) or 180° (cosine < −1) instead of a `ValueError`;
    in exact arithmetic such triples are infeasible by less than 1e-12, feasible triples never reach the clamp
    (`illuminated_fraction_phase`). -/
theorem phase_angle_clamp {r d R : ℝ} (hden : 2 * r * d ≠ 0)
    (h1 : 1 < |(r * r + d * d - R * R) / (2 * r * d)|) (h2 : |(r * r + d * d - R * R) / (2 * r * d)| < 1 + 1e-12) :
    phase_angle r d R = .ok (if 0 < (r * r + d * d - R * R) / (2 * r * d) then 0 else 180) :=
  phase_angle_clamped hden h1 h2

example : ∃ i k, phase_angle 1 2 2.5 = .ok i ∧ illuminated_fraction 1 2 2.5 = .ok k ∧
    k = (1 + Real.cos (pradians i)) / 2 ∧ 0 ≤ i ∧ i ≤ 180 :=
  illuminated_fraction_phase (by norm_num) (by norm_num) (by norm_num [abs_le]) (by norm_num)


/-! ## Passage through the nodes -/

/-- "A computed node passage puts the body, via Kepler's equation at that time, at true anomaly −ω (ascending) or
    180 − ω (descending)".  For `0 ≤ e < 1`, `a > 0`, any ω, T and a node whose true anomaly `v` is not ±180°
    (`tan(v/2)` finite): `v ≡ −ω` resp. `180 − ω (mod 360)`; the eccentric anomaly `E'` the code uses is the one with
    `tan(v/2) = sqrt((1+e)/(1−e)) tan(E'/2)`; the time satisfies `t − T = M/n` with `M = E' − e sin E'` (degrees) and
    `n = 0.9856076686/a^(3/2)`; the radius vector obeys the orbit equation `r (1 + e cos v) = a (1 − e²)`; and
    `kepler_equation` evaluated at the mean anomaly `n (t − T)` returns `E'` to within `(π/2)/2^34` rad. -/
theorem node_passage_elliptic {e a : ℝ} (he0 : 0 ≤ e) (he1 : e < 1) (ha : 0 < a) (ω T : ℝ) (asc : Bool)
    (hv : Real.cos (pradians (node_anomaly ω asc) / 2) ≠ 0) :
    ∃ (t r E' : ℝ) (j : ℤ), passage_nodes_elliptic ω e a T asc = .ok (t, r) ∧
      node_anomaly ω asc = (if asc then 0 else 180) - ω + 360 * j ∧
      -π < E' ∧ E' < π ∧
      Real.tan (pradians (node_anomaly ω asc) / 2) = Real.sqrt ((1 + e) / (1 - e)) * Real.tan (E' / 2) ∧
      (t - T) * (0.9856076686 / (a * Real.sqrt a)) = pdegrees (E' - e * Real.sin E') ∧
      r = a * (1 - e * Real.cos E') ∧
      r * (1 + e * Real.cos (pradians (node_anomaly ω asc))) = a * (1 - e ^ 2) ∧
      ∃ E v, kepler_equation e ((t - T) * (0.9856076686 / (a * Real.sqrt a))) = .ok (E, v) ∧
        |pradians E - E'| ≤ (π / 2) / 2 ^ 34 := by
  obtain ⟨j, hj⟩ := node_anomaly_congr ω asc
  set v := node_anomaly ω asc with hvdef
  set q := Real.sqrt ((1 - e) / (1 + e)) with hq
  set Tn := Real.tan (pradians v / 2) with hT
  have hpi := Real.pi_pos
  have h1e : 0 < 1 - e := by linarith
  have h1e' : 0 < 1 + e := by linarith
  have hqq : Real.sqrt ((1 + e) / (1 - e)) * q = 1 := by
    rw [hq, ← Real.sqrt_mul (by positivity)]
    have : (1 + e) / (1 - e) * ((1 - e) / (1 + e)) = 1 := by field_simp
    rw [this, Real.sqrt_one]
  have hq2 : q ^ 2 = (1 - e) / (1 + e) := by rw [hq]; exact Real.sq_sqrt (by positivity)
  have hsa := Real.sqrt_pos.mpr ha
  have hn : (0.9856076686 : ℝ) / (a * Real.sqrt a) ≠ 0 := by positivity
  have hE1 := Real.neg_pi_div_two_lt_arctan (q * Tn)
  have hE2 := Real.arctan_lt_pi_div_two (q * Tn)
  have htime : (T + (2 * Real.arctan (q * Tn) - e * Real.sin (2 * Real.arctan (q * Tn))) * (180 / π)
        / (0.9856076686 / (a * Real.sqrt a)) - T) * (0.9856076686 / (a * Real.sqrt a))
      = pdegrees (2 * Real.arctan (q * Tn) - e * Real.sin (2 * Real.arctan (q * Tn))) := by
    unfold pdegrees; field_simp; ring
  refine ⟨_, _, 2 * Real.arctan (q * Tn), j, passage_nodes_elliptic_eq he0 he1 ha ω T asc, hj,
    by linarith, by linarith, ?_, htime, rfl, ?_, ?_⟩
  · have : 2 * Real.arctan (q * Tn) / 2 = Real.arctan (q * Tn) := by ring
    rw [this, Real.tan_arctan, ← mul_assoc, hqq, one_mul]
  · -- orbit equation
    rw [cos_two_arctan, cos_of_tan_half hv, ← hT, mul_pow, hq2]
    have hT2 : 0 ≤ Tn ^ 2 := sq_nonneg _
    have hd1 : 1 + (1 - e) / (1 + e) * Tn ^ 2 ≠ 0 := by
      have : 0 ≤ (1 - e) / (1 + e) * Tn ^ 2 := by positivity
      linarith
    have hd2 : 1 + Tn ^ 2 ≠ 0 := by linarith
    field_simp
    ring
  · rw [htime]
    apply kepler_near_root he0 he1 _ (2 * Real.arctan (q * Tn)) 0 (by linarith) (by linarith)
    unfold pdegrees
    rw [radians_degrees]; simp

/-- Parabolic orbit: the passage time satisfies Barker's equation in the form the code uses,
    `t − T = 27.403895 (s³ + 3s) q^(3/2)` with `s = tan(v/2)`, `v ≡ −ω` resp. `180 − ω (mod 360)`, and the radius
    vector obeys the equation of the parabola `r (1 + cos v) = 2q` (for `v ≠ ±180°`). -/
theorem node_passage_parabolic {q : ℝ} (hq : 0 ≤ q) (ω T : ℝ) (asc : Bool)
    (hv : Real.cos (pradians (node_anomaly ω asc) / 2) ≠ 0) :
    ∃ (t r : ℝ) (j : ℤ), passage_nodes_parabolic ω q T asc = .ok (t, r) ∧
      node_anomaly ω asc = (if asc then 0 else 180) - ω + 360 * j ∧
      t - T = 27.403895 * (Real.tan (pradians (node_anomaly ω asc) / 2) ^ 3
                + 3 * Real.tan (pradians (node_anomaly ω asc) / 2)) * (q * Real.sqrt q) ∧
      r * (1 + Real.cos (pradians (node_anomaly ω asc))) = 2 * q := by
  obtain ⟨j, hj⟩ := node_anomaly_congr ω asc
  refine ⟨_, _, j, passage_nodes_parabolic_eq hq ω T asc, hj, by ring, ?_⟩
  rw [cos_of_tan_half hv]
  have hd2 : 1 + Real.tan (pradians (node_anomaly ω asc) / 2) ^ 2 ≠ 0 := by
    have := sq_nonneg (Real.tan (pradians (node_anomaly ω asc) / 2)); linarith
  field_simp
  ring

/-- The side condition of the node theorems is satisfiable: ω = 30°, ascending node, gives v = 330° − 360° … -/
example : Real.cos (pradians (node_anomaly 30 true) / 2) ≠ 0 := by
  have h1 : reduce_deg ((30 : ℝ) + -360.0) = -330 := by
    rw [reduce_deg_small (by norm_num [abs_lt])]; norm_num
  have h : node_anomaly 30 true = 330 := by
    unfold node_anomaly angle_rsub angle_neg angle_sub angle_add
    simp only [if_true]
    rw [h1, reduce_deg_small (by norm_num [abs_lt])]; norm_num
  rw [h]
  have hc : Real.cos (pradians 330 / 2) = -Real.cos (pradians 330 / 2 - π) := by rw [Real.cos_sub_pi]; ring
  rw [hc, neg_ne_zero]
  apply (Real.cos_pos_of_mem_Ioo ⟨?_, ?_⟩).ne' <;> unfold pradians <;> nlinarith [Real.pi_pos]

/-! ## Domain guards, exact values, constants (growth round) -/

/-- `kepler_equation` is defined exactly on the elliptic range of the property: it raises `ValueError` for EVERY
    eccentricity `e ≥ 1` (the value 1 itself included, whatever the anomaly), and returns a pair for every
    `0 ≤ e < 1` (`kepler_residual`). -/
theorem kepler_rejects_non_elliptic {e : ℝ} (he : 1 ≤ e) (M : ℝ) : kepler_equation e M = .error .valueError := by
  have h : ple (1.0 : ℝ) e = true := by unfold ple; rw [decide_eq_true_iff]; norm_num; exact he
  unfold kepler_equation
  simp only [h, if_true]

/-- `velocity(r, a)` raises `ValueError` whenever `r ≤ 0` or `a ≤ 0` (boundary values included) and returns
    `42.1218 sqrt(1/r − 1/(2a))` for positive arguments inside the orbit (`r ≤ 2a`). -/
theorem velocity_domain (r a : ℝ) :
    (r ≤ 0 ∨ a ≤ 0 → velocity r a = .error .valueError) ∧
    (0 < r → 0 < a → r ≤ 2 * a → velocity r a = .ok (42.1218 * Real.sqrt (1 / r - 1 / (2 * a)))) := by
  constructor
  · intro h
    have hg : (ple r (0.0 : ℝ) || ple a (0.0 : ℝ)) = true := by
      unfold ple; rcases h with h | h
      · rw [Bool.or_eq_true]; left; rw [decide_eq_true_iff]; norm_num; exact h
      · rw [Bool.or_eq_true]; right; rw [decide_eq_true_iff]; norm_num; exact h
    unfold velocity
    simp only [hg, if_true]
  · intro hr ha hra
    apply velocity_eq hr ha
    rw [sub_nonneg, div_le_div_iff₀ (by positivity) hr]; linarith

/-- Exact value of `length_orbit` on the branch below the switch, at `e = 0.6` (`b = 0.8 a`): all three coefficients
    of Meeus' formula `π (21 A − 2 G − 3 H)/8` appear with their means `A = 0.9a`, `G = a sqrt(0.8)`, `H = 1.6a/1.8`
    (a swap of the coefficients of `G` and `H`, which keeps every bound of `length_orbit_bounds`, changes this value). -/
theorem length_orbit_at_0_6 {a : ℝ} (ha : 0 < a) :
    length_orbit 0.6 a = .ok (π * a * (21 * 0.9 - 2 * Real.sqrt 0.8 - 3 * (1.6 / 1.8)) / 8) ∧
    21 * 0.9 - 2 * Real.sqrt 0.8 - 3 * (1.6 / 1.8) ≠ 21 * 0.9 - 3 * Real.sqrt 0.8 - 2 * (1.6 / 1.8) := by
  have hs : Real.sqrt (1 - 0.6 * 0.6) = 0.8 := by
    rw [show (1 - 0.6 * 0.6 : ℝ) = 0.8 ^ 2 by norm_num, Real.sqrt_sq (by norm_num)]
  have hG : Real.sqrt (a * (a * 0.8)) = a * Real.sqrt 0.8 := by
    rw [← mul_assoc, Real.sqrt_mul (by positivity), Real.sqrt_mul_self ha.le]
  constructor
  · rw [length_orbit_eq (by norm_num), if_pos (by norm_num), hs, length_low_eq ha (by positivity), hG]
    congr 1
    have : a ≠ 0 := ha.ne'
    field_simp
    ring
  · -- sqrt 0.8 ≠ 1.6/1.8
    intro h
    have h1 : Real.sqrt 0.8 = 1.6 / 1.8 := by linarith
    have h2 := Real.sq_sqrt (show (0:ℝ) ≤ 0.8 by norm_num)
    rw [h1] at h2
    norm_num at h2

/-- The mean-motion constant of `passage_nodes_elliptic`, 0.9856076686 degrees/day (see `node_passage_elliptic`), is
    the Gaussian gravitational constant `k = 0.01720209895` rad/day expressed in degrees, to 1e-10 (a one-digit slip
    in the 5th decimal would be 1e-5 off). -/
theorem mean_motion_is_gauss_constant : |(0.9856076686 : ℝ) - 0.01720209895 * (180 / π)| < 1e-10 := by
  have h1 := Real.pi_gt_d20
  have h2 := Real.pi_lt_d20
  have hpi := Real.pi_pos
  have e : (0.01720209895 : ℝ) * (180 / π) = 0.01720209895 * 180 / π := by ring
  have hlo : (0.9856076686 - 1e-10 : ℝ) < 0.01720209895 * 180 / π := by
    rw [lt_div_iff₀ hpi]; norm_num at h1 h2 ⊢; nlinarith
  have hhi : (0.01720209895 * 180 / π : ℝ) < 0.9856076686 + 1e-10 := by
    rw [div_lt_iff₀ hpi]; norm_num at h1 h2 ⊢; nlinarith
  rw [abs_lt, e]
  constructor <;> linarith

/-- The true anomaly of the node as the Angle arithmetic `360.0 - omega` / `180.0 - omega` delivers it, for every
    argument of perihelion in `[0°, 360°)`: `360 − ω ∈ (0°, 360°)` at the ascending node (0 for ω = 0), and `180 − ω`
    at the descending node, which is NEGATIVE (down to −180°) for every `ω > 180°`.  Both signs and values above 180°
    occur, and `node_passage_elliptic` holds for all of them (a sign recovered from a test `v > 180` would not). -/
theorem node_anomaly_values {ω : ℝ} (h0 : 0 ≤ ω) (h1 : ω < 360) :
    node_anomaly ω false = 180 - ω ∧ node_anomaly ω true = (if ω = 0 then 0 else 360 - ω) := by
  unfold node_anomaly angle_rsub angle_neg angle_sub angle_add
  constructor
  · simp only [Bool.false_eq_true, if_false]
    have e : ω + -(180.0 : ℝ) = ω - 180 := by norm_num; ring
    have hin : reduce_deg (ω - 180) = ω - 180 := reduce_deg_small (by rw [abs_lt]; constructor <;> linarith)
    rw [e, hin, reduce_deg_small (by rw [abs_lt]; constructor <;> linarith)]
    ring
  · simp only [if_true]
    have e : ω + -(360.0 : ℝ) = ω - 360 := by norm_num; ring
    rw [e]
    by_cases hz : ω = 0
    · rw [if_pos hz, hz, zero_sub]
      -- reduce_deg (-360) = -(0 + 0) = 0
      have hr : reduce_deg (-360 : ℝ) = 0 := by
        obtain ⟨j, hj⟩ := reduce_deg_congr (-360 : ℝ)
        have h360 : ple (360.0 : ℝ) (pabs (-360)) = true := by
          unfold ple pabs; rw [decide_eq_true_iff]; norm_num
        unfold reduce_deg
        simp only [h360, if_true]
        have hneg : ple (0 : ℝ) (-360) = false := by unfold ple; rw [decide_eq_false_iff_not]; norm_num
        simp only [hneg, Bool.false_eq_true, if_false, pabs, pmod, ptrunc, imod, ofInt]
        norm_num
      rw [hr, neg_zero, reduce_deg_small (by norm_num)]
    · rw [if_neg hz]
      have hpos : 0 < ω := lt_of_le_of_ne h0 (Ne.symm hz)
      have hin : reduce_deg (ω - 360) = ω - 360 := reduce_deg_small (by rw [abs_lt]; constructor <;> linarith)
      rw [hin, reduce_deg_small (by rw [abs_lt]; constructor <;> linarith)]
      ring

example : node_anomaly 270 false = -90 := by
  have := (node_anomaly_values (ω := 270) (by norm_num) (by norm_num)).1
  rw [this]; norm_num

end Pymeeus.C11
