import Pymeeus.Gen.R.Kepler
namespace Pymeeus.C11
theorem stub : (1 : Nat) = 1 := rfl
end Pymeeus.C11
