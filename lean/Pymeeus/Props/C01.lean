import Pymeeus.Refine.Calendar
/-
C01 — Calendar date <-> Julian Day is an exact bijection on civil days.

Property theorems only (helper lemmas live in Refine/ and Lemmas/).  They are statements about
`Pymeeus.GenQ`, the exact-arithmetic instantiation of the model in templates/EpochCore.lean,
for EVERY integer year ≥ -4712 (no upper bound; the property asks for ≤ 6000).
`Spec.Valid y m d` is the civil calendar written from its definition (Spec/Civil.lean).
-/
namespace Pymeeus.C01
open Pymeeus Pymeeus.PQ Pymeeus.GenQ Pymeeus.Refine Pymeeus.Spec

/-- "building an Epoch from year, month, day and reading the date back returns exactly that date" -/
theorem roundtrip (y m d : Int) (h : Valid y m d) :
    get_date (compute_jde y m (ofInt d)) = .ok (y, m, (d : ℚ)) := by
  rw [compute_jde_int y m d h, get_date_int, roundtrip_int y m d h]

/-- The code's leap rule is the leap rule of the civil calendar. -/
theorem leap_rule (y : Int) : is_leap y = Spec.leap y := by
  unfold is_leap Spec.leap calendar_isleap imod
  by_cases h : y ≥ 1582
  · have h' : ¬ y < 1582 := by omega
    simp only [h, h', if_true, if_false, Int.fmod_eq_emod_of_nonneg _ (by decide : (0:Int) ≤ 4),
      Int.fmod_eq_emod_of_nonneg _ (by decide : (0:Int) ≤ 100), Int.fmod_eq_emod_of_nonneg _ (by decide : (0:Int) ≤ 400)]
  · have h' : y < 1582 := by omega
    simp only [h, h', if_true, if_false, Int.fmod_eq_emod_of_nonneg _ (by decide : (0:Int) ≤ 4)]
    congr 1
    apply propext
    omega

/-- `limit_day` of the constructor's validation is the civil month length. -/
theorem month_limit_eq (y m : Int) (hm1 : 1 ≤ m) (hm12 : m ≤ 12) : month_limit y m = monthLen y m := by
  unfold month_limit monthLen
  rw [leap_rule]
  interval_cases m <;> simp [maxdays]

/-- A valid civil date is accepted and the constructor stores `compute_jde`. -/
theorem constructor_accepts (y m d : Int) (h : Valid y m d) :
    epoch_ymd y m (ofInt d) = .ok (compute_jde y m (ofInt d)) := by
  obtain ⟨hy, hm1, hm12, hd1, hdl, _⟩ := h
  have hd31 : d ≤ 31 := by unfold monthLen at hdl; split_ifs at hdl <;> omega
  have c1 : ¬ y < -4712 := by omega
  have hq1 : ¬ ((d : ℚ) < 1) := by push_cast [not_lt]; exact_mod_cast hd1
  have hq32 : ¬ ((32 : ℚ) ≤ (d : ℚ)) := by rw [not_le]; exact_mod_cast (by omega : d < 32)
  have hlim : ¬ (((month_limit y m + 1 : Int) : ℚ) ≤ (d : ℚ)) := by
    rw [not_le, month_limit_eq y m hm1 hm12]; exact_mod_cast (by omega : d < monthLen y m + 1)
  push_cast at hlim
  unfold epoch_ymd check_values get_month_int
  norm_num [c1, hm1, hm12, plt, ple, ofInt, hq1, hq32, hlim]

/-- "a day number below 1 ... is refused with ValueError" -/
theorem refuses_day_below_one (y m d : Int) (hd : d < 1) :
    epoch_ymd y m (ofInt d) = .error .valueError := by
  have hq1 : ((d : ℚ) < 1) := by exact_mod_cast hd
  unfold epoch_ymd check_values
  by_cases c1 : y < -4712 <;> simp [c1, plt, ple, ofInt, hq1]

/-- "... or beyond the month's length under the leap rule in force is refused with ValueError" -/
theorem refuses_day_past_month_end (y m d : Int) (hm1 : 1 ≤ m) (hm12 : m ≤ 12) (hd : monthLen y m < d) :
    epoch_ymd y m (ofInt d) = .error .valueError := by
  unfold epoch_ymd check_values get_month_int
  by_cases c1 : y < -4712
  · simp [c1]
  by_cases c2 : (d : ℚ) < 1
  · simp [c1, plt, ple, ofInt, c2]
  by_cases c3 : (32 : ℚ) ≤ (d : ℚ)
  · simp [c1, plt, ple, ofInt, c2, c3]
  have hlim : (((month_limit y m + 1 : Int) : ℚ) ≤ (d : ℚ)) := by
    rw [month_limit_eq y m hm1 hm12]; exact_mod_cast (by omega : monthLen y m + 1 ≤ d)
  push_cast at hlim
  norm_num [c1, hm1, hm12, plt, ple, ofInt, c2, c3, hlim]

/-- "Consecutive civil dates are exactly 1.0 Julian Day apart (4 Oct 1582 is followed by 15 Oct 1582)" -/
theorem consecutive (y m d : Int) (h : Valid y m d) :
    compute_jde (next y m d).1 (next y m d).2.1 (ofInt (next y m d).2.2) = compute_jde y m (ofInt d) + 1 := by
  rw [compute_jde_int _ _ _ (next_valid y m d h), compute_jde_int y m d h, consecutive_int y m d h]
  push_cast; ring

/-- "-4712-01-01 12h is 0.0" -/
theorem anchor_jd0 : compute_jde (-4712) 1 1.5 = 0 := by decide +kernel
/-- "2000-01-01 12h is 2451545.0" -/
theorem anchor_j2000 : compute_jde 2000 1 1.5 = 2451545 := by decide +kernel
/-- "1858-11-17 0h is MJD 0" -/
theorem anchor_mjd0 : mjd (compute_jde 1858 11 17) = 0 := by decide +kernel

/-- Every day number from JD -0.5 on is the day number of a valid civil date: with `roundtrip`
    (injectivity) this makes date <-> Julian Day a bijection between civil dates and the
    integers ≥ 0. -/
theorem surjective (n : Nat) : ∃ y m d, Valid y m d ∧ compute_jde y m (ofInt d) = (n : ℚ) - 1 / 2 := by
  induction n with
  | zero => exact ⟨-4712, 1, 1, by decide, by decide +kernel⟩
  | succ k ih =>
    obtain ⟨y, m, d, hv, hj⟩ := ih
    refine ⟨(next y m d).1, (next y m d).2.1, (next y m d).2.2, next_valid y m d hv, ?_⟩
    rw [consecutive y m d hv, hj]; push_cast; ring

/-- Month given by name: every spelling whose stripped, capitalised form is one of the 12 short or
    12 long names yields that month's number. -/
theorem month_names (s : String) (i : Nat) (hi : i < 12)
    (h : py_strip_capitalize s = months_mmm[i]! ∨ py_strip_capitalize s = months_full[i]!) :
    get_month_str s = .ok ((i : Int) + 1) := by
  unfold get_month_str
  rcases h with h | h <;> rw [h] <;> interval_cases i <;> decide

/-- The calendar switch-over at its boundary values: 4 October 1582 (Julian) is JD 2299159.5, the next day 15 October
    (Gregorian) is JD 2299160.5 exactly, and that very instant reads back as 15 October, the instant before as 4 October. -/
theorem reform_boundary :
    compute_jde 1582 10 4 = 2299159.5 ∧ compute_jde 1582 10 15 = 2299160.5 ∧
    get_date 2299160.5 = .ok (1582, 10, 15) ∧ get_date 2299160.25 = .ok (1582, 10, 4.75) ∧
    compute_jde 1582 10 4.75 = 2299160.25 := by
  decide +kernel

/-- "a year before −4712 is refused with ValueError", whatever month and day -/
theorem refuses_year_below_range (y m : Int) (d : ℚ) (hy : y < -4712) : epoch_ymd y m d = .error .valueError := by
  unfold epoch_ymd check_values
  simp [hy]

/-- a month number outside 1..12 is refused with ValueError, whatever year and day -/
theorem refuses_month_out_of_range (y m : Int) (d : ℚ) (hm : m < 1 ∨ 12 < m) : epoch_ymd y m d = .error .valueError := by
  have hg : get_month_int m = .error .valueError := by
    unfold get_month_int
    have : ¬ (m ≥ 1 ∧ m ≤ 12) := by omega
    simp [this]
  unfold epoch_ymd check_values
  rw [hg]
  split_ifs <;> rfl

/-- validation accepts EXACTLY the triples (year ≥ −4712, month 1..12, 1 ≤ day ≤ length of the month under the leap rule
    in force) — for every integer triple -/
theorem constructor_accepts_iff (y m d : Int) :
    (∃ j, epoch_ymd y m (ofInt d) = .ok j) ↔ (-4712 ≤ y ∧ 1 ≤ m ∧ m ≤ 12 ∧ 1 ≤ d ∧ d ≤ monthLen y m) := by
  constructor
  · rintro ⟨j, hj⟩
    by_contra hn
    have : epoch_ymd y m (ofInt d) = .error .valueError := by
      by_cases hy : y < -4712
      · exact refuses_year_below_range y m _ hy
      by_cases hm : m < 1 ∨ 12 < m
      · exact refuses_month_out_of_range y m _ hm
      by_cases hd : d < 1
      · exact refuses_day_below_one y m d hd
      · exact refuses_day_past_month_end y m d (by omega) (by omega) (by omega)
    rw [this] at hj; cases hj
  · rintro ⟨hy, hm1, hm12, hd1, hd⟩
    have hd31 : d ≤ 31 := by unfold monthLen at hd; split_ifs at hd <;> omega
    have c1 : ¬ y < -4712 := by omega
    have hq1 : ¬ ((d : ℚ) < 1) := by push_cast [not_lt]; exact_mod_cast hd1
    have hq32 : ¬ ((32 : ℚ) ≤ (d : ℚ)) := by rw [not_le]; exact_mod_cast (by omega : d < 32)
    have hlim : ¬ (((month_limit y m + 1 : Int) : ℚ) ≤ (d : ℚ)) := by
      rw [not_le, month_limit_eq y m hm1 hm12]; exact_mod_cast (by omega : d < monthLen y m + 1)
    push_cast at hlim
    have hc : check_values y (get_month_int m) (ofInt d) 0.0 0.0 0.0 = .ok (y, m, ofInt d, 0.0, 0.0, 0.0) := by
      unfold check_values get_month_int
      norm_num [c1, hm1, hm12, plt, ple, ofInt, hq1, hq32, hlim]
    unfold epoch_ymd
    rw [hc]
    exact ⟨_, rfl⟩

/-- the month given by name is validated exactly like the month given by number: the February extension of a leap year
    (and every other length test) is decided on the RESOLVED month -/
theorem month_name_same_as_number (s : String) (i : Nat) (hi : i < 12)
    (h : py_strip_capitalize s = months_mmm[i]! ∨ py_strip_capitalize s = months_full[i]!)
    (y : Int) (d hh mi sec : ℚ) :
    check_values y (get_month_str s) d hh mi sec = check_values y (get_month_int ((i : Int) + 1)) d hh mi sec := by
  rw [month_names s i hi h]
  have : get_month_int ((i : Int) + 1) = .ok ((i : Int) + 1) := by
    unfold get_month_int
    have : ((i : Int) + 1 ≥ 1 ∧ (i : Int) + 1 ≤ 12) := by omega
    simp [this]
  rw [this]

/-- 29 February of a leap year is accepted when the month is written by name, 29 February 1900 is not -/
theorem feb29_by_name :
    (check_values 2000 (get_month_str " feb ") 29 0 0 0).isOk = true ∧
    (check_values 1500 (get_month_str "February") 29 0 0 0).isOk = true ∧
    (check_values 1900 (get_month_str "FEB") 29 0 0 0).isOk = false ∧
    (check_values 2000 (get_month_str "FEB") 30 0 0 0).isOk = false := by
  decide +kernel

/-- validation with a FRACTIONAL day (the time of day folded into the day number): accepted exactly when
    1 ≤ day < month length + 1 — the boundary value `length + 1` itself is refused, `length + 0.999…` is accepted -/
theorem constructor_accepts_rational_day_iff (y m : Int) (d : ℚ) :
    (∃ j, epoch_ymd y m d = .ok j) ↔ (-4712 ≤ y ∧ 1 ≤ m ∧ m ≤ 12 ∧ 1 ≤ d ∧ d < (monthLen y m : ℚ) + 1) := by
  by_cases hy : y < -4712
  · rw [refuses_year_below_range y m d hy]
    constructor
    · rintro ⟨j, hj⟩; cases hj
    · rintro ⟨h, _⟩; omega
  by_cases hm : m < 1 ∨ 12 < m
  · rw [refuses_month_out_of_range y m d hm]
    constructor
    · rintro ⟨j, hj⟩; cases hj
    · rintro ⟨_, h1, h2, _⟩; omega
  have hm1 : 1 ≤ m := by omega
  have hm12 : m ≤ 12 := by omega
  have hml := monthLen_ge y m
  have hmlq : ((monthLen y m : Int) : ℚ) ≤ 31 := by exact_mod_cast hml.2
  have hg : get_month_int m = .ok m := by
    unfold get_month_int
    have : (m ≥ 1 ∧ m ≤ 12) := ⟨hm1, hm12⟩
    simp [this]
  unfold epoch_ymd check_values
  rw [hg]
  have z1 : plt (0.0 : ℚ) 0 = false := by decide +kernel
  have z24 : ple (24 : ℚ) 0.0 = false := by decide +kernel
  have z60 : ple (60 : ℚ) 0.0 = false := by decide +kernel
  simp only [hy, if_false, z1, z24, z60, Bool.or_false, Bool.false_eq_true, month_limit_eq y m hm1 hm12]
  unfold plt ple ofInt
  by_cases c1 : d < 1
  · simp only [c1, decide_true, Bool.true_or, if_true]
    constructor
    · rintro ⟨j, hj⟩; cases hj
    · rintro ⟨_, _, _, h, _⟩; linarith
  by_cases c2 : (32 : ℚ) ≤ d
  · simp only [c1, c2, decide_true, decide_false, Bool.false_or, if_true]
    constructor
    · rintro ⟨j, hj⟩; cases hj
    · rintro ⟨_, _, _, _, h⟩; linarith
  by_cases c3 : (((monthLen y m + 1 : Int)) : ℚ) ≤ d
  · simp only [c1, c2, c3, decide_true, decide_false, Bool.false_or, Bool.false_eq_true, if_false, if_true]
    constructor
    · rintro ⟨j, hj⟩; cases hj
    · rintro ⟨_, _, _, _, h⟩; push_cast at c3; linarith
  · simp only [c1, c2, c3, decide_false, Bool.false_or, Bool.false_eq_true, if_false]
    constructor
    · intro _; push_cast at c3; exact ⟨by omega, hm1, hm12, by linarith, by linarith⟩
    · intro _; exact ⟨_, rfl⟩

example : (∃ j, epoch_ymd 2000 2 29.999 = .ok j) ∧ ¬ (∃ j, epoch_ymd 2000 2 30 = .ok j) := by
  rw [constructor_accepts_rational_day_iff, constructor_accepts_rational_day_iff]
  norm_num [monthLen, Spec.leap]

-- Non-vacuity: the hypotheses are met by concrete, non-trivial inputs.
example : py_strip_capitalize " feb " = months_mmm[1]! := by decide
example : (0 : ℚ) ≤ 3 / 4 ∧ (3 / 4 : ℚ) < 1 ∧ Valid 1582 10 4 := by refine ⟨by norm_num, by norm_num, by decide⟩
example : Valid 1582 10 4 ∧ next 1582 10 4 = (1582, 10, 15) := by decide
example : Valid 2000 2 29 ∧ ¬ Valid 1900 2 29 ∧ Valid 1500 2 29 ∧ Valid (-4712) 2 29 := by decide
example : py_strip_capitalize "  aUGust " = months_full[7]! := by decide
example : monthLen 1900 2 < 29 := by decide

end Pymeeus.C01
