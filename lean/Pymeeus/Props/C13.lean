import Pymeeus.Refine.FindersJde
import Pymeeus.Refine.FinderAngles
import Pymeeus.Refine.FinderNodes
/-
C13 — Planetary event finders return real events, in order, none skipped.

Property theorems only (helpers: Refine/Finders.lean, Lemmas/FinderTypes.lean).  They are
statements about `Pymeeus.GenR`, the real-number instantiation of the generic evaluator
templates/Finders.lean, applied to the data records `Finders.Data.generatedFinders` (28 Meeus
ch. 36 periodic-term finders) and `generatedPA` (7 perihelion_aphelion) that tools/gen_finders.py
regenerates from the current source of pymeeus on every run.  Every theorem is for ALL real query
years `y` (the value of `epoch.year()`), all period counts, all angles.

What is carried here is the SELECTION LOGIC of the statement: "as the query epoch advances the
result never moves backwards, consecutive distinct results are one period apart within that
period's natural variation so that no event is skipped or repeated, the result lies within one
period of the query, ... refuse queries outside -2000..4000 with ValueError".
The first part states them for every real value `y` of `epoch.year()`; the last part ("for every query
JDE") composes them with the exact calendar model: `Epoch.year` (templates/EpochCal.lean, theorems of
Props/C16.lean) computes `y` from the rational `_jde` of the query, and the returned object is
`Epoch(jde0 + corr)` of templates/EpochOps.lean, which stores `jde0 + corr` exactly (Refine/EpochReal.lean).
NOT carried by any theorem (measured by harness/c13.py on the implementation, see MANIFEST):
that the returned instant is an event of the VSOP87 theory (agreement of two independent
series), and everything after the first approximation in perihelion_aphelion / passage_nodes
(VSOP87, Interpolation, two-body motion).
-/
namespace Pymeeus.C13
open Pymeeus Pymeeus.PR Pymeeus.GenR Pymeeus.Finders Pymeeus.Finders.Data Pymeeus.Refine.Finders

/-! ### The generated records satisfy the side conditions (decided by the kernel from the source constants) -/

/-- Per finder, from the constants of the current source: the period `B` is positive and exceeds twice the
    sum `C_f` of the absolute values of the amplitude polynomials on `|t| ≤ 41` (`B − 2C_f > 0`), the range
    check is `y < -2000.0 or y > 4000.0`, the period count uses `365.2425 y + 1721060`, and `|t| ≤ 41` at both
    ends of the domain.  A changed coefficient in the source regenerates the record and this is re-decided. -/
theorem all_finders_ok : ∀ r ∈ generatedFinders, r.ok = true := by decide +kernel

/-- The same for the seven `perihelion_aphelion`: positive rate, half step 1/2, period larger than the
    variation of the first approximation, `|k| + 1 ≤ kMax` on -2000..4000. -/
theorem all_pa_ok : ∀ r ∈ generatedPA, r.ok = true := by decide +kernel

/-! ### Period count `k = round((365.2425 y + 1721060 − A)/B)` -/

/-- "As the query epoch advances the result never moves backwards" — first half: the period count is
    monotone in the query year (Python's half-even `round` is monotone). -/
theorem k_monotone : ∀ r ∈ generatedFinders, ∀ y1 y2 : ℝ, y1 ≤ y2 → finder_k r y1 ≤ finder_k r y2 :=
  fun r hr _ _ hy => finder_k_mono (okR_of_ok (all_finders_ok r hr)) hy

/-- "no event is skipped": between two queries the period count takes every integer between its extremes. -/
theorem k_takes_every_integer : ∀ r ∈ generatedFinders, ∀ y1 y2 : ℝ, y1 ≤ y2 → ∀ n : ℤ,
    finder_k r y1 ≤ n → n ≤ finder_k r y2 → ∃ y, y1 ≤ y ∧ y ≤ y2 ∧ finder_k r y = n :=
  fun r hr _ _ hy n h1 h2 => finder_k_onto (okR_of_ok (all_finders_ok r hr)) hy n h1 h2

/-- "no event is skipped": queries less than one period (`B/365.2425` years) apart have period counts that
    differ by at most 1.  (With `≤` instead of `<` this is false for half-even rounding: 0.5 ↦ 0, 1.5 ↦ 2.) -/
theorem k_step_at_most_one : ∀ r ∈ generatedFinders, ∀ y1 y2 : ℝ, y1 ≤ y2 →
    y2 - y1 < ofDec r.B / 365.2425 → finder_k r y1 ≤ finder_k r y2 ∧ finder_k r y2 ≤ finder_k r y1 + 1 := by
  intro r hr y1 y2 hy hs
  have h := okR_of_ok (all_finders_ok r hr)
  refine ⟨finder_k_mono h hy, finder_k_step h ?_⟩
  rw [h.hycv]; exact hs

/-! ### Periodic terms -/

/-- `|corr − c₀| ≤ C_f` for ALL values of the mean anomaly and of the auxiliary angles and all `|t| ≤ 41`,
    `c₀ = corrMid` the constant term and `C_f = corrRad` the sum of the absolute values of the amplitude
    polynomials on that range, both computed from the expression tree of the source. -/
theorem corr_bound_all_angles : ∀ r ∈ generatedFinders, ∀ (t m : ℝ) (aux : List ℝ), |t| ≤ 41 →
    |evalE t m aux r.corr - ((r.corrMid : ℚ) : ℝ)| ≤ ((r.corrRad : ℚ) : ℝ) := by
  intro r _ t m aux ht
  unfold Finder.corrMid Finder.corrRad
  apply (evalE_encl _ _ _ 0 tMax _ r.corr).1
  rw [tMax_cast]; simpa using ht

/-- On the documented domain `|t| ≤ 41` holds (year −2000 is t = −40, year 4000 is t = +20, half a period
    included), so the bound applies to every accepted query. -/
theorem corr_bound_on_domain : ∀ r ∈ generatedFinders, ∀ y : ℝ, -2000 ≤ y → y ≤ 4000 →
    |finder_corr r (finder_k r y) - ((r.corrMid : ℚ) : ℝ)| ≤ ((r.corrRad : ℚ) : ℝ) :=
  fun r hr _ h1 h2 => corr_bound r _ (t_bound (okR_of_ok (all_finders_ok r hr)) h1 h2)

/-! ### Range check -/

/-- "the conjunction, opposition, elongation and station finders refuse queries outside -2000..4000 with
    ValueError": `ValueError` iff `year() < -2000` or `year() > 4000`, otherwise `jde0 + corr` of the count `k(y)`. -/
theorem range_check : ∀ r ∈ generatedFinders, ∀ y : ℝ,
    (finder_raw r y = .error .valueError ↔ (y < -2000 ∨ 4000 < y)) ∧
    (¬ (y < -2000 ∨ 4000 < y) → finder_raw r y = .ok (finder_result r (finder_k r y))) := by
  intro r hr y
  rw [finder_raw_spec (okR_of_ok (all_finders_ok r hr)) y]
  by_cases c : y < -2000 ∨ 4000 < y <;> simp [c]

/-! ### Order, spacing, distance to the query -/

/-- "As the query epoch advances the result never moves backwards": for accepted queries `y1 ≤ y2` the
    results satisfy `a ≤ b`; they are equal exactly when the period counts are equal, otherwise `a < b`. -/
theorem result_never_moves_backwards : ∀ r ∈ generatedFinders, ∀ y1 y2 a b : ℝ, y1 ≤ y2 →
    finder_raw r y1 = .ok a → finder_raw r y2 = .ok b →
    a ≤ b ∧ (finder_k r y1 = finder_k r y2 → a = b) ∧ (finder_k r y1 < finder_k r y2 → a < b) := by
  intro r hr y1 y2 a b hy ha hb
  have h := okR_of_ok (all_finders_ok r hr)
  obtain ⟨l1, u1, ea⟩ := ok_inv h ha
  obtain ⟨l2, u2, eb⟩ := ok_inv h hb
  have hlt : finder_k r y1 < finder_k r y2 → a < b := by
    intro hk; rw [ea, eb]; exact result_lt h hk (t_bound h l1 u1) (t_bound h l2 u2)
  have heq : finder_k r y1 = finder_k r y2 → a = b := by intro hk; rw [ea, eb, hk]
  refine ⟨?_, heq, hlt⟩
  rcases eq_or_lt_of_le (finder_k_mono h hy) with e | l
  · exact le_of_eq (heq e)
  · exact le_of_lt (hlt l)

/-- "consecutive distinct results are one synodic period apart within that period's natural variation":
    results of consecutive period counts differ by `B` within `2 C_f`, and `B − 2 C_f > 0`. -/
theorem consecutive_results_one_period_apart : ∀ r ∈ generatedFinders, ∀ y1 y2 a b : ℝ,
    finder_raw r y1 = .ok a → finder_raw r y2 = .ok b → finder_k r y2 = finder_k r y1 + 1 →
    ofDec r.B - 2 * ((r.corrRad : ℚ) : ℝ) ≤ b - a ∧ b - a ≤ ofDec r.B + 2 * ((r.corrRad : ℚ) : ℝ) ∧
    0 < ofDec r.B - 2 * ((r.corrRad : ℚ) : ℝ) := by
  intro r hr y1 y2 a b ha hb hk
  have h := okR_of_ok (all_finders_ok r hr)
  obtain ⟨l1, u1, ea⟩ := ok_inv h ha
  obtain ⟨l2, u2, eb⟩ := ok_inv h hb
  have d := abs_le.1 (result_diff r _ _ (t_bound h l1 u1) (t_bound h l2 u2))
  rw [hk] at d eb
  have : ((finder_k r y1 + 1 - finder_k r y1 : ℤ) : ℝ) = 1 := by push_cast; ring
  rw [this] at d
  rw [ea, eb]
  exact ⟨by linarith [d.1], by linarith [d.2], h.hgap⟩

/-- "so that no event is skipped or repeated": two accepted queries less than one period apart return either
    the same instant or instants one period apart within `2 C_f` — never a gap of two periods, never two
    different instants for one event.  (This is the predicate harness/c13.py evaluates on the implementation
    for queries advancing by 1/20 period.) -/
theorem none_skipped_none_repeated : ∀ r ∈ generatedFinders, ∀ y1 y2 a b : ℝ, y1 ≤ y2 →
    y2 - y1 < ofDec r.B / 365.2425 → finder_raw r y1 = .ok a → finder_raw r y2 = .ok b →
    a = b ∨ (ofDec r.B - 2 * ((r.corrRad : ℚ) : ℝ) ≤ b - a ∧ b - a ≤ ofDec r.B + 2 * ((r.corrRad : ℚ) : ℝ)) := by
  intro r hr y1 y2 a b hy hs ha hb
  obtain ⟨h1, h2⟩ := k_step_at_most_one r hr y1 y2 hy hs
  rcases eq_or_lt_of_le h1 with e | l
  · exact Or.inl ((result_never_moves_backwards r hr y1 y2 a b hy ha hb).2.1 e)
  · have hk : finder_k r y2 = finder_k r y1 + 1 := by omega
    have := consecutive_results_one_period_apart r hr y1 y2 a b ha hb hk
    exact Or.inr ⟨this.1, this.2.1⟩

/-- "the result lies within one period of the query": `jde0` of the chosen count is within `B/2` of the
    query instant `365.2425 y + 1721060`, and the result within `B/2 + |c₀| + C_f` of it.  (The distance between
    `365.2425·year() + 1721060` and the JDE of the epoch is a calendar term not modelled here; it is ≤ 17 days
    on -2000..4000 and is included in the measured predicate.) -/
theorem result_near_query : ∀ r ∈ generatedFinders, ∀ y a : ℝ, finder_raw r y = .ok a →
    |finder_jde0 r (finder_k r y) - (365.2425 * y + 1721060)| ≤ ofDec r.B / 2 ∧
    |a - (365.2425 * y + 1721060)| ≤ ofDec r.B / 2 + |((r.corrMid : ℚ) : ℝ)| + ((r.corrRad : ℚ) : ℝ) := by
  intro r hr y a ha
  have h := okR_of_ok (all_finders_ok r hr)
  obtain ⟨l, u, ea⟩ := ok_inv h ha
  have j := jde0_near h y
  rw [h.hycv, h.hy0v] at j
  refine ⟨j, ?_⟩
  have c := corr_bound r _ (t_bound h l u)
  rw [ea]
  unfold finder_result
  have e : finder_jde0 r (finder_k r y) + finder_corr r (finder_k r y) - (365.2425 * y + 1721060)
      = (finder_jde0 r (finder_k r y) - (365.2425 * y + 1721060))
        + ((finder_corr r (finder_k r y) - ((r.corrMid : ℚ) : ℝ)) + ((r.corrMid : ℚ) : ℝ)) := by ring
  rw [e]
  have t1 := abs_add_le (finder_jde0 r (finder_k r y) - (365.2425 * y + 1721060))
    ((finder_corr r (finder_k r y) - ((r.corrMid : ℚ) : ℝ)) + ((r.corrMid : ℚ) : ℝ))
  have t2 := abs_add_le (finder_corr r (finder_k r y) - ((r.corrMid : ℚ) : ℝ)) ((r.corrMid : ℚ) : ℝ)
  linarith

/-- "the result lies within one period of the query", numerically: for every finder
    `B/2 + |c₀| + C_f + 18 < B` (18 days bound the calendar term, `query_calendar_term` below), so the model's
    result is less than one period from the query.  Decided by the kernel from the source constants. -/
theorem within_one_period_margin : ∀ r ∈ generatedFinders,
    r.B.toRat / 2 + qabs r.corrMid + r.corrRad + 18 < r.B.toRat := by decide +kernel

/-! ### perihelion_aphelion: the first approximation `k = round(C (year − Y0))`, `jde = J0 + k (P + k Q)` -/

/-- The count `k` (integer for perihelion, integer − 1/2 for aphelion) is monotone in the query year. -/
theorem pa_k_monotone : ∀ r ∈ generatedPA, ∀ (p : Bool) (y1 y2 : ℝ), y1 ≤ y2 → pa_k r y1 p ≤ pa_k r y2 p :=
  fun r hr p _ _ hy => pa_k_mono (okPA_of_ok (all_pa_ok r hr)) p hy

/-- No orbit is skipped: every admissible count between those of two queries is the count of a query between them. -/
theorem pa_k_takes_every_value : ∀ r ∈ generatedPA, ∀ (p : Bool) (y1 y2 : ℝ), y1 ≤ y2 → ∀ n : ℤ,
    pa_k r y1 p ≤ (n : ℝ) - paOff r p → (n : ℝ) - paOff r p ≤ pa_k r y2 p →
    ∃ y, y1 ≤ y ∧ y ≤ y2 ∧ pa_k r y p = (n : ℝ) - paOff r p :=
  fun r hr p _ _ hy n h1 h2 => pa_k_onto (okPA_of_ok (all_pa_ok r hr)) p hy n h1 h2

/-- Consecutive first approximations are one orbital period `P` apart within `var = |Q|(2 kMax + 1) + 2 C`
    (`C` bounds Earth's periodic terms), and `P − var > 0`: strictly increasing, none repeated. -/
theorem pa_first_approximation_spacing : ∀ r ∈ generatedPA, ∀ (p : Bool) (y : ℝ), -2000 ≤ y → y ≤ 4000 →
    |pa_jde r (pa_k r y p + 1) p - pa_jde r (pa_k r y p) p - ofDec r.P| ≤ ((r.var : ℚ) : ℝ) ∧
    0 < ofDec r.P - ((r.var : ℚ) : ℝ) := by
  intro r hr p y h1 h2
  have h := okPA_of_ok (all_pa_ok r hr)
  have b := pa_k_bound h p h1 h2
  have a1 : |pa_k r y p| ≤ ((r.kMax : ℚ) : ℝ) := by linarith
  have a2 : |pa_k r y p + 1| ≤ ((r.kMax : ℚ) : ℝ) := by
    have := abs_add_le (pa_k r y p) 1
    rw [abs_one] at this; linarith
  exact ⟨pa_jde_diff r _ p a1 a2, h.hgap⟩

/-- "the result lies within one period of the query", first approximation: it is within
    `P/2 + |Q| kMax² + C` of the instant `J0 + C_rate (year − Y0) P` that the linear count assigns to the query.
    (For Mercury `C_rate · P = 365.2482` days per year against the 365.2425 of `Epoch.year`: the linear count
    drifts ~11 days from the calendar by year 4000 and ~23 days by −2000, which is how the node passage of
    known finding C13-mercury-nodes-beyond-one-period ends up more than a period from the query.) -/
theorem pa_first_approximation_near_query : ∀ r ∈ generatedPA, ∀ (p : Bool) (y : ℝ), -2000 ≤ y → y ≤ 4000 →
    |pa_jde r (pa_k r y p) p - (ofDec r.J0 + ofDec r.C * (y - ofDec r.Y0) * ofDec r.P)|
      ≤ ofDec r.P / 2 + |ofDec r.Q| * (((r.kMax : ℚ) : ℝ) * ((r.kMax : ℚ) : ℝ)) + ((r.corrRad : ℚ) : ℝ) :=
  fun r hr p _ h1 h2 => pa_near_query (okPA_of_ok (all_pa_ok r hr)) p h1 h2

/-- As the query advances over -2000..4000 the first approximation never moves backwards. -/
theorem pa_first_approximation_never_backwards : ∀ r ∈ generatedPA, ∀ (p : Bool) (y1 y2 : ℝ),
    -2000 ≤ y1 → y1 ≤ y2 → y2 ≤ 4000 → pa_jde r (pa_k r y1 p) p ≤ pa_jde r (pa_k r y2 p) p := by
  intro r hr p y1 y2 h1 hy h2
  have h := okPA_of_ok (all_pa_ok r hr)
  have b1 := pa_k_bound h p h1 (le_trans hy h2)
  have b2 := pa_k_bound h p (le_trans h1 hy) h2
  have m := pa_k_mono h p hy
  rw [pa_k_eq, pa_k_eq] at m
  have mi : kround (ofDec r.C * (y1 - ofDec r.Y0) + paOff r p) ≤ kround (ofDec r.C * (y2 - ofDec r.Y0) + paOff r p) := by
    have : ((kround (ofDec r.C * (y1 - ofDec r.Y0) + paOff r p) : ℤ) : ℝ)
        ≤ ((kround (ofDec r.C * (y2 - ofDec r.Y0) + paOff r p) : ℤ) : ℝ) := by linarith
    exact_mod_cast this
  rcases eq_or_lt_of_le mi with e | l
  · rw [pa_k_eq, pa_k_eq, e]
  · apply le_of_lt
    apply pa_jde_lt h p (by linarith) (by linarith)
    rw [pa_k_eq, pa_k_eq]
    have : ((kround (ofDec r.C * (y1 - ofDec r.Y0) + paOff r p) : ℤ) : ℝ) + 1
        ≤ ((kround (ofDec r.C * (y2 - ofDec r.Y0) + paOff r p) : ℤ) : ℝ) := by exact_mod_cast l
    linarith

/-! ### For every query JDE: `Epoch.year()` of the query, the finder, the returned `Epoch`

`finder_from_jde r j` is the whole finder as a function of the `_jde` of the query epoch, a rational `j`
(every binary64 is one): `GenQ.year j` (exact model of `Epoch.year`), the finder over ℝ, `Epoch(jde0 + corr)`.
`jLo = 990557.5` is -2000 January 1.0, `jHi = 3182029.5` is 4000 January 1.0, `jMax = 5373484.5` is
10000 January 1.0, where `Epoch.year` itself stops answering (`datetime.date`). -/

/-- `Epoch.year()` answers at every instant `0 ≤ j < jMax` and is strictly increasing in the JDE
    (composition with C16.year_strictly_increasing), hence so is the period count's argument. -/
theorem query_year_strictly_increasing : ∀ j1 j2 : ℚ, 0 ≤ j1 → j1 < j2 → j2 < jMax →
    ∃ v1 v2, GenQ.year j1 = .ok v1 ∧ GenQ.year j2 = .ok v2 ∧ v1 < v2 := by
  intro j1 j2 h0 hlt hmax
  obtain ⟨v1, e1⟩ := year_total j1 h0 (by linarith)
  obtain ⟨v2, e2⟩ := year_total j2 (by linarith) hmax
  exact ⟨v1, v2, e1, e2, year_lt h0 hlt hmax e1 e2⟩

/-- "refuse queries outside -2000..4000 with ValueError", on the query itself: `ValueError` iff the query's
    `year()` is outside [-2000, 4000], i.e. iff the query instant is before -2000 January 1.0 or after
    4000 January 1.0 (the predicate `range_refusal` of harness/c13.py). -/
theorem range_check_jde : ∀ r ∈ generatedFinders, ∀ j : ℚ, 0 ≤ j → j < jMax →
    (∃ v, GenQ.year j = .ok v ∧ (finder_from_jde r j = .error .valueError ↔ (v < -2000 ∨ 4000 < v))) ∧
    (finder_from_jde r j = .error .valueError ↔ (j < jLo ∨ jHi < j)) := by
  intro r hr j h0 hmax
  have h := okR_of_ok (all_finders_ok r hr)
  obtain ⟨v, ev⟩ := year_total j h0 hmax
  obtain ⟨r1, r2⟩ := year_range h0 hmax ev
  have key : finder_from_jde r j = .error .valueError ↔ (v < -2000 ∨ 4000 < v) := by
    rw [finder_from_jde_spec h ev]
    by_cases c : v < -2000 ∨ 4000 < v <;> simp [c]
  exact ⟨⟨v, ev, key⟩, by rw [key, r1, r2]⟩

/-- The returned object: for a query in the accepted range the finder returns an `Epoch` whose stored JDE is
    exactly `jde0 + corr` of the period count chosen for the query's `year()` — the detour of the constructor
    through `get_full_date` and `_compute_jde` is the identity in exact arithmetic (Refine/EpochReal.lean;
    C02.set_jde_exact for rationals). -/
theorem returned_epoch_exact : ∀ r ∈ generatedFinders, ∀ j : ℚ, jLo ≤ j → j ≤ jHi →
    ∃ v, GenQ.year j = .ok v ∧ -2000 ≤ v ∧ v ≤ 4000 ∧
      finder_from_jde r j = .ok ({ jde := finder_result r (finder_k r ((v : ℚ) : ℝ)) }, finder_elon r (finder_k r ((v : ℚ) : ℝ))) := by
  intro r hr j h1 h2
  have h := okR_of_ok (all_finders_ok r hr)
  have h0 : 0 ≤ j := le_trans jLo_nonneg h1
  have hmax : j < jMax := lt_of_le_of_lt h2 jHi_lt_jMax
  obtain ⟨v, ev⟩ := year_total j h0 hmax
  obtain ⟨r1, r2⟩ := year_range h0 hmax ev
  have c1 : ¬ v < -2000 := fun hh => absurd (r1.1 hh) (not_lt.2 h1)
  have c2 : ¬ 4000 < v := fun hh => absurd (r2.1 hh) (not_lt.2 h2)
  refine ⟨v, ev, not_lt.1 c1, not_lt.1 c2, ?_⟩
  rw [finder_from_jde_spec h ev]
  simp [c1, c2]

/-- "As the query epoch advances the result never moves backwards", on the returned Epochs: for query instants
    `j1 ≤ j2` that are answered, the JDE of the first returned Epoch is ≤ that of the second. -/
theorem returned_epoch_never_moves_backwards : ∀ r ∈ generatedFinders, ∀ (j1 j2 : ℚ) (e1 e2 : Epoch) (a1 a2 : Option ℝ),
    0 ≤ j1 → j1 ≤ j2 → j2 < jMax → finder_from_jde r j1 = .ok (e1, a1) → finder_from_jde r j2 = .ok (e2, a2) →
    e1.jde ≤ e2.jde := by
  intro r hr j1 j2 e1 e2 a1 a2 h0 hle hmax f1 f2
  have h := okR_of_ok (all_finders_ok r hr)
  obtain ⟨v1, y1, _, _, _, q1⟩ := from_jde_ok_inv h h0 (lt_of_le_of_lt hle hmax) f1
  obtain ⟨v2, y2, _, _, _, q2⟩ := from_jde_ok_inv h (le_trans h0 hle) hmax f2
  have hv : ((v1 : ℚ) : ℝ) ≤ ((v2 : ℚ) : ℝ) := Rat.cast_le.2 (year_le h0 hle hmax y1 y2)
  exact (result_never_moves_backwards r hr _ _ _ _ hv q1 q2).1

/-- "consecutive distinct results are one synodic period apart within that period's natural variation", on the
    returned Epochs: if the second query falls in the next period count, the stored JDEs differ by `B` within `2 C_f`. -/
theorem returned_epochs_one_period_apart : ∀ r ∈ generatedFinders, ∀ (j1 j2 v1 v2 : ℚ) (e1 e2 : Epoch) (a1 a2 : Option ℝ),
    0 ≤ j1 → j1 < jMax → 0 ≤ j2 → j2 < jMax → GenQ.year j1 = .ok v1 → GenQ.year j2 = .ok v2 →
    finder_k r ((v2 : ℚ) : ℝ) = finder_k r ((v1 : ℚ) : ℝ) + 1 →
    finder_from_jde r j1 = .ok (e1, a1) → finder_from_jde r j2 = .ok (e2, a2) →
    ofDec r.B - 2 * ((r.corrRad : ℚ) : ℝ) ≤ e2.jde - e1.jde ∧ e2.jde - e1.jde ≤ ofDec r.B + 2 * ((r.corrRad : ℚ) : ℝ) := by
  intro r hr j1 j2 v1 v2 e1 e2 a1 a2 h01 hm1 h02 hm2 y1 y2 hk f1 f2
  have h := okR_of_ok (all_finders_ok r hr)
  obtain ⟨w1, z1, _, _, _, q1⟩ := from_jde_ok_inv h h01 hm1 f1
  obtain ⟨w2, z2, _, _, _, q2⟩ := from_jde_ok_inv h h02 hm2 f2
  rw [y1] at z1; cases z1
  rw [y2] at z2; cases z2
  have := consecutive_results_one_period_apart r hr _ _ _ _ q1 q2 hk
  exact ⟨this.1, this.2.1⟩

/-- The calendar term, proved: on the accepted range the query instant is within 18 days of
    `365.2425·year() + 1721060` (17.5 days on -2000 January 1: the Julian calendar drifts 0.0075 day per year
    against the Gregorian mean year used by the finders' period count). -/
theorem query_calendar_term : ∀ j : ℚ, jLo ≤ j → j ≤ jHi →
    ∃ v, GenQ.year j = .ok v ∧ |365.2425 * v + 1721060 - j| ≤ 18 := by
  intro j h1 h2
  have h0 : 0 ≤ j := le_trans jLo_nonneg h1
  have hmax : j < jMax := lt_of_le_of_lt h2 jHi_lt_jMax
  obtain ⟨v, ev⟩ := year_total j h0 hmax
  obtain ⟨r1, r2⟩ := year_range h0 hmax ev
  have c1 : ¬ v < -2000 := fun hh => absurd (r1.1 hh) (not_lt.2 h1)
  have c2 : ¬ 4000 < v := fun hh => absurd (r2.1 hh) (not_lt.2 h2)
  exact ⟨v, ev, calendar_term h0 hmax ev (not_lt.1 c1) (not_lt.1 c2)⟩

/-- "the result lies within one period of the query", on the query instant and the returned Epoch, calendar
    term included: `|returned JDE − query JDE| ≤ B/2 + |c₀| + C_f + 18 < B`. -/
theorem returned_epoch_within_one_period_of_query : ∀ r ∈ generatedFinders, ∀ (j : ℚ) (e : Epoch) (a : Option ℝ),
    0 ≤ j → j < jMax → finder_from_jde r j = .ok (e, a) →
    |e.jde - ((j : ℚ) : ℝ)| ≤ ofDec r.B / 2 + |((r.corrMid : ℚ) : ℝ)| + ((r.corrRad : ℚ) : ℝ) + 18 ∧
    ofDec r.B / 2 + |((r.corrMid : ℚ) : ℝ)| + ((r.corrRad : ℚ) : ℝ) + 18 < ofDec r.B := by
  intro r hr j e a h0 hmax f
  have h := okR_of_ok (all_finders_ok r hr)
  obtain ⟨v, ev, hv1, hv2, _, q⟩ := from_jde_ok_inv h h0 hmax f
  have n := (result_near_query r hr _ _ q).2
  have c := calendar_term h0 hmax ev hv1 hv2
  have cR : |(365.2425 : ℝ) * ((v : ℚ) : ℝ) + 1721060 - ((j : ℚ) : ℝ)| ≤ 18 := by
    have : ((|365.2425 * v + 1721060 - j| : ℚ) : ℝ) ≤ ((18 : ℚ) : ℝ) := Rat.cast_le.2 c
    rw [Rat.cast_abs] at this
    have e2 : (((365.2425 * v + 1721060 - j : ℚ)) : ℝ) = (365.2425 : ℝ) * ((v : ℚ) : ℝ) + 1721060 - ((j : ℚ) : ℝ) := by
      push_cast; norm_num
    rw [e2] at this
    norm_num at this ⊢
    exact this
  constructor
  · have t := abs_add_le (e.jde - (365.2425 * ((v : ℚ) : ℝ) + 1721060)) ((365.2425 : ℝ) * ((v : ℚ) : ℝ) + 1721060 - ((j : ℚ) : ℝ))
    have e3 : e.jde - (365.2425 * ((v : ℚ) : ℝ) + 1721060) + ((365.2425 : ℝ) * ((v : ℚ) : ℝ) + 1721060 - ((j : ℚ) : ℝ))
        = e.jde - ((j : ℚ) : ℝ) := by ring
    rw [e3] at t
    linarith
  · have m := within_one_period_margin r hr
    have mR : (((r.B.toRat / 2 + qabs r.corrMid + r.corrRad + 18 : ℚ)) : ℝ) < ((r.B.toRat : ℚ) : ℝ) := Rat.cast_lt.2 m
    push_cast at mR
    rw [cast_qabs] at mR
    exact mR

/-- perihelion_aphelion, first approximation, on the query JDE: as the query instant advances over
    -2000..4000 the first approximation `jde` (computed from the query's `year()`) never moves backwards. -/
theorem pa_first_approximation_never_backwards_jde : ∀ r ∈ generatedPA, ∀ (p : Bool) (j1 j2 : ℚ),
    jLo ≤ j1 → j1 ≤ j2 → j2 ≤ jHi →
    ∃ x1 x2, pa_from_jde r j1 p = .ok x1 ∧ pa_from_jde r j2 p = .ok x2 ∧ x1 ≤ x2 := by
  intro r hr p j1 j2 h1 hle h2
  have h01 : 0 ≤ j1 := le_trans jLo_nonneg h1
  have hm2 : j2 < jMax := lt_of_le_of_lt h2 jHi_lt_jMax
  obtain ⟨v1, e1⟩ := year_total j1 h01 (lt_of_le_of_lt hle hm2)
  obtain ⟨v2, e2⟩ := year_total j2 (le_trans h01 hle) hm2
  obtain ⟨a1, _⟩ := year_range h01 (lt_of_le_of_lt hle hm2) e1
  obtain ⟨_, b2⟩ := year_range (le_trans h01 hle) hm2 e2
  have c1 : (-2000 : ℝ) ≤ ((v1 : ℚ) : ℝ) := by
    have : -2000 ≤ v1 := not_lt.1 (fun hh => absurd (a1.1 hh) (not_lt.2 h1))
    have := (Rat.cast_le (K := ℝ)).2 this
    push_cast at this; exact this
  have c2 : ((v2 : ℚ) : ℝ) ≤ 4000 := by
    have : v2 ≤ 4000 := not_lt.1 (fun hh => absurd (b2.1 hh) (not_lt.2 h2))
    have := (Rat.cast_le (K := ℝ)).2 this
    push_cast at this; exact this
  have hv : ((v1 : ℚ) : ℝ) ≤ ((v2 : ℚ) : ℝ) := Rat.cast_le.2 (year_le h01 hle hm2 e1 e2)
  refine ⟨_, _, by unfold pa_from_jde; rw [e1], by unfold pa_from_jde; rw [e2], ?_⟩
  exact pa_first_approximation_never_backwards r hr p _ _ c1 hv c2

/-! ### Growth round: facts about the series tables, the reported angle, the brackets, the boundaries -/

/-- The periodic-term series of every finder, read as a polynomial in `t` (sin/cos counted as 1): degree at most 2,
    the linear coefficients sum to at most 0.14 day per century and the quadratic ones to at most 0.002 day per
    century² - so over the whole domain (|t| ≤ 41) the amplitudes of Meeus' tables drift by days, not weeks.
    Decided by the kernel on the regenerated records (a t² coefficient that loses a zero, e.g. 0.00029 -> 0.0029
    in Jupiter.conjunction, makes the quadratic sum 0.0032 and this false). -/
theorem series_coefficients_bounded : ∀ r ∈ generatedFinders,
    r.corr.coefs.length ≤ 3 ∧ r.corr.coefs.getD 1 0 ≤ 14 / 100 ∧ r.corr.coefs.getD 2 0 ≤ 2 / 1000 := by decide +kernel

/-- Exactly the four greatest-elongation finders report an angle, and their series keeps the angle between
    14° and 48.1°: `elonMid ± elonRad` ⊂ [14, 48.1] (Mercury 14.1..30.8, Venus 44.6..48.1). -/
theorem elongation_table : ∀ r ∈ generatedFinders,
    (r.elon.isSome = (r.name.endsWith "_elongation")) ∧
    (r.elon.isSome → 14 ≤ r.elonMid - r.elonRad ∧ r.elonMid + r.elonRad ≤ 481 / 10) := by decide +kernel

/-- "elongation maximal and equal to the reported angle" - the structural half: for every accepted query the
    reported angle is a number in [14°, 48.1°], within `elonRad` of `elonMid`; in particular
    `Angle(elon).to_positive()` never reduces or reflects it (it is already in [0, 360)).
    That it EQUALS the maximal elongation of the VSOP87 positions is measured, not proved. -/
theorem elongation_reported_in_range : ∀ r ∈ generatedFinders, ∀ e, r.elon = some e → ∀ y : ℝ, -2000 ≤ y → y ≤ 4000 →
    ∃ a, finder_elon r (finder_k r y) = some a ∧ |a - ((r.elonMid : ℚ) : ℝ)| ≤ ((r.elonRad : ℚ) : ℝ) ∧
      14 ≤ a ∧ a ≤ 48.1 := by
  intro r hr e he y h1 h2
  have h := okR_of_ok (all_finders_ok r hr)
  have tb := (elongation_table r hr).2 (by rw [he]; rfl)
  have lo : ((14 : ℚ) : ℝ) ≤ ((r.elonMid - r.elonRad : ℚ) : ℝ) := Rat.cast_le.2 tb.1
  have hi : ((r.elonMid + r.elonRad : ℚ) : ℝ) ≤ ((481 / 10 : ℚ) : ℝ) := Rat.cast_le.2 tb.2
  push_cast at lo hi
  obtain ⟨a, ha, hb, _, _⟩ := elon_bound r e he (finder_k r y) (t_bound h h1 h2) (by linarith) (by linarith)
  have b := abs_le.1 hb
  exact ⟨a, ha, hb, by linarith [b.1], by norm_num; linarith [b.2]⟩

/-- The range guard at its boundary values: the queries `year() = -2000.0` and `year() = 4000.0` themselves are
    accepted (`<` and `>`, not `<=` / `>=`), anything beyond is refused. -/
theorem range_boundaries_accepted : ∀ r ∈ generatedFinders,
    (∃ a, finder_raw r (-2000) = .ok a) ∧ (∃ a, finder_raw r 4000 = .ok a) ∧
    (∀ ε : ℝ, 0 < ε → finder_raw r (-2000 - ε) = .error .valueError ∧ finder_raw r (4000 + ε) = .error .valueError) := by
  intro r hr
  refine ⟨⟨_, (range_check r hr (-2000)).2 (by norm_num)⟩, ⟨_, (range_check r hr 4000).2 (by norm_num)⟩, ?_⟩
  intro ε hε
  exact ⟨(range_check r hr _).1.2 (Or.inl (by linarith)), (range_check r hr _).1.2 (Or.inr (by linarith))⟩

/-- perihelion_aphelion: the count chosen for a query is the admissible count NEAREST to `C (year − Y0)`: it differs
    from it by at most 1/2, for both variants and on both sides of the reference epoch (a count obtained by
    truncation, `int(k) + 0.5`, is up to 1.5 away for negative k). -/
theorem pa_count_is_nearest : ∀ r ∈ generatedPA, ∀ (p : Bool) (y : ℝ),
    |pa_k r y p - ofDec r.C * (y - ofDec r.Y0)| ≤ 1 / 2 := by
  intro r _ p y
  rw [pa_k_eq]
  have := kround_sub_le (ofDec r.C * (y - ofDec r.Y0) + paOff r p)
  rw [abs_sub_comm] at this
  have e : (kround (ofDec r.C * (y - ofDec r.Y0) + paOff r p) : ℝ) - paOff r p - ofDec r.C * (y - ofDec r.Y0)
      = (kround (ofDec r.C * (y - ofDec r.Y0) + paOff r p) : ℝ) - (ofDec r.C * (y - ofDec r.Y0) + paOff r p) := by ring
  rw [e]; exact this

/-- The three interpolation abscissae `jde - δ, jde, jde + δ`: the bracket is at least half a day each way (the
    mean-period first approximation is not better than that), brackets of consecutive orbits cannot overlap
    (`2δ < P − var`), and half a period exceeds the variation.  Decided on the regenerated records. -/
theorem pa_bracket_table : ∀ r ∈ generatedPA,
    1 / 2 ≤ r.delta.toRat ∧ 2 * r.delta.toRat < r.P.toRat - r.var ∧ 0 < r.P.toRat / 2 - r.var := by decide +kernel

/-- perihelion_aphelion beyond the first approximation, PARTIAL: IF the value returned for a count lies in that
    count's bracket `[jde − δ, jde + δ]` (which is what `Interpolation.minmax` promises when it returns, C12; that
    it does return, and that the point is the extremum of the VSOP87 radius vector, is not proved here - see the
    known finding for Jupiter and Saturn), THEN results of different orbits are strictly ordered and at least
    `P − var − 2δ > 0` apart.  Full statement wanted: the same without the bracket hypothesis. -/
theorem pa_results_ordered_partial : ∀ r ∈ generatedPA, ∀ (p : Bool) (k k' x x' : ℝ),
    |k| ≤ ((r.kMax : ℚ) : ℝ) → |k'| ≤ ((r.kMax : ℚ) : ℝ) → k + 1 ≤ k' →
    |x - pa_jde r k p| ≤ ofDec r.delta → |x' - pa_jde r k' p| ≤ ofDec r.delta →
    x < x' ∧ ofDec r.P - ((r.var : ℚ) : ℝ) - 2 * ofDec r.delta ≤ x' - x := by
  intro r hr p k k' x x' hk hk' h1 hx hx'
  have h := okPA_of_ok (all_pa_ok r hr)
  have g := pa_jde_gap h p hk hk' h1
  have t := (pa_bracket_table r hr).2.1
  have tR : ((2 * r.delta.toRat : ℚ) : ℝ) < ((r.P.toRat - r.var : ℚ) : ℝ) := Rat.cast_lt.2 t
  push_cast at tR
  have d1 : ofDec r.delta = ((r.delta.toRat : ℚ) : ℝ) := rfl
  have d2 : ofDec r.P = ((r.P.toRat : ℚ) : ℝ) := rfl
  rw [← d1, ← d2] at tR
  have a := abs_le.1 hx
  have b := abs_le.1 hx'
  constructor <;> linarith [a.1, a.2, b.1, b.2]

/-- Perihelia and aphelia alternate: the first approximation of the aphelion with count `n + 1/2` lies strictly
    between those of the perihelia `n` and `n + 1` (Earth's periodic terms, which differ between the two
    variants, included). -/
theorem perihelia_and_aphelia_alternate : ∀ r ∈ generatedPA, ∀ n : ℤ, |(n : ℝ)| + 1 ≤ ((r.kMax : ℚ) : ℝ) →
    pa_jde r n true < pa_jde r ((n : ℝ) + 1 / 2) false ∧ pa_jde r ((n : ℝ) + 1 / 2) false < pa_jde r ((n : ℝ) + 1) true := by
  intro r hr n hn
  have t := (pa_bracket_table r hr).2.2
  have tR : ((0 : ℚ) : ℝ) < ((r.P.toRat / 2 - r.var : ℚ) : ℝ) := Rat.cast_lt.2 t
  push_cast at tR
  have d2 : ofDec r.P = ((r.P.toRat : ℚ) : ℝ) := rfl
  rw [← d2] at tR
  have a0 : |(n : ℝ)| ≤ ((r.kMax : ℚ) : ℝ) := by linarith
  have a1 : |(n : ℝ) + 1 / 2| ≤ ((r.kMax : ℚ) : ℝ) := by
    have := abs_add_le (n : ℝ) (1 / 2); rw [abs_of_pos (by norm_num : (0 : ℝ) < 1 / 2)] at this; linarith
  have a2 : |(n : ℝ) + 1| ≤ ((r.kMax : ℚ) : ℝ) := by
    have := abs_add_le (n : ℝ) 1; rw [abs_one] at this; linarith
  exact ⟨pa_jde_lt_half tR true false a0 a1 (le_refl _), pa_jde_lt_half tR false true a1 a2 (by linarith)⟩

/-- Every multiplier `j` in `sin(j*m)` / `cos(j*m)` of every series (time and elongation) is a whole number. -/
theorem series_multipliers_integral : ∀ r ∈ generatedFinders,
    r.corr.integral = true ∧ (∀ e, r.elon = some e → e.integral = true) := by decide +kernel

/-- The `Angle(...)` normalisations are invisible: `m = Angle(m0 + k*m1).to_positive().rad()` and
    `aa = Angle(c0 + c1*t).rad()` differ from the raw angles by whole turns only, so in exact arithmetic `corr` is
    Meeus' formula evaluated at the raw angles `radians(M0 + k M1)` and `radians(c0 + c1 t)` - for every count `k`,
    no range restriction.  (A reduction by anything but whole turns, or a non-integral multiplier, would break it.) -/
theorem angle_normalisation_invisible : ∀ r ∈ generatedFinders, ∀ k : ℤ,
    finder_corr r k =
      evalE (finder_t r (finder_jde0 r k)) (pradians (ofDec r.M0 + ofInt k * ofDec r.M1))
        (r.aux.map fun c => pradians (ofDec c.1 + ofDec c.2 * finder_t r (finder_jde0 r k))) r.corr := by
  intro r hr k
  unfold finder_corr
  exact evalE_congr _ (finder_m_congr r k) (finder_aux_congr r _) r.corr (series_multipliers_integral r hr).1

/-- The mean anomaly handed to the series is in the first turn: `0 ≤ m < 2π` (what `.to_positive()` is for). -/
theorem mean_anomaly_in_first_turn : ∀ r : Finder, ∀ k : ℤ, 0 ≤ finder_m r k ∧ finder_m r k < 2 * Real.pi := by
  intro r k
  obtain ⟨a, b⟩ := to_positive_range _ (reduce_deg_range (ofDec r.M0 + ofInt k * ofDec r.M1))
  unfold finder_m pradians
  have hp := Real.pi_pos
  constructor
  · positivity
  · have : fnd_to_positive (fnd_reduce_deg (ofDec r.M0 + ofInt k * ofDec r.M1)) * (Real.pi / 180) < 360 * (Real.pi / 180) :=
      mul_lt_mul_of_pos_right b (by positivity)
    linarith

/-- passage_nodes, "the result lies within one period of the query" - the two-body half: for an elliptic orbit
    (0 ≤ e < 1, a > 0) `passage_nodes_elliptic` (model of templates/Kepler.lean, C11) returns a time strictly less
    than half an orbital period (180/n days, n = 0.9856076686 / a^1.5 degrees per day) from the perihelion time it
    is given, for either node and any argument of perihelion.  With the perihelion within half a period (+ bracket)
    of the query this is the clause; that the perihelion chosen IS that near is only true up to the drift of the
    linear count (known finding C13-mercury-nodes-beyond-one-period), and the VSOP87 stage in between is not
    modelled. -/
theorem node_passage_within_half_period_of_perihelion : ∀ (e a ω T : ℝ) (asc : Bool), 0 ≤ e → e < 1 → 0 < a →
    ∃ t r, GenR.Kepler.passage_nodes_elliptic ω e a T asc = .ok (t, r) ∧
      |t - T| < 180 / (0.9856076686 / (a * Real.sqrt a)) :=
  fun _ _ ω T asc h0 h1 ha => Refine.FinderNodes.node_within_half_period h0 h1 ha ω T asc

/-! ### The hypotheses are satisfiable -/

example : Mercury_inferior_conjunction ∈ generatedFinders := by simp [generatedFinders]
example : Saturn_station_longitude_2 ∈ generatedFinders := by simp [generatedFinders]
example : Earth_perihelion_aphelion ∈ generatedPA := by simp [generatedPA]
/-- an accepted query exists for every finder: y = 1993.75 (the docstring example of Mercury.inferior_conjunction) -/
example : ∀ r ∈ generatedFinders, ∃ a, finder_raw r 1993.75 = .ok a :=
  fun r hr => ⟨_, (range_check r hr 1993.75).2 (by norm_num)⟩
/-- a refused query exists for every finder -/
example : ∀ r ∈ generatedFinders, finder_raw r 4000.5 = .error .valueError :=
  fun r hr => (range_check r hr 4000.5).1.2 (Or.inr (by norm_num))
/-- two accepted queries less than one period apart with different period counts exist (the "one period apart"
    branch of `none_skipped_none_repeated` is inhabited): counts 0 and 1 are both attained. -/
example : ∀ r ∈ generatedFinders, ∃ y0 y1 : ℝ, finder_k r y0 = 0 ∧ finder_k r y1 = 1 := by
  intro r hr
  have h := okR_of_ok (all_finders_ok r hr)
  exact ⟨_, _, by rw [finder_k_eq, qarg_attains h 0, kround_intCast],
    by rw [finder_k_eq, qarg_attains h 1, kround_intCast]⟩

/-- J2000.0 (JDE 2451545) is an accepted query of every finder: the JDE-level theorems are not vacuous. -/
example : ∀ r ∈ generatedFinders, ∃ e a, finder_from_jde r 2451545 = .ok (e, a) := by
  intro r hr
  obtain ⟨v, _, _, _, hres⟩ := returned_epoch_exact r hr 2451545 (by unfold jLo; norm_num) (by unfold jHi; norm_num)
  exact ⟨_, _, hres⟩
/-- a refused query instant: 4000 January 2.0 -/
example : ∀ r ∈ generatedFinders, finder_from_jde r 3182030.5 = .error .valueError :=
  fun r hr => (range_check_jde r hr 3182030.5 (by norm_num) (by unfold jMax; norm_num)).2.2 (Or.inr (by unfold jHi; norm_num))

/-- an elongation finder exists and an accepted query for it: `elongation_reported_in_range` is not vacuous -/
example : ∃ r ∈ generatedFinders, ∃ e, r.elon = some e ∧ ∃ a, finder_elon r (finder_k r 1993.75) = some a ∧ 14 ≤ a := by
  refine ⟨Mercury_western_elongation, by simp [generatedFinders], _, rfl, ?_⟩
  obtain ⟨a, ha, _, h14, _⟩ := elongation_reported_in_range Mercury_western_elongation (by simp [generatedFinders]) _ rfl
    1993.75 (by norm_num) (by norm_num)
  exact ⟨a, ha, h14⟩
/-- counts 0 and 1 with brackets: the hypotheses of `pa_results_ordered_partial` hold for the centres themselves -/
example : ∀ r ∈ generatedPA, pa_jde r 0 true < pa_jde r 1 true := by
  intro r hr
  have hk : (1 : ℝ) ≤ ((r.kMax : ℚ) : ℝ) := by
    have h := (okPA_of_ok (all_pa_ok r hr)).hk1
    have hC := (okPA_of_ok (all_pa_ok r hr)).hC
    have h2 := (okPA_of_ok (all_pa_ok r hr)).hk2
    nlinarith
  have d0 : (0 : ℝ) ≤ ofDec r.delta := by
    have t := (pa_bracket_table r hr).1
    have : ((1 / 2 : ℚ) : ℝ) ≤ ((r.delta.toRat : ℚ) : ℝ) := Rat.cast_le.2 t
    have e : ofDec r.delta = ((r.delta.toRat : ℚ) : ℝ) := rfl
    rw [e]; push_cast at this; linarith
  exact (pa_results_ordered_partial r hr true 0 1 _ _ (by simpa using le_trans zero_le_one hk) (by simpa using hk)
    (by norm_num) (by simpa using d0) (by simpa using d0)).1

/-- Mercury's orbit (e = 0.2056, a = 0.3871) satisfies the hypotheses of `node_passage_within_half_period_of_perihelion` -/
example : ∃ t r, GenR.Kepler.passage_nodes_elliptic 29.1 0.2056 0.3871 2451590.257 true = .ok (t, r) := by
  obtain ⟨t, r, h, _⟩ := node_passage_within_half_period_of_perihelion 0.2056 0.3871 29.1 2451590.257 true
    (by norm_num) (by norm_num) (by norm_num)
  exact ⟨t, r, h⟩

end Pymeeus.C13
