import Pymeeus.Gen.R.Finders
namespace Pymeeus.C13
/-- placeholder while the harness is developed -/
theorem placeholder : (1 : Nat) = 1 := rfl
end Pymeeus.C13
