import Pymeeus.Refine.MoonFinders
import Pymeeus.Refine.MoonPosition
import Pymeeus.Refine.MoonJde
/-
Property C15 — "Moon position is physical; lunar event finders agree with it".

Theorems about the real-number model `Pymeeus.GenR.MoonM` (lean/templates/Moon.lean) whose tables
and periodic-term lists `Pymeeus.MoonData.*` are regenerated from pymeeus/Moon.py on every run.
A finder's `year` argument is the fractional year the Python derives from the query epoch
(`y + doy / days_in_year`, property C16); "the query advances" is therefore read as "the
fractional year does not decrease".

What is NOT proved here (checked on the implementation only, harness/c15.py): the distance window
356000–407000 km and |latitude| ≤ 5.35° (only the triangle-inequality windows below), the
longitude rate, fraction vs geometry, the secular rates, that the found instants are events of
the position theory, and the "1.6 months" clause in calendar terms.
-/
noncomputable section
namespace Pymeeus.C15
open Pymeeus Pymeeus.PR Pymeeus.GenR.MoonM Pymeeus.Spec Pymeeus.Refine

/-! ## Position -/

/-- "parallax equals asin(6378.14 km / distance)": for every epoch within 60 centuries of J2000 the
    function returns (no exception), the argument of `asin` lies strictly between 0 and 1, and the
    returned parallax (degrees) is `degrees(asin(6378.14 / Δ))` with `Δ` the returned distance —
    the `Angle` reduction does not alter it. Uses the amplitude sum of the generated table 47.A. -/
theorem parallax_eq_asin (jde : ℝ) (h : |cent jde| ≤ 60) :
    ∃ lam beta delta : ℝ,
      geocentric_ecliptical_pos jde = .ok (lam, beta, delta, pdegrees (Real.arcsin (6378.14 / delta))) ∧
      delta = 385000.56 + pos_sigmar (cent jde) / 1000.0 ∧ 0 < 6378.14 / delta ∧ 6378.14 / delta < 1 := by
  obtain ⟨hok, hx0, hx1⟩ := geocentric_ecliptical_pos_ok jde h
  exact ⟨_, _, _, hok, rfl, hx0, hx1⟩

/-- "the Moon's distance lies in 356000–407000 km" — PARTIAL: only the triangle-inequality window
    355100–414900 km that follows from the amplitude sum of the generated table 47.A is proved;
    the tighter window of the statement needs cancellation between the terms and is left to the
    predicates evaluated on the implementation. -/
theorem distance_window_partial (jde : ℝ) (h : |cent jde| ≤ 60) :
    355100 ≤ pos_delta (cent jde) ∧ pos_delta (cent jde) ≤ 414900 := pos_delta_window h

/-- "|latitude| is at most 5.35 degrees" — PARTIAL: only `|β| ≤ 6.1°` (amplitude sum of the
    generated table 47.B plus the additive terms) is proved, and the `Angle` reduction is the
    identity on that range. -/
theorem latitude_window_partial (jde : ℝ) (h : |cent jde| ≤ 60) :
    ∃ lam beta delta ppi : ℝ, geocentric_ecliptical_pos jde = .ok (lam, beta, delta, ppi) ∧
      beta = pos_sigmab (cent jde) / 1000000.0 ∧ |beta| ≤ 6.1 := by
  obtain ⟨hok, -, -⟩ := geocentric_ecliptical_pos_ok jde h
  have hlt := abs_pos_beta_le jde h
  have hlt' : |pos_sigmab (cent jde) / 1000000.0| < 360 := lt_of_le_of_lt hlt (by norm_num)
  rw [reduce_deg_of_lt hlt'] at hok
  exact ⟨_, _, _, _, hok, rfl, hlt⟩

/-- "the illuminated fraction lies in [0, 1]" (it is `(1 + cos i) / 2`), for every epoch. -/
theorem fraction_range (jde : ℝ) :
    illuminated_fraction_disk jde = (1 + Real.cos (pradians (illum_i jde))) / 2 ∧
    0 ≤ illuminated_fraction_disk jde ∧ illuminated_fraction_disk jde ≤ 1 := by
  have h1 := Real.neg_one_le_cos (pradians (illum_i jde))
  have h2 := Real.cos_le_one (pradians (illum_i jde))
  have e : illuminated_fraction_disk jde = (1 + Real.cos (pradians (illum_i jde))) / 2 := by
    unfold illuminated_fraction_disk pcos; norm_num
  rw [e]
  refine ⟨rfl, ?_, ?_⟩ <;> linarith

/-- "node … longitudes move at their secular rates" — PARTIAL: the mean node is the `Angle`
    reduction of a polynomial whose advance between any two epochs within 60 centuries of J2000
    is `-1934.1362891°` per century up to `0.29°` per century (a period of 18.6 years); that the
    `Angle` reduction only removes multiples of 360° is property C03 and is not re-proved here;
    the true node differs from the mean node by the five generated periodic terms. -/
theorem node_secular_rate_partial (j j' : ℝ) (h : |cent j| ≤ 60) (h' : |cent j'| ≤ 60) :
    longitude_mean_ascending_node j = to_positive (reduce_deg (node_poly (cent j))) ∧
    |node_poly (cent j') - node_poly (cent j) - (-1934.1362891) * (cent j' - cent j)| ≤
      |cent j' - cent j| * (29 / 100) :=
  ⟨rfl, node_poly_rate h h'⟩

/-- "… perigee longitudes move at their secular rates" — PARTIAL: the mean perigee is the `Angle`
    reduction of a polynomial whose advance is `+4069.0137287°` per century up to `1.42°` per
    century (a period of 8.85 years); same residual as for the node. -/
theorem perigee_secular_rate_partial (j j' : ℝ) (h : |cent j| ≤ 60) (h' : |cent j'| ≤ 60) :
    longitude_mean_perigee j = reduce_deg (perigee_poly (cent j)) ∧
    |perigee_poly (cent j') - perigee_poly (cent j) - 4069.0137287 * (cent j' - cent j)| ≤
      |cent j' - cent j| * (142 / 100) :=
  ⟨rfl, perigee_poly_rate h h'⟩

/-! ## moon_phase — targets "new", "first", "full", "last" -/

/-- "every target string": the four phase names are accepted (a result is returned for every
    fractional year), any other string raises `ValueError`. -/
theorem phase_targets (year : ℝ) (s : String) :
    ((s = "new" ∨ s = "first" ∨ s = "full" ∨ s = "last") → ∃ r, moon_phase year s = .ok r) ∧
    (¬ (s = "new" ∨ s = "first" ∨ s = "full" ∨ s = "last") → moon_phase year s = .error .valueError) :=
  ⟨fun hs => ⟨_, moon_phase_eq hs year⟩, fun hs => moon_phase_err hs year⟩

/-- the lunation count `k = round((year - 2000) · 12.3685) (+ 0.25 / 0.5 / 0.75)` is monotone in the query -/
theorem phase_k_monotone (s : String) {y1 y2 : ℝ} (h : y1 ≤ y2) : phase_k y1 s ≤ phase_k y2 s := by
  rw [phase_k_eq, phase_k_eq]
  have : mround ((y1 - 2000.0) * 12.3685) ≤ mround ((y2 - 2000.0) * 12.3685) :=
    mround_mono (mul_le_mul_of_nonneg_right (by linarith) (by norm_num))
  have : ((mround ((y1 - 2000.0) * 12.3685) : ℤ) : ℝ) ≤ ((mround ((y2 - 2000.0) * 12.3685) : ℤ) : ℝ) := by exact_mod_cast this
  linarith

/-- "none skipped": two queries less than one mean lunation apart (in fractional years) get the same
    count or consecutive counts -/
theorem phase_k_none_skipped (s : String) {y1 y2 : ℝ} (h : y1 ≤ y2) (hstep : (y2 - y1) * 12.3685 < 1) :
    phase_k y2 s = phase_k y1 s ∨ phase_k y2 s = phase_k y1 s + 1 := by
  rw [phase_k_eq, phase_k_eq]
  have h1 : mround ((y1 - 2000.0) * 12.3685) ≤ mround ((y2 - 2000.0) * 12.3685) :=
    mround_mono (mul_le_mul_of_nonneg_right (by linarith) (by norm_num))
  have h2 : mround ((y2 - 2000.0) * 12.3685) - mround ((y1 - 2000.0) * 12.3685) ≤ 1 :=
    mround_step (by linarith)
  have : mround ((y2 - 2000.0) * 12.3685) = mround ((y1 - 2000.0) * 12.3685) ∨
      mround ((y2 - 2000.0) * 12.3685) = mround ((y1 - 2000.0) * 12.3685) + 1 := by omega
  rcases this with e | e
  · left; rw [e]
  · right; rw [e]; push_cast; ring

/-- every integer count is selected by some query (plus the target's offset) -/
theorem phase_k_onto (s : String) (n : ℤ) : ∃ year : ℝ, phase_k year s = (n : ℝ) + phaseOff s := by
  refine ⟨2000.0 + (n : ℝ) / 12.3685, ?_⟩
  rw [phase_k_eq]
  have hc : (12.3685 : ℝ) ≠ 0 := by norm_num
  have : (2000.0 + (n : ℝ) / 12.3685 - 2000.0) * 12.3685 = (n : ℝ) := by
    rw [add_sub_cancel_left, div_mul_cancel₀ _ hc]
  rw [this, mround_intCast]

/-- `|corr + corr2 + w| ≤ C` with `C` the sum of the generated amplitudes (0.65 d for new/full,
    0.87 d for the quarters), for queries in -2000..4002 -/
theorem phase_corr_bound (s : String) {year : ℝ} (h1 : -2000 ≤ year) (h2 : year ≤ 4002) :
    |phase_corr (phase_k year s) s| ≤ phaseC s ∧ phaseC s ≤ 87 / 100 :=
  ⟨abs_phase_corr_le _ s (phase_t_range s h1 h2), phaseC_le s⟩

/-- "results never move backwards as the query advances" -/
theorem phase_never_backwards {s : String} (hs : s = "new" ∨ s = "first" ∨ s = "full" ∨ s = "last")
    {y1 y2 r1 r2 : ℝ} (ha : -2000 ≤ y1) (hb : y2 ≤ 4002) (h : y1 ≤ y2)
    (e1 : moon_phase y1 s = .ok r1) (e2 : moon_phase y2 s = .ok r2) : r1 ≤ r2 := by
  rw [moon_phase_eq hs] at e1 e2
  cases e1; cases e2
  have t1 := phase_t_range s ha (h.trans hb)
  have t2 := phase_t_range s (ha.trans h) hb
  rw [phase_k_eq] at t1 t2 ⊢
  rw [phase_k_eq]
  have hm : mround ((y1 - 2000.0) * 12.3685) ≤ mround ((y2 - 2000.0) * 12.3685) :=
    mround_mono (mul_le_mul_of_nonneg_right (by linarith) (by norm_num))
  refine nf_never_backwards (phase_res_eq s) ?_ hm (abs_phase_e_le s t1) (abs_phase_e_le s t2)
  have := phaseC_le s
  norm_num; linarith

/-- "consecutive results are one synodic month apart within natural variation": consecutive counts
    give results `29.530588861 ± 2 (0.272 + C)` days apart, which is positive (strictly increasing) -/
theorem phase_spacing (s : String) (m : ℤ) (h1 : |((m : ℝ) + phaseOff s) / 1236.85| ≤ 41)
    (h2 : |((m : ℝ) + 1 + phaseOff s) / 1236.85| ≤ 41) :
    29.530588861 - 2 * (272 / 1000 + phaseC s) ≤ phase_res s ((m : ℝ) + 1 + phaseOff s) - phase_res s ((m : ℝ) + phaseOff s) ∧
    phase_res s ((m : ℝ) + 1 + phaseOff s) - phase_res s ((m : ℝ) + phaseOff s) ≤ 29.530588861 + 2 * (272 / 1000 + phaseC s) ∧
    (0 : ℝ) < 29.530588861 - 2 * (272 / 1000 + phaseC s) := by
  have := nf_spacing (phase_res_eq s) m (abs_phase_e_le s h1) (abs_phase_e_le s h2)
  refine ⟨this.1, this.2, ?_⟩
  have := phaseC_le s
  norm_num; linarith

/-- "lie within 1.6 months of the query" — in terms of the fractional year: the result is within
    half a synodic month + 0.272 + C days of the mean phase `2451550.09766 + 29.530588861 ·
    ((year - 2000) · 12.3685 + offset)` (at most 15.91 days); how far that instant is from the query's
    own JDE is calendar arithmetic that is not part of this model. -/
theorem phase_near_query_partial {s : String} (hs : s = "new" ∨ s = "first" ∨ s = "full" ∨ s = "last")
    {year r : ℝ} (h1 : -2000 ≤ year) (h2 : year ≤ 4002) (e : moon_phase year s = .ok r) :
    |r - (2451550.09766 + 29.530588861 * ((year - 2000.0) * 12.3685 + phaseOff s))| ≤
      29.530588861 / 2 + (272 / 1000 + phaseC s) := by
  rw [moon_phase_eq hs] at e
  cases e
  have t := phase_t_range s h1 h2
  rw [phase_k_eq] at t ⊢
  exact nf_near (phase_res_eq s) (by norm_num) (mround_sub_le _) (abs_phase_e_le s t)


/-! ## moon_perigee_apogee — targets "perigee", "apogee" -/

/-- "every target string": the names "perigee", "apogee" are accepted (a result is
    returned for every fractional year), any other string raises `ValueError`. -/
theorem apsis_targets (year : ℝ) (s : String) :
    ((s = "perigee" ∨ s = "apogee") → ∃ r p, moon_perigee_apogee year s = .ok (r, p)) ∧
    (¬ (s = "perigee" ∨ s = "apogee") → moon_perigee_apogee year s = .error .valueError) :=
  ⟨fun hs => ⟨_, _, moon_perigee_apogee_eq hs year⟩, fun hs => moon_perigee_apogee_err hs year⟩

/-- the count `k = round((year - 1999.97) · 13.2555) (+ 0.5)` is monotone in the query -/
theorem apsis_k_monotone (s : String) {y1 y2 : ℝ} (h : y1 ≤ y2) : apsis_k y1 s ≤ apsis_k y2 s := by
  rw [apsis_k_eq, apsis_k_eq]
  have : mround ((y1 - 1999.97) * 13.2555) ≤ mround ((y2 - 1999.97) * 13.2555) :=
    mround_mono (mul_le_mul_of_nonneg_right (by linarith) (by norm_num))
  have : ((mround ((y1 - 1999.97) * 13.2555) : ℤ) : ℝ) ≤ ((mround ((y2 - 1999.97) * 13.2555) : ℤ) : ℝ) := by exact_mod_cast this
  linarith

/-- "none skipped": two queries less than one mean anomalistic month apart (in fractional years) get the
    same count or consecutive counts -/
theorem apsis_k_none_skipped (s : String) {y1 y2 : ℝ} (h : y1 ≤ y2) (hstep : (y2 - y1) * 13.2555 < 1) :
    apsis_k y2 s = apsis_k y1 s ∨ apsis_k y2 s = apsis_k y1 s + 1 := by
  rw [apsis_k_eq, apsis_k_eq]
  have h1 : mround ((y1 - 1999.97) * 13.2555) ≤ mround ((y2 - 1999.97) * 13.2555) :=
    mround_mono (mul_le_mul_of_nonneg_right (by linarith) (by norm_num))
  have h2 : mround ((y2 - 1999.97) * 13.2555) - mround ((y1 - 1999.97) * 13.2555) ≤ 1 :=
    mround_step (by linarith)
  have : mround ((y2 - 1999.97) * 13.2555) = mround ((y1 - 1999.97) * 13.2555) ∨
      mround ((y2 - 1999.97) * 13.2555) = mround ((y1 - 1999.97) * 13.2555) + 1 := by omega
  rcases this with e | e
  · left; rw [e]
  · right; rw [e]; push_cast; ring

/-- every integer count is selected by some query (plus the target's offset) -/
theorem apsis_k_onto (s : String) (n : ℤ) : ∃ year : ℝ, apsis_k year s = (n : ℝ) + apsisOff s := by
  refine ⟨1999.97 + (n : ℝ) / 13.2555, ?_⟩
  rw [apsis_k_eq]
  have hc : (13.2555 : ℝ) ≠ 0 := by norm_num
  have : (1999.97 + (n : ℝ) / 13.2555 - 1999.97) * 13.2555 = (n : ℝ) := by
    rw [add_sub_cancel_left, div_mul_cancel₀ _ hc]
  rw [this, mround_intCast]

/-- `|corr| ≤ C` with `C` the sum of the generated amplitudes (2.883 d for perigee, 0.703 d for apogee), for queries in -2000..4002 -/
theorem apsis_corr_bound (s : String) {year : ℝ} (h1 : -2000 ≤ year) (h2 : year ≤ 4002) :
    |apsis_corr (apsis_k year s) s| ≤ apsisC s ∧ apsisC s ≤ 2883 / 1000 :=
  ⟨abs_apsis_corr_le _ s (apsis_t_range s h1 h2), apsisC_le s⟩

/-- "results never move backwards as the query advances" -/
theorem apsis_never_backwards {s : String} (hs : s = "perigee" ∨ s = "apogee")
    {y1 y2 r1 r2 p1 p2 : ℝ} (ha : -2000 ≤ y1) (hb : y2 ≤ 4002) (h : y1 ≤ y2)
    (e1 : moon_perigee_apogee y1 s = .ok (r1, p1)) (e2 : moon_perigee_apogee y2 s = .ok (r2, p2)) : r1 ≤ r2 := by
  rw [moon_perigee_apogee_eq hs] at e1 e2
  cases e1; cases e2
  have t1 := apsis_t_range s ha (h.trans hb)
  have t2 := apsis_t_range s (ha.trans h) hb
  rw [apsis_k_eq] at t1 t2 ⊢
  rw [apsis_k_eq]
  have hm : mround ((y1 - 1999.97) * 13.2555) ≤ mround ((y2 - 1999.97) * 13.2555) :=
    mround_mono (mul_le_mul_of_nonneg_right (by linarith) (by norm_num))

  refine nf_never_backwards (apsis_res_eq s) ?_ hm (abs_apsis_e_le s t1) (abs_apsis_e_le s t2)
  have := apsisC_le s
  norm_num; linarith

/-- "consecutive results are one anomalistic month apart within natural variation": consecutive counts
    give results `27.55454989 ± 2 (1216 / 1000 + C)` days apart, which is positive (strictly increasing) -/
theorem apsis_spacing (s : String) (m : ℤ) (h1 : |((m : ℝ) + apsisOff s) / 1325.55| ≤ 41)
    (h2 : |((m : ℝ) + 1 + apsisOff s) / 1325.55| ≤ 41) :
    27.55454989 - 2 * (1216 / 1000 + apsisC s) ≤ apsis_res s ((m : ℝ) + 1 + apsisOff s) - apsis_res s ((m : ℝ) + apsisOff s) ∧
    apsis_res s ((m : ℝ) + 1 + apsisOff s) - apsis_res s ((m : ℝ) + apsisOff s) ≤ 27.55454989 + 2 * (1216 / 1000 + apsisC s) ∧
    (0 : ℝ) < 27.55454989 - 2 * (1216 / 1000 + apsisC s) := by
  have := nf_spacing (apsis_res_eq s) m (abs_apsis_e_le s h1) (abs_apsis_e_le s h2)
  refine ⟨this.1, this.2, ?_⟩
  have := apsisC_le s
  norm_num; linarith

/-- "lie within 1.6 months of the query" — in terms of the fractional year: the result is within
    half a anomalistic month + 1216 / 1000 + C days of the mean instant `2451534.6698 + 27.55454989 ·
    ((year - 1999.97) · 13.2555 + offset)`; how far that instant is from the query's own JDE is calendar
    arithmetic that is not part of this model. -/
theorem apsis_near_query_partial {s : String} (hs : s = "perigee" ∨ s = "apogee")
    {year r p : ℝ} (h1 : -2000 ≤ year) (h2 : year ≤ 4002) (e : moon_perigee_apogee year s = .ok (r, p)) :
    |r - (2451534.6698 + 27.55454989 * ((year - 1999.97) * 13.2555 + apsisOff s))| ≤
      27.55454989 / 2 + (1216 / 1000 + apsisC s) := by
  rw [moon_perigee_apogee_eq hs] at e
  cases e
  have t := apsis_t_range s h1 h2
  rw [apsis_k_eq] at t ⊢

  exact nf_near (apsis_res_eq s) (by norm_num) (mround_sub_le _) (abs_apsis_e_le s t)

/-! ## moon_passage_nodes — targets "ascending", "descending" -/

/-- "every target string": the names "ascending", "descending" are accepted (a result is
    returned for every fractional year), any other string raises `ValueError`. -/
theorem nodes_targets (year : ℝ) (s : String) :
    ((s = "ascending" ∨ s = "descending") → ∃ r, moon_passage_nodes year s = .ok r) ∧
    (¬ (s = "ascending" ∨ s = "descending") → moon_passage_nodes year s = .error .valueError) :=
  ⟨fun hs => ⟨_, moon_passage_nodes_eq hs year⟩, fun hs => moon_passage_nodes_err hs year⟩

/-- the count `k = round((year - 2000.05) · 13.4223) (+ 0.5)` is monotone in the query -/
theorem nodes_k_monotone (s : String) {y1 y2 : ℝ} (h : y1 ≤ y2) : nodes_k y1 s ≤ nodes_k y2 s := by
  rw [nodes_k_eq, nodes_k_eq]
  have : mround ((y1 - 2000.05) * 13.4223) ≤ mround ((y2 - 2000.05) * 13.4223) :=
    mround_mono (mul_le_mul_of_nonneg_right (by linarith) (by norm_num))
  have : ((mround ((y1 - 2000.05) * 13.4223) : ℤ) : ℝ) ≤ ((mround ((y2 - 2000.05) * 13.4223) : ℤ) : ℝ) := by exact_mod_cast this
  linarith

/-- "none skipped": two queries less than one mean draconic month apart (in fractional years) get the
    same count or consecutive counts -/
theorem nodes_k_none_skipped (s : String) {y1 y2 : ℝ} (h : y1 ≤ y2) (hstep : (y2 - y1) * 13.4223 < 1) :
    nodes_k y2 s = nodes_k y1 s ∨ nodes_k y2 s = nodes_k y1 s + 1 := by
  rw [nodes_k_eq, nodes_k_eq]
  have h1 : mround ((y1 - 2000.05) * 13.4223) ≤ mround ((y2 - 2000.05) * 13.4223) :=
    mround_mono (mul_le_mul_of_nonneg_right (by linarith) (by norm_num))
  have h2 : mround ((y2 - 2000.05) * 13.4223) - mround ((y1 - 2000.05) * 13.4223) ≤ 1 :=
    mround_step (by linarith)
  have : mround ((y2 - 2000.05) * 13.4223) = mround ((y1 - 2000.05) * 13.4223) ∨
      mround ((y2 - 2000.05) * 13.4223) = mround ((y1 - 2000.05) * 13.4223) + 1 := by omega
  rcases this with e | e
  · left; rw [e]
  · right; rw [e]; push_cast; ring

/-- every integer count is selected by some query (plus the target's offset) -/
theorem nodes_k_onto (s : String) (n : ℤ) : ∃ year : ℝ, nodes_k year s = (n : ℝ) + nodesOff s := by
  refine ⟨2000.05 + (n : ℝ) / 13.4223, ?_⟩
  rw [nodes_k_eq]
  have hc : (13.4223 : ℝ) ≠ 0 := by norm_num
  have : (2000.05 + (n : ℝ) / 13.4223 - 2000.05) * 13.4223 = (n : ℝ) := by
    rw [add_sub_cancel_left, div_mul_cancel₀ _ hc]
  rw [this, mround_intCast]

/-- `|corr| ≤ C` with `C` the sum of the generated amplitudes (0.775 d), for queries in -2000..4002 -/
theorem nodes_corr_bound (s : String) {year : ℝ} (h1 : -2000 ≤ year) (h2 : year ≤ 4002) :
    |nodes_corr (nodes_k year s)| ≤ 775 / 1000 ∧ 775 / 1000 ≤ 775 / 1000 :=
  ⟨abs_nodes_corr_le _ (nodes_t_range s h1 h2), le_refl _⟩

/-- "results never move backwards as the query advances" -/
theorem nodes_never_backwards {s : String} (hs : s = "ascending" ∨ s = "descending")
    {y1 y2 r1 r2 : ℝ} (ha : -2000 ≤ y1) (hb : y2 ≤ 4002) (h : y1 ≤ y2)
    (e1 : moon_passage_nodes y1 s = .ok r1) (e2 : moon_passage_nodes y2 s = .ok r2) : r1 ≤ r2 := by
  rw [moon_passage_nodes_eq hs] at e1 e2
  cases e1; cases e2
  have t1 := nodes_t_range s ha (h.trans hb)
  have t2 := nodes_t_range s (ha.trans h) hb
  rw [nodes_k_eq] at t1 t2 ⊢
  rw [nodes_k_eq]
  have hm : mround ((y1 - 2000.05) * 13.4223) ≤ mround ((y2 - 2000.05) * 13.4223) :=
    mround_mono (mul_le_mul_of_nonneg_right (by linarith) (by norm_num))

  refine nf_never_backwards (nodes_res_eq) ?_ hm (abs_nodes_e_le t1) (abs_nodes_e_le t2)
  norm_num

/-- "consecutive results are one draconic month apart within natural variation": consecutive counts
    give results `27.212220817 ± 2 (467 / 1000 + C)` days apart, which is positive (strictly increasing) -/
theorem nodes_spacing (s : String) (m : ℤ) (h1 : |((m : ℝ) + nodesOff s) / 1342.23| ≤ 41)
    (h2 : |((m : ℝ) + 1 + nodesOff s) / 1342.23| ≤ 41) :
    27.212220817 - 2 * (467 / 1000 + 775 / 1000) ≤ nodes_res ((m : ℝ) + 1 + nodesOff s) - nodes_res ((m : ℝ) + nodesOff s) ∧
    nodes_res ((m : ℝ) + 1 + nodesOff s) - nodes_res ((m : ℝ) + nodesOff s) ≤ 27.212220817 + 2 * (467 / 1000 + 775 / 1000) ∧
    (0 : ℝ) < 27.212220817 - 2 * (467 / 1000 + 775 / 1000) := by
  have := nf_spacing (nodes_res_eq) m (abs_nodes_e_le h1) (abs_nodes_e_le h2)
  refine ⟨this.1, this.2, ?_⟩
  norm_num

/-- "lie within 1.6 months of the query" — in terms of the fractional year: the result is within
    half a draconic month + 467 / 1000 + C days of the mean instant `2451565.1619 + 27.212220817 ·
    ((year - 2000.05) · 13.4223 + offset)`; how far that instant is from the query's own JDE is calendar
    arithmetic that is not part of this model. -/
theorem nodes_near_query_partial {s : String} (hs : s = "ascending" ∨ s = "descending")
    {year r : ℝ} (h1 : -2000 ≤ year) (h2 : year ≤ 4002) (e : moon_passage_nodes year s = .ok r) :
    |r - (2451565.1619 + 27.212220817 * ((year - 2000.05) * 13.4223 + nodesOff s))| ≤
      27.212220817 / 2 + (467 / 1000 + 775 / 1000) := by
  rw [moon_passage_nodes_eq hs] at e
  cases e
  have t := nodes_t_range s h1 h2
  rw [nodes_k_eq] at t ⊢

  exact nf_near (nodes_res_eq) (by norm_num) (mround_sub_le _) (abs_nodes_e_le t)

/-! ## moon_maximum_declination — targets "northern", "southern" -/

/-- "every target string": the names "northern", "southern" are accepted (a result is
    returned for every fractional year), any other string raises `ValueError`. -/
theorem decl_targets (year : ℝ) (s : String) :
    ((s = "northern" ∨ s = "southern") → ∃ r p, moon_maximum_declination year s = .ok (r, p)) ∧
    (¬ (s = "northern" ∨ s = "southern") → moon_maximum_declination year s = .error .valueError) :=
  ⟨fun hs => ⟨_, _, moon_maximum_declination_eq hs year⟩, fun hs => moon_maximum_declination_err hs year⟩

/-- the count `k = round((year - 2000.03) · 13.3686)` is monotone in the query -/
theorem decl_k_monotone {y1 y2 : ℝ} (h : y1 ≤ y2) : decl_k y1 ≤ decl_k y2 := by
  rw [decl_k_eq, decl_k_eq]
  have : mround ((y1 - 2000.03) * 13.3686) ≤ mround ((y2 - 2000.03) * 13.3686) :=
    mround_mono (mul_le_mul_of_nonneg_right (by linarith) (by norm_num))
  have : ((mround ((y1 - 2000.03) * 13.3686) : ℤ) : ℝ) ≤ ((mround ((y2 - 2000.03) * 13.3686) : ℤ) : ℝ) := by exact_mod_cast this
  linarith

/-- "none skipped": two queries less than one mean tropical month apart (in fractional years) get the
    same count or consecutive counts -/
theorem decl_k_none_skipped {y1 y2 : ℝ} (h : y1 ≤ y2) (hstep : (y2 - y1) * 13.3686 < 1) :
    decl_k y2 = decl_k y1 ∨ decl_k y2 = decl_k y1 + 1 := by
  rw [decl_k_eq, decl_k_eq]
  have h1 : mround ((y1 - 2000.03) * 13.3686) ≤ mround ((y2 - 2000.03) * 13.3686) :=
    mround_mono (mul_le_mul_of_nonneg_right (by linarith) (by norm_num))
  have h2 : mround ((y2 - 2000.03) * 13.3686) - mround ((y1 - 2000.03) * 13.3686) ≤ 1 :=
    mround_step (by linarith)
  have : mround ((y2 - 2000.03) * 13.3686) = mround ((y1 - 2000.03) * 13.3686) ∨
      mround ((y2 - 2000.03) * 13.3686) = mround ((y1 - 2000.03) * 13.3686) + 1 := by omega
  rcases this with e | e
  · left; rw [e]
  · right; rw [e]; push_cast; ring

/-- every integer count is selected by some query -/
theorem decl_k_onto (n : ℤ) : ∃ year : ℝ, decl_k year = (n : ℝ) := by
  refine ⟨2000.03 + (n : ℝ) / 13.3686, ?_⟩
  rw [decl_k_eq]
  have hc : (13.3686 : ℝ) ≠ 0 := by norm_num
  have : (2000.03 + (n : ℝ) / 13.3686 - 2000.03) * 13.3686 = (n : ℝ) := by
    rw [add_sub_cancel_left, div_mul_cancel₀ _ hc]
  rw [this, mround_intCast]

/-- `|corr| ≤ C` with `C` the sum of the generated amplitudes (1.875 d northern, 1.867 d southern), for queries in -2000..4002 -/
theorem decl_corr_bound (s : String) {year : ℝ} (h1 : -2000 ≤ year) (h2 : year ≤ 4002) :
    |decl_corr (decl_k year) s| ≤ declC s ∧ declC s ≤ 1875 / 1000 :=
  ⟨abs_decl_corr_le _ s (decl_t_range h1 h2), declC_le s⟩

/-- "results never move backwards as the query advances" -/
theorem decl_never_backwards {s : String} (hs : s = "northern" ∨ s = "southern")
    {y1 y2 r1 r2 p1 p2 : ℝ} (ha : -2000 ≤ y1) (hb : y2 ≤ 4002) (h : y1 ≤ y2)
    (e1 : moon_maximum_declination y1 s = .ok (r1, p1)) (e2 : moon_maximum_declination y2 s = .ok (r2, p2)) : r1 ≤ r2 := by
  rw [moon_maximum_declination_eq hs] at e1 e2
  cases e1; cases e2
  have t1 := decl_t_range ha (h.trans hb)
  have t2 := decl_t_range (ha.trans h) hb
  rw [decl_k_eq0] at t1 t2 ⊢
  rw [decl_k_eq0]
  have hm : mround ((y1 - 2000.03) * 13.3686) ≤ mround ((y2 - 2000.03) * 13.3686) :=
    mround_mono (mul_le_mul_of_nonneg_right (by linarith) (by norm_num))
  refine nf_never_backwards (decl_res_eq s) ?_ hm (abs_decl_e_le s t1) (abs_decl_e_le s t2)
  have := declC_le s
  norm_num; linarith

/-- "consecutive results are one tropical month apart within natural variation": consecutive counts
    give results `27.321582247 ± 2 (212 / 1000 + C)` days apart, which is positive (strictly increasing) -/
theorem decl_spacing (s : String) (m : ℤ) (h1 : |((m : ℝ) + 0) / 1336.86| ≤ 41)
    (h2 : |((m : ℝ) + 1 + 0) / 1336.86| ≤ 41) :
    27.321582247 - 2 * (212 / 1000 + declC s) ≤ decl_res s ((m : ℝ) + 1 + 0) - decl_res s ((m : ℝ) + 0) ∧
    decl_res s ((m : ℝ) + 1 + 0) - decl_res s ((m : ℝ) + 0) ≤ 27.321582247 + 2 * (212 / 1000 + declC s) ∧
    (0 : ℝ) < 27.321582247 - 2 * (212 / 1000 + declC s) := by
  have := nf_spacing (decl_res_eq s) m (abs_decl_e_le s h1) (abs_decl_e_le s h2)
  refine ⟨this.1, this.2, ?_⟩
  have := declC_le s
  norm_num; linarith

/-- "lie within 1.6 months of the query" — in terms of the fractional year: the result is within
    half a tropical month + 212 / 1000 + C days of the mean instant `declJ s + 27.321582247 ·
    ((year - 2000.03) · 13.3686)`; how far that instant is from the query's own JDE is calendar
    arithmetic that is not part of this model. -/
theorem decl_near_query_partial {s : String} (hs : s = "northern" ∨ s = "southern")
    {year r p : ℝ} (h1 : -2000 ≤ year) (h2 : year ≤ 4002) (e : moon_maximum_declination year s = .ok (r, p)) :
    |r - (declJ s + 27.321582247 * ((year - 2000.03) * 13.3686 + 0))| ≤
      27.321582247 / 2 + (212 / 1000 + declC s) := by
  rw [moon_maximum_declination_eq hs] at e
  cases e
  have t := decl_t_range h1 h2
  rw [decl_k_eq0] at t ⊢
  exact nf_near (decl_res_eq s) (by norm_num) (mround_sub_le _) (abs_decl_e_le s t)

/-! ## The finders from the query JDE

`moon_*_jde q target` is the whole function: calendar date of the instant, leap rule, day of year,
fractional year `y + doy/days`, count, series. A query is an instant `instant y m d f` of a valid civil
date `(y, m, d)` plus a day fraction `0 ≤ f < 1` (every instant from -4712 on is one: property C01/C02);
`((instant y m d f : ℚ) : ℝ)` is its JDE. -/

/-- "results never move backwards as the query advances" — in terms of the query JDE, PARTIAL: proved
    for two queries of the same calendar year, and for queries of different years that are at least
    1/365 day (3 min 57 s) apart. The clause is FALSE without that restriction
    (`nodes_never_backwards_counterexample`): the fractional year `y + doy/days` steps down by
    `1/365 - 1/366` year at the end of a common year that precedes a leap year. -/
theorem phase_never_backwards_jde_partial {s : String} (hs : s = "new" ∨ s = "first" ∨ s = "full" ∨ s = "last")
    (y1 m1 d1 y2 m2 d2 : Int) (f1 f2 : ℚ) (h1 : Valid y1 m1 d1) (h2 : Valid y2 m2 d2)
    (hf10 : 0 ≤ f1) (hf11 : f1 < 1) (hf20 : 0 ≤ f2) (hf21 : f2 < 1)
    (ha1 : -2000 ≤ y1) (hb1 : y1 ≤ 4000) (ha2 : -2000 ≤ y2) (hb2 : y2 ≤ 4000)
    (hle : instant y1 m1 d1 f1 ≤ instant y2 m2 d2 f2)
    (hgap : y1 = y2 ∨ 1 / 365 ≤ instant y2 m2 d2 f2 - instant y1 m1 d1 f1) {r1 r2 : ℝ}
    (e1 : moon_phase_jde (instant y1 m1 d1 f1) s = .ok r1) (e2 : moon_phase_jde (instant y2 m2 d2 f2) s = .ok r2) :
    r1 ≤ r2 := by
  rw [moon_phase_jde_eq hs y1 m1 d1 f1 h1 (by omega) hf10 hf11] at e1
  rw [moon_phase_jde_eq hs y2 m2 d2 f2 h2 (by omega) hf20 hf21] at e2
  have g1 := fyq_range y1 m1 d1 f1 h1 hf10 hf11
  have g2 := fyq_range y2 m2 d2 f2 h2 hf20 hf21
  have c1 : (-2000 : ℝ) ≤ (y1 : ℝ) := by exact_mod_cast ha1
  have c2 : (y2 : ℝ) ≤ 4000 := by exact_mod_cast hb2
  exact phase_never_backwards hs (by linarith [g1.1]) (by linarith [g2.2])
    (fyq_mono_real y1 m1 d1 y2 m2 d2 f1 f2 h1 h2 hf10 hf11 hf20 hf21 hle hgap)
    (by rw [moon_phase_eq hs]; exact e1) (by rw [moon_phase_eq hs]; exact e2)

/-- "lie within 1.6 months of the query" — the honest bound in days from the query JDE, for queries of
    the years -2000..4000: `result - query` lies between `-(P/2 + 0.272 + C) - 7.6 + P·offset` and
    `(P/2 + 0.272 + C) + 20.8 + P·offset`, `P = 29.530588861`, offset 0 / 0.25 / 0.5 / 0.75. The window
    `[-7.6, 20.8]` is the calendar step ("drift"): the mean phase selected by the unrounded count minus
    the query, `(J0 - P c y0) + P c (u + 1)/L + (P c - 365.25 | 365.2425) y - …`: +6.6 d at the origin
    (2000), +0.0066 d per Gregorian year (`P c = 365.2491`), and the 10 days of the 1582 reform.
    For "last" the upper bound is 58.9 d (> 1.6 synodic months = 47.25 d): the listed finding (up to
    57.3 d observed) is within it and the clause of the statement is not provable — it is false. -/
theorem phase_near_query_jde {s : String} (hs : s = "new" ∨ s = "first" ∨ s = "full" ∨ s = "last")
    (y m d : Int) (f : ℚ) (h : Valid y m d) (hf0 : 0 ≤ f) (hf1 : f < 1) (ha : -2000 ≤ y) (hb : y ≤ 4000) {r : ℝ}
    (e : moon_phase_jde (instant y m d f) s = .ok r) :
    -(29.530588861 / 2 + (272 / 1000 + phaseC s)) - 7.6 + 29.530588861 * phaseOff s ≤ r - ((instant y m d f : ℚ) : ℝ) ∧
    r - ((instant y m d f : ℚ) : ℝ) ≤ (29.530588861 / 2 + (272 / 1000 + phaseC s)) + 20.8 + 29.530588861 * phaseOff s := by
  rw [moon_phase_jde_eq hs y m d f h (by omega) hf0 hf1] at e
  have g := fyq_range y m d f h hf0 hf1
  have c1 : (-2000 : ℝ) ≤ (y : ℝ) := by exact_mod_cast ha
  have c2 : (y : ℝ) ≤ 4000 := by exact_mod_cast hb
  have near := phase_near_query_partial hs (year := ((fyq y m d f : ℚ) : ℝ)) (r := r) (by linarith [g.1]) (by linarith [g.2])
    (by rw [moon_phase_eq hs]; exact e)
  obtain ⟨eq, ef⟩ := instant_fyq_real y m d f
  obtain ⟨u0, uL⟩ := sinceJan1_real y m d f h hf0 hf1
  have dr := phase_drift ha hb u0 uL (divisor_real y) rfl
  rw [← ef, ← eq] at dr
  rw [mul_add] at near
  have n := abs_le.mp near
  constructor <;> linarith [n.1, n.2, dr.1, dr.2]

/-- "results never move backwards as the query advances" for `moon_perigee_apogee`, in terms of the query JDE —
    PARTIAL in the same way as `phase_never_backwards_jde_partial` (same calendar year, or at least
    1/365 day apart). -/
theorem apsis_never_backwards_jde_partial {s : String} (hs : s = "perigee" ∨ s = "apogee")
    (y1 m1 d1 y2 m2 d2 : Int) (f1 f2 : ℚ) (h1 : Valid y1 m1 d1) (h2 : Valid y2 m2 d2)
    (hf10 : 0 ≤ f1) (hf11 : f1 < 1) (hf20 : 0 ≤ f2) (hf21 : f2 < 1)
    (ha1 : -2000 ≤ y1) (hb1 : y1 ≤ 4000) (ha2 : -2000 ≤ y2) (hb2 : y2 ≤ 4000)
    (hle : instant y1 m1 d1 f1 ≤ instant y2 m2 d2 f2)
    (hgap : y1 = y2 ∨ 1 / 365 ≤ instant y2 m2 d2 f2 - instant y1 m1 d1 f1) {r1 r2 p1 p2 : ℝ}
    (e1 : moon_perigee_apogee_jde (instant y1 m1 d1 f1) s = .ok (r1, p1)) (e2 : moon_perigee_apogee_jde (instant y2 m2 d2 f2) s = .ok (r2, p2)) :
    r1 ≤ r2 := by
  rw [moon_perigee_apogee_jde_eq hs y1 m1 d1 f1 h1 (by omega) hf10 hf11] at e1
  rw [moon_perigee_apogee_jde_eq hs y2 m2 d2 f2 h2 (by omega) hf20 hf21] at e2
  have g1 := fyq_range y1 m1 d1 f1 h1 hf10 hf11
  have g2 := fyq_range y2 m2 d2 f2 h2 hf20 hf21
  have c1 : (-2000 : ℝ) ≤ (y1 : ℝ) := by exact_mod_cast ha1
  have c2 : (y2 : ℝ) ≤ 4000 := by exact_mod_cast hb2
  exact apsis_never_backwards hs (by linarith [g1.1]) (by linarith [g2.2])
    (fyq_mono_real y1 m1 d1 y2 m2 d2 f1 f2 h1 h2 hf10 hf11 hf20 hf21 hle hgap)
    (by rw [moon_perigee_apogee_eq hs]; exact e1) (by rw [moon_perigee_apogee_eq hs]; exact e2)

/-- "lie within 1.6 months of the query" for `moon_perigee_apogee` — the honest bound in days from the query
    JDE, queries of the years -2000..4000: `result - query` lies in
    `[-(P/2 + 1216 / 1000 + C) + (-12.1), (P/2 + 1216 / 1000 + C) + 16.8]` + P·offset, `P = 27.55454989`; `[-12.1, 16.8]` is the
    calendar step between the mean instant selected by the fractional year and the query. At most 45.4 d for "apogee", 33.8 d before the query for "perigee". -/
theorem apsis_near_query_jde {s : String} (hs : s = "perigee" ∨ s = "apogee")
    (y m d : Int) (f : ℚ) (h : Valid y m d) (hf0 : 0 ≤ f) (hf1 : f < 1) (ha : -2000 ≤ y) (hb : y ≤ 4000) {r p : ℝ}
    (e : moon_perigee_apogee_jde (instant y m d f) s = .ok (r, p)) :
    -(27.55454989 / 2 + (1216 / 1000 + apsisC s)) + (-12.1) + 27.55454989 * apsisOff s ≤ r - ((instant y m d f : ℚ) : ℝ) ∧
    r - ((instant y m d f : ℚ) : ℝ) ≤ (27.55454989 / 2 + (1216 / 1000 + apsisC s)) + 16.8 + 27.55454989 * apsisOff s := by
  rw [moon_perigee_apogee_jde_eq hs y m d f h (by omega) hf0 hf1] at e
  have g := fyq_range y m d f h hf0 hf1
  have c1 : (-2000 : ℝ) ≤ (y : ℝ) := by exact_mod_cast ha
  have c2 : (y : ℝ) ≤ 4000 := by exact_mod_cast hb
  have near := apsis_near_query_partial hs (year := ((fyq y m d f : ℚ) : ℝ)) (r := r) (by linarith [g.1]) (by linarith [g.2])
    (by rw [moon_perigee_apogee_eq hs]; exact e)
  obtain ⟨eq, ef⟩ := instant_fyq_real y m d f
  obtain ⟨u0, uL⟩ := sinceJan1_real y m d f h hf0 hf1
  have dr := apsis_drift ha hb u0 uL (divisor_real y) rfl
  rw [← ef, ← eq] at dr
  rw [mul_add] at near
  have n := abs_le.mp near
  constructor <;> linarith [n.1, n.2, dr.1, dr.2]

/-- "results never move backwards as the query advances" for `moon_passage_nodes`, in terms of the query JDE —
    PARTIAL in the same way as `phase_never_backwards_jde_partial` (same calendar year, or at least
    1/365 day apart). -/
theorem nodes_never_backwards_jde_partial {s : String} (hs : s = "ascending" ∨ s = "descending")
    (y1 m1 d1 y2 m2 d2 : Int) (f1 f2 : ℚ) (h1 : Valid y1 m1 d1) (h2 : Valid y2 m2 d2)
    (hf10 : 0 ≤ f1) (hf11 : f1 < 1) (hf20 : 0 ≤ f2) (hf21 : f2 < 1)
    (ha1 : -2000 ≤ y1) (hb1 : y1 ≤ 4000) (ha2 : -2000 ≤ y2) (hb2 : y2 ≤ 4000)
    (hle : instant y1 m1 d1 f1 ≤ instant y2 m2 d2 f2)
    (hgap : y1 = y2 ∨ 1 / 365 ≤ instant y2 m2 d2 f2 - instant y1 m1 d1 f1) {r1 r2 : ℝ}
    (e1 : moon_passage_nodes_jde (instant y1 m1 d1 f1) s = .ok r1) (e2 : moon_passage_nodes_jde (instant y2 m2 d2 f2) s = .ok r2) :
    r1 ≤ r2 := by
  rw [moon_passage_nodes_jde_eq hs y1 m1 d1 f1 h1 (by omega) hf10 hf11] at e1
  rw [moon_passage_nodes_jde_eq hs y2 m2 d2 f2 h2 (by omega) hf20 hf21] at e2
  have g1 := fyq_range y1 m1 d1 f1 h1 hf10 hf11
  have g2 := fyq_range y2 m2 d2 f2 h2 hf20 hf21
  have c1 : (-2000 : ℝ) ≤ (y1 : ℝ) := by exact_mod_cast ha1
  have c2 : (y2 : ℝ) ≤ 4000 := by exact_mod_cast hb2
  exact nodes_never_backwards hs (by linarith [g1.1]) (by linarith [g2.2])
    (fyq_mono_real y1 m1 d1 y2 m2 d2 f1 f2 h1 h2 hf10 hf11 hf20 hf21 hle hgap)
    (by rw [moon_passage_nodes_eq hs]; exact e1) (by rw [moon_passage_nodes_eq hs]; exact e2)

/-- "lie within 1.6 months of the query" for `moon_passage_nodes` — the honest bound in days from the query
    JDE, queries of the years -2000..4000: `result - query` lies in
    `[-(P/2 + 467 / 1000 + C) + (-13.5), (P/2 + 467 / 1000 + C) + 20.6]` + P·offset, `P = 27.212220817`; `[-13.5, 20.6]` is the
    calendar step between the mean instant selected by the fractional year and the query. For "descending" the upper bound is 49.1 d (> 47.25 d): the listed finding (47.5 d observed near year 4000) is within it. -/
theorem nodes_near_query_jde {s : String} (hs : s = "ascending" ∨ s = "descending")
    (y m d : Int) (f : ℚ) (h : Valid y m d) (hf0 : 0 ≤ f) (hf1 : f < 1) (ha : -2000 ≤ y) (hb : y ≤ 4000) {r : ℝ}
    (e : moon_passage_nodes_jde (instant y m d f) s = .ok r) :
    -(27.212220817 / 2 + (467 / 1000 + 775 / 1000)) + (-13.5) + 27.212220817 * nodesOff s ≤ r - ((instant y m d f : ℚ) : ℝ) ∧
    r - ((instant y m d f : ℚ) : ℝ) ≤ (27.212220817 / 2 + (467 / 1000 + 775 / 1000)) + 20.6 + 27.212220817 * nodesOff s := by
  rw [moon_passage_nodes_jde_eq hs y m d f h (by omega) hf0 hf1] at e
  have g := fyq_range y m d f h hf0 hf1
  have c1 : (-2000 : ℝ) ≤ (y : ℝ) := by exact_mod_cast ha
  have c2 : (y : ℝ) ≤ 4000 := by exact_mod_cast hb
  have near := nodes_near_query_partial hs (year := ((fyq y m d f : ℚ) : ℝ)) (r := r) (by linarith [g.1]) (by linarith [g.2])
    (by rw [moon_passage_nodes_eq hs]; exact e)
  obtain ⟨eq, ef⟩ := instant_fyq_real y m d f
  obtain ⟨u0, uL⟩ := sinceJan1_real y m d f h hf0 hf1
  have dr := nodes_drift ha hb u0 uL (divisor_real y) rfl
  rw [← ef, ← eq] at dr
  rw [mul_add] at near
  have n := abs_le.mp near
  constructor <;> linarith [n.1, n.2, dr.1, dr.2]

/-- "results never move backwards as the query advances" for `moon_maximum_declination`, in terms of the query JDE —
    PARTIAL in the same way as `phase_never_backwards_jde_partial` (same calendar year, or at least
    1/365 day apart). -/
theorem decl_never_backwards_jde_partial {s : String} (hs : s = "northern" ∨ s = "southern")
    (y1 m1 d1 y2 m2 d2 : Int) (f1 f2 : ℚ) (h1 : Valid y1 m1 d1) (h2 : Valid y2 m2 d2)
    (hf10 : 0 ≤ f1) (hf11 : f1 < 1) (hf20 : 0 ≤ f2) (hf21 : f2 < 1)
    (ha1 : -2000 ≤ y1) (hb1 : y1 ≤ 4000) (ha2 : -2000 ≤ y2) (hb2 : y2 ≤ 4000)
    (hle : instant y1 m1 d1 f1 ≤ instant y2 m2 d2 f2)
    (hgap : y1 = y2 ∨ 1 / 365 ≤ instant y2 m2 d2 f2 - instant y1 m1 d1 f1) {r1 r2 p1 p2 : ℝ}
    (e1 : moon_maximum_declination_jde (instant y1 m1 d1 f1) s = .ok (r1, p1)) (e2 : moon_maximum_declination_jde (instant y2 m2 d2 f2) s = .ok (r2, p2)) :
    r1 ≤ r2 := by
  rw [moon_maximum_declination_jde_eq hs y1 m1 d1 f1 h1 (by omega) hf10 hf11] at e1
  rw [moon_maximum_declination_jde_eq hs y2 m2 d2 f2 h2 (by omega) hf20 hf21] at e2
  have g1 := fyq_range y1 m1 d1 f1 h1 hf10 hf11
  have g2 := fyq_range y2 m2 d2 f2 h2 hf20 hf21
  have c1 : (-2000 : ℝ) ≤ (y1 : ℝ) := by exact_mod_cast ha1
  have c2 : (y2 : ℝ) ≤ 4000 := by exact_mod_cast hb2
  exact decl_never_backwards hs (by linarith [g1.1]) (by linarith [g2.2])
    (fyq_mono_real y1 m1 d1 y2 m2 d2 f1 f2 h1 h2 hf10 hf11 hf20 hf21 hle hgap)
    (by rw [moon_maximum_declination_eq hs]; exact e1) (by rw [moon_maximum_declination_eq hs]; exact e2)

/-- "lie within 1.6 months of the query" for `moon_maximum_declination`, target "northern" — the honest
    bound in days from the query JDE, queries of the years -2000..4000: `result - query` lies in
    `[-(P/2 + 0.212 + C) + (-11.6), (P/2 + 0.212 + C) + 26.8]`, `P = 27.321582247`, `C = 1875 / 1000`; `[-11.6, 26.8]` is
    the calendar step between the mean instant selected by the fractional year and the query. -/
theorem decl_near_query_jde_northern
    (y m d : Int) (f : ℚ) (h : Valid y m d) (hf0 : 0 ≤ f) (hf1 : f < 1) (ha : -2000 ≤ y) (hb : y ≤ 4000) {r p : ℝ}
    (e : moon_maximum_declination_jde (instant y m d f) "northern" = .ok (r, p)) :
    -(27.321582247 / 2 + (212 / 1000 + 1875 / 1000)) + (-11.6) ≤ r - ((instant y m d f : ℚ) : ℝ) ∧
    r - ((instant y m d f : ℚ) : ℝ) ≤ (27.321582247 / 2 + (212 / 1000 + 1875 / 1000)) + 26.8 := by
  have hs : "northern" = "northern" ∨ "northern" = "southern" := Or.inl rfl
  rw [moon_maximum_declination_jde_eq hs y m d f h (by omega) hf0 hf1] at e
  have g := fyq_range y m d f h hf0 hf1
  have c1 : (-2000 : ℝ) ≤ (y : ℝ) := by exact_mod_cast ha
  have c2 : (y : ℝ) ≤ 4000 := by exact_mod_cast hb
  have near := decl_near_query_partial hs (year := ((fyq y m d f : ℚ) : ℝ)) (r := r) (p := p) (by linarith [g.1]) (by linarith [g.2])
    (by rw [moon_maximum_declination_eq hs]; exact e)
  have eJ : declJ "northern" = 2451562.5897 := by unfold declJ; simp
  have eC : declC "northern" = 1875 / 1000 := by unfold declC; simp
  rw [eJ, eC, add_zero] at near
  obtain ⟨eq, ef⟩ := instant_fyq_real y m d f
  obtain ⟨u0, uL⟩ := sinceJan1_real y m d f h hf0 hf1
  have dr := declN_drift ha hb u0 uL (divisor_real y) rfl
  rw [← ef, ← eq] at dr
  have n := abs_le.mp near
  constructor <;> linarith [n.1, n.2, dr.1, dr.2]

/-- "lie within 1.6 months of the query" for `moon_maximum_declination`, target "southern" — the honest
    bound in days from the query JDE, queries of the years -2000..4000: `result - query` lies in
    `[-(P/2 + 0.212 + C) + (-25.3), (P/2 + 0.212 + C) + 13.1]`, `P = 27.321582247`, `C = 1867 / 1000`; `[-25.3, 13.1]` is
    the calendar step between the mean instant selected by the fractional year and the query. -/
theorem decl_near_query_jde_southern
    (y m d : Int) (f : ℚ) (h : Valid y m d) (hf0 : 0 ≤ f) (hf1 : f < 1) (ha : -2000 ≤ y) (hb : y ≤ 4000) {r p : ℝ}
    (e : moon_maximum_declination_jde (instant y m d f) "southern" = .ok (r, p)) :
    -(27.321582247 / 2 + (212 / 1000 + 1867 / 1000)) + (-25.3) ≤ r - ((instant y m d f : ℚ) : ℝ) ∧
    r - ((instant y m d f : ℚ) : ℝ) ≤ (27.321582247 / 2 + (212 / 1000 + 1867 / 1000)) + 13.1 := by
  have hs : "southern" = "northern" ∨ "southern" = "southern" := Or.inr rfl
  rw [moon_maximum_declination_jde_eq hs y m d f h (by omega) hf0 hf1] at e
  have g := fyq_range y m d f h hf0 hf1
  have c1 : (-2000 : ℝ) ≤ (y : ℝ) := by exact_mod_cast ha
  have c2 : (y : ℝ) ≤ 4000 := by exact_mod_cast hb
  have near := decl_near_query_partial hs (year := ((fyq y m d f : ℚ) : ℝ)) (r := r) (p := p) (by linarith [g.1]) (by linarith [g.2])
    (by rw [moon_maximum_declination_eq hs]; exact e)
  have eJ : declJ "southern" = 2451548.9289 := by unfold declJ; simp
  have eC : declC "southern" = 1867 / 1000 := by unfold declC; simp
  rw [eJ, eC, add_zero] at near
  obtain ⟨eq, ef⟩ := instant_fyq_real y m d f
  obtain ⟨u0, uL⟩ := sinceJan1_real y m d f h hf0 hf1
  have dr := declS_drift ha hb u0 uL (divisor_real y) rfl
  rw [← ef, ← eq] at dr
  have n := abs_le.mp near
  constructor <;> linarith [n.1, n.2, dr.1, dr.2]

/-- the count in terms of the query JDE — PARTIAL like `*_never_backwards_jde_partial`: monotone for
    queries of one calendar year or at least 1/365 day apart (all four finders; `k` as a function of the
    fractional year `fyq` of the instant). -/
theorem k_monotone_jde_partial (s : String) (y1 m1 d1 y2 m2 d2 : Int) (f1 f2 : ℚ) (h1 : Valid y1 m1 d1) (h2 : Valid y2 m2 d2)
    (hf10 : 0 ≤ f1) (hf11 : f1 < 1) (hf20 : 0 ≤ f2) (hf21 : f2 < 1)
    (hle : instant y1 m1 d1 f1 ≤ instant y2 m2 d2 f2)
    (hgap : y1 = y2 ∨ 1 / 365 ≤ instant y2 m2 d2 f2 - instant y1 m1 d1 f1) :
    phase_k ((fyq y1 m1 d1 f1 : ℚ) : ℝ) s ≤ phase_k ((fyq y2 m2 d2 f2 : ℚ) : ℝ) s ∧
    apsis_k ((fyq y1 m1 d1 f1 : ℚ) : ℝ) s ≤ apsis_k ((fyq y2 m2 d2 f2 : ℚ) : ℝ) s ∧
    nodes_k ((fyq y1 m1 d1 f1 : ℚ) : ℝ) s ≤ nodes_k ((fyq y2 m2 d2 f2 : ℚ) : ℝ) s ∧
    decl_k ((fyq y1 m1 d1 f1 : ℚ) : ℝ) ≤ decl_k ((fyq y2 m2 d2 f2 : ℚ) : ℝ) := by
  have hm := fyq_mono_real y1 m1 d1 y2 m2 d2 f1 f2 h1 h2 hf10 hf11 hf20 hf21 hle hgap
  exact ⟨phase_k_monotone s hm, apsis_k_monotone s hm, nodes_k_monotone s hm, decl_k_monotone hm⟩

/-- "results never move backwards as the query advances" is FALSE for the current code: the query
    1727-12-31 23:58:33.6 (day fraction 0.999) gets the ascending-node passage of count -3651, the later
    query 1728-01-01 00:00 the passage of count -3652, at least 24.7 days EARLIER. The fractional year
    `y + doy/days` is 1728.0027370 at the first instant and 1728.0027322 at the second (`1/365 > 1/366`),
    and `(year - 2000.05) · 13.4223` crosses -3651.5 in between. -/
theorem nodes_never_backwards_counterexample :
    ∃ r1 r2 : ℝ, instant 1727 12 31 (999 / 1000) < instant 1728 1 1 0 ∧
      moon_passage_nodes_jde (instant 1727 12 31 (999 / 1000)) "ascending" = .ok r1 ∧
      moon_passage_nodes_jde (instant 1728 1 1 0) "ascending" = .ok r2 ∧ r2 + 24 < r1 := by
  have v1 : Valid 1727 12 31 := by decide
  have v2 : Valid 1728 1 1 := by decide
  have hs : "ascending" = "ascending" ∨ "ascending" = "descending" := Or.inl rfl
  have j1 : jdnI 1727 12 31 = 2352198 := by decide
  have j0 : jdnI 1727 1 1 = 2351834 := by decide
  have j2 : jdnI 1728 1 1 = 2352199 := by decide
  have l1 : Spec.leap 1727 = false := by decide
  have l2 : Spec.leap 1728 = true := by decide
  have q1 : fyq 1727 12 31 (999 / 1000) = 630720999 / 365000 := by
    unfold fyq sinceJan1 divisor; rw [j1, j0, l1]; norm_num
  have q2 : fyq 1728 1 1 0 = 632449 / 366 := by
    unfold fyq sinceJan1 divisor; rw [l2]; norm_num
  have off : nodesOff "ascending" = 0 := by unfold nodesOff; simp
  have k1 : nodes_k ((fyq 1727 12 31 (999 / 1000) : ℚ) : ℝ) "ascending" = ((-3652 : ℤ) : ℝ) + 1 + 0 := by
    rw [nodes_k_eq, off, q1]
    have : mround ((((630720999 / 365000 : ℚ) : ℝ) - 2000.05) * 13.4223) = -3651 :=
      mround_eq_of_abs_lt (by rw [abs_lt]; constructor <;> norm_num)
    rw [this]; norm_num
  have k2 : nodes_k ((fyq 1728 1 1 0 : ℚ) : ℝ) "ascending" = ((-3652 : ℤ) : ℝ) + 0 := by
    rw [nodes_k_eq, off, q2]
    have : mround ((((632449 / 366 : ℚ) : ℝ) - 2000.05) * 13.4223) = -3652 :=
      mround_eq_of_abs_lt (by rw [abs_lt]; constructor <;> norm_num)
    rw [this]
  refine ⟨_, _, ?_, moon_passage_nodes_jde_eq hs 1727 12 31 (999 / 1000) v1 (by norm_num) (by norm_num) (by norm_num),
    moon_passage_nodes_jde_eq hs 1728 1 1 0 v2 (by norm_num) (by norm_num) (by norm_num), ?_⟩
  · unfold instant; rw [j1, j2]; norm_num
  · rw [k1, k2]
    have t1 : |(((-3652 : ℤ) : ℝ) + 0) / 1342.23| ≤ 41 := by rw [abs_le]; constructor <;> norm_num
    have t2 : |(((-3652 : ℤ) : ℝ) + 1 + 0) / 1342.23| ≤ 41 := by rw [abs_le]; constructor <;> norm_num
    have sp := nf_spacing nodes_res_eq (-3652) (abs_nodes_e_le t1) (abs_nodes_e_le t2)
    norm_num at sp ⊢
    linarith [sp.1]

/-! ## the hypotheses are satisfiable by concrete, non-trivial inputs -/

/-- J2000 and the ends of the property's range (-2000-01-01, 4002-01-01) are within 60 centuries -/
example : |cent 2451545.0| ≤ 60 ∧ |cent 990557.5| ≤ 60 ∧ |cent 3182395.5| ≤ 60 := by
  unfold cent
  refine ⟨?_, ?_, ?_⟩ <;> rw [abs_le] <;> constructor <;> norm_num
/-- Meeus' example 49.a (mid-February 1977) is a query of the range, "new" is a valid target -/
example : ∃ r, moon_phase 1977.13 "new" = .ok r := (phase_targets 1977.13 "new").1 (Or.inl rfl)
example : moon_phase 1977.13 "New" = .error .valueError := (phase_targets 1977.13 "New").2 (by decide)
example : moon_perigee_apogee 1988.75 "fullmoon" = .error .valueError := (apsis_targets 1988.75 "fullmoon").2 (by decide)
/-- the count hypotheses of the spacing theorems hold e.g. for lunation 0 -> 1 -/
example : |(((0 : ℤ) : ℝ) + phaseOff "full") / 1236.85| ≤ 41 ∧ |(((0 : ℤ) : ℝ) + 1 + phaseOff "full") / 1236.85| ≤ 41 := by
  have : phaseOff "full" = 0.5 := by unfold phaseOff; simp
  rw [this]
  constructor <;> rw [abs_le] <;> constructor <;> norm_num
/-- two queries a week apart in fractional years satisfy the "none skipped" hypothesis -/
example : ((2024.52 : ℝ) - 2024.50) * 12.3685 < 1 := by norm_num

end Pymeeus.C15
