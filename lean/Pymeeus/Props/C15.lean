import Pymeeus.Refine.MoonFinders
import Pymeeus.Refine.MoonPosition
/-
Property C15 — "Moon position is physical; lunar event finders agree with it".

Theorems about the real-number model `Pymeeus.GenR.MoonM` (lean/templates/Moon.lean) whose tables
and periodic-term lists `Pymeeus.MoonData.*` are regenerated from pymeeus/Moon.py on every run.
The finders take their count from the query itself (`k = round((jde - J0) / P)`), so they are functions
of the query JDE and "the query advances" is an increase of that JDE.

What is NOT proved here (checked on the implementation only, harness/c15.py): the distance window
356000–407000 km and |latitude| ≤ 5.35° (only the triangle-inequality windows below), the
longitude rate, fraction vs geometry, the secular rates, that the found instants are events of
the position theory.
-/
noncomputable section
namespace Pymeeus.C15
open Pymeeus Pymeeus.PR Pymeeus.GenR.MoonM

/-! ## Position -/

/-- "parallax equals asin(6378.14 km / distance)": for every epoch within 60 centuries of J2000 the
    function returns (no exception), the argument of `asin` lies strictly between 0 and 1, and the
    returned parallax (degrees) is `degrees(asin(6378.14 / Δ))` with `Δ` the returned distance —
    the `Angle` reduction does not alter it. Uses the amplitude sum of the generated table 47.A. -/
theorem parallax_eq_asin (jde : ℝ) (h : |cent jde| ≤ 60) :
    ∃ lam beta delta : ℝ,
      geocentric_ecliptical_pos jde = .ok (lam, beta, delta, pdegrees (Real.arcsin (6378.14 / delta))) ∧
      delta = 385000.56 + pos_sigmar (cent jde) / 1000.0 ∧ 0 < 6378.14 / delta ∧ 6378.14 / delta < 1 := by
  obtain ⟨hok, hx0, hx1⟩ := geocentric_ecliptical_pos_ok jde h
  exact ⟨_, _, _, hok, rfl, hx0, hx1⟩

/-- "the Moon's distance lies in 356000–407000 km" — PARTIAL: only the triangle-inequality window
    355100–414900 km that follows from the amplitude sum of the generated table 47.A is proved;
    the tighter window of the statement needs cancellation between the terms and is left to the
    predicates evaluated on the implementation. -/
theorem distance_window_partial (jde : ℝ) (h : |cent jde| ≤ 60) :
    355100 ≤ pos_delta (cent jde) ∧ pos_delta (cent jde) ≤ 414900 := pos_delta_window h

/-- "|latitude| is at most 5.35 degrees" — PARTIAL: only `|β| ≤ 6.1°` (amplitude sum of the
    generated table 47.B plus the additive terms) is proved, and the `Angle` reduction is the
    identity on that range. -/
theorem latitude_window_partial (jde : ℝ) (h : |cent jde| ≤ 60) :
    ∃ lam beta delta ppi : ℝ, geocentric_ecliptical_pos jde = .ok (lam, beta, delta, ppi) ∧
      beta = pos_sigmab (cent jde) / 1000000.0 ∧ |beta| ≤ 6.1 := by
  obtain ⟨hok, -, -⟩ := geocentric_ecliptical_pos_ok jde h
  have hlt := abs_pos_beta_le jde h
  have hlt' : |pos_sigmab (cent jde) / 1000000.0| < 360 := lt_of_le_of_lt hlt (by norm_num)
  rw [reduce_deg_of_lt hlt'] at hok
  exact ⟨_, _, _, _, hok, rfl, hlt⟩

/-- "the illuminated fraction lies in [0, 1]" (it is `(1 + cos i) / 2`), for every epoch. -/
theorem fraction_range (jde : ℝ) :
    illuminated_fraction_disk jde = (1 + Real.cos (pradians (illum_i jde))) / 2 ∧
    0 ≤ illuminated_fraction_disk jde ∧ illuminated_fraction_disk jde ≤ 1 := by
  have h1 := Real.neg_one_le_cos (pradians (illum_i jde))
  have h2 := Real.cos_le_one (pradians (illum_i jde))
  have e : illuminated_fraction_disk jde = (1 + Real.cos (pradians (illum_i jde))) / 2 := by
    unfold illuminated_fraction_disk pcos; norm_num
  rw [e]
  refine ⟨rfl, ?_, ?_⟩ <;> linarith

/-- "node … longitudes move at their secular rates" — PARTIAL: the mean node is the `Angle`
    reduction of a polynomial whose advance between any two epochs within 60 centuries of J2000
    is `-1934.1362891°` per century up to `0.29°` per century (a period of 18.6 years); that the
    `Angle` reduction only removes multiples of 360° is property C03 and is not re-proved here;
    the true node differs from the mean node by the five generated periodic terms. -/
theorem node_secular_rate_partial (j j' : ℝ) (h : |cent j| ≤ 60) (h' : |cent j'| ≤ 60) :
    longitude_mean_ascending_node j = to_positive (reduce_deg (node_poly (cent j))) ∧
    |node_poly (cent j') - node_poly (cent j) - (-1934.1362891) * (cent j' - cent j)| ≤
      |cent j' - cent j| * (29 / 100) :=
  ⟨rfl, node_poly_rate h h'⟩

/-- "… perigee longitudes move at their secular rates" — PARTIAL: the mean perigee is the `Angle`
    reduction of a polynomial whose advance is `+4069.0137287°` per century up to `1.42°` per
    century (a period of 8.85 years); same residual as for the node. -/
theorem perigee_secular_rate_partial (j j' : ℝ) (h : |cent j| ≤ 60) (h' : |cent j'| ≤ 60) :
    longitude_mean_perigee j = reduce_deg (perigee_poly (cent j)) ∧
    |perigee_poly (cent j') - perigee_poly (cent j) - 4069.0137287 * (cent j' - cent j)| ≤
      |cent j' - cent j| * (142 / 100) :=
  ⟨rfl, perigee_poly_rate h h'⟩

/-! ## Apparent position and bright limb: what nutation / obliquity can and cannot change -/

/-- the apparent ecliptical position differs from the geometric one only in longitude (`Angle` sum with
    Δψ): latitude, distance and parallax are returned unchanged, whatever Δψ is -/
theorem apparent_keeps_latitude_distance_parallax (jde dpsi : ℝ) (h : |cent jde| ≤ 60) :
    ∃ lam beta delta ppi : ℝ, geocentric_ecliptical_pos jde = .ok (lam, beta, delta, ppi) ∧
      apparent_ecliptical_pos jde dpsi = .ok (reduce_deg (lam + dpsi), beta, delta, ppi) := by
  obtain ⟨hok, -, -⟩ := geocentric_ecliptical_pos_ok jde h
  refine ⟨_, _, _, _, hok, ?_⟩
  unfold apparent_ecliptical_pos
  rw [hok]

/-- the apparent equatorial position is returned for every epoch within 60 centuries and ANY Δψ, ε (no
    exception), with right ascension in [0, 360), declination in [-90, 90], and the distance and parallax of
    the geometric position -/
theorem apparent_equatorial_ranges (jde dpsi eps : ℝ) (h : |cent jde| ≤ 60) :
    ∃ ra dec : ℝ, apparent_equatorial_pos jde dpsi eps =
        .ok (ra, dec, pos_delta (cent jde), pdegrees (Real.arcsin (6378.14 / pos_delta (cent jde)))) ∧
      0 ≤ ra ∧ ra < 360 ∧ -90 ≤ dec ∧ dec ≤ 90 := by
  obtain ⟨hok, -, -⟩ := geocentric_ecliptical_pos_ok jde h
  obtain ⟨ra, dec, he, hr⟩ := ecliptical2equatorial_range
    (reduce_deg (reduce_deg (red_pos (arg_Lprime (cent jde)) + (pos_sigmal (cent jde) / 1000000.0)) + dpsi))
    (reduce_deg (pos_sigmab (cent jde) / 1000000.0)) eps
  refine ⟨ra, dec, ?_, hr⟩
  unfold apparent_equatorial_pos apparent_ecliptical_pos
  rw [hok]
  simp only [he]

/-- the position angle of the bright limb is in [0, 360) for all coordinates of Sun and Moon -/
theorem bright_limb_range (a0 d0 a d : ℝ) :
    0 ≤ position_bright_limb a0 d0 a d ∧ position_bright_limb a0 d0 a d < 360 :=
  position_bright_limb_range a0 d0 a d

/-! ## Internal consistency of the fundamental arguments (Meeus 47.1-47.7)

The position theory uses five polynomials (L', D, M, M', F); `longitude_mean_ascending_node` and
`longitude_mean_perigee` are two more. By definition F = L' - Ω and M' = L' - ϖ: the library's own
formulas must agree with each other. A slip in one coefficient (a flipped sign, a lost term) of
any of L', F, M', Ω, ϖ falsifies these statements. -/

/-- the argument of latitude is the mean longitude minus the node longitude: `F - (L' - Ω)` is EXACTLY
    the polynomial below (a constant 0.0002° and rounding-size coefficients), hence at most 0.0095° for
    every epoch within 60 centuries of J2000 -/
theorem latitude_argument_identity (t : ℝ) :
    arg_F t - (arg_Lprime t - node_poly t) =
      61 / 312500 - t / 100000000 + t ^ 2 / 10000000 - 36703544881 / 905215681650406000 * t ^ 3
        - 108419 / 852907007449560000 * t ^ 4 ∧
    (|t| ≤ 60 → |arg_F t - (arg_Lprime t - node_poly t)| ≤ 95 / 10000) := by
  have e : arg_F t - (arg_Lprime t - node_poly t) =
      61 / 312500 - t / 100000000 + t ^ 2 / 10000000 - 36703544881 / 905215681650406000 * t ^ 3
        - 108419 / 852907007449560000 * t ^ 4 := by
    rw [arg_F_eq, arg_Lprime_eq, node_poly_eq]; ring
  refine ⟨e, fun ht => ?_⟩
  rw [e]
  obtain ⟨h2, h3, h4, p2, p4⟩ := pow_bounds_60 ht
  have a := abs_le.mp ht
  have b := abs_le.mp h3
  rw [abs_le]; constructor <;> linarith [a.1, a.2, b.1, b.2]

/-- the Moon's mean anomaly is the mean longitude minus the perigee longitude — PARTIAL: `M' - (L' - ϖ)` is
    EXACTLY the polynomial below; constant, linear, quadratic and cubic parts agree to rounding, but the
    quartic terms do NOT cancel: the source has `+ t/14712000` in M' while `L' - ϖ` has
    `-1/65194000 - 1/18999000 = -1/14712000`, so M' departs from L' - ϖ by `2 T⁴/14712000` (0.35° at
    T = -40 centuries). After removing that doubled term the residual is at most 0.0003° on |T| ≤ 60.
    The full identity `|M' - (L' - ϖ)| ≤ 0.0003` is therefore FALSE of the current code (suspected sign
    slip of the source: Meeus (47.4) has `- T⁴/14712000`); the code is modelled as it is. -/
theorem anomaly_argument_identity_partial (t : ℝ) :
    arg_Mprime t - (arg_Lprime t - perigee_poly t) =
      61 / 312500 - t / 100000000 - 10113376 / 30065636349542427 * t ^ 3
        + 412878037 / 3037098216312000 * t ^ 4 ∧
    (|t| ≤ 60 → |arg_Mprime t - (arg_Lprime t - perigee_poly t) - 2 * t ^ 4 / 14712000| ≤ 3 / 10000) := by
  have e : arg_Mprime t - (arg_Lprime t - perigee_poly t) =
      61 / 312500 - t / 100000000 - 10113376 / 30065636349542427 * t ^ 3
        + 412878037 / 3037098216312000 * t ^ 4 := by
    rw [arg_Mprime_eq, arg_Lprime_eq, perigee_poly_eq]; ring
  refine ⟨e, fun ht => ?_⟩
  rw [e]
  obtain ⟨h2, h3, h4, p2, p4⟩ := pow_bounds_60 ht
  have a := abs_le.mp ht
  have b := abs_le.mp h3
  rw [abs_le]; constructor <;> linarith [a.1, a.2, b.1, b.2]

/-- the departure is real: at T = -40 centuries (year -2000) M' and L' - ϖ differ by more than 0.34° -/
theorem anomaly_argument_identity_counterexample :
    34 / 100 < |arg_Mprime (-40) - (arg_Lprime (-40) - perigee_poly (-40))| := by
  rw [(anomaly_argument_identity_partial (-40)).1]
  rw [lt_abs]; left; norm_num

/-- "node … longitudes": the true node is the `Angle` sum of the mean node and a correction of at most
    1.9682° (sum of the five generated amplitudes), for every epoch within 60 centuries -/
theorem true_node_near_mean (jde : ℝ) (h : |cent jde| ≤ 60) :
    ∃ corr : ℝ, |corr| ≤ 19682 / 10000 ∧
      longitude_true_ascending_node jde = reduce_deg (longitude_mean_ascending_node jde + corr) := by
  have hb : ∀ env : List ℝ, |evalTerms 1.0 (cent jde) env MoonData.truenode_corr| ≤ 19682 / 10000 := fun env =>
    (abs_evalTerms_le (by norm_num : |(1.0 : ℝ)| ≤ 1) h env _).trans tsum_truenode
  refine ⟨evalTerms 1.0 (cent jde) [pradians (red_pos (arg_D (cent jde))), pradians (red_pos (arg_M (cent jde))),
    pradians (red_pos (arg_Mprime (cent jde))), pradians (red_pos (arg_F (cent jde)))] MoonData.truenode_corr, hb _, ?_⟩
  unfold longitude_true_ascending_node
  simp only
  rw [reduce_deg_of_lt (lt_of_le_of_lt (hb _) (by norm_num))]

/-! ## Structure of the generated tables (decided by the kernel on the regenerated data) -/

/-- tables 47.A and 47.B have 60 rows each, and no row has |M| > 2: the eccentricity factor (E for
    |M| = 1, E² for |M| = 2, none for M = 0) is applied to every row that needs one -/
theorem tables_shape :
    MoonData.tableLR.length = 60 ∧ MoonData.tableB.length = 60 ∧
    (MoonData.tableLR.all fun r => decide (r.m.natAbs ≤ 2)) = true ∧
    (MoonData.tableB.all fun r => decide (r.m.natAbs ≤ 2)) = true := by
  refine ⟨by decide, by decide, by decide, by decide⟩

/-- New Moon and Full Moon corrections of `moon_phase` have the same 25 terms in the same order — same
    argument, same sin, same power of the eccentricity factor E — and amplitudes within 0.01 d of each other
    (Meeus gives one column of arguments for both) -/
theorem phase_new_full_same_terms :
    MoonData.phase_corr_new.map termShape = MoonData.phase_corr_full.map termShape ∧
    ((MoonData.phase_corr_new.zip MoonData.phase_corr_full).all fun p => decClose 2 p.1.c0 p.2.c0) = true ∧
    MoonData.phase_corr_new.length = 25 := by
  refine ⟨by decide, by decide, by decide⟩

/-- the corrections for the northern and the southern extreme declination (time and value) have the same
    terms in the same order: same argument, same sin/cos, same power of E -/
theorem decl_north_south_same_terms :
    MoonData.decl_corr_north.map termShape = MoonData.decl_corr_south.map termShape ∧
    MoonData.decl_cor2_north.map termShape = MoonData.decl_cor2_south.map termShape := by
  refine ⟨by decide, by decide⟩

/-! ## moon_phase — targets "new", "first", "full", "last" -/

/-- "every target string": the names "new", "first", "full", "last" are accepted (a result is
    returned for every query), any other string raises `ValueError`. -/
theorem phase_targets (jde : ℝ) (s : String) :
    ((s = "new" ∨ s = "first" ∨ s = "full" ∨ s = "last") → ∃ r, moon_phase jde s = .ok r) ∧
    (¬ (s = "new" ∨ s = "first" ∨ s = "full" ∨ s = "last") → moon_phase jde s = .error .valueError) :=
  ⟨fun hs => ⟨_, moon_phase_eq hs jde⟩, fun hs => moon_phase_err hs jde⟩

/-- the count `k = round((jde - 2451550.09766) / 29.530588861) (+ 0.25 / 0.5 / 0.75)` is monotone in the query JDE -/
theorem phase_k_monotone (s : String) {j1 j2 : ℝ} (h : j1 ≤ j2) : phase_k j1 s ≤ phase_k j2 s := by
  rw [phase_k_eq, phase_k_eq]
  have : mround ((j1 - 2451550.09766) / 29.530588861) ≤ mround ((j2 - 2451550.09766) / 29.530588861) :=
    mround_mono (div_le_div_of_nonneg_right (by linarith) (by norm_num))
  have : ((mround ((j1 - 2451550.09766) / 29.530588861) : ℤ) : ℝ) ≤ ((mround ((j2 - 2451550.09766) / 29.530588861) : ℤ) : ℝ) := by exact_mod_cast this
  linarith

/-- "none skipped": two queries less than one mean synodic month (29.530588861 d) apart get the same count or
    consecutive counts -/
theorem phase_k_none_skipped (s : String) {j1 j2 : ℝ} (h : j1 ≤ j2) (hstep : j2 - j1 < 29.530588861) :
    phase_k j2 s = phase_k j1 s ∨ phase_k j2 s = phase_k j1 s + 1 := by
  rw [phase_k_eq, phase_k_eq]
  have h1 : mround ((j1 - 2451550.09766) / 29.530588861) ≤ mround ((j2 - 2451550.09766) / 29.530588861) :=
    mround_mono (div_le_div_of_nonneg_right (by linarith) (by norm_num))
  have h2 : mround ((j2 - 2451550.09766) / 29.530588861) - mround ((j1 - 2451550.09766) / 29.530588861) ≤ 1 :=
    mround_step (by rw [← sub_div, div_lt_one (by norm_num)]; linarith)
  have : mround ((j2 - 2451550.09766) / 29.530588861) = mround ((j1 - 2451550.09766) / 29.530588861) ∨
      mround ((j2 - 2451550.09766) / 29.530588861) = mround ((j1 - 2451550.09766) / 29.530588861) + 1 := by omega
  rcases this with e | e
  · left; rw [e]
  · right; rw [e]; push_cast; ring

/-- every integer count is selected by some query (plus the target's offset) -/
theorem phase_k_onto (s : String) (n : ℤ) : ∃ jde : ℝ, phase_k jde s = (n : ℝ) + phaseOff s := by
  refine ⟨2451550.09766 + (n : ℝ) * 29.530588861, ?_⟩
  rw [phase_k_eq]
  have hc : (29.530588861 : ℝ) ≠ 0 := by norm_num
  have : (2451550.09766 + (n : ℝ) * 29.530588861 - 2451550.09766) / 29.530588861 = (n : ℝ) := by
    rw [add_sub_cancel_left, mul_div_assoc, div_self hc, mul_one]
  rw [this, mround_intCast]

/-- `|corr| ≤ C` with `C` the sum of the generated amplitudes (0.65 d for new/full, 0.87 d for the quarters), for queries of the years -2000..4000 -/
theorem phase_corr_bound (s : String) {jde : ℝ} (h1 : 990557.5 ≤ jde) (h2 : jde ≤ 3182395.5) :
    |phase_corr (phase_k jde s) s| ≤ phaseC s ∧ phaseC s ≤ 87 / 100 :=
  ⟨abs_phase_corr_le _ s (phase_t_range s h1 h2), phaseC_le s⟩

/-- "results never move backwards as the query advances": for any two queries of the years -2000..4000 -/
theorem phase_never_backwards {s : String} (hs : s = "new" ∨ s = "first" ∨ s = "full" ∨ s = "last")
    {j1 j2 r1 r2 : ℝ} (ha : 990557.5 ≤ j1) (hb : j2 ≤ 3182395.5) (h : j1 ≤ j2)
    (e1 : moon_phase j1 s = .ok r1) (e2 : moon_phase j2 s = .ok r2) : r1 ≤ r2 := by
  rw [moon_phase_eq hs] at e1 e2
  cases e1; cases e2
  have t1 := phase_t_range s ha (h.trans hb)
  have t2 := phase_t_range s (ha.trans h) hb
  rw [phase_k_eq] at t1 t2 ⊢
  rw [phase_k_eq]
  have hm : mround ((j1 - 2451550.09766) / 29.530588861) ≤ mround ((j2 - 2451550.09766) / 29.530588861) :=
    mround_mono (div_le_div_of_nonneg_right (by linarith) (by norm_num))
  refine nf_never_backwards (phase_res_eq s) ?_ hm (abs_phase_e_le s t1) (abs_phase_e_le s t2)
  have := phaseC_le s
  norm_num; linarith

/-- "consecutive results are one synodic month apart within natural variation": consecutive counts
    give results `29.530588861 ± 2 (272 / 1000 + C)` days apart, which is positive (strictly increasing) -/
theorem phase_spacing (s : String) (m : ℤ) (h1 : |((m : ℝ) + phaseOff s) / 1236.85| ≤ 41)
    (h2 : |((m : ℝ) + 1 + phaseOff s) / 1236.85| ≤ 41) :
    29.530588861 - 2 * (272 / 1000 + phaseC s) ≤ phase_res s ((m : ℝ) + 1 + phaseOff s) - phase_res s ((m : ℝ) + phaseOff s) ∧
    phase_res s ((m : ℝ) + 1 + phaseOff s) - phase_res s ((m : ℝ) + phaseOff s) ≤ 29.530588861 + 2 * (272 / 1000 + phaseC s) ∧
    (0 : ℝ) < 29.530588861 - 2 * (272 / 1000 + phaseC s) := by
  have := nf_spacing (phase_res_eq s) m (abs_phase_e_le s h1) (abs_phase_e_le s h2)
  refine ⟨this.1, this.2, ?_⟩
  have := phaseC_le s
  norm_num; linarith

/-- distance to the query: the result is within half a synodic month + 272 / 1000 + C days of the query JDE shifted by the target's offset `P · offset` -/
theorem phase_near_query {s : String} (hs : s = "new" ∨ s = "first" ∨ s = "full" ∨ s = "last")
    {jde r : ℝ} (h1 : 990557.5 ≤ jde) (h2 : jde ≤ 3182395.5) (e : moon_phase jde s = .ok r) :
    |r - (jde + 29.530588861 * phaseOff s)| ≤ 29.530588861 / 2 + (272 / 1000 + phaseC s) := by
  rw [moon_phase_eq hs] at e
  cases e
  have t := phase_t_range s h1 h2
  rw [phase_k_eq] at t ⊢
  have hc : (29.530588861 : ℝ) ≠ 0 := by norm_num
  have key := nf_near (phase_res_eq s) (by norm_num) (mround_sub_le ((jde - 2451550.09766) / 29.530588861)) (abs_phase_e_le s t)
  rw [mul_add, mul_div_cancel₀ _ hc, ← add_assoc, add_sub_cancel] at key
  exact key

/-- "lie within 1.6 months of the query": `|result - query| ≤ 1.6 · 29.530588861` days (at most
    38.1 d in fact), for every query of the years -2000..4000 and every target -/
theorem phase_within_1p6_months {s : String} (hs : s = "new" ∨ s = "first" ∨ s = "full" ∨ s = "last")
    {jde r : ℝ} (h1 : 990557.5 ≤ jde) (h2 : jde ≤ 3182395.5) (e : moon_phase jde s = .ok r) :
    |r - jde| ≤ 1.6 * 29.530588861 := by
  have n := abs_le.mp (phase_near_query hs h1 h2 e)
  have ho := phaseOff_range s
  have := phaseC_le s
  rw [abs_le]
  constructor <;> norm_num at n ⊢ <;> linarith [n.1, n.2]

/-! ## moon_perigee_apogee — targets "perigee", "apogee" -/

/-- "every target string": the names "perigee", "apogee" are accepted (a result is
    returned for every query), any other string raises `ValueError`. -/
theorem apsis_targets (jde : ℝ) (s : String) :
    ((s = "perigee" ∨ s = "apogee") → ∃ r p, moon_perigee_apogee jde s = .ok (r, p)) ∧
    (¬ (s = "perigee" ∨ s = "apogee") → moon_perigee_apogee jde s = .error .valueError) :=
  ⟨fun hs => ⟨_, _, moon_perigee_apogee_eq hs jde⟩, fun hs => moon_perigee_apogee_err hs jde⟩

/-- the count `k = round((jde - 2451534.6698) / 27.55454989) (+ 0.5)` is monotone in the query JDE -/
theorem apsis_k_monotone (s : String) {j1 j2 : ℝ} (h : j1 ≤ j2) : apsis_k j1 s ≤ apsis_k j2 s := by
  rw [apsis_k_eq, apsis_k_eq]
  have : mround ((j1 - 2451534.6698) / 27.55454989) ≤ mround ((j2 - 2451534.6698) / 27.55454989) :=
    mround_mono (div_le_div_of_nonneg_right (by linarith) (by norm_num))
  have : ((mround ((j1 - 2451534.6698) / 27.55454989) : ℤ) : ℝ) ≤ ((mround ((j2 - 2451534.6698) / 27.55454989) : ℤ) : ℝ) := by exact_mod_cast this
  linarith

/-- "none skipped": two queries less than one mean anomalistic month (27.55454989 d) apart get the same count or
    consecutive counts -/
theorem apsis_k_none_skipped (s : String) {j1 j2 : ℝ} (h : j1 ≤ j2) (hstep : j2 - j1 < 27.55454989) :
    apsis_k j2 s = apsis_k j1 s ∨ apsis_k j2 s = apsis_k j1 s + 1 := by
  rw [apsis_k_eq, apsis_k_eq]
  have h1 : mround ((j1 - 2451534.6698) / 27.55454989) ≤ mround ((j2 - 2451534.6698) / 27.55454989) :=
    mround_mono (div_le_div_of_nonneg_right (by linarith) (by norm_num))
  have h2 : mround ((j2 - 2451534.6698) / 27.55454989) - mround ((j1 - 2451534.6698) / 27.55454989) ≤ 1 :=
    mround_step (by rw [← sub_div, div_lt_one (by norm_num)]; linarith)
  have : mround ((j2 - 2451534.6698) / 27.55454989) = mround ((j1 - 2451534.6698) / 27.55454989) ∨
      mround ((j2 - 2451534.6698) / 27.55454989) = mround ((j1 - 2451534.6698) / 27.55454989) + 1 := by omega
  rcases this with e | e
  · left; rw [e]
  · right; rw [e]; push_cast; ring

/-- every integer count is selected by some query (plus the target's offset) -/
theorem apsis_k_onto (s : String) (n : ℤ) : ∃ jde : ℝ, apsis_k jde s = (n : ℝ) + apsisOff s := by
  refine ⟨2451534.6698 + (n : ℝ) * 27.55454989, ?_⟩
  rw [apsis_k_eq]
  have hc : (27.55454989 : ℝ) ≠ 0 := by norm_num
  have : (2451534.6698 + (n : ℝ) * 27.55454989 - 2451534.6698) / 27.55454989 = (n : ℝ) := by
    rw [add_sub_cancel_left, mul_div_assoc, div_self hc, mul_one]
  rw [this, mround_intCast]

/-- `|corr| ≤ C` with `C` the sum of the generated amplitudes (2.883 d for perigee, 0.703 d for apogee), for queries of the years -2000..4000 -/
theorem apsis_corr_bound (s : String) {jde : ℝ} (h1 : 990557.5 ≤ jde) (h2 : jde ≤ 3182395.5) :
    |apsis_corr (apsis_k jde s) s| ≤ apsisC s ∧ apsisC s ≤ 2883 / 1000 :=
  ⟨abs_apsis_corr_le _ s (apsis_t_range s h1 h2), apsisC_le s⟩

/-- "results never move backwards as the query advances": for any two queries of the years -2000..4000 -/
theorem apsis_never_backwards {s : String} (hs : s = "perigee" ∨ s = "apogee")
    {j1 j2 r1 r2 p1 p2 : ℝ} (ha : 990557.5 ≤ j1) (hb : j2 ≤ 3182395.5) (h : j1 ≤ j2)
    (e1 : moon_perigee_apogee j1 s = .ok (r1, p1)) (e2 : moon_perigee_apogee j2 s = .ok (r2, p2)) : r1 ≤ r2 := by
  rw [moon_perigee_apogee_eq hs] at e1 e2
  cases e1; cases e2
  have t1 := apsis_t_range s ha (h.trans hb)
  have t2 := apsis_t_range s (ha.trans h) hb
  rw [apsis_k_eq] at t1 t2 ⊢
  rw [apsis_k_eq]
  have hm : mround ((j1 - 2451534.6698) / 27.55454989) ≤ mround ((j2 - 2451534.6698) / 27.55454989) :=
    mround_mono (div_le_div_of_nonneg_right (by linarith) (by norm_num))
  refine nf_never_backwards (apsis_res_eq s) ?_ hm (abs_apsis_e_le s t1) (abs_apsis_e_le s t2)
  have := apsisC_le s
  norm_num; linarith

/-- "consecutive results are one anomalistic month apart within natural variation": consecutive counts
    give results `27.55454989 ± 2 (1216 / 1000 + C)` days apart, which is positive (strictly increasing) -/
theorem apsis_spacing (s : String) (m : ℤ) (h1 : |((m : ℝ) + apsisOff s) / 1325.55| ≤ 41)
    (h2 : |((m : ℝ) + 1 + apsisOff s) / 1325.55| ≤ 41) :
    27.55454989 - 2 * (1216 / 1000 + apsisC s) ≤ apsis_res s ((m : ℝ) + 1 + apsisOff s) - apsis_res s ((m : ℝ) + apsisOff s) ∧
    apsis_res s ((m : ℝ) + 1 + apsisOff s) - apsis_res s ((m : ℝ) + apsisOff s) ≤ 27.55454989 + 2 * (1216 / 1000 + apsisC s) ∧
    (0 : ℝ) < 27.55454989 - 2 * (1216 / 1000 + apsisC s) := by
  have := nf_spacing (apsis_res_eq s) m (abs_apsis_e_le s h1) (abs_apsis_e_le s h2)
  refine ⟨this.1, this.2, ?_⟩
  have := apsisC_le s
  norm_num; linarith

/-- distance to the query: the result is within half a anomalistic month + 1216 / 1000 + C days of the query JDE shifted by the target's offset `P · offset` -/
theorem apsis_near_query {s : String} (hs : s = "perigee" ∨ s = "apogee")
    {jde r p : ℝ} (h1 : 990557.5 ≤ jde) (h2 : jde ≤ 3182395.5) (e : moon_perigee_apogee jde s = .ok (r, p)) :
    |r - (jde + 27.55454989 * apsisOff s)| ≤ 27.55454989 / 2 + (1216 / 1000 + apsisC s) := by
  rw [moon_perigee_apogee_eq hs] at e
  cases e
  have t := apsis_t_range s h1 h2
  rw [apsis_k_eq] at t ⊢
  have hc : (27.55454989 : ℝ) ≠ 0 := by norm_num
  have key := nf_near (apsis_res_eq s) (by norm_num) (mround_sub_le ((jde - 2451534.6698) / 27.55454989)) (abs_apsis_e_le s t)
  rw [mul_add, mul_div_cancel₀ _ hc, ← add_assoc, add_sub_cancel] at key
  exact key

/-- "lie within 1.6 months of the query": `|result - query| ≤ 1.6 · 29.530588861` days (at most
    31.7 d in fact), for every query of the years -2000..4000 and every target -/
theorem apsis_within_1p6_months {s : String} (hs : s = "perigee" ∨ s = "apogee")
    {jde r p : ℝ} (h1 : 990557.5 ≤ jde) (h2 : jde ≤ 3182395.5) (e : moon_perigee_apogee jde s = .ok (r, p)) :
    |r - jde| ≤ 1.6 * 29.530588861 := by
  have n := abs_le.mp (apsis_near_query hs h1 h2 e)
  have ho := apsisOff_range s
  have := apsisC_le s
  rw [abs_le]
  constructor <;> norm_num at n ⊢ <;> linarith [n.1, n.2]

/-! ## moon_passage_nodes — targets "ascending", "descending" -/

/-- "every target string": the names "ascending", "descending" are accepted (a result is
    returned for every query), any other string raises `ValueError`. -/
theorem nodes_targets (jde : ℝ) (s : String) :
    ((s = "ascending" ∨ s = "descending") → ∃ r, moon_passage_nodes jde s = .ok r) ∧
    (¬ (s = "ascending" ∨ s = "descending") → moon_passage_nodes jde s = .error .valueError) :=
  ⟨fun hs => ⟨_, moon_passage_nodes_eq hs jde⟩, fun hs => moon_passage_nodes_err hs jde⟩

/-- the count `k = round((jde - 2451565.1619) / 27.212220817) (+ 0.5)` is monotone in the query JDE -/
theorem nodes_k_monotone (s : String) {j1 j2 : ℝ} (h : j1 ≤ j2) : nodes_k j1 s ≤ nodes_k j2 s := by
  rw [nodes_k_eq, nodes_k_eq]
  have : mround ((j1 - 2451565.1619) / 27.212220817) ≤ mround ((j2 - 2451565.1619) / 27.212220817) :=
    mround_mono (div_le_div_of_nonneg_right (by linarith) (by norm_num))
  have : ((mround ((j1 - 2451565.1619) / 27.212220817) : ℤ) : ℝ) ≤ ((mround ((j2 - 2451565.1619) / 27.212220817) : ℤ) : ℝ) := by exact_mod_cast this
  linarith

/-- "none skipped": two queries less than one mean draconic month (27.212220817 d) apart get the same count or
    consecutive counts -/
theorem nodes_k_none_skipped (s : String) {j1 j2 : ℝ} (h : j1 ≤ j2) (hstep : j2 - j1 < 27.212220817) :
    nodes_k j2 s = nodes_k j1 s ∨ nodes_k j2 s = nodes_k j1 s + 1 := by
  rw [nodes_k_eq, nodes_k_eq]
  have h1 : mround ((j1 - 2451565.1619) / 27.212220817) ≤ mround ((j2 - 2451565.1619) / 27.212220817) :=
    mround_mono (div_le_div_of_nonneg_right (by linarith) (by norm_num))
  have h2 : mround ((j2 - 2451565.1619) / 27.212220817) - mround ((j1 - 2451565.1619) / 27.212220817) ≤ 1 :=
    mround_step (by rw [← sub_div, div_lt_one (by norm_num)]; linarith)
  have : mround ((j2 - 2451565.1619) / 27.212220817) = mround ((j1 - 2451565.1619) / 27.212220817) ∨
      mround ((j2 - 2451565.1619) / 27.212220817) = mround ((j1 - 2451565.1619) / 27.212220817) + 1 := by omega
  rcases this with e | e
  · left; rw [e]
  · right; rw [e]; push_cast; ring

/-- every integer count is selected by some query (plus the target's offset) -/
theorem nodes_k_onto (s : String) (n : ℤ) : ∃ jde : ℝ, nodes_k jde s = (n : ℝ) + nodesOff s := by
  refine ⟨2451565.1619 + (n : ℝ) * 27.212220817, ?_⟩
  rw [nodes_k_eq]
  have hc : (27.212220817 : ℝ) ≠ 0 := by norm_num
  have : (2451565.1619 + (n : ℝ) * 27.212220817 - 2451565.1619) / 27.212220817 = (n : ℝ) := by
    rw [add_sub_cancel_left, mul_div_assoc, div_self hc, mul_one]
  rw [this, mround_intCast]

/-- `|corr| ≤ C` with `C` the sum of the generated amplitudes (0.775 d), for queries of the years -2000..4000 -/
theorem nodes_corr_bound (s : String) {jde : ℝ} (h1 : 990557.5 ≤ jde) (h2 : jde ≤ 3182395.5) :
    |nodes_corr (nodes_k jde s)| ≤ 775 / 1000 ∧ 775 / 1000 ≤ 775 / 1000 :=
  ⟨abs_nodes_corr_le _ (nodes_t_range s h1 h2), le_refl _⟩

/-- "results never move backwards as the query advances": for any two queries of the years -2000..4000 -/
theorem nodes_never_backwards {s : String} (hs : s = "ascending" ∨ s = "descending")
    {j1 j2 r1 r2 : ℝ} (ha : 990557.5 ≤ j1) (hb : j2 ≤ 3182395.5) (h : j1 ≤ j2)
    (e1 : moon_passage_nodes j1 s = .ok r1) (e2 : moon_passage_nodes j2 s = .ok r2) : r1 ≤ r2 := by
  rw [moon_passage_nodes_eq hs] at e1 e2
  cases e1; cases e2
  have t1 := nodes_t_range s ha (h.trans hb)
  have t2 := nodes_t_range s (ha.trans h) hb
  rw [nodes_k_eq] at t1 t2 ⊢
  rw [nodes_k_eq]
  have hm : mround ((j1 - 2451565.1619) / 27.212220817) ≤ mround ((j2 - 2451565.1619) / 27.212220817) :=
    mround_mono (div_le_div_of_nonneg_right (by linarith) (by norm_num))
  refine nf_never_backwards (nodes_res_eq) ?_ hm (abs_nodes_e_le t1) (abs_nodes_e_le t2)
  norm_num

/-- "consecutive results are one draconic month apart within natural variation": consecutive counts
    give results `27.212220817 ± 2 (467 / 1000 + C)` days apart, which is positive (strictly increasing) -/
theorem nodes_spacing (s : String) (m : ℤ) (h1 : |((m : ℝ) + nodesOff s) / 1342.23| ≤ 41)
    (h2 : |((m : ℝ) + 1 + nodesOff s) / 1342.23| ≤ 41) :
    27.212220817 - 2 * (467 / 1000 + 775 / 1000) ≤ nodes_res ((m : ℝ) + 1 + nodesOff s) - nodes_res ((m : ℝ) + nodesOff s) ∧
    nodes_res ((m : ℝ) + 1 + nodesOff s) - nodes_res ((m : ℝ) + nodesOff s) ≤ 27.212220817 + 2 * (467 / 1000 + 775 / 1000) ∧
    (0 : ℝ) < 27.212220817 - 2 * (467 / 1000 + 775 / 1000) := by
  have := nf_spacing (nodes_res_eq) m (abs_nodes_e_le h1) (abs_nodes_e_le h2)
  refine ⟨this.1, this.2, ?_⟩
  norm_num

/-- distance to the query: the result is within half a draconic month + 467 / 1000 + C days of the query JDE shifted by the target's offset `P · offset` -/
theorem nodes_near_query {s : String} (hs : s = "ascending" ∨ s = "descending")
    {jde r : ℝ} (h1 : 990557.5 ≤ jde) (h2 : jde ≤ 3182395.5) (e : moon_passage_nodes jde s = .ok r) :
    |r - (jde + 27.212220817 * nodesOff s)| ≤ 27.212220817 / 2 + (467 / 1000 + 775 / 1000) := by
  rw [moon_passage_nodes_eq hs] at e
  cases e
  have t := nodes_t_range s h1 h2
  rw [nodes_k_eq] at t ⊢
  have hc : (27.212220817 : ℝ) ≠ 0 := by norm_num
  have key := nf_near (nodes_res_eq) (by norm_num) (mround_sub_le ((jde - 2451565.1619) / 27.212220817)) (abs_nodes_e_le t)
  rw [mul_add, mul_div_cancel₀ _ hc, ← add_assoc, add_sub_cancel] at key
  exact key

/-- "lie within 1.6 months of the query": `|result - query| ≤ 1.6 · 29.530588861` days (at most
    28.5 d in fact), for every query of the years -2000..4000 and every target -/
theorem nodes_within_1p6_months {s : String} (hs : s = "ascending" ∨ s = "descending")
    {jde r : ℝ} (h1 : 990557.5 ≤ jde) (h2 : jde ≤ 3182395.5) (e : moon_passage_nodes jde s = .ok r) :
    |r - jde| ≤ 1.6 * 29.530588861 := by
  have n := abs_le.mp (nodes_near_query hs h1 h2 e)
  have ho := nodesOff_range s
  rw [abs_le]
  constructor <;> norm_num at n ⊢ <;> linarith [n.1, n.2]

/-! ## moon_maximum_declination — targets "northern", "southern" -/

/-- "every target string": the names "northern", "southern" are accepted (a result is
    returned for every query), any other string raises `ValueError`. -/
theorem decl_targets (jde : ℝ) (s : String) :
    ((s = "northern" ∨ s = "southern") → ∃ r p, moon_maximum_declination jde s = .ok (r, p)) ∧
    (¬ (s = "northern" ∨ s = "southern") → moon_maximum_declination jde s = .error .valueError) :=
  ⟨fun hs => ⟨_, _, moon_maximum_declination_eq hs jde⟩, fun hs => moon_maximum_declination_err hs jde⟩

/-- the count `k = round((jde - J0(target)) / 27.321582247)` is monotone in the query JDE -/
theorem decl_k_monotone (s : String) {j1 j2 : ℝ} (h : j1 ≤ j2) : decl_k j1 s ≤ decl_k j2 s := by
  rw [decl_k_eq, decl_k_eq]
  have : mround ((j1 - declJ s) / 27.321582247) ≤ mround ((j2 - declJ s) / 27.321582247) :=
    mround_mono (div_le_div_of_nonneg_right (by linarith) (by norm_num))
  have : ((mround ((j1 - declJ s) / 27.321582247) : ℤ) : ℝ) ≤ ((mround ((j2 - declJ s) / 27.321582247) : ℤ) : ℝ) := by exact_mod_cast this
  linarith

/-- "none skipped": two queries less than one mean tropical month (27.321582247 d) apart get the same count or
    consecutive counts -/
theorem decl_k_none_skipped (s : String) {j1 j2 : ℝ} (h : j1 ≤ j2) (hstep : j2 - j1 < 27.321582247) :
    decl_k j2 s = decl_k j1 s ∨ decl_k j2 s = decl_k j1 s + 1 := by
  rw [decl_k_eq, decl_k_eq]
  have h1 : mround ((j1 - declJ s) / 27.321582247) ≤ mround ((j2 - declJ s) / 27.321582247) :=
    mround_mono (div_le_div_of_nonneg_right (by linarith) (by norm_num))
  have h2 : mround ((j2 - declJ s) / 27.321582247) - mround ((j1 - declJ s) / 27.321582247) ≤ 1 :=
    mround_step (by rw [← sub_div, div_lt_one (by norm_num)]; linarith)
  have : mround ((j2 - declJ s) / 27.321582247) = mround ((j1 - declJ s) / 27.321582247) ∨
      mround ((j2 - declJ s) / 27.321582247) = mround ((j1 - declJ s) / 27.321582247) + 1 := by omega
  rcases this with e | e
  · left; rw [e]
  · right; rw [e]; push_cast; ring

/-- every integer count is selected by some query -/
theorem decl_k_onto (s : String) (n : ℤ) : ∃ jde : ℝ, decl_k jde s = (n : ℝ) := by
  refine ⟨declJ s + (n : ℝ) * 27.321582247, ?_⟩
  rw [decl_k_eq]
  have hc : (27.321582247 : ℝ) ≠ 0 := by norm_num
  have : (declJ s + (n : ℝ) * 27.321582247 - declJ s) / 27.321582247 = (n : ℝ) := by
    rw [add_sub_cancel_left, mul_div_assoc, div_self hc, mul_one]
  rw [this, mround_intCast]

/-- `|corr| ≤ C` with `C` the sum of the generated amplitudes (1.875 d northern, 1.867 d southern), for queries of the years -2000..4000 -/
theorem decl_corr_bound (s : String) {jde : ℝ} (h1 : 990557.5 ≤ jde) (h2 : jde ≤ 3182395.5) :
    |decl_corr (decl_k jde s) s| ≤ declC s ∧ declC s ≤ 1875 / 1000 :=
  ⟨abs_decl_corr_le _ s (decl_t_range s h1 h2), declC_le s⟩

/-- "results never move backwards as the query advances": for any two queries of the years -2000..4000 -/
theorem decl_never_backwards {s : String} (hs : s = "northern" ∨ s = "southern")
    {j1 j2 r1 r2 p1 p2 : ℝ} (ha : 990557.5 ≤ j1) (hb : j2 ≤ 3182395.5) (h : j1 ≤ j2)
    (e1 : moon_maximum_declination j1 s = .ok (r1, p1)) (e2 : moon_maximum_declination j2 s = .ok (r2, p2)) : r1 ≤ r2 := by
  rw [moon_maximum_declination_eq hs] at e1 e2
  cases e1; cases e2
  have t1 := decl_t_range s ha (h.trans hb)
  have t2 := decl_t_range s (ha.trans h) hb
  rw [decl_k_eq0] at t1 t2 ⊢
  rw [decl_k_eq0]
  have hm : mround ((j1 - declJ s) / 27.321582247) ≤ mround ((j2 - declJ s) / 27.321582247) :=
    mround_mono (div_le_div_of_nonneg_right (by linarith) (by norm_num))
  refine nf_never_backwards (decl_res_eq s) ?_ hm (abs_decl_e_le s t1) (abs_decl_e_le s t2)
  have := declC_le s
  norm_num; linarith

/-- "consecutive results are one tropical month apart within natural variation": consecutive counts
    give results `27.321582247 ± 2 (212 / 1000 + C)` days apart, which is positive (strictly increasing) -/
theorem decl_spacing (s : String) (m : ℤ) (h1 : |((m : ℝ) + 0) / 1336.86| ≤ 41)
    (h2 : |((m : ℝ) + 1 + 0) / 1336.86| ≤ 41) :
    27.321582247 - 2 * (212 / 1000 + declC s) ≤ decl_res s ((m : ℝ) + 1 + 0) - decl_res s ((m : ℝ) + 0) ∧
    decl_res s ((m : ℝ) + 1 + 0) - decl_res s ((m : ℝ) + 0) ≤ 27.321582247 + 2 * (212 / 1000 + declC s) ∧
    (0 : ℝ) < 27.321582247 - 2 * (212 / 1000 + declC s) := by
  have := nf_spacing (decl_res_eq s) m (abs_decl_e_le s h1) (abs_decl_e_le s h2)
  refine ⟨this.1, this.2, ?_⟩
  have := declC_le s
  norm_num; linarith

/-- distance to the query: the result is within half a tropical month + 212 / 1000 + C days of the query JDE -/
theorem decl_near_query {s : String} (hs : s = "northern" ∨ s = "southern")
    {jde r p : ℝ} (h1 : 990557.5 ≤ jde) (h2 : jde ≤ 3182395.5) (e : moon_maximum_declination jde s = .ok (r, p)) :
    |r - (jde + 27.321582247 * 0)| ≤ 27.321582247 / 2 + (212 / 1000 + declC s) := by
  rw [moon_maximum_declination_eq hs] at e
  cases e
  have t := decl_t_range s h1 h2
  rw [decl_k_eq0] at t ⊢
  have hc : (27.321582247 : ℝ) ≠ 0 := by norm_num
  have key := nf_near (decl_res_eq s) (by norm_num) (mround_sub_le ((jde - declJ s) / 27.321582247)) (abs_decl_e_le s t)
  rw [mul_add, mul_div_cancel₀ _ hc, ← add_assoc, add_sub_cancel] at key
  exact key

/-- "lie within 1.6 months of the query": `|result - query| ≤ 1.6 · 29.530588861` days (at most
    15.8 d in fact), for every query of the years -2000..4000 and every target -/
theorem decl_within_1p6_months {s : String} (hs : s = "northern" ∨ s = "southern")
    {jde r p : ℝ} (h1 : 990557.5 ≤ jde) (h2 : jde ≤ 3182395.5) (e : moon_maximum_declination jde s = .ok (r, p)) :
    |r - jde| ≤ 1.6 * 29.530588861 := by
  have n := abs_le.mp (decl_near_query hs h1 h2 e)
  have := declC_le s
  rw [abs_le]
  constructor <;> norm_num at n ⊢ <;> linarith [n.1, n.2]

/-- "declination is extremal … with the reported value" — the structural part: for every query of the years
    -2000..4000 the reported extreme declination is `23.6961 - 0.013004 T + cor2` with `|cor2| ≤ 5.709`
    (sum of the generated amplitudes), positive and between 17.4° and 30° for "northern", negated — between
    -30° and -17.4° — for "southern"; the `Angle` reduction does not alter it. (That this is the Moon's
    declination at that instant to 0.15° is measured on the implementation only.) -/
theorem decl_reported_value_sign_and_range {s : String} (hs : s = "northern" ∨ s = "southern")
    {jde r p : ℝ} (h1 : 990557.5 ≤ jde) (h2 : jde ≤ 3182395.5) (e : moon_maximum_declination jde s = .ok (r, p)) :
    (s = "northern" → 17.4 ≤ p ∧ p ≤ 30) ∧ (s = "southern" → -30 ≤ p ∧ p ≤ -17.4) := by
  rw [moon_maximum_declination_eq hs] at e
  cases e
  exact decl_value_range _ hs (decl_t_range s h1 h2)

/-! ## Which event is selected, and the four phases of one lunation -/

/-- the count is the integer NEAREST to `(jde - J0) / P` for every query — a tie (exactly half way) goes to
    the even count, as Python's `round` does — plus the target's offset; the same for all four finders -/
theorem k_is_nearest_count (jde : ℝ) (s : String) :
    |phase_k jde s - phaseOff s - (jde - 2451550.09766) / 29.530588861| ≤ 1 / 2 ∧
    |apsis_k jde s - apsisOff s - (jde - 2451534.6698) / 27.55454989| ≤ 1 / 2 ∧
    |nodes_k jde s - nodesOff s - (jde - 2451565.1619) / 27.212220817| ≤ 1 / 2 ∧
    |decl_k jde s - (jde - declJ s) / 27.321582247| ≤ 1 / 2 ∧
    (∀ n : ℤ, kround ((n : ℝ) + 1 / 2) = if n % 2 = 0 then (n : ℝ) else (n : ℝ) + 1) := by
  refine ⟨?_, ?_, ?_, ?_, ?_⟩
  · rw [phase_k_eq, add_sub_cancel_right]; exact mround_sub_le _
  · rw [apsis_k_eq, add_sub_cancel_right]; exact mround_sub_le _
  · rw [nodes_k_eq, add_sub_cancel_right]; exact mround_sub_le _
  · rw [decl_k_eq]; exact mround_sub_le _
  · intro n
    rw [kround_eq, mround_half_even]
    split_ifs <;> push_cast <;> rfl

/-- for one query the four phase targets give the four phases of ONE lunation in order: new, first quarter,
    full, last quarter, each a quarter of a synodic month (7.3826 d) after the previous one within 2.29 d, and
    the last quarter before the next new moon -/
theorem phase_quarters_in_order {jde rn rf ru rl : ℝ} (h1 : 990557.5 ≤ jde) (h2 : jde ≤ 3182395.5)
    (en : moon_phase jde "new" = .ok rn) (ef : moon_phase jde "first" = .ok rf)
    (eu : moon_phase jde "full" = .ok ru) (el : moon_phase jde "last" = .ok rl) :
    |rf - rn - 29.530588861 / 4| ≤ 2.29 ∧ |ru - rf - 29.530588861 / 4| ≤ 2.29 ∧ |rl - ru - 29.530588861 / 4| ≤ 2.29 ∧
    rn < rf ∧ rf < ru ∧ ru < rl ∧ rl < rn + 29.530588861 := by
  rw [moon_phase_eq (Or.inl rfl)] at en
  rw [moon_phase_eq (Or.inr (Or.inl rfl))] at ef
  rw [moon_phase_eq (Or.inr (Or.inr (Or.inl rfl)))] at eu
  rw [moon_phase_eq (Or.inr (Or.inr (Or.inr rfl)))] at el
  cases en; cases ef; cases eu; cases el
  have tn := phase_t_range "new" h1 h2
  have tf := phase_t_range "first" h1 h2
  have tu := phase_t_range "full" h1 h2
  have tl := phase_t_range "last" h1 h2
  have bn := abs_le.mp (abs_phase_e_le "new" tn)
  have bf := abs_le.mp (abs_phase_e_le "first" tf)
  have bu := abs_le.mp (abs_phase_e_le "full" tu)
  have bl := abs_le.mp (abs_phase_e_le "last" tl)
  have cn : phaseC "new" = 65 / 100 := by unfold phaseC; simp
  have cf : phaseC "first" = 87 / 100 := by unfold phaseC; simp
  have cu : phaseC "full" = 65 / 100 := by unfold phaseC; simp
  have cl : phaseC "last" = 87 / 100 := by unfold phaseC; simp
  have on : phaseOff "new" = 0 := by unfold phaseOff; simp
  have of : phaseOff "first" = 0.25 := by unfold phaseOff; simp
  have ou : phaseOff "full" = 0.5 := by unfold phaseOff; simp
  have ol : phaseOff "last" = 0.75 := by unfold phaseOff; simp
  rw [cn, phase_k_eq, on] at bn; rw [cf, phase_k_eq, of] at bf; rw [cu, phase_k_eq, ou] at bu; rw [cl, phase_k_eq, ol] at bl
  rw [phase_res_eq, phase_res_eq, phase_res_eq, phase_res_eq]
  rw [phase_k_eq jde "new", phase_k_eq jde "first", phase_k_eq jde "full", phase_k_eq jde "last", on, of, ou, ol]
  generalize ((mround ((jde - 2451550.09766) / 29.530588861) : ℤ) : ℝ) = m at bn bf bu bl ⊢
  clear tn tf tu tl
  refine ⟨?_, ?_, ?_, ?_, ?_, ?_, ?_⟩ <;> (try rw [abs_le]) <;> (try constructor) <;> norm_num at bn bf bu bl ⊢ <;>
    linarith [bn.1, bn.2, bf.1, bf.2, bu.1, bu.2, bl.1, bl.2]

/-- for one query, "apogee" is the apogee half an anomalistic month (13.777 d) after the "perigee" returned,
    within 6.02 d (sum of the two correction bounds), and "descending" the node passage half a draconic month
    (13.606 d) after the "ascending" one, within 2.49 d: strictly later in both cases -/
theorem half_period_targets_in_order {jde rp ra rn rd pp pa : ℝ} (h1 : 990557.5 ≤ jde) (h2 : jde ≤ 3182395.5)
    (ep : moon_perigee_apogee jde "perigee" = .ok (rp, pp)) (ea : moon_perigee_apogee jde "apogee" = .ok (ra, pa))
    (en : moon_passage_nodes jde "ascending" = .ok rn) (ed : moon_passage_nodes jde "descending" = .ok rd) :
    |ra - rp - 27.55454989 / 2| ≤ 6.02 ∧ rp < ra ∧ |rd - rn - 27.212220817 / 2| ≤ 2.49 ∧ rn < rd := by
  rw [moon_perigee_apogee_eq (Or.inl rfl)] at ep
  rw [moon_perigee_apogee_eq (Or.inr rfl)] at ea
  rw [moon_passage_nodes_eq (Or.inl rfl)] at en
  rw [moon_passage_nodes_eq (Or.inr rfl)] at ed
  cases ep; cases ea; cases en; cases ed
  have bp := abs_le.mp (abs_apsis_e_le "perigee" (apsis_t_range "perigee" h1 h2))
  have ba := abs_le.mp (abs_apsis_e_le "apogee" (apsis_t_range "apogee" h1 h2))
  have bn := abs_le.mp (abs_nodes_e_le (nodes_t_range "ascending" h1 h2))
  have bd := abs_le.mp (abs_nodes_e_le (nodes_t_range "descending" h1 h2))
  have cp : apsisC "perigee" = 2883 / 1000 := by unfold apsisC; simp
  have ca : apsisC "apogee" = 703 / 1000 := by unfold apsisC; simp
  have op : apsisOff "perigee" = 0 := by unfold apsisOff; simp
  have oa : apsisOff "apogee" = 0.5 := by unfold apsisOff; simp
  have on : nodesOff "ascending" = 0 := by unfold nodesOff; simp
  have od : nodesOff "descending" = 0.5 := by unfold nodesOff; simp
  rw [cp, apsis_k_eq, op] at bp; rw [ca, apsis_k_eq, oa] at ba
  rw [nodes_k_eq, on] at bn; rw [nodes_k_eq, od] at bd
  rw [apsis_res_eq, apsis_res_eq, nodes_res_eq, nodes_res_eq]
  rw [apsis_k_eq jde "perigee", apsis_k_eq jde "apogee", nodes_k_eq jde "ascending", nodes_k_eq jde "descending", op, oa, on, od]
  generalize ((mround ((jde - 2451534.6698) / 27.55454989) : ℤ) : ℝ) = m at bp ba ⊢
  generalize ((mround ((jde - 2451565.1619) / 27.212220817) : ℤ) : ℝ) = m' at bn bd ⊢
  refine ⟨?_, ?_, ?_, ?_⟩ <;> (try rw [abs_le]) <;> (try constructor) <;> norm_num at bp ba bn bd ⊢ <;>
    linarith [bp.1, bp.2, ba.1, ba.2, bn.1, bn.2, bd.1, bd.2]

/-! ## the hypotheses are satisfiable by concrete, non-trivial inputs -/

/-- J2000 and the ends of the property's range (-2000-01-01, 4002-01-01) are within 60 centuries -/
example : |cent 2451545.0| ≤ 60 ∧ |cent 990557.5| ≤ 60 ∧ |cent 3182395.5| ≤ 60 := by
  unfold cent
  refine ⟨?_, ?_, ?_⟩ <;> rw [abs_le] <;> constructor <;> norm_num
/-- Meeus' example 49.a (1977 February 15, JDE 2443189.5) is a query of the range, "new" a valid target -/
example : ∃ r, moon_phase 2443189.5 "new" = .ok r := (phase_targets 2443189.5 "new").1 (Or.inl rfl)
example : (990557.5 : ℝ) ≤ 2443189.5 ∧ (2443189.5 : ℝ) ≤ 3182395.5 := by norm_num
example : moon_phase 2443189.5 "New" = .error .valueError := (phase_targets 2443189.5 "New").2 (by decide)
example : moon_perigee_apogee 2447435.5 "fullmoon" = .error .valueError := (apsis_targets 2447435.5 "fullmoon").2 (by decide)
/-- the count hypotheses of the spacing theorems hold e.g. for lunation 0 -> 1 -/
example : |(((0 : ℤ) : ℝ) + phaseOff "full") / 1236.85| ≤ 41 ∧ |(((0 : ℤ) : ℝ) + 1 + phaseOff "full") / 1236.85| ≤ 41 := by
  have : phaseOff "full" = 0.5 := by unfold phaseOff; simp
  rw [this]
  constructor <;> rw [abs_le] <;> constructor <;> norm_num
/-- two queries a week apart satisfy the "none skipped" hypothesis -/
example : ((2460500.5 : ℝ) - 2460493.5) < 29.530588861 := by norm_num
/-- T = -40 centuries (year -2000) is inside the range of the argument identities -/
example : |(-40 : ℝ)| ≤ 60 := by norm_num

end Pymeeus.C15
