import Pymeeus.Gen.Q.EpochCal
namespace Pymeeus.C10
open Pymeeus Pymeeus.PQ Pymeeus.GenQ

/-- placeholder -/
theorem leap_2016_12 : leap_seconds 2016 12 = .ok 26 := by decide +kernel

end Pymeeus.C10
