import Pymeeus.Refine.UtcReadback
import Pymeeus.Refine.LeapAny
import Pymeeus.Refine.LocalPath
import Pymeeus.Refine.DeltaT
/-
C10 — UTC <-> TT offset follows the IERS leap-second history and inverts.

Property theorems only (helpers in Refine/LeapSeconds.lean, the IERS list in Spec/IERS.lean).  They are
statements about `Pymeeus.GenQ`, the exact-arithmetic instantiation of templates/EpochCal.lean, for EVERY
integer year (no bound) and every rational day / time of day.
-/
namespace Pymeeus.C10
open Pymeeus Pymeeus.PQ Pymeeus.GenQ Pymeeus.Refine Pymeeus.Spec

/-- "The cumulative leap-second count is ... equal to the IERS list through 2017-01-01 and constant after it":
    `Epoch.leap_seconds(year, month)` is the number of IERS insertion dates not later than the first of that
    month, for every integer year and every month 1..12. -/
theorem table (y m : Int) (hm1 : 1 ≤ m) (hm12 : m ≤ 12) : leap_seconds y m = .ok (iers y m) :=
  leap_seconds_eq_iers y m hm1 hm12

/-- "... a non-decreasing step function of (year, month)" -/
theorem monotone (y m y' m' : Int) (hm1 : 1 ≤ m) (hm12 : m ≤ 12) (hm1' : 1 ≤ m') (hm12' : m' ≤ 12)
    (h : y < y' ∨ (y = y' ∧ m ≤ m')) :
    ∃ a b, leap_seconds y m = .ok a ∧ leap_seconds y' m' = .ok b ∧ a ≤ b :=
  ⟨iers y m, iers y' m', table y m hm1 hm12, table y' m' hm1' hm12', iers_mono y m y' m' h⟩

/-- "... and constant after it": 27 from January 2017 on, for every later year. -/
theorem constant_after_2017 (y m : Int) (hy : 2017 ≤ y) (hm1 : 1 ≤ m) (hm12 : m ≤ 12) : leap_seconds y m = .ok 27 := by
  rw [table y m hm1 hm12, iers_after y m hy hm1]

/-- no leap second before 1972 (and none until July 1972) -/
theorem zero_before_1972 (y m : Int) (hy : y < 1972) (hm1 : 1 ≤ m) (hm12 : m ≤ 12) : leap_seconds y m = .ok 0 := by
  rw [table y m hm1 hm12, iers_before y m hy]

/-- a step of exactly one second at an insertion date, e.g. 2016-12 -> 2017-01 and 1972-06 -> 1972-07 -/
theorem steps : leap_seconds 2016 12 = .ok 26 ∧ leap_seconds 2017 1 = .ok 27 ∧ leap_seconds 1972 6 = .ok 0 ∧
    leap_seconds 1972 7 = .ok 1 := by
  simp only [← isOk_iff]; decide +kernel

/-- `get_last_leap_second()` names the last IERS insertion: 2016-12-31, 27 s in total. -/
theorem last_leap_second : get_last_leap_second = (2016, 12, 31, 27) := by decide +kernel

/-- "For a civil (UTC) date on or after 1972-01-01 the Epoch built with utc=True is later than the one built
    without it by exactly 32.184 s + 10 s + the number of leap seconds the IERS had inserted before that date":
    whenever the constructor accepts the date-time (`… none none = .ok j`), for every rational day and time. -/
theorem utc_offset (y m : Int) (d h mi s j : ℚ) (hy : 1972 ≤ y)
    (htt : epoch_set_kw y m d h mi s none none = .ok j) :
    epoch_set_kw y m d h mi s (some true) none = .ok (j + (32.184 + 10 + (iers y m : ℚ)) / 86400) := by
  unfold epoch_set_kw at *
  cases hc : check_values y (get_month_int m) d h mi s with
  | error e => simp [hc] at htt
  | ok t =>
    obtain ⟨rfl, hm1, hm12, _⟩ := check_values_ok y m d h mi s t hc
    simp only [hc, compute_jde_kw_plain, Except.ok.injEq] at htt
    simp only [compute_jde_kw_utc _ _ _ hy hm1 hm12, htt]

/-- "... and by nothing before 1972" -/
theorem utc_offset_before_1972 (y m : Int) (d h mi s : ℚ) (hy : y < 1972) :
    epoch_set_kw y m d h mi s (some true) none = epoch_set_kw y m d h mi s none none := by
  unfold epoch_set_kw
  cases hc : check_values y (get_month_int m) d h mi s with
  | error e => rfl
  | ok t =>
    obtain ⟨rfl, hm1, hm12, _⟩ := check_values_ok y m d h mi s t hc
    simp only [compute_jde_kw_plain, compute_jde_kw_utc_before _ _ _ hy]

/-- `utc=False` is the same as no `utc` argument (TT input). -/
theorem utc_false (y m : Int) (d h mi s : ℚ) :
    epoch_set_kw y m d h mi s (some false) none = epoch_set_kw y m d h mi s none none := rfl

/-- "an explicit leap_seconds value replaces the table value" (constructor direction): a non-zero value `L`
    gives the offset 32.184 + 10 + L whatever the table says, and it wins over `utc=`.
    PARTIAL: `L ≠ 0` is required; for `L = 0` the clause is false of the code, see
    `override_zero_counterexample`. -/
theorem override_replaces_table_partial (y m : Int) (d h mi s j L : ℚ) (u : Option Bool) (hy : 1972 ≤ y) (hL : L ≠ 0)
    (htt : epoch_set_kw y m d h mi s none none = .ok j) :
    epoch_set_kw y m d h mi s u (some L) = .ok (j + (32.184 + 10 + L) / 86400) := by
  unfold epoch_set_kw at *
  cases hc : check_values y (get_month_int m) d h mi s with
  | error e => simp [hc] at htt
  | ok t =>
    obtain ⟨rfl, hm1, hm12, _⟩ := check_values_ok y m d h mi s t hc
    simp only [hc, compute_jde_kw_plain, Except.ok.injEq] at htt
    simp only [compute_jde_kw_override _ _ _ _ hy hL, htt]

/-- The override clause at `L = 0` is FALSE of the code: an explicit `leap_seconds=0` (with `utc=True`) adds
    nothing at all, neither 42.184 s nor the table value (1974-01-01 23:59:59). -/
theorem override_zero_counterexample :
    epoch_set_kw 1974 1 1 23 59 59 (some true) (some 0) = epoch_set_kw 1974 1 1 23 59 59 none none ∧
    epoch_set_kw 1974 1 1 23 59 59 (some true) none ≠ epoch_set_kw 1974 1 1 23 59 59 none none := by
  decide +kernel

/-- an explicit value is ignored before 1972, like the table -/
theorem override_before_1972 (y m : Int) (d h mi s L : ℚ) (u : Option Bool) (hy : y < 1972) :
    epoch_set_kw y m d h mi s u (some L) = epoch_set_kw y m d h mi s none none := by
  unfold epoch_set_kw
  cases hc : check_values y (get_month_int m) d h mi s with
  | error e => rfl
  | ok t =>
    obtain ⟨rfl, hm1, hm12, _⟩ := check_values_ok y m d h mi s t hc
    simp only [compute_jde_kw_override_before _ _ _ _ hy]

/-- "reading the date back with utc=True returns the original civil date" — exactly, in exact arithmetic: for every
    civil date from 1972-01-01 (to the end of 9998; CPython's datetime, used by the code, stops at 9999), every time of
    day h:mi:s (as a day fraction < 1), including the last seconds of a month closed by a leap second (whose TT image is
    in the next month, where the count is one higher) and the first seconds after it. -/
theorem readback_utc (y m d : Int) (h mi s j : ℚ) (hv : Valid y m d) (hy1 : 1972 ≤ y) (hy2 : y ≤ 9998)
    (hf0 : 0 ≤ h / 24 + mi / 1440 + s / 86400) (hf1 : h / 24 + mi / 1440 + s / 86400 < 1)
    (hj : epoch_set_kw y m (d : ℚ) h mi s (some true) none = .ok j) :
    get_date_kw j (some true) none = .ok (y, m, (d : ℚ) + (h / 24 + mi / 1440 + s / 86400)) := by
  unfold epoch_set_kw at hj
  cases hc : check_values y (get_month_int m) (d : ℚ) h mi s with
  | error e => simp [hc] at hj
  | ok t =>
    obtain ⟨rfl, hm1, hm12, _⟩ := check_values_ok y m (d : ℚ) h mi s t hc
    simp only [hc, compute_jde_kw_utc _ _ _ hy1 hm1 hm12, Except.ok.injEq] at hj
    rw [← hj]
    have e : (d : ℚ) + (h / 24.0 + mi / 1440.0 + s / 86400.0) = (d : ℚ) + (h / 24 + mi / 1440 + s / 86400) := by norm_num
    rw [e]
    exact readback_utc_core y m d _ hv hy1 hy2 hf0 hf1

/-- "an explicit leap_seconds value replaces the table value in both directions" (read-back direction): the epoch built
    with `leap_seconds=L` reads back, with `leap_seconds=L` (with or without `utc=`), as the original civil date-time —
    for every override 0 ≤ L (< 86000 s), 0 included (there nothing is added and nothing is subtracted). -/
theorem override_readback (y m d : Int) (h mi s j L : ℚ) (u u' : Option Bool) (hv : Valid y m d) (hy1 : 1972 ≤ y) (hy2 : y ≤ 9998)
    (hf0 : 0 ≤ h / 24 + mi / 1440 + s / 86400) (hf1 : h / 24 + mi / 1440 + s / 86400 < 1)
    (hL0 : 0 ≤ L) (hL1 : L < 86000)
    (hj : epoch_set_kw y m (d : ℚ) h mi s u (some L) = .ok j) :
    get_date_kw j u' (some L) = .ok (y, m, (d : ℚ) + (h / 24 + mi / 1440 + s / 86400)) := by
  unfold epoch_set_kw at hj
  cases hc : check_values y (get_month_int m) (d : ℚ) h mi s with
  | error e => simp [hc] at hj
  | ok t =>
    obtain ⟨rfl, hm1, hm12, _⟩ := check_values_ok y m (d : ℚ) h mi s t hc
    have e : (d : ℚ) + (h / 24.0 + mi / 1440.0 + s / 86400.0) = (d : ℚ) + (h / 24 + mi / 1440 + s / 86400) := by norm_num
    by_cases hL : L = 0
    · subst hL
      have hz : compute_jde_kw y m ((d : ℚ) + (h / 24.0 + mi / 1440.0 + s / 86400.0)) false 0
          = .ok (compute_jde y m ((d : ℚ) + (h / 24.0 + mi / 1440.0 + s / 86400.0))) := by
        have := compute_jde_kw_plain y m ((d : ℚ) + (h / 24.0 + mi / 1440.0 + s / 86400.0))
        rwa [show (0.0 : ℚ) = 0 by norm_num] at this
      simp only [hc, hz, Except.ok.injEq] at hj
      rw [← hj, get_date_kw_override_zero, e, compute_jde_frac y m d _ hf0 hf1 hv]
      exact get_date_valid y m d _ hv hf0 hf1
    · simp only [hc, compute_jde_kw_override _ _ _ _ hy1 hL, Except.ok.injEq] at hj
      rw [← hj, e]
      exact readback_override_core y m d _ L u' hv hy1 hy2 hf0 hf1 hL (by norm_num; linarith) (by norm_num; linarith)

/-- the leap-second boundary itself: 2016-12-31 23:59:30 UTC (TT image on 2017-01-01, count 27) reads back with the
    count of December (26), and 2017-01-01 00:00:10 UTC with the count of January -/
theorem readback_utc_at_leap_second :
    (∃ j, epoch_set_kw 2016 12 31 23 59 30 (some true) none = .ok j ∧
      get_date_kw j (some true) none = .ok (2016, 12, 31 + (23 / 24 + 59 / 1440 + 30 / 86400))) ∧
    (∃ j, epoch_set_kw 2017 1 1 0 0 10 (some true) none = .ok j ∧
      get_date_kw j (some true) none = .ok (2017, 1, 1 + 10 / 86400)) := by
  constructor
  · have hv : Valid 2016 12 31 := by decide
    have hj : epoch_set_kw 2016 12 ((31 : Int) : ℚ) 23 59 30 (some true) none
        = .ok (compute_jde 2016 12 (31 + (23 / 24 + 59 / 1440 + 30 / 86400)) + (32.184 + 10 + 26) / 86400) := by decide +kernel
    refine ⟨_, by simpa using hj, ?_⟩
    have := readback_utc 2016 12 31 23 59 30 _ hv (by decide) (by decide) (by norm_num) (by norm_num) hj
    simpa using this
  · have hv : Valid 2017 1 1 := by decide
    have hj : epoch_set_kw 2017 1 ((1 : Int) : ℚ) 0 0 10 (some true) none
        = .ok (compute_jde 2017 1 (1 + (0 / 24 + 0 / 1440 + 10 / 86400)) + (32.184 + 10 + 27) / 86400) := by decide +kernel
    refine ⟨_, by simpa using hj, ?_⟩
    have := readback_utc 2017 1 1 0 0 10 _ hv (by decide) (by decide) (by norm_num) (by norm_num) hj
    simpa using this

/-- "The Delta-T (TT - UT) polynomial stays within 3.5 s of 42.184 s + leap seconds over 1972-2018":
    every month of every year 1972..2018 (the rational model, evaluated by the kernel). -/
theorem deltaT_vs_leap_seconds (y m : Int) (hy1 : 1972 ≤ y) (hy2 : y ≤ 2018) (hm1 : 1 ≤ m) (hm12 : m ≤ 12) :
    |tt2ut y m - (42.184 + (iers y m : ℚ))| ≤ 3.5 := by
  have hi : (y - 1972).toNat < 47 := by omega
  have hk : (m - 1).toNat < 12 := by omega
  have := deltaT_table _ (List.mem_range.mpr hi) _ (List.mem_range.mpr hk)
  have e1 : (1972 : Int) + ((y - 1972).toNat : Int) = y := by omega
  have e2 : (1 : Int) + ((m - 1).toNat : Int) = m := by omega
  rw [e1, e2] at this
  simp only [dtOk, Bool.and_eq_true, decide_eq_true_eq] at this
  rw [abs_le]
  exact ⟨this.2, this.1⟩

/-- "... and jumps by less than 1 s at every segment joint after year -500": December of the last year of a
    polynomial segment to January of the first year of the next one. -/
theorem deltaT_joints (Y : Int) (h : Y ∈ dtJoints) : |tt2ut Y 1 - tt2ut (Y - 1) 12| < 1 := by
  have := deltaT_joint_table Y h
  simp only [jointOk, Bool.and_eq_true, decide_eq_true_eq] at this
  rw [abs_lt]
  exact ⟨this.2, this.1⟩


/-! ### Outside the documented argument range -/

/-- What `Epoch.leap_seconds(year, month)` returns for ANY numeric arguments (ints or floats, any month value): with
    `x = year + month/12` and `l = year + 1/4` (month ≤ 6) or `year + 3/4`: 0 up to x = 1972.5, 27 beyond x = 2017, otherwise
    the number of IERS dates whose instant (January = y, July = y + 1/2) is strictly below `l` — except that it returns the
    LAST table value 27 when `l ≤ 1972.5` (the index −1 wraps) and raises IndexError when `l > 2017`; both only happen for
    months outside 1..12 (e.g. `leap_seconds(1971, 19) = 27`, `leap_seconds(2017, -1)` raises). -/
theorem leap_seconds_any_arguments (year month : ℚ) :
    leap_seconds_num year month =
      if year + month / 12 ≤ 1972.5 then .ok 0
      else if 2017 < year + month / 12 then .ok 27
      else if (if month ≤ 6 then year + 1 / 4 else year + 3 / 4) ≤ 1972.5 then .ok 27
      else if 2017 < (if month ≤ 6 then year + 1 / 4 else year + 3 / 4) then .error .other
      else .ok (iersBelow (if month ≤ 6 then year + 1 / 4 else year + 3 / 4)) :=
  leap_seconds_num_eq year month

/-- the integer-argument model used by the theorems above is this function at integer values, for every month -/
theorem leap_seconds_int_arguments (y m : Int) : leap_seconds y m = leap_seconds_num (y : ℚ) (m : ℚ) :=
  leap_seconds_eq_num y m

/-- the two out-of-range behaviours, concretely -/
theorem leap_seconds_out_of_range_examples :
    leap_seconds 1971 19 = .ok 27 ∧ leap_seconds 2017 (-1) = .error .other ∧ leap_seconds_num 1972.5 1 = .ok 1 := by
  decide +kernel

/-! ### `local=` with `Epoch.utc2local()` as a parameter `off` (the wall clock itself is not modelled) -/

/-- without `local`, and with `local=False`, the constructor is exactly the one the theorems above are about -/
theorem local_absent_or_false_constructor (y m : Int) (d h mi s off : ℚ) (utc : Option Bool) (lsec : Option ℚ) :
    epoch_set_local y m d h mi s utc lsec none off = epoch_set_kw y m d h mi s utc lsec ∧
    epoch_set_local y m d h mi s utc lsec (some false) off = epoch_set_kw y m d h mi s utc lsec :=
  epoch_set_local_absent y m d h mi s off utc lsec

/-- `local=True` alone is `utc=True` plus the zone offset: the epoch is later by `off` seconds (sign as coded) -/
theorem local_constructor_is_utc_plus_offset (y m : Int) (d h mi s off : ℚ) :
    epoch_set_local y m d h mi s none none (some true) off =
      (match epoch_set_kw y m d h mi s (some true) none with
       | .error e => .error e
       | .ok j => .ok (j + off / 86400)) :=
  epoch_set_local_true y m d h mi s off

/-- with offset 0 the local path IS the utc path, in both directions -/
theorem local_zero_offset_is_utc (y m : Int) (d h mi s j : ℚ) :
    epoch_set_local y m d h mi s none none (some true) 0 = epoch_set_kw y m d h mi s (some true) none ∧
    get_date_local j none none (some true) 0 = get_date_kw j (some true) none := by
  refine ⟨?_, get_date_local_zero j true⟩
  rw [epoch_set_local_true]
  cases epoch_set_kw y m d h mi s (some true) none with
  | error e => rfl
  | ok v => simp

/-- without `local` the read-back is the one the theorems above are about -/
theorem local_absent_get_date (j off : ℚ) (utc : Option Bool) (lsec : Option ℚ) :
    get_date_local j utc lsec none off = get_date_kw j utc lsec :=
  get_date_local_none j off utc lsec

/-- `get_date(local=False)` is NOT `get_date()`: the code tests `"local" in kwargs`, so `local=False` converts TT to UTC
    like `local=True` (J2000.0 noon reads back 64.184 s earlier).  The constructor honours `local=False`. -/
theorem get_date_local_false_counterexample :
    get_date_local 2451545 none none (some false) 0 = get_date_kw 2451545 (some true) none ∧
    get_date_local 2451545 none none (some false) 0 ≠ get_date_local 2451545 none none none 0 := by
  refine ⟨get_date_local_zero _ false, ?_⟩
  decide +kernel

/-! ### Delta-T against the published polynomial expressions -/

/-- `Epoch.tt2ut(year, month)` is, for EVERY year and month, the Espenak–Meeus expression (Spec/DeltaT.lean, written from
    the publication in power form) of the segment the calendar year falls in — each of the 14 switch-over years belongs to
    the later segment — evaluated at `dtArg year month` (next two theorems). -/
theorem deltaT_is_espenak_meeus (year month : Int) : tt2ut year month = Spec.deltaT year (dtArg year month) :=
  tt2ut_eq_spec year month

/-- in −500 … 499 and 1600 … 2149 the polynomial is evaluated at the publication's decimal year y = year + (month − 0.5)/12 -/
theorem deltaT_argument_published (year month : Int) (h : (-500 ≤ year ∧ year < 500) ∨ (1600 ≤ year ∧ year < 2150)) :
    tt2ut year month = Spec.deltaT year ((year : ℚ) + ((month : ℚ) - 1 / 2) / 12) := by
  rw [deltaT_is_espenak_meeus]
  have : ¬ (year < -500 ∨ (500 ≤ year ∧ year < 1600) ∨ 2150 ≤ year) := by omega
  simp only [dtArg, this, if_false]

/-- before −500, in 500 … 1599 and from 2150 on the code evaluates the polynomial at the INTEGER year (the publication
    uses the decimal year there too): `tt2ut` does not depend on the month in those years.  Stated as coded. -/
theorem deltaT_argument_integer_year (year month month' : Int) (h : year < -500 ∨ (500 ≤ year ∧ year < 1600) ∨ 2150 ≤ year) :
    tt2ut year month = Spec.deltaT year (year : ℚ) ∧ tt2ut year month = tt2ut year month' := by
  rw [deltaT_is_espenak_meeus, deltaT_is_espenak_meeus]
  simp only [dtArg, h, if_true, and_self]

/-- the boundary years themselves: 2050 is on the 2050–2150 expression (not the 2005–2050 quadratic), 2005 on the quadratic,
    1600 on the cubic in (y − 1600), −500 on the sixth-degree polynomial -/
theorem deltaT_boundary_years (month : Int) :
    tt2ut 2050 month = (-20) + 32 * (((2050 : ℚ) + ((month : ℚ) - 1 / 2) / 12 - 1820) / 100) ^ 2
        - 0.5628 * (2150 - ((2050 : ℚ) + ((month : ℚ) - 1 / 2) / 12)) ∧
    tt2ut 2005 month = 62.92 + 0.32217 * ((2005 : ℚ) + ((month : ℚ) - 1 / 2) / 12 - 2000)
        + 0.005589 * ((2005 : ℚ) + ((month : ℚ) - 1 / 2) / 12 - 2000) ^ 2 ∧
    tt2ut 2150 month = (-20) + 32 * (((2150 : ℚ) - 1820) / 100) ^ 2 := by
  refine ⟨?_, ?_, ?_⟩
  · rw [deltaT_argument_published 2050 month (by omega)]; simp [Spec.deltaT]
  · rw [deltaT_argument_published 2005 month (by omega)]; simp [Spec.deltaT]
  · rw [(deltaT_argument_integer_year 2150 month month (by omega)).1]; simp [Spec.deltaT]

/-! ### kwargs of `get_date` -/

/-- `get_date(utc=False)` and `get_date()` are the plain read-back (no offset, whatever the year) -/
theorem get_date_utc_false_or_absent (j : ℚ) :
    get_date_kw j (some false) none = get_date j ∧ get_date_kw j none none = get_date j := by
  constructor <;>
  · unfold get_date_kw
    cases get_date j with
    | error e => rfl
    | ok t =>
      obtain ⟨y, m, d⟩ := t
      simp [get_date_deltasec, peq_zero]

/-- the 1972 gate of the constructor is the YEAR, not the leap-second count: January 1972 (count 0) already gets
    42.184 s, December 1971 gets nothing -/
theorem utc_gate_is_the_year :
    epoch_set_kw 1972 1 1 0 0 0 (some true) none = .ok (compute_jde 1972 1 1 + 42.184 / 86400) ∧
    epoch_set_kw 1971 12 31 0 0 0 (some true) none = .ok (compute_jde 1971 12 31) := by
  decide +kernel

/-- the leap-second table as the model carries it: 27 entries, keys strictly increasing (so `sorted()` is the identity),
    the k-th value is k, and the keys are the IERS dates (1 January = y, 1 July = y + 1/2) -/
theorem table_shape :
    leap_table.length = 27 ∧ leap_years.Pairwise (· < ·) ∧ leap_values = (List.range 27).map (fun k => (k : Int) + 1) ∧
    leap_years = iersDates.map iersKey := by
  refine ⟨by decide, by decide +kernel, by decide, leap_years_eq_keys⟩

/-- "… and by nothing before 1972", read-back direction: an instant whose TT date is before 1972 reads back unchanged
    with `utc=True` (every valid date, every time of day) -/
theorem readback_utc_before_1972 (y m d : Int) (f : ℚ) (h : Valid y m d) (hy : y < 1972) (hf0 : 0 ≤ f) (hf1 : f < 1) :
    get_date_kw (compute_jde y m ((d : ℚ) + f)) (some true) none = .ok (y, m, (d : ℚ) + f) := by
  unfold get_date_kw
  rw [compute_jde_frac y m d f hf0 hf1 h, get_date_valid y m d f h hf0 hf1]
  have hy' : ¬ y ≥ 1972 := by omega
  simp [get_date_deltasec, hy', peq_zero]

/-- `get_last_leap_second()` for ANY table: a last entry at a whole year `Y` names 31 December of `Y − 1`, a last entry
    at `Y + 1/2` names 30 June of `Y` (the day the leap second closes), with the table's last count -/
theorem last_leap_second_any_table (Y v : Int) :
    get_last_leap_second_of (Y : ℚ) v = (Y - 1, 12, 31, v) ∧
    get_last_leap_second_of ((Y : ℚ) + 1 / 2) v = (Y, 6, 30, v) := by
  unfold get_last_leap_second_of
  have f1 : pfloor (Y : ℚ) = Y := by rw [pfloor_eq_floor, Int.floor_intCast]
  have f2 : pfloor ((Y : ℚ) + 1 / 2) = Y := by
    rw [pfloor_eq_floor, Int.floor_eq_iff]; constructor <;> norm_num
  have m1 : pmod (Y : ℚ) 1.0 = 0 := by rw [pmod_one, Int.fract_intCast]
  have m2 : pmod ((Y : ℚ) + 1 / 2) 1.0 = 1 / 2 := by
    rw [pmod_one]; unfold Int.fract
    have : ⌊(Y : ℚ) + 1 / 2⌋ = Y := by rw [Int.floor_eq_iff]; constructor <;> norm_num
    rw [this]; ring
  have p1 : peq (0 : ℚ) 0.0 = true := by decide +kernel
  have p2 : peq (1 / 2 : ℚ) 0.0 = false := by decide +kernel
  constructor
  · simp only [f1, m1, p1, if_true]; norm_num
  · simp only [f2, m2, p2, Bool.false_eq_true, if_false]; norm_num

/-- the constructor refuses, with ValueError and whatever the kwargs, a time of day outside 0 ≤ h < 24, 0 ≤ min < 60,
    0 ≤ s < 60 — in particular the label 23:59:60 of a leap second itself cannot be entered -/
theorem refuses_time_fields_out_of_range (y m : Int) (d h mi s : ℚ) (utc : Option Bool) (lsec : Option ℚ)
    (hbad : h < 0 ∨ 24 ≤ h ∨ mi < 0 ∨ 60 ≤ mi ∨ s < 0 ∨ 60 ≤ s) :
    epoch_set_kw y m d h mi s utc lsec = .error .valueError := by
  have hc : check_values y (get_month_int m) d h mi s = .error .valueError := by
    unfold check_values
    by_cases c0 : y < -4712
    · simp only [c0, if_true]
    by_cases c1 : (plt d 1 || ple 32 d) = true
    · simp only [c0, c1, if_true, if_false]
    by_cases c2 : (plt h 0 || ple 24 h) = true
    · simp [c0, c1, c2]
    by_cases c3 : (plt mi 0 || ple 60 mi) = true
    · simp [c0, c1, c2, c3]
    by_cases c4 : (plt s 0 || ple 60 s) = true
    · simp [c0, c1, c2, c3, c4]
    exfalso
    simp only [plt, ple, Bool.or_eq_true, decide_eq_true_eq, not_or, not_lt, not_le] at c2 c3 c4
    rcases hbad with hb | hb | hb | hb | hb | hb <;> linarith [c2.1, c2.2, c3.1, c3.2, c4.1, c4.2]
  unfold epoch_set_kw
  rw [hc]

theorem leap_second_label_refused : epoch_set_kw 2016 12 31 23 59 60 (some true) none = .error .valueError :=
  refuses_time_fields_out_of_range _ _ _ _ _ _ _ _ (by norm_num)

-- Non-vacuity: the hypotheses are met by concrete inputs.
example : Valid 1971 12 31 ∧ (1971 : Int) < 1972 := by decide
example : ((-500 : Int) ≤ 2050 ∧ (2050 : Int) < 500) ∨ ((1600 : Int) ≤ 2050 ∧ (2050 : Int) < 2150) := by decide
example : dtArg 1000 3 = 1000 ∧ dtArg 2000 1 = 2000 + 1 / 24 := by constructor <;> norm_num [dtArg]
example : epoch_set_kw 2016 12 31 23 59 59 none none = .ok (compute_jde 2016 12 (31 + (23 / 24 + 59 / 1440 + 59 / 86400)) + 0) := by
  decide +kernel
example : iers 2016 12 = 26 ∧ iers 2017 1 = 27 ∧ iers 1972 1 = 0 ∧ iers 1999 12 = 22 := by decide
example : (2005 : Int) ∈ dtJoints := by decide

end Pymeeus.C10
