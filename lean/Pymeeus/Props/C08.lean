import Pymeeus.Refine.MoonNode
/-
C08 — Sun/Earth across frames; obliquity and nutation.

Property theorems only (helpers in Refine/SunEarth.lean, Refine/Vsop.lean; specifications in Spec/Vsop.lean).
Statements about `Pymeeus.GenR`, the real-number instantiation of templates/SunEarth.lean and Vsop.lean, with
the Earth's tables and the nutation tables regenerated from the source.

Not carried by any theorem (agreements between independent series; see harness/c08.py): "equals the of-date
position carried there by the library's own precession to 2″ (1e-5 AU)" and "the low-accuracy solar formulas
agree with the VSOP87 ones to 0.02°".  The comparison of the nutation with the main-term model is proved both
for the series' own node polynomial (`Spec.nutationNode`) and for `Moon.longitude_mean_ascending_node`, a
slightly different polynomial (≤ 0.06° apart for |T| ≤ 40 centuries, i.e. ≤ 0.02″ in the main term).
-/
noncomputable section
namespace Pymeeus.C08
open Pymeeus Pymeeus.PR Pymeeus.GenR Pymeeus.GenR.Helio Pymeeus.Refine.Vsop Pymeeus.Refine.SunEarth

/-! ## Reflection -/

/-- "The Sun's geocentric position is the Earth's heliocentric position reflected (longitude + 180 degrees,
    latitude negated, same distance) in geometric … form": whatever `Earth.geometric_heliocentric_position`
    returns, `Sun.geometric_geocentric_position` returns the same distance, the negated latitude and a
    longitude in [0, 360) that differs from `λ + 180` by a whole number of turns. -/
theorem reflection_geometric (jde : ℝ) (tofk5 : Bool) (lon lat r : ℝ)
    (h : Earth_geometric_heliocentric_position jde tofk5 = .ok (lon, lat, r)) :
    ∃ ls : ℝ, sun_geometric_geocentric_position jde tofk5 = .ok (ls, -lat, r) ∧ 0 ≤ ls ∧ ls < 360 ∧
      ∃ k : ℤ, ls = lon + 180 + 360 * k := by
  have hr := geometric_range jde _ _ _ tofk5 lon lat r h
  obtain ⟨ls, e, h0, h1, hk⟩ := reflect_eq lon lat r (abs_lt.mpr ⟨by linarith [hr.1], hr.2.1⟩) (abs_lt.mpr ⟨hr.2.2.1, hr.2.2.2⟩)
  exact ⟨ls, by simp [sun_geometric_geocentric_position, h, e], h0, h1, hk⟩

/-- "… and apparent form" -/
theorem reflection_apparent (jde : ℝ) (nutation : Bool) (lon lat r : ℝ)
    (h : Earth_apparent_heliocentric_position jde nutation = .ok (lon, lat, r)) :
    ∃ ls : ℝ, sun_apparent_geocentric_position jde nutation = .ok (ls, -lat, r) ∧ 0 ≤ ls ∧ ls < 360 ∧
      ∃ k : ℤ, ls = lon + 180 + 360 * k := by
  have hr := apparent_range jde _ _ _ nutation lon lat r h
  obtain ⟨ls, e, h0, h1, hk⟩ := reflect_eq lon lat r (abs_lt.mpr ⟨by linarith [hr.1], hr.2.1⟩) (abs_lt.mpr ⟨hr.2.2.1, hr.2.2.2⟩)
  exact ⟨ls, by simp [sun_apparent_geocentric_position, h, e], h0, h1, hk⟩

/-- The Sun's positions are defined whenever the Earth's are, and fail the same way otherwise. -/
theorem reflection_errors (jde : ℝ) (f : Bool) (e : PyErr) :
    (Earth_geometric_heliocentric_position jde f = .error e → sun_geometric_geocentric_position jde f = .error e) ∧
    (Earth_apparent_heliocentric_position jde f = .error e → sun_apparent_geocentric_position jde f = .error e) := by
  constructor <;> intro h <;> simp [sun_geometric_geocentric_position, sun_apparent_geocentric_position, h]

/-! ## Rectangular coordinates: "whose norm is the radius vector" -/

/-- The Sun's vector in the ecliptic frame J2000, before any rotation, has exactly the norm `r` returned by
    `Earth.geometric_heliocentric_position_j2000`. -/
theorem vector_j2000_norm (jde : ℝ) (lon lat r : ℝ) (v : ℝ × ℝ × ℝ)
    (h : Earth_geometric_heliocentric_position_j2000 jde true = .ok (lon, lat, r))
    (hv : sun_vector_j2000 jde = .ok v) : Spec.normSq v = r ^ 2 := by
  simp only [sun_vector_j2000, h, Except.ok.injEq] at hv
  rw [← hv]
  simp only [Spec.normSq, reflect, pcos, psin]
  exact spherical_normSq r _ _

/-- `rectangular_coordinates_j2000`: the matrix with decimal entries changes the squared norm by at most
    1e-9 of itself: `|x₀² + y₀² + z₀² − r²| ≤ 1e-9 r²`. -/
theorem rect_j2000_norm (jde : ℝ) (lon lat r : ℝ) (w : ℝ × ℝ × ℝ)
    (h : Earth_geometric_heliocentric_position_j2000 jde true = .ok (lon, lat, r))
    (hw : rectangular_coordinates_j2000 jde = .ok w) : |Spec.normSq w - r ^ 2| ≤ 0.000000001 * r ^ 2 := by
  unfold rectangular_coordinates_j2000 at hw
  cases hv : sun_vector_j2000 jde with
  | error e => simp [hv] at hw
  | ok v =>
    simp only [hv, Except.ok.injEq] at hw
    rw [← hw, ← vector_j2000_norm jde lon lat r v h hv]
    exact rotate_j2000_normSq v

/-- `rectangular_coordinates_equinox`: the rotation to an arbitrary mean equinox preserves the norm
    exactly, for every pair of epochs (the matrix is orthogonal, from `sin² + cos² = 1`). -/
theorem rect_equinox_norm (jde equinox_jde : ℝ) (w0 w : ℝ × ℝ × ℝ)
    (h0 : rectangular_coordinates_j2000 jde = .ok w0)
    (hw : rectangular_coordinates_equinox jde equinox_jde = .ok w) : Spec.normSq w = Spec.normSq w0 := by
  simp only [rectangular_coordinates_equinox, h0, Except.ok.injEq] at hw
  rw [← hw]
  exact rotate_equinox_normSq _ _

/-- `rectangular_coordinates_mean_equinox` AS CODED: `x² + y² + z² = r² (1 + sin² β)`, β the Sun's latitude.
    The factor `cos β` of Meeus (26.1) is missing from the three formulas of the code; since |β| ≤ 1.2″ the
    norm exceeds `r` by less than 2e-11 r (measured in harness/c08.py: 1.6e-11 AU), far below the 1e-5 AU of
    the property, so this is recorded as an observation, not as a defect. -/
theorem rect_mean_equinox_norm (jde : ℝ) (lon lat r : ℝ) (w : ℝ × ℝ × ℝ)
    (h : sun_geometric_geocentric_position jde true = .ok (lon, lat, r))
    (hw : rectangular_coordinates_mean_equinox jde = .ok w) :
    Spec.normSq w = r ^ 2 * (1 + Real.sin (angRad lat) ^ 2) := by
  simp only [rectangular_coordinates_mean_equinox, h, Except.ok.injEq] at hw
  rw [← hw]
  simp only [Spec.normSq, pcos, psin]
  have h1 := Real.sin_sq_add_cos_sq (angRad lon)
  have h2 := Real.sin_sq_add_cos_sq (angRad (mean_obliquity jde))
  set sl := Real.sin (angRad lon)
  set cl := Real.cos (angRad lon)
  set se := Real.sin (angRad (mean_obliquity jde))
  set ce := Real.cos (angRad (mean_obliquity jde))
  set sb := Real.sin (angRad lat)
  have : (r * cl) ^ 2 + (r * (sl * ce - sb * se)) ^ 2 + (r * (sl * se + sb * ce)) ^ 2
      = r ^ 2 * (cl ^ 2 + (sl ^ 2 + sb ^ 2) * (se ^ 2 + ce ^ 2)) := by ring
  rw [this, h2]
  have : cl ^ 2 = 1 - sl ^ 2 := by linarith
  rw [this]; ring

/-- Behaviour at the documented boundary of `rectangular_coordinates_equinox`: for the equinox J2000.0 itself
    the three precession angles vanish and the function returns exactly `rectangular_coordinates_j2000`
    (including its errors), for every epoch. -/
theorem rect_equinox_at_j2000 (jde : ℝ) :
    rectangular_coordinates_equinox jde 2451545 = rectangular_coordinates_j2000 jde := by
  have hz : angDms 0 0 0 = 0 := by rw [angDms_zero_zero 0 (by norm_num)]; norm_num
  have ha : equinox_angles jde 2451545 = (0, 0, 0) := by
    unfold equinox_angles
    norm_num [hz, angRad, pradians]
  unfold rectangular_coordinates_equinox
  cases h : rectangular_coordinates_j2000 jde with
  | error e => rfl
  | ok v =>
    obtain ⟨x, y, z⟩ := v
    simp [ha, rotate_equinox, pcos, psin]


/-! ## `rectangular_coordinates_b1950` is not the B1950 matrix (known finding) -/

/-- "Sun/Earth positions expressed in the … B1950 … frame": the function should apply the B1950 matrix
    (`Spec.b1950Matrix`) to the J2000 vector.  It does NOT: witness `(1, 0, 0)`. -/
theorem b1950_is_matrix_counterexample : rotate_b1950 (1, 0, 0) ≠ Spec.b1950Matrix (1, 0, 0) := by
  intro h
  have := congrArg (fun v : ℝ × ℝ × ℝ => v.2.1) h
  simp only [rotate_b1950, Spec.b1950Matrix] at this
  norm_num at this

/-- What `rectangular_coordinates_b1950` does compute (partial form of the clause): the first
    component is the matrix row applied to `(x, y, z)`; the second row is applied to `(x', y, z)` and the
    third to `(x', y', z)`, where `x'`, `y'` are the ALREADY ROTATED components.  MISSING with respect to
    the property: rows 2 and 3 applied to the original vector.  Cannot be repaired in the repository
    without changing tests/test_sun.py::test_rectangular_coordinates_b1950, which pins these numbers. -/
theorem b1950_as_coded_partial (x y z : ℝ) :
    (rotate_b1950 (x, y, z)).1 = (Spec.b1950Matrix (x, y, z)).1 ∧
    (rotate_b1950 (x, y, z)).2.1 = (Spec.b1950Matrix ((rotate_b1950 (x, y, z)).1, y, z)).2.1 ∧
    (rotate_b1950 (x, y, z)).2.2 =
      (Spec.b1950Matrix ((rotate_b1950 (x, y, z)).1, (rotate_b1950 (x, y, z)).2.1, z)).2.2 := by
  simp only [rotate_b1950, Spec.b1950Matrix, and_self]

/-! ## Obliquity and nutation -/

/-- "true obliquity is their sum": `true_obliquity = mean_obliquity + nutation_obliquity` as `Angle`s, i.e.
    up to a whole number of turns, and exactly whenever the sum is below 360° in absolute value. -/
theorem true_obliquity_sum (jde : ℝ) :
    (∃ k : ℤ, true_obliquity jde = mean_obliquity jde + nutation_obliquity jde + 360 * k) ∧
    (|mean_obliquity jde + nutation_obliquity jde| < 360 →
      true_obliquity jde = mean_obliquity jde + nutation_obliquity jde) := by
  unfold true_obliquity angAdd
  exact ⟨angReduce_congr _, angReduce_small _⟩

/-- "Mean obliquity agrees with the IAU cubic to 3 arcsec within 20 centuries of J2000": for every epoch
    with |JDE − 2451545| ≤ 730500 days (|u| ≤ 0.2), `|ε₀ − ε_IAU(T)| ≤ 3″`, T in Julian centuries. -/
theorem obliquity_vs_iau (jde : ℝ) (h : |(jde - 2451545) / 3652500| ≤ 0.2) :
    |mean_obliquity jde - Spec.iauObliquity ((jde - 2451545) / 36525)| ≤ 3 / 3600 :=
  mean_obliquity_vs_iau jde h

/-- "nutation in longitude … stay[s] within 3.5 … arcsec of the 18.6-year main-term model": for
    |T| ≤ 40 centuries (years −2000 … 6000), `|Δψ + 17.1996″ sin Ω| ≤ 3.5″`, Ω the node argument of the
    series.  The bound is the sum of the absolute values of the remaining 62 coefficients of the generated
    table (2.232″ + 0.032″) plus the secular part of the main term (0.697″). -/
theorem nutation_longitude_main_term (jde : ℝ) (h : |(jde - 2451545) / 36525| ≤ 40) :
    |nutation_longitude jde * 3600 + 17.1996 * Real.sin (Spec.nutationNode ((jde - 2451545) / 36525))| ≤ 3.5 :=
  (nutation_longitude_bound jde h).trans (by norm_num)

/-- "… and obliquity … within … 1.5 arcsec": `|Δε − 9.2025″ cos Ω| ≤ 1.5″` for |T| ≤ 40 centuries. -/
theorem nutation_obliquity_main_term (jde : ℝ) (h : |(jde - 2451545) / 36525| ≤ 40) :
    |nutation_obliquity jde * 3600 - 9.2025 * Real.cos (Spec.nutationNode ((jde - 2451545) / 36525))| ≤ 1.5 :=
  (nutation_obliquity_bound jde h).trans (by norm_num)

/-- The node used by the main-term model of the property, `Moon.longitude_mean_ascending_node`, is an
    angle in [0, 360). -/
theorem moon_node_range (jde : ℝ) :
    0 ≤ longitude_mean_ascending_node jde ∧ longitude_mean_ascending_node jde < 360 := by
  unfold longitude_mean_ascending_node angOfDeg
  exact angToPositive_range _ (angReduce_abs _).1

/-- "nutation in longitude and obliquity stay within 3.5 and 1.5 arcsec of the 18.6-year main-term model built
    on the Moon's node": with Ω = `Moon.longitude_mean_ascending_node(epoch)`, for every epoch within 40
    centuries of J2000.0, `|Δψ + 17.1996″ sin Ω| ≤ 3.5″` and `|Δε − 9.2025″ cos Ω| ≤ 1.5″`. -/
theorem nutation_vs_moon_node_model (jde : ℝ) (h : |(jde - 2451545) / 36525| ≤ 40) :
    |nutation_longitude jde * 3600 + 17.1996 * Real.sin (angRad (longitude_mean_ascending_node jde))| ≤ 3.5 ∧
    |nutation_obliquity jde * 3600 - 9.2025 * Real.cos (angRad (longitude_mean_ascending_node jde))| ≤ 1.5 :=
  ⟨(nutation_longitude_moon_node jde h).trans (by norm_num), (nutation_obliquity_moon_node jde h).trans (by norm_num)⟩

/-- Two of the library's own formulas for the longitude of the Moon's ascending node — the polynomial inside the
    nutation series and `Moon.longitude_mean_ascending_node` — agree: within 40 centuries of J2000.0 their
    sines and cosines differ by less than 0.00105 (the angles by less than 0.06°). -/
theorem moon_node_vs_nutation_node (jde : ℝ) (h : |(jde - 2451545) / 36525| ≤ 40) :
    |Real.sin (angRad (longitude_mean_ascending_node jde)) - Real.sin (Spec.nutationNode ((jde - 2451545) / 36525))| ≤ 0.00105 ∧
    |Real.cos (angRad (longitude_mean_ascending_node jde)) - Real.cos (Spec.nutationNode ((jde - 2451545) / 36525))| ≤ 0.00105 := by
  have h2 := node_difference _ h
  rw [(moon_node_trig jde).1, (moon_node_trig jde).2]
  set t := (jde - 2451545) / 36525
  have hpi : Real.pi / 180 ≤ 0.0175 := by have := Real.pi_lt_d2; linarith
  have hb : |Spec.nutationNode t - moonNodePoly t * (Real.pi / 180)| ≤ 0.00105 := h2.trans (by nlinarith)
  constructor
  · rw [abs_sub_comm]; exact (Real.abs_sin_sub_sin_le _ _).trans hb
  · rw [abs_sub_comm]; exact (Real.abs_cos_sub_cos_le _ _).trans hb

/-! ## Facts that the seeded slips hit: the arcsecond constructor, the obliquity polynomial, the tables -/

/-- `Angle(0, 0, s)` — the form in which every correction (nutation, FK5, aberration, the obliquity
    polynomial) enters an `Angle` — is exactly `s / 3600` degrees for EVERY `s` below a full turn, in
    particular at the carry boundaries `s = 60, 3600, …` and just below them (the seconds → minutes →
    degrees carries of `reduce_dms` recombine without loss); for every `s`, `|Angle(0,0,s)| ≤ |s| / 3600`. -/
theorem angle_of_arcseconds (s : ℝ) :
    (|s| < 1296000 → angDms 0 0 s = s / 3600) ∧ |angDms 0 0 s| ≤ |s| / 3600 :=
  ⟨angDms_zero_zero s, angDms_zero_zero_abs_le s⟩

/-- `mean_obliquity` in closed form, within 20 centuries of J2000.0: Laskar's polynomial with its ten
    coefficients and the constant 23°26′21.448″, `u = (JDE − 2451545) / 3652500` — every coefficient, every
    power and the unit of `u` are pinned (the IAU comparison `obliquity_vs_iau` alone tolerates 3″). -/
theorem mean_obliquity_closed_form (jde u : ℝ) (hu : u = (jde - 2451545) / 3652500) (h : |u| ≤ 0.2) :
    mean_obliquity jde = 23 + 26 / 60 + 21.448 / 3600 +
      (-4680.93 * u - 1.55 * u ^ 2 + 1999.25 * u ^ 3 - 51.38 * u ^ 4 - 249.67 * u ^ 5 - 39.05 * u ^ 6
         + 7.12 * u ^ 7 + 27.87 * u ^ 8 + 5.79 * u ^ 9 + 2.45 * u ^ 10) / 3600 := by
  subst hu
  rw [mean_obliquity_eq jde h]
  simp only [obliquityDelta]
  ring

/-- Shape of the nutation tables regenerated from the source: 63 argument rows of 5 multipliers, 63 sine
    rows and 49 cosine rows of 2 coefficients (the series pair row i of a coefficient table with row i of
    the argument table), and the first row is the node Ω alone with the main-term coefficients
    −171996 − 174.2 T and 92025 + 8.9 T (units of 0.0001″). -/
theorem nutation_tables_shape :
    NUTATION_ARG_TABLE.map List.length = List.replicate 63 5 ∧
    NUTATION_SINE_COEF_TABLE.map List.length = List.replicate 63 2 ∧
    NUTATION_COSINE_COEF_TABLE.map List.length = List.replicate 49 2 ∧
    NUTATION_ARG_TABLE.head? = some [0, 0, 0, 0, 1] ∧
    NUTATION_SINE_COEF_TABLE.head? = some [-171996.0, -174.2] ∧
    NUTATION_COSINE_COEF_TABLE.head? = some [92025.0, 8.9] :=
  ⟨by decide, rfl, rfl, rfl, rfl, rfl⟩

/-- Consistency of the Earth's J2000 tables (regenerated from the source): the `t` and `t²` terms of the
    J2000 latitude (series B1, B2) and the leading periodic term of the J2000 longitude carry ONE frequency
    `f` — the annual one — and `f` is the mean-longitude rate of series L1 (`a·10⁻⁸` rad per millennium) to
    1e-5 rad per millennium. -/
theorem earth_j2000_annual_frequency :
    ∃ f a : Int,
      (∃ A B, (Tables.Earth.BJ.getD 1 []).head? = some (A, B, f)) ∧
      (∃ A B, (Tables.Earth.BJ.getD 2 []).head? = some (A, B, f)) ∧
      (∃ A B, (Tables.Earth.LJ.getD 0 []).getD 1 (0, 0, 0) = (A, B, f)) ∧
      (Tables.Earth.LJ.getD 1 []).head? = some (a, 0, 0) ∧
      |(f : ℝ) / 10 ^ Tables.expC - (a : ℝ) / 10 ^ Tables.expA / 100000000| ≤ 0.00001 :=
  ⟨_, _, ⟨_, _, Tables.Earth.BJ_lead1⟩, ⟨_, _, Tables.Earth.BJ_lead2⟩, ⟨_, _, Tables.Earth.LJ_s0_t1⟩,
    Tables.Earth.LJ_lead1, by norm_num [Tables.expA, Tables.expC, abs_le]⟩

/-- In the Earth's of-date longitude table the third term of L0 is the second harmonic of the second term:
    its frequency is exactly twice the annual one. -/
theorem earth_second_harmonic_of_date :
    ∃ A1 B1 f A2 B2 : Int, (Tables.Earth.L.getD 0 []).getD 1 (0, 0, 0) = (A1, B1, f) ∧
      (Tables.Earth.L.getD 0 []).getD 2 (0, 0, 0) = (A2, B2, 2 * f) :=
  ⟨_, _, _, _, _, Tables.Earth.L_s0_t1, by
    rw [Tables.Earth.L_s0_t2]; exact Prod.ext rfl (Prod.ext rfl (by norm_num))⟩

/-- The same relation is FALSE in `VSOP87_L_J2000`: the third term of L0 has the frequency 12556.1517
    instead of 2 × 6283.07585 = 12566.1517 (known finding C08-j2000-series-frequency: this mistyped digit is
    what makes the J2000 / B1950 / arbitrary-equinox frame clause fail by up to 144″). -/
theorem earth_j2000_second_harmonic_counterexample :
    ¬ ∃ A1 B1 f A2 B2 : Int, (Tables.Earth.LJ.getD 0 []).getD 1 (0, 0, 0) = (A1, B1, f) ∧
      (Tables.Earth.LJ.getD 0 []).getD 2 (0, 0, 0) = (A2, B2, 2 * f) := by
  rintro ⟨A1, B1, f, A2, B2, h1, h2⟩
  rw [Tables.Earth.LJ_s0_t1] at h1
  rw [Tables.Earth.LJ_s0_t2] at h2
  simp only [Prod.mk.injEq] at h1 h2
  omega

/-! ### non-vacuity -/

example : |((60 : ℝ))| < 1296000 ∧ angDms 0 0 60 = 60 / 3600 := ⟨by norm_num, (angle_of_arcseconds 60).1 (by norm_num)⟩
example : |((2469807.5 : ℝ) - 2451545) / 3652500| ≤ 0.2 := by norm_num [abs_of_pos]

example : |((2451545 : ℝ) - 2451545) / 3652500| ≤ 0.2 := by norm_num
example : |((990557.5 : ℝ) - 2451545) / 36525| ≤ 40 := by norm_num [abs_of_neg]
example : Spec.b1950Matrix (1, 0, 0) = (0.999925702634, -0.011179418036, -0.004859003787) := by
  simp [Spec.b1950Matrix]
example : ∃ p, Earth_geometric_heliocentric_position_j2000 2451545 true = .ok p := by
  have ne : ∀ (t : List (List Tables.Term3)), t ≠ [] → vsopOfScaled t ≠ [] := by
    intro t ht; cases t with
    | nil => contradiction
    | cons a b => simp [vsopOfScaled]
  have hL := ne Tables.Earth.LJ (by simp [Tables.Earth.LJ])
  have hB := ne Tables.Earth.BJ (by simp [Tables.Earth.BJ])
  have hR := ne Tables.Earth.R (by simp [Tables.Earth.R])
  cases hv : vsop_pos 2451545 (vsopOfScaled Tables.Earth.LJ) (vsopOfScaled Tables.Earth.BJ) (vsopOfScaled Tables.Earth.R) with
  | error e =>
    exfalso
    have : ∃ e, vsop_pos 2451545 (vsopOfScaled Tables.Earth.LJ) (vsopOfScaled Tables.Earth.BJ)
        (vsopOfScaled Tables.Earth.R) = .error e := ⟨e, hv⟩
    unfold vsop_pos at this
    obtain ⟨e', he⟩ := this
    split_ifs at he with hc
    simp only [Bool.or_eq_true, List.isEmpty_iff] at hc
    rcases hc with (h | h) | h <;> contradiction
  | ok p =>
    obtain ⟨a, b, c⟩ := p
    exact ⟨((fk5_correction 2451545 a b).1, (fk5_correction 2451545 a b).2, c),
      by simp [Earth_geometric_heliocentric_position_j2000, Earth_VSOP87_L_J2000, Earth_VSOP87_B_J2000,
        Earth_VSOP87_R, geometric_vsop_pos, hv]⟩

end Pymeeus.C08
