import Pymeeus.Refine.SunEvents
import Pymeeus.Spec.SunEvents
/-
C14 — Seasons, equation of time and sunrise/sunset agree with the solar position.

Property theorems only.  They are statements about `Pymeeus.GenR.SunEvents`, the real-number
instantiation of templates/SunEvents.lean (the binary64 instantiation of the same text is compared
bit for bit with CPython by harness/c14.py).  `sunLon` (Sun.apparent_geocentric_position) and
`mk` (the constructor Epoch(jde)) are parameters of the model; every theorem quantifies over them.
All numerical bounds of the property statement are measured by the harness, not proved.
-/
namespace Pymeeus.C14
open Pymeeus Pymeeus.PR Pymeeus.GenR.SunEvents Pymeeus.Refine.SunEvents

/-! ## Seasons -/

/-- "other years raise ValueError": the approximate instant is refused exactly outside
    −1000 … 3000 (bounds as coded: `year >= -1000`, `year <= 3000`). -/
theorem season_jde0_valueerror_iff (year k : Int) :
    season_jde0 year k = .error .valueError ↔ (year < -1000 ∨ 3000 < year) := by
  unfold season_jde0
  by_cases h1 : year ≥ -1000 ∧ year < 1000
  · simp only [h1, and_self, if_true]
    constructor
    · intro h; split_ifs at h
    · intro h; omega
  · by_cases h2 : year ≥ 1000 ∧ year ≤ 3000
    · simp only [h1, h2, and_self, if_true, if_false]
      constructor
      · intro h; split_ifs at h
      · intro h; omega
    · simp only [h1, h2, if_false, true_iff]
      omega

/-- "other years raise ValueError", on the whole function: for a valid target, whatever the solar
    longitude function, the Epoch constructor and the fuel. -/
theorem season_year_out_of_range (mk : ℝ → PyRes ℝ) (sunLon : ℝ → ℝ) (fuel : Nat) (year : Int)
    (target : String) (ht : target = "spring" ∨ target = "summer" ∨ target = "autumn" ∨ target = "winter")
    (hy : year < -1000 ∨ 3000 < year) :
    get_equinox_solstice mk sunLon fuel year target = .error .valueError := by
  unfold get_equinox_solstice
  rcases ht with rfl | rfl | rfl | rfl <;>
    simp [season_index, (season_jde0_valueerror_iff year _).mpr hy]

/-- A year inside −1000 … 3000 is not refused: with a total Epoch constructor the result is never an
    exception (it is an instant or "out of fuel"). -/
theorem season_year_in_range (mk : ℝ → PyRes ℝ) (hmk : ∀ x, ∃ y, mk x = .ok y) (sunLon : ℝ → ℝ)
    (fuel : Nat) (year : Int) (target : String)
    (ht : target = "spring" ∨ target = "summer" ∨ target = "autumn" ∨ target = "winter")
    (hy : -1000 ≤ year ∧ year ≤ 3000) :
    ∃ r, get_equinox_solstice mk sunLon fuel year target = .ok r := by
  obtain ⟨k, hk⟩ : ∃ k, season_index target = .ok k := by
    rcases ht with rfl | rfl | rfl | rfl <;> simp [season_index]
  obtain ⟨j, hj⟩ := season_jde0_ok (k := k) hy
  obtain ⟨e0, he0⟩ := hmk j
  unfold get_equinox_solstice
  simp only [hk, hj, he0]
  cases hl : loopFuel (season_step mk sunLon k) fuel e0 with
  | none => exact ⟨none, rfl⟩
  | some r =>
    cases r with
    | ok e => exact ⟨some e, rfl⟩
    | error err =>
      obtain ⟨s', hs'⟩ := loopFuel_exit _ _ _ _ hl
      exact absurd hs' (season_step_no_error hmk sunLon k s' err)

/-- "ValueError if 'target' value is invalid": any string other than the four names, for every year. -/
theorem season_bad_target (mk : ℝ → PyRes ℝ) (sunLon : ℝ → ℝ) (fuel : Nat) (year : Int) (target : String)
    (ht : target ≠ "spring" ∧ target ≠ "summer" ∧ target ≠ "autumn" ∧ target ≠ "winter") :
    get_equinox_solstice mk sunLon fuel year target = .error .valueError := by
  unfold get_equinox_solstice season_index
  simp [ht.1, ht.2.1, ht.2.2.1, ht.2.2.2]

/-- The two polynomial families are selected as documented: table 27.A below year 1000, table 27.B
    from year 1000, evaluated at Y = year/1000 resp. (year − 2000)/1000; the season index picks the row. -/
theorem season_polynomial (year : Int) (k : Fin 4) (hy : -1000 ≤ year ∧ year ≤ 3000) :
    season_jde0 year (k : Int) = .ok (Spec.SunEvents.jde0 year k) := by
  unfold season_jde0 Spec.SunEvents.jde0 Spec.SunEvents.poly4
  by_cases h1 : year < 1000
  · have h1' : year ≥ -1000 ∧ year < 1000 := ⟨hy.1, h1⟩
    simp only [h1', and_self, if_true]
    fin_cases k <;> simp [Spec.SunEvents.table27A, ofInt] <;> norm_num <;> ring
  · have h1' : ¬ (year ≥ -1000 ∧ year < 1000) := by omega
    have h2 : year ≥ 1000 ∧ year ≤ 3000 := by omega
    simp only [h2, and_self, if_true, if_false, h1]
    fin_cases k <;> simp [Spec.SunEvents.table27B, ofInt] <;> norm_num <;> ring

/-- Loop post-condition (partial correctness, ANY solar-longitude function, ANY Epoch constructor):
    if `get_equinox_solstice` returns an instant `e`, there is an instant `eLast` — the last one at
    which the solar longitude was evaluated — such that the correction `corr = 58 sin(k·90° − λ(eLast))`
    computed there is at most 0.0000025 in absolute value and `e = Epoch(Epoch(eLast + corr) − corr)`
    (the final `epoch -= corr` undoes the last `epoch += corr`). Nothing is said about termination. -/
theorem season_post (mk : ℝ → PyRes ℝ) (sunLon : ℝ → ℝ) (fuel : Nat) (year : Int) (target : String) (e : ℝ)
    (h : get_equinox_solstice mk sunLon fuel year target = .ok (some e)) :
    ∃ k : Int, season_index target = .ok k ∧ ∃ eLast e' : ℝ,
      mk (eLast + season_corr k (sunLon eLast)) = .ok e' ∧
      mk (e' - season_corr k (sunLon eLast)) = .ok e ∧
      |season_corr k (sunLon eLast)| ≤ 0.0000025 := by
  unfold get_equinox_solstice at h
  cases hk : season_index target with
  | error err => rw [hk] at h; simp at h
  | ok k =>
    rw [hk] at h; simp only at h
    cases hj : season_jde0 year k with
    | error err => rw [hj] at h; simp at h
    | ok j =>
      rw [hj] at h; simp only at h
      cases he0 : mk j with
      | error err => rw [he0] at h; simp at h
      | ok e0 =>
        rw [he0] at h; simp only at h
        cases hl : loopFuel (season_step mk sunLon k) fuel e0 with
        | none => rw [hl] at h; simp at h
        | some r =>
          rw [hl] at h
          cases r with
          | error err => simp at h
          | ok e1 =>
            simp only [Except.ok.injEq, Option.some.injEq] at h
            subst h
            obtain ⟨s', hs'⟩ := loopFuel_exit _ _ _ _ hl
            obtain ⟨e', h1, h2, h3⟩ := season_step_exit hs'
            exact ⟨k, rfl, s', e', h1, h2, h3⟩

/-- Loop post-condition with the ideal constructor (`Epoch(x)` stores `x`): the returned instant `e`
    IS the last instant at which the solar longitude was evaluated, `|58 sin(k·90° − λ(e))| ≤ 0.0000025`,
    and therefore `λ(e)` is within `arcsin(0.0000025/58)` (in degrees) of `k·90°` OR OF ITS ANTIPODE
    `k·90° + 180°` (`n` even / odd) — that is all the loop condition gives; which of the two the
    iteration reaches is not proved (measured by the harness for every year −1000 … 3000). -/
theorem season_post_ideal (sunLon : ℝ → ℝ) (fuel : Nat) (year : Int) (target : String) (e : ℝ)
    (h : get_equinox_solstice (fun x => .ok x) sunLon fuel year target = .ok (some e)) :
    ∃ k : Int, season_index target = .ok k ∧
      |58 * Real.sin (season_arg k (sunLon e) * (Real.pi / 180))| ≤ 0.0000025 ∧
      ∃ n : ℤ, |((k : ℝ) * 90 - sunLon e) - 180 * n| ≤ Real.arcsin (0.0000025 / 58) * (180 / Real.pi) := by
  obtain ⟨k, hk, eLast, e', h1, h2, h3⟩ := season_post _ sunLon fuel year target e h
  simp only [Except.ok.injEq] at h1 h2
  have he : e = eLast := by rw [← h2, ← h1]; ring
  subst he
  have hc : |58 * Real.sin (season_arg k (sunLon e) * (Real.pi / 180))| ≤ 0.0000025 := by
    have : season_corr k (sunLon e) = 58 * Real.sin (season_arg k (sunLon e) * (Real.pi / 180)) := by
      unfold season_corr psin pradians; norm_num
    rw [← this]; exact h3
  refine ⟨k, hk, hc, ?_⟩
  have hs : |Real.sin (season_arg k (sunLon e) * (Real.pi / 180))| ≤ 0.0000025 / 58 := by
    rw [abs_mul] at hc
    rw [le_div_iff₀ (by norm_num)]
    have : |(58 : ℝ)| = 58 := abs_of_pos (by norm_num)
    rw [this] at hc; linarith
  obtain ⟨m, hm⟩ := near_int_mul_pi_of_abs_sin_le hs
  obtain ⟨n, hn⟩ := season_arg_congr k (sunLon e)
  refine ⟨m + 2 * n, ?_⟩
  have hpi : 0 < Real.pi := Real.pi_pos
  have key : ((k : ℝ) * 90 - sunLon e) - 180 * ((m + 2 * n : ℤ) : ℝ)
      = (season_arg k (sunLon e) * (Real.pi / 180) - m * Real.pi) * (180 / Real.pi) := by
    rw [hn]; push_cast; field_simp; ring
  rw [key, abs_mul, abs_of_pos (by positivity : (0 : ℝ) < 180 / Real.pi)]
  exact mul_le_mul_of_nonneg_right hm (by positivity)

/-! ## Equation of time -/

/-- The "±180° reduction" `e = e - 360.0 * round(e / 360.0)` does NOT reduce: carried out on `Angle`
    objects as coded it returns `e` unchanged for every `e` an Angle can hold (|e| < 360). -/
theorem eot_reduction_is_identity (e : ℝ) (h : |e| < 360) : eot_reduce e = e := eot_reduce_id h

/-- The clause "the reduction brings the value into (−180°, 180°]" is false of the code:
    358° (L0 = 359°, α = 1°: the day after the March equinox) stays 358°, and the function then
    reports 352 minutes. -/
theorem eot_reduction_counterexample :
    ¬ (-180 < eot_reduce 358 ∧ eot_reduce 358 ≤ 180) ∧ (eot_split (eot_reduce 358)).1 = 352 := by
  have h : eot_reduce 358 = 358 := eot_reduce_id (by norm_num)
  rw [h]
  refine ⟨by norm_num, ?_⟩
  unfold eot_split aMulF aReduce ple pabs pmod ptrunc imod ofInt
  norm_num [show Int.fmod 1432 360 = 352 from by decide]

/-- What remains true of the reduction (explicit hypothesis: the value already is in (−180°, 180°]):
    it stays there. Missing for the full clause: any reduction at all for 180° < |e| < 360°. -/
theorem eot_reduction_partial (e : ℝ) (h : -180 < e ∧ e ≤ 180) :
    -180 < eot_reduce e ∧ eot_reduce e ≤ 180 := by
  rw [eot_reduce_id (by rw [abs_lt]; constructor <;> linarith)]
  exact h

end Pymeeus.C14
